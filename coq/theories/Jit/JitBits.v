(* C09 — lemmas about the bit-vector primitives of JitModel.v (ranges, first-bit search, run scan, bit count) *)
From Coq Require Import ZArith List Bool Lia.
From Verif Require Import Jit.JitModel.
Import ListNotations.
Local Open Scope Z_scope.

Ltac zb :=
  repeat match goal with
  | |- context [?a <=? ?b] => destruct (Z.leb_spec a b)
  | |- context [?a <? ?b] => destruct (Z.ltb_spec a b)
  | |- context [?a =? ?b] => destruct (Z.eqb_spec a b)
  | H : context [?a <=? ?b] |- _ => destruct (Z.leb_spec a b)
  | H : context [?a <? ?b] |- _ => destruct (Z.ltb_spec a b)
  | H : context [?a =? ?b] |- _ => destruct (Z.eqb_spec a b)
  end.

Ltac splits := repeat match goal with |- _ /\ _ => split end.

Definition inr (s n i : Z) : bool := (s <=? i) && (i <? s + n).

Lemma inr_true s n i : inr s n i = true <-> s <= i < s + n.
Proof. unfold inr. zb; cbn; split; intros; try lia; try discriminate. Qed.

Lemma inr_false s n i : inr s n i = false <-> ~ (s <= i < s + n).
Proof. unfold inr. zb; cbn; split; intros; try lia; try discriminate. Qed.

Lemma tb_shl_ones s n i : 0 <= s -> 0 <= n -> Z.testbit (Z.shiftl (Z.ones n) s) i = inr s n i.
Proof.
  intros Hs Hn. unfold inr.
  destruct (Z.ltb_spec i 0).
  - rewrite Z.testbit_neg_r by lia. zb; cbn; try reflexivity; lia.
  - rewrite Z.shiftl_spec by lia. rewrite Z.testbit_ones by lia. zb; cbn; try reflexivity; lia.
Qed.

Lemma tb_set_range u s n i : 0 <= s -> 0 <= n ->
  Z.testbit (set_range u s n) i = Z.testbit u i || inr s n i.
Proof. intros. unfold set_range. rewrite Z.lor_spec, tb_shl_ones by lia. reflexivity. Qed.

Lemma tb_clear_range u s n i : 0 <= s -> 0 <= n ->
  Z.testbit (clear_range u s n) i = Z.testbit u i && negb (inr s n i).
Proof. intros. unfold clear_range. rewrite Z.ldiff_spec, tb_shl_ones by lia. reflexivity. Qed.

(* ------------------------------------------------------------------ find_from / find_bit *)
Lemma find_from_spec : forall fuel u v i,
  0 <= i ->
  let r := find_from fuel (Z.shiftr u i) v i in
  i <= fst r <= i + Z.of_nat fuel /\ snd r = Z.shiftr u (fst r) /\
  (forall k, i <= k < fst r -> Z.testbit u k = negb v) /\
  (fst r < i + Z.of_nat fuel -> Z.testbit u (fst r) = v).
Proof.
  induction fuel as [|f IH]; intros u v i Hi; cbn [find_from].
  - cbn. repeat split; try reflexivity; intros; lia.
  - assert (Hodd : Z.odd (Z.shiftr u i) = Z.testbit u i).
    { rewrite <- Z.bit0_odd, Z.shiftr_spec by lia. f_equal. }
    rewrite Hodd.
    destruct (Bool.eqb (Z.testbit u i) v) eqn:E.
    + apply Bool.eqb_prop in E. cbn. repeat split; try reflexivity; intros; try lia; exact E.
    + assert (Hd : Z.div2 (Z.shiftr u i) = Z.shiftr u (i + 1)).
      { rewrite Z.div2_spec, Z.shiftr_shiftr by lia. reflexivity. }
      rewrite Hd. specialize (IH u v (i + 1) ltac:(lia)). cbn zeta in IH.
      destruct IH as (A & B & C & D).
      repeat split; try lia; try assumption.
      * intros k Hk. destruct (Z.eq_dec k i) as [->|].
        -- apply Bool.eqb_false_iff in E. destruct (Z.testbit u i), v; cbn; congruence.
        -- apply C. lia.
      * intros. apply D. lia.
Qed.

Lemma find_bit_spec u v i e : 0 <= i <= e ->
  let j := find_bit u v i e in
  i <= j <= e /\ (forall k, i <= k < j -> Z.testbit u k = negb v) /\ (j < e -> Z.testbit u j = v).
Proof.
  intros H. unfold find_bit. pose proof (find_from_spec (Z.to_nat (e - i)) u v i ltac:(lia)) as S.
  cbn zeta in S. destruct S as (A & _ & C & D). rewrite Z2Nat.id in * by lia.
  repeat split; try lia; try assumption. intros; apply D; lia.
Qed.

(* ------------------------------------------------------------------ the run scan *)
Definition allfree (u s m : Z) : Prop := forall k, s <= k < s + m -> Z.testbit u k = false.

Definition acc_ok (u i0 i e n : Z) (acc : option (Z * Z * Z)) : Prop :=
  match acc with
  | None => forall k, i0 <= k < i -> Z.testbit u k = true
  | Some (fs, le, lg) =>
    i0 <= fs /\ fs <= le /\ le <= i /\ 0 <= lg /\ lg < n /\
    (forall k, i0 <= k < i -> Z.testbit u k = false -> fs <= k < le) /\
    (forall s m, i0 <= s -> s < i -> s + m <= e -> allfree u s m -> s + m <= i /\ m <= lg)
  end.

Definition res_ok (u i0 e n : Z) (r : scan_res) : Prop :=
  match r with
  | Found s => i0 <= s /\ s + n <= e /\ allfree u s n
  | NotFound fs le lg =>
    i0 <= fs /\ fs <= le /\ le <= e /\ 0 <= lg /\ lg < n /\
    (forall k, i0 <= k < e -> Z.testbit u k = false -> fs <= k < le) /\
    (forall s m, i0 <= s -> s + m <= e -> allfree u s m -> m <= lg)
  | NoRuns => forall k, i0 <= k < e -> Z.testbit u k = true
  end.

Lemma negb_false_true b : b = negb false -> b = true.
Proof. intros ->; reflexivity. Qed.

Lemma scan_finish_ok u i0 i e n acc :
  i <= e -> (forall k, i <= k < e -> Z.testbit u k = true) ->
  acc_ok u i0 i e n acc -> res_ok u i0 e n (scan_finish acc).
Proof.
  intros Hie Hused Hacc. destruct acc as [[[fs le] lg]|]; cbn in *.
  - destruct Hacc as (A & B & C & D & D' & E & F). splits; try lia.
    + intros k Hk Hf. destruct (Z.lt_ge_cases k i).
      * apply E; [lia|assumption].
      * rewrite Hused in Hf by lia. discriminate.
    + intros s m Hs Hsm Hfree.
      destruct (Z.le_gt_cases m 0); [lia|].
      destruct (Z.lt_ge_cases s i).
      * apply (F s m); assumption.
      * specialize (Hfree s ltac:(lia)). rewrite Hused in Hfree by lia. discriminate.
  - intros k Hk. destruct (Z.lt_ge_cases k i); [apply Hacc; lia | apply Hused; lia].
Qed.

Lemma scan_runs_ok : forall fuel u i0 i e n acc,
  0 <= i0 -> i0 <= i -> i <= e -> e - i < Z.of_nat fuel ->
  acc_ok u i0 i e n acc ->
  res_ok u i0 e n (scan_runs fuel (Z.shiftr u i) i e n acc).
Proof.
  induction fuel as [|f IH]; intros u i0 i e n acc H0 Hi Hie Hfuel Hacc.
  - cbn in Hfuel. lia.
  - cbn [scan_runs].
    pose proof (find_from_spec (Z.to_nat (e - i)) u false i ltac:(lia)) as S1. cbn zeta in S1.
    destruct (find_from (Z.to_nat (e - i)) (Z.shiftr u i) false i) as [s ws] eqn:E1. cbn [fst snd] in S1.
    rewrite Z2Nat.id in S1 by lia. destruct S1 as (A1 & B1 & C1 & D1).
    destruct (Z.leb_spec e s).
    + apply scan_finish_ok with (i := i); try lia; try assumption.
      intros k Hk. apply negb_false_true. apply C1. lia.
    + subst ws.
      pose proof (find_from_spec (Z.to_nat (e - s)) u true s ltac:(lia)) as S2. cbn zeta in S2.
      destruct (find_from (Z.to_nat (e - s)) (Z.shiftr u s) true s) as [t wt] eqn:E2. cbn [fst snd] in S2.
      rewrite Z2Nat.id in S2 by lia. destruct S2 as (A2 & B2 & C2 & D2).
      assert (Hs_free : Z.testbit u s = false) by (apply D1; lia).
      assert (Hst : s < t).
      { destruct (Z.eq_dec s t) as [->|]; [|lia]. rewrite D2 in Hs_free by lia. discriminate. }
      destruct (Z.leb_spec n (t - s)).
      * cbn. splits; try lia. intros k Hk. apply (C2 k). lia.
      * subst wt.
        assert (Hused_is : forall k, i <= k < s -> Z.testbit u k = true).
        { intros k Hk. apply negb_false_true. apply C1. lia. }
        assert (Hfree_st : forall k, s <= k < t -> Z.testbit u k = false) by (intros; apply (C2 k); lia).
        assert (Hrun : forall s' m, i <= s' -> s' < t -> 0 < m -> s' + m <= e -> allfree u s' m -> s <= s' /\ s' + m <= t).
        { intros s' m Hs1 Hs2 Hm Hme Hfr. split.
          - destruct (Z.lt_ge_cases s' s); [|lia].
            specialize (Hfr s' ltac:(lia)). rewrite Hused_is in Hfr by lia. discriminate.
          - destruct (Z.le_gt_cases (s' + m) t); [assumption|].
            specialize (Hfr t ltac:(lia)). rewrite D2 in Hfr by lia. discriminate. }
        apply IH; try lia.
        destruct acc as [[[fs le] lg]|]; cbn in Hacc |- *.
        -- destruct Hacc as (A & B & C & D & D' & E & F). splits; try lia.
           ++ intros k Hk Hf. destruct (Z.lt_ge_cases k i).
              ** specialize (E k ltac:(lia) Hf). lia.
              ** destruct (Z.lt_ge_cases k s); [rewrite Hused_is in Hf by lia; discriminate | lia].
           ++ intros s' m Hs1 Hs2 Hme Hfr.
              destruct (Z.le_gt_cases m 0); [lia|].
              destruct (Z.lt_ge_cases s' i).
              ** destruct (F s' m ltac:(lia) ltac:(lia) Hme Hfr). lia.
              ** destruct (Hrun s' m ltac:(lia) ltac:(lia) ltac:(lia) Hme Hfr). lia.
        -- splits; try lia.
           ++ intros k Hk Hf. destruct (Z.lt_ge_cases k i).
              ** rewrite Hacc in Hf by lia. discriminate.
              ** destruct (Z.lt_ge_cases k s); [rewrite Hused_is in Hf by lia; discriminate | lia].
           ++ intros s' m Hs1 Hs2 Hme Hfr.
              destruct (Z.le_gt_cases m 0); [lia|].
              destruct (Z.lt_ge_cases s' i).
              ** specialize (Hfr s' ltac:(lia)). rewrite Hacc in Hfr by lia. discriminate.
              ** destruct (Hrun s' m ltac:(lia) ltac:(lia) ltac:(lia) Hme Hfr). lia.
Qed.

Lemma scan_ok u i e n : 0 <= i -> res_ok u i (Z.max i e) n (scan u i e n) /\ (e < i -> scan u i e n = NoRuns).
Proof.
  intros Hi. unfold scan. split.
  - destruct (Z.le_gt_cases i e).
    + rewrite Z.max_r by lia. apply scan_runs_ok; try lia.
      cbn. intros; lia.
    + rewrite Z.max_l by lia. replace (Z.to_nat (e - i)) with O by lia.
      cbn. replace (Z.to_nat (e - i)) with O by lia. cbn.
      destruct (Z.leb_spec e i); [|lia]. cbn. intros; lia.
  - intros. replace (Z.to_nat (e - i)) with O by lia.
    cbn. replace (Z.to_nat (e - i)) with O by lia. cbn.
    destruct (Z.leb_spec e i); [|lia]. reflexivity.
Qed.

(* ------------------------------------------------------------------ counting set bits of [a, b) *)
Fixpoint count_from (fuel : nat) (u i : Z) : Z :=
  match fuel with
  | O => 0
  | S f => (if Z.testbit u i then 1 else 0) + count_from f u (i + 1)
  end.
Definition count (u a b : Z) : Z := count_from (Z.to_nat (b - a)) u a.

Lemma count_from_ext : forall fuel u w i,
  (forall k, i <= k < i + Z.of_nat fuel -> Z.testbit u k = Z.testbit w k) ->
  count_from fuel u i = count_from fuel w i.
Proof.
  induction fuel as [|f IH]; intros u w i H; cbn [count_from]; [reflexivity|].
  rewrite (H i) by lia. f_equal. apply IH. intros; apply H; lia.
Qed.

Lemma count_ext u w a b : (forall k, a <= k < b -> Z.testbit u k = Z.testbit w k) -> count u a b = count w a b.
Proof.
  intros H. unfold count. apply count_from_ext. intros k Hk. apply H. lia.
Qed.

Lemma count_from_bounds : forall fuel u i, 0 <= count_from fuel u i <= Z.of_nat fuel.
Proof.
  induction fuel as [|f IH]; intros; cbn [count_from]; [cbn; lia|].
  specialize (IH u (i + 1)). destruct (Z.testbit u i); lia.
Qed.

Lemma count_from_split : forall f1 f2 u i,
  count_from (f1 + f2) u i = count_from f1 u i + count_from f2 u (i + Z.of_nat f1).
Proof.
  induction f1 as [|f1 IH]; intros; cbn [count_from Nat.add].
  - cbn. f_equal. lia.
  - rewrite IH. replace (i + 1 + Z.of_nat f1) with (i + Z.of_nat (S f1)) by lia. lia.
Qed.

Lemma count_split u a b c : a <= b <= c -> count u a c = count u a b + count u b c.
Proof.
  intros H. unfold count.
  replace (Z.to_nat (c - a)) with (Z.to_nat (b - a) + Z.to_nat (c - b))%nat by lia.
  rewrite count_from_split. do 2 f_equal. lia.
Qed.

Lemma count_from_all : forall fuel u i v,
  (forall k, i <= k < i + Z.of_nat fuel -> Z.testbit u k = v) ->
  count_from fuel u i = if v then Z.of_nat fuel else 0.
Proof.
  induction fuel as [|f IH]; intros u i v H; cbn [count_from].
  - destruct v; reflexivity.
  - rewrite (H i) by lia. rewrite (IH u (i + 1) v) by (intros; apply H; lia).
    destruct v; lia.
Qed.

Lemma count_all_set u a b : a <= b -> (forall k, a <= k < b -> Z.testbit u k = true) -> count u a b = b - a.
Proof.
  intros Hab H. unfold count. rewrite (count_from_all _ _ _ true); [lia|]. intros; apply H; lia.
Qed.

Lemma count_all_clear u a b : (forall k, a <= k < b -> Z.testbit u k = false) -> count u a b = 0.
Proof.
  intros H. unfold count. rewrite (count_from_all _ _ _ false); [reflexivity|]. intros; apply H; lia.
Qed.

Lemma count_bounds u a b : a <= b -> 0 <= count u a b <= b - a.
Proof. intros. unfold count. pose proof (count_from_bounds (Z.to_nat (b - a)) u a). lia. Qed.

Lemma count_from_full : forall fuel u i,
  count_from fuel u i = Z.of_nat fuel -> forall k, i <= k < i + Z.of_nat fuel -> Z.testbit u k = true.
Proof.
  induction fuel as [|f IH]; intros u i H k Hk; [lia|].
  cbn [count_from] in H. pose proof (count_from_bounds f u (i + 1)).
  destruct (Z.testbit u i) eqn:E.
  - destruct (Z.eq_dec k i) as [->|]; [assumption|]. apply (IH u (i + 1)); lia.
  - lia.
Qed.

Lemma count_full u a b : a <= b -> count u a b = b - a -> forall k, a <= k < b -> Z.testbit u k = true.
Proof.
  intros Hab H k Hk. unfold count in H. apply (count_from_full (Z.to_nat (b - a)) u a); lia.
Qed.

Lemma count_set_range u a b s n :
  0 <= a -> a <= s -> 0 <= n -> s + n <= b ->
  (forall k, s <= k < s + n -> Z.testbit u k = false) ->
  count (set_range u s n) a b = count u a b + n.
Proof.
  intros Ha Has Hn Hb Hfree.
  rewrite (count_split _ a s b), (count_split _ s (s + n) b) by lia.
  rewrite (count_split u a s b), (count_split u s (s + n) b) by lia.
  rewrite (count_all_clear u s (s + n)) by assumption.
  rewrite (count_all_set (set_range u s n) s (s + n)) by
    (try lia; intros; rewrite tb_set_range by lia; apply orb_true_iff; right; apply inr_true; lia).
  assert (E1 : count (set_range u s n) a s = count u a s).
  { unfold count. apply count_from_ext. intros k Hk. rewrite tb_set_range by lia.
    replace (inr s n k) with false by (symmetry; apply inr_false; lia). apply orb_false_r. }
  assert (E2 : count (set_range u s n) (s + n) b = count u (s + n) b).
  { unfold count. apply count_from_ext. intros k Hk. rewrite tb_set_range by lia.
    replace (inr s n k) with false by (symmetry; apply inr_false; lia). apply orb_false_r. }
  lia.
Qed.

Lemma count_clear_range u a b s n :
  0 <= a -> a <= s -> 0 <= n -> s + n <= b ->
  (forall k, s <= k < s + n -> Z.testbit u k = true) ->
  count (clear_range u s n) a b = count u a b - n.
Proof.
  intros Ha Has Hn Hb Hset.
  rewrite (count_split _ a s b), (count_split _ s (s + n) b) by lia.
  rewrite (count_split u a s b), (count_split u s (s + n) b) by lia.
  rewrite (count_all_set u s (s + n)) by (try lia; assumption).
  rewrite (count_all_clear (clear_range u s n) s (s + n)) by
    (intros; rewrite tb_clear_range by lia; apply andb_false_iff; right;
     replace (inr s n k) with true by (symmetry; apply inr_true; lia); reflexivity).
  assert (E1 : count (clear_range u s n) a s = count u a s).
  { unfold count. apply count_from_ext. intros k Hk. rewrite tb_clear_range by lia.
    replace (inr s n k) with false by (symmetry; apply inr_false; lia). apply andb_true_r. }
  assert (E2 : count (clear_range u s n) (s + n) b = count u (s + n) b).
  { unfold count. apply count_from_ext. intros k Hk. rewrite tb_clear_range by lia.
    replace (inr s n k) with false by (symmetry; apply inr_false; lia). apply andb_true_r. }
  lia.
Qed.

Lemma count_free_run u a b s n :
  0 <= a -> a <= s -> 0 <= n -> s + n <= b ->
  (forall k, s <= k < s + n -> Z.testbit u k = false) -> count u a b <= b - a - n.
Proof.
  intros Ha Has Hn Hb Hfree.
  rewrite (count_split u a s b), (count_split u s (s + n) b) by lia.
  rewrite (count_all_clear u s (s + n)) by assumption.
  pose proof (count_bounds u a s ltac:(lia)). pose proof (count_bounds u (s + n) b ltac:(lia)). lia.
Qed.

Lemma tb_one i : Z.testbit 1 i = (i =? 0).
Proof. destruct i as [|p|p]; reflexivity. Qed.

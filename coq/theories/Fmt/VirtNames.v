(* C20 — named virtual registers of a Compiler.  A virtual register prints its NAME (free text chosen by the user) instead of
   "%<index>"; the text denotes the register only under side conditions, made explicit here: names over the alphabet
   [A-Za-z0-9_.], not an architectural register name, pairwise distinct.  Under them ONE reader (read_reg) recovers, from the text
   printed for any register operand of a Compiler line, whether it is physical (type, id) or virtual (index, cast suffix). *)
From Coq Require Import ZArith Bool Ascii String Lia.
From Coq Require Import List.
Import ListNotations.
From Verif Require Import Fmt.TextModel Fmt.TextProofs Fmt.X86FmtModel Fmt.X86FmtProofs Fmt.A64FmtModel Fmt.A64FmtProofs Fmt.LogLine Fmt.LabelVirt.
Local Open Scope Z_scope.

Definition name_char (c : ascii) : bool :=
  let n := code c in
  ((48 <=? n) && (n <=? 57)) || ((65 <=? n) && (n <=? 90)) || ((97 <=? n) && (n <=? 122)) || (n =? 46) (* . *) || (n =? 95) (* _ *).

Definition name_okb (n : text) : bool :=
  negb (Nat.eqb (length n) 0) && forallb name_char n && match assoc n arch_table with None => true | Some _ => false end.

Fixpoint find_name (env : venv) (n : text) (k : Z) : option Z :=
  match env with
  | [] => None
  | (Some nm, _) :: r => if text_eqb nm n then Some k else find_name r n (k + 1)
  | (None, _) :: r => find_name r n (k + 1)
  end.

Inductive regref := RPhys (t : x86rt) (id : Z) | RVirt (index : Z) (cast : option x86rt).

Definition pct : ascii := "%"%char.

Definition read_reg (env : venv) (x : text) : option regref :=
  if Ascii.eqb (first_char x) pct then
    match parse_virt x with Some (i, c) => Some (RVirt i c) | None => None end
  else
    match parse_reg_name x with
    | Some (t, i) => Some (RPhys t i)
    | None =>
      match split_at at_c x with
      | Some (n, ts) =>
        match assoc ts type_table with
        | Some t => match find_name env n 0 with Some i => Some (RVirt i (Some t)) | None => None end
        | None => None
        end
      | None => match find_name env x 0 with Some i => Some (RVirt i None) | None => None end
      end
    end.

(* what the operand (register type t, id) of a Compiler line is *)
Definition show_cast (regtype regcasts : bool) (vt t : x86rt) : bool := regtype || (regcasts && negb (rt_code vt =? rt_code t)).

Definition denote (env : venv) (regtype regcasts : bool) (t : x86rt) (id : Z) : regref :=
  if 256 <=? id then
    match nth_error env (Z.to_nat (id - 256)) with
    | Some (_, vt) => RVirt (id - 256) (if show_cast regtype regcasts vt t then Some t else None)
    | None => RPhys t id
    end
  else RPhys t id.

Definition names_unique (env : venv) : Prop :=
  forall i j n vt1 vt2, nth_error env i = Some (Some n, vt1) -> nth_error env j = Some (Some n, vt2) -> i = j.

Definition env_ok (env : venv) : Prop :=
  (forall i n vt, nth_error env i = Some (Some n, vt) -> name_okb n = true) /\ names_unique env.

(* ------------------------------------------------------------------ proofs *)
Lemma name_char_neq c d : name_char c = true -> name_char d = false -> Ascii.eqb c d = false.
Proof. intros H1 H2. destruct (Ascii.eqb_spec c d); [subst; congruence|reflexivity]. Qed.

Lemma name_no c n : forallb name_char n = true -> name_char c = false -> Forall (fun x => Ascii.eqb x c = false) n.
Proof.
  intros H Hc. apply forallb_Forall in H. eapply Forall_impl; [|exact H]. intros a Ha. apply name_char_neq; assumption.
Qed.

Lemma find_name_at env : forall k i n vt, nth_error env i = Some (Some n, vt) ->
  (forall j vt', (j < i)%nat -> nth_error env j <> Some (Some n, vt')) -> find_name env n k = Some (k + Z.of_nat i).
Proof.
  induction env as [|[nm vt0] r IH]; intros k i n vt H F; [destruct i; discriminate|].
  destruct i as [|i].
  - cbn [nth_error] in H. inversion H; subst. cbn [find_name]. rewrite text_eqb_refl. f_equal. cbn. lia.
  - cbn [nth_error] in H. cbn [find_name].
    assert (E : find_name r n (k + 1) = Some (k + Z.of_nat (S i))).
    { rewrite (IH (k + 1) i n vt H); [f_equal; lia|]. intros j vt' Hj. apply (F (S j) vt'). lia. }
    destruct nm as [nm|]; [|exact E].
    destruct (text_eqb nm n) eqn:T; [|exact E].
    apply text_eqb_eq in T. subst. exfalso. apply (F 0%nat vt0); [lia|reflexivity].
Qed.

Lemma find_name_unique env i n vt : names_unique env -> nth_error env i = Some (Some n, vt) -> find_name env n 0 = Some (Z.of_nat i).
Proof.
  intros U H. rewrite (find_name_at env 0 i n vt H); [reflexivity|].
  intros j vt' Hj E. pose proof (U _ _ _ _ _ E H). lia.
Qed.

Lemma type_string_not_number t : named t = true -> parse_digits 10 (type_string t) 0 = None.
Proof. destruct t; intros; try discriminate; reflexivity. Qed.

Lemma first_char_app c n r : first_char ((c :: n) ++ r) = c.
Proof. reflexivity. Qed.

Lemma read_named env regtype regcasts i n vt t :
  env_ok env -> nth_error env i = Some (Some n, vt) -> named t = true ->
  read_reg env (x86_fmt_virt regtype regcasts (Some n) (Z.of_nat i) vt t) =
  Some (RVirt (Z.of_nat i) (if show_cast regtype regcasts vt t then Some t else None)).
Proof.
  intros [OK U] H Ht. pose proof (OK _ _ _ H) as N. unfold name_okb in N.
  apply andb_prop in N as [N NA]. apply andb_prop in N as [NE NC].
  destruct (assoc n arch_table) eqn:AT; [discriminate|]. clear NA.
  assert (NoAt : Forall (fun x => Ascii.eqb x at_c = false) n) by (apply name_no; [assumption|reflexivity]).
  destruct n as [|c n']; [discriminate|]. clear NE.
  assert (Hc : Ascii.eqb c pct = false).
  { cbn [forallb] in NC. apply andb_prop in NC as [NC _]. apply name_char_neq; [assumption|reflexivity]. }
  pose proof (find_name_unique env i _ vt U H) as FN.
  unfold x86_fmt_virt, vreg_name, read_reg. fold (show_cast regtype regcasts vt t). rewrite Ht, andb_true_r.
  rewrite first_char_app, Hc.
  destruct (show_cast regtype regcasts vt t).
  - unfold parse_reg_name. rewrite split_at_app' by exact NoAt. rewrite type_string_not_number by exact Ht.
    rewrite assoc_type_string by exact Ht. rewrite FN.
    destruct (assoc (c :: n') type_table); reflexivity.
  - rewrite app_nil_r. unfold parse_reg_name. rewrite split_at_none' by exact NoAt. rewrite AT, FN. reflexivity.
Qed.

Lemma read_unnamed env regtype regcasts index vt t : id_ok index -> named t = true ->
  read_reg env (x86_fmt_virt regtype regcasts None index vt t) =
  Some (RVirt index (if show_cast regtype regcasts vt t then Some t else None)).
Proof.
  intros Hi Ht. unfold read_reg. rewrite (virt_roundtrip regtype regcasts index vt t Hi Ht).
  unfold x86_fmt_virt, vreg_name. cbn [app first_char]. reflexivity.
Qed.

Lemma lower_not_pct c : is_lower c = true -> Ascii.eqb c pct = false.
Proof. intros H. destruct (Ascii.eqb_spec c pct); [subst; discriminate|reflexivity]. Qed.

Lemma read_phys env t id : reg_ok t id -> read_reg env (fmt_reg t id) = Some (RPhys t id).
Proof.
  intros H. destruct (reg_facts t id H) as (P & L & _). unfold read_reg. rewrite (lower_not_pct _ L), P. reflexivity.
Qed.

(* every register operand of a Compiler line: the text denotes the operand *)
Theorem rp_virt_roundtrip env regtype regcasts t id : env_ok env -> reg_ok t id ->
  read_reg env (rp_virt env regtype regcasts t id) = Some (denote env regtype regcasts t id).
Proof.
  intros E [Ht Hi]. unfold rp_virt, denote. destruct (Z.leb_spec 256 id) as [G|G]; [|apply read_phys; split; assumption].
  destruct (nth_error env (Z.to_nat (id - 256))) as [[name vt]|] eqn:N; [|apply read_phys; split; assumption].
  destruct name as [n|].
  - pose proof (read_named env regtype regcasts _ n vt t E N Ht) as R. rewrite Z2Nat.id in R by lia. exact R.
  - apply read_unnamed; [unfold id_ok, two32 in *; lia|exact Ht].
Qed.

(* and distinct operands print distinct texts *)
Corollary rp_virt_injective env regtype regcasts t1 id1 t2 id2 : env_ok env -> reg_ok t1 id1 -> reg_ok t2 id2 ->
  rp_virt env regtype regcasts t1 id1 = rp_virt env regtype regcasts t2 id2 ->
  denote env regtype regcasts t1 id1 = denote env regtype regcasts t2 id2.
Proof.
  intros E H1 H2 X. pose proof (rp_virt_roundtrip env regtype regcasts t1 id1 E H1) as R1.
  rewrite X, (rp_virt_roundtrip env regtype regcasts t2 id2 E H2) in R1. inversion R1. reflexivity.
Qed.

(* the side conditions are needed: a virtual register NAMED like a physical one prints exactly like it, two virtual registers with the
   same name print alike, and a name containing '@' can imitate a cast *)
Lemma virt_name_collides_phys :
  rp_virt [(Some (s "rax"), Gp64)] false false Gp64 256 = rp_virt [(Some (s "rax"), Gp64)] false false Gp64 0.
Proof. vm_compute. reflexivity. Qed.

Lemma virt_name_duplicate :
  rp_virt [(Some (s "t"), Gp64); (Some (s "t"), Gp64)] false false Gp64 256 = rp_virt [(Some (s "t"), Gp64); (Some (s "t"), Gp64)] false false Gp64 257.
Proof. vm_compute. reflexivity. Qed.

Lemma virt_name_imitates_cast :
  rp_virt [(Some (s "t@gpd"), Gp64); (Some (s "t"), Gp64)] false false Gp64 256 = rp_virt [(Some (s "t@gpd"), Gp64); (Some (s "t"), Gp64)] true false Gp32 257.
Proof. vm_compute. reflexivity. Qed.

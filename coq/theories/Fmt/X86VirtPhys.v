(* C20 — x86 Compiler lines at full strength: for ANY environment of virtual registers, a line none of whose registers (operands, memory base / index,
   {k} mask or rep register) is a virtual register of that environment, and without home operands, is exactly the plain line. *)
From Coq Require Import ZArith Bool Ascii String Lia.
From Coq Require Import List.
Import ListNotations.
From Verif Require Import Fmt.TextModel Fmt.TextProofs Fmt.X86FmtModel Fmt.X86FmtProofs Fmt.X86InstModel Fmt.LabelVirt.
Local Open Scope Z_scope.

Definition not_virt (env : venv) (id : Z) : Prop := (256 <=? id) = false \/ nth_error env (Z.to_nat (id - 256)) = None.

Lemma rp_virt_phys env regtype regcasts t id : not_virt env id -> rp_virt env regtype regcasts t id = fmt_reg t id.
Proof. intros [H|H]; unfold rp_virt; [rewrite H; reflexivity|]. destruct (256 <=? id); [rewrite H|]; reflexivity. Qed.

Definition x86_op_phys (env : venv) (o : x86op) : Prop :=
  match o with
  | OReg _ id => not_virt env id
  | OMem m => match m_base m with MBReg _ i => not_virt env i | _ => True end /\
              match m_index m with Some (_, i) => not_virt env i | None => True end
  | _ => True
  end.

Definition x86_inst_phys (env : venv) (i : x86inst) : Prop :=
  Forall (x86_op_phys env) (i_ops i) /\ match i_extra i with Some (_, k) => not_virt env k | None => True end.

Lemma vops_toks_env env regtype regcasts f o extra :
  match extra with Some (_, k) => not_virt env k | None => True end ->
  forall ops b, Forall (x86_op_phys env) (map fst ops) ->
  vops_toks (rp_virt env regtype regcasts) (rp_virt env regtype false) f o extra b ops = vops_toks fmt_reg fmt_reg f o extra b ops.
Proof.
  intros He.
  assert (M : mask_toks_rp (rp_virt env regtype regcasts) o extra = mask_toks_rp fmt_reg o extra).
  { unfold mask_toks_rp. destruct extra as [[[] k]|]; try reflexivity. rewrite rp_virt_phys by exact He. reflexivity. }
  induction ops as [|[op h] r IH]; intros b F; [reflexivity|]. cbn [map fst] in F. inversion F as [|? ? Hop Fr]; subst.
  cbn [vops_toks]. destruct op as [|t k|m|v|id]; try reflexivity; cbn [fst snd vop_toks]; rewrite (IH false Fr), M.
  - cbn [x86_op_phys] in Hop. rewrite rp_virt_phys by exact Hop. reflexivity.
  - destruct Hop as [Hb Hi].
    assert (E : fmt_mem_toks_home (rp_virt env regtype regcasts) (rp_virt env regtype false) h f m = fmt_mem_toks_home fmt_reg fmt_reg h f m).
    { unfold fmt_mem_toks_home, index_toks_rp. destruct (m_base m) as [| |bt bi], (m_index m) as [[it ii]|], h;
        rewrite ?(rp_virt_phys env regtype regcasts), ?(rp_virt_phys env regtype false) by assumption; reflexivity. }
    rewrite E. reflexivity.
  - reflexivity.
  - reflexivity.
Qed.

Theorem fmt_inst_virt_phys env regtype regcasts f i : x86_inst_phys env i -> fmt_inst_virt env regtype regcasts f i [] = fmt_inst f i.
Proof.
  intros [Fo Fe]. rewrite <- (fmt_inst_virt_nil regtype regcasts f i). unfold fmt_inst_virt. f_equal. unfold fmt_inst_toks_rp.
  assert (Fm : Forall (x86_op_phys env) (map fst (combine (i_ops i) ([] ++ repeat false (length (i_ops i)))))).
  { cbn [app]. replace (map fst (combine (i_ops i) (repeat false (length (i_ops i))))) with (i_ops i); [exact Fo|].
    clear. induction (i_ops i) as [|a l IH]; [reflexivity|]. cbn [length repeat combine map fst]. rewrite <- IH. reflexivity. }
  rewrite (vops_toks_env env regtype regcasts f (i_opts i) (i_extra i) Fe _ true Fm).
  rewrite (vops_toks_nil regtype regcasts f (i_opts i) (i_extra i)).
  destruct (o_rep (i_opts i) || o_repne (i_opts i)); [|reflexivity].
  destruct (i_extra i) as [[t k]|]; [|reflexivity]. rewrite rp_virt_phys by exact Fe. rewrite rp_virt_nil. reflexivity.
Qed.

(* non-vacuity: physical operands in a non-empty environment satisfy the premise (whatever the options); a virtual operand does not *)
Example ex_inst_phys o :
  x86_inst_phys [(Some (s "cnt"), Gp64)] {| i_mnem := s "add"; i_opts := o; i_extra := None; i_ops := [OReg Gp64 0; OReg Gp64 3] |}.
Proof. split; [repeat constructor; left; reflexivity|exact I]. Qed.
Example ex_inst_not_phys : ~ x86_op_phys [(Some (s "cnt"), Gp64)] (OReg Gp64 256).
Proof. intros [H|H]; discriminate H. Qed.

(* C20 — transliteration of x86::FormatterInternal::format_register (physical registers) over AsmJit's raw
   reg_format_info tables (dumped from the working tree into coq/gen/X86RegTables.v on every run) and the executable
   comparison with the manual-derived naming of X86FmtModel.v. *)
From Coq Require Import ZArith Bool Ascii String Lia.
From Coq Require Import List.
Import ListNotations.
From Verif Require Import Fmt.TextModel Fmt.X86FmtModel.
Local Open Scope Z_scope.

Record aj_tables := {
  aj_type_entries : list Z;                    (* TypeEntry.index per RegType 0..31 *)
  aj_type_strings : list Z;                    (* bytes *)
  aj_name_entries : list (Z * Z * Z * Z);      (* count, format_index, special_index, special_count *)
  aj_name_strings : list Z                     (* bytes *)
}.

Definition chr (v : Z) : ascii := ascii_of_N (Z.to_N v).

(* NUL-terminated string starting at offset off *)
Fixpoint cstr (bytes : list Z) : text :=
  match bytes with
  | [] => []
  | b :: r => if b =? 0 then [] else chr b :: cstr r
  end.
Definition cstr_at (bytes : list Z) (off : Z) : text := cstr (skipn (Z.to_nat off) bytes).

(* printf with exactly one %u *)
Fixpoint printf_u (fmt : text) (v : Z) : text :=
  match fmt with
  | [] => []
  | c :: r => match r with
              | d :: r2 => if Ascii.eqb c "%"%char && Ascii.eqb d "u"%char then dec v ++ r2 else c :: printf_u r v
              | [] => [c]
              end
  end.

Definition aj_format_register (T : aj_tables) (t id : Z) : text :=
  let unknown := s "<Reg-" ++ dec t ++ s ">?" ++ dec id in
  if (0 <=? t) && (t <=? 31) then
    match nth_error (aj_name_entries T) (Z.to_nat t), nth_error (aj_type_entries T) (Z.to_nat t) with
    | Some (cnt, fidx, sidx, scnt), Some tidx =>
      if id <? scnt then cstr_at (aj_name_strings T) (sidx + id * 4)
      else if id <? cnt then printf_u (cstr_at (aj_name_strings T) fidx) id
      else if tidx =? 0 then unknown
      else cstr_at (aj_type_strings T) tidx ++ at_c :: dec id
    | _, _ => unknown
    end
  else unknown.

(* segment prefix of a memory operand: name_strings + 224 + seg * 4 *)
Definition aj_seg_prefix (T : aj_tables) (seg : Z) : text := cstr_at (aj_name_strings T) (224 + seg * 4).

Definition ids256 : list Z := map Z.of_nat (seq 0 256).
Definition types32 : list Z := map Z.of_nat (seq 0 32).

Definition tables_match (T : aj_tables) : bool :=
  forallb (fun t => forallb (fun id => text_eqb (aj_format_register T t id) (fmt_reg (rt_of_code t) id)) ids256) types32
  && forallb (fun g => text_eqb (aj_seg_prefix T g) (fmt_reg SReg g)) [1; 2; 3; 4; 5; 6].

Lemma text_eqb_true x y : text_eqb x y = true -> x = y.
Proof.
  revert y. induction x as [|c x IH]; intros [|d y] H; try discriminate; [reflexivity|].
  cbn [text_eqb] in H. apply andb_prop in H as [H1 H2]. apply Ascii.eqb_eq in H1. f_equal; auto.
Qed.

Lemma tables_match_sound T : tables_match T = true ->
  (forall t id, 0 <= t < 32 -> 0 <= id < 256 -> aj_format_register T t id = fmt_reg (rt_of_code t) id) /\
  (forall g, 1 <= g <= 6 -> aj_seg_prefix T g = fmt_reg SReg g).
Proof.
  intros H. unfold tables_match in H. apply andb_prop in H as [H1 H2]. split.
  - intros t id Ht Hid. rewrite forallb_forall in H1.
    assert (I1 : In t types32).
    { unfold types32. apply in_map_iff. exists (Z.to_nat t). split; [lia|apply in_seq; lia]. }
    specialize (H1 t I1). rewrite forallb_forall in H1.
    assert (I2 : In id ids256).
    { unfold ids256. apply in_map_iff. exists (Z.to_nat id). split; [lia|apply in_seq; lia]. }
    apply text_eqb_true, H1, I2.
  - intros g Hg. rewrite forallb_forall in H2. apply text_eqb_true, H2. cbn. lia.
Qed.

(* ------------------------------------------------------------------ ids from 256 up (virtual-range ids without a Compiler, or garbage):
   both sides print a prefix that does not depend on the id, followed by the decimal id *)
Definition aj_big_prefix (T : aj_tables) (t : Z) : option text :=
  match nth_error (aj_name_entries T) (Z.to_nat t), nth_error (aj_type_entries T) (Z.to_nat t) with
  | Some (cnt, fidx, sidx, scnt), Some tidx =>
      if (cnt <=? 256) && (scnt <=? 256)
      then Some (if tidx =? 0 then s "<Reg-" ++ dec t ++ s ">?" else cstr_at (aj_type_strings T) tidx ++ [at_c])
      else None
  | _, _ => None
  end.

Definition model_big_prefix (t : Z) : text :=
  match rt_of_code t with
  | RtOther c => s "<Reg-" ++ dec c ++ s ">?"
  | r => type_string r ++ [at_c]
  end.

Definition tables_match_big (T : aj_tables) : bool :=
  forallb (fun t => match aj_big_prefix T t with Some p => text_eqb p (model_big_prefix t) | None => false end) types32.

Lemma model_big t id : 256 <= id -> fmt_reg (rt_of_code t) id = model_big_prefix t ++ dec id.
Proof.
  intros Hid. unfold model_big_prefix.
  assert (B : forall r, named r = true -> fmt_reg r id = (type_string r ++ [at_c]) ++ dec id).
  { intros r Hr. unfold fmt_reg, x86_arch_name, gp_name, upto.
    destruct (Z.ltb_spec id 0); [lia|].
    destruct (Z.ltb_spec id 4); [lia|]. destruct (Z.ltb_spec id 8); [lia|]. destruct (Z.ltb_spec id 16); [lia|].
    destruct (Z.ltb_spec id 32); [lia|]. destruct (Z.leb_spec id 6); [lia|]. rewrite andb_false_r.
    destruct (Z.eqb_spec id 0); [lia|]. rewrite <- app_assoc. destruct r; try reflexivity; discriminate. }
  destruct (rt_of_code t) eqn:E; try (apply B; reflexivity).
  unfold fmt_reg, x86_arch_name. destruct (id <? 0); rewrite <- !app_assoc; reflexivity.
Qed.

Lemma tables_match_big_sound T : tables_match_big T = true ->
  forall t id, 0 <= t < 32 -> 256 <= id -> aj_format_register T t id = fmt_reg (rt_of_code t) id.
Proof.
  intros H t id Ht Hid. unfold tables_match_big in H. rewrite forallb_forall in H.
  assert (I1 : In t types32).
  { unfold types32. apply in_map_iff. exists (Z.to_nat t). split; [lia|apply in_seq; lia]. }
  specialize (H t I1). rewrite model_big by assumption.
  unfold aj_big_prefix in H. unfold aj_format_register.
  destruct (Z.leb_spec 0 t); [|lia]. destruct (Z.leb_spec t 31); [|lia]. cbn [andb].
  destruct (nth_error (aj_name_entries T) (Z.to_nat t)) as [[[[cnt fidx] sidx] scnt]|]; [|discriminate].
  destruct (nth_error (aj_type_entries T) (Z.to_nat t)) as [tidx|]; [|discriminate].
  destruct ((cnt <=? 256) && (scnt <=? 256)) eqn:Eb; [|discriminate].
  apply andb_prop in Eb as [E1 E2]. apply Z.leb_le in E1, E2.
  destruct (Z.ltb_spec id scnt); [lia|]. destruct (Z.ltb_spec id cnt); [lia|].
  apply text_eqb_true in H. rewrite <- H.
  destruct (tidx =? 0); rewrite <- ?app_assoc; reflexivity.
Qed.

Lemma tables_match_all T : tables_match T = true -> tables_match_big T = true ->
  forall t id, 0 <= t < 32 -> 0 <= id -> aj_format_register T t id = fmt_reg (rt_of_code t) id.
Proof.
  intros H1 H2 t id Ht Hid. destruct (Z.lt_ge_cases id 256).
  - apply (proj1 (tables_match_sound T H1)); lia.
  - apply (tables_match_big_sound T H2); lia.
Qed.

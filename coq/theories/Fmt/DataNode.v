(* C20 — Formatter::format_data (embedded data: ".db 0x01, 0x02" / ".repeat N .dq …") and the text of Builder nodes
   (Formatter::format_node: label, align, comment, embedded data summary, section, instruction + inline comment). *)
From Coq Require Import ZArith Bool Ascii String Lia.
From Coq Require Import List.
Import ListNotations.
From Verif Require Import Fmt.TextModel Fmt.TextProofs Fmt.X86FmtModel Fmt.X86FmtProofs Fmt.X86InstModel Fmt.X86InstProofs
  Fmt.A64FmtModel Fmt.A64FmtProofs.
Local Open Scope Z_scope.

(* ------------------------------------------------------------------ format_data *)
Definition data_word (a64 : bool) (size : Z) : string :=
  if a64 then (if size =? 1 then "byte" else if size =? 2 then "hword" else if size =? 4 then "word" else "xword")
  else (if size =? 1 then "db" else if size =? 2 then "dw" else if size =? 4 then "dd" else "dq").

(* sizes that are not a power of two are printed byte-wise, sizes above 8 as 8-byte items *)
Definition norm_size (size : Z) : Z :=
  if (size =? 1) || (size =? 2) || (size =? 4) || (size =? 8) then size
  else if (size =? 16) || (size =? 32) || (size =? 64) then 8 else 1.

Fixpoint le_value (bytes : list Z) : Z :=
  match bytes with [] => 0 | b :: r => b + 256 * le_value r end.

Fixpoint group (fuel : nat) (size : nat) (bytes : list Z) : list Z :=
  match fuel with
  | O => []
  | S f => match bytes with
           | [] => []
           | _ => le_value (firstn size bytes) :: group f size (skipn size bytes)
           end
  end.

Definition nf_alt : numflags := {| nf_signed := false; nf_showsign := false; nf_showspace := false; nf_alternate := true |}.
Definition item_tok (size v : Z) : tok := TId (fmt_num v 16 (2 * size) nf_alt).

Fixpoint items_toks (size : Z) (items : list Z) : list tok :=
  match items with
  | [] => []
  | [v] => [item_tok size v]
  | v :: r => item_tok size v :: P "," :: sp :: items_toks size r
  end.

Definition data_toks (a64 : bool) (size : Z) (items : list Z) (rep : Z) : list tok :=
  (if 1 <? rep then [TId (s ".repeat"); sp; TId (dec rep); sp] else [])
  ++ [TId ("."%char :: s (data_word a64 size)); sp] ++ items_toks size items.

Definition fmt_data (a64 : bool) (type_size : Z) (bytes : list Z) (rep : Z) : text :=
  let sz := norm_size type_size in
  render (data_toks a64 sz (group (length bytes) (Z.to_nat sz) bytes) rep).

(* inverse on tokens: repeat count (1 if absent), directive word, items *)
Fixpoint parse_items (ts : list tok) : option (list Z) :=
  match ts with
  | [] => Some []
  | TId x :: r =>
    match parse_num 16 x with
    | Some v =>
      match r with
      | [] => Some [v]
      | c :: r1 => if isP "," c then
                     match r1 with
                     | b :: r2 => if isP " " b then match parse_items r2 with Some l => Some (v :: l) | None => None end else None
                     | [] => None
                     end
                   else None
      end
    | None => None
    end
  | _ => None
  end.

Definition parse_data_toks (ts : list tok) : option (Z * text * list Z) :=
  let '(rep, ts1) := match ts with
                     | TId k :: r0 =>
                         if text_eqb k (s ".repeat") then
                           match r0 with
                           | a :: TId n :: b :: r =>
                               if isP " " a && isP " " b
                               then match parse_dec32 n with Some v => (Some v, r) | None => (None, ts) end
                               else (None, ts)
                           | _ => (None, ts)
                           end
                         else (Some 1, ts)
                     | _ => (Some 1, ts)
                     end in
  match rep, ts1 with
  | Some rp, TId w :: a :: r => if isP " " a then match parse_items r with Some l => Some (rp, w, l) | None => None end else None
  | _, _ => None
  end.
Definition parse_data (x : text) : option (Z * text * list Z) := parse_data_toks (lex x).

(* ------------------------------------------------------------------ proofs *)
Lemma fmt_num_alt_shape v size : 0 <= v < two64 ->
  exists body, fmt_num v 16 (2 * size) nf_alt = "0"%char :: "x"%char :: body /\ forallb is_ident_char body = true.
Proof.
  intros Hv. unfold fmt_num. cbn [nf_signed nf_showsign nf_showspace nf_alternate nf_alt andb app].
  change (16 =? 8) with false. change (16 =? 16) with true. cbv iota.
  eexists. split; [reflexivity|]. rewrite forallb_app. rewrite digits_ident by lia. rewrite andb_true_r.
  generalize (Z.to_nat (if Z.min (2 * size) 256 <=? Z.of_nat (length (digits 16 v)) then 0 else Z.min (2 * size) 256 - Z.of_nat (length (digits 16 v)))).
  intros n. induction n; [reflexivity|]. cbn [repeat forallb]. rewrite IHn. reflexivity.
Qed.

Local Transparent tok_ok.
Lemma item_tok_ok size v : 0 <= v < two64 -> tok_ok (item_tok size v) = true.
Proof.
  intros Hv. destruct (fmt_num_alt_shape v size Hv) as (body & E & B). unfold item_tok. rewrite E.
  cbn [tok_ok length Nat.eqb negb andb forallb]. rewrite B. reflexivity.
Qed.
Local Opaque tok_ok.

Lemma item_parse size v : 0 <= v < two64 -> parse_num 16 (fmt_num v 16 (2 * size) nf_alt) = Some v.
Proof. intros Hv. rewrite num_roundtrip by (auto; lia). reflexivity. Qed.

Lemma items_roundtrip size items : Forall (fun v => 0 <= v < two64) items ->
  parse_items (items_toks size items) = Some items /\ forallb tok_ok (items_toks size items) = true /\
  no_adjacent_ids (items_toks size items) = true.
Proof.
  induction 1 as [|v r Hv F IH]; [repeat split; reflexivity|].
  destruct IH as (I1 & I2 & I3). destruct r as [|v' r'].
  - cbn [items_toks]. split; [|split].
    + unfold item_tok. cbn [parse_items]. rewrite item_parse by assumption. reflexivity.
    + cbn [forallb]. rewrite item_tok_ok by assumption. reflexivity.
    + reflexivity.
  - change (items_toks size (v :: v' :: r')) with (item_tok size v :: P "," :: sp :: items_toks size (v' :: r')).
    split; [|split].
    + unfold item_tok at 1. cbn [parse_items]. rewrite item_parse by assumption.
      change (isP "," (P ",")) with true. change (isP " " sp) with true. cbv iota. rewrite I1. reflexivity.
    + cbn [forallb]. rewrite item_tok_ok, I2 by assumption. reflexivity.
    + unfold item_tok at 1. cbn [no_adjacent_ids]. exact I3.
Qed.

Theorem data_roundtrip a64 size items rep :
  (size = 1 \/ size = 2 \/ size = 4 \/ size = 8) -> Forall (fun v => 0 <= v < two64) items -> 1 <= rep < two32 ->
  parse_data (render (data_toks a64 size items rep)) = Some (rep, "."%char :: s (data_word a64 size), items).
Proof.
  intros Hs Hi Hr. destruct (items_roundtrip size items Hi) as (I1 & I2 & I3).
  assert (Wok : tok_ok (TId ("."%char :: s (data_word a64 size))) = true).
  { destruct a64; destruct Hs as [-> | [-> | [-> | ->]]]; reflexivity. }
  assert (Wrep : text_eqb ("."%char :: s (data_word a64 size)) (s ".repeat") = false).
  { destruct a64; destruct Hs as [-> | [-> | [-> | ->]]]; reflexivity. }
  assert (Sp : tok_ok sp = true) by reflexivity.
  unfold parse_data. rewrite lex_render.
  - unfold data_toks, parse_data_toks. destruct (Z.ltb_spec 1 rep).
    + cbn [app]. change (text_eqb (s ".repeat") (s ".repeat")) with true. change (isP " " sp) with true. cbn [andb].
      rewrite parse_dec32_dec by lia. rewrite I1. reflexivity.
    + assert (rep = 1) by lia. subst rep. cbn [app]. rewrite Wrep. change (isP " " sp) with true. cbv iota. rewrite I1. reflexivity.
  - unfold data_toks. rewrite !forallb_app, I2. cbn [forallb]. rewrite Wok, Sp.
    destruct (1 <? rep); [|reflexivity]. cbn [forallb]. rewrite Sp, tok_ok_dec by lia. reflexivity.
  - unfold data_toks. apply no_adj_app; [destruct (1 <? rep); reflexivity| |left; destruct (1 <? rep); reflexivity].
    apply no_adj_app; [reflexivity|exact I3|left; reflexivity].
Qed.

(* ------------------------------------------------------------------ Builder nodes (Formatter::format_node), x86 *)
Inductive node :=
| NLabel (id : Z)
| NAlign (n : Z) (code : bool)
| NComment (c : text)
| NEmbed (size count rep total : Z)
| NSection (name : text)
| NInst (i : x86inst)
| NEmbedLabel (id size : Z)                  (* EmbedLabelNode: the data size is NOT printed *)
| NEmbedLabelDelta (id base size : Z)
| NConstPool (size align : Z)
| NSentinel (func_end : bool).

Definition node_body (f : fflags) (n : node) : text :=
  match n with
  | NLabel id => label_text id ++ s ":"
  | NAlign k code => s ".align " ++ dec k ++ s " (" ++ s (if code then "code" else "data") ++ s ")"
  | NComment c => s "; " ++ c
  | NEmbed size count rep total =>
      "."%char :: s (data_word false size) ++ s " {Count=" ++ dec count ++ s " Repeat=" ++ dec rep ++ s " TotalSize=" ++ dec total ++ s "}"
  | NSection name => s ".section " ++ name
  | NInst i => fmt_inst f i
  | NEmbedLabel id _ => s ".label " ++ label_text id
  | NEmbedLabelDelta id base _ => s ".label (" ++ label_text id ++ s " - " ++ label_text base ++ s ")"
  | NConstPool size align => s "[ConstPool Size=" ++ dec size ++ s " Alignment=" ++ dec align ++ s "]"
  | NSentinel fe => s (if fe then "[FuncEnd]" else "[Sentinel]")
  end.


(* inline comment: padded to the regular-line column, "; " comment — not for comment nodes (they return early) *)
Definition fmt_node (f : fflags) (pad : nat) (n : node) (inline : text) : text :=
  match n with
  | NComment _ => node_body f n
  | _ => match inline with
         | [] => node_body f n
         | _ => pad_end (node_body f n) pad ++ s "; " ++ inline
         end
  end.

(* an EmbedLabelNode of 4 bytes and one of 8 bytes print alike (the Assembler's own log line says ".dd L3" / ".dq L3") *)
Lemma embed_label_node_size_lost f pad inline id : fmt_node f pad (NEmbedLabel id 4) inline = fmt_node f pad (NEmbedLabel id 8) inline.
Proof. reflexivity. Qed.

(* FormatFlags::kPositions: "<%05u> " before a node that has a position; the inline-comment padding starts after it *)
Definition fmt_node_pos (positions : bool) (pos : Z) (f : fflags) (pad : nat) (n : node) (inline : text) : text :=
  (if positions && negb (pos =? 0) then "<"%char :: fmt_num pos 10 5 nf_none ++ s "> " else []) ++ fmt_node f pad n inline.

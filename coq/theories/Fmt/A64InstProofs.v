(* C20 — whole AArch64 instruction lines parse back (extend operator printed: fixed = true) *)
From Coq Require Import ZArith Bool Ascii String Lia.
From Coq Require Import List.
Import ListNotations.
From Verif Require Import Fmt.TextModel Fmt.TextProofs Fmt.X86FmtModel Fmt.X86FmtProofs Fmt.X86InstProofs
  Fmt.A64FmtModel Fmt.A64FmtProofs.
Local Open Scope Z_scope.

Definition is_mem (o : a64op) : bool := match o with AOMem _ => true | _ => false end.

Fixpoint mem_last (ops : list a64op) : Prop :=
  match ops with
  | [] => True
  | o :: r => match r with [] => True | _ => is_mem o = false end /\ mem_last r
  end.

(* ------------------------------------------------------------------ splitting *)
Lemma a64_split_inmem l : forall cur, split_ops_a64 true cur l = [rev cur ++ l].
Proof.
  induction l as [|t l IH]; intros cur; cbn [split_ops_a64]; [rewrite app_nil_r; reflexivity|].
  rewrite IH. cbn [rev]. rewrite <- app_assoc. reflexivity.
Qed.

Lemma a64_split_pass l : forall cur rest, forallb nocomma l = true ->
  (cur = [] -> match l with t0 :: _ => isP "[" t0 = false | [] => True end) ->
  split_ops_a64 false cur (l ++ rest) = split_ops_a64 false (rev l ++ cur) rest.
Proof.
  induction l as [|t l IH]; intros cur rest Hn Hh; [reflexivity|].
  cbn [forallb] in Hn. apply andb_prop in Hn as [H1 H2]. unfold nocomma in H1. apply negb_true_iff in H1.
  cbn [app split_ops_a64].
  assert (Hc : isP "[" t && match cur with [] => true | _ => false end = false).
  { destruct cur; [rewrite (Hh eq_refl); reflexivity|apply andb_false_r]. }
  rewrite Hc, H1. rewrite IH; [|assumption|discriminate]. cbn [rev]. rewrite <- app_assoc. reflexivity.
Qed.

Lemma non_mem_toks f o : is_mem o = false ->
  forallb nocomma (a64_op_toks true f o) = true /\
  match a64_op_toks true f o with t0 :: _ => isP "[" t0 = false | [] => True end.
Proof.
  destruct o as [|t id et ei|m|v p|id]; cbn [is_mem a64_op_toks]; try discriminate; intros _.
  - split; reflexivity.
  - unfold a64_reg_toks. destruct (a64_special t id); [split; reflexivity|]. destruct ei; split; reflexivity.
  - unfold a64_imm_toks, shift_toks, fmt_imm_toks.
    destruct (p =? 0); destruct (shift_name p); destruct (ff_hex_imms f && _); try destruct (v <? 0); split; reflexivity.
  - split; reflexivity.
Qed.

Lemma mem_toks_head f m : exists r, a64_mem_toks true f m = P "[" :: r.
Proof. unfold a64_mem_toks. eexists. reflexivity. Qed.

Definition vis64 (o : a64op) : Prop := a64_op_ok o /\ o <> AONone.

Lemma a64_ops_cons f first o r : o <> AONone ->
  a64_ops_toks true f first (o :: r) =
  (if first then [sp] else [P ","; sp]) ++ a64_op_toks true f o ++ a64_ops_toks true f false r.
Proof. intros Hn. destruct o; try congruence; reflexivity. Qed.

Lemma a64_split_ops f : forall ops cur, Forall vis64 ops -> mem_last ops ->
  split_ops_a64 false cur (a64_ops_toks true f false ops) = rev cur :: map (a64_op_toks true f) ops.
Proof.
  induction ops as [|o r IH]; intros cur Hv Hl; [reflexivity|].
  inversion Hv as [|? ? [Hok Hn] Hr]; subst. destruct Hl as [Hl1 Hl2].
  rewrite a64_ops_cons by assumption.
  cbn [app split_ops_a64 isP P first_char s list_ascii_of_string Ascii.eqb Bool.eqb andb sp].
  destruct (is_mem o) eqn:Em.
  - (* a memory operand is the last one *)
    destruct r as [|o' r']; [|discriminate Hl1].
    cbn [a64_ops_toks map]. rewrite app_nil_r.
    destruct o; try discriminate Em. cbn [a64_op_toks]. destruct (mem_toks_head f m) as (r0 & E). rewrite E.
    cbn [split_ops_a64 isP P first_char s list_ascii_of_string Ascii.eqb Bool.eqb andb].
    rewrite a64_split_inmem. reflexivity.
  - destruct (non_mem_toks f o Em) as [N1 N2].
    rewrite a64_split_pass; [|assumption|intros _; exact N2].
    rewrite app_nil_r. rewrite IH by assumption. rewrite rev_involutive. reflexivity.
Qed.

Lemma a64_parse_all f : forall ops, Forall vis64 ops ->
  parse_all_ops (map (a64_op_toks true f) ops) = Some (map a64_canon_op ops).
Proof.
  induction ops as [|o r IH]; intros Hv; [reflexivity|].
  inversion Hv as [|? ? [Hok _] Hr]; subst. cbn [map parse_all_ops].
  rewrite (proj1 (a64_op_toks_roundtrip f o Hok)), IH by assumption. reflexivity.
Qed.

(* ------------------------------------------------------------------ mnemonic and condition code *)
Definition mnem64_ok (m : text) : Prop :=
  m <> [] /\ forallb is_ident_char m = true /\ Forall (fun c => Ascii.eqb c "."%char = false) m.

Lemma cond_facts cc : 1 <= cc <= 15 ->
  exists n, nth_error cond_names (Z.to_nat cc) = Some n /\ index_of (s n) cond_names 0 = Some cc /\
            forallb is_ident_char (s n) = true.
Proof.
  intros H.
  assert (K : forall k : nat, (1 <= k < 16)%nat ->
            let n := nth k cond_names ""%string in
            nth_error cond_names k = Some n /\ index_of (s n) cond_names 0 = Some (Z.of_nat k) /\ forallb is_ident_char (s n) = true).
  { intros k Hk. do 16 (destruct k as [|k]; [try lia; vm_compute; auto|]). lia. }
  exists (nth (Z.to_nat cc) cond_names ""%string).
  specialize (K (Z.to_nat cc) ltac:(lia)). rewrite Z2Nat.id in K by lia. exact K.
Qed.

Definition a64_inst_ok (i : a64inst) : Prop :=
  mnem64_ok (ai_mnem i) /\ 0 <= ai_cond i <= 15 /\ Forall a64_op_ok (a64_until_none (ai_ops i)) /\
  mem_last (a64_until_none (ai_ops i)).

Lemma a64_until_not_none ops : Forall (fun o => o <> AONone) (a64_until_none ops).
Proof. induction ops as [|o r IH]; [constructor|]. destruct o; cbn [a64_until_none]; constructor; auto; discriminate. Qed.

Lemma a64_ops_until f ops : forall first, a64_ops_toks true f first ops = a64_ops_toks true f first (a64_until_none ops).
Proof.
  induction ops as [|o r IH]; intros first; [reflexivity|].
  destruct o; cbn [a64_until_none a64_ops_toks]; try reflexivity; rewrite (IH false); reflexivity.
Qed.

Lemma mnem_split i : mnem64_ok (ai_mnem i) -> 0 <= ai_cond i <= 15 ->
  match split_at "."%char (a64_mnem_text i) with
  | Some (a, b) => (a, index_of b cond_names 0)
  | None => (a64_mnem_text i, Some 0)
  end = (ai_mnem i, Some (ai_cond i)) /\ tok_ok (TId (a64_mnem_text i)) = true.
Proof.
  intros (Hne & Hid & Hnd) Hc. unfold a64_mnem_text.
  destruct (Z.eqb_spec (ai_cond i) 0) as [E|E].
  - rewrite app_nil_r, split_at_none by assumption. rewrite E. split; [reflexivity|].
    Local Transparent tok_ok. cbn [tok_ok]. rewrite Hid. destruct (ai_mnem i); [congruence|reflexivity].
  - destruct (cond_facts (ai_cond i) ltac:(lia)) as (n & N1 & N2 & N3). rewrite N1.
    rewrite split_at_app by assumption. rewrite N2. split; [reflexivity|].
    cbn [tok_ok]. rewrite forallb_app. cbn [forallb]. rewrite Hid, N3.
    destruct (ai_mnem i); [congruence|reflexivity].
Qed.
Local Opaque tok_ok.

(* ------------------------------------------------------------------ lines *)
Theorem a64_inst_toks_roundtrip f i : a64_inst_ok i ->
  parse_a64_inst_toks (a64_inst_toks true f i) = Some (a64_canon_inst i).
Proof.
  intros (Hm & Hc & Hops & Hl).
  unfold a64_inst_toks, parse_a64_inst_toks. rewrite (proj1 (mnem_split i Hm Hc)).
  rewrite a64_ops_until. unfold a64_canon_inst.
  pose proof (a64_until_not_none (ai_ops i)) as Hnn.
  assert (Hv : Forall vis64 (a64_until_none (ai_ops i))).
  { clear - Hops Hnn. induction (a64_until_none (ai_ops i)); constructor; inversion Hops; inversion Hnn; subst; [split; assumption|auto]. }
  destruct (a64_until_none (ai_ops i)) as [|o r] eqn:Ev; [reflexivity|].
  inversion Hv as [|? ? [Hok Hn] Hr]; subst. destruct Hl as [Hl1 Hl2].
  rewrite a64_ops_cons by assumption. cbn [app isP P first_char s list_ascii_of_string Ascii.eqb Bool.eqb sp].
  assert (S : split_ops_a64 false [] (a64_op_toks true f o ++ a64_ops_toks true f false r) =
              map (a64_op_toks true f) (o :: r)).
  { destruct (is_mem o) eqn:Em.
    - destruct r as [|o' r']; [|discriminate Hl1]. cbn [a64_ops_toks map]. rewrite app_nil_r.
      destruct o; try discriminate Em. cbn [a64_op_toks]. destruct (mem_toks_head f m) as (r0 & E). rewrite E.
      cbn [split_ops_a64 isP P first_char s list_ascii_of_string Ascii.eqb Bool.eqb andb]. rewrite a64_split_inmem. reflexivity.
    - destruct (non_mem_toks f o Em) as [N1 N2].
      rewrite a64_split_pass; [|assumption|intros _; exact N2]. rewrite app_nil_r.
      rewrite a64_split_ops by assumption. rewrite rev_involutive. reflexivity. }
  rewrite S. rewrite a64_parse_all by (constructor; [split|]; assumption). reflexivity.
Qed.

Lemma a64_ops_wf f : forall ops first, Forall vis64 ops ->
  wf3 (a64_ops_toks true f first ops) /\ starts_with_id (a64_ops_toks true f first ops) = false.
Proof.
  induction ops as [|o r IH]; intros first Hv; [split; [split|]; reflexivity|].
  inversion Hv as [|? ? [Hok Hn] Hr]; subst. rewrite a64_ops_cons by assumption.
  destruct (IH false Hr) as [WR SR]. destruct (a64_op_toks_roundtrip f o Hok) as (_ & O2 & O3).
  assert (WS : wf3 (if first then [sp] else [P ","; sp]) /\ ends_with_punct (if first then [sp] else [P ","; sp]) = true)
    by (destruct first; split; try split; reflexivity).
  destruct WS as [WS ES]. split.
  - apply wf3_app; [exact WS| |left; exact ES]. apply wf3_app; [split; assumption|exact WR|right; exact SR].
  - destruct first; reflexivity.
Qed.

Theorem a64_inst_roundtrip f i : a64_inst_ok i ->
  parse_a64_inst (a64_fmt_inst true f i) = Some (a64_canon_inst i).
Proof.
  intros H. pose proof H as (Hm & Hc & Hops & Hl).
  pose proof (a64_until_not_none (ai_ops i)) as Hnn.
  assert (Hv : Forall vis64 (a64_until_none (ai_ops i))).
  { clear - Hops Hnn. induction (a64_until_none (ai_ops i)); constructor; inversion Hops; inversion Hnn; subst; [split; assumption|auto]. }
  destruct (a64_ops_wf f (a64_until_none (ai_ops i)) true Hv) as [WO SO]. rewrite <- a64_ops_until in WO, SO.
  assert (W : wf3 (a64_inst_toks true f i)).
  { unfold a64_inst_toks. change (TId (a64_mnem_text i) :: a64_ops_toks true f true (ai_ops i))
      with ([TId (a64_mnem_text i)] ++ a64_ops_toks true f true (ai_ops i)).
    apply wf3_app; [|exact WO|right; exact SO].
    split; [cbn [forallb]; rewrite (proj2 (mnem_split i Hm Hc)); reflexivity|reflexivity]. }
  destruct W as [W1 W2].
  unfold parse_a64_inst, a64_fmt_inst. rewrite lex_render by assumption. apply a64_inst_toks_roundtrip; assumption.
Qed.

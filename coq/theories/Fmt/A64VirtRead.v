(* C20 — reading an AArch64 virtual-register operand back: "%3", "acc.4s", "ptr", "%2.s[1]" -> index of the virtual register, element suffix, element
   index.  (The register TYPE is not in the text: C20_a64_virt_reg_size_refuted.)  Names over [A-Za-z0-9_], pairwise distinct. *)
From Coq Require Import ZArith Bool Ascii String Lia.
From Coq Require Import List.
Import ListNotations.
From Verif Require Import Fmt.TextModel Fmt.TextProofs Fmt.X86FmtModel Fmt.X86FmtProofs Fmt.A64FmtModel Fmt.A64FmtProofs Fmt.LogLine Fmt.LabelVirt
  Fmt.VirtNames Fmt.FuncValue Fmt.A64Virt.
Local Open Scope Z_scope.

Definition name_char64 (c : ascii) : bool :=
  let n := code c in
  ((48 <=? n) && (n <=? 57)) || ((65 <=? n) && (n <=? 90)) || ((97 <=? n) && (n <=? 122)) || (n =? 95) (* _ *).

Fixpoint find_name64 (env : a64venv) (n : text) (k : Z) : option Z :=
  match env with
  | [] => None
  | (Some nm, _) :: r => if text_eqb nm n then Some k else find_name64 r n (k + 1)
  | (None, _) :: r => find_name64 r n (k + 1)
  end.

Definition dotc : ascii := "."%char.

Definition read_name64 (env : a64venv) (b : text) : option (Z * text) :=
  let '(nm, suf) := match split_at dotc b with Some (n, sf) => (n, dotc :: sf) | None => (b, []) end in
  match (if Ascii.eqb (first_char nm) pct then parse_dec32 (tl nm) else find_name64 env nm 0) with
  | Some ix => Some (ix, suf)
  | None => None
  end.

Definition read_a64_virt (env : a64venv) (x : text) : option (Z * text * option Z) :=
  match split_at lbr x with
  | Some (b, r) =>
    if Ascii.eqb (last r "000"%char) rbr then
      match parse_dec32 (removelast r), read_name64 env b with Some i, Some (ix, suf) => Some (ix, suf, Some i) | _, _ => None end
    else None
  | None => match read_name64 env x with Some (ix, suf) => Some (ix, suf, None) | None => None end
  end.

Definition env_ok64 (env : a64venv) : Prop :=
  (forall i n vt, nth_error env i = Some (Some n, vt) -> n <> [] /\ forallb name_char64 n = true) /\
  (forall i j n vt1 vt2, nth_error env i = Some (Some n, vt1) -> nth_error env j = Some (Some n, vt2) -> i = j).

(* ------------------------------------------------------------------ proofs *)
Lemma find_name64_at env : forall k i n vt, nth_error env i = Some (Some n, vt) ->
  (forall j vt', (j < i)%nat -> nth_error env j <> Some (Some n, vt')) -> find_name64 env n k = Some (k + Z.of_nat i).
Proof.
  induction env as [|[nm vt0] r IH]; intros k i n vt H F; [destruct i; discriminate|].
  destruct i as [|i].
  - cbn [nth_error] in H. inversion H; subst. cbn [find_name64]. rewrite text_eqb_refl. f_equal. cbn. lia.
  - cbn [nth_error] in H. cbn [find_name64].
    assert (E : find_name64 r n (k + 1) = Some (k + Z.of_nat (S i))).
    { rewrite (IH (k + 1) i n vt H); [f_equal; lia|]. intros j vt' Hj. apply (F (S j) vt'). lia. }
    destruct nm as [nm|]; [|exact E].
    destruct (text_eqb nm n) eqn:T; [|exact E].
    apply text_eqb_eq in T. subst. exfalso. apply (F 0%nat vt0); [lia|reflexivity].
Qed.

Lemma nc64_neq c d : name_char64 c = true -> name_char64 d = false -> Ascii.eqb c d = false.
Proof. intros H1 H2. destruct (Ascii.eqb_spec c d); [subst; congruence|reflexivity]. Qed.

Lemma nc64_no c n : forallb name_char64 n = true -> name_char64 c = false -> Forall (fun x => Ascii.eqb x c = false) n.
Proof. intros H Hc. apply forallb_Forall in H. eapply Forall_impl; [|exact H]. intros a Ha. apply nc64_neq; assumption. Qed.

Lemma suffix_no_lbr t et : Forall (fun x => Ascii.eqb x lbr = false) (a64_elem_suffix t et).
Proof.
  unfold a64_elem_suffix. destruct (et =? 0); [constructor|]. constructor; [reflexivity|].
  apply Forall_app; split.
  - destruct (_ =? 0); [constructor|]. set (c := match t with AVec64 => _ | _ => _ end).
    destruct (Z.lt_ge_cases c 0) as [N|N].
    + (* digits of a negative number: still produced by the digit loop; all its characters are digit characters *)
      unfold dec. apply Forall_forall. intros x Hx.
      pose proof (digits_ident 10 c) as D. destruct (Ascii.eqb_spec x lbr) as [->|]; [|reflexivity].
      exfalso. clear - Hx N. unfold c in *. clear c.
      unfold elem_count in *. repeat (destruct (_ =? _) in *; try (cbn in N; lia)); destruct t; cbn in N; lia.
    + apply dec_no; [exact N|reflexivity].
  - constructor; [|constructor]. unfold elem_letter. repeat (destruct (_ || _) || destruct (_ =? _)); reflexivity.
Qed.

Lemma suffix_shape t et : a64_elem_suffix t et = [] \/ exists sf, a64_elem_suffix t et = dotc :: sf.
Proof. unfold a64_elem_suffix. destruct (et =? 0); [left; reflexivity|right; eexists; reflexivity]. Qed.

Section RT.
  Variable env : a64venv.
  Hypothesis E : env_ok64 env.

  (* the name part: no '.', no '[' ; resolves to the index *)
  Lemma name_facts i name vt : nth_error env i = Some (name, vt) -> id_ok (Z.of_nat i) ->
    let nm := vreg_name name (Z.of_nat i) in
    Forall (fun x => Ascii.eqb x dotc = false) nm /\ Forall (fun x => Ascii.eqb x lbr = false) nm /\
    (if Ascii.eqb (first_char nm) pct then parse_dec32 (tl nm) else find_name64 env nm 0) = Some (Z.of_nat i).
  Proof.
    intros N Hi. destruct E as [OK U]. destruct name as [n|]; cbn [vreg_name].
    - destruct (OK _ _ _ N) as [NE NC].
      split; [apply nc64_no; [exact NC|reflexivity]|]. split; [apply nc64_no; [exact NC|reflexivity]|].
      destruct n as [|c n']; [congruence|]. cbn [first_char].
      assert (Hc : Ascii.eqb c pct = false).
      { cbn [forallb] in NC. apply andb_prop in NC as [NC _]. apply nc64_neq; [exact NC|reflexivity]. }
      rewrite Hc. rewrite (find_name64_at env 0 i (c :: n') vt N); [reflexivity|].
      intros j vt' Hj Ej. pose proof (U _ _ _ _ _ Ej N). lia.
    - unfold id_ok in Hi. split; [constructor; [reflexivity|apply dec_no; [lia|reflexivity]]|].
      split; [constructor; [reflexivity|apply dec_no; [lia|reflexivity]]|].
      cbn [first_char tl]. change (Ascii.eqb "%" pct) with true. cbv iota. apply parse_dec32_dec. exact Hi.
  Qed.

  Lemma read_name64_rt i name vt t et : nth_error env i = Some (name, vt) -> id_ok (Z.of_nat i) ->
    read_name64 env (vreg_name name (Z.of_nat i) ++ a64_elem_suffix t et) = Some (Z.of_nat i, a64_elem_suffix t et).
  Proof.
    intros N Hi. destruct (name_facts i name vt N Hi) as (ND & _ & R). unfold read_name64.
    destruct (suffix_shape t et) as [S0|(sf & S1)].
    - rewrite S0, app_nil_r. rewrite split_at_none' by exact ND. rewrite R. reflexivity.
    - rewrite S1. rewrite split_at_app' by exact ND. rewrite R. reflexivity.
  Qed.

  Theorem read_a64_virt_roundtrip i name vt t et ei : nth_error env i = Some (name, vt) -> id_ok (Z.of_nat i) ->
    match ei with Some e => id_ok e | None => True end ->
    read_a64_virt env (a64_fmt_virt name (Z.of_nat i) t et ei) = Some (Z.of_nat i, a64_elem_suffix t et, ei).
  Proof.
    intros N Hi He. destruct (name_facts i name vt N Hi) as (_ & NL & _).
    assert (BL : Forall (fun x => Ascii.eqb x lbr = false) (vreg_name name (Z.of_nat i) ++ a64_elem_suffix t et))
      by (apply Forall_app; split; [exact NL|apply suffix_no_lbr]).
    unfold read_a64_virt, a64_fmt_virt. destruct ei as [e|].
    - change (render [P "["; TId (dec e); P "]"]) with (lbr :: dec e ++ [rbr]).
      rewrite app_assoc. rewrite split_at_app' by exact BL.
      rewrite last_last, removelast_last. change (Ascii.eqb rbr rbr) with true. cbv iota.
      rewrite parse_dec32_dec by exact He. rewrite (read_name64_rt i name vt t et N Hi). reflexivity.
    - rewrite app_nil_r. rewrite split_at_none' by exact BL. rewrite (read_name64_rt i name vt t et N Hi). reflexivity.
  Qed.
End RT.

(* non-vacuity *)
Definition ex_env64 : a64venv := [(None, AGp32); (Some (s "vacc"), AVec128)].
Lemma ex_env64_ok : env_ok64 ex_env64.
Proof.
  split.
  - intros i n vt H. destruct i as [|[|i]]; cbn in H; try discriminate; [inversion H; subst; split; [discriminate|reflexivity]|destruct i; discriminate].
  - intros i j n vt1 vt2 H1 H2. destruct i as [|[|i]]; cbn in H1; try discriminate; try (destruct i; discriminate);
    destruct j as [|[|j]]; cbn in H2; try discriminate; try (destruct j; discriminate); reflexivity.
Qed.
Example ex_a64_virt_text : a64_fmt_virt (Some (s "vacc")) 1 AVec128 3 (Some 2) = s "vacc.4s[2]".
Proof. vm_compute. reflexivity. Qed.
Example ex_a64_virt_read : read_a64_virt ex_env64 (s "vacc.4s[2]") = Some (1, s ".4s", Some 2).
Proof. vm_compute. reflexivity. Qed.

(* C20 — the OTHER direction of the readers ("completeness" of the denotation): a strict reader = proven reader + canonical re-print accepts EXACTLY the
   texts the formatter prints: whatever it accepts is the print of what it returns (no junk is read as an instruction), and every print of a canonical
   value is accepted.  Generic lemma and its instances for registers, register lists, operands and whole lines of both architectures. *)
From Coq Require Import ZArith Bool Ascii String Lia.
From Coq Require Import List.
Import ListNotations.
From Verif Require Import Fmt.TextModel Fmt.TextProofs Fmt.X86FmtModel Fmt.X86FmtProofs Fmt.X86InstModel Fmt.X86InstProofs
  Fmt.A64FmtModel Fmt.A64FmtProofs Fmt.A64InstProofs Fmt.RegList Fmt.RegListAll.
Local Open Scope Z_scope.

Section Generic.
  Variable A : Type.
  Variable fmt : A -> text.
  Variable rd : text -> option A.

  Definition strict (x : text) : option A :=
    match rd x with Some a => if text_eqb (fmt a) x then Some a else None | None => None end.

  (* soundness: an accepted text is the print of the value returned - unconditionally *)
  Lemma strict_sound x a : strict x = Some a -> fmt a = x.
  Proof. unfold strict. destruct (rd x) as [b|]; [|discriminate]. destruct (text_eqb (fmt b) x) eqn:E; [|discriminate]. intros H. inversion H; subst. apply text_eqb_eq; exact E. Qed.

  (* completeness on the values the reader returns for their own print *)
  Lemma strict_complete a : rd (fmt a) = Some a -> strict (fmt a) = Some a.
  Proof. intros H. unfold strict. rewrite H, text_eqb_refl. reflexivity. Qed.

  (* hence: two accepted texts with the same reading are the same text, and the accepted texts are exactly the prints *)
  Lemma strict_injective x y a : strict x = Some a -> strict y = Some a -> x = y.
  Proof. intros H1 H2. rewrite <- (strict_sound x a H1). apply strict_sound; exact H2. Qed.

  Lemma strict_image (ok : A -> Prop) : (forall a, ok a -> rd (fmt a) = Some a) ->
    forall x, (exists a, ok a /\ x = fmt a) -> strict x <> None.
  Proof. intros R x (a & Ha & ->). rewrite (strict_complete a (R a Ha)). discriminate. Qed.
End Generic.

(* ------------------------------------------------------------------ x86 register names: parse_reg_name itself is already strict *)
Lemma assoc_in {V} x (tbl : list (text * V)) v : assoc x tbl = Some v -> In (x, v) tbl.
Proof.
  induction tbl as [|[k w] r IH]; [discriminate|]. cbn [assoc]. destruct (text_eqb x k) eqn:E.
  - intros H. inversion H; subst. apply text_eqb_eq in E. subst. left; reflexivity.
  - intros H. right. apply IH; exact H.
Qed.

Lemma arch_table_prints : forallb (fun e => text_eqb (fmt_reg (fst (snd e)) (snd (snd e))) (fst e)) arch_table = true.
Proof. vm_compute. reflexivity. Qed.

Theorem parse_reg_name_sound x t i : parse_reg_name x = Some (t, i) -> fmt_reg t i = x.
Proof.
  unfold parse_reg_name. destruct (split_at at_c x) as [[ts ds]|].
  - destruct (assoc ts type_table) as [t'|]; [|discriminate]. destruct (parse_digits 10 ds 0) as [i'|]; [|discriminate].
    destruct ((i' <? two32) && text_eqb (fmt_reg t' i') x) eqn:E; [|discriminate]. intros H. inversion H; subst.
    apply andb_prop in E as [_ E]. apply text_eqb_eq; exact E.
  - intros H. apply assoc_in in H. pose proof (proj1 (forallb_forall _ _) arch_table_prints _ H) as P. cbn [fst snd] in P. apply text_eqb_eq; exact P.
Qed.

(* AArch64 register names: every candidate is re-printed by parse_a64_reg *)
Lemma try_sound x suf t0 i0 t i et :
  match suf with
  | None => if text_eqb (a64_reg_text t0 i0 0) x then Some (t0, i0, 0) else None
  | Some sf => match parse_elem t0 sf with
               | Some et0 => if text_eqb (a64_reg_text t0 i0 et0) x then Some (t0, i0, et0) else None
               | None => None
               end
  end = Some (t, i, et) -> a64_reg_text t i et = x.
Proof.
  destruct suf as [sf|].
  - destruct (parse_elem t0 sf) as [et0|]; [|discriminate]. destruct (text_eqb (a64_reg_text t0 i0 et0) x) eqn:E; [|discriminate].
    intros H. inversion H; subst. apply text_eqb_eq; exact E.
  - destruct (text_eqb (a64_reg_text t0 i0 0) x) eqn:E; [|discriminate]. intros H. inversion H; subst. apply text_eqb_eq; exact E.
Qed.

Theorem parse_a64_reg_sound x t i et : parse_a64_reg x = Some (t, i, et) -> a64_reg_text t i et = x.
Proof.
  unfold parse_a64_reg.
  destruct (match split_at "."%char x with Some (a, b) => (a, Some b) | None => (x, None) end) as [nm suf]. cbv zeta.
  match goal with |- match ?cands with _ => _ end = _ -> _ => destruct cands as [|[t1 i1] [|[t2 i2] r]] end; [discriminate|apply try_sound|].
  match goal with |- match ?e with _ => _ end = _ -> _ => destruct e as [r1|] eqn:E1 end.
  - intros H. inversion H; subst. apply (try_sound x suf t1 i1). exact E1.
  - apply try_sound.
Qed.

(* consequence: the register readers are injective on what they accept (two texts read as one register are one text) *)
Corollary parse_reg_name_injective x y r : parse_reg_name x = Some r -> parse_reg_name y = Some r -> x = y.
Proof. destruct r as [t i]. intros H1 H2. rewrite <- (parse_reg_name_sound x t i H1). apply parse_reg_name_sound; exact H2. Qed.

(* ------------------------------------------------------------------ strict readers *)
Definition strict_reglist : text -> option Z := strict Z (fmt_reglist a32_reg) parse_reglist.
Definition strict_operand (f : fflags) : text -> option x86op := strict x86op (fmt_operand f) parse_operand.
Definition strict_inst (f : fflags) : text -> option x86inst := strict x86inst (fmt_inst f) parse_inst.
Definition strict_a64_operand (f : fflags) : text -> option a64op := strict a64op (a64_fmt_operand true f) parse_a64_operand.
Definition strict_a64_inst (f : fflags) : text -> option a64inst := strict a64inst (a64_fmt_inst true f) parse_a64_inst.

(* register lists: the strict reader is a bijection between the masks below 2^16 and the texts it accepts *)
Theorem strict_reglist_exact :
  (forall m, 0 <= m < 65536 -> strict_reglist (fmt_reglist a32_reg m) = Some m) /\
  (forall x m, strict_reglist x = Some m -> x = fmt_reglist a32_reg m).
Proof.
  split.
  - intros m H. apply strict_complete. apply reglist_roundtrip; exact H.
  - intros x m H. symmetry. exact (strict_sound _ _ _ x m H).
Qed.

(* operands and lines: whatever the strict reader accepts is the print (under these flags) of what it returns; the print of every canonical
   well-formed value is accepted and read as itself *)
Theorem strict_x86_exact f :
  (forall x o, strict_operand f x = Some o -> fmt_operand f o = x) /\
  (forall o, op_ok o -> canon_op o = o -> strict_operand f (fmt_operand f o) = Some o) /\
  (forall x i, strict_inst f x = Some i -> fmt_inst f i = x) /\
  (forall i, inst_ok i -> canon_inst i = i -> strict_inst f (fmt_inst f i) = Some i).
Proof.
  split; [intros x o; apply strict_sound|]. split.
  - intros o H C. apply strict_complete. rewrite (operand_roundtrip f o H), C. reflexivity.
  - split; [intros x i; apply strict_sound|]. intros i H C. apply strict_complete. rewrite (inst_roundtrip f i H), C. reflexivity.
Qed.

Theorem strict_a64_exact f :
  (forall x o, strict_a64_operand f x = Some o -> a64_fmt_operand true f o = x) /\
  (forall o, a64_op_ok o -> a64_canon_op o = o -> strict_a64_operand f (a64_fmt_operand true f o) = Some o) /\
  (forall x i, strict_a64_inst f x = Some i -> a64_fmt_inst true f i = x) /\
  (forall i, a64_inst_ok i -> a64_canon_inst i = i -> strict_a64_inst f (a64_fmt_inst true f i) = Some i).
Proof.
  split; [intros x o; apply strict_sound|]. split.
  - intros o H C. apply strict_complete. rewrite (a64_operand_roundtrip f o H), C. reflexivity.
  - split; [intros x i; apply strict_sound|]. intros i H C. apply strict_complete. rewrite (a64_inst_roundtrip f i H), C. reflexivity.
Qed.

(* ------------------------------------------------------------------ the side condition "a memory operand is the last operand" of the AArch64 line theorem
   cannot be dropped: an operand behind a memory operand prints exactly like a post-index *)
Definition f00 : fflags := {| ff_hex_imms := false; ff_hex_offsets := false |}.
Definition mem_x1 (mode off : Z) : a64mem :=
  {| am_base := ABReg AGp64 1; am_index := None; am_shiftop := 0; am_shift := 0; am_mode := mode; am_off := off |}.
Lemma a64_mem_not_last_witness :
  a64_fmt_inst true f00 {| ai_mnem := s "ldr"; ai_cond := 0; ai_ops := [AOReg AGp64 0 0 None; AOMem (mem_x1 0 0); AOImm 8 0] |} =
  a64_fmt_inst true f00 {| ai_mnem := s "ldr"; ai_cond := 0; ai_ops := [AOReg AGp64 0 0 None; AOMem (mem_x1 2 8)] |}.
Proof. vm_compute. reflexivity. Qed.

(* non-vacuity *)
Example ex_strict_reg : parse_reg_name (s "r10d") = Some (Gp32, 10) /\ fmt_reg Gp32 10 = s "r10d" /\ parse_reg_name (s "r10dd") = None.
Proof. repeat split; vm_compute; reflexivity. Qed.
Example ex_strict_reglist : strict_reglist (s "{r0-r3, r15}") = Some 32783 /\ strict_reglist (s "{r0, r1, r2, r3, r15}") = None /\ parse_reglist (s "{r0, r1, r2, r3, r15}") = Some 32783.
Proof. repeat split; vm_compute; reflexivity. Qed.
Example ex_strict_inst : strict_inst f00 (s "add eax, 1") <> None /\ strict_inst f00 (s "add  eax, 1") = None.
Proof. split; [vm_compute; discriminate|vm_compute; reflexivity]. Qed.

(* C20 — the premises of the FuncNode-line theorems are DECIDABLE (fvalue_okb / lvalue_okb / arg_okb, sound for fvalue_ok / lvalue_ok / arg_ok), so the driver
   can state for every FuncNode line it reads that C20_x86_func_line_roundtrip / C20_a64_func_line_roundtrip apply to what it read. *)
From Coq Require Import ZArith Bool Ascii String Lia.
From Coq Require Import List.
Import ListNotations.
From Verif Require Import Fmt.TextModel Fmt.TextProofs Fmt.X86FmtModel Fmt.X86FmtProofs Fmt.A64FmtModel Fmt.A64FmtProofs Fmt.LogLine Fmt.FuncValue Fmt.FuncLine
  Fmt.EnumNames Fmt.DomainCheck.
Local Open Scope Z_scope.

Definition cleanb (c : ascii) : bool := negb (Ascii.eqb c spc) && negb (Ascii.eqb c comma).
Lemma cleanb_ok x : forallb cleanb x = true -> Forall clean x.
Proof.
  intros H. apply forallb_Forall in H. eapply Forall_impl; [|exact H]. intros a Ha. unfold cleanb in Ha. apply andb_prop in Ha as [A B].
  split; [destruct (Ascii.eqb a spc); [discriminate A|reflexivity]|destruct (Ascii.eqb a comma); [discriminate B|reflexivity]].
Qed.

Section Generic.
  Variable R : Type.
  Variable ok : R -> Prop.
  Variable okb : R -> bool.
  Hypothesis okb_ok : forall r, okb r = true -> ok r.

  Definition fa_okb (a : fassign R) : bool := match a with FAReg r => okb r | FAStack off => (- two63 <=? off) && (off <? two63) end.
  Definition lvalue_okb (v : fvalue R) : bool :=
    type_name_okb (fst v) && match snd v with Some (_, a) => fa_okb a | None => true end.
  Definition arg_okb (p : fvalue R * option text) : bool :=
    lvalue_okb (fst p) && match snd p with Some n => forallb cleanb n && negb (text_eqb n none_name) | None => true end.

  Lemma lvalue_okb_ok v : lvalue_okb v = true -> lvalue_ok R ok v.
  Proof.
    unfold lvalue_okb, lvalue_ok, fvalue_ok. intros H. apply andb_prop in H as [T A]. destruct (type_name_okb_sound _ T) as (C & NA & NV).
    split; [split; [exact NA|]|split; [exact C|exact NV]].
    destruct (snd v) as [[ind a]|]; [|exact I]. destruct a as [r|off]; cbn [fa_okb fa_ok] in *; [apply okb_ok; exact A|].
    apply andb_prop in A as [A1 A2]. apply Z.leb_le in A1. apply Z.ltb_lt in A2. lia.
  Qed.

  Lemma arg_okb_ok p : arg_okb p = true -> arg_ok R ok p.
  Proof.
    unfold arg_okb, arg_ok. intros H. apply andb_prop in H as [V N]. split; [apply lvalue_okb_ok; exact V|].
    destruct (snd p) as [n|]; cbn [name_okP]; [|exact I]. apply andb_prop in N as [N1 N2]. split; [apply cleanb_ok; exact N1|].
    intros E. subst. rewrite text_eqb_refl in N2. discriminate N2.
  Qed.

  Definition func_line_okb (ret : option (fvalue R)) (args : list (fvalue R * option text)) : bool :=
    match ret with Some v => lvalue_okb v | None => true end && forallb arg_okb args.

  Lemma func_line_okb_ok ret args : func_line_okb ret args = true ->
    match ret with Some v => lvalue_ok R ok v | None => True end /\ Forall (arg_ok R ok) args.
  Proof.
    unfold func_line_okb. intros H. apply andb_prop in H as [A B]. split; [destruct ret; [apply lvalue_okb_ok; exact A|exact I]|].
    apply forallb_Forall in B. eapply Forall_impl; [|exact B]. intros a Ha. apply arg_okb_ok; exact Ha.
  Qed.
End Generic.

Definition x86_func_line_okb := func_line_okb (x86rt * Z) (fun r => reg_okb (fst r) (snd r)).
Definition a64_func_line_okb := func_line_okb (a64rt * Z) (fun r => a64_reg_okb (fst r) (snd r) 0).

Theorem x86_func_line_okb_sound ret args : x86_func_line_okb ret args = true ->
  match ret with Some v => lvalue_ok _ x86_reg_okP v | None => True end /\ Forall (arg_ok _ x86_reg_okP) args.
Proof. apply func_line_okb_ok. intros [t i] H. apply reg_okb_ok. exact H. Qed.

Theorem a64_func_line_okb_sound ret args : a64_func_line_okb ret args = true ->
  match ret with Some v => lvalue_ok _ a64_reg_okP v | None => True end /\ Forall (arg_ok _ a64_reg_okP) args.
Proof.
  apply func_line_okb_ok. intros [t i] H. cbn [fst snd] in H. unfold a64_reg_okP, a64_reg_okb in *. cbn [fst snd].
  apply andb_prop in H as [H E]. apply andb_prop in H as [N I]. split; [exact N|]. split; [apply id_okb_ok; exact I|apply et_okb_ok; exact E].
Qed.

Example ex_func_line_okb : x86_func_line_okb (Some (s "int32", Some (false, FAReg (Gp32, 0)))) ex_args = true.
Proof. vm_compute. reflexivity. Qed.

(* C20 — whole AArch64 lines printed through an a64::Compiler: every register (operand, memory base, memory index) that is a virtual
   register of the Compiler prints its name (or %index) instead of the architectural name; element suffix and element index stay; the
   register TYPE is not printed (C20_a64_virt_reg_size_refuted).  Model (a64_fmt_inst_virt) and the conservativity theorem. *)
From Coq Require Import ZArith Bool Ascii String Lia.
From Coq Require Import List.
Import ListNotations.
From Verif Require Import Fmt.TextModel Fmt.TextProofs Fmt.X86FmtModel Fmt.A64FmtModel Fmt.LabelVirt.
Local Open Scope Z_scope.

Definition a64venv := list (option text * a64rt).

Definition a64_virt_of (env : a64venv) (id : Z) : option (option text * Z) :=
  if 256 <=? id then
    match nth_error env (Z.to_nat (id - 256)) with Some (name, _) => Some (name, id - 256) | None => None end
  else None.

(* name of a register used as memory base / index *)
Definition a64_rn (env : a64venv) (t : a64rt) (id : Z) : text :=
  match a64_virt_of env id with Some (name, ix) => vreg_name name ix | None => a64_reg_text t id 0 end.

Definition a64_reg_toks_v (env : a64venv) (t : a64rt) (id et : Z) (ei : option Z) : list tok :=
  match a64_virt_of env id with
  | Some (name, ix) => TId (vreg_name name ix ++ a64_elem_suffix t et) :: match ei with Some i => [P "["; TId (dec i); P "]"] | None => [] end
  | None => a64_reg_toks t id et ei
  end.

Definition a64_mem_toks_rn (rn : a64rt -> Z -> text) (fixed : bool) (f : fflags) (m : a64mem) : list tok :=
  let hi := match am_index m with Some _ => true | None => false end in
  let ho := negb (am_off m =? 0) in
  let post := am_mode m =? 2 in
  let prepost := negb (am_mode m =? 0) in
  [P "["]
  ++ match am_base m with
     | ABLabel id => [TId (label_text id)]
     | ABReg t i => [TId (rn t i)]
     | ABNone => if hi || ho then [P "<"; kw "None"; P ">"] else []
     end
  ++ (if post then [P "]"] else [])
  ++ match am_index m with Some (t, i) => [P ","; sp; TId (rn t i)] | None => [] end
  ++ (if ho then [P ","; sp] ++ a64_off_toks f (am_off m) else [])
  ++ (if negb (am_shift m =? 0) then
        [sp] ++ (if prepost then [] else shift_toks (am_shiftop m)) ++ [sp; TId (dec (am_shift m))]
      else if fixed && hi && negb prepost && negb (am_shiftop m =? 0) then [sp] ++ shift_toks (am_shiftop m)
      else [])
  ++ (if post then [] else [P "]"])
  ++ (if am_mode m =? 1 then [P "!"] else []).

Definition a64_op_toks_v (env : a64venv) (fixed : bool) (f : fflags) (o : a64op) : list tok :=
  match o with
  | AOReg t id et ei => a64_reg_toks_v env t id et ei
  | AOMem m => a64_mem_toks_rn (a64_rn env) fixed f m
  | _ => a64_op_toks fixed f o
  end.

Fixpoint a64_ops_toks_v (env : a64venv) (fixed : bool) (f : fflags) (first : bool) (ops : list a64op) : list tok :=
  match ops with
  | [] => []
  | AONone :: _ => []
  | o :: r => (if first then [sp] else [P ","; sp]) ++ a64_op_toks_v env fixed f o ++ a64_ops_toks_v env fixed f false r
  end.

Definition a64_inst_toks_v (env : a64venv) (fixed : bool) (f : fflags) (i : a64inst) : list tok :=
  TId (a64_mnem_text i) :: a64_ops_toks_v env fixed f true (ai_ops i).
Definition a64_fmt_inst_virt (env : a64venv) (fixed : bool) (f : fflags) (i : a64inst) : text := render (a64_inst_toks_v env fixed f i).

(* ------------------------------------------------------------------ proofs *)
Lemma a64_virt_of_nil id : a64_virt_of [] id = None.
Proof. unfold a64_virt_of. destruct (256 <=? id); [|reflexivity]. destruct (Z.to_nat (id - 256)); reflexivity. Qed.

Lemma a64_mem_toks_rn_phys fixed f m : a64_mem_toks_rn (fun t i => a64_reg_text t i 0) fixed f m = a64_mem_toks fixed f m.
Proof. reflexivity. Qed.

(* a register that is not a virtual register of the Compiler (a physical id, or an id the Compiler does not know) prints as before *)
Definition op_phys (env : a64venv) (o : a64op) : Prop :=
  match o with
  | AOReg _ id _ _ => a64_virt_of env id = None
  | AOMem m => match am_base m with ABReg _ i => a64_virt_of env i = None | _ => True end /\
               match am_index m with Some (_, i) => a64_virt_of env i = None | None => True end
  | _ => True
  end.

Lemma a64_op_toks_v_phys env fixed f o : op_phys env o -> a64_op_toks_v env fixed f o = a64_op_toks fixed f o.
Proof.
  destruct o as [|t id et ei|m|v p|l]; cbn [op_phys a64_op_toks_v a64_op_toks]; try reflexivity.
  - intros H. unfold a64_reg_toks_v. rewrite H. reflexivity.
  - intros [Hb Hi]. unfold a64_mem_toks_rn, a64_mem_toks, a64_rn.
    destruct (am_base m) as [|lb|bt bi]; destruct (am_index m) as [[it ii]|]; rewrite ?Hb, ?Hi; reflexivity.
Qed.

Lemma a64_ops_toks_v_phys env fixed f : forall ops first, Forall (op_phys env) ops ->
  a64_ops_toks_v env fixed f first ops = a64_ops_toks fixed f first ops.
Proof.
  induction ops as [|o r IH]; intros first F; [reflexivity|]. inversion F as [|? ? Ho Fr]; subst.
  destruct o; cbn [a64_ops_toks_v a64_ops_toks]; try reflexivity; rewrite (a64_op_toks_v_phys env fixed f _ Ho), (IH false Fr); reflexivity.
Qed.

(* full strength: ANY environment; a line none of whose registers is a virtual register of it is the plain line *)
Theorem a64_fmt_inst_virt_phys env fixed f i : Forall (op_phys env) (ai_ops i) -> a64_fmt_inst_virt env fixed f i = a64_fmt_inst fixed f i.
Proof. intros F. unfold a64_fmt_inst_virt, a64_fmt_inst, a64_inst_toks_v, a64_inst_toks. rewrite a64_ops_toks_v_phys by exact F. reflexivity. Qed.

Lemma op_phys_nil o : op_phys [] o.
Proof.
  destruct o as [|t id et ei|m|v p|l]; cbn [op_phys]; auto using a64_virt_of_nil.
  split; [destruct (am_base m)|destruct (am_index m) as [[? ?]|]]; auto using a64_virt_of_nil.
Qed.

Corollary a64_fmt_inst_virt_nil fixed f i : a64_fmt_inst_virt [] fixed f i = a64_fmt_inst fixed f i.
Proof. apply a64_fmt_inst_virt_phys. induction (ai_ops i); constructor; auto using op_phys_nil. Qed.

(* a single register operand is the text of LabelVirt.a64_fmt_virt *)
Lemma a64_reg_toks_v_virt env t id et ei name vt : 256 <= id -> nth_error env (Z.to_nat (id - 256)) = Some (name, vt) ->
  render (a64_reg_toks_v env t id et ei) = a64_fmt_virt name (id - 256) t et ei.
Proof.
  intros G N. unfold a64_reg_toks_v, a64_virt_of. destruct (Z.leb_spec 256 id); [|lia]. rewrite N.
  unfold a64_fmt_virt, render. destruct ei; cbn [flat_map render_tok app]; rewrite ?app_nil_r, <- ?app_assoc; reflexivity.
Qed.

(* non-vacuity: a line with virtual registers differs from the physical one and shows names *)
Example a64_virt_line_example :
  a64_fmt_inst_virt [(Some (s "a"), AGp32); (None, AGp64)] true {| ff_hex_imms := false; ff_hex_offsets := false |}
    {| ai_mnem := s "ldr"; ai_cond := 0; ai_ops := [AOReg AGp32 256 0 None;
         AOMem {| am_base := ABReg AGp64 257; am_index := None; am_shiftop := 0; am_shift := 0; am_mode := 0; am_off := 16 |}] |}
  = s "ldr a, [%1, 16]".
Proof. vm_compute. reflexivity. Qed.

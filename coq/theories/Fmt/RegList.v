(* C20 — arm::FormatterInternal::format_register_list (AArch32 register lists: "{r0-r3, r5, r14}") and its inverse *)
From Coq Require Import ZArith Bool Ascii String Lia.
From Coq Require Import List.
Import ListNotations.
From Verif Require Import Fmt.TextModel Fmt.X86FmtModel.
Local Open Scope Z_scope.

(* maximal runs of consecutive set bits, lowest first: (start, count) *)
Fixpoint runs (n : nat) (i : Z) (mask : Z) (cur : option (Z * Z)) : list (Z * Z) :=
  match n with
  | O => match cur with Some r => [r] | None => [] end
  | S k => if Z.testbit mask i
           then runs k (i + 1) mask (match cur with Some (st, c) => Some (st, c + 1) | None => Some (i, 1) end)
           else match cur with Some r => r :: runs k (i + 1) mask None | None => runs k (i + 1) mask None end
  end.

Definition a32_reg (id : Z) : text := "r"%char :: dec id.

Definition run_toks (name : Z -> text) (r : Z * Z) : list tok :=
  let '(st, c) := r in
  TId (name st) :: (if 2 <=? c then [P "-"; TId (name (st + c - 1))] else []).

Fixpoint join_runs (name : Z -> text) (l : list (Z * Z)) : list tok :=
  match l with
  | [] => []
  | [r] => run_toks name r
  | r :: rest => run_toks name r ++ [P ","; sp] ++ join_runs name rest
  end.

Definition reglist_toks (name : Z -> text) (mask : Z) : list tok := [P "{"] ++ join_runs name (runs 32 0 mask None) ++ [P "}"].
Definition fmt_reglist (name : Z -> text) (mask : Z) : text := render (reglist_toks name mask).

(* inverse for AArch32 names *)
Definition parse_a32_reg (x : text) : option Z :=
  match x with
  | c :: ds => if Ascii.eqb c "r"%char && negb (Nat.eqb (length ds) 0) && forallb is_digit10 ds
               then match parse_digits 10 ds 0 with Some i => if i <? 32 then Some i else None | None => None end else None
  | [] => None
  end.

Definition set_range (mask st en : Z) : Z := Z.lor mask (Z.shiftl (Z.ones (en - st + 1)) st).

Fixpoint parse_runs (fuel : nat) (ts : list tok) (mask : Z) : option Z :=
  match fuel with
  | O => None
  | S f =>
    match ts with
    | TId a :: r =>
      match parse_a32_reg a with
      | Some st =>
        let '(en, r1) := match r with
                         | d :: TId b :: r' => if isP "-" d then (match parse_a32_reg b with Some e => (Some e, r') | None => (None, r) end) else (Some st, r)
                         | _ => (Some st, r)
                         end in
        match en with
        | Some e =>
          if e <? st then None else
          let m := set_range mask st e in
          match r1 with
          | [c] => if isP "}" c then Some m else None
          | c :: b :: r2 => if isP "," c && isP " " b then parse_runs f r2 m else None
          | [] => None
          end
        | None => None
        end
      | None => None
      end
    | [c] => if isP "}" c then Some mask else None
    | _ => None
    end
  end.

Definition parse_reglist (x : text) : option Z :=
  match lex x with
  | o :: r => if isP "{" o then parse_runs 40 r 0 else None
  | [] => None
  end.

Definition chk (o : option Z) (m : Z) : bool := match o with Some v => v =? m | None => false end.
Lemma chk_spec o m : chk o m = true -> o = Some m.
Proof. destruct o as [v|]; cbn [chk]; [|discriminate]. intros E. apply Z.eqb_eq in E. subst. reflexivity. Qed.
Definition check_mask (m : Z) : bool := chk (parse_reglist (fmt_reglist a32_reg m)) m.


Fixpoint zrange_from (lo : Z) (n : nat) : list Z := match n with O => [] | S k => lo :: zrange_from (lo + 1) k end.
(* the bound is a Z (no unary literal anywhere in a statement) *)
Definition zrange (lo n : Z) : list Z := zrange_from lo (Z.to_nat n).

Lemma zrange_from_in : forall n lo m, lo <= m < lo + Z.of_nat n -> In m (zrange_from lo n).
Proof.
  induction n as [|k IH]; intros lo m H; [lia|]. cbn [zrange_from].
  destruct (Z.eq_dec m lo) as [->|Hne]; [left; reflexivity|right]. apply IH. lia.
Qed.

Lemma zrange_in lo n m : 0 <= n -> lo <= m < lo + n -> In m (zrange lo n).
Proof. intros Hn H. unfold zrange. apply zrange_from_in. rewrite Z2Nat.id by lia. exact H. Qed.

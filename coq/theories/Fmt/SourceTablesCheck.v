(* C20 — the small name tables of the formatters (AArch64 condition codes, shift / extend operators, data directive words), dumped from the
   real functions over their whole domain on every run (harness command DS -> coq/gen/FmtSourceTables.v), are what the model prints. *)
From Coq Require Import ZArith Bool Ascii String Lia.
From Coq Require Import List.
Import ListNotations.
From Verif Require Import Fmt.TextModel Fmt.TextProofs Fmt.X86FmtModel Fmt.X86FmtProofs Fmt.A64FmtModel Fmt.DataNode.
Local Open Scope Z_scope.

(* the condition suffix as a64_mnem_text prints it, the operator as shift_toks prints it *)
Definition model_cond (c : Z) : text := match nth_error cond_names (Z.to_nat c) with Some n => s n | None => s "<Unknown>" end.
Definition model_shift (op : Z) : text := render (shift_toks op).
Definition model_word (a64 : bool) (k : Z) : text := s (data_word a64 (2 ^ k)).

Fixpoint check_from (f : Z -> text) (i : Z) (l : list text) : bool :=
  match l with [] => true | x :: r => text_eqb (f i) x && check_from f (i + 1) r end.

Definition small_tables_check (conds shifts wx wa : list text) : bool :=
  check_from model_cond 0 conds && check_from model_shift 0 shifts && check_from (model_word false) 0 wx && check_from (model_word true) 0 wa
  && Nat.eqb (length conds) 18 && Nat.eqb (length shifts) 18 && Nat.eqb (length wx) 4 && Nat.eqb (length wa) 4.

Lemma check_from_sound f : forall l i k x, check_from f i l = true -> nth_error l k = Some x -> f (i + Z.of_nat k) = x.
Proof.
  induction l as [|y r IH]; intros i k x H N; [destruct k; discriminate|].
  cbn [check_from] in H. apply andb_prop in H as [H1 H2]. destruct k as [|k].
  - cbn in N. inversion N; subst. apply text_eqb_eq in H1. rewrite Z.add_0_r. exact H1.
  - cbn [nth_error] in N. rewrite <- (IH (i + 1) k x H2 N). f_equal. lia.
Qed.

(* beyond the tables the model prints "<Unknown>", as format_cond_code (min(cc, 16)) and format_shift_op (default:) do *)
Lemma model_cond_beyond c : 16 <= c -> model_cond c = s "<Unknown>".
Proof.
  intros H. unfold model_cond. replace (nth_error cond_names (Z.to_nat c)) with (@None string); [reflexivity|].
  symmetry. apply nth_error_None. change (length cond_names) with 16%nat. lia.
Qed.

Lemma model_shift_beyond op : 14 <= op -> model_shift op = s "<Unknown>".
Proof.
  intros H. unfold model_shift, shift_toks, shift_name. destruct (Z.ltb_spec op 0); [lia|].
  replace (nth_error shift_names (Z.to_nat op)) with (@None string); [reflexivity|].
  symmetry. apply nth_error_None. change (length shift_names) with 14%nat. lia.
Qed.

Theorem small_tables_sound conds shifts wx wa : small_tables_check conds shifts wx wa = true ->
  (forall k x, nth_error conds k = Some x -> model_cond (Z.of_nat k) = x) /\
  (forall k x, nth_error shifts k = Some x -> model_shift (Z.of_nat k) = x) /\
  (forall k x, nth_error wx k = Some x -> s (data_word false (2 ^ Z.of_nat k)) = x) /\
  (forall k x, nth_error wa k = Some x -> s (data_word true (2 ^ Z.of_nat k)) = x) /\
  length conds = 18%nat /\ length shifts = 18%nat /\ length wx = 4%nat /\ length wa = 4%nat.
Proof.
  unfold small_tables_check. intros H.
  apply andb_prop in H as [H L4]. apply andb_prop in H as [H L3]. apply andb_prop in H as [H L2]. apply andb_prop in H as [H L1].
  apply andb_prop in H as [H C4]. apply andb_prop in H as [H C3]. apply andb_prop in H as [C1 C2].
  split; [intros k x N; exact (check_from_sound model_cond conds 0 k x C1 N)|].
  split; [intros k x N; exact (check_from_sound model_shift shifts 0 k x C2 N)|].
  split; [intros k x N; exact (check_from_sound (model_word false) wx 0 k x C3 N)|].
  split; [intros k x N; exact (check_from_sound (model_word true) wa 0 k x C4 N)|].
  repeat split; apply Nat.eqb_eq; assumption.
Qed.

(* non-vacuity: a wrong entry is refused *)
Example small_tables_check_refuses :
  small_tables_check (map s ["al"; "nv"]%string) [] [] [] = false.
Proof. vm_compute. reflexivity. Qed.

(* ------------------------------------------------------------------ two more tables over their whole domain (harness DS2): the size words in front of an x86 memory
   operand for every size 0..255, and the AArch64 vector register text for every element type 0..7 on a 64-bit / 128-bit vector register *)
Definition model_size_prefix (k : Z) : text := render (size_toks k).
Definition model_vec (t : a64rt) (et : Z) : text := a64_reg_text t 3 et.

Definition small_tables_check2 (sizes v64 v128 : list text) : bool :=
  check_from model_size_prefix 0 sizes && check_from (model_vec AVec64) 0 v64 && check_from (model_vec AVec128) 0 v128
  && Nat.eqb (length sizes) 256 && Nat.eqb (length v64) 8 && Nat.eqb (length v128) 8.

Theorem small_tables2_sound sizes v64 v128 : small_tables_check2 sizes v64 v128 = true ->
  (forall k x, nth_error sizes k = Some x -> render (size_toks (Z.of_nat k)) = x) /\
  (forall k x, nth_error v64 k = Some x -> a64_reg_text AVec64 3 (Z.of_nat k) = x) /\
  (forall k x, nth_error v128 k = Some x -> a64_reg_text AVec128 3 (Z.of_nat k) = x) /\
  length sizes = 256%nat /\ length v64 = 8%nat /\ length v128 = 8%nat.
Proof.
  unfold small_tables_check2. intros H.
  apply andb_prop in H as [H L3]. apply andb_prop in H as [H L2]. apply andb_prop in H as [H L1].
  apply andb_prop in H as [H C3]. apply andb_prop in H as [C1 C2].
  split; [intros k x N; exact (check_from_sound model_size_prefix sizes 0 k x C1 N)|].
  split; [intros k x N; exact (check_from_sound (model_vec AVec64) v64 0 k x C2 N)|].
  split; [intros k x N; exact (check_from_sound (model_vec AVec128) v128 0 k x C3 N)|].
  repeat split; apply Nat.eqb_eq; assumption.
Qed.

Example ex_model_tables2 : model_size_prefix 16 = s "xmmword ptr " /\ model_size_prefix 3 = [] /\ model_vec AVec128 3 = s "v3.4s" /\ model_vec AVec64 3 = s "v3.2s".
Proof. repeat split; vm_compute; reflexivity. Qed.

(* C20 — text model of x86::FormatterInternal::format_instruction (whole lines) and its inverse. Models only. *)
From Coq Require Import ZArith Bool Ascii String.
From Coq Require Import List.
Import ListNotations.
From Verif Require Import Fmt.TextModel Fmt.X86FmtModel.
Local Open Scope Z_scope.

Record x86opts := {
  o_vex : bool; o_vex3 : bool; o_evex : bool; o_modrm : bool; o_modmr : bool; o_short : bool; o_long : bool;
  o_xacquire : bool; o_xrelease : bool; o_lock : bool; o_rep : bool; o_repne : bool; o_rex : bool;
  o_zmask : bool; o_er : bool; o_sae : bool; o_rc : Z   (* rounding control 0..3 = rn rd ru rz *)
}.

Record x86inst := {
  i_mnem : text;                       (* mnemonic (from the instruction name table) *)
  i_opts : x86opts;
  i_extra : option (x86rt * Z);        (* extra register: {k} mask or the rep counter *)
  i_ops : list x86op                   (* up to 6; printing stops at the first ONone *)
}.

Definition brace (x : list tok) : list tok := [P "{"] ++ x ++ [P "}"].
Definition opt_kw (b : bool) (k : string) : list tok := if b then [kw k; sp] else [].
Definition opt_br (b : bool) (k : string) : list tok := if b then brace [kw k] ++ [sp] else [].

Definition rc_name (rc : Z) : string :=
  if rc =? 0 then "rn" else if rc =? 1 then "rd" else if rc =? 2 then "ru" else "rz".

(* ---- prefixes, in the order the formatter prints them: an item is "{k} " (brace) or "k " *)
Definition item_toks (br : bool) (k : string) : list tok := if br then brace [kw k] ++ [sp] else [kw k; sp].

Fixpoint items (specs : list (bool * string)) (flags : list bool) : list tok :=
  match specs, flags with
  | (br, k) :: sr, b :: fr => (if b then item_toks br k else []) ++ items sr fr
  | _, _ => []
  end.

Definition specsA : list (bool * string) :=
  [(true, "vex"); (true, "vex3"); (true, "evex"); (true, "modrm"); (true, "modmr"); (false, "short"); (false, "long");
   (false, "xacquire"); (false, "xrelease"); (false, "lock"); (false, "rep"); (false, "repnz")]%string.
Definition flagsA (o : x86opts) : list bool :=
  [o_vex o; o_vex3 o; o_evex o; o_modrm o; o_modmr o && negb (o_modrm o); o_short o; o_long o; o_xacquire o; o_xrelease o;
   o_lock o; o_rep o; o_repne o && negb (o_rep o)].
Definition specsR : list (bool * string) := [(false, "rex")]%string.


(* {vex} {vex3} {evex} {modrm}|{modmr} short long xacquire xrelease lock rep|repnz [{reg}] rex *)
Definition regitem (f : fflags) (o : x86opts) (ex : option (x86rt * Z)) : list tok :=
  if o_rep o || o_repne o
  then match ex with Some (t, i) => brace (fmt_op_toks f (OReg t i)) ++ [sp] | None => [] end
  else [].

Definition prefix_toks (f : fflags) (o : x86opts) (extra : option (x86rt * Z)) : list tok :=
  items specsA (flagsA o) ++ regitem f o extra ++ items specsR [o_rex o].

Definition is_mask (extra : option (x86rt * Z)) : bool :=
  match extra with Some (KReg, _) => true | _ => false end.

Definition mask_toks (o : x86opts) (extra : option (x86rt * Z)) : list tok :=
  match extra with
  | Some (KReg, i) => [sp] ++ brace [TId (fmt_reg KReg i)] ++ (if o_zmask o then brace [kw "z"] else [])
  | _ => if o_zmask o then [sp] ++ brace [kw "z"] else []
  end.

Definition bcst_toks (op : x86op) : list tok :=
  match op with
  | OMem m => if m_bcst m =? 0 then [] else [sp] ++ brace [TId (s "1to" ++ dec (2 ^ m_bcst m))]
  | _ => []
  end.

Fixpoint ops_toks (f : fflags) (o : x86opts) (extra : option (x86rt * Z)) (first : bool) (ops : list x86op) : list tok :=
  match ops with
  | [] => []
  | ONone :: _ => []
  | op :: r => (if first then [sp] else [P ","; sp]) ++ fmt_op_toks f op
               ++ (if first then mask_toks o extra else []) ++ bcst_toks op
               ++ ops_toks f o extra false r
  end.

Definition er_toks (o : x86opts) : list tok :=
  if o_er o then [P ","; sp] ++ brace [kw (rc_name (o_rc o)); P "-"; kw "sae"]
  else if o_sae o then [P ","; sp] ++ brace [kw "sae"] else [].

Definition fmt_inst_toks (f : fflags) (i : x86inst) : list tok :=
  prefix_toks f (i_opts i) (i_extra i) ++ [TId (i_mnem i)]
  ++ ops_toks f (i_opts i) (i_extra i) true (i_ops i) ++ er_toks (i_opts i).

Definition fmt_inst (f : fflags) (i : x86inst) : text := render (fmt_inst_toks f i).

(* ------------------------------------------------------------------ parsing a line *)
Definition peel_item (br : bool) (k : string) (ts : list tok) : bool * list tok :=
  match ts with
  | t0 :: r0 =>
    if br then
      (if isP "{" t0 then
         match r0 with
         | TId w :: t2 :: t3 :: r => if text_eqb w (s k) && isP "}" t2 && isP " " t3 then (true, r) else (false, ts)
         | _ => (false, ts)
         end
       else (false, ts))
    else
      match t0 with
      | TId w => if text_eqb w (s k) then
                   match r0 with
                   | t1 :: ((_ :: _) as r) => if isP " " t1 then (true, r) else (false, ts)
                   | _ => (false, ts)
                   end
                 else (false, ts)
      | TP _ => (false, ts)
      end
  | [] => (false, ts)
  end.

Fixpoint parse_items (specs : list (bool * string)) (ts : list tok) : list bool * list tok :=
  match specs with
  | [] => ([], ts)
  | (br, k) :: sr => let '(b, ts1) := peel_item br k ts in
                     let '(bs, ts2) := parse_items sr ts1 in (b :: bs, ts2)
  end.

(* "{reg} " after rep/repnz *)
Definition peel_reg (ts : list tok) : option (x86rt * Z) * list tok :=
  match ts with
  | t0 :: r0 =>
    if isP "{" t0 then
      match r0 with
      | TId w :: t2 :: t3 :: r =>
          if isP "}" t2 && isP " " t3 then match parse_reg_name w with Some rg => (Some rg, r) | None => (None, ts) end else (None, ts)
      | _ => (None, ts)
      end
    else (None, ts)
  | [] => (None, ts)
  end.

Definition nthb (l : list bool) (n : nat) : bool := nth n l false.

Definition opts_of (fa : list bool) (rex zm er sae : bool) (rc : Z) : x86opts :=
  {| o_vex := nthb fa 0; o_vex3 := nthb fa 1; o_evex := nthb fa 2; o_modrm := nthb fa 3; o_modmr := nthb fa 4;
     o_short := nthb fa 5; o_long := nthb fa 6; o_xacquire := nthb fa 7; o_xrelease := nthb fa 8; o_lock := nthb fa 9;
     o_rep := nthb fa 10; o_repne := nthb fa 11; o_rex := rex; o_zmask := zm; o_er := er; o_sae := sae; o_rc := rc |}.

(* flags of specsA, rep register, rex, rest *)
Definition parse_prefix (ts : list tok) : list bool * option (x86rt * Z) * bool * list tok :=
  let '(fa, t1) := parse_items specsA ts in
  let '(ex, t2) := if nthb fa 10 || nthb fa 11 then peel_reg t1 else (None, t1) in
  let '(fr, t3) := parse_items specsR t2 in
  (fa, ex, nthb fr 0, t3).

(* split a token list at top-level ", " separators *)
Fixpoint split_commas (cur : list tok) (ts : list tok) : list (list tok) :=
  match ts with
  | [] => [rev cur]
  | t0 :: r =>
    if isP "," t0 then
      match r with
      | t1 :: r2 => if isP " " t1 then rev cur :: split_commas [] r2 else split_commas (t0 :: cur) r
      | [] => split_commas (t0 :: cur) r
      end
    else split_commas (t0 :: cur) r
  end.

(* split an operand chunk at the first " {" *)
Fixpoint split_deco (cur : list tok) (ts : list tok) : list tok * list tok :=
  match ts with
  | [] => (rev cur, [])
  | t0 :: r =>
    if isP " " t0 then
      match r with
      | t1 :: _ => if isP "{" t1 then (rev cur, r) else split_deco (t0 :: cur) r
      | [] => split_deco (t0 :: cur) r
      end
    else split_deco (t0 :: cur) r
  end.

Record deco := { d_mask : option (x86rt * Z); d_z : bool; d_bcst : Z }.

Definition parse_1to (w : text) : option Z :=
  assoc w (map (fun k => (s "1to" ++ dec (2 ^ k), k)) [1; 2; 3; 4; 5; 6]).

(* decorations: "{x}" groups optionally separated by one space *)
Fixpoint parse_deco (fuel : nat) (d : deco) (ts : list tok) : option deco :=
  match fuel with
  | O => None
  | S fu =>
    match ts with
    | [] => Some d
    | t0 :: TId w :: t2 :: r =>
      if isP "{" t0 && isP "}" t2 then
        let r' := match r with t3 :: r3 => if isP " " t3 then r3 else r | [] => r end in
        match parse_reg_name w with
        | Some rg => parse_deco fu {| d_mask := Some rg; d_z := d_z d; d_bcst := d_bcst d |} r'
        | None =>
          if text_eqb w (s "z") then parse_deco fu {| d_mask := d_mask d; d_z := true; d_bcst := d_bcst d |} r'
          else match parse_1to w with
               | Some k => parse_deco fu {| d_mask := d_mask d; d_z := d_z d; d_bcst := k |} r'
               | None => None
               end
        end
      else None
    | _ => None
    end
  end.

Definition set_bcst (k : Z) (op : x86op) : x86op :=
  match op with
  | OMem m => OMem {| m_size := m_size m; m_seg := m_seg m; m_addr := m_addr m; m_base := m_base m; m_index := m_index m;
                      m_shift := m_shift m; m_off := m_off m; m_bcst := k |}
  | _ => op
  end.

Definition parse_rc (w : text) : option Z :=
  assoc w [(s "rn", 0); (s "rd", 1); (s "ru", 2); (s "rz", 3)].

(* chunks -> operands, mask, z, er/sae *)
Fixpoint parse_chunks (first : bool) (cs : list (list tok)) (acc : list x86op) (mask : option (x86rt * Z)) (z : bool)
  : option (list x86op * option (x86rt * Z) * bool * (bool * bool * Z)) :=
  match cs with
  | [] => Some (rev acc, mask, z, (false, false, 0))
  | c :: r =>
    match c with
    | t0 :: rest =>
      if isP "{" t0 then
        (* {sae} or {rX-sae}: must be the last chunk *)
        match r, rest with
        | [], [TId w; t2] => if text_eqb w (s "sae") && isP "}" t2 then Some (rev acc, mask, z, (false, true, 0)) else None
        | [], [TId w; t2; TId w2; t4] =>
            if isP "-" t2 && text_eqb w2 (s "sae") && isP "}" t4
            then match parse_rc w with Some rc => Some (rev acc, mask, z, (true, false, rc)) | None => None end else None
        | _, _ => None
        end
      else
        let '(opt, dt) := split_deco [] c in
        match parse_op_toks opt, parse_deco (S (length dt)) {| d_mask := None; d_z := false; d_bcst := 0 |} dt with
        | Some op, Some d =>
            if first then parse_chunks false r (set_bcst (d_bcst d) op :: acc) (d_mask d) (d_z d)
            else match d_mask d, d_z d with
                 | None, false => parse_chunks false r (set_bcst (d_bcst d) op :: acc) mask z
                 | _, _ => None
                 end
        | _, _ => None
        end
    | [] => None
    end
  end.

Definition parse_inst_toks (ts : list tok) : option x86inst :=
  match parse_prefix ts with
  | (fa, ex, rex, TId m :: r) =>
    match r with
    | [] => Some {| i_mnem := m; i_opts := opts_of fa rex false false false 0; i_extra := ex; i_ops := [] |}
    | t0 :: r1 =>
      let chunks := if isP " " t0 then Some (true, split_commas [] r1)
                    else if isP "," t0 then
                           match r1 with
                           | t1 :: r2 => if isP " " t1 then Some (false, split_commas [] r2) else None
                           | [] => None
                           end
                         else None in
      match chunks with
      | Some (fst, cs) =>
        match parse_chunks fst cs [] None false with
        | Some (ops, mask, z, (er, sae, rc)) =>
            match ex, mask with
            | Some _, Some _ => None     (* rep counter and mask at once cannot be told apart from the text *)
            | _, _ => Some {| i_mnem := m; i_opts := opts_of fa rex z er sae rc;
                              i_extra := match mask with Some k => Some k | None => ex end; i_ops := ops |}
            end
        | None => None
        end
      | None => None
      end
    end
  | _ => None
  end.

Definition parse_inst (x : text) : option x86inst := parse_inst_toks (lex x).

(* ------------------------------------------------------------------ what a line can determine *)
Fixpoint until_none (ops : list x86op) : list x86op :=
  match ops with
  | [] => []
  | ONone :: _ => []
  | o :: r => o :: until_none r
  end.

Definition keep_bcst (o : x86op) : x86op :=
  match o, canon_op o with
  | OMem m, OMem c => set_bcst (m_bcst m) (OMem c)
  | _, c => c
  end.

Definition canon_inst (i : x86inst) : x86inst :=
  let o := i_opts i in
  let ops := map keep_bcst (until_none (i_ops i)) in
  let has := match ops with [] => false | _ => true end in
  let rp := o_rep o || o_repne o in
  {| i_mnem := i_mnem i;
     i_opts := {| o_vex := o_vex o; o_vex3 := o_vex3 o; o_evex := o_evex o; o_modrm := o_modrm o;
                  o_modmr := o_modmr o && negb (o_modrm o); o_short := o_short o; o_long := o_long o;
                  o_xacquire := o_xacquire o; o_xrelease := o_xrelease o; o_lock := o_lock o;
                  o_rep := o_rep o; o_repne := o_repne o && negb (o_rep o); o_rex := o_rex o;
                  o_zmask := o_zmask o && has; o_er := o_er o; o_sae := negb (o_er o) && o_sae o;
                  o_rc := if o_er o then o_rc o else 0 |};
     i_extra := match i_extra i with
                | Some (KReg, k) => if has || rp then Some (KReg, k) else None
                | Some r => if rp then Some r else None
                | None => None
                end;
     i_ops := ops |}.

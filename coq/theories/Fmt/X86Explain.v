(* C20 — FormatFlags::kExplainImms: transliteration of FormatterInternal_explain_const (x86formatter.cpp) — the {…} text appended
   behind an immediate — and the whole line with explanations. The predicate / control names are those of the Intel SDM. *)
From Coq Require Import ZArith Bool Ascii String Lia.
From Coq Require Import List.
Import ListNotations.
From Verif Require Import Fmt.TextModel Fmt.TextProofs Fmt.X86FmtModel Fmt.X86InstModel.
Local Open Scope Z_scope.

Definition join_bar (l : list text) : text :=
  match l with
  | [] => []
  | x :: r => "{"%char :: x ++ flat_map (fun y => "|"%char :: y) r ++ ["}"%char]
  end.

(* format_imm_shuf: `count` fields of `bits` bits, most significant field first, printed as numbers *)
Definition imm_shuf (u8 bits : Z) (count0 : nat) : text :=
  let count := Nat.min count0 (Z.to_nat (8 / bits)) in      (* an 8-bit immediate cannot describe more than 8/bits elements *)
  join_bar (map (fun i => dec ((u8 / 2 ^ (bits * (Z.of_nat count - 1 - Z.of_nat i))) mod 2 ^ bits)) (seq 0 count)).

(* format_imm_text: `count` fields of `bits` bits, least significant first, looked up in a table at value + i*advance *)
Definition imm_text (u8 bits advance : Z) (tbl : list string) (count : nat) : text :=
  join_bar (map (fun i => s (nth (Z.to_nat ((u8 / 2 ^ (bits * Z.of_nat i)) mod 2 ^ bits + advance * Z.of_nat i)) tbl ""%string)) (seq 0 count)).

(* format_imm_bits: a list of (mask, shift, lookup table | printf with one %d); empty strings are skipped *)
Inductive bits_spec := BLookup (mask shift : Z) (tbl : list string) | BFormat (mask shift : Z) (pre : string).

Definition spec_text (u8 : Z) (sp0 : bits_spec) : text :=
  match sp0 with
  | BLookup m sh tbl => s (nth (Z.to_nat (Z.land u8 m / 2 ^ sh)) tbl ""%string)
  | BFormat m sh pre => s pre ++ dec (Z.land u8 m / 2 ^ sh)
  end.

Definition imm_bits (u8 : Z) (specs : list bits_spec) : text :=
  join_bar (filter (fun t => negb (Nat.eqb (length t) 0)) (map (spec_text u8) specs)).

Definition vcmpx : list string :=
  ["EQ_OQ"; "LT_OS"; "LE_OS"; "UNORD_Q"; "NEQ_UQ"; "NLT_US"; "NLE_US"; "ORD_Q";
   "EQ_UQ"; "NGE_US"; "NGT_US"; "FALSE_OQ"; "NEQ_OQ"; "GE_OS"; "GT_OS"; "TRUE_UQ";
   "EQ_OS"; "LT_OQ"; "LE_OQ"; "UNORD_S"; "NEQ_US"; "NLT_UQ"; "NLE_UQ"; "ORD_S";
   "EQ_US"; "NGE_UQ"; "NGT_UQ"; "FALSE_OS"; "NEQ_OS"; "GE_OQ"; "GT_OQ"; "TRUE_US"]%string.
Definition vpcmpx : list string := ["EQ"; "LT"; "LE"; "FALSE"; "NEQ"; "GE"; "GT"; "TRUE"]%string.
Definition vpcomx : list string := ["LT"; "LE"; "GT"; "GE"; "EQ"; "NEQ"; "FALSE"; "TRUE"]%string.
Definition vshufpd_t : list string := ["A0"; "A1"; "B0"; "B1"; "A2"; "A3"; "B2"; "B3"; "A4"; "A5"; "B4"; "B5"; "A6"; "A7"; "B6"; "B7"]%string.
Definition vshufps_t : list string := ["A0"; "A1"; "A2"; "A3"; "A0"; "A1"; "A2"; "A3"; "B0"; "B1"; "B2"; "B3"; "B0"; "B1"; "B2"; "B3"]%string.

Definition vfpclass_s := [BLookup 7 0 ["QNAN"; "+0"; "-0"; "+INF"; "-INF"; "DENORMAL"; "-FINITE"; "SNAN"]%string].
Definition vfixupimm_s :=
  [BLookup 1 0 [""; "+INF_IE"]%string; BLookup 2 1 [""; "-VE_IE"]%string; BLookup 4 2 [""; "-INF_IE"]%string;
   BLookup 8 3 [""; "SNAN_IE"]%string; BLookup 16 4 [""; "ONE_IE"]%string; BLookup 32 5 [""; "ONE_ZE"]%string;
   BLookup 64 6 [""; "ZERO_IE"]%string; BLookup 128 7 [""; "ZERO_ZE"]%string].
Definition vgetmant_s :=
  [BLookup 3 0 ["[1, 2)"; "[.5, 2)"; "[.5, 1)"; "[.75, 1.5)"]%string; BLookup 4 2 [""; "NO_SIGN"]%string; BLookup 8 3 [""; "QNAN_IF_SIGN"]%string].
Definition vmpsadbw_s :=
  [BLookup 64 6 ["BLK1[4]"; "BLK1[5]"]%string; BLookup 48 4 ["BLK2[4]"; "BLK2[5]"; "BLK2[6]"; "BLK2[7]"]%string;
   BLookup 4 2 ["BLK1[0]"; "BLK1[1]"]%string; BLookup 3 0 ["BLK2[0]"; "BLK2[1]"; "BLK2[2]"; "BLK2[3]"]%string].
Definition vpclmulqdq_s := [BLookup 16 4 ["LQ"; "HQ"]%string; BLookup 1 0 ["LQ"; "HQ"]%string].
Definition vperm2x128_s :=
  [BLookup 176 4 ["A0"; "A1"; "B0"; "B1"; ""; ""; ""; ""; "0"; "0"; "0"; "0"]%string;
   BLookup 11 0 ["A0"; "A1"; "B0"; "B1"; ""; ""; ""; ""; "0"; "0"; "0"; "0"]%string].
Definition vrange_s :=
  [BLookup 12 2 ["SIGN_A"; "SIGN_B"; "SIGN_0"; "SIGN_1"]%string; BLookup 3 0 ["MIN"; "MAX"; "MIN_ABS"; "MAX_ABS"]%string].
Definition vreduce_s :=
  [BLookup 7 0 [""; ""; ""; ""; "ROUND"; "FLOOR"; "CEIL"; "TRUNC"]%string; BLookup 8 3 [""; "SAE"]%string; BFormat 240 4 "LEN="].
Definition vround_s :=
  [BLookup 7 0 ["ROUND"; "FLOOR"; "CEIL"; "TRUNC"; "CURRENT"; ""; ""; ""]%string; BLookup 8 3 [""; "SUPPRESS"]%string].

Definition one_of (m : text) (l : list string) : bool := existsb (fun k => text_eqb m (s k)) l.

Local Open Scope string_scope.
(* the explanation of immediate u8 (low byte of the value) for mnemonic m; vec = 16/32/64 = widest register operand *)
Definition explain (m : text) (vec : Z) (u8 : Z) : text :=
  let nat_of z := Z.to_nat z in
  if one_of m ["vblendpd"; "blendpd"; "vpermilpd"] then imm_shuf u8 1 (nat_of (vec / 8))
  else if one_of m ["vblendps"; "blendps"] then imm_shuf u8 1 (nat_of (vec / 4))
  else if one_of m ["vcmppd"; "vcmpps"; "vcmpsd"; "vcmpss"] then imm_text u8 5 0 vcmpx 1
  else if one_of m ["cmppd"; "cmpps"; "cmpsd"; "cmpss"] then imm_text u8 3 0 vcmpx 1
  else if one_of m ["vdbpsadbw"; "vpermilps"; "vpshufd"; "pshufd"; "vpshufhw"; "vpshuflw"; "pshufhw"; "pshuflw"; "pshufw"; "vpermq"; "vpermpd"]
       then imm_shuf u8 2 4
  else if one_of m ["vdppd"; "vdpps"; "dppd"; "dpps"; "vpblendw"; "pblendw"; "vpternlogd"; "vpternlogq"] then imm_shuf u8 1 8
  else if one_of m ["vmpsadbw"; "mpsadbw"] then imm_bits u8 (firstn (nat_of (Z.min (vec / 8) 4)) vmpsadbw_s)
  else if one_of m ["vpblendd"] then imm_shuf u8 1 (nat_of (Z.min (vec / 4) 8))
  else if one_of m ["vpclmulqdq"; "pclmulqdq"] then imm_bits u8 vpclmulqdq_s
  else if one_of m ["vroundpd"; "vroundps"; "vroundsd"; "vroundss"; "roundpd"; "roundps"; "roundsd"; "roundss"] then imm_bits u8 vround_s
  else if one_of m ["vshufpd"; "shufpd"] then imm_text u8 1 2 vshufpd_t (nat_of (Z.min (vec / 8) 8))
  else if one_of m ["vshufps"; "shufps"] then imm_text u8 2 4 vshufps_t 4
  else if one_of m ["vcvtps2ph"] then imm_bits u8 (firstn 1 vround_s)
  else if one_of m ["vperm2f128"; "vperm2i128"] then imm_bits u8 vperm2x128_s
  else if one_of m ["vfixupimmpd"; "vfixupimmps"; "vfixupimmsd"; "vfixupimmss"] then imm_bits u8 vfixupimm_s
  else if one_of m ["vfpclasspd"; "vfpclassps"; "vfpclasssd"; "vfpclassss"] then imm_bits u8 vfpclass_s
  else if one_of m ["vgetmantpd"; "vgetmantps"; "vgetmantsd"; "vgetmantss"] then imm_bits u8 vgetmant_s
  else if one_of m ["vpcmpb"; "vpcmpd"; "vpcmpq"; "vpcmpw"; "vpcmpub"; "vpcmpud"; "vpcmpuq"; "vpcmpuw"] then imm_text u8 3 0 vpcmpx 1
  else if one_of m ["vpcomb"; "vpcomd"; "vpcomq"; "vpcomw"; "vpcomub"; "vpcomud"; "vpcomuq"; "vpcomuw"] then imm_text u8 3 0 vpcomx 1
  else if one_of m ["vrangepd"; "vrangeps"; "vrangesd"; "vrangess"] then imm_bits u8 vrange_s
  else if one_of m ["vreducepd"; "vreduceps"; "vreducesd"; "vreducess"; "vrndscalepd"; "vrndscaleps"; "vrndscalesd"; "vrndscaless"]
       then imm_bits u8 vreduce_s
  else if one_of m ["vshuff32x4"; "vshuff64x2"; "vshufi32x4"; "vshufi64x2"]
       then (let c := Z.max (vec / 16) 2 in imm_shuf u8 (if (c <=? 2)%Z then 1 else 2) (nat_of c))
  else [].

Local Close Scope string_scope.
Definition reg_vec_size (o : x86op) : Z := match o with OReg Zmm _ => 64 | OReg Ymm _ => 32 | _ => 16 end.
Definition vec_size_of (ops : list x86op) : Z := fold_right (fun o a => Z.max (reg_vec_size o) a) 16 ops.

(* the line with explanations: like fmt_inst, with `ex v` appended directly behind every immediate operand *)
Fixpoint ops_text_ex (ex : Z -> text) (f : fflags) (o : x86opts) (extra : option (x86rt * Z)) (first : bool) (ops : list x86op) : text :=
  match ops with
  | [] => []
  | ONone :: _ => []
  | op :: r => render ((if first then [sp] else [P ","; sp]) ++ fmt_op_toks f op)
               ++ match op with OImm v => ex v | _ => [] end
               ++ render ((if first then mask_toks o extra else []) ++ bcst_toks op)
               ++ ops_text_ex ex f o extra false r
  end.

Definition fmt_inst_ex (explain_on : bool) (f : fflags) (i : x86inst) : text :=
  let ex v := if explain_on then explain (i_mnem i) (vec_size_of (i_ops i)) (v mod 256) else [] in
  render (prefix_toks f (i_opts i) (i_extra i) ++ [TId (i_mnem i)])
  ++ ops_text_ex ex f (i_opts i) (i_extra i) true (i_ops i) ++ render (er_toks (i_opts i)).

(* ------------------------------------------------------------------ proofs *)
Lemma render_app a b : render (a ++ b) = render a ++ render b.
Proof. unfold render. apply flat_map_app. Qed.

Lemma ops_text_plain f o extra : forall ops first,
  ops_text_ex (fun _ => []) f o extra first ops = render (ops_toks f o extra first ops).
Proof.
  induction ops as [|op r IH]; intros first; [reflexivity|].
  destruct op; cbn [ops_text_ex ops_toks]; try reflexivity;
    rewrite IH; rewrite ?app_nil_l; rewrite <- !render_app; rewrite <- ?app_assoc; reflexivity.
Qed.

(* without kExplainImms the line is the plain line (so every line theorem applies) *)
Lemma fmt_inst_ex_off f i : fmt_inst_ex false f i = fmt_inst f i.
Proof.
  unfold fmt_inst_ex, fmt_inst, fmt_inst_toks. rewrite ops_text_plain. rewrite <- !render_app. rewrite <- app_assoc. reflexivity.
Qed.

(* the shuffle explanations determine the immediate byte *)
Fixpoint split_on_bar (cur : text) (l : text) : list text :=
  match l with
  | [] => [rev cur]
  | c :: r => if Ascii.eqb c "|"%char then rev cur :: split_on_bar [] r else split_on_bar (c :: cur) r
  end.

Definition parse_shuf (bits : Z) (t : text) : option Z :=
  match t with
  | c :: r =>
    if Ascii.eqb c "{"%char then
      fold_left (fun acc x => match acc, parse_digits 10 x 0 with Some a, Some d => Some (a * 2 ^ bits + d) | _, _ => None end)
                (split_on_bar [] (removelast r)) (Some 0)
    else None
  | [] => None
  end.

Definition bytes256 : list Z := map Z.of_nat (seq 0 256).

Lemma shuf_roundtrip_all :
  forallb (fun u => match parse_shuf 2 (imm_shuf u 2 4) with Some v => v =? u | None => false end) bytes256 &&
  forallb (fun u => match parse_shuf 1 (imm_shuf u 1 8) with Some v => v =? u | None => false end) bytes256 = true.
Proof. vm_compute. reflexivity. Qed.

Lemma shuf_roundtrip u : 0 <= u < 256 ->
  parse_shuf 2 (imm_shuf u 2 4) = Some u /\ parse_shuf 1 (imm_shuf u 1 8) = Some u.
Proof.
  intros H. pose proof shuf_roundtrip_all as A. apply andb_prop in A as [A1 A2].
  rewrite forallb_forall in A1, A2.
  assert (I : In u bytes256) by (unfold bytes256; apply in_map_iff; exists (Z.to_nat u); split; [lia|apply in_seq; lia]).
  specialize (A1 u I). specialize (A2 u I).
  destruct (parse_shuf 2 (imm_shuf u 2 4)) as [v|]; [|discriminate]. apply Z.eqb_eq in A1. subst v.
  destruct (parse_shuf 1 (imm_shuf u 1 8)) as [v|]; [|discriminate]. apply Z.eqb_eq in A2. subst v. auto.
Qed.

(* the comparison-predicate tables name every predicate differently (the name determines the immediate field) *)
Fixpoint nodup_str (l : list string) : bool :=
  match l with [] => true | x :: r => negb (existsb (fun y => text_eqb (s x) (s y)) r) && nodup_str r end.
Lemma predicate_tables_injective : nodup_str vcmpx && nodup_str vpcmpx && nodup_str vpcomx = true.
Proof. vm_compute. reflexivity. Qed.

(* C20 — the domain of the x86 line theorem is DECIDABLE: inst_okb i = true -> inst_ok i.  The driver evaluates inst_okb on every command of the stream, so
   "this input is inside the domain of C20_x86_inst_roundtrip" is no longer python's classification but a proven-sound check. *)
From Coq Require Import ZArith Bool Ascii String Lia.
From Coq Require Import List.
Import ListNotations.
From Verif Require Import Fmt.TextModel Fmt.TextProofs Fmt.X86FmtModel Fmt.X86FmtProofs Fmt.X86InstModel Fmt.X86InstProofs Fmt.InstNamesCheck.
Local Open Scope Z_scope.

Definition id_okb (i : Z) : bool := (0 <=? i) && (i <? two32).
Definition reg_okb (t : x86rt) (i : Z) : bool := named t && id_okb i.
Definition base_okb (b : membase) : bool := match b with MBNone => true | MBLabel id => id_okb id | MBReg t i => reg_okb t i end.
Definition mem_okb (m : x86mem) : bool :=
  existsb (Z.eqb (m_size m)) arch_sizes && ((0 <=? m_seg m) && (m_seg m <=? 6)) && ((0 <=? m_addr m) && (m_addr m <=? 2)) && base_okb (m_base m)
  && match m_index m with Some (t, i) => reg_okb t i && ((0 <=? m_shift m) && (m_shift m <=? 3)) | None => m_shift m =? 0 end
  && ((- two63 <=? m_off m) && (m_off m <? two63)).
Definition op_okb (o : x86op) : bool :=
  match o with
  | ONone => true
  | OReg t i => reg_okb t i
  | OMem m => mem_okb m
  | OImm v => (- two63 <=? v) && (v <? two63)
  | OLabel id => id_okb id
  end.
Definition op_vis_okb (o : x86op) : bool := op_okb o && match o with OMem m => (0 <=? m_bcst m) && (m_bcst m <=? 6) | _ => true end.
Definition ex_okb (ex : option (x86rt * Z)) : bool := match ex with Some (t, i) => reg_okb t i | None => true end.
Definition inst_okb (i : x86inst) : bool :=
  mnem_okb (i_mnem i) && ex_okb (i_extra i) && ((0 <=? o_rc (i_opts i)) && (o_rc (i_opts i) <=? 3))
  && forallb op_vis_okb (until_none (i_ops i)) && negb ((o_rep (i_opts i) || o_repne (i_opts i)) && is_mask (i_extra i)).

Ltac split_b H := repeat match type of H with (_ && _) = true => let H1 := fresh H in apply andb_prop in H as [H H1] end.

Lemma id_okb_ok i : id_okb i = true -> id_ok i.
Proof. unfold id_okb, id_ok. intros H. apply andb_prop in H as [H1 H2]. apply Z.leb_le in H1. apply Z.ltb_lt in H2. lia. Qed.

Lemma reg_okb_ok t i : reg_okb t i = true -> reg_ok t i.
Proof. unfold reg_okb, reg_ok. intros H. apply andb_prop in H as [H1 H2]. split; [exact H1|apply id_okb_ok; exact H2]. Qed.

Lemma mem_okb_ok m : mem_okb m = true -> mem_ok m.
Proof.
  unfold mem_okb, mem_ok. intros H.
  apply andb_prop in H as [H Hoff]. apply andb_prop in H as [H Hidx]. apply andb_prop in H as [H Hbase].
  apply andb_prop in H as [H Haddr]. apply andb_prop in H as [Hsize Hseg].
  split; [|split; [|split; [|split; [|split]]]].
  - apply existsb_exists in Hsize as (x & Hin & E). apply Z.eqb_eq in E. subst. exact Hin.
  - apply andb_prop in Hseg as [A B]. apply Z.leb_le in A, B. lia.
  - apply andb_prop in Haddr as [A B]. apply Z.leb_le in A, B. lia.
  - destruct (m_base m) as [|id|t i]; cbn [base_okb base_ok] in *; [exact I|apply id_okb_ok; exact Hbase|apply reg_okb_ok; exact Hbase].
  - destruct (m_index m) as [[t i]|].
    + apply andb_prop in Hidx as [A B]. apply andb_prop in B as [B C]. apply Z.leb_le in B, C. split; [apply reg_okb_ok; exact A|lia].
    + apply Z.eqb_eq; exact Hidx.
  - apply andb_prop in Hoff as [A B]. apply Z.leb_le in A. apply Z.ltb_lt in B. lia.
Qed.

Lemma op_okb_ok o : op_okb o = true -> op_ok o.
Proof.
  destruct o as [|t i|m|v|l]; cbn [op_okb op_ok]; intros H; [exact I|apply reg_okb_ok; exact H|apply mem_okb_ok; exact H| |apply id_okb_ok; exact H].
  apply andb_prop in H as [A B]. apply Z.leb_le in A. apply Z.ltb_lt in B. lia.
Qed.

Lemma op_vis_okb_ok o : op_vis_okb o = true -> op_vis_ok o.
Proof.
  unfold op_vis_okb, op_vis_ok. intros H. apply andb_prop in H as [A B]. split; [apply op_okb_ok; exact A|].
  destruct o; try exact I. apply andb_prop in B as [B C]. apply Z.leb_le in B, C. lia.
Qed.

Theorem inst_okb_sound i : inst_okb i = true -> inst_ok i.
Proof.
  unfold inst_okb, inst_ok. intros H.
  apply andb_prop in H as [H Hrep]. apply andb_prop in H as [H Hops]. apply andb_prop in H as [H Hrc]. apply andb_prop in H as [Hm Hex].
  split; [apply mnem_okb_ok; exact Hm|]. split; [|split; [|split]].
  - destruct (i_extra i) as [[t k]|]; cbn [ex_okb ex_ok] in *; [apply reg_okb_ok; exact Hex|exact I].
  - apply andb_prop in Hrc as [A B]. apply Z.leb_le in A, B. lia.
  - apply forallb_Forall in Hops. eapply Forall_impl; [|exact Hops]. intros a Ha. apply op_vis_okb_ok; exact Ha.
  - apply negb_true_iff in Hrep. exact Hrep.
Qed.

(* non-vacuity *)
Example ex_inst_okb : inst_okb {| i_mnem := s "add"; i_opts := {| o_vex := false; o_vex3 := false; o_evex := false; o_modrm := false; o_modmr := false;
  o_short := false; o_long := false; o_xacquire := false; o_xrelease := false; o_lock := true; o_rep := false; o_repne := false; o_rex := false;
  o_zmask := false; o_er := false; o_sae := false; o_rc := 0 |}; i_extra := None; i_ops := [OReg Gp32 0; OImm 1] |} = true.
Proof. vm_compute. reflexivity. Qed.

(* ------------------------------------------------------------------ AArch64 *)
From Verif Require Import Fmt.A64FmtModel Fmt.A64FmtProofs Fmt.A64InstProofs.

Definition et_okb (t : a64rt) (et : Z) : bool :=
  (et =? 0) || (match t with AVec64 | AVec128 => true | _ => false end && ((1 <=? et) && (et <=? 6))).
Definition a64_reg_okb (t : a64rt) (id et : Z) : bool := a64_named t && id_okb id && et_okb t et.
Definition a64_base_okb (b : a64base) : bool := match b with ABNone => false | ABLabel id => id_okb id | ABReg t i => a64_named t && id_okb i end.
Definition a64_mem_okb (m : a64mem) : bool :=
  a64_base_okb (am_base m)
  && match am_index m with Some (t, i) => a64_named t && id_okb i | None => (am_shiftop m =? 0) && (am_shift m =? 0) end
  && ((0 <=? am_shiftop m) && (am_shiftop m <=? 13)) && ((0 <=? am_shift m) && (am_shift m <? two32)) && ((0 <=? am_mode m) && (am_mode m <=? 2))
  && ((am_mode m =? 0) || ((am_shiftop m =? 0) && (am_shift m =? 0)))
  && ((- two63 <=? am_off m) && (am_off m <? two63)).
Definition a64_op_okb (o : a64op) : bool :=
  match o with
  | AONone => true
  | AOReg t id et ei => a64_reg_okb t id et && match ei with Some k => id_okb k | None => true end
                        && (negb (a64_special t id) || ((et =? 0) && match ei with None => true | Some _ => false end))
  | AOMem m => a64_mem_okb m
  | AOImm v p => ((- two63 <=? v) && (v <? two63)) && ((0 <=? p) && (p <=? 13))
  | AOLabel id => id_okb id
  end.
Fixpoint mem_lastb (ops : list a64op) : bool :=
  match ops with [] => true | o :: r => match r with [] => true | _ => negb (is_mem o) end && mem_lastb r end.
Definition a64_inst_okb (i : a64inst) : bool :=
  mnem64_okb (ai_mnem i) && ((0 <=? ai_cond i) && (ai_cond i <=? 15)) && forallb a64_op_okb (a64_until_none (ai_ops i)) && mem_lastb (a64_until_none (ai_ops i)).

Lemma et_okb_ok t et : et_okb t et = true -> et_ok t et.
Proof.
  unfold et_okb, et_ok. intros H. apply orb_prop in H as [H|H]; [left; apply Z.eqb_eq; exact H|]. apply andb_prop in H as [A B].
  apply andb_prop in B as [B C]. apply Z.leb_le in B, C. destruct t; try discriminate A; [right; left|right; right]; split; try reflexivity; lia.
Qed.

Lemma a64_mem_okb_ok m : a64_mem_okb m = true -> a64_mem_ok m.
Proof.
  unfold a64_mem_okb, a64_mem_ok. intros H.
  apply andb_prop in H as [H Hoff]. apply andb_prop in H as [H Hmode2]. apply andb_prop in H as [H Hmode]. apply andb_prop in H as [H Hsh].
  apply andb_prop in H as [H Hsop]. apply andb_prop in H as [Hbase Hidx].
  split; [|split; [|split; [|split; [|split; [|split]]]]].
  - destruct (am_base m) as [|id|t i]; cbn [a64_base_okb a64_base_ok] in *; [discriminate|apply id_okb_ok; exact Hbase|].
    apply andb_prop in Hbase as [A B]. split; [exact A|apply id_okb_ok; exact B].
  - destruct (am_index m) as [[t i]|]; apply andb_prop in Hidx as [A B]; [split; [exact A|apply id_okb_ok; exact B]|split; apply Z.eqb_eq; assumption].
  - apply andb_prop in Hsop as [A B]. apply Z.leb_le in A, B. lia.
  - apply andb_prop in Hsh as [A B]. apply Z.leb_le in A. apply Z.ltb_lt in B. lia.
  - apply andb_prop in Hmode as [A B]. apply Z.leb_le in A, B. lia.
  - intros Hne. apply orb_prop in Hmode2 as [A|A]; [apply Z.eqb_eq in A; contradiction|]. apply andb_prop in A as [A B]. split; apply Z.eqb_eq; assumption.
  - apply andb_prop in Hoff as [A B]. apply Z.leb_le in A. apply Z.ltb_lt in B. lia.
Qed.

Lemma a64_op_okb_ok o : a64_op_okb o = true -> a64_op_ok o.
Proof.
  destruct o as [|t id et ei|m|v p|l]; cbn [a64_op_okb a64_op_ok]; intros H; [exact I| |apply a64_mem_okb_ok; exact H| |apply id_okb_ok; exact H].
  - apply andb_prop in H as [H Hsp]. apply andb_prop in H as [Hr Hei]. unfold a64_reg_okb in Hr. apply andb_prop in Hr as [Hr Het]. apply andb_prop in Hr as [Hn Hid].
    split; [split; [exact Hn|split; [apply id_okb_ok; exact Hid|apply et_okb_ok; exact Het]]|]. split.
    + destruct ei; [apply id_okb_ok; exact Hei|exact I].
    + intros S. rewrite S in Hsp. cbn [negb orb] in Hsp. apply andb_prop in Hsp as [A B]. split; [apply Z.eqb_eq; exact A|destruct ei; [discriminate B|reflexivity]].
  - apply andb_prop in H as [A B]. apply andb_prop in A as [A1 A2]. apply andb_prop in B as [B1 B2].
    apply Z.leb_le in A1, B1, B2. apply Z.ltb_lt in A2. lia.
Qed.

Lemma mem_lastb_ok ops : mem_lastb ops = true -> mem_last ops.
Proof.
  induction ops as [|o r IH]; [intros; exact I|]. cbn [mem_lastb mem_last]. intros H. apply andb_prop in H as [A B]. split; [|apply IH; exact B].
  destruct r; [exact I|]. apply negb_true_iff; exact A.
Qed.

Theorem a64_inst_okb_sound i : a64_inst_okb i = true -> a64_inst_ok i.
Proof.
  unfold a64_inst_okb, a64_inst_ok. intros H. apply andb_prop in H as [H Hl]. apply andb_prop in H as [H Hops]. apply andb_prop in H as [Hm Hc].
  split; [apply mnem64_okb_ok; exact Hm|]. split; [apply andb_prop in Hc as [A B]; apply Z.leb_le in A, B; lia|]. split.
  - apply forallb_Forall in Hops. eapply Forall_impl; [|exact Hops]. intros a Ha. apply a64_op_okb_ok; exact Ha.
  - apply mem_lastb_ok; exact Hl.
Qed.

(* C20 — proofs about the AArch64 text model: register names and operands parse back *)
From Coq Require Import ZArith Bool Ascii String Lia.
From Coq Require Import List.
Import ListNotations.
From Verif Require Import Fmt.TextModel Fmt.TextProofs Fmt.X86FmtModel Fmt.X86FmtProofs Fmt.A64FmtModel.
Local Open Scope Z_scope.

(* ------------------------------------------------------------------ generic text lemmas *)
Lemma split_at_app c a b : Forall (fun x => Ascii.eqb x c = false) a -> split_at c (a ++ c :: b) = Some (a, b).
Proof.
  induction 1 as [|x a Hx F IH]; cbn [app split_at].
  - rewrite Ascii.eqb_refl. reflexivity.
  - rewrite Hx, IH. reflexivity.
Qed.

Lemma split_at_none c a : Forall (fun x => Ascii.eqb x c = false) a -> split_at c a = None.
Proof. induction 1 as [|x a Hx F IH]; cbn [split_at]; [reflexivity|]. rewrite Hx, IH. reflexivity. Qed.

Lemma digit10_not c d : is_digit10 c = true -> is_digit10 d = false -> Ascii.eqb c d = false.
Proof. intros H1 H2. destruct (Ascii.eqb_spec c d); [subst; congruence|reflexivity]. Qed.

Lemma dec_no c n : 0 <= n -> is_digit10 c = false -> Forall (fun x => Ascii.eqb x c = false) (dec n).
Proof.
  intros Hn Hc. pose proof (dec_all_digits n Hn) as D. apply forallb_Forall in D.
  eapply Forall_impl; [|exact D]. intros a Ha. apply digit10_not; assumption.
Qed.

Lemma parse_dec32_dec n : 0 <= n < two32 -> parse_dec32 (dec n) = Some n.
Proof.
  intros H. assert (H64 : 0 <= n < two64) by (unfold two32, two64 in *; lia).
  unfold parse_dec32. unfold dec at 1. rewrite digits_length_pos. cbn [negb andb].
  rewrite dec_all_digits by lia. unfold dec at 1. rewrite digits_roundtrip by (auto; lia).
  destruct (Z.ltb_spec n two32); [|lia]. rewrite text_eqb_refl. reflexivity.
Qed.

Lemma dec_cons n : 0 <= n -> exists d r, dec n = d :: r /\ is_digit10 d = true.
Proof.
  intros Hn. pose proof (dec_all_digits n Hn) as D. unfold dec in *.
  pose proof (digits_nonempty 10 n). destruct (digits 10 n) as [|d r]; [congruence|].
  cbn [forallb] in D. apply andb_prop in D as [D _]. eauto.
Qed.

(* ------------------------------------------------------------------ registers *)
Definition et_ok (t : a64rt) (et : Z) : Prop :=
  et = 0 \/ (t = AVec64 /\ 1 <= et <= 6) \/ (t = AVec128 /\ 1 <= et <= 6).

Definition a64_reg_ok (t : a64rt) (id et : Z) : Prop := a64_named t = true /\ id_ok id /\ et_ok t et.

Lemma elem_suffix_nodot_head t et : 1 <= et <= 6 -> exists sf, a64_elem_suffix t et = "."%char :: sf.
Proof.
  intros H. unfold a64_elem_suffix. destruct (Z.eqb_spec et 0); [lia|]. eauto.
Qed.

Lemma dec_ident n : 0 <= n -> forallb is_ident_char (dec n) = true.
Proof. intros. unfold dec. apply digits_ident; lia. Qed.

Local Opaque dec.

Lemma a64_reg_roundtrip t id et : a64_reg_ok t id et -> parse_a64_reg (a64_reg_text t id et) = Some (t, id, et).
Proof.
  intros (Ht & Hid & Het). unfold id_ok in Hid.
  assert (Hn : 0 <= id) by lia.
  pose proof (parse_dec32_dec id Hid) as PD.
  pose proof (dec_no "."%char id Hn eq_refl) as ND.
  destruct (dec_cons id Hn) as (d0 & r0 & Ed & Hd0).
  assert (Dz : Ascii.eqb d0 "z"%char = false) by (apply digit10_not; auto).
  assert (Ds : Ascii.eqb d0 "s"%char = false) by (apply digit10_not; auto).
  assert (Dp : Ascii.eqb d0 "p"%char = false) by (apply digit10_not; auto).
  destruct Het as [-> | [[-> Het] | [-> Het]]].
  - (* no element type *)
    unfold parse_a64_reg, a64_reg_text. cbn [Z.eqb negb a64_elem_suffix]. rewrite app_nil_r.
    destruct t; try discriminate Ht; cbn [a64_reg_base];
      try (destruct (Z.eqb_spec id id_zr) as [->|Nz]; [vm_compute; reflexivity|];
           destruct (Z.eqb_spec id id_sp) as [->|Ns]; [vm_compute; reflexivity|]);
      (rewrite split_at_none by (constructor; [reflexivity|exact ND]));
      cbn [text_eqb s list_ascii_of_string Ascii.eqb Bool.eqb andb]; rewrite ?Ed;
      cbn [text_eqb Ascii.eqb Bool.eqb andb]; rewrite ?Dz, ?Ds, ?Dp; cbn [andb]; rewrite <- ?Ed; rewrite PD;
      cbn [Ascii.eqb Bool.eqb andb]; cbv iota;
      unfold a64_reg_text; cbn [Z.eqb negb a64_elem_suffix a64_reg_base]; rewrite ?app_nil_r;
      try (destruct (Z.eqb_spec id id_zr); [contradiction|]; destruct (Z.eqb_spec id id_sp); [contradiction|]);
      rewrite text_eqb_refl; reflexivity.
  - (* 64-bit vector with element type *)
    assert (C : et = 1 \/ et = 2 \/ et = 3 \/ et = 4 \/ et = 5 \/ et = 6) by lia.
    unfold parse_a64_reg, a64_reg_text.
    destruct C as [-> | [-> | [-> | [-> | [-> | ->]]]]];
      cbn [Z.eqb negb a64_reg_base];
      (match goal with |- context [("v"%char :: dec id) ++ a64_elem_suffix AVec64 ?e] =>
         let sf := eval vm_compute in (a64_elem_suffix AVec64 e) in change (a64_elem_suffix AVec64 e) with sf end);
      (rewrite (split_at_app "."%char ("v"%char :: dec id)) by (constructor; [reflexivity|exact ND]));
      cbn [text_eqb s list_ascii_of_string Ascii.eqb Bool.eqb andb]; rewrite ?Ed;
      cbn [text_eqb Ascii.eqb Bool.eqb andb]; rewrite ?Dz, ?Ds, ?Dp; cbn [andb]; rewrite <- ?Ed; rewrite PD;
      cbn [Ascii.eqb Bool.eqb andb]; cbv iota;
      (match goal with |- context [parse_elem AVec128 ?sf] =>
         let r := eval vm_compute in (parse_elem AVec128 sf) in change (parse_elem AVec128 sf) with r end);
      (match goal with |- context [parse_elem AVec64 ?sf] =>
         let r := eval vm_compute in (parse_elem AVec64 sf) in change (parse_elem AVec64 sf) with r end);
      cbv iota; unfold a64_reg_text; cbn [Z.eqb negb a64_reg_base];
      repeat (match goal with |- context [a64_elem_suffix ?t ?e] =>
         let sf := eval vm_compute in (a64_elem_suffix t e) in change (a64_elem_suffix t e) with sf end);
      rewrite ?text_eqb_refl; try reflexivity.
  - assert (C : et = 1 \/ et = 2 \/ et = 3 \/ et = 4 \/ et = 5 \/ et = 6) by lia.
    unfold parse_a64_reg, a64_reg_text.
    destruct C as [-> | [-> | [-> | [-> | [-> | ->]]]]];
      cbn [Z.eqb negb a64_reg_base];
      (match goal with |- context [("v"%char :: dec id) ++ a64_elem_suffix AVec128 ?e] =>
         let sf := eval vm_compute in (a64_elem_suffix AVec128 e) in change (a64_elem_suffix AVec128 e) with sf end);
      (rewrite (split_at_app "."%char ("v"%char :: dec id)) by (constructor; [reflexivity|exact ND]));
      cbn [text_eqb s list_ascii_of_string Ascii.eqb Bool.eqb andb]; rewrite ?Ed;
      cbn [text_eqb Ascii.eqb Bool.eqb andb]; rewrite ?Dz, ?Ds, ?Dp; cbn [andb]; rewrite <- ?Ed; rewrite PD;
      cbn [Ascii.eqb Bool.eqb andb]; cbv iota;
      (match goal with |- context [parse_elem AVec128 ?sf] =>
         let r := eval vm_compute in (parse_elem AVec128 sf) in change (parse_elem AVec128 sf) with r end);
      cbv iota; unfold a64_reg_text; cbn [Z.eqb negb a64_reg_base];
      repeat (match goal with |- context [a64_elem_suffix ?t ?e] =>
         let sf := eval vm_compute in (a64_elem_suffix t e) in change (a64_elem_suffix t e) with sf end);
      rewrite ?text_eqb_refl; try reflexivity.
Qed.

(* ------------------------------------------------------------------ facts about the name token of a register *)
Lemma a64_reg_first_lower t id et : a64_named t = true -> 0 <= id ->
  is_lower (first_char (a64_reg_text t id et)) = true.
Proof.
  intros Ht Hid. unfold a64_reg_text.
  destruct t; try discriminate Ht; cbn [a64_reg_base];
    try (destruct (id =? id_zr); [reflexivity|]; destruct (id =? id_sp); [reflexivity|]);
    destruct (negb (et =? 0)); reflexivity.
Qed.

Local Transparent tok_ok.
Lemma a64_reg_tok_ok t id et : a64_reg_ok t id et -> tok_ok (TId (a64_reg_text t id et)) = true.
Proof.
  intros (Ht & Hid & Het). unfold id_ok in Hid. cbn [tok_ok].
  assert (Hn : 0 <= id) by lia.
  assert (I : forallb is_ident_char (dec id) = true) by (apply dec_ident; lia).
  assert (B : forall el, forallb is_ident_char (a64_reg_base t id el) = true /\ a64_reg_base t id el <> []).
  { intros el. destruct t; try discriminate Ht; cbn [a64_reg_base];
      try (destruct (id =? id_zr); [split; [reflexivity|discriminate]|]; destruct (id =? id_sp); [split; [reflexivity|discriminate]|]);
      destruct el; cbn [forallb]; rewrite I; split; try reflexivity; discriminate. }
  unfold a64_reg_text. destruct (B (negb (et =? 0))) as [B1 B2].
  assert (S : forallb is_ident_char (a64_elem_suffix t et) = true).
  { destruct Het as [-> | [[-> Het] | [-> Het]]]; [reflexivity| |];
      assert (C : et = 1 \/ et = 2 \/ et = 3 \/ et = 4 \/ et = 5 \/ et = 6) by lia;
      destruct C as [-> | [-> | [-> | [-> | [-> | ->]]]]]; vm_compute; reflexivity. }
  rewrite forallb_app, B1, S.
  destruct (a64_reg_base t id (negb (et =? 0))); [congruence|reflexivity].
Qed.
Local Opaque tok_ok.

Lemma a64_reg_facts t id et : a64_reg_ok t id et ->
  starts_digit (a64_reg_text t id et) = false /\ parse_label_text (a64_reg_text t id et) = None /\
  parse_a64_reg (a64_reg_text t id et) = Some (t, id, et) /\ tok_ok (TId (a64_reg_text t id et)) = true.
Proof.
  intros H. pose proof H as (Ht & Hid & _). unfold id_ok in Hid.
  pose proof (a64_reg_first_lower t id et Ht ltac:(lia)) as L.
  repeat split.
  - unfold starts_digit. apply lower_not_digit; assumption.
  - apply lower_not_label; assumption.
  - apply a64_reg_roundtrip; assumption.
  - apply a64_reg_tok_ok; assumption.
Qed.

Lemma a64_base_reg_facts t id : a64_named t = true -> id_ok id ->
  starts_digit (a64_reg_text t id 0) = false /\ parse_a64_base (a64_reg_text t id 0) = Some (ABReg t id) /\
  parse_a64_reg (a64_reg_text t id 0) = Some (t, id, 0) /\ tok_ok (TId (a64_reg_text t id 0)) = true.
Proof.
  intros Ht Hid. destruct (a64_reg_facts t id 0 (conj Ht (conj Hid (or_introl eq_refl)))) as (F1 & F2 & F3 & F4).
  repeat split; try assumption. unfold parse_a64_base. rewrite F2, F3. reflexivity.
Qed.

Lemma a64_label_facts id : id_ok id ->
  starts_digit (label_text id) = false /\ parse_a64_base (label_text id) = Some (ABLabel id) /\
  tok_ok (TId (label_text id)) = true /\ parse_label_text (label_text id) = Some id.
Proof.
  intros H. destruct (label_facts id H) as (L1 & _ & L3 & L4).
  repeat split; try assumption. unfold parse_a64_base. rewrite L4. reflexivity.
Qed.

Lemma shift_facts op : 0 <= op <= 13 ->
  exists n, shift_toks op = [TId n] /\ index_of n shift_names 0 = Some op /\ tok_ok (TId n) = true /\ starts_digit n = false.
Proof.
  intros H.
  assert (C : op = 0 \/ op = 1 \/ op = 2 \/ op = 3 \/ op = 4 \/ op = 5 \/ op = 6 \/ op = 7 \/ op = 8 \/ op = 9 \/ op = 10 \/
              op = 11 \/ op = 12 \/ op = 13) by lia.
  assert (K : forall k : nat, (k < 14)%nat ->
            let n := s (nth k shift_names ""%string) in
            shift_toks (Z.of_nat k) = [TId n] /\ index_of n shift_names 0 = Some (Z.of_nat k) /\ tok_ok (TId n) = true /\
            starts_digit n = false).
  { intros k Hk. do 14 (destruct k as [|k]; [vm_compute; auto|]). lia. }
  exists (s (nth (Z.to_nat op) shift_names ""%string)).
  specialize (K (Z.to_nat op) ltac:(lia)). rewrite Z2Nat.id in K by lia. exact K.
Qed.

(* ------------------------------------------------------------------ operands *)
Definition a64_base_ok (b : a64base) : Prop :=
  match b with ABNone => False | ABLabel id => id_ok id | ABReg t i => a64_named t = true /\ id_ok i end.

Definition a64_mem_ok (m : a64mem) : Prop :=
  a64_base_ok (am_base m) /\
  match am_index m with
  | Some (t, i) => a64_named t = true /\ id_ok i
  | None => am_shiftop m = 0 /\ am_shift m = 0
  end /\
  0 <= am_shiftop m <= 13 /\ 0 <= am_shift m < two32 /\ 0 <= am_mode m <= 2 /\
  (am_mode m <> 0 -> am_shiftop m = 0 /\ am_shift m = 0) /\
  - two63 <= am_off m < two63.

Definition a64_op_ok (o : a64op) : Prop :=
  match o with
  | AONone => True
  | AOReg t id et ei => a64_reg_ok t id et /\ match ei with Some k => id_ok k | None => True end /\
                        (a64_special t id = true -> et = 0 /\ ei = None)
  | AOMem m => a64_mem_ok m
  | AOImm v p => - two63 <= v < two63 /\ 0 <= p <= 13
  | AOLabel id => id_ok id
  end.

(* a number as printed by fmt_imm_toks / a64_off_toks: one of two token shapes, each read back by parse_a64_num *)
Definition num_toks (hex : bool) (v : Z) : list tok :=
  let u := v mod two64 in
  if hex && (9 <? u) then [TId ("0"%char :: "x"%char :: digits 16 u)]
  else if v <? 0 then [P "-"; TId (digits 10 (- v))] else [TId (digits 10 v)].

Lemma fmt_imm_toks_num f v : fmt_imm_toks f v = num_toks (ff_hex_imms f) v.
Proof. reflexivity. Qed.
Lemma a64_off_toks_num f v : a64_off_toks f v = num_toks (ff_hex_offsets f) v.
Proof. reflexivity. Qed.

Lemma num_shapes hex v : - two63 <= v < two63 ->
  (exists x, num_toks hex v = [TId x] /\ starts_digit x = true /\ tok_ok (TId x) = true /\
             forall R, parse_a64_num (TId x :: R) = Some (v, R)) \/
  (exists x, num_toks hex v = [P "-"; TId x] /\ starts_digit x = true /\ tok_ok (TId x) = true /\
             forall R, parse_a64_num (P "-" :: TId x :: R) = Some (v, R)).
Proof.
  intros Hv. unfold num_toks.
  assert (Hu : 0 <= v mod two64 < two64) by (apply Z.mod_pos_bound; unfold two64; lia).
  destruct (hex && (9 <? v mod two64)) eqn:Eh.
  - left. eexists. split; [reflexivity|].
    assert (F : fmt_mag true (v mod two64) = "0"%char :: "x"%char :: digits 16 (v mod two64)).
    { apply fmt_mag_hex. apply andb_prop in Eh as [_ E9]. exact E9. }
    rewrite <- F.
    assert (L1 : starts_digit (fmt_mag true (v mod two64)) = true) by (rewrite F; reflexivity).
    assert (L2 : parse_ulit (fmt_mag true (v mod two64)) = Some (v mod two64)) by (rewrite F; apply parse_ulit_hex; assumption).
    assert (L3 : is_hex_lit (fmt_mag true (v mod two64)) = true) by (rewrite F; reflexivity).
    assert (L4 : tok_ok (TId (fmt_mag true (v mod two64))) = true) by (rewrite F; apply tok_ok_hexlit; lia).
    repeat split; try assumption. intros R. cbn [parse_a64_num]. rewrite L1, L2, L3.
    destruct (Z.ltb_spec (v mod two64) two64); [|lia]. rewrite sext64_mod by assumption. reflexivity.
  - destruct (Z.ltb_spec v 0).
    + right. eexists. split; [reflexivity|].
      destruct (mag_facts false (- v) ltac:(lia)) as (G1 & G2 & G3 & G4).
      pose proof (fmt_mag_dec (- v)) as F. rewrite <- F.
      repeat split; try assumption. intros R.
      cbn [parse_a64_num isP P first_char s list_ascii_of_string Ascii.eqb Bool.eqb andb].
      rewrite parse_mag_neg by lia. replace (- - v) with v by lia. reflexivity.
    + left. eexists. split; [reflexivity|].
      destruct (mag_facts false v ltac:(lia)) as (G1 & G2 & G3 & G4).
      pose proof (fmt_mag_dec v) as F. rewrite <- F.
      repeat split; try assumption. intros R. cbn [parse_a64_num]. rewrite G1, G2, G4. cbn [andb].
      destruct (Z.ltb_spec v two63); [reflexivity|lia].
Qed.

Local Opaque label_text a64_reg_text parse_a64_reg parse_a64_base parse_label_text parse_dec32 index_of tok_ok starts_digit
  parse_a64_num dec.

Lemma tok_ok_P (c : string) : is_ident_char (first_char (s c)) = false -> tok_ok (P c) = true.
Proof. intros Hc. Local Transparent tok_ok. unfold P. cbn [tok_ok]. rewrite Hc. reflexivity. Qed.
Local Opaque tok_ok.

Lemma tok_ok_dec n : 0 <= n -> tok_ok (TId (dec n)) = true.
Proof.
  intros H. Local Transparent tok_ok dec. cbn [tok_ok]. unfold dec. rewrite digits_length_pos, digits_ident by lia. reflexivity.
Qed.
Local Opaque tok_ok dec.

Ltac a64_step F :=
  cbn; rewrite ?F; cbn.

Lemma a64_mem_roundtrip f m : a64_mem_ok m ->
  parse_a64_op_toks (a64_mem_toks true f m) = Some (a64_canon_op (AOMem m)) /\
  forallb tok_ok (a64_mem_toks true f m) = true /\ no_adjacent_ids (a64_mem_toks true f m) = true.
Proof.
  destruct m as [b ix sop sh mode off]. unfold a64_mem_ok. cbn [am_base am_index am_shiftop am_shift am_mode am_off].
  intros (Hb & Hix & Hsop & Hsh & Hmode & Hpp & Hoff).
  pose proof (tok_ok_P "["%string eq_refl) as T1. pose proof (tok_ok_P "]"%string eq_refl) as T2.
  pose proof (tok_ok_P ","%string eq_refl) as T3. pose proof (tok_ok_P " "%string eq_refl) as T4.
  pose proof (tok_ok_P "!"%string eq_refl) as T5. pose proof (tok_ok_P "-"%string eq_refl) as T6.
  assert (T4' : tok_ok sp = true) by exact T4.
  destruct (shift_facts sop Hsop) as (sn & S1 & S2 & S3 & S4).
  pose proof (parse_dec32_dec sh Hsh) as D1. pose proof (tok_ok_dec sh ltac:(lia)) as D2.
  assert (Dsd : 0 < sh -> starts_digit (dec sh) = true).
  { intros. Local Transparent starts_digit dec. apply (dec_starts_digit sh). lia. }
  Local Opaque starts_digit dec.
  unfold a64_mem_toks, a64_canon_op. cbn [am_base am_index am_shiftop am_shift am_mode am_off].
  rewrite a64_off_toks_num.
  destruct b as [|lid|bt bi]; cbn [a64_base_ok] in Hb; [contradiction| |];
  [ destruct (a64_label_facts lid Hb) as (B1 & B2 & B3 & B4) | destruct Hb as [Hb1 Hb2]; destruct (a64_base_reg_facts bt bi Hb1 Hb2) as (B1 & B2 & B3 & B4) ];
  (destruct ix as [[it ii]|];
   [ destruct Hix as [Hi1 Hi2]; destruct (a64_base_reg_facts it ii Hi1 Hi2) as (I1 & I2 & I3 & I4)
   | destruct Hix as [E1' E2']; subst sop; subst sh ]);
  (assert (Cm : mode = 0 \/ mode = 1 \/ mode = 2) by lia;
   destruct Cm as [-> | [-> | ->]];
   [ | destruct (Hpp ltac:(lia)) as [E1 E2]; try subst sop; try subst sh | destruct (Hpp ltac:(lia)) as [E1 E2]; try subst sop; try subst sh ]);
  (destruct (Z.eqb_spec off 0) as [->|Noff];
   [ | destruct (num_shapes (ff_hex_offsets f) off Hoff) as [(nx & N1 & N2 & N3 & N4) | (nx & N1 & N2 & N3 & N4)]; rewrite N1 ]);
  try (destruct (Z.eqb_spec sh 0) as [->|Nsh]; [ destruct (Z.eqb_spec sop 0) as [->|Nsop] | ]);
  rewrite ?S1;
  cbn; unfold parse_a64_mem_rest; cbn; rewrite ?B1, ?B2, ?B3, ?B4, ?I1, ?I2, ?I3, ?I4, ?N2, ?N3, ?N4, ?S2, ?S3, ?S4, ?D1, ?D2, ?T1, ?T2, ?T3, ?T4, ?T4', ?T5, ?T6; cbn;
  rewrite ?B1, ?B2, ?B3, ?B4, ?I1, ?I2, ?I3, ?I4, ?N2, ?N3, ?N4, ?S2, ?S3, ?S4, ?D1, ?D2, ?T1, ?T2, ?T3, ?T4, ?T4', ?T5, ?T6; cbn;
  rewrite ?B1, ?B2, ?B3, ?B4, ?I1, ?I2, ?I3, ?I4, ?N2, ?N3, ?N4, ?S2, ?S3, ?S4, ?D1, ?D2, ?T1, ?T2, ?T3, ?T4, ?T4', ?T5, ?T6; cbn;
  rewrite ?B1, ?B2, ?B3, ?B4, ?I1, ?I2, ?I3, ?I4, ?N2, ?N3, ?N4, ?S2, ?S3, ?S4, ?D1, ?D2, ?T1, ?T2, ?T3, ?T4, ?T4', ?T5, ?T6; cbn;
  rewrite ?B1, ?B2, ?B3, ?B4, ?I1, ?I2, ?I3, ?I4, ?N2, ?N3, ?N4, ?S2, ?S3, ?S4, ?D1, ?D2, ?T1, ?T2, ?T3, ?T4, ?T4', ?T5, ?T6; cbn;
  auto;
  try (destruct off; [congruence| |]; cbn; auto).
Qed.


Lemma a64_op_toks_roundtrip f o : a64_op_ok o ->
  parse_a64_op_toks (a64_op_toks true f o) = Some (a64_canon_op o) /\
  forallb tok_ok (a64_op_toks true f o) = true /\ no_adjacent_ids (a64_op_toks true f o) = true.
Proof.
  pose proof (tok_ok_P "["%string eq_refl) as T1. pose proof (tok_ok_P "]"%string eq_refl) as T2.
  pose proof (tok_ok_P " "%string eq_refl) as T4. pose proof (tok_ok_P "-"%string eq_refl) as T6.
  assert (T4' : tok_ok sp = true) by exact T4.
  destruct o as [|t id et ei|m|v p|id]; cbn [a64_op_ok a64_op_toks a64_canon_op]; intros H.
  - Local Transparent tok_ok starts_digit. vm_compute. auto.
  - Local Opaque tok_ok starts_digit.
    destruct H as (Hr & Hei & Hsp). destruct (a64_reg_facts t id et Hr) as (F1 & F2 & F3 & F4).
    unfold a64_reg_toks. destruct (a64_special t id) eqn:Esp.
    { destruct (Hsp eq_refl) as [-> ->].
      assert (E0 : a64_reg_base t id false = a64_reg_text t id 0).
      { Local Transparent a64_reg_text. unfold a64_reg_text. cbn [Z.eqb negb a64_elem_suffix]. rewrite app_nil_r. reflexivity. }
      Local Opaque a64_reg_text.
      rewrite E0. cbn. rewrite F1, F2, F3, F4. auto. }
    destruct ei as [k|].
    + pose proof (parse_dec32_dec k Hei) as D1. unfold id_ok in Hei. pose proof (tok_ok_dec k ltac:(lia)) as D2.
      cbn. rewrite F3, D1, F4, D2, T1, T2. auto.
    + cbn. rewrite F1, F2, F3, F4. auto.
  - apply a64_mem_roundtrip; assumption.
  - destruct H as [Hv Hp]. unfold a64_imm_toks. rewrite fmt_imm_toks_num.
    destruct (num_shapes (ff_hex_imms f) v Hv) as [(nx & N1 & N2 & N3 & N4) | (nx & N1 & N2 & N3 & N4)]; rewrite N1;
      (destruct (Z.eqb_spec p 0) as [->|Np];
       [ cbn; rewrite ?N2, ?N3, ?N4, ?T6; cbn; auto
       | destruct (shift_facts p Hp) as (sn & S1 & S2 & S3 & S4); rewrite S1; cbn; rewrite ?S2, ?S3, ?N3, ?N4, ?T4, ?T4', ?T6; cbn;
         destruct (Z.eqb_spec p 0); [contradiction|]; rewrite ?S3, ?N3, ?T4, ?T4', ?T6; cbn; auto ]).
  - destruct (a64_label_facts id H) as (B1 & B2 & B3 & B4).
    cbn. rewrite B1, B4, B3. auto.
Qed.

Theorem a64_operand_roundtrip f o : a64_op_ok o ->
  parse_a64_operand (a64_fmt_operand true f o) = Some (a64_canon_op o).
Proof.
  intros H. destruct (a64_op_toks_roundtrip f o H) as (R1 & R2 & R3).
  unfold parse_a64_operand, a64_fmt_operand. rewrite lex_render by assumption. exact R1.
Qed.

(* the pinned formatter (fixed = false) prints ldr-style uxtw and sxtw index extensions identically *)
Lemma a64_extend_dropped_witness :
  let m op := AOMem {| am_base := ABReg AGp64 1; am_index := Some (AGp32, 2); am_shiftop := op; am_shift := 0; am_mode := 0; am_off := 0 |} in
  let f := {| ff_hex_imms := false; ff_hex_offsets := false |} in
  a64_op_ok (m 8) /\ a64_op_ok (m 12) /\ m 8 <> m 12 /\ a64_canon_op (m 8) <> a64_canon_op (m 12) /\
  a64_fmt_operand false f (m 8) = a64_fmt_operand false f (m 12) /\
  a64_fmt_operand true f (m 8) <> a64_fmt_operand true f (m 12).
Proof.
  cbv zeta.
  assert (OK : forall op, 0 <= op <= 13 ->
    a64_op_ok (AOMem {| am_base := ABReg AGp64 1; am_index := Some (AGp32, 2); am_shiftop := op; am_shift := 0; am_mode := 0; am_off := 0 |})).
  { intros op Hop. unfold a64_op_ok, a64_mem_ok, a64_base_ok, id_ok, two32, two63. cbn.
    repeat split; try reflexivity; try lia; intros Hc; exfalso; apply Hc; reflexivity. }
  split; [apply OK; lia|]. split; [apply OK; lia|].
  split; [discriminate|].
  split; [vm_compute; discriminate|].
  split; [vm_compute; reflexivity|vm_compute; discriminate].
Qed.

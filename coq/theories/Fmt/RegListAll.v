(* C20 — every AArch32 register list over r0..r15: the printed list denotes exactly the mask.
   Lifted from the four exhaustive sweeps RegListQ0..Q3; the sweeps are stated with the scrutinee under [chk] so that no step (Qed included)
   has to convert a term that would evaluate the parser on a symbolic mask. *)
From Coq Require Import ZArith Bool Lia List.
From Verif Require Import Fmt.TextModel Fmt.RegList Fmt.RegListQ0 Fmt.RegListQ1 Fmt.RegListQ2 Fmt.RegListQ3.
Local Open Scope Z_scope.

Lemma sweep_in lo m :
  forallb (fun m => chk (parse_reglist (fmt_reglist a32_reg m)) m) (zrange lo 16384) = true ->
  lo <= m < lo + 16384 -> parse_reglist (fmt_reglist a32_reg m) = Some m.
Proof.
  intros A Q. apply chk_spec.
  exact (proj1 (forallb_forall _ _) A m (zrange_in lo 16384 m ltac:(lia) Q)).
Qed.

Theorem reglist_roundtrip m : 0 <= m < 65536 -> parse_reglist (fmt_reglist a32_reg m) = Some m.
Proof.
  intros H.
  assert (Q : m < 16384 \/ 16384 <= m < 32768 \/ 32768 <= m < 49152 \/ 49152 <= m) by lia.
  destruct Q as [Q | [Q | [Q | Q]]].
  - apply (sweep_in 0 m reglist_roundtrip_q0). lia.
  - apply (sweep_in 16384 m reglist_roundtrip_q1). lia.
  - apply (sweep_in 32768 m reglist_roundtrip_q2). lia.
  - apply (sweep_in 49152 m reglist_roundtrip_q3). lia.
Qed.

(* the same for any register-name function is NOT claimed: the parser reads "r<decimal>" names only *)

(* C20 — the logger line (EmitterUtils::finish_formatted_line with kMachineCode) splits back into instruction text,
   machine-code column and comment. Model (parse_log_line) and proof. *)
From Coq Require Import ZArith Bool Ascii String Lia.
From Coq Require Import List.
Import ListNotations.
From Verif Require Import Fmt.TextModel Fmt.TextProofs Fmt.X86FmtModel.
Local Open Scope Z_scope.

Definition spc : ascii := " "%char.
Definition nl : ascii := ascii_of_nat 10.

Fixpoint drop_sp (l : text) : text :=
  match l with
  | c :: r => if Ascii.eqb c spc then drop_sp r else l
  | [] => []
  end.
Definition rstrip (l : text) : text := rev (drop_sp (rev l)).

(* instruction text, machine-code column, comment *)
Definition parse_log_line (l : text) : option (text * text * text) :=
  match rev l with
  | c :: body_rev =>
    if Ascii.eqb c nl then
      match split_at ";"%char (rev body_rev) with
      | Some (lft, s0 :: r1) =>
        if Ascii.eqb s0 spc then
          match split_at "|"%char r1 with
          | Some (colp, s1 :: cm) => if Ascii.eqb s1 spc then Some (rstrip lft, rstrip colp, cm) else None
          | Some (_, []) => None
          | None => Some (rstrip lft, r1, [])
          end
        else None
      | _ => None
      end
    else None
  | [] => None
  end.

(* ------------------------------------------------------------------ proofs *)
Lemma split_at_app' c a b : Forall (fun x => Ascii.eqb x c = false) a -> split_at c (a ++ c :: b) = Some (a, b).
Proof.
  induction 1 as [|x a Hx F IH]; cbn [app split_at].
  - rewrite Ascii.eqb_refl. reflexivity.
  - rewrite Hx, IH. reflexivity.
Qed.

Lemma split_at_none' c a : Forall (fun x => Ascii.eqb x c = false) a -> split_at c a = None.
Proof. induction 1 as [|x a Hx F IH]; cbn [split_at]; [reflexivity|]. rewrite Hx, IH. reflexivity. Qed.

Lemma rev_repeat {A} (x : A) n : rev (repeat x n) = repeat x n.
Proof.
  induction n as [|n IH]; [reflexivity|]. cbn [repeat rev]. rewrite IH.
  clear. induction n as [|n IH]; [reflexivity|]. cbn [repeat app]. rewrite IH. reflexivity.
Qed.

Lemma drop_sp_repeat n l : drop_sp (repeat spc n ++ l) = drop_sp l.
Proof. induction n as [|n IH]; [reflexivity|]. cbn [repeat app drop_sp]. rewrite Ascii.eqb_refl. exact IH. Qed.

Definition ends_nonspace (t : text) : Prop := exists c r, rev t = c :: r /\ Ascii.eqb c spc = false.

Lemma rstrip_pad t n : ends_nonspace t -> rstrip (t ++ repeat spc n) = t.
Proof.
  intros (c & r & E & Hc). unfold rstrip. rewrite rev_app_distr, rev_repeat, drop_sp_repeat, E.
  cbn [drop_sp]. rewrite Hc. rewrite <- E. apply rev_involutive.
Qed.

Definition hexdot (c : ascii) : Prop :=
  Ascii.eqb c "|"%char = false /\ Ascii.eqb c spc = false /\ Ascii.eqb c ";"%char = false.

Lemma digit_hexdot d : 0 <= d < 16 -> hexdot (digit_char d).
Proof. intros H. unfold hexdot. digit_split d H; repeat split; reflexivity. Qed.

Lemma fmt_hex_hexdot bs : Forall (fun v => 0 <= v < 256) bs -> Forall hexdot (fmt_hex bs).
Proof.
  induction 1 as [|v bs Hv F IH]; [constructor|]. unfold fmt_hex in *. cbn [flat_map hex_byte app].
  constructor; [apply digit_hexdot; split; [apply Z.div_pos; lia|apply Z.div_lt_upper_bound; lia]|].
  constructor; [apply digit_hexdot, Z.mod_pos_bound; lia|exact IH].
Qed.

Lemma hexcol_hexdot bytes rel imm : Forall (fun v => 0 <= v < 256) bytes -> Forall hexdot (fmt_hexcol bytes rel imm).
Proof.
  intros F. unfold fmt_hexcol. apply Forall_app; split; [apply fmt_hex_hexdot, Forall_firstn'; exact F|].
  apply Forall_app; split; [|apply fmt_hex_hexdot, Forall_skipn'; exact F].
  generalize (2 * rel)%nat. intros n. induction n; constructor; auto. repeat split; reflexivity.
Qed.

Lemma fmt_hex_nonempty bs : bs <> [] -> fmt_hex bs <> [].
Proof. destruct bs; [congruence|discriminate]. Qed.

Lemma hexcol_nonempty bytes rel imm : bytes <> [] -> fmt_hexcol bytes rel imm <> [].
Proof.
  intros Hb E. unfold fmt_hexcol in E. apply app_eq_nil in E as [E1 E2]. apply app_eq_nil in E2 as [E2 E3].
  destruct rel as [|rel]; [|discriminate E2].
  assert (Hn : (0 < length bytes)%nat) by (destruct bytes; [congruence|cbn; lia]).
  destruct (Nat.le_gt_cases (length bytes) imm) as [Hi|Hi].
  - replace (length bytes - imm)%nat with 0%nat in E3 by lia. cbn [skipn] in E3. apply (fmt_hex_nonempty bytes Hb E3).
  - assert (Hf : firstn (length bytes - 0 - imm) bytes <> []).
    { destruct bytes as [|b0 bs]; [congruence|]. destruct (length (b0 :: bs) - 0 - imm)%nat eqn:En; [lia|discriminate]. }
    apply (fmt_hex_nonempty _ Hf E1).
Qed.

Lemma ends_nonspace_of_forall col : col <> [] -> Forall hexdot col -> ends_nonspace col.
Proof.
  intros Hne F. unfold ends_nonspace.
  assert (Fr : Forall hexdot (rev col)) by (apply Forall_rev; exact F).
  destruct (rev col) as [|c r] eqn:E.
  - apply (f_equal (@rev _)) in E. rewrite rev_involutive in E. cbn in E. congruence.
  - exists c, r. split; [reflexivity|]. inversion Fr as [|? ? Hc _]; subst. apply Hc.
Qed.

(* the line with a machine-code column: text, column and comment are recovered for every padding, provided the instruction text
   contains no ';', is not empty and does not end with a space (true of every text the formatters print: identifiers,
   brackets, braces, digits), the bytes are bytes and at least one byte was emitted; the comment is any text *)
Theorem log_line_roundtrip t pad1 pad2 bytes rel imm comment :
  Forall (fun c => Ascii.eqb c ";"%char = false) t -> ends_nonspace t ->
  Forall (fun v => 0 <= v < 256) bytes -> bytes <> [] ->
  parse_log_line (finish_line t pad1 pad2 (Some (bytes, rel, imm)) comment) = Some (t, fmt_hexcol bytes rel imm, comment).
Proof.
  intros Hsemi Hend Hb Hne.
  pose proof (hexcol_hexdot bytes rel imm Hb) as Hcol. pose proof (hexcol_nonempty bytes rel imm Hne) as Hcne.
  set (col := fmt_hexcol bytes rel imm) in *.
  assert (Hcol_bar : Forall (fun x => Ascii.eqb x "|"%char = false) col) by (eapply Forall_impl; [|exact Hcol]; intros a H; apply H).
  assert (Hpad_semi : forall n, Forall (fun c => Ascii.eqb c ";"%char = false) (t ++ repeat spc n)).
  { intros n. apply Forall_app; split; [exact Hsemi|]. induction n; constructor; auto. }
  unfold finish_line.
  assert (Hhb : negb (Nat.eqb (length bytes) 0) = true) by (destruct bytes; [congruence|reflexivity]).
  rewrite Hhb. cbn [orb]. unfold pad_end.
  change (s "; ") with [";"%char; " "%char]. change (s "| ") with ["|"%char; " "%char].
  change (ascii_of_nat 10) with nl. change " "%char with spc. fold col.
  destruct (Nat.eqb (length comment) 0) eqn:Ec; cbn [negb].
  - (* no comment *)
    assert (comment = []) by (destruct comment; [reflexivity|discriminate]). subst comment.
    unfold parse_log_line. rewrite rev_app_distr. cbn [rev app]. rewrite Ascii.eqb_refl. rewrite rev_involutive.
    rewrite split_at_app' by apply Hpad_semi. rewrite Ascii.eqb_refl.
    rewrite split_at_none' by exact Hcol_bar. rewrite rstrip_pad by exact Hend. reflexivity.
  - unfold parse_log_line. rewrite rev_app_distr. cbn [rev app]. rewrite Ascii.eqb_refl. rewrite rev_involutive.
    repeat rewrite <- app_assoc. cbn [app]. rewrite (app_assoc t).
    rewrite split_at_app' by apply Hpad_semi. rewrite Ascii.eqb_refl.
    match goal with |- context [col ++ repeat spc ?n ++ _] => set (k := n) end.
    rewrite (app_assoc col). rewrite split_at_app'.
    + rewrite Ascii.eqb_refl. rewrite rstrip_pad by exact Hend.
      rewrite rstrip_pad by (apply ends_nonspace_of_forall; assumption). reflexivity.
    + apply Forall_app; split; [exact Hcol_bar|]. clear. induction k; constructor; auto.
Qed.

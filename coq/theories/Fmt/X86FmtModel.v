(* C20 — x86 register names (written from the Intel SDM / APX / AMX manuals, NOT from AsmJit's tables), the text model
   of x86::FormatterInternal::format_register / format_operand / format_instruction, and the inverse parsers.
   Models only. *)
From Coq Require Import ZArith Bool Ascii String.
From Coq Require Import List.
Import ListNotations.
From Verif Require Import Fmt.TextModel.
Local Open Scope Z_scope.

(* ------------------------------------------------------------------ register types (asmjit::RegType values used by x86) *)
Inductive x86rt :=
| Gp8Lo | Gp8Hi | Gp16 | Gp32 | Gp64 | Xmm | Ymm | Zmm | KReg | Tmm | SReg | CReg | DReg | Mm | St | Bnd | Rip
| RtOther (code : Z).

Definition rt_code (t : x86rt) : Z :=
  match t with
  | Gp8Lo => 2 | Gp8Hi => 3 | Gp16 => 4 | Gp32 => 5 | Gp64 => 6 | Xmm => 11 | Ymm => 12 | Zmm => 13 | KReg => 16
  | Tmm => 17 | SReg => 25 | CReg => 26 | DReg => 27 | Mm => 28 | St => 29 | Bnd => 30 | Rip => 31 | RtOther c => c
  end.

Definition named_rts : list x86rt :=
  [Gp8Lo; Gp8Hi; Gp16; Gp32; Gp64; Xmm; Ymm; Zmm; KReg; Tmm; SReg; CReg; DReg; Mm; St; Bnd; Rip].

Definition rt_of_code (c : Z) : x86rt :=
  match find (fun t => rt_code t =? c) named_rts with Some t => t | None => RtOther c end.

Definition named (t : x86rt) : bool := match t with RtOther _ => false | _ => true end.

(* ------------------------------------------------------------------ architectural names *)
Definition names_gpq : list text := map s ["rax"; "rcx"; "rdx"; "rbx"; "rsp"; "rbp"; "rsi"; "rdi"]%string.
Definition names_gpd : list text := map s ["eax"; "ecx"; "edx"; "ebx"; "esp"; "ebp"; "esi"; "edi"]%string.
Definition names_gpw : list text := map s ["ax"; "cx"; "dx"; "bx"; "sp"; "bp"; "si"; "di"]%string.
Definition names_gpb : list text := map s ["al"; "cl"; "dl"; "bl"; "spl"; "bpl"; "sil"; "dil"]%string.
Definition names_gpbhi : list text := map s ["ah"; "ch"; "dh"; "bh"]%string.
Definition names_seg : list text := map s ["es"; "cs"; "ss"; "ds"; "fs"; "gs"]%string.   (* segment ids 1..6 *)

Definition numbered (pre suf : string) (i : Z) : text := s pre ++ dec i ++ s suf.
Definition upto (n : Z) (pre : string) (i : Z) : option text := if i <? n then Some (numbered pre "" i) else None.

(* legacy 8 registers by name, r8..r15 (x86-64) and r16..r31 (APX) by number with the width suffix *)
Definition gp_name (legacy : list text) (suf : string) (i : Z) : option text :=
  if i <? 8 then nth_error legacy (Z.to_nat i) else if i <? 32 then Some (numbered "r" suf i) else None.

Definition x86_arch_name (t : x86rt) (i : Z) : option text :=
  if i <? 0 then None else
  match t with
  | Gp8Lo => gp_name names_gpb "b" i
  | Gp8Hi => if i <? 4 then nth_error names_gpbhi (Z.to_nat i) else None
  | Gp16 => gp_name names_gpw "w" i
  | Gp32 => gp_name names_gpd "d" i
  | Gp64 => gp_name names_gpq "" i
  | Xmm => upto 32 "xmm" i
  | Ymm => upto 32 "ymm" i
  | Zmm => upto 32 "zmm" i
  | KReg => upto 8 "k" i
  | Tmm => upto 8 "tmm" i
  | SReg => if (1 <=? i) && (i <=? 6) then nth_error names_seg (Z.to_nat (i - 1)) else None
  | CReg => upto 16 "cr" i
  | DReg => upto 16 "dr" i
  | Mm => upto 8 "mm" i
  | St => upto 8 "st" i
  | Bnd => upto 4 "bnd" i
  | Rip => if i =? 0 then Some (s "rip") else None
  | RtOther _ => None
  end.

(* AsmJit's name of the register *type* (used for ids that are not architectural: "gpq@40") *)
Definition type_string (t : x86rt) : text :=
  match t with
  | Gp8Lo => s "gpb" | Gp8Hi => s "gpb.hi" | Gp16 => s "gpw" | Gp32 => s "gpd" | Gp64 => s "gpq"
  | Xmm => s "xmm" | Ymm => s "ymm" | Zmm => s "zmm" | KReg => s "k" | Tmm => s "tmm" | SReg => s "seg"
  | CReg => s "cr" | DReg => s "dr" | Mm => s "mm" | St => s "st" | Bnd => s "bnd" | Rip => s "rip"
  | RtOther _ => []
  end.

Definition at_c : ascii := "@"%char.

(* the text of a physical register: architectural name, else AsmJit's "n/a" for the null segment, else type@id *)
Definition fmt_reg (t : x86rt) (i : Z) : text :=
  match x86_arch_name t i with
  | Some n => n
  | None =>
    match t with
    | RtOther c => s "<Reg-" ++ dec c ++ s ">?" ++ dec i
    | SReg => if i =? 0 then s "n/a" else type_string t ++ at_c :: dec i
    | _ => type_string t ++ at_c :: dec i
    end
  end.

(* ------------------------------------------------------------------ parsing a register name *)
Fixpoint split_at (c : ascii) (l : text) : option (text * text) :=
  match l with
  | [] => None
  | a :: r => if Ascii.eqb a c then Some ([], r)
              else match split_at c r with Some (p, q) => Some (a :: p, q) | None => None end
  end.

Fixpoint assoc {A} (x : text) (tbl : list (text * A)) : option A :=
  match tbl with
  | [] => None
  | (k, v) :: r => if text_eqb x k then Some v else assoc x r
  end.

Definition ids32 : list Z := map Z.of_nat (seq 0 32).

Definition arch_table : list (text * (x86rt * Z)) :=
  flat_map (fun t => flat_map (fun i => match x86_arch_name t i with Some n => [(n, (t, i))] | None => [] end) ids32)
           named_rts
  ++ [(s "n/a", (SReg, 0))].

Definition type_table : list (text * x86rt) := map (fun t => (type_string t, t)) named_rts.

Definition parse_reg_name (x : text) : option (x86rt * Z) :=
  match split_at at_c x with
  | Some (ts, ds) =>
    match assoc ts type_table, parse_digits 10 ds 0 with
    | Some t, Some i => if (i <? two32) && text_eqb (fmt_reg t i) x then Some (t, i) else None
    | _, _ => None
    end
  | None => assoc x arch_table
  end.

(* ------------------------------------------------------------------ operands *)
Inductive membase := MBNone | MBLabel (id : Z) | MBReg (t : x86rt) (id : Z).

Record x86mem := {
  m_size : Z;                       (* bytes: 0 (none) 1 2 4 6 8 10 16 32 64 *)
  m_seg : Z;                        (* 0 none, 1..6 = es cs ss ds fs gs *)
  m_addr : Z;                       (* 0 default, 1 abs, 2 rel *)
  m_base : membase;
  m_index : option (x86rt * Z);
  m_shift : Z;                      (* 0..3 *)
  m_off : Z;                        (* int64 *)
  m_bcst : Z                        (* 0 none, k = {1to2^k}; printed by format_instruction only *)
}.

Inductive x86op := ONone | OReg (t : x86rt) (id : Z) | OMem (m : x86mem) | OImm (v : Z) | OLabel (id : Z).

Record fflags := { ff_hex_imms : bool; ff_hex_offsets : bool }.

Definition sp : tok := TP " "%char.
Definition kw (x : string) : tok := TId (s x).
Definition P (x : string) : tok := TP (first_char (s x)).

Definition size_word (z : Z) : option text :=
  if z =? 1 then Some (s "byte") else if z =? 2 then Some (s "word") else if z =? 4 then Some (s "dword")
  else if z =? 6 then Some (s "fword") else if z =? 8 then Some (s "qword") else if z =? 10 then Some (s "tbyte")
  else if z =? 16 then Some (s "xmmword") else if z =? 32 then Some (s "ymmword") else if z =? 64 then Some (s "zmmword")
  else None.
Definition arch_sizes : list Z := [0; 1; 2; 4; 6; 8; 10; 16; 32; 64].

Definition size_toks (z : Z) : list tok :=
  match size_word z with Some w => [TId w; sp; kw "ptr"; sp] | None => [] end.
Definition seg_toks (g : Z) : list tok :=
  if (1 <=? g) && (g <=? 6) then [TId (fmt_reg SReg g); P ":"] else [].
Definition addr_toks (a : Z) : list tok :=
  if a =? 1 then [kw "abs"; sp] else if a =? 2 then [kw "rel"; sp] else [].

Definition label_text (id : Z) : text := "L"%char :: dec id.

(* unsigned magnitude: decimal, or 0x + hex when the flag is set and the magnitude is > 9 *)
Definition fmt_mag (hex : bool) (v : Z) : text :=
  if hex && (9 <? v) then "0"%char :: "x"%char :: digits 16 v else digits 10 v.

Definition base_toks (b : membase) : list tok :=
  match b with
  | MBNone => []
  | MBLabel id => [TId (label_text id)]
  | MBReg t i => [TId (fmt_reg t i)]
  end.
Definition has_base (b : membase) : bool := match b with MBNone => false | _ => true end.

Definition index_toks (hb : bool) (ix : option (x86rt * Z)) (sh : Z) : list tok :=
  match ix with
  | None => []
  | Some (t, i) => (if hb then [P "+"] else []) ++ [TId (fmt_reg t i)]
                   ++ (if sh =? 0 then [] else [P "*"; TId (dec (2 ^ sh))])
  end.

Definition off_toks (f : fflags) (hbi : bool) (off : Z) : list tok :=
  if (off =? 0) && hbi then []
  else let neg := off <? 0 in
       let mag := if neg then - off else off in
       (if neg then [P "-"] else if hbi then [P "+"] else []) ++ [TId (fmt_mag (ff_hex_offsets f) mag)].

Definition mem_body_toks (f : fflags) (m : x86mem) : list tok :=
  let hb := has_base (m_base m) in
  let hi := match m_index m with Some _ => true | None => false end in
  base_toks (m_base m) ++ index_toks hb (m_index m) (m_shift m) ++ off_toks f (hb || hi) (m_off m).

Definition fmt_mem_toks (f : fflags) (m : x86mem) : list tok :=
  size_toks (m_size m) ++ seg_toks (m_seg m) ++ [P "["] ++ addr_toks (m_addr m) ++ mem_body_toks f m ++ [P "]"].

Definition fmt_imm_toks (f : fflags) (v : Z) : list tok :=
  let u := v mod two64 in
  if ff_hex_imms f && (9 <? u) then [TId ("0"%char :: "x"%char :: digits 16 u)]
  else if v <? 0 then [P "-"; TId (digits 10 (- v))] else [TId (digits 10 v)].

Definition fmt_op_toks (f : fflags) (o : x86op) : list tok :=
  match o with
  | ONone => [P "<"; kw "None"; P ">"]
  | OReg t i => [TId (fmt_reg t i)]
  | OMem m => fmt_mem_toks f m
  | OImm v => fmt_imm_toks f v
  | OLabel id => [TId (label_text id)]
  end.

Definition fmt_operand (f : fflags) (o : x86op) : text := render (fmt_op_toks f o).

(* ------------------------------------------------------------------ parsing an operand *)
Definition isP (c : string) (t : tok) : bool :=
  match t with TP d => Ascii.eqb (first_char (s c)) d | _ => false end.
Definition isK (k : string) (t : tok) : bool :=
  match t with TId x => text_eqb x (s k) | _ => false end.

Definition parse_label_text (x : text) : option Z :=
  match x with
  | c :: r => if Ascii.eqb c "L"%char && negb (Nat.eqb (length r) 0) && forallb is_digit10 r
              then match parse_digits 10 r 0 with Some i => if i <? two32 then Some i else None | None => None end
              else None
  | [] => None
  end.

Definition parse_base (x : text) : option membase :=
  match parse_label_text x with
  | Some id => Some (MBLabel id)
  | None => match parse_reg_name x with Some (t, i) => Some (MBReg t i) | None => None end
  end.

Definition parse_mag (neg : bool) (x : text) : option Z :=
  match parse_ulit x with
  | Some v => if neg then (if v <=? two63 then Some (- v) else None) else (if v <? two63 then Some v else None)
  | None => None
  end.

Definition parse_scale (x : text) : option Z :=
  if text_eqb x (s "2") then Some 1 else if text_eqb x (s "4") then Some 2 else if text_eqb x (s "8") then Some 3 else None.

(* what follows base/index: "]" or sign magnitude "]" *)
Definition parse_tail (ts : list tok) : option Z :=
  match ts with
  | [t] => if isP "]" t then Some 0 else None
  | [sg; TId x; t] =>
      if isP "]" t then (if isP "+" sg then parse_mag false x else if isP "-" sg then parse_mag true x else None) else None
  | _ => None
  end.

Definition parse_index_tail (ts : list tok) : option (Z * Z) :=   (* shift, offset *)
  match ts with
  | st :: TId sc :: r =>
      if isP "*" st then match parse_scale sc, parse_tail r with Some sh, Some o => Some (sh, o) | _, _ => None end
      else match parse_tail ts with Some o => Some (0, o) | None => None end
  | _ => match parse_tail ts with Some o => Some (0, o) | None => None end
  end.

(* base, index, shift, offset *)
Definition parse_body (ts : list tok) : option (membase * option (x86rt * Z) * Z * Z) :=
  match ts with
  | TId x :: r =>
    if starts_digit x then
      match r with
      | [t] => if isP "]" t then match parse_mag false x with Some o => Some (MBNone, None, 0, o) | None => None end else None
      | _ => None
      end
    else
      match r with
      | st :: TId y :: r2 =>
        if isP "*" st then
          (* x is a scaled index without base *)
          match parse_reg_name x, parse_scale y, parse_tail r2 with
          | Some ix, Some sh, Some o => Some (MBNone, Some ix, sh, o)
          | _, _, _ => None
          end
        else if isP "+" st && negb (starts_digit y) then
          match parse_base x, parse_reg_name y, parse_index_tail r2 with
          | Some b, Some ix, Some (sh, o) => Some (b, Some ix, sh, o)
          | _, _, _ => None
          end
        else
          match parse_base x, parse_tail r with Some b, Some o => Some (b, None, 0, o) | _, _ => None end
      | _ => match parse_base x, parse_tail r with Some b, Some o => Some (b, None, 0, o) | _, _ => None end
      end
  | [sg; TId x; t] =>
      if isP "-" sg && isP "]" t then match parse_mag true x with Some o => Some (MBNone, None, 0, o) | None => None end
      else None
  | _ => None
  end.

Definition word_size (w : text) : option Z :=
  assoc w (map (fun z => (match size_word z with Some x => x | None => [] end, z)) [1; 2; 4; 6; 8; 10; 16; 32; 64]).

Definition peel_size (ts : list tok) : option (Z * list tok) :=
  match ts with
  | TId w :: t1 :: t2 :: t3 :: r =>
      if isP " " t1 && isK "ptr" t2 && isP " " t3
      then match word_size w with Some z => Some (z, r) | None => None end
      else Some (0, ts)
  | _ => Some (0, ts)
  end.

Definition peel_seg (ts : list tok) : option (Z * list tok) :=
  match ts with
  | TId g :: t1 :: r =>
      if isP ":" t1 then match parse_reg_name g with
                         | Some (SReg, i) => if (1 <=? i) && (i <=? 6) then Some (i, r) else None
                         | _ => None
                         end
      else Some (0, ts)
  | _ => Some (0, ts)
  end.

Definition peel_addr (ts : list tok) : Z * list tok :=
  match ts with
  | k :: t1 :: r => if isP " " t1 then (if isK "abs" k then (1, r) else if isK "rel" k then (2, r) else (0, ts)) else (0, ts)
  | _ => (0, ts)
  end.

Definition parse_mem_toks (ts : list tok) : option x86mem :=
  match peel_size ts with
  | Some (z, r1) =>
    match peel_seg r1 with
    | Some (g, r2) =>
      match r2 with
      | lb :: r3 =>
        if isP "[" lb then
          let '(a, r4) := peel_addr r3 in
          match parse_body r4 with
          | Some (b, ix, sh, o) =>
              Some {| m_size := z; m_seg := g; m_addr := a; m_base := b; m_index := ix; m_shift := sh; m_off := o; m_bcst := 0 |}
          | None => None
          end
        else None
      | [] => None
      end
    | None => None
    end
  | None => None
  end.

Definition is_hex_lit (x : text) : bool := match x with _ :: cx :: _ => Ascii.eqb cx "x"%char | _ => false end.

Definition parse_op_toks (ts : list tok) : option x86op :=
  if existsb (isP "[") ts then match parse_mem_toks ts with Some m => Some (OMem m) | None => None end else
  match ts with
  | [TId x] =>
      if starts_digit x then
        match parse_ulit x with
        | Some v => if is_hex_lit x then (if v <? two64 then Some (OImm (sext64 v)) else None)
                    else (if v <? two63 then Some (OImm v) else None)
        | None => None
        end
      else match parse_label_text x with
           | Some id => Some (OLabel id)
           | None => match parse_reg_name x with Some (t, i) => Some (OReg t i) | None => None end
           end
  | [sg; TId x] => if isP "-" sg then match parse_mag true x with Some v => Some (OImm v) | None => None end else None
  | [a; TId n; b] => if isP "<" a && text_eqb n (s "None") && isP ">" b then Some ONone else None
  | _ => None
  end.

Definition parse_operand (x : text) : option x86op := parse_op_toks (lex x).

(* what the text can determine: an unscaled index without base prints like a base register (same address) *)
Definition canon_mem (m : x86mem) : x86mem :=
  match m_base m, m_index m with
  | MBNone, Some (t, i) =>
      if m_shift m =? 0
      then {| m_size := m_size m; m_seg := m_seg m; m_addr := m_addr m; m_base := MBReg t i; m_index := None;
              m_shift := 0; m_off := m_off m; m_bcst := 0 |}
      else {| m_size := m_size m; m_seg := m_seg m; m_addr := m_addr m; m_base := m_base m; m_index := m_index m;
              m_shift := m_shift m; m_off := m_off m; m_bcst := 0 |}
  | _, _ => {| m_size := m_size m; m_seg := m_seg m; m_addr := m_addr m; m_base := m_base m; m_index := m_index m;
               m_shift := m_shift m; m_off := m_off m; m_bcst := 0 |}
  end.
Definition canon_op (o : x86op) : x86op := match o with OMem m => OMem (canon_mem m) | _ => o end.

(* domain of the round-trip theorem *)
Definition id_ok (i : Z) : Prop := 0 <= i < two32.
Definition reg_ok (t : x86rt) (i : Z) : Prop := named t = true /\ id_ok i.
Definition base_ok (b : membase) : Prop :=
  match b with MBNone => True | MBLabel id => id_ok id | MBReg t i => reg_ok t i end.
Definition mem_ok (m : x86mem) : Prop :=
  In (m_size m) arch_sizes /\ 0 <= m_seg m <= 6 /\ 0 <= m_addr m <= 2 /\ base_ok (m_base m) /\
  match m_index m with Some (t, i) => reg_ok t i /\ 0 <= m_shift m <= 3 | None => m_shift m = 0 end /\
  - two63 <= m_off m < two63.
Definition op_ok (o : x86op) : Prop :=
  match o with
  | ONone => True
  | OReg t i => reg_ok t i
  | OMem m => mem_ok m
  | OImm v => - two63 <= v < two63
  | OLabel id => id_ok id
  end.

(* C20 — the hypotheses of the virtual-register theorems made DECIDABLE, so that the check discharges them on the environments it really uses:
   env_okb env = true -> env_ok env (x86, VirtNames) and env_ok64b env = true -> env_ok64 env (AArch64, A64VirtRead); and the log-level corollary
   "two logs that are equal come from the same instructions and the same bytes". *)
From Coq Require Import ZArith Bool Ascii String Lia.
From Coq Require Import List.
Import ListNotations.
From Verif Require Import Fmt.TextModel Fmt.TextProofs Fmt.X86FmtModel Fmt.X86FmtProofs Fmt.X86InstModel Fmt.X86InstProofs Fmt.A64FmtModel Fmt.A64FmtProofs
  Fmt.A64InstProofs Fmt.LabelVirt Fmt.VirtNames Fmt.A64Virt Fmt.A64VirtRead Fmt.InstNamesCheck Fmt.FuncLine Fmt.Transcript Fmt.LogInsts.
Local Open Scope Z_scope.

Definition names_of {T} (env : list (option text * T)) : list text :=
  flat_map (fun e => match fst e with Some n => [n] | None => [] end) env.

Definition env_okb (env : venv) : bool := forallb name_okb (names_of env) && nodupb (names_of env).
Definition env_ok64b (env : a64venv) : bool :=
  forallb (fun n => negb (Nat.eqb (length n) 0) && forallb name_char64 n) (names_of env) && nodupb (names_of env).

Lemma names_of_in {T} (env : list (option text * T)) : forall i n vt, nth_error env i = Some (Some n, vt) -> In n (names_of env).
Proof.
  induction env as [|[nm t0] r IH]; intros i n vt H; [destruct i; discriminate|]. destruct i as [|i]; cbn [nth_error] in H.
  - inversion H; subst. left; reflexivity.
  - unfold names_of. cbn [flat_map]. apply in_or_app. right. exact (IH i n vt H).
Qed.

(* in a duplicate-free name list two positions with one name are one position *)
Lemma names_unique_of_nodup {T} (env : list (option text * T)) : NoDup (names_of env) ->
  forall i j n vt1 vt2, nth_error env i = Some (Some n, vt1) -> nth_error env j = Some (Some n, vt2) -> i = j.
Proof.
  induction env as [|[nm t0] r IH]; intros ND i j n vt1 vt2 H1 H2; [destruct i; discriminate|].
  assert (NDr : NoDup (names_of r)).
  { unfold names_of in ND. cbn [flat_map fst] in ND. destruct nm; [inversion ND; assumption|exact ND]. }
  destruct i as [|i], j as [|j]; cbn [nth_error] in H1, H2; [reflexivity| | |f_equal; exact (IH NDr i j n vt1 vt2 H1 H2)].
  - inversion H1; subst. exfalso. unfold names_of in ND. cbn [flat_map fst app] in ND. inversion ND as [|? ? Hn _]; subst.
    apply Hn. exact (names_of_in r j n vt2 H2).
  - inversion H2; subst. exfalso. unfold names_of in ND. cbn [flat_map fst app] in ND. inversion ND as [|? ? Hn _]; subst.
    apply Hn. exact (names_of_in r i n vt1 H1).
Qed.

Theorem env_okb_sound env : env_okb env = true -> env_ok env.
Proof.
  unfold env_okb. intros H. apply andb_prop in H as [H1 H2]. split.
  - intros i n vt N. exact (proj1 (forallb_forall _ _) H1 n (names_of_in env i n vt N)).
  - unfold names_unique. apply names_unique_of_nodup. apply nodupb_NoDup; exact H2.
Qed.

Theorem env_ok64b_sound env : env_ok64b env = true -> env_ok64 env.
Proof.
  unfold env_ok64b. intros H. apply andb_prop in H as [H1 H2]. split.
  - intros i n vt N. pose proof (proj1 (forallb_forall _ _) H1 n (names_of_in env i n vt N)) as P. apply andb_prop in P as [P1 P2].
    split; [destruct n; [discriminate P1|discriminate]|exact P2].
  - apply names_unique_of_nodup. apply nodupb_NoDup; exact H2.
Qed.

(* ------------------------------------------------------------------ equal logs, equal programs *)
Theorem x86_log_injective f pad1 pad2 es1 es2 : Forall (emitted_ok _ inst_ok) es1 -> Forall (emitted_ok _ inst_ok) es2 ->
  log_of pad1 pad2 (map (to_emission _ (fmt_inst f)) es1) = log_of pad1 pad2 (map (to_emission _ (fmt_inst f)) es2) ->
  map (fun e => canon_inst (m_inst _ e)) es1 = map (fun e => canon_inst (m_inst _ e)) es2 /\ map (m_comment _) es1 = map (m_comment _) es2.
Proof.
  intros F1 F2 E. pose proof (x86_log_insts f pad1 pad2 es1 F1) as L1. pose proof (x86_log_insts f pad1 pad2 es2 F2) as L2.
  rewrite E in L1. destruct (parse_log _) as [ls|]; [|contradiction]. destruct L1 as (A1 & B1 & _), L2 as (A2 & B2 & _).
  split; [rewrite A1 in A2; inversion A2; reflexivity|rewrite <- B1, <- B2; reflexivity].
Qed.

(* non-vacuity: the environment of the harness passes the decidable check, one with a duplicate name does not *)
Example ex_env_okb : env_okb [(None, Gp32); (Some (s "cnt"), Gp64); (Some (s "L7"), Gp64); (Some (s "9lives"), Xmm)] = true /\
                     env_okb [(Some (s "t"), Gp64); (Some (s "t"), Gp32)] = false /\ env_okb [(Some (s "rax"), Gp64)] = false.
Proof. repeat split; vm_compute; reflexivity. Qed.

(* C20 — capstone of the whole property: from the LOG of any sequence of emitted instructions (x86-64 or AArch64, kMachineCode, any paddings and
   flags, comments or not) the proven readers recover the list of instructions (up to what a line can determine) AND the emitted bytes.
   The side conditions of Transcript.emission_ok on the instruction text are discharged for the texts the formatters print. *)
From Coq Require Import ZArith Bool Ascii String Lia.
From Coq Require Import List.
Import ListNotations.
From Verif Require Import Fmt.TextModel Fmt.TextProofs Fmt.X86FmtModel Fmt.X86FmtProofs Fmt.X86InstModel Fmt.X86InstProofs
  Fmt.A64FmtModel Fmt.A64FmtProofs Fmt.A64InstProofs Fmt.LogLine Fmt.LogLineX86 Fmt.LogLineA64 Fmt.FuncLine Fmt.Transcript.
Local Open Scope Z_scope.

Local Transparent tok_ok.
Lemma render_nonl ts : forallb tok_ok ts = true -> forallb allowed ts = true -> Forall nonl (render ts).
Proof.
  induction ts as [|t ts IH]; intros Hok Hal; [constructor|].
  cbn [forallb] in Hok, Hal. apply andb_prop in Hok as [H1 H2]. apply andb_prop in Hal as [A1 A2].
  unfold render. cbn [flat_map]. apply Forall_app; split; [|apply IH; assumption].
  destruct t as [x|c]; cbn [render_tok].
  - cbn [tok_ok] in H1. apply andb_prop in H1 as [_ Hx]. apply forallb_Forall in Hx.
    eapply Forall_impl; [|exact Hx]. intros a Ha. apply ident_not; [reflexivity|exact Ha].
  - constructor; [|constructor]. cbn [allowed allowed_chars s list_ascii_of_string existsb] in A1. unfold nonl.
    destruct (Ascii.eqb_spec c nl) as [->|]; [discriminate A1|reflexivity].
Qed.
Local Opaque tok_ok.

(* a token list that is well formed, over the allowed punctuation and ends well renders to a text that a log line can carry *)
Lemma tokens_text_ok ts : forallb tok_ok ts = true -> forallb allowed ts = true -> good_last ts ->
  Forall (fun c => Ascii.eqb c ";"%char = false) (render ts) /\ ends_nonspace (render ts) /\ Forall nonl (render ts).
Proof. intros W A L. split; [apply render_nosemi; assumption|]. split; [apply render_ends; assumption|apply render_nonl; assumption]. Qed.

Lemma x86_text_ok f i : inst_ok i ->
  Forall (fun c => Ascii.eqb c ";"%char = false) (fmt_inst f i) /\ ends_nonspace (fmt_inst f i) /\ Forall nonl (fmt_inst f i).
Proof.
  intros Hi. destruct (inst_toks_wf f i Hi) as [W1 _]. destruct (inst_allowed_last f i) as [A1 A2].
  unfold fmt_inst. apply tokens_text_ok; assumption.
Qed.

Lemma a64_text_ok f i : a64_inst_ok i ->
  Forall (fun c => Ascii.eqb c ";"%char = false) (a64_fmt_inst true f i) /\ ends_nonspace (a64_fmt_inst true f i) /\ Forall nonl (a64_fmt_inst true f i).
Proof.
  intros Hi. pose proof Hi as (Hm & Hc & Hops & Hl).
  pose proof (a64_until_not_none (ai_ops i)) as Hnn.
  assert (Hv : Forall vis64 (a64_until_none (ai_ops i))).
  { clear - Hops Hnn. induction (a64_until_none (ai_ops i)); constructor; inversion Hops; inversion Hnn; subst; [split; assumption|auto]. }
  destruct (a64_ops_wf f (a64_until_none (ai_ops i)) true Hv) as [WO SO]. rewrite <- a64_ops_until in WO, SO.
  destruct (a64_ops_allowed_last f (a64_until_none (ai_ops i)) true Hv) as [AO LO]. rewrite <- a64_ops_until in AO, LO.
  assert (W : wf3 (a64_inst_toks true f i)).
  { unfold a64_inst_toks. change (TId (a64_mnem_text i) :: a64_ops_toks true f true (ai_ops i))
      with ([TId (a64_mnem_text i)] ++ a64_ops_toks true f true (ai_ops i)).
    apply wf3_app; [|exact WO|right; exact SO].
    split; [cbn [forallb]; rewrite (proj2 (mnem_split i Hm Hc)); reflexivity|reflexivity]. }
  destruct W as [W1 W2].
  assert (A : forallb allowed (a64_inst_toks true f i) = true) by (unfold a64_inst_toks; cbn [forallb allowed]; exact AO).
  assert (L : good_last (a64_inst_toks true f i)).
  { unfold a64_inst_toks. rewrite a64_ops_until. destruct (a64_until_none (ai_ops i)) as [|o r] eqn:Ev.
    - exists [], (TId (a64_mnem_text i)). split; [reflexivity|exact I].
    - change (TId (a64_mnem_text i) :: a64_ops_toks true f true (o :: r)) with ([TId (a64_mnem_text i)] ++ a64_ops_toks true f true (o :: r)).
      apply good_last_app. rewrite a64_ops_until in LO. rewrite Ev in LO. apply LO. discriminate. }
  unfold a64_fmt_inst. apply tokens_text_ok; assumption.
Qed.

(* ------------------------------------------------------------------ generic: a printer whose texts a log line can carry and a reader that inverts it *)
Section Generic.
  Variables A B : Type.
  Variable txt : A -> text.
  Variable rd : text -> option B.
  Variable can : A -> B.
  Variable ok : A -> Prop.
  Hypothesis txt_ok : forall a, ok a -> Forall (fun c => Ascii.eqb c ";"%char = false) (txt a) /\ ends_nonspace (txt a) /\ Forall nonl (txt a).
  Hypothesis rd_txt : forall a, ok a -> rd (txt a) = Some (can a).

  (* one emission: the instruction, the bytes appended, the pending displacement / immediate sizes, the inline comment *)
  Record emitted := { m_inst : A; m_bytes : list Z; m_rel : nat; m_imm : nat; m_comment : text }.
  Definition emitted_ok (e : emitted) : Prop :=
    ok (m_inst e) /\ Forall (fun v => 0 <= v < 256) (m_bytes e) /\ m_bytes e <> [] /\ Forall nonl (m_comment e).
  Definition to_emission (e : emitted) : emission :=
    {| e_text := txt (m_inst e); e_bytes := m_bytes e; e_rel := m_rel e; e_imm := m_imm e; e_comment := m_comment e |}.

  Lemma to_emission_ok e : emitted_ok e -> emission_ok (to_emission e).
  Proof.
    intros (Ho & Hb & Hne & Hc). destruct (txt_ok _ Ho) as (T1 & T2 & T3). unfold emission_ok, to_emission. cbn. repeat split; assumption.
  Qed.

  (* what the readers recover from a parsed log: the instructions of its lines *)
  Definition read_insts (ls : list (text * text * text)) : option (list B) := traverse (fun l => rd (fst (fst l))) ls.

  Lemma read_insts_map (colf cmf : emitted -> text) es : Forall emitted_ok es ->
    read_insts (map (fun e => (txt (m_inst e), colf e, cmf e)) es) = Some (map (fun e => can (m_inst e)) es).
  Proof.
    unfold read_insts. induction 1 as [|e es He F IH]; [reflexivity|]. cbn [map traverse fst].
    destruct He as (Ho & _). rewrite (rd_txt _ Ho), IH. reflexivity.
  Qed.

  Theorem log_insts pad1 pad2 es : Forall emitted_ok es ->
    match parse_log (log_of pad1 pad2 (map to_emission es)) with
    | Some ls =>
        read_insts ls = Some (map (fun e => can (m_inst e)) es) /\
        map (fun l => snd l) ls = map m_comment es /\
        (Forall (fun e => m_rel e = 0%nat) es ->
         columns_bytes (map (fun l => snd (fst l)) ls) = Some (map Some (concat (map m_bytes es))))
    | None => False
    end.
  Proof.
    intros F.
    assert (FE : Forall emission_ok (map to_emission es)).
    { induction F; constructor; [apply to_emission_ok; assumption|assumption]. }
    pose proof (log_roundtrip pad1 pad2 _ FE) as R. rewrite R. split; [|split].
    - rewrite map_map. cbn [to_emission e_text e_bytes e_rel e_imm e_comment].
      exact (read_insts_map (fun e => fmt_hexcol (m_bytes e) (m_rel e) (m_imm e)) m_comment es F).
    - rewrite !map_map. cbn [snd to_emission e_comment]. reflexivity.
    - intros Z0.
      assert (Z1 : Forall (fun e => e_rel e = 0%nat) (map to_emission es)).
      { clear - Z0. induction Z0; constructor; assumption. }
      pose proof (log_denotes_code pad1 pad2 _ FE Z1) as D. rewrite R in D. rewrite D. rewrite map_map. reflexivity.
  Qed.
End Generic.

(* ------------------------------------------------------------------ the two assemblers *)
Theorem x86_log_insts f pad1 pad2 es : Forall (emitted_ok _ inst_ok) es ->
  match parse_log (log_of pad1 pad2 (map (to_emission _ (fmt_inst f)) es)) with
  | Some ls =>
      read_insts _ parse_inst ls = Some (map (fun e => canon_inst (m_inst _ e)) es) /\
      map (fun l => snd l) ls = map (m_comment _) es /\
      (Forall (fun e => m_rel _ e = 0%nat) es ->
       columns_bytes (map (fun l => snd (fst l)) ls) = Some (map Some (concat (map (m_bytes _) es))))
  | None => False
  end.
Proof. apply (log_insts x86inst x86inst (fmt_inst f) parse_inst canon_inst inst_ok (x86_text_ok f) (inst_roundtrip f)). Qed.

Theorem a64_log_insts f pad1 pad2 es : Forall (emitted_ok _ a64_inst_ok) es ->
  match parse_log (log_of pad1 pad2 (map (to_emission _ (a64_fmt_inst true f)) es)) with
  | Some ls =>
      read_insts _ parse_a64_inst ls = Some (map (fun e => a64_canon_inst (m_inst _ e)) es) /\
      map (fun l => snd l) ls = map (m_comment _) es /\
      (Forall (fun e => m_rel _ e = 0%nat) es ->
       columns_bytes (map (fun l => snd (fst l)) ls) = Some (map Some (concat (map (m_bytes _) es))))
  | None => False
  end.
Proof. apply (log_insts a64inst a64inst (a64_fmt_inst true f) parse_a64_inst a64_canon_inst a64_inst_ok (a64_text_ok f) (a64_inst_roundtrip f)). Qed.

(* non-vacuity: two x86 instructions, their log, and what is read off it *)
Definition o0 : x86opts := {| o_vex := false; o_vex3 := false; o_evex := false; o_modrm := false; o_modmr := false; o_short := false; o_long := false;
  o_xacquire := false; o_xrelease := false; o_lock := false; o_rep := false; o_repne := false; o_rex := false; o_zmask := false; o_er := false;
  o_sae := false; o_rc := 0 |}.
Definition ex_i1 : x86inst := {| i_mnem := s "nop"; i_opts := o0; i_extra := None; i_ops := [] |}.
Definition ex_i2 : x86inst := {| i_mnem := s "add"; i_opts := o0; i_extra := None; i_ops := [OReg Gp32 0; OImm 1] |}.
Lemma ex_i1_ok : inst_ok ex_i1.
Proof. repeat split; try reflexivity; try (cbn; lia); constructor. Qed.
Lemma ex_i2_ok : inst_ok ex_i2.
Proof.
  unfold inst_ok. split; [split; reflexivity|]. split; [exact I|]. split; [cbn; lia|]. split; [|reflexivity].
  cbn [ex_i2 i_ops until_none]. repeat constructor; cbn; unfold id_ok, two32, two63; try lia.
Qed.
Definition ex_emitted : list (emitted x86inst) :=
  [{| m_inst := ex_i1; m_bytes := [144]; m_rel := 0; m_imm := 0; m_comment := [] |};
   {| m_inst := ex_i2; m_bytes := [131; 192; 1]; m_rel := 0; m_imm := 1; m_comment := s "inc" |}].
Lemma ex_emitted_ok : Forall (emitted_ok _ inst_ok) ex_emitted.
Proof.
  repeat constructor; try exact ex_i1_ok; try exact ex_i2_ok; try discriminate; try lia; reflexivity.
Qed.
Example ex_log_insts_text :
  log_of 12 10 (map (to_emission _ (fmt_inst {| ff_hex_imms := false; ff_hex_offsets := false |})) ex_emitted)
  = s "nop         ; 90" ++ [nl] ++ s "add eax, 1  ; 83C001  | inc" ++ [nl].
Proof. vm_compute. reflexivity. Qed.
Example ex_log_insts_read :
  match parse_log (s "nop         ; 90" ++ [nl] ++ s "add eax, 1  ; 83C001  | inc" ++ [nl]) with
  | Some ls => read_insts _ parse_inst ls = Some [canon_inst ex_i1; canon_inst ex_i2] /\
               columns_bytes (map (fun l => snd (fst l)) ls) = Some (map Some [144; 131; 192; 1])
  | None => False
  end.
Proof.
  rewrite <- ex_log_insts_text.
  pose proof (x86_log_insts {| ff_hex_imms := false; ff_hex_offsets := false |} 12 10 ex_emitted ex_emitted_ok) as H.
  destruct (parse_log _) as [ls|]; [|exact H]. destruct H as (H1 & _ & H3). split; [exact H1|]. apply H3. repeat constructor.
Qed.

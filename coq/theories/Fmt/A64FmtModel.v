(* C20 — AArch64: register names (from the Arm ARM: Wn/WZR/WSP, Xn/XZR/SP, Bn Hn Sn Dn Qn, Vn.<T>, Vn.<T>[i]), the text model
   of arm::FormatterInternal::format_register / format_operand and a64::FormatterInternal::format_instruction, and the inverse
   parsers. Models only.
   `fixed` selects the behaviour of the memory-operand extend printing: false = the pinned tree (an extend operator with a zero
   amount is not printed at all), true = with fixes/C20-a64-extend-without-amount.patch (the operator is printed). *)
From Coq Require Import ZArith Bool Ascii String.
From Coq Require Import List.
Import ListNotations.
From Verif Require Import Fmt.TextModel Fmt.X86FmtModel.
Local Open Scope Z_scope.

Inductive a64rt := AGp32 | AGp64 | AVec8 | AVec16 | AVec32 | AVec64 | AVec128 | ARtOther (code : Z).

Definition a64rt_code (t : a64rt) : Z :=
  match t with AGp32 => 5 | AGp64 => 6 | AVec8 => 7 | AVec16 => 8 | AVec32 => 9 | AVec64 => 10 | AVec128 => 11 | ARtOther c => c end.
Definition a64_named_rts : list a64rt := [AGp32; AGp64; AVec8; AVec16; AVec32; AVec64; AVec128].
Definition a64rt_of_code (c : Z) : a64rt :=
  match find (fun t => a64rt_code t =? c) a64_named_rts with Some t => t | None => ARtOther c end.
Definition a64_named (t : a64rt) : bool := match t with ARtOther _ => false | _ => true end.
Definition is_vec (t : a64rt) : bool := match t with AVec8 | AVec16 | AVec32 | AVec64 | AVec128 => true | _ => false end.

Definition id_zr : Z := 63.
Definition id_sp : Z := 31.

(* name without element suffix; `el` tells whether an element type is attached (vectors are then called v<n>) *)
Definition a64_reg_base (t : a64rt) (id : Z) (el : bool) : text :=
  match t with
  | AGp32 => if id =? id_zr then s "wzr" else if id =? id_sp then s "wsp" else "w"%char :: dec id
  | AGp64 => if id =? id_zr then s "xzr" else if id =? id_sp then s "sp" else "x"%char :: dec id
  | AVec8 => (if el then "v"%char else "b"%char) :: dec id
  | AVec16 => (if el then "v"%char else "h"%char) :: dec id
  | AVec32 => (if el then "v"%char else "s"%char) :: dec id
  | AVec64 => (if el then "v"%char else "d"%char) :: dec id
  | AVec128 => (if el then "v"%char else "q"%char) :: dec id
  | ARtOther c => s "<Reg-" ++ dec c ++ s ">?" ++ dec id
  end.

(* element type 1..6 = b h s d b4 h2: letter and lane count of a 128-bit vector; anything else prints "?" *)
Definition elem_letter (et : Z) : ascii :=
  if (et =? 1) || (et =? 5) then "b"%char else if (et =? 2) || (et =? 6) then "h"%char
  else if et =? 3 then "s"%char else if et =? 4 then "d"%char else "?"%char.
Definition elem_count (et : Z) : Z :=
  if et =? 1 then 16 else if et =? 2 then 8 else if et =? 3 then 4 else if et =? 4 then 2
  else if et =? 5 then 4 else if et =? 6 then 2 else 0.

Definition a64_elem_suffix (t : a64rt) (et : Z) : text :=
  if et =? 0 then [] else
  let c := match t with AVec64 => elem_count et / 2 | _ => elem_count et end in
  "."%char :: (if c =? 0 then [] else dec c) ++ [elem_letter et].

Definition a64_reg_text (t : a64rt) (id et : Z) : text :=
  a64_reg_base t id (negb (et =? 0)) ++ a64_elem_suffix t et.

(* wzr/wsp/xzr/sp are returned before any element suffix or index is appended (only reachable with malformed operands) *)
Definition a64_special (t : a64rt) (id : Z) : bool :=
  match t with AGp32 | AGp64 => (id =? id_zr) || (id =? id_sp) | _ => false end.

Definition a64_reg_toks (t : a64rt) (id et : Z) (ei : option Z) : list tok :=
  if a64_special t id then [TId (a64_reg_base t id false)] else
  TId (a64_reg_text t id et) :: match ei with Some i => [P "["; TId (dec i); P "]"] | None => [] end.

(* ------------------------------------------------------------------ operands *)
Definition shift_names : list string :=
  ["lsl"; "lsr"; "asr"; "ror"; "rrx"; "msl"; "uxtb"; "uxth"; "uxtw"; "uxtx"; "sxtb"; "sxth"; "sxtw"; "sxtx"]%string.
Definition shift_name (op : Z) : option text :=
  if op <? 0 then None else match nth_error shift_names (Z.to_nat op) with Some n => Some (s n) | None => None end.
Definition shift_toks (op : Z) : list tok :=
  match shift_name op with Some n => [TId n] | None => [P "<"; kw "Unknown"; P ">"] end.

Inductive a64base := ABNone | ABLabel (id : Z) | ABReg (t : a64rt) (id : Z).

Record a64mem := {
  am_base : a64base;
  am_index : option (a64rt * Z);
  am_shiftop : Z;          (* ShiftOp 0..13 *)
  am_shift : Z;            (* 0..31 *)
  am_mode : Z;             (* 0 fixed, 1 pre-index, 2 post-index *)
  am_off : Z               (* int64 (int32 when a base is present) *)
}.

Inductive a64op :=
| AONone
| AOReg (t : a64rt) (id et : Z) (ei : option Z)
| AOMem (m : a64mem)
| AOImm (v : Z) (pred : Z)     (* pred <> 0: shift operator printed before the value *)
| AOLabel (id : Z).

Definition a64_off_toks (f : fflags) (off : Z) : list tok :=
  let u := off mod two64 in
  if ff_hex_offsets f && (9 <? u) then [TId ("0"%char :: "x"%char :: digits 16 u)]
  else if off <? 0 then [P "-"; TId (digits 10 (- off))] else [TId (digits 10 off)].

Definition a64_mem_toks (fixed : bool) (f : fflags) (m : a64mem) : list tok :=
  let hi := match am_index m with Some _ => true | None => false end in
  let ho := negb (am_off m =? 0) in
  let post := am_mode m =? 2 in
  let prepost := negb (am_mode m =? 0) in
  [P "["]
  ++ match am_base m with
     | ABLabel id => [TId (label_text id)]
     | ABReg t i => [TId (a64_reg_text t i 0)]
     | ABNone => if hi || ho then [P "<"; kw "None"; P ">"] else []
     end
  ++ (if post then [P "]"] else [])
  ++ match am_index m with Some (t, i) => [P ","; sp; TId (a64_reg_text t i 0)] | None => [] end
  ++ (if ho then [P ","; sp] ++ a64_off_toks f (am_off m) else [])
  ++ (if negb (am_shift m =? 0) then
        [sp] ++ (if prepost then [] else shift_toks (am_shiftop m)) ++ [sp; TId (dec (am_shift m))]
      else if fixed && hi && negb prepost && negb (am_shiftop m =? 0) then [sp] ++ shift_toks (am_shiftop m)
      else [])
  ++ (if post then [] else [P "]"])
  ++ (if am_mode m =? 1 then [P "!"] else []).

Definition a64_imm_toks (f : fflags) (v pred : Z) : list tok :=
  (if pred =? 0 then [] else shift_toks pred ++ [sp]) ++ fmt_imm_toks f v.

Definition a64_op_toks (fixed : bool) (f : fflags) (o : a64op) : list tok :=
  match o with
  | AONone => [P "<"; kw "None"; P ">"]
  | AOReg t id et ei => a64_reg_toks t id et ei
  | AOMem m => a64_mem_toks fixed f m
  | AOImm v p => a64_imm_toks f v p
  | AOLabel id => [TId (label_text id)]
  end.

Definition a64_fmt_operand (fixed : bool) (f : fflags) (o : a64op) : text := render (a64_op_toks fixed f o).

(* ------------------------------------------------------------------ instruction lines *)
Definition cond_names : list string :=
  ["al"; "na"; "eq"; "ne"; "hs"; "lo"; "mi"; "pl"; "vs"; "vc"; "hi"; "ls"; "ge"; "lt"; "gt"; "le"]%string.

Record a64inst := { ai_mnem : text; ai_cond : Z; ai_ops : list a64op }.

Fixpoint a64_ops_toks (fixed : bool) (f : fflags) (first : bool) (ops : list a64op) : list tok :=
  match ops with
  | [] => []
  | AONone :: _ => []
  | o :: r => (if first then [sp] else [P ","; sp]) ++ a64_op_toks fixed f o ++ a64_ops_toks fixed f false r
  end.

Definition a64_mnem_text (i : a64inst) : text :=
  ai_mnem i ++ (if ai_cond i =? 0 then [] else
                "."%char :: match nth_error cond_names (Z.to_nat (ai_cond i)) with Some n => s n | None => s "<Unknown>" end).

Definition a64_inst_toks (fixed : bool) (f : fflags) (i : a64inst) : list tok :=
  TId (a64_mnem_text i) :: a64_ops_toks fixed f true (ai_ops i).
Definition a64_fmt_inst (fixed : bool) (f : fflags) (i : a64inst) : text := render (a64_inst_toks fixed f i).

(* ------------------------------------------------------------------ parsing *)
Fixpoint index_of (x : text) (l : list string) (n : Z) : option Z :=
  match l with
  | [] => None
  | k :: r => if text_eqb x (s k) then Some n else index_of x r (n + 1)
  end.

Definition parse_dec32 (x : text) : option Z :=
  if negb (Nat.eqb (length x) 0) && forallb is_digit10 x
  then match parse_digits 10 x 0 with
       | Some i => if (i <? two32) && text_eqb (dec i) x then Some i else None
       | None => None
       end
  else None.

(* element suffix "4s" / "b" ... -> element type, given the register type *)
Definition parse_elem (t : a64rt) (x : text) : option Z :=
  find (fun et => text_eqb (a64_elem_suffix t et) ("."%char :: x)) [1; 2; 3; 4; 5; 6].

(* register text -> type, id, element type; the candidate is re-printed and compared, so only exact names are accepted *)
Definition parse_a64_reg (x : text) : option (a64rt * Z * Z) :=
  let '(nm, suf) := match split_at "."%char x with Some (a, b) => (a, Some b) | None => (x, None) end in
  let cands : list (a64rt * Z) :=
    if text_eqb nm (s "wzr") then [(AGp32, id_zr)] else if text_eqb nm (s "wsp") then [(AGp32, id_sp)]
    else if text_eqb nm (s "xzr") then [(AGp64, id_zr)] else if text_eqb nm (s "sp") then [(AGp64, id_sp)]
    else match nm with
         | c :: ds =>
           match parse_dec32 ds with
           | Some i =>
             if Ascii.eqb c "w"%char then [(AGp32, i)] else if Ascii.eqb c "x"%char then [(AGp64, i)]
             else if Ascii.eqb c "b"%char then [(AVec8, i)] else if Ascii.eqb c "h"%char then [(AVec16, i)]
             else if Ascii.eqb c "s"%char then [(AVec32, i)] else if Ascii.eqb c "d"%char then [(AVec64, i)]
             else if Ascii.eqb c "q"%char then [(AVec128, i)]
             else if Ascii.eqb c "v"%char then [(AVec128, i); (AVec64, i)]
             else []
           | None => []
           end
         | [] => []
         end in
  let try (c : a64rt * Z) : option (a64rt * Z * Z) :=
    let '(t, i) := c in
    match suf with
    | None => if text_eqb (a64_reg_text t i 0) x then Some (t, i, 0) else None
    | Some sf => match parse_elem t sf with
                 | Some et => if text_eqb (a64_reg_text t i et) x then Some (t, i, et) else None
                 | None => None
                 end
    end in
  match cands with
  | [] => None
  | [c] => try c
  | c1 :: c2 :: _ => match try c1 with Some r => Some r | None => try c2 end
  end.

Definition parse_a64_num (ts : list tok) : option (Z * list tok) :=
  match ts with
  | TId x :: r =>
      if starts_digit x then
        match parse_ulit x with
        | Some v => if is_hex_lit x then (if v <? two64 then Some (sext64 v, r) else None)
                    else (if v <? two63 then Some (v, r) else None)
        | None => None
        end
      else None
  | sg :: TId x :: r => if isP "-" sg then match parse_mag true x with Some v => Some (v, r) | None => None end else None
  | _ => None
  end.

Definition parse_a64_base (x : text) : option a64base :=
  match parse_label_text x with
  | Some id => Some (ABLabel id)
  | None => match parse_a64_reg x with Some (t, i, 0) => Some (ABReg t i) | _ => None end
  end.

(* after the base: [ "]" ] [", " index] [", " offset] [" " op] [" " amount] ["]"] ["!"] ; `post` = a "]" was seen after the base *)
Definition parse_a64_mem_rest (b : a64base) (post : bool) (ts : list tok) : option a64mem :=
  (* index *)
  let '(ix, ts1) := match ts with
                    | c :: sp1 :: TId x :: r =>
                        if isP "," c && isP " " sp1 && negb (starts_digit x)
                        then match parse_a64_reg x with Some (t, i, 0) => (Some (t, i), r) | _ => (None, ts) end
                        else (None, ts)
                    | _ => (None, ts)
                    end in
  (* offset *)
  let '(off, ts2) := match ts1 with
                     | c :: sp1 :: r => if isP "," c && isP " " sp1
                                        then match parse_a64_num r with Some (v, r') => (Some v, r') | None => (None, ts1) end
                                        else (None, ts1)
                     | _ => (None, ts1)
                     end in
  (* shift: " op amount" | " op" | "  amount" is not accepted (pre/post with shift) *)
  let '(sop, sh, ts3) := match ts2 with
                         | sp1 :: TId o :: sp2 :: TId a :: r =>
                             if isP " " sp1 && isP " " sp2
                             then match index_of o shift_names 0, parse_dec32 a with
                                  | Some k, Some n => (k, n, r)
                                  | _, _ => (0, 0, ts2)
                                  end
                             else (0, 0, ts2)
                         | sp1 :: TId o :: r =>
                             if isP " " sp1 then match index_of o shift_names 0 with Some k => (k, 0, r) | None => (0, 0, ts2) end
                             else (0, 0, ts2)
                         | _ => (0, 0, ts2)
                         end in
  let mk mode := Some {| am_base := b; am_index := ix; am_shiftop := sop; am_shift := sh; am_mode := mode;
                         am_off := match off with Some v => v | None => 0 end |} in
  match off with
  | Some 0 => None
  | _ =>
    if post then match ts3 with [] => mk 2 | _ => None end
    else match ts3 with
         | [c] => if isP "]" c then mk 0 else None
         | [c; e] => if isP "]" c && isP "!" e then mk 1 else None
         | _ => None
         end
  end.

Definition parse_a64_mem (ts : list tok) : option a64mem :=
  match ts with
  | lb :: TId x :: r =>
      if isP "[" lb then
        match parse_a64_base x with
        | Some b => match r with
                    | c :: r' => if isP "]" c
                                 then (match r' with
                                       | [] => parse_a64_mem_rest b false r      (* plain "[base]" *)
                                       | e :: _ => if isP "!" e then parse_a64_mem_rest b false r else parse_a64_mem_rest b true r'
                                       end)
                                 else parse_a64_mem_rest b false r
                    | [] => None
                    end
        | None => None
        end
      else None
  | _ => None
  end.

Definition parse_a64_op_toks (ts : list tok) : option a64op :=
  if existsb (isP "[") ts && match ts with t0 :: _ => isP "[" t0 | [] => false end then
    match parse_a64_mem ts with Some m => Some (AOMem m) | None => None end
  else
  match ts with
  | [TId x] =>
      if starts_digit x then match parse_a64_num ts with Some (v, []) => Some (AOImm v 0) | _ => None end
      else match parse_label_text x with
           | Some id => Some (AOLabel id)
           | None => match parse_a64_reg x with Some (t, i, et) => Some (AOReg t i et None) | None => None end
           end
  | [TId x; lb; TId n; rb] =>
      if isP "[" lb && isP "]" rb
      then match parse_a64_reg x, parse_dec32 n with Some (t, i, et), Some k => Some (AOReg t i et (Some k)) | _, _ => None end
      else None
  | TId o :: sp1 :: r =>
      if isP " " sp1 then
        match index_of o shift_names 0, parse_a64_num r with
        | Some k, Some (v, []) => if k =? 0 then None else Some (AOImm v k)
        | _, _ => None
        end
      else None
  | [sg; TId x] => match parse_a64_num ts with Some (v, []) => Some (AOImm v 0) | _ => None end
  | [a; TId n; b] => if isP "<" a && text_eqb n (s "None") && isP ">" b then Some AONone else None
  | _ => None
  end.

Definition parse_a64_operand (x : text) : option a64op := parse_a64_op_toks (lex x).

(* split operands at ", " ; inside a memory operand (an operand that STARTS with "[") commas do not split, and "], " continues
   the same operand (post-index). An element index "v1.4s[2]" is not a memory operand. *)
Fixpoint split_ops_a64 (inmem : bool) (cur : list tok) (ts : list tok) : list (list tok) :=
  match ts with
  | [] => [rev cur]
  | t0 :: r =>
    if inmem then split_ops_a64 true (t0 :: cur) r
    else if isP "[" t0 && match cur with [] => true | _ => false end then split_ops_a64 true (t0 :: cur) r
    else if isP "," t0 then
      match r with
      | t1 :: r2 => if isP " " t1 then rev cur :: split_ops_a64 false [] r2 else split_ops_a64 false (t0 :: cur) r
      | [] => split_ops_a64 false (t0 :: cur) r
      end
    else split_ops_a64 false (t0 :: cur) r
  end.

Fixpoint parse_all_ops (cs : list (list tok)) : option (list a64op) :=
  match cs with
  | [] => Some []
  | c :: r => match parse_a64_op_toks c, parse_all_ops r with Some o, Some l => Some (o :: l) | _, _ => None end
  end.

Definition parse_a64_inst_toks (ts : list tok) : option a64inst :=
  match ts with
  | TId m :: r =>
    let '(mn, cc) := match split_at "."%char m with
                     | Some (a, b) => (a, index_of b cond_names 0)
                     | None => (m, Some 0)
                     end in
    match cc with
    | Some c =>
      match r with
      | [] => Some {| ai_mnem := mn; ai_cond := c; ai_ops := [] |}
      | t0 :: r1 => if isP " " t0 then match parse_all_ops (split_ops_a64 false [] r1) with
                                        | Some ops => Some {| ai_mnem := mn; ai_cond := c; ai_ops := ops |}
                                        | None => None
                                        end else None
      end
    | None => None
    end
  | _ => None
  end.
Definition parse_a64_inst (x : text) : option a64inst := parse_a64_inst_toks (lex x).

(* what the text can determine: a post-index by nothing (no register, zero offset) prints like the plain form (same access, no
   write-back effect) *)
Definition a64_canon_op (o : a64op) : a64op :=
  match o with
  | AOMem m =>
      match am_index m with
      | None => if (am_mode m =? 2) && (am_off m =? 0)
                then AOMem {| am_base := am_base m; am_index := None; am_shiftop := am_shiftop m; am_shift := am_shift m;
                              am_mode := 0; am_off := 0 |}
                else o
      | Some _ => o
      end
  | _ => o
  end.

Fixpoint a64_until_none (ops : list a64op) : list a64op :=
  match ops with [] => [] | AONone :: _ => [] | o :: r => o :: a64_until_none r end.
Definition a64_canon_inst (i : a64inst) : a64inst :=
  {| ai_mnem := ai_mnem i; ai_cond := ai_cond i; ai_ops := map a64_canon_op (a64_until_none (ai_ops i)) |}.

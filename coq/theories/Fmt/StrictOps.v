(* C20 — printing does not depend on what canon_op forgets, so the strict operand readers are COMPLETE on every well-formed operand (no "canonical"
   hypothesis): strict (fmt o) = Some (canon_op o). *)
From Coq Require Import ZArith Bool Ascii String Lia.
From Coq Require Import List.
Import ListNotations.
From Verif Require Import Fmt.TextModel Fmt.TextProofs Fmt.X86FmtModel Fmt.X86FmtProofs Fmt.A64FmtModel Fmt.A64FmtProofs Fmt.Strict.
Local Open Scope Z_scope.

Lemma strict_complete_can {A} (fmt : A -> text) (rd : text -> option A) (can : A -> A) a :
  rd (fmt a) = Some (can a) -> fmt (can a) = fmt a -> strict A fmt rd (fmt a) = Some (can a).
Proof. intros R E. unfold strict. rewrite R, E, text_eqb_refl. reflexivity. Qed.

Lemma fmt_operand_canon f o : fmt_operand f (canon_op o) = fmt_operand f o.
Proof.
  destruct o as [|t i|m|v|l]; try reflexivity. unfold fmt_operand. f_equal. cbn [canon_op fmt_op_toks].
  unfold canon_mem, fmt_mem_toks, mem_body_toks.
  destruct (m_base m) as [|lb|bt bi] eqn:B; destruct (m_index m) as [[it ii]|] eqn:I; cbn [m_size m_seg m_addr m_base m_index m_shift m_off m_bcst]; try reflexivity.
  destruct (m_shift m =? 0) eqn:S; cbn [m_size m_seg m_addr m_base m_index m_shift m_off m_bcst]; [|reflexivity].
  cbn [base_toks index_toks has_base orb app]. rewrite S. cbn [app]. reflexivity.
Qed.

Theorem strict_operand_complete f o : op_ok o -> strict_operand f (fmt_operand f o) = Some (canon_op o).
Proof. intros H. apply strict_complete_can; [apply operand_roundtrip; exact H|apply fmt_operand_canon]. Qed.

Lemma a64_fmt_operand_canon f o : a64_op_ok o -> a64_fmt_operand true f (a64_canon_op o) = a64_fmt_operand true f o.
Proof.
  intros Hok. destruct o as [|t i et ei|m|v p|l]; try reflexivity. cbn [a64_canon_op].
  destruct (am_index m) as [[it ii]|] eqn:I; [reflexivity|].
  destruct ((am_mode m =? 2) && (am_off m =? 0)) eqn:E; [|reflexivity].
  apply andb_prop in E as [E1 E2]. apply Z.eqb_eq in E1, E2.
  cbn [a64_op_ok] in Hok. destruct Hok as (_ & Hi & _). rewrite I in Hi. destruct Hi as [S1 S2].
  unfold a64_fmt_operand. f_equal. cbn [a64_op_toks]. unfold a64_mem_toks. cbn [am_base am_index am_shiftop am_shift am_mode am_off].
  rewrite I, E1, E2, S2. cbn [Z.eqb Pos.eqb negb andb orb app].
  destruct (am_base m); cbn [negb app]; rewrite ?app_nil_r; reflexivity.
Qed.

Theorem strict_a64_operand_complete f o : a64_op_ok o -> strict_a64_operand f (a64_fmt_operand true f o) = Some (a64_canon_op o).
Proof. intros H. apply strict_complete_can; [apply a64_operand_roundtrip; exact H|apply a64_fmt_operand_canon; exact H]. Qed.

(* ------------------------------------------------------------------ whole lines *)
From Verif Require Import Fmt.X86InstModel Fmt.X86InstProofs Fmt.A64InstProofs.

Lemma a64_op_toks_canon f o : a64_op_ok o -> a64_op_toks true f (a64_canon_op o) = a64_op_toks true f o.
Proof.
  intros Hok. destruct o as [|t i et ei|m|v p|l]; try reflexivity. cbn [a64_canon_op].
  destruct (am_index m) as [[it ii]|] eqn:I; [reflexivity|].
  destruct ((am_mode m =? 2) && (am_off m =? 0)) eqn:E; [|reflexivity].
  apply andb_prop in E as [E1 E2]. apply Z.eqb_eq in E1, E2.
  cbn [a64_op_ok] in Hok. destruct Hok as (_ & Hi & _). rewrite I in Hi. destruct Hi as [S1 S2].
  cbn [a64_op_toks]. unfold a64_mem_toks. cbn [am_base am_index am_shiftop am_shift am_mode am_off].
  rewrite I, E1, E2, S2. cbn [Z.eqb Pos.eqb negb andb orb app].
  destruct (am_base m); cbn [negb app]; rewrite ?app_nil_r; reflexivity.
Qed.

Lemma a64_canon_not_none o : o <> AONone -> a64_canon_op o <> AONone.
Proof. destruct o as [|t i et ei|m|v p|l]; try congruence; try discriminate. intros _. cbn [a64_canon_op]. destruct (am_index m); [discriminate|]. destruct (_ && _); discriminate. Qed.

Lemma a64_ops_toks_canon f : forall ops first, Forall a64_op_ok ops -> Forall (fun o => o <> AONone) ops ->
  a64_ops_toks true f first (map a64_canon_op ops) = a64_ops_toks true f first ops.
Proof.
  induction ops as [|o r IH]; intros first Fo Fn; [reflexivity|]. inversion Fo as [|? ? Ho Fr]; subst. inversion Fn as [|? ? Hn Fnr]; subst.
  cbn [map]. pose proof (a64_canon_not_none o Hn) as Hc.
  destruct o as [|t i et ei|m|v p|l]; try congruence;
    (destruct (a64_canon_op _) eqn:EC; try congruence; cbn [a64_ops_toks]; rewrite <- EC, (a64_op_toks_canon f _ Ho), (IH false Fr Fnr); reflexivity).
Qed.

Lemma a64_fmt_inst_canon f i : a64_inst_ok i -> a64_fmt_inst true f (a64_canon_inst i) = a64_fmt_inst true f i.
Proof.
  intros (_ & _ & Hops & _). unfold a64_fmt_inst, a64_inst_toks, a64_canon_inst, a64_mnem_text. cbn [ai_mnem ai_cond ai_ops].
  rewrite (a64_ops_until f (ai_ops i) true). rewrite a64_ops_toks_canon by (exact Hops || apply a64_until_not_none). reflexivity.
Qed.

Theorem strict_a64_inst_complete f i : a64_inst_ok i -> strict_a64_inst f (a64_fmt_inst true f i) = Some (a64_canon_inst i).
Proof. intros H. apply strict_complete_can; [apply a64_inst_roundtrip; exact H|apply a64_fmt_inst_canon; exact H]. Qed.

(* x86 lines *)
Lemma fmt_op_toks_keep f op : fmt_op_toks f (keep_bcst op) = fmt_op_toks f op.
Proof.
  destruct op as [|t i|m|v|l]; try reflexivity. unfold keep_bcst. cbn [canon_op set_bcst fmt_op_toks].
  unfold canon_mem, fmt_mem_toks, mem_body_toks.
  destruct (m_base m) as [|lb|bt bi] eqn:B; destruct (m_index m) as [[it ii]|] eqn:I; cbn [m_size m_seg m_addr m_base m_index m_shift m_off m_bcst]; try reflexivity.
  destruct (m_shift m =? 0) eqn:S; cbn [m_size m_seg m_addr m_base m_index m_shift m_off m_bcst]; [|reflexivity].
  cbn [base_toks index_toks has_base orb app]. rewrite S. cbn [app]. reflexivity.
Qed.

Lemma bcst_toks_keep op : bcst_toks (keep_bcst op) = bcst_toks op.
Proof.
  destruct op as [|t i|m|v|l]; reflexivity.
Qed.

Lemma keep_bcst_none op : keep_bcst op = ONone -> op = ONone.
Proof. destruct op as [|t i|m|v|l]; try discriminate; try reflexivity. Qed.

Lemma ops_toks_canon f o ex o' ex' : mask_toks o' ex' = mask_toks o ex ->
  forall ops first, Forall (fun op => op <> ONone) ops -> ops_toks f o' ex' first (map keep_bcst ops) = ops_toks f o ex first ops.
Proof.
  intros M. induction ops as [|op r IH]; intros first Fn; [reflexivity|]. inversion Fn as [|? ? Hn Fr]; subst. cbn [map].
  assert (Hk : keep_bcst op <> ONone) by (intros E; apply Hn; apply keep_bcst_none; exact E).
  assert (U : forall a b fl, a <> ONone -> ops_toks f o ex fl (a :: b) =
               (if fl then [sp] else [P ","; sp]) ++ fmt_op_toks f a ++ (if fl then mask_toks o ex else []) ++ bcst_toks a ++ ops_toks f o ex false b)
    by (intros a b fl Ha; destruct a; try congruence; reflexivity).
  assert (U' : forall a b fl, a <> ONone -> ops_toks f o' ex' fl (a :: b) =
               (if fl then [sp] else [P ","; sp]) ++ fmt_op_toks f a ++ (if fl then mask_toks o' ex' else []) ++ bcst_toks a ++ ops_toks f o' ex' false b)
    by (intros a b fl Ha; destruct a; try congruence; reflexivity).
  rewrite (U' _ _ first Hk), (U _ _ first Hn), fmt_op_toks_keep, bcst_toks_keep, M, (IH false Fr). reflexivity.
Qed.

Lemma fmt_inst_canon f i : fmt_inst f (canon_inst i) = fmt_inst f i.
Proof.
  unfold fmt_inst. f_equal. unfold fmt_inst_toks, canon_inst. cbn [i_mnem i_opts i_extra i_ops].
  set (o := i_opts i). set (ex := i_extra i). set (ops := until_none (i_ops i)).
  rewrite (ops_toks_until f o ex (i_ops i) true). fold ops.
  set (has := match map keep_bcst ops with [] => false | _ => true end).
  set (rp := o_rep o || o_repne o).
  set (o' := {| o_vex := o_vex o; o_vex3 := o_vex3 o; o_evex := o_evex o; o_modrm := o_modrm o; o_modmr := o_modmr o && negb (o_modrm o);
                o_short := o_short o; o_long := o_long o; o_xacquire := o_xacquire o; o_xrelease := o_xrelease o; o_lock := o_lock o;
                o_rep := o_rep o; o_repne := o_repne o && negb (o_rep o); o_rex := o_rex o; o_zmask := o_zmask o && has; o_er := o_er o;
                o_sae := negb (o_er o) && o_sae o; o_rc := if o_er o then o_rc o else 0 |}).
  set (ex' := match ex with Some (KReg, k) => if has || rp then Some (KReg, k) else None | Some r => if rp then Some r else None | None => None end).
  assert (FA : flagsA o' = flagsA o).
  { unfold flagsA, o'. cbn [o_vex o_vex3 o_evex o_modrm o_modmr o_short o_long o_xacquire o_xrelease o_lock o_rep o_repne].
    destruct (o_modrm o), (o_modmr o), (o_rep o), (o_repne o); reflexivity. }
  assert (RI : regitem f o' ex' = regitem f o ex).
  { unfold regitem, o'. cbn [o_rep o_repne]. fold rp.
    assert (R : o_rep o || o_repne o && negb (o_rep o) = rp) by (unfold rp; destruct (o_rep o), (o_repne o); reflexivity).
    rewrite R. unfold ex'. destruct rp; [|reflexivity]. rewrite orb_true_r. destruct ex as [[t k]|]; [destruct t|]; reflexivity. }
  assert (ER : er_toks o' = er_toks o).
  { unfold er_toks, o'. cbn [o_er o_sae o_rc]. destruct (o_er o); [reflexivity|]. cbn [negb andb]. reflexivity. }
  unfold prefix_toks. rewrite FA, RI, ER. cbn [o_rex]. replace (o_rex o') with (o_rex o) by reflexivity.
  do 3 f_equal.
  destruct ops as [|op0 r0] eqn:EO; [reflexivity|].
  assert (HAS : has = true) by reflexivity.
  rewrite <- EO. apply ops_toks_canon; [|subst ops; apply until_none_not_none].
  unfold mask_toks, o', ex'. cbn [o_zmask]. rewrite HAS, andb_true_r. cbn [orb].
  destruct ex as [[t k]|]; [destruct t; try reflexivity; destruct rp; reflexivity|reflexivity].
Qed.

Theorem strict_inst_complete f i : inst_ok i -> strict_inst f (fmt_inst f i) = Some (canon_inst i).
Proof. intros H. apply strict_complete_can; [apply inst_roundtrip; exact H|apply fmt_inst_canon]. Qed.

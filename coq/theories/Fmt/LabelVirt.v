(* C20 — Formatter::format_label (named / anonymous / local labels) and virtual-register names of a Compiler
   (Formatter::format_virt_reg_name + the "@type" cast suffix of x86::FormatterInternal::format_register). Model and proofs. *)
From Coq Require Import ZArith Bool Ascii String Lia.
From Coq Require Import List.
Import ListNotations.
From Verif Require Import Fmt.TextModel Fmt.TextProofs Fmt.X86FmtModel Fmt.X86FmtProofs Fmt.A64FmtModel Fmt.A64FmtProofs Fmt.LogLine.
Local Open Scope Z_scope.

(* ------------------------------------------------------------------ labels *)
Inductive label_parent := PNone | PNamed (name : text) | PUnnamed (id : Z).

Inductive label_info :=
| LInvalid (id : Z)                                                   (* not a label of the CodeHolder *)
| LPlain (id : Z)                                                     (* no name *)
| LNamed (id : Z) (anonymous : bool) (parent : label_parent) (name : text).

Definition fmt_label (l : label_info) : text :=
  match l with
  | LInvalid id => s "<InvalidLabel:" ++ dec id ++ s ">"
  | LPlain id => label_text id
  | LNamed id anon parent name =>
      match parent with PNone => [] | PNamed pn => pn ++ ["."%char] | PUnnamed pid => label_text pid ++ ["."%char] end
      ++ (if anon then label_text id ++ ["@"%char] else []) ++ name
  end.

(* the id of an anonymous label with a name ("L<id>@name", no parent) can be read off the text *)
Definition parse_anon_label (x : text) : option (Z * text) :=
  match split_at "@"%char x with
  | Some (l, name) => match parse_label_text l with Some id => Some (id, name) | None => None end
  | None => None
  end.

Lemma label_text_no_at id : 0 <= id -> Forall (fun c => Ascii.eqb c "@"%char = false) (label_text id).
Proof.
  intros H. unfold label_text. constructor; [reflexivity|].
  pose proof (dec_all_digits id H) as D. apply forallb_Forall in D.
  eapply Forall_impl; [|exact D]. intros a Ha. destruct (Ascii.eqb_spec a "@"%char) as [->|]; [discriminate Ha|reflexivity].
Qed.

Lemma anon_label_roundtrip id name : id_ok id ->
  parse_anon_label (fmt_label (LNamed id true PNone name)) = Some (id, name).
Proof.
  intros H. unfold fmt_label, parse_anon_label. cbn [app]. rewrite <- app_assoc. cbn [app].
  rewrite split_at_app' by (apply label_text_no_at; unfold id_ok in H; lia).
  destruct (label_facts id H) as (_ & _ & _ & L). rewrite L. reflexivity.
Qed.

(* a named label is free text: it can print exactly like a register *)
Lemma named_label_collides :
  fmt_label (LNamed 7 false PNone (s "rax")) = fmt_reg Gp64 0.
Proof. vm_compute. reflexivity. Qed.

(* ------------------------------------------------------------------ virtual registers (x86 Compiler) *)
Definition vreg_name (name : option text) (index : Z) : text :=
  match name with Some n => n | None => "%"%char :: dec index end.

(* show_type = kRegType || (kRegCasts && the operand's register type differs from the virtual register's) ; a type suffix exists
   only for the register types that have a name entry *)
Definition x86_fmt_virt (regtype regcasts : bool) (name : option text) (index : Z) (vtype optype : x86rt) : text :=
  vreg_name name index ++
  (if (regtype || (regcasts && negb (rt_code vtype =? rt_code optype))) && named optype then at_c :: type_string optype else []).

Definition parse_virt (x : text) : option (Z * option x86rt) :=
  match x with
  | c :: r =>
    if Ascii.eqb c "%"%char then
      match split_at at_c r with
      | Some (ds, ts) => match parse_dec32 ds, assoc ts type_table with Some i, Some t => Some (i, Some t) | _, _ => None end
      | None => match parse_dec32 r with Some i => Some (i, None) | None => None end
      end
    else None
  | [] => None
  end.

Lemma virt_roundtrip regtype regcasts index vtype optype : id_ok index -> named optype = true ->
  parse_virt (x86_fmt_virt regtype regcasts None index vtype optype) =
  Some (index, if regtype || (regcasts && negb (rt_code vtype =? rt_code optype)) then Some optype else None).
Proof.
  intros Hi Hn. unfold id_ok in Hi. unfold x86_fmt_virt, vreg_name, parse_virt. rewrite Hn, andb_true_r.
  assert (ND : Forall (fun c => Ascii.eqb c at_c = false) (dec index)) by (apply dec_no; [lia|reflexivity]).
  cbn [app Ascii.eqb Bool.eqb andb].
  destruct (regtype || (regcasts && negb (rt_code vtype =? rt_code optype))).
  - rewrite split_at_app' by exact ND. rewrite parse_dec32_dec by assumption. rewrite assoc_type_string by assumption. reflexivity.
  - rewrite app_nil_r. rewrite split_at_none' by exact ND. rewrite parse_dec32_dec by assumption. reflexivity.
Qed.

(* ------------------------------------------------------------------ memory operands whose base / index are virtual registers:
   the same text as fmt_mem_toks with another register printer *)
Definition base_toks_rp (rp : x86rt -> Z -> text) (b : membase) : list tok :=
  match b with MBNone => [] | MBLabel id => [TId (label_text id)] | MBReg t i => [TId (rp t i)] end.

Definition index_toks_rp (rp : x86rt -> Z -> text) (hb : bool) (ix : option (x86rt * Z)) (sh : Z) : list tok :=
  match ix with
  | None => []
  | Some (t, i) => (if hb then [P "+"] else []) ++ [TId (rp t i)] ++ (if sh =? 0 then [] else [P "*"; TId (dec (2 ^ sh))])
  end.

Definition fmt_mem_toks_rp (rp : x86rt -> Z -> text) (f : fflags) (m : x86mem) : list tok :=
  let hb := has_base (m_base m) in
  let hi := match m_index m with Some _ => true | None => false end in
  size_toks (m_size m) ++ seg_toks (m_seg m) ++ [P "["] ++ addr_toks (m_addr m)
  ++ (base_toks_rp rp (m_base m) ++ index_toks_rp rp hb (m_index m) (m_shift m) ++ off_toks f (hb || hi) (m_off m)) ++ [P "]"].

Lemma fmt_mem_toks_rp_phys f m : fmt_mem_toks_rp fmt_reg f m = fmt_mem_toks f m.
Proof. unfold fmt_mem_toks_rp, fmt_mem_toks, mem_body_toks. destruct (m_base m), (m_index m) as [[? ?]|]; reflexivity. Qed.

(* environment of a Compiler: virtual index -> (name, register type) *)
Definition venv := list (option text * x86rt).

Definition rp_virt (env : venv) (regtype regcasts : bool) (t : x86rt) (id : Z) : text :=
  if 256 <=? id then
    match nth_error env (Z.to_nat (id - 256)) with
    | Some (name, vt) => x86_fmt_virt regtype regcasts name (id - 256) vt t
    | None => fmt_reg t id
    end
  else fmt_reg t id.

Definition fmt_mem_virt (env : venv) (regtype regcasts : bool) (f : fflags) (m : x86mem) : text :=
  render (fmt_mem_toks_rp (rp_virt env regtype regcasts) f m).

(* with no virtual register in sight the text is the physical one *)
Lemma fmt_mem_virt_nil regtype regcasts f m : fmt_mem_virt [] regtype regcasts f m = fmt_operand f (OMem m).
Proof.
  unfold fmt_mem_virt, fmt_operand. cbn [fmt_op_toks]. rewrite <- fmt_mem_toks_rp_phys. f_equal.
  unfold fmt_mem_toks_rp. 
  assert (E : forall t id, rp_virt [] regtype regcasts t id = fmt_reg t id).
  { intros t id. unfold rp_virt. destruct (256 <=? id); [|reflexivity]. destruct (Z.to_nat (id - 256)); reflexivity. }
  destruct (m_base m) as [| |bt bi], (m_index m) as [[it ii]|]; cbn [base_toks_rp index_toks_rp]; rewrite ?E; reflexivity.
Qed.

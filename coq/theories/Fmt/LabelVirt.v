(* C20 — Formatter::format_label (named / anonymous / local labels) and virtual-register names of a Compiler
   (Formatter::format_virt_reg_name + the "@type" cast suffix of x86::FormatterInternal::format_register). Model and proofs. *)
From Coq Require Import ZArith Bool Ascii String Lia.
From Coq Require Import List.
Import ListNotations.
From Verif Require Import Fmt.TextModel Fmt.TextProofs Fmt.X86FmtModel Fmt.X86FmtProofs Fmt.A64FmtModel Fmt.A64FmtProofs Fmt.LogLine.
Local Open Scope Z_scope.

(* ------------------------------------------------------------------ labels *)
Inductive label_parent := PNone | PNamed (name : text) | PUnnamed (id : Z).

Inductive label_info :=
| LInvalid (id : Z)                                                   (* not a label of the CodeHolder *)
| LPlain (id : Z)                                                     (* no name *)
| LNamed (id : Z) (anonymous : bool) (parent : label_parent) (name : text).

Definition fmt_label (l : label_info) : text :=
  match l with
  | LInvalid id => s "<InvalidLabel:" ++ dec id ++ s ">"
  | LPlain id => label_text id
  | LNamed id anon parent name =>
      match parent with PNone => [] | PNamed pn => pn ++ ["."%char] | PUnnamed pid => label_text pid ++ ["."%char] end
      ++ (if anon then label_text id ++ ["@"%char] else []) ++ name
  end.

(* the id of an anonymous label with a name ("L<id>@name", no parent) can be read off the text *)
Definition parse_anon_label (x : text) : option (Z * text) :=
  match split_at "@"%char x with
  | Some (l, name) => match parse_label_text l with Some id => Some (id, name) | None => None end
  | None => None
  end.

Lemma label_text_no_at id : 0 <= id -> Forall (fun c => Ascii.eqb c "@"%char = false) (label_text id).
Proof.
  intros H. unfold label_text. constructor; [reflexivity|].
  pose proof (dec_all_digits id H) as D. apply forallb_Forall in D.
  eapply Forall_impl; [|exact D]. intros a Ha. destruct (Ascii.eqb_spec a "@"%char) as [->|]; [discriminate Ha|reflexivity].
Qed.

Lemma anon_label_roundtrip id name : id_ok id ->
  parse_anon_label (fmt_label (LNamed id true PNone name)) = Some (id, name).
Proof.
  intros H. unfold fmt_label, parse_anon_label. cbn [app]. rewrite <- app_assoc. cbn [app].
  rewrite split_at_app' by (apply label_text_no_at; unfold id_ok in H; lia).
  destruct (label_facts id H) as (_ & _ & _ & L). rewrite L. reflexivity.
Qed.

(* a named label is free text: it can print exactly like a register *)
Lemma named_label_collides :
  fmt_label (LNamed 7 false PNone (s "rax")) = fmt_reg Gp64 0.
Proof. vm_compute. reflexivity. Qed.

(* ------------------------------------------------------------------ virtual registers (x86 Compiler) *)
Definition vreg_name (name : option text) (index : Z) : text :=
  match name with Some n => n | None => "%"%char :: dec index end.

(* show_type = kRegType || (kRegCasts && the operand's register type differs from the virtual register's) ; a type suffix exists
   only for the register types that have a name entry *)
Definition x86_fmt_virt (regtype regcasts : bool) (name : option text) (index : Z) (vtype optype : x86rt) : text :=
  vreg_name name index ++
  (if (regtype || (regcasts && negb (rt_code vtype =? rt_code optype))) && named optype then at_c :: type_string optype else []).

Definition parse_virt (x : text) : option (Z * option x86rt) :=
  match x with
  | c :: r =>
    if Ascii.eqb c "%"%char then
      match split_at at_c r with
      | Some (ds, ts) => match parse_dec32 ds, assoc ts type_table with Some i, Some t => Some (i, Some t) | _, _ => None end
      | None => match parse_dec32 r with Some i => Some (i, None) | None => None end
      end
    else None
  | [] => None
  end.

Lemma virt_roundtrip regtype regcasts index vtype optype : id_ok index -> named optype = true ->
  parse_virt (x86_fmt_virt regtype regcasts None index vtype optype) =
  Some (index, if regtype || (regcasts && negb (rt_code vtype =? rt_code optype)) then Some optype else None).
Proof.
  intros Hi Hn. unfold id_ok in Hi. unfold x86_fmt_virt, vreg_name, parse_virt. rewrite Hn, andb_true_r.
  assert (ND : Forall (fun c => Ascii.eqb c at_c = false) (dec index)) by (apply dec_no; [lia|reflexivity]).
  cbn [app Ascii.eqb Bool.eqb andb].
  destruct (regtype || (regcasts && negb (rt_code vtype =? rt_code optype))).
  - rewrite split_at_app' by exact ND. rewrite parse_dec32_dec by assumption. rewrite assoc_type_string by assumption. reflexivity.
  - rewrite app_nil_r. rewrite split_at_none' by exact ND. rewrite parse_dec32_dec by assumption. reflexivity.
Qed.

(* ------------------------------------------------------------------ memory operands whose base / index are virtual registers:
   the same text as fmt_mem_toks with another register printer *)
Definition base_toks_rp (rp : x86rt -> Z -> text) (b : membase) : list tok :=
  match b with MBNone => [] | MBLabel id => [TId (label_text id)] | MBReg t i => [TId (rp t i)] end.

Definition index_toks_rp (rp : x86rt -> Z -> text) (hb : bool) (ix : option (x86rt * Z)) (sh : Z) : list tok :=
  match ix with
  | None => []
  | Some (t, i) => (if hb then [P "+"] else []) ++ [TId (rp t i)] ++ (if sh =? 0 then [] else [P "*"; TId (dec (2 ^ sh))])
  end.

Definition fmt_mem_toks_rp (rp : x86rt -> Z -> text) (f : fflags) (m : x86mem) : list tok :=
  let hb := has_base (m_base m) in
  let hi := match m_index m with Some _ => true | None => false end in
  size_toks (m_size m) ++ seg_toks (m_seg m) ++ [P "["] ++ addr_toks (m_addr m)
  ++ (base_toks_rp rp (m_base m) ++ index_toks_rp rp hb (m_index m) (m_shift m) ++ off_toks f (hb || hi) (m_off m)) ++ [P "]"].

Lemma fmt_mem_toks_rp_phys f m : fmt_mem_toks_rp fmt_reg f m = fmt_mem_toks f m.
Proof. unfold fmt_mem_toks_rp, fmt_mem_toks, mem_body_toks. destruct (m_base m), (m_index m) as [[? ?]|]; reflexivity. Qed.

(* environment of a Compiler: virtual index -> (name, register type) *)
Definition venv := list (option text * x86rt).

Definition rp_virt (env : venv) (regtype regcasts : bool) (t : x86rt) (id : Z) : text :=
  if 256 <=? id then
    match nth_error env (Z.to_nat (id - 256)) with
    | Some (name, vt) => x86_fmt_virt regtype regcasts name (id - 256) vt t
    | None => fmt_reg t id
    end
  else fmt_reg t id.

Definition fmt_mem_virt (env : venv) (regtype regcasts : bool) (f : fflags) (m : x86mem) : text :=
  render (fmt_mem_toks_rp (rp_virt env regtype regcasts) f m).

(* with no virtual register in sight the text is the physical one *)
Lemma fmt_mem_virt_nil regtype regcasts f m : fmt_mem_virt [] regtype regcasts f m = fmt_operand f (OMem m).
Proof.
  unfold fmt_mem_virt, fmt_operand. cbn [fmt_op_toks]. rewrite <- fmt_mem_toks_rp_phys. f_equal.
  unfold fmt_mem_toks_rp. 
  assert (E : forall t id, rp_virt [] regtype regcasts t id = fmt_reg t id).
  { intros t id. unfold rp_virt. destruct (256 <=? id); [|reflexivity]. destruct (Z.to_nat (id - 256)); reflexivity. }
  destruct (m_base m) as [| |bt bi], (m_index m) as [[it ii]|]; cbn [base_toks_rp index_toks_rp]; rewrite ?E; reflexivity.
Qed.

(* ------------------------------------------------------------------ whole lines printed through a Compiler: every register (operands,
   memory base/index, {k} mask, rep register) goes through the virtual-register printer; a memory operand that is the HOME of a
   spilled virtual register prints "&" before the base and drops kRegCasts for it *)
From Verif Require Import Fmt.X86InstModel.

Definition fmt_mem_toks_home (rp rp_nocast : x86rt -> Z -> text) (home : bool) (f : fflags) (m : x86mem) : list tok :=
  let hb := has_base (m_base m) in
  let hi := match m_index m with Some _ => true | None => false end in
  size_toks (m_size m) ++ seg_toks (m_seg m) ++ [P "["] ++ addr_toks (m_addr m)
  ++ (match m_base m with
      | MBNone => []
      | MBLabel id => [TId (label_text id)]
      | MBReg t i => if home then [P "&"; TId (rp_nocast t i)] else [TId (rp t i)]
      end
      ++ index_toks_rp rp hb (m_index m) (m_shift m) ++ off_toks f (hb || hi) (m_off m)) ++ [P "]"].

Definition vop_toks (rp rp_nocast : x86rt -> Z -> text) (f : fflags) (oh : x86op * bool) : list tok :=
  match fst oh with
  | OReg t i => [TId (rp t i)]
  | OMem m => fmt_mem_toks_home rp rp_nocast (snd oh) f m
  | o => fmt_op_toks f o
  end.

Definition mask_toks_rp (rp : x86rt -> Z -> text) (o : x86opts) (extra : option (x86rt * Z)) : list tok :=
  match extra with
  | Some (KReg, i) => [sp] ++ brace [TId (rp KReg i)] ++ (if o_zmask o then brace [kw "z"] else [])
  | _ => if o_zmask o then [sp] ++ brace [kw "z"] else []
  end.

Fixpoint vops_toks (rp rp_nocast : x86rt -> Z -> text) (f : fflags) (o : x86opts) (extra : option (x86rt * Z)) (first : bool)
  (ops : list (x86op * bool)) : list tok :=
  match ops with
  | [] => []
  | (ONone, _) :: _ => []
  | oh :: r => (if first then [sp] else [P ","; sp]) ++ vop_toks rp rp_nocast f oh
               ++ (if first then mask_toks_rp rp o extra else []) ++ bcst_toks (fst oh)
               ++ vops_toks rp rp_nocast f o extra false r
  end.

Definition fmt_inst_toks_rp (rp rp_nocast : x86rt -> Z -> text) (f : fflags) (i : x86inst) (homes : list bool) : list tok :=
  let o := i_opts i in
  items specsA (flagsA o)
  ++ (if o_rep o || o_repne o then match i_extra i with Some (t, k) => brace [TId (rp t k)] ++ [sp] | None => [] end else [])
  ++ items specsR [o_rex o] ++ [TId (i_mnem i)]
  ++ vops_toks rp rp_nocast f o (i_extra i) true (combine (i_ops i) (homes ++ repeat false (length (i_ops i)))) ++ er_toks o.

Definition fmt_inst_virt (env : venv) (regtype regcasts : bool) (f : fflags) (i : x86inst) (homes : list bool) : text :=
  render (fmt_inst_toks_rp (rp_virt env regtype regcasts) (rp_virt env regtype false) f i homes).

Lemma rp_virt_nil regtype regcasts t id : rp_virt [] regtype regcasts t id = fmt_reg t id.
Proof. unfold rp_virt. destruct (256 <=? id); [|reflexivity]. destruct (Z.to_nat (id - 256)); reflexivity. Qed.

Lemma vops_toks_phys f o extra : forall ops first,
  vops_toks fmt_reg fmt_reg f o extra first (combine ops (repeat false (length ops))) = ops_toks f o extra first ops.
Proof.
  induction ops as [|op r IH]; intros first; [reflexivity|].
  cbn [length repeat combine vops_toks ops_toks]. destruct op as [|t i|m|v|id]; try reflexivity; cbn [fst snd vop_toks];
    rewrite IH; try reflexivity.
  all: try (destruct extra as [[[] ?]|]; reflexivity).
  all: try (assert (E : fmt_mem_toks_home fmt_reg fmt_reg false f m = fmt_mem_toks f m) by (unfold fmt_mem_toks_home, fmt_mem_toks, mem_body_toks; destruct (m_base m), (m_index m) as [[? ?]|]; reflexivity); rewrite E; destruct extra as [[[] ?]|]; reflexivity).
Qed.

Lemma vops_toks_nil regtype regcasts f o extra : forall ops b,
  vops_toks (rp_virt [] regtype regcasts) (rp_virt [] regtype false) f o extra b ops = vops_toks fmt_reg fmt_reg f o extra b ops.
Proof.
  assert (R : forall t k, rp_virt [] regtype regcasts t k = fmt_reg t k) by (intros; apply rp_virt_nil).
  assert (R' : forall t k, rp_virt [] regtype false t k = fmt_reg t k) by (intros; apply rp_virt_nil).
  induction ops as [|[op h] r IH]; intros b; [reflexivity|]. cbn [vops_toks].
  destruct op as [|t k|m|v|id]; try reflexivity; cbn [fst snd vop_toks]; rewrite IH; rewrite ?R.
  all: try (unfold mask_toks_rp; destruct extra as [[[] ?]|]; rewrite ?R; reflexivity).
  assert (M : fmt_mem_toks_home (rp_virt [] regtype regcasts) (rp_virt [] regtype false) h f m = fmt_mem_toks_home fmt_reg fmt_reg h f m).
  { unfold fmt_mem_toks_home, index_toks_rp. destruct (m_base m), (m_index m) as [[? ?]|], h; rewrite ?R, ?R'; reflexivity. }
  rewrite M. unfold mask_toks_rp. destruct extra as [[[] ?]|]; rewrite ?R; reflexivity.
Qed.

(* without virtual registers and home operands the Compiler line is the plain line (all line theorems apply) *)
Lemma fmt_inst_virt_nil regtype regcasts f i : fmt_inst_virt [] regtype regcasts f i [] = fmt_inst f i.
Proof.
  unfold fmt_inst_virt, fmt_inst. f_equal. unfold fmt_inst_toks_rp, fmt_inst_toks, prefix_toks, regitem. cbn [app].
  rewrite vops_toks_nil, vops_toks_phys.
  destruct (o_rep (i_opts i) || o_repne (i_opts i)); [destruct (i_extra i) as [[t k]|]|]; cbn [fmt_op_toks]; rewrite ?rp_virt_nil;
    repeat rewrite <- app_assoc; reflexivity.
Qed.

(* FuncRetNode of a Compiler: "[FuncRet]" and up to two operands (the separator depends on the slot, not on what was printed) *)
Definition fmt_func_ret (env : venv) (regtype regcasts : bool) (f : fflags) (o0 o1 : x86op) : text :=
  let rp := rp_virt env regtype regcasts in
  let rpn := rp_virt env regtype false in
  s "[FuncRet]"
  ++ match o0 with ONone => [] | _ => render (sp :: vop_toks rp rpn f (o0, false)) end
  ++ match o1 with ONone => [] | _ => render (P "," :: sp :: vop_toks rp rpn f (o1, false)) end.

(* virtual registers of an a64::Compiler: the name (or %index) replaces the register name; element suffix and index stay *)
From Verif Require Import Fmt.A64FmtModel.
Definition a64_fmt_virt (name : option text) (index : Z) (t : a64rt) (et : Z) (ei : option Z) : text :=
  vreg_name name index ++ a64_elem_suffix t et
  ++ match ei with Some i => render [P "["; TId (dec i); P "]"] | None => [] end.

(* the register type of an AArch64 virtual register is never printed (arm::FormatterInternal::format_register ignores its flags: kRegType and
   kRegCasts have no effect): the 32-bit and the 64-bit view of one virtual register print alike, so "add %0, %1" does not say which add *)
Lemma a64_virt_type_not_shown name index : a64_fmt_virt name index AGp32 0 None = a64_fmt_virt name index AGp64 0 None.
Proof. reflexivity. Qed.

(* FuncNode of a Compiler: see FuncValue.v *)

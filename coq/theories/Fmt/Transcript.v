(* C20 — "the log is a faithful transcript of the code buffer": a whole LOG (the lines of any sequence of emitted instructions, logged with
   kMachineCode) splits back into its lines, every line into text / column / comment, and the columns, read as bytes, concatenate to the
   concatenation of the emitted byte strings. *)
From Coq Require Import ZArith Bool Ascii String Lia.
From Coq Require Import List.
Import ListNotations.
From Verif Require Import Fmt.TextModel Fmt.TextProofs Fmt.X86FmtModel Fmt.X86FmtProofs Fmt.LogLine Fmt.FuncLine.
Local Open Scope Z_scope.

Definition nonl (c : ascii) : Prop := Ascii.eqb c nl = false.

Fixpoint lines_of (x : text) : list text :=
  match x with
  | [] => []
  | c :: r => if Ascii.eqb c nl then [nl] :: lines_of r
              else match lines_of r with h :: t => (c :: h) :: t | [] => [[c]] end
  end.

Record emission := { e_text : text; e_bytes : list Z; e_rel : nat; e_imm : nat; e_comment : text }.

Definition emission_ok (e : emission) : Prop :=
  Forall (fun c => Ascii.eqb c ";"%char = false) (e_text e) /\ ends_nonspace (e_text e) /\ Forall nonl (e_text e) /\ Forall nonl (e_comment e) /\
  Forall (fun v => 0 <= v < 256) (e_bytes e) /\ e_bytes e <> [].

Definition log_of (pad1 pad2 : nat) (es : list emission) : text :=
  concat (map (fun e => finish_line (e_text e) pad1 pad2 (Some (e_bytes e, e_rel e, e_imm e)) (e_comment e)) es).

Definition parse_log (x : text) : option (list (text * text * text)) := traverse parse_log_line (lines_of x).

(* the bytes a list of columns denotes (None for a byte shown as "..") *)
Definition columns_bytes (cols : list text) : option (list (option Z)) :=
  match traverse parse_hexcol cols with Some l => Some (concat l) | None => None end.

(* ------------------------------------------------------------------ proofs *)
Lemma lines_of_app a b : Forall nonl a -> lines_of (a ++ nl :: b) = (a ++ [nl]) :: lines_of b.
Proof.
  induction 1 as [|c a Hc F IH]; cbn [app lines_of].
  - rewrite Ascii.eqb_refl. reflexivity.
  - rewrite Hc, IH. reflexivity.
Qed.

Lemma digit_nonl d : 0 <= d < 16 -> nonl (digit_char d).
Proof. intros H. unfold nonl. digit_split d H; reflexivity. Qed.

Lemma fmt_hex_nonl bs : Forall (fun v => 0 <= v < 256) bs -> Forall nonl (fmt_hex bs).
Proof.
  induction 1 as [|v bs Hv F IH]; [constructor|]. unfold fmt_hex in *. cbn [flat_map hex_byte app].
  constructor; [apply digit_nonl; split; [apply Z.div_pos; lia|apply Z.div_lt_upper_bound; lia]|].
  constructor; [apply digit_nonl, Z.mod_pos_bound; lia|exact IH].
Qed.

Lemma hexcol_nonl bytes rel imm : Forall (fun v => 0 <= v < 256) bytes -> Forall nonl (fmt_hexcol bytes rel imm).
Proof.
  intros F. unfold fmt_hexcol. apply Forall_app; split; [apply fmt_hex_nonl, Forall_firstn'; exact F|].
  apply Forall_app; split; [|apply fmt_hex_nonl, Forall_skipn'; exact F].
  generalize (2 * rel)%nat. intros n. induction n; [constructor|constructor; [reflexivity|assumption]].
Qed.

Lemma repeat_nonl n : Forall nonl (repeat " "%char n).
Proof. induction n; [constructor|constructor; [reflexivity|assumption]]. Qed.

Lemma finish_line_body e pad1 pad2 : emission_ok e ->
  exists body, finish_line (e_text e) pad1 pad2 (Some (e_bytes e, e_rel e, e_imm e)) (e_comment e) = body ++ [nl] /\ Forall nonl body.
Proof.
  intros (_ & _ & Ht & Hc & Hb & Hne). unfold finish_line.
  assert (Hhb : negb (Nat.eqb (length (e_bytes e)) 0) = true) by (destruct (e_bytes e); [congruence|reflexivity]).
  rewrite Hhb. cbn [orb]. change (ascii_of_nat 10) with nl.
  assert (T1 : Forall nonl (pad_end (e_text e) pad1 ++ s "; " ++ fmt_hexcol (e_bytes e) (e_rel e) (e_imm e))).
  { unfold pad_end. apply Forall_app; split; [apply Forall_app; split; [exact Ht|apply repeat_nonl]|].
    apply Forall_app; split; [repeat constructor|apply hexcol_nonl; exact Hb]. }
  destruct (negb (Nat.eqb (length (e_comment e)) 0)).
  - eexists. split; [reflexivity|]. unfold pad_end at 1.
    apply Forall_app; split; [apply Forall_app; split; [exact T1|apply repeat_nonl]|].
    apply Forall_app; split; [repeat constructor|exact Hc].
  - eexists. split; [reflexivity|exact T1].
Qed.

Lemma lines_of_log pad1 pad2 es : Forall emission_ok es ->
  lines_of (log_of pad1 pad2 es) = map (fun e => finish_line (e_text e) pad1 pad2 (Some (e_bytes e, e_rel e, e_imm e)) (e_comment e)) es.
Proof.
  induction 1 as [|e es He F IH]; [reflexivity|]. unfold log_of in *. cbn [map concat].
  destruct (finish_line_body e pad1 pad2 He) as (body & E & B). rewrite E, <- app_assoc. cbn [app].
  rewrite lines_of_app by exact B. rewrite IH. reflexivity.
Qed.

(* every line of the log is recovered: text, machine-code column, comment *)
Theorem log_roundtrip pad1 pad2 es : Forall emission_ok es ->
  parse_log (log_of pad1 pad2 es) = Some (map (fun e => (e_text e, fmt_hexcol (e_bytes e) (e_rel e) (e_imm e), e_comment e)) es).
Proof.
  intros F. unfold parse_log. rewrite lines_of_log by exact F.
  induction F as [|e es (Hs & He & _ & _ & Hb & Hne) F IH]; [reflexivity|]. cbn [map traverse].
  rewrite (log_line_roundtrip (e_text e) pad1 pad2 (e_bytes e) (e_rel e) (e_imm e) (e_comment e) Hs He Hb Hne), IH. reflexivity.
Qed.

Lemma spec_norel bytes imm : hexcol_spec bytes 0 imm = map Some bytes.
Proof.
  unfold hexcol_spec. cbn [repeat app]. rewrite Nat.sub_0_r, <- map_app, firstn_skipn. reflexivity.
Qed.

(* ... and when no displacement was pending (rel = 0 everywhere) the columns ARE the code: read as bytes they concatenate to the emitted bytes *)
Theorem log_denotes_code pad1 pad2 es : Forall emission_ok es -> Forall (fun e => e_rel e = 0%nat) es ->
  match parse_log (log_of pad1 pad2 es) with
  | Some ls => columns_bytes (map (fun l => snd (fst l)) ls) = Some (map Some (concat (map e_bytes es)))
  | None => False
  end.
Proof.
  intros F Z0. rewrite (log_roundtrip pad1 pad2 es F). rewrite map_map. cbn [fst snd]. unfold columns_bytes.
  assert (T : traverse parse_hexcol (map (fun e => fmt_hexcol (e_bytes e) (e_rel e) (e_imm e)) es) = Some (map (fun e => map Some (e_bytes e)) es)).
  { induction F as [|e es (_ & _ & _ & _ & Hb & _) F IH]; [reflexivity|]. inversion Z0 as [|? ? R0 Zr]; subst. cbn [map traverse].
    rewrite (hex_column (e_bytes e) (e_rel e) (e_imm e) Hb), R0, spec_norel, (IH Zr). reflexivity. }
  rewrite T. f_equal. clear. induction es as [|e es IH]; [reflexivity|]. cbn [map concat]. rewrite map_app, IH. reflexivity.
Qed.

(* non-vacuity: two instructions *)
Definition ex_es : list emission :=
  [{| e_text := s "nop"; e_bytes := [144]; e_rel := 0; e_imm := 0; e_comment := [] |};
   {| e_text := s "add eax, 1"; e_bytes := [131; 192; 1]; e_rel := 0; e_imm := 1; e_comment := s "inc" |}].
Example ex_log_text : log_of 12 10 ex_es = s "nop         ; 90" ++ [nl] ++ s "add eax, 1  ; 83C001  | inc" ++ [nl].
Proof. vm_compute. reflexivity. Qed.
Example ex_log_code : match parse_log (log_of 12 10 ex_es) with
                      | Some ls => columns_bytes (map (fun l => snd (fst l)) ls) = Some (map Some [144; 131; 192; 1]) | None => False end.
Proof. vm_compute. reflexivity. Qed.

(* C20 — proofs about the text primitives of TextModel.v *)
From Coq Require Import ZArith Bool Ascii String Lia.
From Coq Require Import List.
Import ListNotations.
From Verif Require Import Fmt.TextModel.
Local Open Scope Z_scope.

(* ------------------------------------------------------------------ digit characters *)
Lemma digit_cases d : 0 <= d < 16 ->
  d = 0 \/ d = 1 \/ d = 2 \/ d = 3 \/ d = 4 \/ d = 5 \/ d = 6 \/ d = 7 \/ d = 8 \/ d = 9 \/ d = 10 \/ d = 11 \/
  d = 12 \/ d = 13 \/ d = 14 \/ d = 15.
Proof. lia. Qed.

Ltac digit_split d H :=
  let C := fresh in
  pose proof (digit_cases d H) as C;
  repeat (destruct C as [C | C]; [subst d | ]); [.. | subst d].

Lemma digit_val_char d : 0 <= d < 16 -> digit_val (digit_char d) = Some d.
Proof. intros H. digit_split d H; reflexivity. Qed.

Lemma digit_char_ident d : 0 <= d < 16 -> is_ident_char (digit_char d) = true.
Proof. intros H. digit_split d H; reflexivity. Qed.

Lemma digit_char_dec d : 0 <= d < 10 -> is_digit10 (digit_char d) = true.
Proof. intros H. assert (H' : 0 <= d < 16) by lia. digit_split d H'; try reflexivity; lia. Qed.

Lemma digit_char_not_dot d : 0 <= d < 16 -> Ascii.eqb (digit_char d) "."%char = false.
Proof. intros H. digit_split d H; reflexivity. Qed.

Lemma digit_char_not_x d : 0 <= d < 16 -> Ascii.eqb (digit_char d) "x"%char = false.
Proof. intros H. digit_split d H; reflexivity. Qed.

(* ------------------------------------------------------------------ the digit loop *)
Lemma to_digits_app fuel : forall b n acc, to_digits fuel b n acc = to_digits fuel b n [] ++ acc.
Proof.
  induction fuel as [|f IH]; intros b n acc; cbn [to_digits].
  - reflexivity.
  - destruct (n / b =? 0); [reflexivity|].
    rewrite (IH b (n / b) (digit_char (n mod b) :: acc)), (IH b (n / b) [digit_char (n mod b)]).
    rewrite <- app_assoc. reflexivity.
Qed.

Lemma parse_step b d r a : 0 <= d < b -> b <= 16 ->
  parse_digits b (digit_char d :: r) a = parse_digits b r (a * b + d).
Proof.
  intros Hd Hb. cbn [parse_digits]. rewrite digit_val_char by lia.
  destruct (d <? b) eqn:E; [reflexivity|]. apply Z.ltb_ge in E. lia.
Qed.

Lemma parse_to_digits fuel : forall b n acc, 2 <= b <= 16 -> 0 <= n < b ^ (Z.of_nat (S fuel)) ->
  parse_digits b (to_digits fuel b n acc) 0 = parse_digits b acc n.
Proof.
  induction fuel as [|f IH]; intros b n acc Hb Hn.
  - cbn [to_digits]. change (Z.of_nat 1) with 1 in Hn. rewrite Z.pow_1_r in Hn.
    rewrite parse_step by (try apply Z.mod_pos_bound; lia).
    rewrite Z.mod_small by lia. f_equal.
  - cbn [to_digits].
    assert (Hm : 0 <= n mod b < b) by (apply Z.mod_pos_bound; lia).
    destruct (n / b =? 0) eqn:E.
    + apply Z.eqb_eq in E. rewrite parse_step by lia.
      f_equal. pose proof (Z.div_mod n b ltac:(lia)). lia.
    + rewrite IH; [| lia |].
      * rewrite parse_step by lia. f_equal. pose proof (Z.div_mod n b ltac:(lia)). lia.
      * split; [apply Z.div_pos; lia|].
        apply Z.div_lt_upper_bound; [lia|].
        replace (Z.of_nat (S (S f))) with (Z.of_nat (S f) + 1) in Hn by lia.
        rewrite Z.pow_add_r, Z.pow_1_r in Hn by lia. lia.
Qed.

Lemma pow65_bound b : 2 <= b -> two64 <= b ^ 65.
Proof.
  intros Hb. transitivity (2 ^ 65); [unfold two64; vm_compute; discriminate|].
  apply Z.pow_le_mono_l. lia.
Qed.

Lemma digits_roundtrip b n : 2 <= b <= 16 -> 0 <= n < two64 -> parse_digits b (digits b n) 0 = Some n.
Proof.
  intros Hb Hn. unfold digits. rewrite parse_to_digits; [reflexivity|lia|].
  change (Z.of_nat 65) with 65. pose proof (pow65_bound b ltac:(lia)). lia.
Qed.

(* every character printed is a digit of the base *)
Lemma to_digits_forall (P : ascii -> Prop) fuel : forall b n acc, 2 <= b <= 16 -> 0 <= n ->
  (forall d, 0 <= d < b -> P (digit_char d)) -> Forall P acc -> Forall P (to_digits fuel b n acc).
Proof.
  induction fuel as [|f IH]; intros b n acc Hb Hn HP Hacc; cbn [to_digits].
  - constructor; [apply HP, Z.mod_pos_bound; lia|assumption].
  - assert (Forall P (digit_char (n mod b) :: acc)) by (constructor; [apply HP, Z.mod_pos_bound; lia|assumption]).
    destruct (n / b =? 0); [assumption|]. apply IH; try assumption. apply Z.div_pos; lia.
Qed.

Lemma digits_forall (P : ascii -> Prop) b n : 2 <= b <= 16 -> 0 <= n ->
  (forall d, 0 <= d < b -> P (digit_char d)) -> Forall P (digits b n).
Proof. intros. unfold digits. apply to_digits_forall; auto. Qed.

Lemma to_digits_nonempty fuel b n acc : to_digits fuel b n acc <> [].
Proof.
  revert n acc. induction fuel as [|f IH]; intros n acc; cbn [to_digits]; [discriminate|].
  destruct (n / b =? 0); [discriminate|apply IH].
Qed.

Lemma digits_nonempty b n : digits b n <> [].
Proof. apply to_digits_nonempty. Qed.

Lemma forallb_Forall {A} (p : A -> bool) l : forallb p l = true <-> Forall (fun x => p x = true) l.
Proof. rewrite forallb_forall, Forall_forall. reflexivity. Qed.

Lemma digits_ident b n : 2 <= b <= 16 -> 0 <= n -> forallb is_ident_char (digits b n) = true.
Proof.
  intros. apply forallb_Forall. apply digits_forall; auto. intros; apply digit_char_ident; lia.
Qed.

Lemma digits_length_pos b n : Nat.eqb (length (digits b n)) 0 = false.
Proof. pose proof (digits_nonempty b n). destruct (digits b n); [congruence|reflexivity]. Qed.

Lemma dec_starts_digit n : 0 <= n -> starts_digit (dec n) = true.
Proof.
  intros Hn. unfold dec, starts_digit.
  pose proof (digits_nonempty 10 n).
  pose proof (digits_forall (fun c => is_digit10 c = true) 10 n ltac:(lia) Hn
                (fun d Hd => digit_char_dec d Hd)) as F.
  destruct (digits 10 n); [congruence|]. inversion F; assumption.
Qed.

(* ------------------------------------------------------------------ leading zeros *)
Lemma parse_zeros b k l : 2 <= b <= 16 -> parse_digits b (repeat "0"%char k ++ l) 0 = parse_digits b l 0.
Proof.
  intros Hb. induction k as [|k IH]; [reflexivity|].
  cbn [repeat app]. change "0"%char with (digit_char 0). rewrite parse_step by lia. apply IH.
Qed.

(* ------------------------------------------------------------------ C20_num_roundtrip *)
Definition num_denotes (i : Z) (f : numflags) : Z := if nf_signed f then sext64 i else i.

Lemma parse_digits_nonneg b : forall l a v, 0 <= b -> 0 <= a -> parse_digits b l a = Some v -> 0 <= v.
Proof.
  induction l as [|c r IH]; intros a v Hb Ha H; cbn [parse_digits] in H.
  - inversion H; subst; assumption.
  - destruct (digit_val c) as [d|] eqn:E; [|discriminate].
    destruct (d <? b); [|discriminate].
    apply (IH (a * b + d)); try assumption.
    unfold digit_val in E.
    repeat match type of E with (if ?c then _ else _) = _ => destruct c eqn:? end; inversion E; subst; lia.
Qed.

Lemma body_parse b k ds : 2 <= b <= 16 -> ds <> [] ->
  Forall (fun c => Ascii.eqb c "x"%char = false) ds ->
  forall v, parse_digits b ds 0 = Some v ->
  forall pre, (pre = [] \/ (b = 16 /\ pre = ["0"%char; "x"%char]) \/ (b = 8 /\ pre = ["0"%char])) ->
  let l2 := strip0x b (pre ++ repeat "0"%char k ++ ds) in
  l2 <> [] /\ parse_digits b l2 0 = Some v.
Proof.
  intros Hb Hne Hx v Hv pre Hpre l2. unfold strip0x in l2.
  assert (Hbody : parse_digits b (repeat "0"%char k ++ ds) 0 = Some v) by (rewrite parse_zeros; assumption).
  assert (Hnb : repeat "0"%char k ++ ds <> []) by (destruct k; [assumption|discriminate]).
  destruct Hpre as [-> | [[-> ->] | [-> ->]]]; subst l2.
  - (* no prefix: the second character is never 'x' *)
    cbn [app].
    destruct (b =? 16) eqn:E16; [|split; assumption].
    destruct (repeat "0"%char k ++ ds) as [|c0 [|cx r]] eqn:El; [congruence|split; [discriminate|assumption]|].
    assert (Hcx : Ascii.eqb cx "x"%char = false).
    { assert (F : Forall (fun c => Ascii.eqb c "x"%char = false) (repeat "0"%char k ++ ds)).
      { apply Forall_app; split; [|assumption]. clear. induction k; constructor; auto. }
      rewrite El in F. inversion F as [|? ? _ F2]; subst. inversion F2; subst; assumption. }
    rewrite Hcx, andb_false_r. split; [discriminate|assumption].
  - cbn. split; assumption.
  - change (["0"%char] ++ repeat "0"%char k ++ ds) with (repeat "0"%char (S k) ++ ds).
    change (8 =? 16) with false. cbv iota. split; [discriminate|]. rewrite parse_zeros; assumption.
Qed.

Ltac fin Hne Hp Hval :=
  match goal with |- match ?L with [] => _ | _ => _ end = _ =>
    let L2 := fresh "L2" in let E := fresh "E" in
    remember L as L2 eqn:E; clear E; destruct L2; [exfalso; apply Hne; reflexivity|]; rewrite Hp, <- Hval; reflexivity end.

Lemma num_roundtrip i base width f :
  0 <= i < two64 -> (base = 2 \/ base = 8 \/ base = 10 \/ base = 16) ->
  parse_num base (fmt_num i base width f) = Some (num_denotes i f).
Proof.
  intros Hi Hbase.
  assert (Hb : 2 <= base <= 16) by lia.
  unfold fmt_num, num_denotes.
  set (neg := nf_signed f && (two63 <=? i)).
  set (mag := if neg then two64 - i else i).
  assert (Hmag : 0 <= mag < two64).
  { subst mag neg. destruct (nf_signed f); cbn [andb]; [|lia].
    destruct (two63 <=? i) eqn:E; [apply Z.leb_le in E; unfold two63, two64 in *; lia|lia]. }
  set (ds := digits base mag).
  set (k := Z.to_nat (if Z.min width 256 <=? Z.of_nat (length ds) then 0 else Z.min width 256 - Z.of_nat (length ds))).
  set (alt := if nf_alternate f then _ else _).
  assert (Hds : parse_digits base ds 0 = Some mag) by (apply digits_roundtrip; assumption).
  assert (Hx : Forall (fun c => Ascii.eqb c "x"%char = false) ds).
  { apply digits_forall; try lia. intros; apply digit_char_not_x; lia. }
  assert (Halt : alt = [] \/ (base = 16 /\ alt = ["0"%char; "x"%char]) \/ (base = 8 /\ alt = ["0"%char])).
  { subst alt. destruct (nf_alternate f); [|auto].
    destruct (base =? 8) eqn:E8; [apply Z.eqb_eq in E8; destruct (i =? 0); auto|].
    destruct (base =? 16) eqn:E16; [apply Z.eqb_eq in E16; auto|auto]. }
  pose proof (body_parse base k ds Hb (digits_nonempty _ _) Hx mag Hds alt Halt) as [Hne Hp].
  cbv zeta in Hne, Hp.
  (* the value denoted *)
  assert (Hval : (if neg then - mag else mag) = (if nf_signed f then sext64 i else i)).
  { subst mag neg. unfold sext64. destruct (nf_signed f); cbn [andb]; [|reflexivity].
    destruct (two63 <=? i) eqn:E.
    - apply Z.leb_le in E. destruct (i <? two63) eqn:E2; [apply Z.ltb_lt in E2; lia|lia].
    - apply Z.leb_gt in E. destruct (i <? two63) eqn:E2; [reflexivity|apply Z.ltb_ge in E2; lia]. }
  (* first character of the unsigned body is a digit or '0', never a sign *)
  assert (Hfirst : forall c r, alt ++ repeat "0"%char k ++ ds = c :: r ->
            Ascii.eqb c "-"%char = false /\ Ascii.eqb c "+"%char = false /\ Ascii.eqb c " "%char = false).
  { intros c r E.
    assert (F : Forall (fun c => is_ident_char c = true) (alt ++ repeat "0"%char k ++ ds)).
    { apply Forall_app; split.
      - destruct Halt as [-> | [[_ ->] | [_ ->]]]; repeat constructor.
      - apply Forall_app; split; [clear; induction k; constructor; auto|].
        apply forallb_Forall, digits_ident; lia. }
    rewrite E in F. inversion F as [|? ? Hc _]; subst.
    repeat split; destruct (Ascii.eqb_spec c "-"%char), (Ascii.eqb_spec c "+"%char), (Ascii.eqb_spec c " "%char);
      subst; try reflexivity; discriminate. }
  unfold parse_num.
  destruct neg eqn:Eneg.
  - (* "-" sign *)
    change (["-"%char] ++ alt ++ repeat "0"%char k ++ ds) with ("-"%char :: (alt ++ repeat "0"%char k ++ ds)).
    cbn [Ascii.eqb Bool.eqb andb]. cbv iota.
    fin Hne Hp Hval.
  - assert (Hs : (if nf_showsign f then ["+"%char] else if nf_showspace f then [" "%char] else []) = [] \/
                 (if nf_showsign f then ["+"%char] else if nf_showspace f then [" "%char] else []) = ["+"%char] \/
                 (if nf_showsign f then ["+"%char] else if nf_showspace f then [" "%char] else []) = [" "%char]).
    { destruct (nf_showsign f), (nf_showspace f); auto. }
    destruct Hs as [-> | [-> | ->]].
    + cbn [app].
      destruct (alt ++ repeat "0"%char k ++ ds) as [|c r] eqn:E.
      { exfalso. destruct alt; [destruct k; [apply (digits_nonempty base mag); exact E|discriminate]|discriminate]. }
      destruct (Hfirst c r eq_refl) as (H1 & H2 & H3). rewrite H1, H2, H3.
      fin Hne Hp Hval.
    + change (["+"%char] ++ alt ++ repeat "0"%char k ++ ds) with ("+"%char :: (alt ++ repeat "0"%char k ++ ds)).
      cbn [Ascii.eqb Bool.eqb andb]. cbv iota.
      fin Hne Hp Hval.
    + change ([" "%char] ++ alt ++ repeat "0"%char k ++ ds) with (" "%char :: (alt ++ repeat "0"%char k ++ ds)).
      cbn [Ascii.eqb Bool.eqb andb]. cbv iota.
      fin Hne Hp Hval.
Qed.

Example num_roundtrip_nonvacuous :
  parse_num 16 (fmt_num (two64 - 255) 16 4 {| nf_signed := true; nf_showsign := true; nf_showspace := false; nf_alternate := true |})
  = Some (-255).
Proof. vm_compute. reflexivity. Qed.

(* ------------------------------------------------------------------ unsigned literals inside operands *)
Lemma parse_ulit_dec n : 0 <= n < two64 -> parse_ulit (digits 10 n) = Some n.
Proof.
  intros Hn. unfold parse_ulit.
  pose proof (digits_roundtrip 10 n ltac:(lia) Hn) as R.
  pose proof (digits_forall (fun c => Ascii.eqb c "x"%char = false) 10 n ltac:(lia) ltac:(lia)
                (fun d Hd => digit_char_not_x d ltac:(lia))) as F.
  destruct (digits 10 n) as [|c0 [|cx [|c2 r]]] eqn:E; try assumption.
  - exfalso; exact (digits_nonempty _ _ E).
  - inversion F as [|? ? _ F2]; subst. inversion F2 as [|? ? Hcx _]; subst.
    rewrite Hcx, andb_false_r. assumption.
Qed.

Lemma parse_ulit_hex n : 0 <= n < two64 -> parse_ulit ("0"%char :: "x"%char :: digits 16 n) = Some n.
Proof.
  intros Hn. unfold parse_ulit.
  pose proof (digits_roundtrip 16 n ltac:(lia) Hn) as R.
  destruct (digits 16 n) as [|c2 r] eqn:E; [exfalso; exact (digits_nonempty _ _ E)|].
  cbn [Ascii.eqb Bool.eqb andb]. cbv iota. assumption.
Qed.

(* ------------------------------------------------------------------ C20_hex_column *)
Lemma parse_hexcol_bytes bs rest t : Forall (fun v => 0 <= v < 256) bs ->
  parse_hexcol rest = Some t -> parse_hexcol (fmt_hex bs ++ rest) = Some (map Some bs ++ t).
Proof.
  intros F Hr. induction F as [|v bs Hv F IH]; [assumption|].
  unfold fmt_hex in *. cbn [flat_map hex_byte app map].
  assert (H1 : 0 <= v / 16 < 16) by (split; [apply Z.div_pos; lia|apply Z.div_lt_upper_bound; lia]).
  assert (H2 : 0 <= v mod 16 < 16) by (apply Z.mod_pos_bound; lia).
  cbn [parse_hexcol]. rewrite (digit_char_not_dot _ H1). cbn [andb].
  rewrite !digit_val_char by assumption.
  destruct (v / 16 <? 16) eqn:E1; [|apply Z.ltb_ge in E1; lia].
  destruct (v mod 16 <? 16) eqn:E2; [|apply Z.ltb_ge in E2; lia].
  cbn [andb]. rewrite IH. repeat f_equal. pose proof (Z.div_mod v 16 ltac:(lia)). lia.
Qed.

Lemma parse_hexcol_dots k rest t :
  parse_hexcol rest = Some t -> parse_hexcol (repeat "."%char (2 * k) ++ rest) = Some (repeat None k ++ t).
Proof.
  intros Hr. induction k as [|k IH]; [assumption|].
  replace (2 * S k)%nat with (S (S (2 * k))) by lia. cbn [repeat app parse_hexcol].
  cbn [Ascii.eqb Bool.eqb andb]. cbv iota. rewrite IH. reflexivity.
Qed.

Lemma Forall_firstn' {A} (P : A -> Prop) n : forall l, Forall P l -> Forall P (firstn n l).
Proof. induction n; intros l F; [constructor|]. destruct F; cbn [firstn]; constructor; auto. Qed.
Lemma Forall_skipn' {A} (P : A -> Prop) n : forall l, Forall P l -> Forall P (skipn n l).
Proof. induction n; intros l F; [assumption|]. destruct F; cbn [skipn]; [constructor|auto]. Qed.

Lemma hex_column bytes rel imm : Forall (fun v => 0 <= v < 256) bytes ->
  parse_hexcol (fmt_hexcol bytes rel imm) = Some (hexcol_spec bytes rel imm).
Proof.
  intros F. unfold fmt_hexcol, hexcol_spec.
  assert (F1 : Forall (fun v => 0 <= v < 256) (firstn (length bytes - rel - imm) bytes)).
  { apply Forall_firstn'; assumption. }
  assert (F2 : Forall (fun v => 0 <= v < 256) (skipn (length bytes - imm) bytes)).
  { apply Forall_skipn'; assumption. }
  apply parse_hexcol_bytes; [assumption|].
  apply parse_hexcol_dots.
  rewrite <- (app_nil_r (fmt_hex _)), <- (app_nil_r (map Some (skipn _ _))).
  apply parse_hexcol_bytes; [assumption|reflexivity].
Qed.

(* the column has one entry per emitted byte when the sizes are consistent *)
Lemma hexcol_spec_length bytes rel imm : (rel + imm <= length bytes)%nat ->
  length (hexcol_spec bytes rel imm) = length bytes.
Proof.
  intros H. unfold hexcol_spec. rewrite !app_length, !map_length, repeat_length, firstn_length, skipn_length. lia.
Qed.

(* ------------------------------------------------------------------ lexer *)
Lemma lex_ident_run x : forall cur rest, forallb is_ident_char x = true ->
  lex_aux cur (x ++ rest) = lex_aux (rev x ++ cur) rest.
Proof.
  induction x as [|c x IH]; intros cur rest H; [reflexivity|].
  cbn [forallb] in H. apply andb_prop in H as [Hc Hx].
  cbn [app lex_aux rev]. rewrite Hc, IH by assumption. rewrite <- app_assoc. reflexivity.
Qed.

Definition starts_with_id (ts : list tok) : bool := match ts with TId _ :: _ => true | _ => false end.

Lemma flush_rev x r : x <> [] -> flush (rev x) r = TId x :: r.
Proof.
  intros Hx. unfold flush. destruct (rev x) eqn:E.
  - apply (f_equal (@rev _)) in E. rewrite rev_involutive in E. cbn in E. congruence.
  - rewrite <- E, rev_involutive. reflexivity.
Qed.

Lemma lex_render_aux ts : forallb tok_ok ts = true -> no_adjacent_ids ts = true ->
  lex_aux [] (render ts) = ts /\
  (forall x, x <> [] -> starts_with_id ts = false -> lex_aux (rev x) (render ts) = TId x :: ts).
Proof.
  induction ts as [|t ts IH]; intros Hok Hadj.
  - split; [reflexivity|]. intros x Hx _. unfold render. cbn [flat_map lex_aux]. apply flush_rev; assumption.
  - cbn [forallb] in Hok. apply andb_prop in Hok as [Ht Hok].
    assert (Hadj' : no_adjacent_ids ts = true).
    { destruct t; cbn [no_adjacent_ids] in Hadj; [destruct ts as [|[|] ?]; try assumption; discriminate|assumption]. }
    destruct (IH Hok Hadj') as [IH1 IH2].
    destruct t as [x|c].
    + cbn [tok_ok] in Ht. apply andb_prop in Ht as [Hlen Hid].
      assert (Hx : x <> []) by (destruct x; [discriminate|discriminate]).
      assert (Hs : starts_with_id ts = false).
      { destruct ts as [|[|] ?]; try reflexivity. cbn [no_adjacent_ids] in Hadj. discriminate. }
      split; [|intros ? ? Hc; discriminate].
      unfold render. cbn [flat_map render_tok]. fold (render ts).
      rewrite lex_ident_run by assumption. rewrite app_nil_r. apply IH2; assumption.
    + cbn [tok_ok] in Ht. apply negb_true_iff in Ht.
      unfold render. cbn [flat_map render_tok app]. fold (render ts).
      split.
      * cbn [lex_aux]. rewrite Ht. cbn [flush]. rewrite IH1. reflexivity.
      * intros x Hx _. cbn [lex_aux]. rewrite Ht, IH1. apply flush_rev; assumption.
Qed.

Lemma lex_render ts : forallb tok_ok ts = true -> no_adjacent_ids ts = true -> lex (render ts) = ts.
Proof. intros. apply lex_render_aux; assumption. Qed.

(* composition helpers for well-formedness *)
Definition ends_with_punct (ts : list tok) : bool :=
  match last ts (TP " "%char) with TId _ => false | _ => true end.

Lemma no_adj_app a b : no_adjacent_ids a = true -> no_adjacent_ids b = true ->
  (ends_with_punct a = true \/ starts_with_id b = false) -> no_adjacent_ids (a ++ b) = true.
Proof.
  revert b. induction a as [|t a IH]; intros b Ha Hb Hj; [assumption|].
  destruct a as [|t' a'].
  - cbn [app]. destruct t as [x|c]; [|cbn [no_adjacent_ids]; assumption].
    destruct Hj as [Hj|Hj]; [cbn in Hj; discriminate|].
    destruct b as [|[|] ?]; try reflexivity; try discriminate. cbn [no_adjacent_ids]. exact Hb.
  - assert (Ha' : no_adjacent_ids (t' :: a') = true).
    { destruct t; cbn [no_adjacent_ids] in Ha; [destruct t'; [discriminate|assumption]|assumption]. }
    assert (Hj' : ends_with_punct (t' :: a') = true \/ starts_with_id b = false).
    { destruct Hj as [Hj|Hj]; [left|right; assumption].
      unfold ends_with_punct in *. exact Hj. }
    specialize (IH b Ha' Hb Hj').
    change ((t :: t' :: a') ++ b) with (t :: (t' :: a') ++ b).
    destruct t as [x|c].
    + cbn [no_adjacent_ids] in Ha. destruct t'; [discriminate|].
      cbn [app no_adjacent_ids] in *. exact IH.
    + cbn [no_adjacent_ids]. destruct ((t' :: a') ++ b); exact IH.
Qed.

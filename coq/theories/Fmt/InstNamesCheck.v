(* C20 — executable checks over the instruction-name lists generated from the InstId enums (coq/gen/InstNames.v):
   every x86 mnemonic satisfies the premise mnem_ok of the line theorem and the mnemonic determines the instruction id;
   every AArch64 mnemonic satisfies mnem64_ok. *)
From Coq Require Import ZArith Bool Ascii String Lia.
From Coq Require Import List.
Import ListNotations.
From Verif Require Import Fmt.TextModel Fmt.TextProofs Fmt.X86FmtModel Fmt.X86FmtProofs Fmt.X86InstModel Fmt.X86InstProofs
  Fmt.A64FmtModel Fmt.A64FmtProofs Fmt.A64InstProofs.
Local Open Scope Z_scope.

Definition mnem_okb (m : text) : bool :=
  tok_ok (TId m) && forallb (fun k => negb (text_eqb m (s k))) kwlist.

Lemma mnem_okb_ok m : mnem_okb m = true -> mnem_ok m.
Proof. unfold mnem_okb, mnem_ok. intros H. apply andb_prop in H. exact H. Qed.

Definition mnem64_okb (m : text) : bool :=
  negb (Nat.eqb (length m) 0) && forallb is_ident_char m && forallb (fun c => negb (Ascii.eqb c "."%char)) m.

Lemma mnem64_okb_ok m : mnem64_okb m = true -> mnem64_ok m.
Proof.
  unfold mnem64_okb, mnem64_ok. intros H. apply andb_prop in H as [H H3]. apply andb_prop in H as [H1 H2].
  split; [destruct m; [discriminate|discriminate]|]. split; [exact H2|].
  apply forallb_Forall in H3. eapply Forall_impl; [|exact H3]. intros a Ha. apply negb_true_iff in Ha. exact Ha.
Qed.

Fixpoint nodupb (l : list text) : bool :=
  match l with
  | [] => true
  | x :: r => negb (existsb (text_eqb x) r) && nodupb r
  end.

Lemma text_eqb_refl' x : text_eqb x x = true.
Proof. induction x as [|c x IH]; [reflexivity|]. cbn [text_eqb]. rewrite Ascii.eqb_refl, IH. reflexivity. Qed.

Lemma nodupb_NoDup l : nodupb l = true -> NoDup l.
Proof.
  induction l as [|x r IH]; intros H; [constructor|]. cbn [nodupb] in H. apply andb_prop in H as [H1 H2].
  constructor; [|apply IH; exact H2]. intros Hin. apply negb_true_iff in H1.
  assert (E : existsb (text_eqb x) r = true) by (apply existsb_exists; exists x; split; [exact Hin|apply text_eqb_refl']).
  congruence.
Qed.

Definition names_check (x86 a64 : list string) : bool :=
  forallb (fun n => mnem_okb (s n)) x86 && nodupb (map s x86) && forallb (fun n => mnem64_okb (s n)) a64.

Lemma names_check_sound x86 a64 : names_check x86 a64 = true ->
  Forall (fun n => mnem_ok (s n)) x86 /\ NoDup (map s x86) /\ Forall (fun n => mnem64_ok (s n)) a64.
Proof.
  unfold names_check. intros H. apply andb_prop in H as [H H3]. apply andb_prop in H as [H1 H2].
  split; [|split].
  - apply forallb_Forall in H1. eapply Forall_impl; [|exact H1]. intros a Ha. apply mnem_okb_ok; exact Ha.
  - apply nodupb_NoDup; exact H2.
  - apply forallb_Forall in H3. eapply Forall_impl; [|exact H3]. intros a Ha. apply mnem64_okb_ok; exact Ha.
Qed.

(* C20 — transliteration of InstNameUtils::decode (core/instdb.cpp) over AsmJit's raw instruction-name tables
   (_inst_name_index_table / _inst_name_string_table, dumped from the working tree into coq/gen/InstNameTables.v) and the executable
   comparison with the names of the InstId enums; alias formatting (kShowAliases) against the enum's alias declarations. *)
From Coq Require Import ZArith Bool Ascii String Lia.
From Coq Require Import List.
Import ListNotations.
From Verif Require Import Fmt.TextModel Fmt.X86FmtModel Fmt.X86RegTableCheck.
Local Open Scope Z_scope.

Definition decode5 (c : Z) : ascii := chr (if c <=? 26 then 96 + c else 21 + c).

Fixpoint small_chars (fuel : nat) (v : Z) : text :=
  match fuel with
  | O => []
  | S f => let c := v mod 32 in if c =? 0 then [] else decode5 c :: small_chars f (v / 32)
  end.

Definition slice (tab : list Z) (base size : Z) : text := map chr (firstn (Z.to_nat size) (skipn (Z.to_nat base) tab)).

Definition decode_name (strtab : list Z) (aliases : bool) (v : Z) : text :=
  if 2147483648 <=? v then small_chars 6 v
  else
    let pb := v mod 4096 in
    let ps := (v / 4096) mod 16 in
    let sb := (v / 65536) mod 4096 in
    let ss := (v / 268435456) mod 8 in
    let '(pb', ps') := if aliases && (sb =? 4095) then (pb + ps + 1, nth (Z.to_nat (pb + ps)) strtab 0) else (pb, ps) in
    slice strtab pb' ps' ++ slice strtab sb ss.

(* every id (1-based position in the enum's name list) decodes to the enum name *)
Fixpoint names_agree (strtab : list Z) (index : list Z) (names : list string) : bool :=
  match index, names with
  | [], [] => true
  | v :: ir, n :: nr => text_eqb (decode_name strtab false v) (s n) && names_agree strtab ir nr
  | _, _ => false
  end.

(* ---- alias formatting: "stem.s0|s1|s2" or "n0|n1" expands to the instruction name followed by its aliases *)
Fixpoint split_bar (cur : text) (l : text) : list text :=
  match l with
  | [] => [rev cur]
  | c :: r => if Ascii.eqb c "|"%char then rev cur :: split_bar [] r else split_bar (c :: cur) r
  end.

Definition alias_expand (t : text) : list text :=
  match split_at "."%char t with
  | Some (stem, rest) => map (fun x => stem ++ x) (split_bar [] rest)
  | None => split_bar [] t
  end.

Fixpoint subset (a b : list text) : bool :=
  match a with [] => true | x :: r => existsb (text_eqb x) b && subset r b end.

(* with kShowAliases an instruction prints either its plain name or a list that is exactly: name, then the enum's aliases *)
Definition alias_ok (strtab : list Z) (aliases : list (string * list string)) (v : Z) (name : string) : bool :=
  let plain := decode_name strtab false v in
  let shown := decode_name strtab true v in
  if text_eqb shown plain then true
  else match alias_expand shown with
       | n0 :: rest =>
           let decl := match find (fun p => text_eqb (s (fst p)) (s name)) aliases with Some p => map s (snd p) | None => [] end in
           text_eqb n0 (s name) && subset rest decl && subset decl rest
       | [] => false
       end.

Fixpoint aliases_agree (strtab : list Z) (aliases : list (string * list string)) (index : list Z) (names : list string) : bool :=
  match index, names with
  | [], [] => true
  | v :: ir, n :: nr => alias_ok strtab aliases v n && aliases_agree strtab aliases ir nr
  | _, _ => false
  end.

Lemma names_agree_sound strtab : forall index names, names_agree strtab index names = true ->
  length index = length names /\
  forall k v n, nth_error index k = Some v -> nth_error names k = Some n -> decode_name strtab false v = s n.
Proof.
  induction index as [|v ir IH]; intros [|n nr] H; try discriminate.
  - split; [reflexivity|]. intros [|k] ? ? E; discriminate E.
  - cbn [names_agree] in H. apply andb_prop in H as [H1 H2]. destruct (IH nr H2) as [L A]. split; [cbn; congruence|].
    intros [|k] v' n' E1 E2; cbn [nth_error] in E1, E2.
    + inversion E1; inversion E2; subst. apply text_eqb_true; exact H1.
    + eapply A; eassumption.
Qed.

Lemma aliases_agree_sound strtab aliases : forall index names, aliases_agree strtab aliases index names = true ->
  forall k v n, nth_error index k = Some v -> nth_error names k = Some n -> alias_ok strtab aliases v n = true.
Proof.
  induction index as [|v ir IH]; intros [|n nr] H; try discriminate.
  - intros [|k] ? ? E; discriminate E.
  - cbn [aliases_agree] in H. apply andb_prop in H as [H1 H2].
    intros [|k] v' n' E1 E2; cbn [nth_error] in E1, E2.
    + inversion E1; inversion E2; subst. exact H1.
    + eapply IH; eassumption.
Qed.

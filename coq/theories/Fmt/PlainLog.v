(* C20 — logs WITHOUT kMachineCode (the default FormatFlags of a Logger): a line is the instruction text, optionally padded and followed by "; comment".
   A whole such log splits back into its lines, every line into text and optional comment, and the proven line readers recover the instruction list. *)
From Coq Require Import ZArith Bool Ascii String Lia.
From Coq Require Import List.
Import ListNotations.
From Verif Require Import Fmt.TextModel Fmt.TextProofs Fmt.X86FmtModel Fmt.X86FmtProofs Fmt.X86InstModel Fmt.X86InstProofs
  Fmt.A64FmtModel Fmt.A64FmtProofs Fmt.A64InstProofs Fmt.LogLine Fmt.FuncLine Fmt.Transcript Fmt.LogInsts.
Local Open Scope Z_scope.

Definition parse_plain_line (l : text) : option (text * option text) :=
  match rev l with
  | c :: body_rev =>
    if Ascii.eqb c nl then
      let body := rev body_rev in
      match split_at ";"%char body with
      | Some (lft, s0 :: cm) => if Ascii.eqb s0 spc then Some (rstrip lft, Some cm) else None
      | Some (_, []) => None
      | None => Some (body, None)
      end
    else None
  | [] => None
  end.

Definition opt_comment (c : text) : option text := match c with [] => None | _ => Some c end.

Theorem plain_line_roundtrip t pad1 pad2 comment :
  Forall (fun c => Ascii.eqb c ";"%char = false) t -> ends_nonspace t ->
  parse_plain_line (finish_line t pad1 pad2 None comment) = Some (t, opt_comment comment).
Proof.
  intros Hs He. unfold finish_line. cbn [orb]. change (ascii_of_nat 10) with nl.
  destruct comment as [|c0 cr].
  - cbn [length Nat.eqb negb opt_comment]. unfold parse_plain_line. rewrite rev_app_distr. cbn [rev app]. rewrite Ascii.eqb_refl, rev_involutive.
    rewrite split_at_none' by exact Hs. reflexivity.
  - cbn [length Nat.eqb negb opt_comment]. unfold parse_plain_line, pad_end. rewrite rev_app_distr. cbn [rev app]. rewrite Ascii.eqb_refl, rev_involutive.
    change (s "; " ++ c0 :: cr) with (";"%char :: spc :: c0 :: cr).
    rewrite split_at_app'.
    + change (Ascii.eqb spc spc) with true. cbv iota. change " "%char with spc. rewrite rstrip_pad by exact He. reflexivity.
    + apply Forall_app; split; [exact Hs|]. clear. induction (pad1 - length t)%nat; constructor; [reflexivity|assumption].
Qed.

(* ------------------------------------------------------------------ whole logs *)
Record plain_emission := { q_text : text; q_comment : text }.
Definition plain_ok (e : plain_emission) : Prop :=
  Forall (fun c => Ascii.eqb c ";"%char = false) (q_text e) /\ ends_nonspace (q_text e) /\ Forall nonl (q_text e) /\ Forall nonl (q_comment e).
Definition plain_log_of (pad1 pad2 : nat) (es : list plain_emission) : text :=
  concat (map (fun e => finish_line (q_text e) pad1 pad2 None (q_comment e)) es).
Definition parse_plain_log (x : text) : option (list (text * option text)) := traverse parse_plain_line (lines_of x).

Lemma plain_line_body e pad1 pad2 : plain_ok e -> exists body, finish_line (q_text e) pad1 pad2 None (q_comment e) = body ++ [nl] /\ Forall nonl body.
Proof.
  intros (_ & _ & Ht & Hc). unfold finish_line. cbn [orb]. change (ascii_of_nat 10) with nl.
  destruct (negb (Nat.eqb (length (q_comment e)) 0)).
  - eexists. split; [reflexivity|]. unfold pad_end. apply Forall_app; split; [apply Forall_app; split; [exact Ht|apply repeat_nonl]|].
    apply Forall_app; split; [repeat constructor|exact Hc].
  - eexists. split; [reflexivity|exact Ht].
Qed.

Theorem plain_log_roundtrip pad1 pad2 es : Forall plain_ok es ->
  parse_plain_log (plain_log_of pad1 pad2 es) = Some (map (fun e => (q_text e, opt_comment (q_comment e))) es).
Proof.
  intros F. unfold parse_plain_log.
  assert (L : lines_of (plain_log_of pad1 pad2 es) = map (fun e => finish_line (q_text e) pad1 pad2 None (q_comment e)) es).
  { induction F as [|e es He F IH]; [reflexivity|]. unfold plain_log_of in *. cbn [map concat].
    destruct (plain_line_body e pad1 pad2 He) as (body & E & B). rewrite E, <- app_assoc. cbn [app]. rewrite lines_of_app by exact B. rewrite IH. reflexivity. }
  rewrite L. clear L. induction F as [|e es (Hs & He & _) F IH]; [reflexivity|]. cbn [map traverse].
  rewrite (plain_line_roundtrip (q_text e) pad1 pad2 (q_comment e) Hs He), IH. reflexivity.
Qed.

(* ------------------------------------------------------------------ the instructions of a default-flags log *)
Section Generic.
  Variables A B : Type.
  Variable txt : A -> text.
  Variable rd : text -> option B.
  Variable can : A -> B.
  Variable ok : A -> Prop.
  Hypothesis txt_ok : forall a, ok a -> Forall (fun c => Ascii.eqb c ";"%char = false) (txt a) /\ ends_nonspace (txt a) /\ Forall nonl (txt a).
  Hypothesis rd_txt : forall a, ok a -> rd (txt a) = Some (can a).

  Lemma traverse_rd es : Forall (fun e : A * text => ok (fst e) /\ Forall nonl (snd e)) es ->
    traverse (fun l : text * option text => rd (fst l)) (map (fun e => (txt (fst e), opt_comment (snd e))) es) = Some (map (fun e => can (fst e)) es).
  Proof.
    induction 1 as [|e es (Ho & _) F IH]; [reflexivity|]. cbn [map traverse]. cbn [fst]. rewrite (rd_txt _ Ho), IH. reflexivity.
  Qed.

  Theorem plain_log_insts pad1 pad2 (es : list (A * text)) : Forall (fun e => ok (fst e) /\ Forall nonl (snd e)) es ->
    match parse_plain_log (plain_log_of pad1 pad2 (map (fun e => {| q_text := txt (fst e); q_comment := snd e |}) es)) with
    | Some ls => traverse (fun l => rd (fst l)) ls = Some (map (fun e => can (fst e)) es) /\ map (fun l => snd l) ls = map (fun e => opt_comment (snd e)) es
    | None => False
    end.
  Proof.
    intros F.
    assert (FE : Forall plain_ok (map (fun e => {| q_text := txt (fst e); q_comment := snd e |}) es)).
    { induction F as [|e es (Ho & Hc) F IH]; constructor; [|exact IH]. destruct (txt_ok _ Ho) as (T1 & T2 & T3). unfold plain_ok. cbn. repeat split; assumption. }
    rewrite (plain_log_roundtrip pad1 pad2 _ FE). rewrite !map_map. cbn [q_text q_comment]. split; [exact (traverse_rd es F)|reflexivity].
  Qed.
End Generic.

Theorem x86_plain_log_insts f pad1 pad2 (es : list (x86inst * text)) : Forall (fun e => inst_ok (fst e) /\ Forall nonl (snd e)) es ->
  match parse_plain_log (plain_log_of pad1 pad2 (map (fun e => {| q_text := fmt_inst f (fst e); q_comment := snd e |}) es)) with
  | Some ls => traverse (fun l => parse_inst (fst l)) ls = Some (map (fun e => canon_inst (fst e)) es) /\
               map (fun l => snd l) ls = map (fun e => opt_comment (snd e)) es
  | None => False
  end.
Proof. apply (plain_log_insts x86inst x86inst (fmt_inst f) parse_inst canon_inst inst_ok (x86_text_ok f) (inst_roundtrip f)). Qed.

Theorem a64_plain_log_insts f pad1 pad2 (es : list (a64inst * text)) : Forall (fun e => a64_inst_ok (fst e) /\ Forall nonl (snd e)) es ->
  match parse_plain_log (plain_log_of pad1 pad2 (map (fun e => {| q_text := a64_fmt_inst true f (fst e); q_comment := snd e |}) es)) with
  | Some ls => traverse (fun l => parse_a64_inst (fst l)) ls = Some (map (fun e => a64_canon_inst (fst e)) es) /\
               map (fun l => snd l) ls = map (fun e => opt_comment (snd e)) es
  | None => False
  end.
Proof. apply (plain_log_insts a64inst a64inst (a64_fmt_inst true f) parse_a64_inst a64_canon_inst a64_inst_ok (a64_text_ok f) (a64_inst_roundtrip f)). Qed.

(* non-vacuity *)
Example ex_plain_log_text :
  plain_log_of 12 10 [{| q_text := s "nop"; q_comment := [] |}; {| q_text := s "add eax, 1"; q_comment := s "inc" |}] = s "nop" ++ [nl] ++ s "add eax, 1  ; inc" ++ [nl].
Proof. vm_compute. reflexivity. Qed.
Example ex_plain_log_read : parse_plain_log (s "nop" ++ [nl] ++ s "add eax, 1  ; inc" ++ [nl]) = Some [(s "nop", None); (s "add eax, 1", Some (s "inc"))].
Proof. vm_compute. reflexivity. Qed.

(* C20 — FuncNode of a Compiler: "L1: int32@eax Func(int32@ecx a0, int32x4@[rdx] <none>, float64@[32] %1)".
   A function value prints its type name and, when assigned, "@" + the register or "[stack offset]"; an INDIRECT value (Win64 passes
   vectors by reference) wraps that in one more pair of brackets.  Generic in the register printer, so that it serves the x86 and the
   AArch64 Compiler; the reader (parse_fvalue) recovers type, indirection and location. *)
From Coq Require Import ZArith Bool Ascii String Lia.
From Coq Require Import List.
Import ListNotations.
From Verif Require Import Fmt.TextModel Fmt.TextProofs Fmt.X86FmtModel Fmt.X86FmtProofs Fmt.A64FmtModel Fmt.A64FmtProofs Fmt.LogLine.
Local Open Scope Z_scope.

Inductive fassign (R : Type) := FAReg (r : R) | FAStack (off : Z).
Arguments FAReg {R} r.
Arguments FAStack {R} off.

Definition lbr : ascii := "["%char.
Definition rbr : ascii := "]"%char.

Definition fmt_fbody {R} (rp : R -> text) (a : fassign R) : text :=
  match a with FAReg r => rp r | FAStack off => lbr :: fmt_int off ++ [rbr] end.

Definition fvalue (R : Type) : Type := text * option (bool * fassign R).

Definition fmt_fvalue {R} (rp : R -> text) (v : fvalue R) : text :=
  fst v ++ match snd v with
           | None => []
           | Some (ind, a) => at_c :: (if ind then [lbr] else []) ++ fmt_fbody rp a ++ (if ind then [rbr] else [])
           end.

Fixpoint join_comma (l : list text) : text :=
  match l with [] => [] | [x] => x | x :: r => x ++ s ", " ++ join_comma r end.

Definition fmt_func_node {R} (rp : R -> text) (lbl : Z) (rets : list (fvalue R)) (args : list (fvalue R * option text)) : text :=
  label_text lbl ++ s ": "
  ++ match rets with
     | [] => s "void"
     | [v] => fmt_fvalue rp v
     | _ => lbr :: join_comma (map (fmt_fvalue rp) rets) ++ [rbr]
     end
  ++ s " Func("
  ++ match args with
     | [] => s "void"
     | _ => join_comma (map (fun p => fmt_fvalue rp (fst p) ++ " "%char :: match snd p with Some n => n | None => s "<none>" end) args)
     end
  ++ s ")".

(* ------------------------------------------------------------------ reader *)
Definition strip_brackets (x : text) : option text :=
  match x with
  | c :: r => if Ascii.eqb c lbr && Ascii.eqb (last r "000"%char) rbr && negb (Nat.eqb (length r) 0) then Some (removelast r) else None
  | [] => None
  end.

Definition parse_fbody {R} (pr : text -> option R) (x : text) : option (fassign R) :=
  if Ascii.eqb (first_char x) lbr then
    match strip_brackets x with
    | Some inner => match parse_num 10 inner with Some v => Some (FAStack v) | None => None end
    | None => None
    end
  else match pr x with Some r => Some (FAReg r) | None => None end.

Definition parse_fassign {R} (pr : text -> option R) (x : text) : option (bool * fassign R) :=
  match x with
  | c :: r =>
    if Ascii.eqb c lbr && (Ascii.eqb (first_char r) lbr || is_lower (first_char r))
    then match strip_brackets x with
         | Some inner => match parse_fbody pr inner with Some a => Some (true, a) | None => None end
         | None => None
         end
    else match parse_fbody pr x with Some a => Some (false, a) | None => None end
  | [] => None
  end.

Definition parse_fvalue {R} (pr : text -> option R) (x : text) : option (fvalue R) :=
  match split_at at_c x with
  | None => Some (x, None)
  | Some (ty, b) => match parse_fassign pr b with Some a => Some (ty, Some a) | None => None end
  end.

(* ------------------------------------------------------------------ proofs *)
Lemma strip_brackets_ok m : strip_brackets (lbr :: m ++ [rbr]) = Some m.
Proof.
  unfold strip_brackets. rewrite last_last, removelast_last, app_length. cbn [length].
  replace (length m + 1)%nat with (S (length m)) by lia. reflexivity.
Qed.

Lemma fmt_int_first off : - two63 <= off < two63 ->
  exists c r, fmt_int off = c :: r /\ Ascii.eqb c lbr = false /\ is_lower c = false.
Proof.
  intros H. unfold fmt_int, fmt_num. cbn [nf_signed nf_showsign nf_showspace nf_alternate nf_sgn andb].
  destruct (two63 <=? off mod two64).
  - exists "-"%char. eexists. split; [reflexivity|]. split; reflexivity.
  - set (ds := digits 10 (off mod two64)).
    assert (P : repeat "0"%char (Z.to_nat (if Z.min 0 256 <=? Z.of_nat (length ds) then 0 else Z.min 0 256 - Z.of_nat (length ds))) = []).
    { change (Z.min 0 256) with 0. destruct (Z.leb_spec 0 (Z.of_nat (length ds))); [reflexivity|lia]. }
    rewrite P. cbn [app].
    assert (Hm : 0 <= off mod two64) by (apply Z.mod_pos_bound; unfold two64; lia).
    destruct (dec_cons _ Hm) as (d & r & E & D). unfold dec in E. subst ds. rewrite E.
    exists d, r. split; [reflexivity|]. split.
    + apply digit10_not; [assumption|reflexivity].
    + destruct (is_lower d) eqn:L; [|reflexivity]. apply lower_not_digit in L. congruence.
Qed.

Lemma fmt_int_parse off : - two63 <= off < two63 -> parse_num 10 (fmt_int off) = Some off.
Proof.
  intros H. unfold fmt_int. rewrite num_roundtrip.
  - unfold num_denotes. cbn [nf_signed nf_sgn]. rewrite sext64_mod by assumption. reflexivity.
  - apply Z.mod_pos_bound. unfold two64. lia.
  - right. right. left. reflexivity.
Qed.

Lemma lower_not_lbr c : is_lower c = true -> Ascii.eqb c lbr = false.
Proof. intros H. destruct (Ascii.eqb_spec c lbr); [subst; discriminate|reflexivity]. Qed.

Section Generic.
  Variable R : Type.
  Variable rp : R -> text.
  Variable pr : text -> option R.
  Variable ok : R -> Prop.
  Hypothesis pr_rp : forall r, ok r -> pr (rp r) = Some r.
  Hypothesis rp_lower : forall r, ok r -> is_lower (first_char (rp r)) = true.

  Definition fa_ok (a : fassign R) : Prop := match a with FAReg r => ok r | FAStack off => - two63 <= off < two63 end.

  Lemma fbody_rt a : fa_ok a -> parse_fbody pr (fmt_fbody rp a) = Some a.
  Proof.
    destruct a as [r|off]; intros H; cbn [fa_ok] in H; unfold parse_fbody, fmt_fbody.
    - rewrite (lower_not_lbr _ (rp_lower r H)), (pr_rp r H). reflexivity.
    - cbn [first_char]. change (Ascii.eqb lbr lbr) with true. cbv iota. rewrite strip_brackets_ok, fmt_int_parse by assumption. reflexivity.
  Qed.

  Lemma fbody_first a : fa_ok a ->
    exists c r, fmt_fbody rp a = c :: r /\ ((Ascii.eqb c lbr || is_lower c) = true).
  Proof.
    destruct a as [r|off]; intros H; cbn [fa_ok] in H; unfold fmt_fbody.
    - pose proof (rp_lower r H) as L. destruct (rp r) as [|c t]; [discriminate L|]. exists c, t. split; [reflexivity|].
      cbn [first_char] in L. rewrite L. apply orb_true_r.
    - exists lbr. eexists. split; reflexivity.
  Qed.

  Lemma fassign_rt (ind : bool) a : fa_ok a ->
    parse_fassign pr ((if ind then [lbr] else []) ++ fmt_fbody rp a ++ (if ind then [rbr] else [])) = Some (ind, a).
  Proof.
    intros H. destruct ind.
    - cbn [app]. destruct (fbody_first a H) as (c & r & E & F).
      unfold parse_fassign. change (Ascii.eqb lbr lbr) with true.
      assert (FC : first_char (fmt_fbody rp a ++ [rbr]) = c) by (rewrite E; reflexivity).
      rewrite FC, F. cbn [andb]. rewrite strip_brackets_ok, fbody_rt by assumption. reflexivity.
    - cbn [app]. rewrite app_nil_r. pose proof (fbody_rt a H) as B.
      destruct a as [r|off]; cbn [fa_ok] in H.
      + cbn [fmt_fbody] in *. pose proof (rp_lower r H) as L. destruct (rp r) as [|c t] eqn:E; [discriminate L|].
        cbn [first_char] in L. unfold parse_fassign. rewrite (lower_not_lbr _ L). cbn [andb]. rewrite B. reflexivity.
      + cbn [fmt_fbody] in *. destruct (fmt_int_first off H) as (c & r & E & N1 & N2).
        unfold parse_fassign. change (Ascii.eqb lbr lbr) with true.
        assert (FC : first_char (fmt_int off ++ [rbr]) = c) by (rewrite E; reflexivity).
        rewrite FC, N1, N2. cbn [andb orb]. rewrite B. reflexivity.
  Qed.

  Definition fvalue_ok (v : fvalue R) : Prop :=
    Forall (fun c => Ascii.eqb c at_c = false) (fst v) /\ match snd v with Some (_, a) => fa_ok a | None => True end.

  Theorem fvalue_roundtrip v : fvalue_ok v -> parse_fvalue pr (fmt_fvalue rp v) = Some v.
  Proof.
    destruct v as [ty [[ind a]|]]; intros [T A]; cbn [fst snd] in *; unfold parse_fvalue, fmt_fvalue; cbn [fst snd].
    - rewrite split_at_app' by exact T. rewrite fassign_rt by exact A. reflexivity.
    - rewrite app_nil_r, split_at_none' by exact T. reflexivity.
  Qed.
End Generic.

(* ------------------------------------------------------------------ the two Compilers *)
Definition x86_rp (r : x86rt * Z) : text := fmt_reg (fst r) (snd r).
Definition a64_rp (r : a64rt * Z) : text := a64_reg_text (fst r) (snd r) 0.
Definition a64_pr (x : text) : option (a64rt * Z) :=
  match parse_a64_reg x with Some (t, i, et) => if et =? 0 then Some (t, i) else None | None => None end.

Theorem x86_fvalue_roundtrip v : fvalue_ok _ (fun r => reg_ok (fst r) (snd r)) v -> parse_fvalue parse_reg_name (fmt_fvalue x86_rp v) = Some v.
Proof.
  apply fvalue_roundtrip.
  - intros [t i] H. cbn [fst snd] in H. unfold x86_rp. cbn [fst snd]. apply (reg_facts t i H).
  - intros [t i] H. cbn [fst snd] in H. unfold x86_rp. cbn [fst snd]. apply (reg_facts t i H).
Qed.

Theorem a64_fvalue_roundtrip v : fvalue_ok _ (fun r => a64_reg_ok (fst r) (snd r) 0) v -> parse_fvalue a64_pr (fmt_fvalue a64_rp v) = Some v.
Proof.
  apply fvalue_roundtrip.
  - intros [t i] H. cbn [fst snd] in H. unfold a64_rp, a64_pr. cbn [fst snd]. rewrite (a64_reg_roundtrip t i 0 H). reflexivity.
  - intros [t i] H. cbn [fst snd] in H. unfold a64_rp. cbn [fst snd]. pose proof H as (Ht & Hid & _). unfold id_ok in Hid.
    apply a64_reg_first_lower; [assumption|lia].
Qed.

(* C20 — exhaustive AArch32 register-list round trip, masks 49152 .. 65535 *)
From Coq Require Import ZArith Bool List.
From Verif Require Import Fmt.RegList.
Local Open Scope Z_scope.
Lemma reglist_roundtrip_q3 : forallb (fun m => chk (parse_reglist (fmt_reglist a32_reg m)) m) (zrange 49152 16384) = true.
Proof. vm_compute. reflexivity. Qed.

(* C20 — exhaustive AArch32 register-list round trip, masks 0 .. 16383 *)
From Coq Require Import ZArith Bool List.
From Verif Require Import Fmt.RegList.
Local Open Scope Z_scope.
Lemma reglist_roundtrip_q0 : forallb (fun m => chk (parse_reglist (fmt_reglist a32_reg m)) m) (zrange 0 16384) = true.
Proof. vm_compute. reflexivity. Qed.

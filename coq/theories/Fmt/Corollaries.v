(* C20 — "the text determines the instruction": injectivity corollaries of the round-trip theorems *)
From Coq Require Import ZArith Bool Ascii String.
From Coq Require Import List.
Import ListNotations.
From Verif Require Import Fmt.TextModel Fmt.X86FmtModel Fmt.X86InstModel Fmt.X86InstProofs Fmt.A64FmtModel Fmt.A64FmtProofs Fmt.A64InstProofs.
Local Open Scope Z_scope.

Corollary x86_inst_text_injective f1 f2 i1 i2 : inst_ok i1 -> inst_ok i2 ->
  fmt_inst f1 i1 = fmt_inst f2 i2 -> canon_inst i1 = canon_inst i2.
Proof.
  intros H1 H2 E. pose proof (inst_roundtrip f1 i1 H1) as R1. pose proof (inst_roundtrip f2 i2 H2) as R2.
  rewrite E in R1. rewrite R1 in R2. remember (canon_inst i1) as c1. remember (canon_inst i2) as c2. congruence.
Qed.

Corollary a64_inst_text_injective f1 f2 i1 i2 : a64_inst_ok i1 -> a64_inst_ok i2 ->
  a64_fmt_inst true f1 i1 = a64_fmt_inst true f2 i2 -> a64_canon_inst i1 = a64_canon_inst i2.
Proof.
  intros H1 H2 E. pose proof (a64_inst_roundtrip f1 i1 H1) as R1. pose proof (a64_inst_roundtrip f2 i2 H2) as R2.
  rewrite E in R1. rewrite R1 in R2. remember (a64_canon_inst i1) as c1. remember (a64_canon_inst i2) as c2. congruence.
Qed.

Corollary a64_operand_text_injective f1 f2 o1 o2 : a64_op_ok o1 -> a64_op_ok o2 ->
  a64_fmt_operand true f1 o1 = a64_fmt_operand true f2 o2 -> a64_canon_op o1 = a64_canon_op o2.
Proof.
  intros H1 H2 E. pose proof (a64_operand_roundtrip f1 o1 H1) as R1. pose proof (a64_operand_roundtrip f2 o2 H2) as R2.
  rewrite E in R1. rewrite R1 in R2. remember (a64_canon_op o1) as c1. remember (a64_canon_op o2) as c2. congruence.
Qed.

(* the logger line WITHOUT kMachineCode: text, padding, "; " comment, newline *)
From Verif Require Import Fmt.TextProofs Fmt.LogLine Fmt.LogLineX86 Fmt.NodeLine Fmt.X86FmtProofs.

Theorem plain_log_line_roundtrip t pad1 pad2 comment :
  Forall (fun c => Ascii.eqb c ";"%char = false) t -> ends_nonspace t ->
  parse_node_line (removelast (finish_line t pad1 pad2 None comment)) =
  (t, match comment with [] => None | _ => Some comment end).
Proof.
  intros NS EN. unfold finish_line. cbn [orb]. destruct comment as [|c0 cr].
  - cbn [length Nat.eqb negb]. rewrite removelast_last. unfold parse_node_line. rewrite split_at_none' by exact NS. reflexivity.
  - cbn [length Nat.eqb negb]. rewrite removelast_last. unfold pad_end, parse_node_line.
    change (s "; ") with [";"%char; " "%char]. change " "%char with spc. cbn [app].
    rewrite split_at_app'.
    + rewrite Ascii.eqb_refl. rewrite rstrip_pad by exact EN. reflexivity.
    + apply Forall_app; split; [exact NS|]. generalize (pad1 - length t)%nat. intros n. induction n; constructor; auto.
Qed.

Theorem x86_plain_log_line f i pad1 pad2 comment : inst_ok i ->
  let '(txt, cm) := parse_node_line (removelast (finish_line (fmt_inst f i) pad1 pad2 None comment)) in
  parse_inst txt = Some (canon_inst i) /\ cm = match comment with [] => None | _ => Some comment end.
Proof.
  intros Hi. destruct (inst_toks_wf f i Hi) as [W1 W2]. destruct (inst_allowed_last f i) as [A1 A2].
  rewrite plain_log_line_roundtrip; [|apply render_nosemi; assumption|apply render_ends; assumption].
  split; [apply inst_roundtrip; assumption|reflexivity].
Qed.

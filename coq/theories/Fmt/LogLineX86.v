(* C20 — capstone for x86: the whole logger line of an emitted instruction determines the instruction and the bytes *)
From Coq Require Import ZArith Bool Ascii String Lia.
From Coq Require Import List.
Import ListNotations.
From Verif Require Import Fmt.TextModel Fmt.TextProofs Fmt.X86FmtModel Fmt.X86FmtProofs Fmt.X86InstModel Fmt.X86InstProofs
  Fmt.LogLine.
Local Open Scope Z_scope.

(* punctuation tokens used by the x86 formatter *)
Definition allowed_chars : text := s " []+-*:,{}<>!".
Definition allowed (t : tok) : bool :=
  match t with TId _ => true | TP c => existsb (Ascii.eqb c) allowed_chars end.

(* last token is an identifier or a punctuation other than the space *)
Definition good_last (ts : list tok) : Prop :=
  exists ts' t, ts = ts' ++ [t] /\ match t with TId _ => True | TP c => Ascii.eqb c spc = false end.

Lemma good_last_app a b : good_last b -> good_last (a ++ b).
Proof. intros (b' & t & -> & H). exists (a ++ b'), t. rewrite app_assoc. auto. Qed.

Lemma op_toks_allowed f o : forallb allowed (fmt_op_toks f o) = true.
Proof.
  destruct o as [|t i|m|v|id]; cbn [fmt_op_toks]; try reflexivity.
  - unfold fmt_mem_toks, mem_body_toks, size_toks, seg_toks, addr_toks, base_toks, index_toks, off_toks.
    rewrite !forallb_app.
    destruct (size_word (m_size m)); destruct ((1 <=? m_seg m) && (m_seg m <=? 6));
      destruct (m_addr m =? 1); destruct (m_addr m =? 2); destruct (m_base m); destruct (m_index m) as [[? ?]|];
      cbn [has_base]; try destruct (m_shift m =? 0); destruct ((m_off m =? 0) && _); try destruct (m_off m <? 0);
      reflexivity.
  - unfold fmt_imm_toks. destruct (ff_hex_imms f && _); [reflexivity|]. destruct (v <? 0); reflexivity.
Qed.

Lemma op_toks_good_last f o : good_last (fmt_op_toks f o).
Proof.
  destruct o as [|t i|m|v|id]; cbn [fmt_op_toks].
  - exists [P "<"; kw "None"], (P ">"). split; reflexivity.
  - exists [], (TId (fmt_reg t i)). split; [reflexivity|exact I].
  - unfold fmt_mem_toks. repeat apply good_last_app. exists [], (P "]"). split; reflexivity.
  - unfold fmt_imm_toks. destruct (ff_hex_imms f && _); [eexists [], _; split; [reflexivity|exact I]|].
    destruct (v <? 0); [eexists [P "-"], _|eexists [], _]; split; try reflexivity; exact I.
  - exists [], (TId (label_text id)). split; [reflexivity|exact I].
Qed.

Lemma deco_allowed_last o ex first op : forallb allowed (deco_toks o ex first op) = true /\
  (deco_toks o ex first op = [] \/ good_last (deco_toks o ex first op)).
Proof.
  unfold deco_toks, mask_toks, bcst_toks, brace.
  destruct first; [destruct ex as [[t i]|]; [destruct t|]|]; destruct (o_zmask o); destruct op as [|? ?|m|?|?]; cbn [app];
    try destruct (m_bcst m =? 0); cbn [app]; (split; [reflexivity|]);
    first [left; reflexivity | right; eexists _, (P "}"); split; [|reflexivity];
           repeat rewrite app_comm_cons; first [reflexivity | rewrite app_assoc; reflexivity | idtac]].
  all: try (match goal with |- ?l = ?a ++ [P "}"] => instantiate (1 := removelast l) end).
  all: try reflexivity.
Qed.

Lemma items_allowed specs : forall flags, forallb allowed (items specs flags) = true.
Proof.
  induction specs as [|[br k] sr IH]; intros flags; [reflexivity|]. destruct flags as [|b fr]; [reflexivity|].
  cbn [items]. rewrite forallb_app, IH. destruct b; [|reflexivity]. destruct br; reflexivity.
Qed.

Lemma ops_allowed f o ex : forall ops first, Forall (fun op => op <> ONone) ops ->
  forallb allowed (ops_toks f o ex first ops) = true.
Proof.
  induction ops as [|op r IH]; intros first Hn; [reflexivity|]. inversion Hn; subst.
  rewrite ops_toks_cons by assumption. unfold chunk. rewrite !forallb_app, op_toks_allowed, (proj1 (deco_allowed_last o ex first op)), IH by assumption.
  destruct first; reflexivity.
Qed.

Lemma er_allowed_last o : forallb allowed (er_toks o) = true /\ (er_toks o = [] \/ good_last (er_toks o)).
Proof.
  unfold er_toks, brace. destruct (o_er o).
  - split; [reflexivity|]. right. eexists (_ :: _ :: _ :: _ :: _ :: _ :: _), (P "}"). split; reflexivity.
  - destruct (o_sae o); (split; [reflexivity|]); [right|left; reflexivity].
    eexists (_ :: _ :: _ :: _ :: _), (P "}"). split; reflexivity.
Qed.

Lemma ops_good_last f o ex : forall ops first, Forall (fun op => op <> ONone) ops -> ops <> [] ->
  good_last (ops_toks f o ex first ops).
Proof.
  induction ops as [|op r IH]; intros first Hn Hne; [congruence|]. inversion Hn; subst.
  rewrite ops_toks_cons by assumption. apply good_last_app.
  destruct r as [|op' r'].
  - cbn [ops_toks]. rewrite app_nil_r. unfold chunk.
    destruct (proj2 (deco_allowed_last o ex first op)) as [E | G].
    + rewrite E, app_nil_r. apply op_toks_good_last.
    + apply good_last_app. exact G.
  - apply good_last_app. apply IH; [assumption|discriminate].
Qed.

Lemma inst_allowed_last f i : forallb allowed (fmt_inst_toks f i) = true /\ good_last (fmt_inst_toks f i).
Proof.
  destruct i as [m o ex ops]. unfold fmt_inst_toks, prefix_toks. cbn [i_mnem i_opts i_extra i_ops].
  pose proof (until_none_not_none ops) as Hnn. rewrite (ops_toks_until f o ex ops true).
  destruct (er_allowed_last o) as [EA EL].
  split.
  - rewrite !forallb_app, !items_allowed, (ops_allowed f o ex _ true Hnn), EA.
    unfold regitem. destruct (o_rep o || o_repne o); [destruct ex as [[t k]|]|]; reflexivity.
  - repeat rewrite app_assoc. destruct EL as [E | G].
    + rewrite E, app_nil_r.
      destruct (until_none ops) as [|op0 r] eqn:Ev.
      * cbn [ops_toks]. rewrite app_nil_r. eexists _, (TId m). split; [reflexivity|exact I].
      * apply good_last_app. apply ops_good_last; [assumption|discriminate].
    + apply good_last_app. exact G.
Qed.

(* ------------------------------------------------------------------ characters of a rendered token list *)
Lemma ident_not c (d : ascii) : is_ident_char d = false -> is_ident_char c = true -> Ascii.eqb c d = false.
Proof. intros Hd Hc. destruct (Ascii.eqb_spec c d); [subst; congruence|reflexivity]. Qed.

Local Transparent tok_ok.

Lemma render_nosemi ts : forallb tok_ok ts = true -> forallb allowed ts = true ->
  Forall (fun c => Ascii.eqb c ";"%char = false) (render ts).
Proof.
  induction ts as [|t ts IH]; intros Hok Hal; [constructor|].
  cbn [forallb] in Hok, Hal. apply andb_prop in Hok as [H1 H2]. apply andb_prop in Hal as [A1 A2].
  unfold render. cbn [flat_map]. apply Forall_app; split; [|apply IH; assumption].
  destruct t as [x|c]; cbn [render_tok].
  - cbn [tok_ok] in H1. apply andb_prop in H1 as [_ Hx]. apply forallb_Forall in Hx.
    eapply Forall_impl; [|exact Hx]. intros a Ha. apply ident_not; [reflexivity|exact Ha].
  - constructor; [|constructor]. cbn [allowed allowed_chars s list_ascii_of_string existsb] in A1.
    destruct (Ascii.eqb_spec c ";"%char) as [->|]; [discriminate A1|reflexivity].
Qed.

Lemma render_ends ts : forallb tok_ok ts = true -> good_last ts -> ends_nonspace (render ts).
Proof.
  intros Hok (ts' & t & -> & Ht). rewrite forallb_app in Hok. apply andb_prop in Hok as [_ Hok].
  cbn [forallb] in Hok. apply andb_prop in Hok as [Hok _].
  unfold render. rewrite flat_map_app. cbn [flat_map]. rewrite app_nil_r. unfold ends_nonspace. rewrite rev_app_distr.
  destruct t as [x|c]; cbn [render_tok].
  - cbn [tok_ok] in Hok. apply andb_prop in Hok as [Hl Hx]. apply forallb_Forall in Hx.
    assert (Fr : Forall (fun c => is_ident_char c = true) (rev x)) by (apply Forall_rev; exact Hx).
    destruct (rev x) as [|c r] eqn:E.
    + apply (f_equal (@rev _)) in E. rewrite rev_involutive in E. cbn in E. subst x. discriminate Hl.
    + exists c, (r ++ rev (flat_map render_tok ts')). split; [reflexivity|]. inversion Fr; subst. apply ident_not; [reflexivity|assumption].
  - exists c, (rev (flat_map render_tok ts')). split; [reflexivity|exact Ht].
Qed.
Local Opaque tok_ok.

(* the logger line of an x86 instruction: the instruction and the bytes can be read off the line *)
Theorem x86_log_line_transcript f i pad1 pad2 bytes rel imm comment :
  inst_ok i -> Forall (fun v => 0 <= v < 256) bytes -> bytes <> [] ->
  exists txt col,
    parse_log_line (finish_line (fmt_inst f i) pad1 pad2 (Some (bytes, rel, imm)) comment) = Some (txt, col, comment) /\
    parse_inst txt = Some (canon_inst i) /\ parse_hexcol col = Some (hexcol_spec bytes rel imm).
Proof.
  intros Hi Hb Hne. exists (fmt_inst f i), (fmt_hexcol bytes rel imm).
  destruct (inst_toks_wf f i Hi) as [W1 W2]. destruct (inst_allowed_last f i) as [A1 A2].
  split; [|split].
  - apply log_line_roundtrip; auto; unfold fmt_inst; [apply render_nosemi; assumption|apply render_ends; assumption].
  - apply inst_roundtrip; assumption.
  - apply hex_column; assumption.
Qed.

(* C20 — names printed for enumerators: DebugUtils::error_as_string, Formatter::format_feature (x86, ARM) and Formatter::format_type_id print the
   enumerator's own identifier ("kInvalidInstruction" -> "InvalidInstruction", "kAVX512_VNNI" -> "AVX512_VNNI", "kInt32x4" -> "int32x4",
   "kFloat64x1" -> "float64").  The rule is a Coq function; coq/gen/FmtEnumTables.v holds the RAW enumerator identifiers read from the headers and the
   dump of the real functions over their whole id range, and proves on every run that the rule maps one onto the other. *)
From Coq Require Import ZArith Bool Ascii String Lia.
From Coq Require Import List.
Import ListNotations.
From Verif Require Import Fmt.TextModel Fmt.TextProofs Fmt.X86FmtModel Fmt.X86FmtProofs Fmt.LogLine Fmt.FuncValue Fmt.FuncLine.
Local Open Scope Z_scope.

Definition strip_k (x : text) : text := match x with c :: r => if Ascii.eqb c "k"%char then r else x | [] => [] end.

Definition lower_char (c : ascii) : ascii :=
  let n := code c in if (65 <=? n) && (n <=? 90) then ascii_of_nat (Z.to_nat (n + 32)) else c.

(* "…x1" (a one-element vector) prints as its scalar *)
Definition drop_x1 (x : text) : text :=
  match rev x with
  | o :: xc :: r => if Ascii.eqb o "1"%char && Ascii.eqb xc "x"%char && match r with d :: _ => is_digit10 d | [] => false end then rev r else x
  | _ => x
  end.

Definition ident_rule (n : string) : text := strip_k (s n).                                (* errors, CPU features *)
Definition type_rule (n : string) : text := drop_x1 (map lower_char (strip_k (s n))).      (* type ids *)

Fixpoint lookup (id : Z) (enum : list (Z * string)) : option string :=
  match enum with [] => None | (k, n) :: r => if k =? id then Some n else lookup id r end.

(* every id of the dump: the enumerator's name by the rule, [unknown] where the enum has no enumerator *)
Fixpoint check_all (rule : string -> text) (enum : list (Z * string)) (unknown : text) (id : Z) (dump : list text) : bool :=
  match dump with
  | [] => true
  | x :: r => text_eqb x (match lookup id enum with Some n => rule n | None => unknown end) && check_all rule enum unknown (id + 1) r
  end.

(* only the ids that have an enumerator (values without one are not judged) *)
Definition check_enum (rule : string -> text) (enum : list (Z * string)) (dump : list text) : bool :=
  forallb (fun e => match nth_error dump (Z.to_nat (fst e)) with Some x => (0 <=? fst e) && text_eqb x (rule (snd e)) | None => false end) enum.

Lemma check_all_sound rule enum unknown : forall dump id k x, check_all rule enum unknown id dump = true -> nth_error dump k = Some x ->
  x = match lookup (id + Z.of_nat k) enum with Some n => rule n | None => unknown end.
Proof.
  induction dump as [|y r IH]; intros id k x H N; [destruct k; discriminate|].
  cbn [check_all] in H. apply andb_prop in H as [H1 H2]. destruct k as [|k].
  - cbn in N. inversion N; subst. rewrite Z.add_0_r. apply text_eqb_eq; exact H1.
  - cbn [nth_error] in N. rewrite (IH (id + 1) k x H2 N). replace (id + 1 + Z.of_nat k) with (id + Z.of_nat (S k)) by lia. reflexivity.
Qed.

Lemma check_enum_sound rule enum dump : check_enum rule enum dump = true ->
  forall id n, In (id, n) enum -> 0 <= id /\ nth_error dump (Z.to_nat id) = Some (rule n).
Proof.
  intros H id n I. unfold check_enum in H. pose proof (proj1 (forallb_forall _ _) H _ I) as P. cbn [fst snd] in P.
  destruct (nth_error dump (Z.to_nat id)) as [x|]; [|discriminate]. apply andb_prop in P as [P1 P2].
  apply Z.leb_le in P1. apply text_eqb_eq in P2. subst. split; [exact P1|reflexivity].
Qed.

(* non-vacuity: the rules on the identifiers of the header comment; a wrong table is refused *)
Example ex_rules : ident_rule "kInvalidInstruction" = s "InvalidInstruction" /\ ident_rule "kAVX512_VNNI" = s "AVX512_VNNI" /\
  type_rule "kInt32x4" = s "int32x4" /\ type_rule "kFloat64x1" = s "float64" /\ type_rule "kUIntPtr" = s "uintptr" /\ type_rule "kInt8x16" = s "int8x16".
Proof. repeat split; vm_compute; reflexivity. Qed.
Example ex_check_refuses : check_all ident_rule [(0, "kOk"); (1, "kOutOfMemory")]%string (s "<Unknown>") 0 [s "Ok"; s "OutOfMemoryy"; s "<Unknown>"] = false.
Proof. vm_compute. reflexivity. Qed.

(* ------------------------------------------------------------------ the type names of the enum fit the FuncNode-line theorems: no ' ', ',', '@' in them and none is "void"
   (C20_x86_func_line_roundtrip asks this of the type name of every value); decidable, proved per run for every enumerator but kVoid *)
Definition type_name_okb (x : text) : bool :=
  forallb (fun c => negb (Ascii.eqb c spc) && negb (Ascii.eqb c comma) && negb (Ascii.eqb c at_c)) x && negb (text_eqb x (s "void")).

Lemma type_name_okb_sound x : type_name_okb x = true ->
  Forall clean x /\ Forall (fun c => Ascii.eqb c at_c = false) x /\ x <> s "void".
Proof.
  unfold type_name_okb. intros H. apply andb_prop in H as [H1 H2]. apply forallb_Forall in H1.
  split; [|split].
  - eapply Forall_impl; [|exact H1]. intros a Ha. apply andb_prop in Ha as [Ha _]. apply andb_prop in Ha as [A1 A2].
    split; [destruct (Ascii.eqb a spc); [discriminate A1|reflexivity]|destruct (Ascii.eqb a comma); [discriminate A2|reflexivity]].
  - eapply Forall_impl; [|exact H1]. intros a Ha. apply andb_prop in Ha as [_ A3]. destruct (Ascii.eqb a at_c); [discriminate A3|reflexivity].
  - intros E. subst. discriminate H2.
Qed.

Definition type_names_fit (enum : list (Z * string)) : bool := forallb (fun e => (fst e =? 0) || type_name_okb (type_rule (snd e))) enum.

Lemma type_names_fit_sound enum : type_names_fit enum = true -> forall id n, In (id, n) enum -> id <> 0 ->
  Forall clean (type_rule n) /\ Forall (fun c => Ascii.eqb c at_c = false) (type_rule n) /\ type_rule n <> s "void".
Proof.
  intros H id n I Hid. pose proof (proj1 (forallb_forall _ _) H _ I) as P. cbn [fst snd] in P.
  destruct (Z.eqb_spec id 0); [contradiction|]. cbn [orb] in P. apply type_name_okb_sound; exact P.
Qed.

Example ex_type_fit : type_name_okb (type_rule "kFloat32x8") = true /\ type_name_okb (s "void") = false /\ type_name_okb (s "a b") = false.
Proof. repeat split; vm_compute; reflexivity. Qed.

(* C20 — an embedded-data line (".db 0x01, 0x02" / ".repeat 3 .dq 0x…") DENOTES THE BYTES: the items the proven reader recovers, laid out little-endian in
   the directive's item size and repeated, are exactly the bytes that were embedded.  (What tools/checks/c20.py recomputed in python for the ED commands.) *)
From Coq Require Import ZArith Bool Ascii String Lia.
From Coq Require Import List.
Import ListNotations.
From Verif Require Import Fmt.TextModel Fmt.TextProofs Fmt.X86FmtModel Fmt.X86FmtProofs Fmt.DataNode.
Local Open Scope Z_scope.

Fixpoint le_bytes (n : nat) (v : Z) : list Z := match n with O => [] | S k => v mod 256 :: le_bytes k (v / 256) end.

(* the bytes an item list denotes: every item little-endian in [size] bytes, the whole sequence [rep] times *)
Definition data_bytes (size : nat) (items : list Z) (rep : nat) : list Z := concat (repeat (concat (map (le_bytes size) items)) rep).

Definition byte (v : Z) : Prop := 0 <= v < 256.

Lemma le_bytes_value bs : Forall byte bs -> le_bytes (length bs) (le_value bs) = bs.
Proof.
  induction 1 as [|b r Hb F IH]; [reflexivity|]. cbn [length le_bytes le_value]. unfold byte in Hb.
  assert (M : (b + 256 * le_value r) mod 256 = b).
  { replace (b + 256 * le_value r) with (b + le_value r * 256) by lia. rewrite Z_mod_plus_full. apply Z.mod_small. lia. }
  assert (D : (b + 256 * le_value r) / 256 = le_value r).
  { replace (b + 256 * le_value r) with (b + le_value r * 256) by lia. rewrite Z_div_plus_full by lia. rewrite Z.div_small by lia. lia. }
  rewrite M, D.
  rewrite IH. reflexivity.
Qed.

Lemma le_value_bound bs : Forall byte bs -> 0 <= le_value bs < 256 ^ Z.of_nat (length bs).
Proof.
  induction 1 as [|b r Hb F IH]; [cbn; lia|]. cbn [length le_value]. unfold byte in Hb.
  rewrite Nat2Z.inj_succ, Z.pow_succ_r by lia. lia.
Qed.

(* groups of [size] bytes *)
Lemma group_bytes size : (0 < size)%nat -> forall k fuel bytes, Forall byte bytes -> length bytes = (k * size)%nat -> (k <= fuel)%nat ->
  concat (map (le_bytes size) (group fuel size bytes)) = bytes /\
  Forall (fun v => 0 <= v < 256 ^ Z.of_nat size) (group fuel size bytes) /\ length (group fuel size bytes) = k.
Proof.
  intros Hs. induction k as [|k IH]; intros fuel bytes F L Hf.
  - destruct bytes; [|discriminate]. destruct fuel; cbn [group]; repeat split; constructor.
  - destruct fuel as [|fuel]; [lia|]. cbn [group].
    destruct bytes as [|b0 br] eqn:EB; [cbn in L; lia|]. rewrite <- EB in *. clear EB b0 br.
    assert (L1 : length (firstn size bytes) = size) by (rewrite firstn_length; lia).
    assert (L2 : length (skipn size bytes) = (k * size)%nat) by (rewrite skipn_length; lia).
    assert (F1 : Forall byte (firstn size bytes)) by (apply Forall_firstn'; exact F).
    assert (F2 : Forall byte (skipn size bytes)) by (apply Forall_skipn'; exact F).
    destruct (IH fuel (skipn size bytes) F2 L2 ltac:(lia)) as (I1 & I2 & I3).
    cbn [map concat length]. split; [|split].
    + rewrite I1. pose proof (le_bytes_value (firstn size bytes) F1) as V. rewrite L1 in V. rewrite V. apply firstn_skipn.
    + constructor; [|exact I2]. pose proof (le_value_bound (firstn size bytes) F1) as B. rewrite L1 in B. exact B.
    + rewrite I3. reflexivity.
Qed.

(* the line of format_data denotes its bytes *)
Theorem data_line_denotes a64 size bytes rep : (size = 1 \/ size = 2 \/ size = 4 \/ size = 8) -> Forall byte bytes ->
  (exists k, length bytes = (k * Z.to_nat size)%nat) -> 1 <= rep < two32 ->
  exists items, parse_data (fmt_data a64 size bytes rep) = Some (rep, "."%char :: s (data_word a64 size), items) /\
                data_bytes (Z.to_nat size) items (Z.to_nat rep) = concat (repeat bytes (Z.to_nat rep)).
Proof.
  intros Hs F (k & L) Hr.
  assert (NS : norm_size size = size) by (destruct Hs as [-> | [-> | [-> | ->]]]; reflexivity).
  assert (Hp : (0 < Z.to_nat size)%nat) by (destruct Hs as [-> | [-> | [-> | ->]]]; cbn; lia).
  assert (Hk : (k <= length bytes)%nat).
  { rewrite L. destruct (Z.to_nat size) as [|n]; [lia|]. rewrite Nat.mul_succ_r. lia. }
  destruct (group_bytes (Z.to_nat size) Hp k (length bytes) bytes F L Hk) as (G1 & G2 & _).
  exists (group (length bytes) (Z.to_nat size) bytes). unfold fmt_data. rewrite NS. split.
  - apply data_roundtrip; [exact Hs| |exact Hr]. eapply Forall_impl; [|exact G2]. intros v Hv. cbv beta in Hv |- *. split; [lia|].
    assert (B : 256 ^ Z.of_nat (Z.to_nat size) <= two64) by (destruct Hs as [-> | [-> | [-> | ->]]]; cbn; unfold two64; lia). lia.
  - unfold data_bytes. rewrite G1. reflexivity.
Qed.

(* non-vacuity *)
Example ex_data_line : fmt_data false 2 [1; 2; 255; 0] 3 = s ".repeat 3 .dw 0x0201, 0x00FF" /\
  data_bytes 2 [513; 255] 3 = [1; 2; 255; 0; 1; 2; 255; 0; 1; 2; 255; 0].
Proof. split; vm_compute; reflexivity. Qed.

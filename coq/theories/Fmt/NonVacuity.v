(* C20 — non-vacuity: for every round-4/5 theorem a concrete instance whose hypotheses hold and whose text is the one AsmJit prints
   (so none of the side conditions is unsatisfiable and none of the statements is about an empty domain). *)
From Coq Require Import ZArith Bool Ascii String Lia.
From Coq Require Import List.
Import ListNotations.
From Verif Require Import Fmt.TextModel Fmt.TextProofs Fmt.X86FmtModel Fmt.X86FmtProofs Fmt.A64FmtModel Fmt.A64FmtProofs Fmt.LogLine Fmt.LabelVirt
  Fmt.RegList Fmt.RegListAll Fmt.VirtNames Fmt.FuncValue Fmt.LogOptions Fmt.Directives Fmt.DataNode Fmt.A64Virt.
Local Open Scope Z_scope.

Definition f0 : fflags := {| ff_hex_imms := false; ff_hex_offsets := false |}.

(* register lists *)
Example ex_reglist_text : fmt_reglist a32_reg 32783 = s "{r0-r3, r15}".
Proof. vm_compute. reflexivity. Qed.
Example ex_reglist : parse_reglist (s "{r0-r3, r15}") = Some 32783.
Proof. rewrite <- ex_reglist_text. apply reglist_roundtrip. lia. Qed.

(* named virtual registers: a concrete environment satisfies env_ok, and a cast operand reads back *)
Definition ex_env : venv := [(None, Gp32); (Some (s "cnt"), Gp64); (Some (s "v.Lo2"), Xmm)].
Lemma ex_env_ok : env_ok ex_env.
Proof.
  split.
  - intros i n vt H. destruct i as [|[|[|i]]]; cbn in H; try discriminate; inversion H; subst; try reflexivity.
    destruct i; discriminate.
  - intros i j n vt1 vt2 H1 H2.
    destruct i as [|[|[|i]]]; cbn in H1; try discriminate; try (destruct i; discriminate);
    destruct j as [|[|[|j]]]; cbn in H2; try discriminate; try (destruct j; discriminate);
    inversion H1; subst; inversion H2; subst; try reflexivity; discriminate.
Qed.
Example ex_virt_text : rp_virt ex_env false true Gp32 257 = s "cnt@gpd".
Proof. vm_compute. reflexivity. Qed.
Example ex_virt_read : read_reg ex_env (s "cnt@gpd") = Some (RVirt 1 (Some Gp32)).
Proof.
  rewrite <- ex_virt_text. rewrite (rp_virt_roundtrip ex_env false true Gp32 257 ex_env_ok); [reflexivity|].
  split; [reflexivity|unfold id_ok, two32; lia].
Qed.

(* function values: an indirect Win64 vector argument *)
Definition ex_fv : fvalue (x86rt * Z) := (s "int32x4", Some (true, FAReg (Gp64, 8))).
Example ex_fv_text : fmt_fvalue x86_rp ex_fv = s "int32x4@[r8]".
Proof. vm_compute. reflexivity. Qed.
Example ex_fv_read : parse_fvalue parse_reg_name (s "int32x4@[r8]") = Some ex_fv.
Proof.
  rewrite <- ex_fv_text. apply x86_fvalue_roundtrip. split.
  - cbn [fst ex_fv]. repeat constructor.
  - cbn [snd ex_fv fa_ok fst]. split; [reflexivity|unfold id_ok, two32; lia].
Qed.
Example ex_fv_stack_text : fmt_fvalue a64_rp ((s "float32", Some (false, FAStack 8)) : fvalue (a64rt * Z)) = s "float32@[8]".
Proof. vm_compute. reflexivity. Qed.

(* logger options *)
Example ex_log_line_text :
  log_line 2 (s "nop") 8 5 (Some ([144], 0%nat, 0%nat)) (s "c") = s "  nop   ; 90 | c" ++ [nl].
Proof. vm_compute. reflexivity. Qed.
Example ex_log_line_read :
  parse_log_line_ind (s "  nop   ; 90 | c" ++ [nl]) = Some (2%nat, s "nop", s "90", s "c").
Proof.
  rewrite <- ex_log_line_text. rewrite log_line_ind_roundtrip; try reflexivity.
  - repeat constructor.
  - exists "n"%char. eexists. split; reflexivity.
  - exists "p"%char. eexists. split; reflexivity.
  - repeat constructor; lia.
  - discriminate.
Qed.
Example ex_label_line_text : label_line 1 (label_text 5) 6 4 true (s "entry") = s " L5:  ;   | entry" ++ [nl].
Proof. vm_compute. reflexivity. Qed.

(* Assembler directive lines *)
Example ex_embed_label : fmt_embed_label false 8 3 = s ".dq L3" /\ parse_embed_label false (s ".dq L3") = Some (8, 3).
Proof. split; vm_compute; reflexivity. Qed.
Example ex_embed_delta : fmt_embed_delta true 4 3 1 = s ".word (L3 - L1)" /\ parse_embed_delta true (s ".word (L3 - L1)") = Some (4, 3, 1).
Proof. split; vm_compute; reflexivity. Qed.
Example ex_align : fmt_align_line 2 16 = s "  align 16" /\ parse_align_line (s "  align 16") = Some (2%nat, 16).
Proof. split; vm_compute; reflexivity. Qed.

(* AArch64 lines with virtual registers: op_phys is satisfiable with a non-empty environment (physical operands), and fails for a virtual one *)
Example ex_a64_op_phys : op_phys [(Some (s "a"), AGp32)] (AOReg AGp32 3 0 None) /\ ~ op_phys [(Some (s "a"), AGp32)] (AOReg AGp32 256 0 None).
Proof. split; [reflexivity|]. cbn. discriminate. Qed.

(* C20 — Builder nodes that are not instructions (Formatter::format_node: label, align, section, embedded label / label delta, constant pool, sentinel):
   the text reads back as the node (up to what the text shows: the data size of an embedded label is not printed, C20_embed_label_node_size_refuted). *)
From Coq Require Import ZArith Bool Ascii String Lia.
From Coq Require Import List.
Import ListNotations.
From Verif Require Import Fmt.TextModel Fmt.TextProofs Fmt.X86FmtModel Fmt.X86FmtProofs Fmt.X86InstModel Fmt.A64FmtModel Fmt.A64FmtProofs Fmt.LogLine
  Fmt.DataNode Fmt.Directives.
Local Open Scope Z_scope.

Fixpoint strip_prefix (p x : text) : option text :=
  match p, x with
  | [], _ => Some x
  | a :: p', b :: x' => if Ascii.eqb a b then strip_prefix p' x' else None
  | _ :: _, [] => None
  end.

Lemma strip_prefix_app p r : strip_prefix p (p ++ r) = Some r.
Proof. induction p as [|a p IH]; [reflexivity|]. cbn [app strip_prefix]. rewrite Ascii.eqb_refl. exact IH. Qed.

(* what the text of a node determines *)
Definition canon_node (n : node) : node :=
  match n with
  | NEmbedLabel id _ => NEmbedLabel id 0
  | NEmbedLabelDelta id base _ => NEmbedLabelDelta id base 0
  | _ => n
  end.

Definition read_two (sep : text) (close : ascii) (x : text) : option (Z * Z) :=      (* "<a>" sep "<b>" close *)
  match split_at (first_char sep) x with
  | Some (a, r) =>
    match strip_prefix (tl sep) r with
    | Some r2 => if Ascii.eqb (last r2 "000"%char) close
                 then match parse_dec32 a, parse_dec32 (removelast r2) with Some va, Some vb => Some (va, vb) | _, _ => None end
                 else None
    | None => None
    end
  | None => None
  end.

Definition parse_node_body (x : text) : option node :=
  match strip_prefix (s ".label (") x with
  | Some r =>
    match split_at spc r with
    | Some (l1, m :: sp2 :: r2) =>
      if Ascii.eqb m "-"%char && Ascii.eqb sp2 spc && Ascii.eqb (last r2 "000"%char) ")"%char
      then match parse_label_text l1, parse_label_text (removelast r2) with Some a, Some b => Some (NEmbedLabelDelta a b 0) | _, _ => None end
      else None
    | _ => None
    end
  | None =>
  match strip_prefix (s ".label ") x with
  | Some r => match parse_label_text r with Some id => Some (NEmbedLabel id 0) | None => None end
  | None =>
  match strip_prefix (s ".align ") x with
  | Some r =>
    match split_at spc r with
    | Some (k, md) => match parse_dec32 k with
                      | Some v => if text_eqb md (s "(code)") then Some (NAlign v true) else if text_eqb md (s "(data)") then Some (NAlign v false) else None
                      | None => None
                      end
    | None => None
    end
  | None =>
  match strip_prefix (s ".section ") x with
  | Some r => Some (NSection r)
  | None =>
  match strip_prefix (s "[ConstPool Size=") x with
  | Some r => match read_two (s " Alignment=") "]"%char r with Some (a, b) => Some (NConstPool a b) | None => None end
  | None =>
  if text_eqb x (s "[FuncEnd]") then Some (NSentinel true) else
  if text_eqb x (s "[Sentinel]") then Some (NSentinel false) else
  match x with
  | c :: _ => if Ascii.eqb (last x "000"%char) ":"%char then match parse_label_text (removelast x) with Some id => Some (NLabel id) | None => None end else None
  | [] => None
  end end end end end end.

(* ------------------------------------------------------------------ proofs *)
Definition node_ok (n : node) : Prop :=
  match n with
  | NLabel id => id_ok id
  | NAlign k _ => id_ok k
  | NSection name => True
  | NEmbedLabel id _ => id_ok id
  | NEmbedLabelDelta id base _ => id_ok id /\ id_ok base
  | NConstPool sz al => id_ok sz /\ id_ok al
  | NSentinel _ => True
  | NComment _ | NEmbed _ _ _ _ | NInst _ => False
  end.

Lemma dec_nospace n : 0 <= n -> Forall (fun c => Ascii.eqb c spc = false) (dec n).
Proof. intros H. apply dec_no; [exact H|reflexivity]. Qed.

Lemma label_first id : exists r, label_text id = "L"%char :: r.
Proof. eexists. reflexivity. Qed.

Theorem node_body_roundtrip f n : node_ok n -> parse_node_body (node_body f n) = Some (canon_node n).
Proof.
  destruct n as [id|k code|c|sz cnt rp tot|name|i|id sz|id base sz|sz al|fe]; cbn [node_ok node_body canon_node]; intros H; try contradiction.
  - (* label *)
    unfold parse_node_body. destruct (label_facts id H) as (_ & _ & _ & L).
    change (label_text id ++ s ":") with ("L"%char :: (dec id ++ [":"%char])). cbn [strip_prefix s list_ascii_of_string Ascii.eqb Bool.eqb]. cbv iota.
    change (text_eqb ("L"%char :: dec id ++ [":"%char]) (s "[FuncEnd]")) with false.
    change (text_eqb ("L"%char :: dec id ++ [":"%char]) (s "[Sentinel]")) with false. cbv iota.
    change ("L"%char :: dec id ++ [":"%char]) with (label_text id ++ [":"%char]).
    assert (E : exists c r, label_text id ++ [":"%char] = c :: r) by (eexists; eexists; reflexivity). destruct E as (c & r & E).
    rewrite E. rewrite <- E. rewrite last_last, removelast_last. change (Ascii.eqb ":" ":") with true. cbv iota. rewrite L. reflexivity.
  - (* align *)
    unfold parse_node_body. replace (s ".align " ++ dec k ++ s " (" ++ s (if code then "code" else "data") ++ s ")")
      with (s ".align " ++ (dec k ++ spc :: (if code then s "(code)" else s "(data)"))) by (destruct code; reflexivity).
    assert (N1 : strip_prefix (s ".label (") (s ".align " ++ (dec k ++ spc :: (if code then s "(code)" else s "(data)"))) = None) by reflexivity.
    assert (N2 : strip_prefix (s ".label ") (s ".align " ++ (dec k ++ spc :: (if code then s "(code)" else s "(data)"))) = None) by reflexivity.
    rewrite N1, N2, strip_prefix_app. rewrite split_at_app' by (apply dec_nospace; unfold id_ok in H; lia).
    rewrite parse_dec32_dec by exact H. destruct code; reflexivity.
  - (* section *)
    unfold parse_node_body.
    assert (N1 : strip_prefix (s ".label (") (s ".section " ++ name) = None) by reflexivity.
    assert (N2 : strip_prefix (s ".label ") (s ".section " ++ name) = None) by reflexivity.
    assert (N3 : strip_prefix (s ".align ") (s ".section " ++ name) = None) by reflexivity.
    rewrite N1, N2, N3, strip_prefix_app. reflexivity.
  - (* embedded label *)
    unfold parse_node_body. destruct (label_facts id H) as (_ & _ & _ & L).
    assert (N1 : strip_prefix (s ".label (") (s ".label " ++ label_text id) = None) by reflexivity.
    rewrite N1, strip_prefix_app, L. reflexivity.
  - (* embedded label delta *)
    destruct H as [H1 H2]. unfold parse_node_body. destruct (label_facts id H1) as (_ & _ & _ & L1). destruct (label_facts base H2) as (_ & _ & _ & L2).
    rewrite strip_prefix_app. change (s " - " ++ label_text base ++ s ")") with (spc :: "-"%char :: spc :: (label_text base ++ [")"%char])).
    rewrite split_at_app' by (apply label_no_space; unfold id_ok in H1; lia).
    change (Ascii.eqb "-" "-") with true. change (Ascii.eqb spc spc) with true. cbn [andb]. rewrite last_last, removelast_last.
    change (Ascii.eqb ")" ")") with true. cbv iota. rewrite L1, L2. reflexivity.
  - (* constant pool *)
    destruct H as [H1 H2]. unfold parse_node_body.
    assert (N1 : strip_prefix (s ".label (") (s "[ConstPool Size=" ++ dec sz ++ s " Alignment=" ++ dec al ++ s "]") = None) by reflexivity.
    assert (N2 : strip_prefix (s ".label ") (s "[ConstPool Size=" ++ dec sz ++ s " Alignment=" ++ dec al ++ s "]") = None) by reflexivity.
    assert (N3 : strip_prefix (s ".align ") (s "[ConstPool Size=" ++ dec sz ++ s " Alignment=" ++ dec al ++ s "]") = None) by reflexivity.
    assert (N4 : strip_prefix (s ".section ") (s "[ConstPool Size=" ++ dec sz ++ s " Alignment=" ++ dec al ++ s "]") = None) by reflexivity.
    rewrite N1, N2, N3, N4, strip_prefix_app. unfold read_two.
    change (first_char (s " Alignment=")) with spc. change (s " Alignment=" ++ dec al ++ s "]") with (spc :: (s "Alignment=" ++ (dec al ++ ["]"%char]))).
    rewrite split_at_app' by (apply dec_nospace; unfold id_ok in H1; lia).
    change (tl (s " Alignment=")) with (s "Alignment="). rewrite strip_prefix_app, last_last, removelast_last.
    change (Ascii.eqb "]" "]") with true. cbv iota. rewrite !parse_dec32_dec by assumption. reflexivity.
  - (* sentinel *)
    destruct fe; reflexivity.
Qed.

(* non-vacuity *)
Example ex_nodes : parse_node_body (s ".align 16 (code)") = Some (NAlign 16 true) /\ parse_node_body (s "[ConstPool Size=64 Alignment=16]") = Some (NConstPool 64 16) /\
  parse_node_body (s ".label (L2 - L5)") = Some (NEmbedLabelDelta 2 5 0) /\ parse_node_body (s "L7:") = Some (NLabel 7) /\ parse_node_body (s "[FuncEnd]") = Some (NSentinel true).
Proof. repeat split; vm_compute; reflexivity. Qed.

(* C20 — Builder instruction nodes (Formatter::format_node): from the node text with its inline comment the instruction and
   the comment are recovered *)
From Coq Require Import ZArith Bool Ascii String Lia.
From Coq Require Import List.
Import ListNotations.
From Verif Require Import Fmt.TextModel Fmt.TextProofs Fmt.X86FmtModel Fmt.X86FmtProofs Fmt.X86InstModel Fmt.X86InstProofs
  Fmt.LogLine Fmt.LogLineX86 Fmt.DataNode.
Local Open Scope Z_scope.

(* text ; comment  (no machine-code column, no newline: format_node appends neither) *)
Definition parse_node_line (l : text) : text * option text :=
  match split_at ";"%char l with
  | Some (lft, s0 :: cm) => if Ascii.eqb s0 spc then (rstrip lft, Some cm) else (l, None)
  | _ => (l, None)
  end.

Theorem node_line_roundtrip f i pad inline : inst_ok i ->
  let '(txt, cm) := parse_node_line (fmt_node f pad (NInst i) inline) in
  parse_inst txt = Some (canon_inst i) /\ cm = match inline with [] => None | _ => Some inline end.
Proof.
  intros Hi. destruct (inst_toks_wf f i Hi) as [W1 W2]. destruct (inst_allowed_last f i) as [A1 A2].
  pose proof (render_nosemi _ W1 A1) as NS. pose proof (render_ends _ W1 A2) as EN.
  fold (fmt_inst f i) in NS, EN.
  unfold fmt_node, node_body, parse_node_line. destruct inline as [|c0 cr].
  - rewrite split_at_none' by exact NS. split; [apply inst_roundtrip; assumption|reflexivity].
  - unfold pad_end. change (s "; ") with [";"%char; " "%char]. change " "%char with spc.
    rewrite <- app_assoc. cbn [app]. rewrite (app_assoc (fmt_inst f i)).
    rewrite split_at_app'.
    + rewrite Ascii.eqb_refl. rewrite rstrip_pad by exact EN. split; [apply inst_roundtrip; assumption|reflexivity].
    + apply Forall_app; split; [exact NS|]. generalize (pad - length (fmt_inst f i))%nat. intros n. induction n; constructor; auto.
Qed.

(* C20 — logger options: indentation (FormatIndentationGroup::kCode / kLabel) and the two paddings (FormatPaddingGroup::kRegularLine,
   kMachineCode; 0 selects the defaults 44 / 26) of EmitterUtils::log_instruction_emitted / log_label_bound.  The line still splits back
   into indentation, text, machine-code column and comment. *)
From Coq Require Import ZArith Bool Ascii String Lia.
From Coq Require Import List.
Import ListNotations.
From Verif Require Import Fmt.TextModel Fmt.TextProofs Fmt.X86FmtModel Fmt.X86FmtProofs Fmt.A64FmtModel Fmt.A64FmtProofs Fmt.LogLine.
Local Open Scope Z_scope.

Definition eff_pad (p dflt : nat) : nat := if Nat.eqb p 0 then dflt else p.

Definition log_line (indent : nat) (t : text) (pad1 pad2 : nat) (bin : option (list Z * nat * nat)) (comment : text) : text :=
  finish_line (repeat spc indent ++ t) (eff_pad pad1 44) (eff_pad pad2 26) bin comment.

(* the line logged when a label is bound: "L<id>:" ; with kMachineCode the (empty) column is still opened when there is a comment *)
Definition label_line (indent : nat) (lbl : text) (pad1 pad2 : nat) (mc : bool) (comment : text) : text :=
  log_line indent (lbl ++ [":"%char]) pad1 pad2 (if mc then Some ([], 0%nat, 0%nat) else None) comment.

Fixpoint count_sp (l : text) : nat :=
  match l with c :: r => if Ascii.eqb c spc then S (count_sp r) else 0%nat | [] => 0%nat end.

Definition parse_log_line_ind (l : text) : option (nat * text * text * text) :=
  match parse_log_line l with
  | Some (t, col, cm) => Some (count_sp t, drop_sp t, col, cm)
  | None => None
  end.

Definition starts_nonspace (t : text) : Prop := exists c r, t = c :: r /\ Ascii.eqb c spc = false.

Lemma count_sp_repeat n t : starts_nonspace t -> count_sp (repeat spc n ++ t) = n /\ drop_sp (repeat spc n ++ t) = t.
Proof.
  intros (c & r & -> & Hc). induction n as [|n [IH1 IH2]]; cbn [repeat app count_sp drop_sp].
  - rewrite Hc. split; reflexivity.
  - change (Ascii.eqb spc spc) with true. cbv iota. rewrite IH1, IH2. split; reflexivity.
Qed.

Theorem log_line_ind_roundtrip indent t pad1 pad2 bytes rel imm comment :
  Forall (fun c => Ascii.eqb c ";"%char = false) t -> starts_nonspace t -> ends_nonspace t ->
  Forall (fun v => 0 <= v < 256) bytes -> bytes <> [] ->
  parse_log_line_ind (log_line indent t pad1 pad2 (Some (bytes, rel, imm)) comment) = Some (indent, t, fmt_hexcol bytes rel imm, comment).
Proof.
  intros Hsemi Hs He Hb Hne. unfold parse_log_line_ind, log_line.
  rewrite log_line_roundtrip.
  - destruct (count_sp_repeat indent t Hs) as [C D]. rewrite C, D. reflexivity.
  - apply Forall_app. split; [|exact Hsemi]. clear. induction indent; cbn [repeat]; constructor; [reflexivity|assumption].
  - destruct He as (c & r & E & Hc). exists c, (r ++ rev (repeat spc indent)). split; [|exact Hc].
    rewrite rev_app_distr, E. reflexivity.
  - exact Hb.
  - exact Hne.
Qed.

(* without kMachineCode the comment takes the place of the column: a line does not say which of the two it shows *)
Lemma comment_or_column_witness :
  log_line 0 (s "nop") 0 0 None (s "90") = log_line 0 (s "nop") 0 0 (Some ([144], 0%nat, 0%nat)) [].
Proof. vm_compute. reflexivity. Qed.

(* ------------------------------------------------------------------ lines without bytes but with a comment under kMachineCode (a bound label with an
   inline comment): the column is opened and stays empty, "L5:   ;     | entry" *)
Lemma rstrip_spaces n : rstrip (repeat spc n) = [].
Proof. unfold rstrip. rewrite rev_repeat. rewrite <- (app_nil_r (repeat spc n)). rewrite drop_sp_repeat. reflexivity. Qed.

Theorem empty_column_line_roundtrip t pad1 pad2 comment :
  Forall (fun c => Ascii.eqb c ";"%char = false) t -> ends_nonspace t -> comment <> [] ->
  parse_log_line (finish_line t pad1 pad2 (Some ([], 0%nat, 0%nat)) comment) = Some (t, [], comment).
Proof.
  intros Hsemi Hend Hc.
  assert (Hpad_semi : forall n, Forall (fun c => Ascii.eqb c ";"%char = false) (t ++ repeat spc n)).
  { intros n. apply Forall_app; split; [exact Hsemi|]. induction n; constructor; auto. }
  unfold finish_line. cbn [length Nat.eqb negb orb].
  assert (Ec : Nat.eqb (length comment) 0 = false) by (destruct comment; [congruence|reflexivity]).
  rewrite Ec. cbn [negb]. unfold pad_end.
  change (fmt_hexcol [] 0 0) with (@nil ascii).
  change (s "; ") with [";"%char; " "%char]. change (s "| ") with ["|"%char; " "%char].
  change (ascii_of_nat 10) with nl. change " "%char with spc.
  unfold parse_log_line. rewrite rev_app_distr. cbn [rev app]. rewrite Ascii.eqb_refl. rewrite rev_involutive.
  repeat rewrite <- app_assoc. cbn [app]. rewrite (app_assoc t).
  rewrite split_at_app' by apply Hpad_semi. rewrite Ascii.eqb_refl.
  match goal with |- context [split_at "|"%char (repeat spc ?n ++ _)] => set (k := n) end.
  rewrite split_at_app' by (clear; induction k; constructor; auto).
  rewrite Ascii.eqb_refl. rewrite rstrip_pad by exact Hend. rewrite rstrip_spaces. reflexivity.
Qed.

Theorem label_line_roundtrip indent id pad1 pad2 comment : id_ok id -> comment <> [] ->
  parse_log_line_ind (label_line indent (label_text id) pad1 pad2 true comment) = Some (indent, label_text id ++ [":"%char], [], comment).
Proof.
  intros Hi Hc. unfold parse_log_line_ind, label_line, log_line.
  assert (NS : Forall (fun c => Ascii.eqb c ";"%char = false) (label_text id ++ [":"%char])).
  { apply Forall_app; split; [|repeat constructor]. unfold label_text. constructor; [reflexivity|].
    apply A64FmtProofs.dec_no; [unfold id_ok in Hi; lia|reflexivity]. }
  rewrite empty_column_line_roundtrip.
  - assert (S : starts_nonspace (label_text id ++ [":"%char])) by (exists "L"%char; eexists; split; reflexivity).
    destruct (count_sp_repeat indent _ S) as [C D]. rewrite C, D. reflexivity.
  - apply Forall_app. split; [|exact NS]. clear. induction indent; cbn [repeat]; constructor; [reflexivity|assumption].
  - exists ":"%char, (rev (label_text id) ++ rev (repeat spc indent)). split; [|reflexivity].
    rewrite !rev_app_distr. reflexivity.
  - exact Hc.
Qed.

(* C20 — canon_inst / canon_op are EXACTLY the kernel of printing: two well-formed instructions (operands) print the same text (under the same flags) if and
   only if their canonical forms are equal.  "Only if" is the text-injectivity corollary of the round trip, "if" is the frame condition of StrictOps.v.
   Plus: the canonical form is a fixed point of print-then-read, and the sequence-level lifts (equal logs <-> equal canonical programs). *)
From Coq Require Import ZArith Bool Ascii String Lia.
From Coq Require Import List.
Import ListNotations.
From Verif Require Import Fmt.TextModel Fmt.TextProofs Fmt.X86FmtModel Fmt.X86FmtProofs Fmt.X86InstModel Fmt.X86InstProofs
  Fmt.A64FmtModel Fmt.A64FmtProofs Fmt.A64InstProofs Fmt.Corollaries Fmt.LogLine Fmt.FuncLine Fmt.Transcript Fmt.LogInsts Fmt.Strict Fmt.StrictOps Fmt.PlainLog.
Local Open Scope Z_scope.

(* ------------------------------------------------------------------ single lines / operands *)
Theorem x86_inst_print_kernel f i1 i2 : inst_ok i1 -> inst_ok i2 -> (fmt_inst f i1 = fmt_inst f i2 <-> canon_inst i1 = canon_inst i2).
Proof.
  intros H1 H2. split.
  - apply x86_inst_text_injective; assumption.
  - intros E. transitivity (fmt_inst f (canon_inst i1)); [symmetry; apply fmt_inst_canon|rewrite E; apply fmt_inst_canon].
Qed.

Theorem x86_operand_print_kernel f o1 o2 : op_ok o1 -> op_ok o2 -> (fmt_operand f o1 = fmt_operand f o2 <-> canon_op o1 = canon_op o2).
Proof.
  intros H1 H2. split.
  - apply operand_text_injective; assumption.
  - intros E. transitivity (fmt_operand f (canon_op o1)); [symmetry; apply fmt_operand_canon|rewrite E; apply fmt_operand_canon].
Qed.

Theorem a64_inst_print_kernel f i1 i2 : a64_inst_ok i1 -> a64_inst_ok i2 ->
  (a64_fmt_inst true f i1 = a64_fmt_inst true f i2 <-> a64_canon_inst i1 = a64_canon_inst i2).
Proof.
  intros H1 H2. split.
  - apply a64_inst_text_injective; assumption.
  - intros E. transitivity (a64_fmt_inst true f (a64_canon_inst i1)); [symmetry; apply a64_fmt_inst_canon; exact H1|rewrite E; apply a64_fmt_inst_canon; exact H2].
Qed.

(* the canonical form is a fixed point of print-then-read (no well-formedness of canon_inst i needed) *)
Theorem x86_canon_fixed_point f i : inst_ok i -> parse_inst (fmt_inst f (canon_inst i)) = Some (canon_inst i).
Proof. intros H. rewrite fmt_inst_canon. apply inst_roundtrip; exact H. Qed.

Theorem a64_canon_fixed_point f i : a64_inst_ok i -> parse_a64_inst (a64_fmt_inst true f (a64_canon_inst i)) = Some (a64_canon_inst i).
Proof. intros H. rewrite (a64_fmt_inst_canon f i H). apply a64_inst_roundtrip; exact H. Qed.

(* ------------------------------------------------------------------ sequence level: programs *)
Lemma map_fmt_of_canon f (l1 l2 : list x86inst) : map canon_inst l1 = map canon_inst l2 -> map (fmt_inst f) l1 = map (fmt_inst f) l2.
Proof.
  revert l2. induction l1 as [|a l1 IH]; intros [|b l2] E; try discriminate; [reflexivity|]. cbn [map] in *. pose proof (f_equal (fun l => hd (canon_inst a) l) E) as E1. pose proof (f_equal (@tl _) E) as E2. cbn [hd tl] in E1, E2.
  f_equal; [|exact (IH l2 E2)]. transitivity (fmt_inst f (canon_inst a)); [symmetry; apply fmt_inst_canon|rewrite E1; apply fmt_inst_canon].
Qed.

(* two emission sequences with equal canonical instructions, equal bytes, displacement/immediate sizes and comments have the SAME log (completeness of
   C20_x86_log_injective: the log shows nothing but canonical instructions, bytes and comments) *)
Theorem x86_log_complete f pad1 pad2 (es1 es2 : list (emitted x86inst)) :
  map (fun e => canon_inst (m_inst _ e)) es1 = map (fun e => canon_inst (m_inst _ e)) es2 ->
  map (fun e => (m_bytes _ e, m_rel _ e, m_imm _ e, m_comment _ e)) es1 = map (fun e => (m_bytes _ e, m_rel _ e, m_imm _ e, m_comment _ e)) es2 ->
  log_of pad1 pad2 (map (to_emission _ (fmt_inst f)) es1) = log_of pad1 pad2 (map (to_emission _ (fmt_inst f)) es2).
Proof.
  revert es2. induction es1 as [|a es1 IH]; intros [|b es2] E1 E2; try discriminate; [reflexivity|].
  cbn [map] in E1, E2.
  pose proof (f_equal (fun l => hd (canon_inst (m_inst _ a)) l) E1) as C1. pose proof (f_equal (@tl _) E1) as C2. cbn [hd tl] in C1, C2.
  pose proof (f_equal (fun l => hd (m_bytes _ a, m_rel _ a, m_imm _ a, m_comment _ a) l) E2) as B0. pose proof (f_equal (@tl _) E2) as B5. cbn [hd tl] in B0, B5.
  injection B0 as B1 B2 B3 B4.
  unfold log_of in *. cbn [map concat]. rewrite (IH es2 C2 B5). f_equal.
  unfold to_emission. cbn [e_text e_bytes e_rel e_imm e_comment].
  rewrite B1, B2, B3, B4. f_equal. transitivity (fmt_inst f (canon_inst (m_inst _ a))); [symmetry; apply fmt_inst_canon|rewrite C1; apply fmt_inst_canon].
Qed.

(* AArch64: equal logs come from equal programs (the lift that round 6 stated for x86 only) *)
Theorem a64_log_injective f pad1 pad2 es1 es2 : Forall (emitted_ok _ a64_inst_ok) es1 -> Forall (emitted_ok _ a64_inst_ok) es2 ->
  log_of pad1 pad2 (map (to_emission _ (a64_fmt_inst true f)) es1) = log_of pad1 pad2 (map (to_emission _ (a64_fmt_inst true f)) es2) ->
  map (fun e => a64_canon_inst (m_inst _ e)) es1 = map (fun e => a64_canon_inst (m_inst _ e)) es2 /\ map (m_comment _) es1 = map (m_comment _) es2.
Proof.
  intros F1 F2 E. pose proof (a64_log_insts f pad1 pad2 es1 F1) as L1. pose proof (a64_log_insts f pad1 pad2 es2 F2) as L2.
  rewrite E in L1. destruct (parse_log _) as [ls|]; [|contradiction]. destruct L1 as (A1 & B1 & _), L2 as (A2 & B2 & _).
  split; [rewrite A1 in A2; inversion A2; reflexivity|rewrite <- B1, <- B2; reflexivity].
Qed.

(* logs without machine code: equal logs <-> equal canonical programs and comments (both directions, x86) *)
Theorem x86_plain_log_kernel f pad1 pad2 (es1 es2 : list (x86inst * text)) :
  Forall (fun e => inst_ok (fst e) /\ Forall nonl (snd e)) es1 -> Forall (fun e => inst_ok (fst e) /\ Forall nonl (snd e)) es2 ->
  (plain_log_of pad1 pad2 (map (fun e => {| q_text := fmt_inst f (fst e); q_comment := snd e |}) es1) =
   plain_log_of pad1 pad2 (map (fun e => {| q_text := fmt_inst f (fst e); q_comment := snd e |}) es2)
   -> map (fun e => canon_inst (fst e)) es1 = map (fun e => canon_inst (fst e)) es2 /\ map (fun e => opt_comment (snd e)) es1 = map (fun e => opt_comment (snd e)) es2).
Proof.
  intros F1 F2 E. pose proof (x86_plain_log_insts f pad1 pad2 es1 F1) as L1. pose proof (x86_plain_log_insts f pad1 pad2 es2 F2) as L2.
  rewrite E in L1. destruct (parse_plain_log _) as [ls|]; [|contradiction]. destruct L1 as (A1 & B1), L2 as (A2 & B2).
  split; [rewrite A1 in A2; inversion A2; reflexivity|rewrite <- B1, <- B2; reflexivity].
Qed.

(* non-vacuity: two different instruction records with one canonical form (an option that prints nothing differs: {sae} hidden by {er} is not even set here;
   we use the rounding control that is only printed with {er}) print alike; and records with different canonical forms print differently *)
Definition kx (rc : Z) : x86inst := {| i_mnem := s "add"; i_opts := {| o_vex := false; o_vex3 := false; o_evex := false; o_modrm := false; o_modmr := false;
  o_short := false; o_long := false; o_xacquire := false; o_xrelease := false; o_lock := false; o_rep := false; o_repne := false; o_rex := false;
  o_zmask := false; o_er := false; o_sae := false; o_rc := rc |}; i_extra := None; i_ops := [OReg Gp32 0; OImm 1] |}.
Example ex_kernel_same : kx 0 <> kx 2 /\ canon_inst (kx 0) = canon_inst (kx 2) /\ fmt_inst f00 (kx 0) = fmt_inst f00 (kx 2).
Proof. split; [intros E; inversion E|split; vm_compute; reflexivity]. Qed.
Example ex_kernel_diff : canon_inst (kx 0) <> canon_inst ex_i1 /\ fmt_inst f00 (kx 0) <> fmt_inst f00 ex_i1.
Proof. split; vm_compute; intros E; inversion E. Qed.

(* C20 — whole logs with a code indentation (FormatIndentationGroup::kCode): the capstone of LogInsts.v for ANY indentation - the readers recover the
   indentation of every line, the instructions, the comments and the bytes. *)
From Coq Require Import ZArith Bool Ascii String Lia.
From Coq Require Import List.
Import ListNotations.
From Verif Require Import Fmt.TextModel Fmt.TextProofs Fmt.X86FmtModel Fmt.X86FmtProofs Fmt.X86InstModel Fmt.X86InstProofs
  Fmt.A64FmtModel Fmt.A64FmtProofs Fmt.A64InstProofs Fmt.LogLine Fmt.LogLineX86 Fmt.LogLineA64 Fmt.LogOptions Fmt.FuncLine Fmt.Transcript Fmt.LogInsts.
Local Open Scope Z_scope.

(* ------------------------------------------------------------------ a rendered token list starts with a non-space when its first token is not a space *)
Definition head_ok (ts : list tok) : bool :=
  match ts with TId _ :: _ => true | TP c :: _ => negb (Ascii.eqb c spc) | [] => false end.

Lemma head_ok_app_l a b : head_ok a = true -> head_ok (a ++ b) = true.
Proof. destruct a as [|t a]; [discriminate|]. intros H. exact H. Qed.

Lemma head_ok_items specs : forall flags rest, head_ok rest = true -> head_ok (items specs flags ++ rest) = true.
Proof.
  induction specs as [|[br k] sr IH]; intros flags rest H; [exact H|]. destruct flags as [|b fr]; [exact H|]. cbn [items].
  destruct b; [|cbn [app]; apply IH; exact H]. rewrite <- app_assoc. apply head_ok_app_l. destruct br; reflexivity.
Qed.

Local Transparent tok_ok.
Lemma render_starts ts : forallb tok_ok ts = true -> head_ok ts = true -> starts_nonspace (render ts).
Proof.
  destruct ts as [|t ts]; [discriminate|]. intros W H. cbn [forallb] in W. apply andb_prop in W as [W _]. unfold render. cbn [flat_map].
  destruct t as [x|c]; cbn [render_tok].
  - cbn [tok_ok] in W. apply andb_prop in W as [Wl Wx]. destruct x as [|c x]; [discriminate Wl|]. cbn [forallb] in Wx. apply andb_prop in Wx as [Wc _].
    exists c. eexists. split; [reflexivity|]. apply ident_not; [reflexivity|exact Wc].
  - cbn [head_ok] in H. exists c. eexists. split; [reflexivity|]. destruct (Ascii.eqb c spc); [discriminate H|reflexivity].
Qed.
Local Opaque tok_ok.

Lemma x86_head_ok f i : head_ok (fmt_inst_toks f i) = true.
Proof.
  unfold fmt_inst_toks, prefix_toks. rewrite <- !app_assoc. apply head_ok_items.
  assert (R : head_ok (items specsR [o_rex (i_opts i)] ++ [TId (i_mnem i)] ++ ops_toks f (i_opts i) (i_extra i) true (i_ops i) ++ er_toks (i_opts i)) = true)
    by (apply head_ok_items; reflexivity).
  unfold regitem. destruct (o_rep (i_opts i) || o_repne (i_opts i)); [|exact R]. destruct (i_extra i) as [[t k]|]; [reflexivity|exact R].
Qed.

Lemma x86_text_starts f i : inst_ok i -> starts_nonspace (fmt_inst f i).
Proof. intros Hi. destruct (inst_toks_wf f i Hi) as [W1 _]. unfold fmt_inst. apply render_starts; [exact W1|apply x86_head_ok]. Qed.

(* ------------------------------------------------------------------ generic *)
Section Generic.
  Variables A B : Type.
  Variable txt : A -> text.
  Variable rd : text -> option B.
  Variable can : A -> B.
  Variable ok : A -> Prop.
  Hypothesis txt_ok : forall a, ok a -> Forall (fun c => Ascii.eqb c ";"%char = false) (txt a) /\ ends_nonspace (txt a) /\ Forall nonl (txt a).
  Hypothesis txt_starts : forall a, ok a -> starts_nonspace (txt a).
  Hypothesis rd_txt : forall a, ok a -> rd (txt a) = Some (can a).

  Variable indent : nat.
  Definition itxt (a : A) : text := repeat spc indent ++ txt a.
  Definition ird (t : text) : option (nat * B) := match rd (drop_sp t) with Some b => Some (count_sp t, b) | None => None end.

  Lemma itxt_ok a : ok a -> Forall (fun c => Ascii.eqb c ";"%char = false) (itxt a) /\ ends_nonspace (itxt a) /\ Forall nonl (itxt a).
  Proof.
    intros Ha. destruct (txt_ok a Ha) as (T1 & T2 & T3). unfold itxt. split; [|split].
    - apply Forall_app; split; [|exact T1]. clear. induction indent; constructor; [reflexivity|assumption].
    - destruct T2 as (c & r & E & Hc). exists c, (r ++ rev (repeat spc indent)). split; [|exact Hc]. rewrite rev_app_distr, E. reflexivity.
    - apply Forall_app; split; [|exact T3]. clear. induction indent; constructor; [reflexivity|assumption].
  Qed.

  Lemma ird_itxt a : ok a -> ird (itxt a) = Some (indent, can a).
  Proof.
    intros Ha. unfold ird, itxt. destruct (count_sp_repeat indent (txt a) (txt_starts a Ha)) as [C D]. rewrite C, D, (rd_txt a Ha). reflexivity.
  Qed.

  (* the capstone of LogInsts for the indented texts: every line gives back (indentation, instruction) *)
  Theorem log_insts_indented pad1 pad2 es : Forall (emitted_ok A ok) es ->
    match parse_log (log_of pad1 pad2 (map (to_emission A itxt) es)) with
    | Some ls =>
        read_insts _ ird ls = Some (map (fun e => (indent, can (m_inst A e))) es) /\
        map (fun l => snd l) ls = map (m_comment A) es /\
        (Forall (fun e => m_rel A e = 0%nat) es ->
         columns_bytes (map (fun l => snd (fst l)) ls) = Some (map Some (concat (map (m_bytes A) es))))
    | None => False
    end.
  Proof. exact (log_insts A (nat * B) itxt ird (fun a => (indent, can a)) ok itxt_ok ird_itxt pad1 pad2 es). Qed.
End Generic.

Theorem x86_log_insts_indented f indent pad1 pad2 es : Forall (emitted_ok _ inst_ok) es ->
  match parse_log (log_of pad1 pad2 (map (to_emission _ (itxt _ (fmt_inst f) indent)) es)) with
  | Some ls =>
      read_insts _ (ird _ parse_inst) ls = Some (map (fun e => (indent, canon_inst (m_inst _ e))) es) /\
      map (fun l => snd l) ls = map (m_comment _) es /\
      (Forall (fun e => m_rel _ e = 0%nat) es ->
       columns_bytes (map (fun l => snd (fst l)) ls) = Some (map Some (concat (map (m_bytes _) es))))
  | None => False
  end.
Proof. apply (log_insts_indented x86inst x86inst (fmt_inst f) parse_inst canon_inst inst_ok (x86_text_ok f) (x86_text_starts f) (inst_roundtrip f)). Qed.

Local Transparent tok_ok.
Lemma render_starts_id m rest : tok_ok (TId m) = true -> starts_nonspace (render (TId m :: rest)).
Proof.
  intros W. unfold render. cbn [flat_map render_tok]. cbn [tok_ok] in W. apply andb_prop in W as [Wl Wx].
  destruct m as [|c x]; [discriminate Wl|]. cbn [forallb] in Wx. apply andb_prop in Wx as [Wc _].
  exists c. eexists. split; [reflexivity|]. apply ident_not; [reflexivity|exact Wc].
Qed.
Local Opaque tok_ok.

Lemma a64_text_starts f i : a64_inst_ok i -> starts_nonspace (a64_fmt_inst true f i).
Proof. intros (Hm & Hc & _). unfold a64_fmt_inst, a64_inst_toks. apply render_starts_id. exact (proj2 (mnem_split i Hm Hc)). Qed.

Theorem a64_log_insts_indented f indent pad1 pad2 es : Forall (emitted_ok _ a64_inst_ok) es ->
  match parse_log (log_of pad1 pad2 (map (to_emission _ (itxt _ (a64_fmt_inst true f) indent)) es)) with
  | Some ls =>
      read_insts _ (ird _ parse_a64_inst) ls = Some (map (fun e => (indent, a64_canon_inst (m_inst _ e))) es) /\
      map (fun l => snd l) ls = map (m_comment _) es /\
      (Forall (fun e => m_rel _ e = 0%nat) es ->
       columns_bytes (map (fun l => snd (fst l)) ls) = Some (map Some (concat (map (m_bytes _) es))))
  | None => False
  end.
Proof.
  apply (log_insts_indented a64inst a64inst (a64_fmt_inst true f) parse_a64_inst a64_canon_inst a64_inst_ok (a64_text_ok f) (a64_text_starts f) (a64_inst_roundtrip f)).
Qed.

(* non-vacuity: the two-instruction log of LogInsts.v, indented by 3 *)
Example ex_log_indented_text :
  log_of 16 10 (map (to_emission _ (itxt _ (fmt_inst {| ff_hex_imms := false; ff_hex_offsets := false |}) 3)) ex_emitted)
  = s "   nop          ; 90" ++ [nl] ++ s "   add eax, 1   ; 83C001  | inc" ++ [nl].
Proof. vm_compute. reflexivity. Qed.
Example ex_log_indented_read :
  match parse_log (s "   nop          ; 90" ++ [nl] ++ s "   add eax, 1   ; 83C001  | inc" ++ [nl]) with
  | Some ls => read_insts _ (ird _ parse_inst) ls = Some [(3%nat, canon_inst ex_i1); (3%nat, canon_inst ex_i2)]
  | None => False
  end.
Proof.
  rewrite <- ex_log_indented_text.
  pose proof (x86_log_insts_indented {| ff_hex_imms := false; ff_hex_offsets := false |} 3 16 10 ex_emitted ex_emitted_ok) as H.
  destruct (parse_log _) as [ls|]; [|exact H]. destruct H as (H1 & _). exact H1.
Qed.

(* C20 — proofs about the x86 text model: register names parse back, operands parse back (for all ids, displacements,
   immediates and flag combinations) *)
From Coq Require Import ZArith Bool Ascii String Lia.
From Coq Require Import List.
Import ListNotations.
From Verif Require Import Fmt.TextModel Fmt.TextProofs Fmt.X86FmtModel.
Local Open Scope Z_scope.

Lemma text_eqb_refl x : text_eqb x x = true.
Proof. induction x as [|c x IH]; [reflexivity|]. cbn [text_eqb]. rewrite Ascii.eqb_refl, IH. reflexivity. Qed.

Lemma text_eqb_eq x y : text_eqb x y = true -> x = y.
Proof.
  revert y. induction x as [|c x IH]; intros [|d y] H; try discriminate; [reflexivity|].
  cbn [text_eqb] in H. apply andb_prop in H as [H1 H2]. apply Ascii.eqb_eq in H1. f_equal; auto.
Qed.

Definition is_lower (c : ascii) : bool := let n := code c in (97 <=? n) && (n <=? 122).

(* ------------------------------------------------------------------ registers: ids below 32 by reflection *)
Definition reg_small_check (t : x86rt) (n : nat) : bool :=
  let i := Z.of_nat n in
  let x := fmt_reg t i in
  match parse_reg_name x with
  | Some (t', i') => (rt_code t' =? rt_code t) && named t' && (i' =? i)
  | None => false
  end && is_lower (first_char x) && tok_ok (TId x).

Lemma reg_small_all : forallb (fun t => forallb (reg_small_check t) (seq 0 32)) named_rts = true.
Proof. vm_compute. reflexivity. Qed.

Lemma named_in t : named t = true -> In t named_rts.
Proof. destruct t; cbn; intros H; try discriminate; tauto. Qed.

Lemma rt_code_inj t t' : named t = true -> named t' = true -> rt_code t' = rt_code t -> t' = t.
Proof. destruct t, t'; cbn; intros; try discriminate; try reflexivity; lia. Qed.

Lemma reg_small t i : named t = true -> 0 <= i < 32 ->
  parse_reg_name (fmt_reg t i) = Some (t, i) /\ is_lower (first_char (fmt_reg t i)) = true /\
  tok_ok (TId (fmt_reg t i)) = true.
Proof.
  intros Ht Hi.
  pose proof reg_small_all as A. rewrite forallb_forall in A. specialize (A t (named_in t Ht)).
  rewrite forallb_forall in A. specialize (A (Z.to_nat i)).
  assert (Hin : In (Z.to_nat i) (seq 0 32)) by (apply in_seq; lia).
  specialize (A Hin). unfold reg_small_check in A. rewrite Z2Nat.id in A by lia.
  apply andb_prop in A as [A A3]. apply andb_prop in A as [A1 A2].
  split; [|split; assumption].
  destruct (parse_reg_name (fmt_reg t i)) as [[t' i']|] eqn:E; [|discriminate].
  apply andb_prop in A1 as [C1 C2]. apply andb_prop in C1 as [C1 C3]. apply Z.eqb_eq in C1, C2. subst i'.
  f_equal. f_equal. apply rt_code_inj; assumption.
Qed.

(* ------------------------------------------------------------------ registers: ids from 32 up print as type@id *)
Lemma fmt_reg_big t i : named t = true -> 32 <= i -> fmt_reg t i = type_string t ++ at_c :: dec i.
Proof.
  intros Ht Hi. unfold fmt_reg, x86_arch_name, gp_name, upto.
  destruct (Z.ltb_spec i 0); [lia|].
  destruct (Z.ltb_spec i 4); [lia|]. destruct (Z.ltb_spec i 8); [lia|]. destruct (Z.ltb_spec i 16); [lia|].
  destruct (Z.ltb_spec i 32); [lia|].
  destruct (Z.leb_spec i 6); [lia|]. rewrite andb_false_r.
  destruct (Z.eqb_spec i 0); [lia|].
  destruct t; try reflexivity; discriminate.
Qed.

Lemma split_type_string t r : named t = true ->
  split_at at_c (type_string t ++ at_c :: r) = Some (type_string t, r) .
Proof. intros Ht. destruct t; try discriminate; reflexivity. Qed.

Lemma assoc_type_string t : named t = true -> assoc (type_string t) type_table = Some t.
Proof. destruct t; intros; try discriminate; reflexivity. Qed.

Lemma reg_big t i : named t = true -> 32 <= i < two32 ->
  parse_reg_name (fmt_reg t i) = Some (t, i) /\ is_lower (first_char (fmt_reg t i)) = true /\
  tok_ok (TId (fmt_reg t i)) = true.
Proof.
  intros Ht Hi. assert (Hi64 : 0 <= i < two64) by (unfold two32, two64 in *; lia).
  split; [|split].
  - pose proof (fmt_reg_big t i Ht ltac:(lia)) as B.
    assert (D : parse_digits 10 (dec i) 0 = Some i) by (apply digits_roundtrip; lia).
    unfold parse_reg_name. rewrite B.
    rewrite split_type_string by assumption. rewrite assoc_type_string by assumption. rewrite D.
    destruct (Z.ltb_spec i two32); [|lia]. cbn [andb].
    rewrite B, text_eqb_refl. reflexivity.
  - rewrite fmt_reg_big by (auto; lia). destruct t; try discriminate; reflexivity.
  - rewrite fmt_reg_big by (auto; lia). cbn [tok_ok]. rewrite forallb_app. cbn [forallb].
    unfold dec. rewrite digits_ident by lia.
    destruct t; try discriminate; reflexivity.
Qed.

Lemma reg_facts t i : reg_ok t i ->
  parse_reg_name (fmt_reg t i) = Some (t, i) /\ is_lower (first_char (fmt_reg t i)) = true /\
  tok_ok (TId (fmt_reg t i)) = true.
Proof.
  intros [Ht Hi]. unfold id_ok in Hi. destruct (Z.lt_ge_cases i 32); [apply reg_small|apply reg_big]; auto; lia.
Qed.

Lemma reg_names_injective t1 i1 t2 i2 :
  named t1 = true -> 0 <= i1 < two32 -> named t2 = true -> 0 <= i2 < two32 ->
  fmt_reg t1 i1 = fmt_reg t2 i2 -> t1 = t2 /\ i1 = i2.
Proof.
  intros H1 I1 H2 I2 E.
  pose proof (proj1 (reg_facts t1 i1 (conj H1 I1))) as P1.
  pose proof (proj1 (reg_facts t2 i2 (conj H2 I2))) as P2.
  rewrite E in P1. rewrite P1 in P2. inversion P2. auto.
Qed.

(* ------------------------------------------------------------------ small facts used by the operand round trip *)
Lemma lower_not_digit c : is_lower c = true -> is_digit10 c = false.
Proof.
  unfold is_lower, is_digit10. intros H. apply andb_prop in H as [H1 H2]. apply Z.leb_le in H1.
  destruct (Z.leb_spec (code c) 57); [lia|]. apply andb_false_r.
Qed.

Lemma lower_not_label x : is_lower (first_char x) = true -> parse_label_text x = None.
Proof.
  destruct x as [|c r]; [reflexivity|]. cbn [first_char parse_label_text]. intros H.
  destruct (Ascii.eqb_spec c "L"%char) as [->|]; [discriminate H|reflexivity].
Qed.

Lemma reg_base_facts t i : reg_ok t i ->
  starts_digit (fmt_reg t i) = false /\ parse_base (fmt_reg t i) = Some (MBReg t i) /\
  parse_reg_name (fmt_reg t i) = Some (t, i) /\ tok_ok (TId (fmt_reg t i)) = true /\
  parse_label_text (fmt_reg t i) = None.
Proof.
  intros H. destruct (reg_facts t i H) as (H1 & H2 & H3).
  pose proof (lower_not_label _ H2) as H4.
  repeat split; try assumption.
  - unfold starts_digit. apply lower_not_digit; assumption.
  - unfold parse_base. rewrite H4, H1. reflexivity.
Qed.

Lemma dec_all_digits n : 0 <= n -> forallb is_digit10 (dec n) = true.
Proof.
  intros. apply forallb_Forall. unfold dec. apply digits_forall; try lia. intros; apply digit_char_dec; assumption.
Qed.

Lemma label_facts id : id_ok id ->
  starts_digit (label_text id) = false /\ parse_base (label_text id) = Some (MBLabel id) /\
  tok_ok (TId (label_text id)) = true /\ parse_label_text (label_text id) = Some id.
Proof.
  intros H. unfold id_ok in H.
  assert (H64 : 0 <= id < two64) by (unfold two32, two64 in *; lia).
  assert (L : parse_label_text (label_text id) = Some id).
  { unfold parse_label_text, label_text. cbn [Ascii.eqb Bool.eqb andb].
    unfold dec at 1. rewrite digits_length_pos. cbn [negb andb]. rewrite dec_all_digits by lia.
    unfold dec. rewrite digits_roundtrip by (auto; lia).
    destruct (Z.ltb_spec id two32); [reflexivity|lia]. }
  repeat split; try assumption.
  - unfold parse_base. rewrite L. reflexivity.
  - unfold label_text. cbn [tok_ok length Nat.eqb negb andb forallb]. unfold dec. rewrite digits_ident by lia. reflexivity.
Qed.

Lemma mag_facts h v : 0 <= v <= two63 ->
  starts_digit (fmt_mag h v) = true /\ parse_ulit (fmt_mag h v) = Some v /\ tok_ok (TId (fmt_mag h v)) = true /\
  is_hex_lit (fmt_mag h v) = h && (9 <? v).
Proof.
  intros H. assert (H64 : 0 <= v < two64) by (unfold two63, two64 in *; lia).
  unfold fmt_mag. destruct (h && (9 <? v)).
  - repeat split; try reflexivity.
    + apply parse_ulit_hex; assumption.
    + cbn [tok_ok length Nat.eqb negb andb forallb]. rewrite digits_ident by lia. reflexivity.
  - repeat split.
    + apply (dec_starts_digit v); lia.
    + apply parse_ulit_dec; assumption.
    + cbn [tok_ok]. rewrite digits_length_pos, digits_ident by lia. reflexivity.
    + unfold is_hex_lit.
      pose proof (digits_forall (fun c => Ascii.eqb c "x"%char = false) 10 v ltac:(lia) ltac:(lia)
                    (fun d Hd => digit_char_not_x d ltac:(lia))) as F.
      destruct (digits 10 v) as [|c0 [|cx r]]; try reflexivity.
      inversion F as [|? ? _ F2]; subst. inversion F2; subst. assumption.
Qed.

Lemma parse_mag_pos h v : 0 <= v < two63 -> parse_mag false (fmt_mag h v) = Some v.
Proof.
  intros H. unfold parse_mag. destruct (mag_facts h v ltac:(lia)) as (_ & -> & _).
  destruct (Z.ltb_spec v two63); [reflexivity|lia].
Qed.

Lemma parse_mag_neg h v : 0 <= v <= two63 -> parse_mag true (fmt_mag h v) = Some (- v).
Proof.
  intros H. unfold parse_mag. destruct (mag_facts h v ltac:(lia)) as (_ & -> & _).
  destruct (Z.leb_spec v two63); [reflexivity|lia].
Qed.

Lemma scale_facts sh : 1 <= sh <= 3 ->
  parse_scale (dec (2 ^ sh)) = Some sh /\ tok_ok (TId (dec (2 ^ sh))) = true /\ starts_digit (dec (2 ^ sh)) = true.
Proof.
  intros H. assert (C : sh = 1 \/ sh = 2 \/ sh = 3) by lia.
  destruct C as [-> | [-> | ->]]; vm_compute; auto.
Qed.

(* ------------------------------------------------------------------ memory operand body *)
Definition body_canon (m : x86mem) : membase * option (x86rt * Z) * Z * Z :=
  match m_base m, m_index m with
  | MBNone, Some (t, i) => if m_shift m =? 0 then (MBReg t i, None, 0, m_off m) else (MBNone, Some (t, i), m_shift m, m_off m)
  | b, ix => (b, ix, m_shift m, m_off m)
  end.

Definition body_wf (ts : list tok) : Prop :=
  forallb tok_ok ts = true /\ no_adjacent_ids ts = true.

Ltac off_cases off Hoff :=
  let E := fresh "E" in
  destruct (Z.eqb_spec off 0) as [E|E];
  [ subst off
  | destruct (Z.ltb_spec off 0) ].

Local Opaque fmt_reg dec digits label_text fmt_mag parse_reg_name parse_base parse_mag parse_scale starts_digit tok_ok.

Lemma body_roundtrip f m : mem_ok m ->
  parse_body (mem_body_toks f m ++ [P "]"]) = Some (body_canon m) /\
  peel_addr (mem_body_toks f m ++ [P "]"]) = (0, mem_body_toks f m ++ [P "]"]) /\
  forallb tok_ok (mem_body_toks f m) = true /\ no_adjacent_ids (mem_body_toks f m ++ [P "]"]) = true.
Proof.
  destruct m as [sz sg ad b ix sh off bc]. unfold mem_ok. cbn [m_size m_seg m_addr m_base m_index m_shift m_off].
  intros (_ & _ & _ & Hb & Hix & Hoff).
  unfold body_canon, mem_body_toks, off_toks. cbn [m_size m_seg m_addr m_base m_index m_shift m_off].
  remember (ff_hex_offsets f) as h eqn:Eh; clear Eh.
  assert (Mpos : 0 < off -> parse_mag false (fmt_mag h off) = Some off) by (intros; apply parse_mag_pos; lia).
  assert (Mneg : off < 0 -> parse_mag true (fmt_mag h (- off)) = Some off).
  { intros. rewrite parse_mag_neg by lia. f_equal. lia. }
  assert (Mz : parse_mag false (fmt_mag h 0) = Some 0) by (apply parse_mag_pos; unfold two63; lia).
  assert (Ms1 : 0 <= off -> starts_digit (fmt_mag h off) = true) by (intros; apply mag_facts; lia).
  assert (Ms2 : off < 0 -> starts_digit (fmt_mag h (- off)) = true) by (intros; apply mag_facts; lia).
  assert (Mt1 : 0 <= off -> tok_ok (TId (fmt_mag h off)) = true) by (intros; apply mag_facts; lia).
  assert (Mt2 : off < 0 -> tok_ok (TId (fmt_mag h (- off))) = true) by (intros; apply mag_facts; lia).
  assert (Tp : forall c : string, is_ident_char (first_char (s c)) = false -> tok_ok (P c) = true).
  { intros c Hc. Local Transparent tok_ok. unfold P. cbn [tok_ok]. rewrite Hc. reflexivity. Local Opaque tok_ok. }
  pose proof (Tp "+"%string eq_refl) as TpP. pose proof (Tp "-"%string eq_refl) as TpM. pose proof (Tp "*"%string eq_refl) as TpS.
  destruct b as [|lid|bt bi]; cbn [base_ok] in Hb;
  [ | destruct (label_facts lid Hb) as (B1 & B2 & B3 & B4) | destruct (reg_base_facts bt bi Hb) as (B1 & B2 & B3 & B4 & B5) ];
  (destruct ix as [[it ii]|];
   [ destruct Hix as [Hix Hsh]; destruct (reg_base_facts it ii Hix) as (I1 & I2 & I3 & I4 & I5);
     assert (Csh : sh = 0 \/ 1 <= sh <= 3) by lia;
     destruct Csh as [-> | Csh];
     [ | destruct (scale_facts sh Csh) as (S1 & S2 & S3); destruct (Z.eqb_spec sh 0) as [?|_]; [lia|] ]
   | subst sh ]);
  off_cases off Hoff;
  unfold base_toks, index_toks, off_toks, has_base;
  repeat match goal with
         | |- context [?a <? 0] => destruct (Z.ltb_spec a 0); [try lia|try lia]
         | |- context [?a =? 0] => destruct (Z.eqb_spec a 0); [try lia|try lia]
         end;
  cbn;
  rewrite ?B1, ?B2, ?B3, ?I1, ?I2, ?I3, ?S1, ?Mz; cbn;
  rewrite ?B1, ?B2, ?B3, ?B4, ?I1, ?I2, ?I3, ?I4, ?S1, ?S2, ?S3, ?Ms1, ?Ms2, ?Mt1, ?Mt2, ?Mpos, ?Mneg, ?Mz, ?TpP, ?TpM, ?TpS by lia; cbn;
  rewrite ?B1, ?B2, ?B3, ?B4, ?I1, ?I2, ?I3, ?I4, ?S1, ?S2, ?S3, ?Ms1, ?Ms2, ?Mt1, ?Mt2, ?Mpos, ?Mneg, ?Mz, ?TpP, ?TpM, ?TpS by lia; cbn;
  auto.
Qed.

(* ------------------------------------------------------------------ memory operand: prefix parts *)
Local Transparent tok_ok.

Lemma arch_size_cases z : In z arch_sizes ->
  z = 0 \/ z = 1 \/ z = 2 \/ z = 4 \/ z = 6 \/ z = 8 \/ z = 10 \/ z = 16 \/ z = 32 \/ z = 64.
Proof. cbn. intuition. Qed.

Lemma seg_cases g : 0 <= g <= 6 -> g = 0 \/ g = 1 \/ g = 2 \/ g = 3 \/ g = 4 \/ g = 5 \/ g = 6.
Proof. lia. Qed.

Ltac split_or H := repeat (destruct H as [H | H]; [subst | ]); [.. | subst].

Lemma peel_size_ok z g R : In z arch_sizes -> 0 <= g <= 6 ->
  peel_size (size_toks z ++ seg_toks g ++ P "[" :: R) = Some (z, seg_toks g ++ P "[" :: R).
Proof.
  intros Hz Hg. apply arch_size_cases in Hz. apply seg_cases in Hg.
  split_or Hz; split_or Hg; try reflexivity; destruct R; reflexivity.
Qed.

Lemma peel_seg_ok g R : 0 <= g <= 6 -> peel_seg (seg_toks g ++ P "[" :: R) = Some (g, P "[" :: R).
Proof.
  intros Hg. apply seg_cases in Hg.
  split_or Hg; try reflexivity;
    (unfold seg_toks; cbn [Z.leb Z.compare andb app peel_seg isP first_char s list_ascii_of_string P];
     cbn [Ascii.eqb Bool.eqb andb];
     match goal with |- context [parse_reg_name (fmt_reg SReg ?k)] =>
       rewrite (proj1 (reg_facts SReg k ltac:(split; [reflexivity|unfold id_ok, two32; lia]))) end; reflexivity).
Qed.

Lemma peel_addr_ok a R : 0 <= a <= 2 -> peel_addr R = (0, R) -> peel_addr (addr_toks a ++ R) = (a, R).
Proof.
  intros Ha H0. assert (C : a = 0 \/ a = 1 \/ a = 2) by lia. destruct C as [-> | [-> | ->]]; [exact H0|reflexivity|reflexivity].
Qed.

Definition mem_prefix (m : x86mem) : list tok :=
  size_toks (m_size m) ++ seg_toks (m_seg m) ++ [P "["] ++ addr_toks (m_addr m).

Lemma mem_prefix_wf m : In (m_size m) arch_sizes -> 0 <= m_seg m <= 6 -> 0 <= m_addr m <= 2 ->
  forallb tok_ok (mem_prefix m) = true /\ no_adjacent_ids (mem_prefix m) = true /\ ends_with_punct (mem_prefix m) = true /\
  existsb (isP "[") (mem_prefix m) = true.
Proof.
  unfold mem_prefix. generalize (m_size m) (m_seg m) (m_addr m). intros z g a Hz Hg Ha.
  apply arch_size_cases in Hz. apply seg_cases in Hg.
  assert (C : a = 0 \/ a = 1 \/ a = 2) by lia.
  split_or Hz; split_or Hg; split_or C; vm_compute; auto.
Qed.

Lemma fmt_mem_split f m : fmt_mem_toks f m = mem_prefix m ++ mem_body_toks f m ++ [P "]"].
Proof. unfold fmt_mem_toks, mem_prefix. repeat rewrite <- app_assoc. reflexivity. Qed.

Lemma mem_toks_roundtrip f m : mem_ok m ->
  parse_mem_toks (fmt_mem_toks f m) = Some (canon_mem m) /\
  forallb tok_ok (fmt_mem_toks f m) = true /\ no_adjacent_ids (fmt_mem_toks f m) = true /\
  existsb (isP "[") (fmt_mem_toks f m) = true.
Proof.
  intros Hm. pose proof Hm as (Hz & Hg & Ha & _).
  destruct (body_roundtrip f m Hm) as (B1 & B2 & B3 & B4).
  destruct (mem_prefix_wf m Hz Hg Ha) as (P1 & P2 & P3 & P4).
  split; [|split; [|split]].
  - unfold parse_mem_toks, fmt_mem_toks.
    change ([P "["] ++ addr_toks (m_addr m) ++ mem_body_toks f m ++ [P "]"])
      with (P "[" :: (addr_toks (m_addr m) ++ mem_body_toks f m ++ [P "]"])).
    rewrite peel_size_ok by assumption. rewrite peel_seg_ok by assumption.
    change (isP "[" (P "[")) with true. cbv iota.
    rewrite (peel_addr_ok _ _ Ha B2). rewrite B1.
    unfold body_canon, canon_mem.
    destruct (m_base m), (m_index m) as [[? ?]|]; try reflexivity.
    destruct (m_shift m =? 0); reflexivity.
  - rewrite fmt_mem_split, !forallb_app, P1, B3. reflexivity.
  - rewrite fmt_mem_split. apply no_adj_app; auto.
  - rewrite fmt_mem_split, existsb_app, P4. reflexivity.
Qed.

Lemma sext64_mod v : - two63 <= v < two63 -> sext64 (v mod two64) = v.
Proof.
  intros H. unfold sext64, two63, two64 in *.
  destruct (Z.ltb_spec (v mod 18446744073709551616) 9223372036854775808) as [L|L];
    pose proof (Z.mod_pos_bound v 18446744073709551616 ltac:(lia));
    pose proof (Z.div_mod v 18446744073709551616 ltac:(lia)); lia.
Qed.

Local Transparent fmt_mag tok_ok.
Lemma fmt_mag_dec v : fmt_mag false v = digits 10 v.
Proof. reflexivity. Qed.
Lemma fmt_mag_hex v : 9 <? v = true -> fmt_mag true v = "0"%char :: "x"%char :: digits 16 v.
Proof. intros H. unfold fmt_mag. rewrite H. reflexivity. Qed.
Lemma tok_ok_hexlit u : 0 <= u -> tok_ok (TId ("0"%char :: "x"%char :: digits 16 u)) = true.
Proof. intros H. cbn [tok_ok length Nat.eqb negb andb forallb]. rewrite digits_ident by lia. reflexivity. Qed.
Local Opaque fmt_mag tok_ok.

Lemma op_toks_roundtrip f o : op_ok o ->
  parse_op_toks (fmt_op_toks f o) = Some (canon_op o) /\
  forallb tok_ok (fmt_op_toks f o) = true /\ no_adjacent_ids (fmt_op_toks f o) = true.
Proof.
  destruct o as [|t i|m|v|id]; cbn [op_ok fmt_op_toks canon_op]; intros H.
  - vm_compute. auto.
  - destruct (reg_base_facts t i H) as (B1 & B2 & B3 & B4 & B5).
    unfold parse_op_toks. cbn. rewrite B1, B5, B3, B4. auto.
  - destruct (mem_toks_roundtrip f m H) as (M1 & M2 & M3 & M4).
    unfold parse_op_toks. rewrite M4, M1. auto.
  - unfold fmt_imm_toks.
    assert (Hu : 0 <= v mod two64 < two64) by (apply Z.mod_pos_bound; unfold two64; lia).
    destruct (ff_hex_imms f && (9 <? v mod two64)) eqn:Eh.
    + (* hexadecimal, unsigned 64-bit pattern *)
      assert (F : fmt_mag true (v mod two64) = "0"%char :: "x"%char :: digits 16 (v mod two64)).
      { apply fmt_mag_hex. apply andb_prop in Eh as [_ E9]. exact E9. }
      rewrite <- F.
      assert (Hle : 0 <= v mod two64 <= two63 \/ two63 < v mod two64) by lia.
      (* facts about the literal do not depend on the magnitude bound used for offsets: redo them for any u < 2^64 *)
      assert (L1 : starts_digit (fmt_mag true (v mod two64)) = true) by (rewrite F; reflexivity).
      assert (L2 : parse_ulit (fmt_mag true (v mod two64)) = Some (v mod two64)) by (rewrite F; apply parse_ulit_hex; assumption).
      assert (L3 : is_hex_lit (fmt_mag true (v mod two64)) = true) by (rewrite F; reflexivity).
      assert (L4 : tok_ok (TId (fmt_mag true (v mod two64))) = true).
      { rewrite F. apply tok_ok_hexlit. lia. }
      unfold parse_op_toks. cbn. rewrite L1, L2, L3, L4.
      destruct (Z.ltb_spec (v mod two64) two64); [|lia]. rewrite sext64_mod by assumption. auto.
    + destruct (Z.ltb_spec v 0).
      * destruct (mag_facts false (- v) ltac:(lia)) as (G1 & G2 & G3 & G4).
        pose proof (fmt_mag_dec (- v)) as F.
        rewrite <- F. unfold parse_op_toks. cbn. rewrite parse_mag_neg by lia. rewrite G3.
        replace (- - v) with v by lia. auto.
      * destruct (mag_facts false v ltac:(lia)) as (G1 & G2 & G3 & G4).
        pose proof (fmt_mag_dec v) as F.
        rewrite <- F. unfold parse_op_toks. cbn. rewrite G1, G2, G4, G3. cbn.
        destruct (Z.ltb_spec v two63); [auto|lia].
  - destruct (label_facts id H) as (B1 & B2 & B3 & B4).
    unfold parse_op_toks. cbn. rewrite B1, B4, B3. auto.
Qed.

Theorem operand_roundtrip f o : op_ok o -> parse_operand (fmt_operand f o) = Some (canon_op o).
Proof.
  intros H. destruct (op_toks_roundtrip f o H) as (R1 & R2 & R3).
  unfold parse_operand, fmt_operand. rewrite lex_render by assumption. exact R1.
Qed.

(* the text determines the operand, whatever the format flags were on either side *)
Corollary operand_text_injective f1 f2 o1 o2 : op_ok o1 -> op_ok o2 ->
  fmt_operand f1 o1 = fmt_operand f2 o2 -> canon_op o1 = canon_op o2.
Proof.
  intros H1 H2 E. pose proof (operand_roundtrip f1 o1 H1) as R1. pose proof (operand_roundtrip f2 o2 H2) as R2.
  rewrite E in R1. rewrite R1 in R2. inversion R2. reflexivity.
Qed.

Lemma canon_mem_id m : (m_base m <> MBNone \/ m_index m = None \/ m_shift m <> 0) -> m_bcst m = 0 -> canon_mem m = m.
Proof.
  destruct m as [sz sg ad b ix sh off bc]. cbn. intros H ->. unfold canon_mem. cbn.
  destruct b; destruct ix as [[? ?]|]; try reflexivity.
  destruct (Z.eqb_spec sh 0); [|reflexivity]. subst. destruct H as [H | [H | H]]; congruence.
Qed.

(* ------------------------------------------------------------------ what the text does NOT determine (witnesses) *)
Definition mk_mem sz b ix sh off :=
  {| m_size := sz; m_seg := 0; m_addr := 0; m_base := b; m_index := ix; m_shift := sh; m_off := off; m_bcst := 0 |}.

Ltac solve_ok :=
  unfold op_ok, mem_ok, mk_mem, base_ok, reg_ok, id_ok, arch_sizes, two32, two63; cbn;
  repeat split; try reflexivity; try lia.

Lemma unscaled_index_witness :
  let o1 := OMem (mk_mem 8 MBNone (Some (Gp64, 3)) 0 16) in
  let o2 := OMem (mk_mem 8 (MBReg Gp64 3) None 0 16) in
  op_ok o1 /\ op_ok o2 /\ o1 <> o2 /\
  fmt_operand {| ff_hex_imms := false; ff_hex_offsets := false |} o1 = fmt_operand {| ff_hex_imms := false; ff_hex_offsets := false |} o2.
Proof.
  cbv zeta. split; [|split; [|split]].
  - solve_ok.
  - solve_ok.
  - discriminate.
  - vm_compute. reflexivity.
Qed.

Lemma odd_size_witness :
  let o1 := OMem (mk_mem 3 (MBReg Gp64 3) None 0 0) in
  let o2 := OMem (mk_mem 0 (MBReg Gp64 3) None 0 0) in
  o1 <> o2 /\
  fmt_operand {| ff_hex_imms := false; ff_hex_offsets := false |} o1 = fmt_operand {| ff_hex_imms := false; ff_hex_offsets := false |} o2.
Proof. cbv zeta. split; [discriminate|vm_compute; reflexivity]. Qed.

Example operand_roundtrip_nonvacuous :
  let o := OMem {| m_size := 64; m_seg := 5; m_addr := 2; m_base := MBLabel 7; m_index := Some (Zmm, 31); m_shift := 3;
                   m_off := - two63; m_bcst := 0 |} in
  op_ok o /\ parse_operand (fmt_operand {| ff_hex_imms := true; ff_hex_offsets := true |} o) = Some o.
Proof.
  cbv zeta. split.
  - solve_ok.
  - vm_compute. reflexivity.
Qed.

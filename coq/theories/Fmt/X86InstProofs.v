(* C20 — whole x86 instruction lines parse back *)
From Coq Require Import ZArith Bool Ascii String Lia.
From Coq Require Import List.
Import ListNotations.
From Verif Require Import Fmt.TextModel Fmt.TextProofs Fmt.X86FmtModel Fmt.X86FmtProofs Fmt.X86InstModel.
Local Open Scope Z_scope.

(* ------------------------------------------------------------------ prefix items *)
Definition differs (br : bool) (k : string) (spec : bool * string) : bool :=
  negb (Bool.eqb br (fst spec)) || negb (text_eqb (s (snd spec)) (s k)).

Fixpoint distinct (specs : list (bool * string)) : bool :=
  match specs with
  | [] => true
  | (br, k) :: r => forallb (differs br k) r && distinct r
  end.

Lemma peel_item_hit br k X : X <> [] -> peel_item br k (item_toks br k ++ X) = (true, X).
Proof.
  intros HX. destruct br; unfold item_toks, brace, kw; cbn [app peel_item isP P first_char s list_ascii_of_string].
  - cbn [Ascii.eqb Bool.eqb andb]. rewrite text_eqb_refl. reflexivity.
  - rewrite text_eqb_refl. destruct X; [congruence|]. reflexivity.
Qed.

Lemma peel_item_miss_items br k sr : forall fr R, forallb (differs br k) sr = true ->
  peel_item br k R = (false, R) -> peel_item br k (items sr fr ++ R) = (false, items sr fr ++ R).
Proof.
  induction sr as [|[br' k'] sr IH]; intros fr R Hd HR; [exact HR|].
  cbn [forallb] in Hd. apply andb_prop in Hd as [Hd1 Hd2].
  destruct fr as [|b' fr]; [exact HR|]. cbn [items].
  destruct b'; [|cbn [app]; apply IH; assumption].
  unfold differs in Hd1. cbn [fst snd] in Hd1.
  rewrite <- app_assoc.
  destruct br, br'; unfold item_toks, brace, kw; cbn [app peel_item isP P first_char s list_ascii_of_string];
    cbn [Ascii.eqb Bool.eqb andb negb orb] in *; try reflexivity.
  - apply negb_true_iff in Hd1. rewrite Hd1. reflexivity.
  - apply negb_true_iff in Hd1. rewrite Hd1. reflexivity.
Qed.

Lemma items_nonempty_app specs flags R : R <> [] -> items specs flags ++ R <> [].
Proof. intros HR E. apply app_eq_nil in E as [_ E]. congruence. Qed.

Lemma parse_items_ok : forall specs flags R, length flags = length specs -> distinct specs = true ->
  (forall spec, In spec specs -> peel_item (fst spec) (snd spec) R = (false, R)) -> R <> [] ->
  parse_items specs (items specs flags ++ R) = (flags, R).
Proof.
  induction specs as [|[br k] sr IH]; intros flags R Hl Hd HR Hne.
  - destruct flags; [reflexivity|discriminate].
  - destruct flags as [|b fr]; [discriminate|]. cbn [length] in Hl. injection Hl as Hl.
    cbn [distinct] in Hd. apply andb_prop in Hd as [Hd1 Hd2].
    cbn [items parse_items]. rewrite <- app_assoc.
    assert (HX : items sr fr ++ R <> []) by (apply items_nonempty_app; assumption).
    assert (IH' : parse_items sr (items sr fr ++ R) = (fr, R)).
    { apply IH; auto. intros spec Hin. apply HR. right. exact Hin. }
    destruct b.
    + rewrite peel_item_hit by assumption. rewrite IH'. reflexivity.
    + cbn [app]. rewrite peel_item_miss_items; auto.
      * rewrite IH'. reflexivity.
      * apply (HR (br, k)). left. reflexivity.
Qed.

(* ------------------------------------------------------------------ prefix of a line *)
Definition kwlist : list string := ["short"; "long"; "xacquire"; "xrelease"; "lock"; "rep"; "repnz"; "rex"]%string.
Definition mnem_ok (m : text) : Prop :=
  tok_ok (TId m) = true /\ forallb (fun k => negb (text_eqb m (s k))) kwlist = true.

Lemma reg_not_word t i (k : string) : reg_ok t i -> parse_reg_name (s k) = None -> text_eqb (fmt_reg t i) (s k) = false.
Proof.
  intros H Hk. destruct (text_eqb (fmt_reg t i) (s k)) eqn:E; [|reflexivity].
  apply text_eqb_eq in E. pose proof (proj1 (reg_facts t i H)) as P. rewrite E, Hk in P. discriminate.
Qed.

Lemma brace_words_not_regs t i : reg_ok t i ->
  text_eqb (fmt_reg t i) (s "vex") = false /\ text_eqb (fmt_reg t i) (s "vex3") = false /\
  text_eqb (fmt_reg t i) (s "evex") = false /\ text_eqb (fmt_reg t i) (s "modrm") = false /\
  text_eqb (fmt_reg t i) (s "modmr") = false.
Proof. intros H. repeat split; apply reg_not_word; auto; vm_compute; reflexivity. Qed.

Local Opaque fmt_reg parse_reg_name tok_ok.

Lemma parse_prefix_ok f o ex m rest : mnem_ok m ->
  match ex with Some (t, i) => reg_ok t i | None => True end ->
  parse_prefix (prefix_toks f o ex ++ TId m :: rest) =
  (flagsA o, (if o_rep o || o_repne o then ex else None), o_rex o, TId m :: rest).
Proof.
  intros [Hm1 Hm2] Hex. unfold parse_prefix, prefix_toks. rewrite <- !app_assoc.
  cbn [forallb kwlist] in Hm2.
  repeat (apply andb_prop in Hm2 as [?H Hm2]).
  repeat match goal with H : negb _ = true |- _ => apply negb_true_iff in H end.
  repeat match goal with H : text_eqb m _ = false |- _ => progress cbn [s list_ascii_of_string] in H end.
  set (R1 := regitem f o ex ++ items specsR [o_rex o] ++ TId m :: rest).
  assert (Hne1 : R1 <> []).
  { subst R1. intros E. apply app_eq_nil in E as [_ E]. apply app_eq_nil in E as [_ E]. discriminate. }
  assert (Side : forall spec, In spec specsA -> peel_item (fst spec) (snd spec) R1 = (false, R1)).
  { intros spec Hin. subst R1. unfold regitem.
    destruct (o_rep o || o_repne o); [destruct ex as [[t i]|]|];
      try (destruct (brace_words_not_regs t i Hex) as (N1 & N2 & N3 & N4 & N5); cbn [s list_ascii_of_string] in N1, N2, N3, N4, N5);
      destruct (o_rex o); cbn [items specsR item_toks app fmt_op_toks brace];
      cbn [In specsA] in Hin;
      repeat (destruct Hin as [<- | Hin];
              [ cbn [fst snd peel_item isP P first_char s list_ascii_of_string app kw Ascii.eqb Bool.eqb andb];
                rewrite ?N1, ?N2, ?N3, ?N4, ?N5; try reflexivity;
                repeat match goal with H : text_eqb m _ = false |- _ => rewrite H end; try reflexivity | ]);
      try contradiction. }
  rewrite (parse_items_ok specsA (flagsA o) R1 eq_refl eq_refl Side Hne1).
  assert (Hrp : nthb (flagsA o) 10 || nthb (flagsA o) 11 = o_rep o || o_repne o).
  { cbn. destruct (o_rep o), (o_repne o); reflexivity. }
  rewrite Hrp. subst R1. unfold regitem.
  assert (Side2 : forall spec, In spec specsR -> peel_item (fst spec) (snd spec) (TId m :: rest) = (false, TId m :: rest)).
  { intros spec [<-|[]]. cbn [fst snd peel_item s list_ascii_of_string]. rewrite H6. reflexivity. }
  assert (PR : parse_items specsR (items specsR [o_rex o] ++ TId m :: rest) = ([o_rex o], TId m :: rest)).
  { apply parse_items_ok; auto. discriminate. }
  destruct (o_rep o || o_repne o).
  - destruct ex as [[t i]|].
    + cbn [fmt_op_toks brace app peel_reg isP P first_char s list_ascii_of_string Ascii.eqb Bool.eqb andb].
      rewrite (proj1 (reg_facts t i Hex)). change (isP " " sp) with true. cbv iota. rewrite PR. reflexivity.
    + cbn [app].
      assert (PG : peel_reg (items specsR [o_rex o] ++ TId m :: rest) = (None, items specsR [o_rex o] ++ TId m :: rest)).
      { destruct (o_rex o); reflexivity. }
      rewrite PG, PR. reflexivity.
  - cbn [app]. rewrite PR. reflexivity.
Qed.

(* ------------------------------------------------------------------ operand tokens contain neither "," nor "{" *)
Definition nocomma (t : tok) : bool := negb (isP "," t).
Definition plain (t : tok) : bool := negb (isP "," t) && negb (isP "{" t).

Lemma plain_nocomma l : forallb plain l = true -> forallb nocomma l = true.
Proof.
  induction l as [|t l IH]; [reflexivity|]. cbn [forallb]. intros H. apply andb_prop in H as [H1 H2].
  unfold plain in H1. apply andb_prop in H1 as [H1 _]. rewrite (IH H2). unfold nocomma at 1. rewrite H1. reflexivity.
Qed.

Lemma op_toks_plain f o : forallb plain (fmt_op_toks f o) = true.
Proof.
  destruct o as [|t i|m|v|id]; cbn [fmt_op_toks]; try reflexivity.
  - unfold fmt_mem_toks, mem_body_toks, size_toks, seg_toks, addr_toks, base_toks, index_toks, off_toks.
    rewrite !forallb_app.
    destruct (size_word (m_size m)); destruct ((1 <=? m_seg m) && (m_seg m <=? 6));
      destruct (m_addr m =? 1); destruct (m_addr m =? 2); destruct (m_base m); destruct (m_index m) as [[? ?]|];
      cbn [has_base]; try destruct (m_shift m =? 0); destruct ((m_off m =? 0) && _); try destruct (m_off m <? 0);
      reflexivity.
  - unfold fmt_imm_toks. destruct (ff_hex_imms f && _); [reflexivity|]. destruct (v <? 0); reflexivity.
Qed.

Lemma split_commas_pass l : forall cur rest, forallb nocomma l = true ->
  split_commas cur (l ++ rest) = split_commas (rev l ++ cur) rest.
Proof.
  induction l as [|t l IH]; intros cur rest H; [reflexivity|].
  cbn [forallb] in H. apply andb_prop in H as [H1 H2]. unfold nocomma in H1. apply negb_true_iff in H1.
  cbn [app split_commas]. rewrite H1. rewrite IH by assumption. cbn [rev]. rewrite <- app_assoc. reflexivity.
Qed.

Lemma split_commas_last l cur : forallb nocomma l = true -> split_commas cur l = [rev cur ++ l].
Proof.
  intros H. rewrite <- (app_nil_r l) at 1. rewrite split_commas_pass by assumption. cbn [split_commas].
  rewrite rev_app_distr, rev_involutive. reflexivity.
Qed.

Lemma split_deco_pass l : forall cur D, forallb plain l = true -> (D = [] \/ exists D', D = sp :: P "{" :: D') ->
  split_deco cur (l ++ D) = (rev cur ++ l, match D with [] => [] | _ :: r => r end).
Proof.
  induction l as [|t l IH]; intros cur D Hp HD.
  - cbn [app]. rewrite app_nil_r. destruct HD as [-> | [D' ->]]; reflexivity.
  - cbn [forallb] in Hp. apply andb_prop in Hp as [H1 H2].
    assert (Hnext : split_deco cur ((t :: l) ++ D) = split_deco (t :: cur) (l ++ D)).
    { cbn [app split_deco]. destruct (isP " " t); [|reflexivity].
      destruct l as [|t1 l'].
      - cbn [app]. destruct HD as [-> | [D' ->]]; reflexivity.
      - cbn [app]. cbn [forallb] in H2. apply andb_prop in H2 as [H2 _]. unfold plain in H2.
        apply andb_prop in H2 as [_ H2]. apply negb_true_iff in H2. rewrite H2. reflexivity. }
    rewrite Hnext, IH by assumption. cbn [rev]. rewrite <- app_assoc. reflexivity.
Qed.

(* ------------------------------------------------------------------ one operand chunk: operand, {k}{z}, {1toN} *)
Definition op_vis_ok (op : x86op) : Prop :=
  op_ok op /\ match op with OMem m => 0 <= m_bcst m <= 6 | _ => True end.

Definition ex_ok (ex : option (x86rt * Z)) : Prop := match ex with Some (t, i) => reg_ok t i | None => True end.

Definition d0 : deco := {| d_mask := None; d_z := false; d_bcst := 0 |}.
Definition deco_of (o : x86opts) (ex : option (x86rt * Z)) (first : bool) (op : x86op) : deco :=
  {| d_mask := if first then match ex with Some (KReg, i) => Some (KReg, i) | _ => None end else None;
     d_z := first && o_zmask o;
     d_bcst := match op with OMem m => m_bcst m | _ => 0 end |}.
Definition deco_toks (o : x86opts) (ex : option (x86rt * Z)) (first : bool) (op : x86op) : list tok :=
  (if first then mask_toks o ex else []) ++ bcst_toks op.
Definition chunk (f : fflags) (o : x86opts) (ex : option (x86rt * Z)) (first : bool) (op : x86op) : list tok :=
  fmt_op_toks f op ++ deco_toks o ex first op.

Lemma word_facts :
  parse_reg_name (s "z") = None /\
  forall k, 1 <= k <= 6 ->
    parse_reg_name (s "1to" ++ dec (2 ^ k)) = None /\ text_eqb (s "1to" ++ dec (2 ^ k)) (s "z") = false /\
    parse_1to (s "1to" ++ dec (2 ^ k)) = Some k.
Proof.
  split; [vm_compute; reflexivity|]. intros k Hk.
  assert (C : k = 1 \/ k = 2 \/ k = 3 \/ k = 4 \/ k = 5 \/ k = 6) by lia.
  destruct C as [-> | [-> | [-> | [-> | [-> | ->]]]]]; vm_compute; auto.
Qed.

Lemma deco_ok o ex first op : ex_ok ex -> op_vis_ok op ->
  let D := deco_toks o ex first op in
  (D = [] \/ exists D', D = sp :: P "{" :: D') /\
  parse_deco (S (length (tl D))) d0 (tl D) = Some (deco_of o ex first op) /\
  forallb nocomma D = true.
Proof.
  intros Hex [_ Hb]. destruct word_facts as [Wz W1]. cbv zeta. unfold deco_toks, deco_of, mask_toks, bcst_toks, brace.
  assert (B : forall m, 0 <= m_bcst m <= 6 ->
            m_bcst m = 0 \/ (m_bcst m <> 0 /\ parse_reg_name (s "1to" ++ dec (2 ^ m_bcst m)) = None /\
                             text_eqb (s "1to" ++ dec (2 ^ m_bcst m)) (s "z") = false /\
                             parse_1to (s "1to" ++ dec (2 ^ m_bcst m)) = Some (m_bcst m))).
  { intros m Hm. destruct (Z.eq_dec (m_bcst m) 0); [left; assumption|right]. split; [assumption|]. apply W1. lia. }
  assert (K : forall i, reg_ok KReg i -> parse_reg_name (fmt_reg KReg i) = Some (KReg, i)) by (intros; apply reg_facts; assumption).
  cbn [s list_ascii_of_string app] in Wz.
  destruct first; [destruct ex as [[t i]|]; [destruct t|]|]; cbn [ex_ok] in Hex;
    destruct (o_zmask o); destruct op as [|? ?|m|?|?]; cbn [andb app];
    try (destruct (B m Hb) as [E0 | (En & B1 & B2 & B3)];
         [ rewrite E0; cbn [Z.eqb] | destruct (Z.eqb_spec (m_bcst m) 0); [contradiction|]; cbn [s list_ascii_of_string app] in B1, B2, B3 ]);
    repeat (cbn [app tl length parse_deco d_mask d_z d_bcst isP P kw first_char s list_ascii_of_string Ascii.eqb Bool.eqb andb sp text_eqb];
            rewrite ?(K _ Hex), ?Wz, ?B1, ?B2, ?B3);
    (split; [first [left; reflexivity | right; eexists; reflexivity]|]); (split; [try reflexivity|reflexivity]).
Qed.


Lemma op_toks_head f op : exists t0 r0, fmt_op_toks f op = t0 :: r0 /\ isP "{" t0 = false.
Proof.
  pose proof (op_toks_plain f op) as Pl.
  destruct (fmt_op_toks f op) as [|t0 r0] eqn:E.
  - exfalso. destruct op as [|t i|m|v|id]; cbn [fmt_op_toks] in E; try discriminate.
    + unfold fmt_mem_toks in E. destruct (size_toks (m_size m)); [|discriminate].
      destruct (seg_toks (m_seg m)); discriminate.
    + unfold fmt_imm_toks in E. destruct (ff_hex_imms f && _); [discriminate|]. destruct (v <? 0); discriminate.
  - exists t0, r0. split; [reflexivity|]. cbn [forallb] in Pl. apply andb_prop in Pl as [Pl _].
    unfold plain in Pl. apply andb_prop in Pl as [_ Pl]. apply negb_true_iff in Pl. exact Pl.
Qed.

Lemma set_bcst_keep op : op_vis_ok op ->
  set_bcst (match op with OMem m => m_bcst m | _ => 0 end) (canon_op op) = keep_bcst op.
Proof. destruct op; reflexivity. Qed.

(* one step of parse_chunks on the chunk of a visible operand *)
Lemma chunk_step f o ex first op r acc mask z : ex_ok ex -> op_vis_ok op ->
  parse_chunks first (chunk f o ex first op :: r) acc mask z =
  if first then parse_chunks false r (keep_bcst op :: acc) (d_mask (deco_of o ex true op)) (d_z (deco_of o ex true op))
  else parse_chunks false r (keep_bcst op :: acc) mask z.
Proof.
  intros Hex Hop. pose proof Hop as [Hok _].
  destruct (op_toks_head f op) as (t0 & r0 & E0 & H0).
  destruct (deco_ok o ex first op Hex Hop) as (D1 & D2 & D3). cbv zeta in D1, D2, D3.
  destruct (op_toks_roundtrip f op Hok) as (R1 & _ & _).
  assert (SD := split_deco_pass (fmt_op_toks f op) [] (deco_toks o ex first op) (op_toks_plain f op) D1).
  unfold chunk. remember (fmt_op_toks f op ++ deco_toks o ex first op) as c eqn:Ec.
  assert (Ec' : c = t0 :: (r0 ++ deco_toks o ex first op)) by (rewrite Ec, E0; reflexivity).
  cbn [parse_chunks]. rewrite Ec' at 1. rewrite H0. rewrite SD. clear SD.
  assert (True) by exact I.
  try rewrite (split_deco_pass (fmt_op_toks f op) [] (deco_toks o ex first op) (op_toks_plain f op) D1).
  cbn [rev app]. rewrite R1.
  change (match deco_toks o ex first op with [] => [] | _ :: r1 => r1 end) with (tl (deco_toks o ex first op)).
  change {| d_mask := None; d_z := false; d_bcst := 0 |} with d0. rewrite D2.
  destruct first.
  - cbn [deco_of d_bcst]. rewrite (set_bcst_keep op Hop). reflexivity.
  - cbn [deco_of d_mask d_z d_bcst andb]. rewrite (set_bcst_keep op Hop). reflexivity.
Qed.

(* ------------------------------------------------------------------ the operand list and the {er}/{sae} tail *)
Definition er_chunk (o : x86opts) : list (list tok) :=
  if o_er o then [brace [kw (rc_name (o_rc o)); P "-"; kw "sae"]]
  else if o_sae o then [brace [kw "sae"]] else [].
Definition tail_of (o : x86opts) : bool * bool * Z :=
  (o_er o, negb (o_er o) && o_sae o, if o_er o then o_rc o else 0).

Lemma er_toks_chunk o : er_toks o = match er_chunk o with c :: _ => [P ","; sp] ++ c | [] => [] end.
Proof. unfold er_toks, er_chunk. destruct (o_er o); [reflexivity|]. destruct (o_sae o); reflexivity. Qed.

Lemma parse_chunks_er o acc mask z : 0 <= o_rc o <= 3 ->
  parse_chunks false (er_chunk o) acc mask z = Some (rev acc, mask, z, tail_of o).
Proof.
  intros Hrc. unfold er_chunk, tail_of.
  destruct (o_er o).
  - assert (C : o_rc o = 0 \/ o_rc o = 1 \/ o_rc o = 2 \/ o_rc o = 3) by lia.
    destruct C as [-> | [-> | [-> | ->]]]; reflexivity.
  - destruct (o_sae o); reflexivity.
Qed.

Lemma er_chunk_nocomma o : Forall (fun c => forallb nocomma c = true) (er_chunk o).
Proof.
  unfold er_chunk. destruct (o_er o); [constructor; [reflexivity|constructor]|].
  destruct (o_sae o); [constructor; [reflexivity|constructor]|constructor].
Qed.

Definition vis_ok (op : x86op) : Prop := op_vis_ok op /\ op <> ONone.

Lemma parse_rest f o ex : ex_ok ex -> 0 <= o_rc o <= 3 -> forall r acc mask z, Forall vis_ok r ->
  parse_chunks false (map (chunk f o ex false) r ++ er_chunk o) acc mask z =
  Some (rev acc ++ map keep_bcst r, mask, z, tail_of o).
Proof.
  intros Hex Hrc. induction r as [|op r IH]; intros acc mask z Hr.
  - cbn [map app]. rewrite app_nil_r. apply parse_chunks_er; assumption.
  - inversion Hr as [|? ? [Hop _] Hr']; subst. cbn [map app].
    rewrite chunk_step by assumption. rewrite IH by assumption. cbn [rev map]. rewrite <- app_assoc. reflexivity.
Qed.

Lemma ops_toks_cons f o ex first op r : op <> ONone ->
  ops_toks f o ex first (op :: r) =
  (if first then [sp] else [P ","; sp]) ++ chunk f o ex first op ++ ops_toks f o ex false r.
Proof.
  intros Hn. unfold chunk, deco_toks. destruct op; try congruence; cbn [ops_toks]; rewrite <- ?app_assoc; reflexivity.
Qed.

Lemma chunk_nocomma f o ex first op : ex_ok ex -> op_vis_ok op -> forallb nocomma (chunk f o ex first op) = true.
Proof.
  intros Hex Hop. unfold chunk. rewrite forallb_app, (plain_nocomma _ (op_toks_plain f op)).
  destruct (deco_ok o ex first op Hex Hop) as (_ & _ & D3). exact D3.
Qed.

Lemma split_rest f o ex : ex_ok ex -> forall r cur, Forall vis_ok r ->
  split_commas cur (ops_toks f o ex false r ++ er_toks o) = rev cur :: (map (chunk f o ex false) r ++ er_chunk o).
Proof.
  intros Hex. induction r as [|op r IH]; intros cur Hr.
  - cbn [ops_toks map app]. rewrite er_toks_chunk.
    pose proof (er_chunk_nocomma o) as N. destruct (er_chunk o) as [|c l] eqn:E.
    + reflexivity.
    + inversion N; subst. cbn [app split_commas isP P first_char s list_ascii_of_string Ascii.eqb Bool.eqb sp].
      rewrite split_commas_last by assumption. cbn [rev app].
      unfold er_chunk in E. destruct (o_er o); [inversion E; reflexivity|]. destruct (o_sae o); inversion E; reflexivity.
  - inversion Hr as [|? ? [Hop Hn] Hr']; subst.
    rewrite ops_toks_cons by assumption. cbn [app]. rewrite <- !app_assoc.
    cbn [split_commas isP P first_char s list_ascii_of_string Ascii.eqb Bool.eqb sp].
    rewrite split_commas_pass by (apply chunk_nocomma; assumption).
    rewrite app_nil_r. rewrite IH by assumption. rewrite rev_involutive. reflexivity.
Qed.

(* ------------------------------------------------------------------ whole lines, token level *)
Definition inst_ok (i : x86inst) : Prop :=
  mnem_ok (i_mnem i) /\ ex_ok (i_extra i) /\ 0 <= o_rc (i_opts i) <= 3 /\
  Forall op_vis_ok (until_none (i_ops i)) /\
  (o_rep (i_opts i) || o_repne (i_opts i)) && is_mask (i_extra i) = false.

Lemma until_none_not_none ops : Forall (fun op => op <> ONone) (until_none ops).
Proof. induction ops as [|op r IH]; [constructor|]. destruct op; cbn [until_none]; constructor; auto; discriminate. Qed.

Lemma ops_toks_until f o ex ops : forall first, ops_toks f o ex first ops = ops_toks f o ex first (until_none ops).
Proof.
  induction ops as [|op r IH]; intros first; [reflexivity|].
  destruct op; cbn [until_none ops_toks]; try reflexivity; rewrite (IH false); reflexivity.
Qed.

Lemma er_chunk_single o c l : er_chunk o = c :: l -> l = [].
Proof. unfold er_chunk. destruct (o_er o); [intros E; inversion E; reflexivity|]. destruct (o_sae o); intros E; inversion E; reflexivity. Qed.

Lemma extra_canon_none o (ex : option (x86rt * Z)) :
  (if o_rep o || o_repne o then ex else None) =
  match ex with
  | Some (KReg, k) => if false || (o_rep o || o_repne o) then Some (KReg, k) else None
  | Some r => if o_rep o || o_repne o then Some r else None
  | None => None
  end.
Proof. destruct ex as [[[] ?]|]; destruct (o_rep o || o_repne o); reflexivity. Qed.

Theorem inst_toks_roundtrip f i : inst_ok i -> parse_inst_toks (fmt_inst_toks f i) = Some (canon_inst i).
Proof.
  destruct i as [m o ex ops]. unfold inst_ok. cbn [i_mnem i_opts i_extra i_ops].
  intros (Hm & Hex & Hrc & Hops & Hamb).
  unfold fmt_inst_toks. cbn [i_mnem i_opts i_extra i_ops].
  change ([TId m] ++ ops_toks f o ex true ops ++ er_toks o) with (TId m :: (ops_toks f o ex true ops ++ er_toks o)).
  unfold parse_inst_toks. rewrite parse_prefix_ok by assumption.
  rewrite ops_toks_until. unfold canon_inst. cbn [i_mnem i_opts i_extra i_ops].
  pose proof (until_none_not_none ops) as Hnn.
  destruct (until_none ops) as [|op0 r] eqn:Ev.
  - (* no operand printed *)
    cbn [ops_toks app map]. rewrite er_toks_chunk.
    pose proof (er_chunk_nocomma o) as N. pose proof (parse_chunks_er o [] None false Hrc) as PE.
    destruct (er_chunk o) as [|c l] eqn:Ee.
    + unfold er_chunk in Ee. destruct (o_er o) eqn:E1; [discriminate|]. destruct (o_sae o) eqn:E2; [discriminate|].
      f_equal. unfold opts_of, flagsA, nthb. cbn [nth negb andb]. rewrite andb_false_r.
      rewrite extra_canon_none. reflexivity.
    + pose proof (er_chunk_single o c l Ee) as ->. inversion N as [|? ? Nc _]; subst.
      cbn [app isP P first_char s list_ascii_of_string Ascii.eqb Bool.eqb sp].
      rewrite split_commas_last by assumption. cbn [rev app]. rewrite PE. cbn [rev].
      unfold tail_of.
      rewrite <- (extra_canon_none o ex).
      destruct (if o_rep o || o_repne o then ex else None);
        (f_equal; unfold opts_of, flagsA, nthb; cbn [nth negb andb]; rewrite andb_false_r; reflexivity).
  - (* at least one operand *)
    inversion Hops as [|? ? Hop0 Hr]; subst. inversion Hnn as [|? ? Hn0 Hnr]; subst.
    assert (Hvr : Forall vis_ok r).
    { clear - Hr Hnr. induction r; constructor; inversion Hr; inversion Hnr; subst; [split; assumption|auto]. }
    rewrite ops_toks_cons by assumption. cbn [app isP P first_char s list_ascii_of_string Ascii.eqb Bool.eqb sp].
    rewrite <- app_assoc. rewrite split_commas_pass by (apply chunk_nocomma; assumption).
    rewrite app_nil_r. rewrite split_rest by assumption. rewrite rev_involutive.
    rewrite chunk_step by assumption. rewrite parse_rest by assumption.
    cbn [rev app map deco_of d_mask d_z andb].
    (* mask and rep register are never both present *)
    assert (Hcase : (o_rep o || o_repne o = false) \/ is_mask ex = false).
    { destruct (o_rep o || o_repne o); [right; exact Hamb|left; reflexivity]. }
    destruct ex as [[t k]|].
    + destruct Hcase as [Hrp | Hmk].
      * rewrite Hrp. destruct t; (f_equal; unfold opts_of, flagsA, nthb, tail_of; cbn [nth negb andb orb]; rewrite ?andb_true_r; reflexivity).
      * destruct t; cbn [is_mask] in Hmk; try discriminate;
          destruct (o_rep o || o_repne o); (f_equal; unfold opts_of, flagsA, nthb, tail_of; cbn [nth negb andb orb]; rewrite ?andb_true_r; reflexivity).
    + destruct (o_rep o || o_repne o); (f_equal; unfold opts_of, flagsA, nthb, tail_of; cbn [nth negb andb orb]; rewrite ?andb_true_r; reflexivity).
Qed.

(* ------------------------------------------------------------------ the token list is well formed (so that lexing gives it back) *)
Local Transparent tok_ok.

Lemma last_app_ne {A} (a b : list A) d : b <> [] -> last (a ++ b) d = last b d.
Proof.
  intros Hb. induction a as [|x a IH]; [reflexivity|].
  cbn [app]. destruct (a ++ b) eqn:E; [apply app_eq_nil in E as [_ E]; congruence|]. exact IH.
Qed.

Lemma ends_punct_app a b : ends_with_punct a = true -> ends_with_punct b = true -> ends_with_punct (a ++ b) = true.
Proof.
  intros Ha Hb. destruct b as [|t b]; [rewrite app_nil_r; exact Ha|].
  unfold ends_with_punct in *. rewrite last_app_ne by discriminate. exact Hb.
Qed.

Definition wf3 (ts : list tok) : Prop :=
  forallb tok_ok ts = true /\ no_adjacent_ids ts = true.

Lemma wf3_app a b : wf3 a -> wf3 b -> (ends_with_punct a = true \/ starts_with_id b = false) -> wf3 (a ++ b).
Proof.
  intros [A1 A2] [B1 B2] H. split; [rewrite forallb_app, A1, B1; reflexivity|apply no_adj_app; assumption].
Qed.

Lemma items_wf specs : forallb (fun sp0 => tok_ok (kw (snd sp0))) specs = true ->
  forall flags, wf3 (items specs flags) /\ ends_with_punct (items specs flags) = true.
Proof.
  intros Hs. induction specs as [|[br k] sr IH]; intros flags; [split; [split|]; reflexivity|].
  cbn [forallb snd] in Hs. apply andb_prop in Hs as [Hk Hs]. specialize (IH Hs).
  destruct flags as [|b fr]; [split; [split|]; reflexivity|]. cbn [items].
  destruct (IH fr) as [W E].
  destruct b; [|cbn [app]; split; assumption].
  assert (WI : wf3 (item_toks br k) /\ ends_with_punct (item_toks br k) = true).
  { destruct br; unfold item_toks, brace; cbn [app]; (split; [split|]; cbn [forallb no_adjacent_ids kw]; try reflexivity);
      unfold kw in *; rewrite ?Hk; reflexivity. }
  destruct WI as [WI EI]. split; [apply wf3_app; auto|apply ends_punct_app; assumption].
Qed.

Lemma word_tok_ok k : 1 <= k <= 6 -> tok_ok (TId (s "1to" ++ dec (2 ^ k))) = true.
Proof.
  intros Hk. assert (C : k = 1 \/ k = 2 \/ k = 3 \/ k = 4 \/ k = 5 \/ k = 6) by lia.
  destruct C as [-> | [-> | [-> | [-> | [-> | ->]]]]]; vm_compute; reflexivity.
Qed.

Lemma deco_wf o ex first op : ex_ok ex -> op_vis_ok op ->
  wf3 (deco_toks o ex first op) /\ starts_with_id (deco_toks o ex first op) = false.
Proof.
  intros Hex [_ Hb]. unfold deco_toks, mask_toks, bcst_toks, brace.
  assert (K : forall i, reg_ok KReg i -> tok_ok (TId (fmt_reg KReg i)) = true) by (intros; apply reg_facts; assumption).
  assert (B : forall m, 0 <= m_bcst m <= 6 -> m_bcst m = 0 \/ (m_bcst m <> 0 /\ tok_ok (TId (s "1to" ++ dec (2 ^ m_bcst m))) = true)).
  { intros m Hm. destruct (Z.eq_dec (m_bcst m) 0); [left; assumption|right]. split; [assumption|apply word_tok_ok; lia]. }
  destruct first; [destruct ex as [[t i]|]; [destruct t|]|]; cbn [ex_ok] in Hex;
    destruct (o_zmask o); destruct op as [|? ?|m|?|?]; cbn [app];
    try (destruct (B m Hb) as [E0 | (En & B1)];
         [ rewrite E0; cbn [Z.eqb] | destruct (Z.eqb_spec (m_bcst m) 0); [contradiction|] ]);
    (split; [split|]); cbn [app forallb no_adjacent_ids starts_with_id sp P kw];
    try rewrite (K _ Hex); try rewrite B1; try reflexivity.
Qed.

Lemma chunk_wf f o ex first op : ex_ok ex -> op_vis_ok op -> wf3 (chunk f o ex first op).
Proof.
  intros Hex Hop. pose proof Hop as [Hok _]. destruct (op_toks_roundtrip f op Hok) as (_ & R2 & R3).
  destruct (deco_wf o ex first op Hex Hop) as [DW DS].
  unfold chunk. apply wf3_app; [split; assumption|assumption|right; exact DS].
Qed.

Lemma ops_wf f o ex : ex_ok ex -> forall ops first, Forall vis_ok ops ->
  wf3 (ops_toks f o ex first ops) /\ starts_with_id (ops_toks f o ex first ops) = false.
Proof.
  intros Hex. induction ops as [|op r IH]; intros first Hv; [split; [split|]; reflexivity|].
  inversion Hv as [|? ? [Hop Hn] Hr]; subst. rewrite ops_toks_cons by assumption.
  destruct (IH false Hr) as [WR SR]. pose proof (chunk_wf f o ex first op Hex Hop) as WC.
  assert (WS : wf3 (if first then [sp] else [P ","; sp]) /\ ends_with_punct (if first then [sp] else [P ","; sp]) = true)
    by (destruct first; split; try split; reflexivity).
  destruct WS as [WS ES]. split.
  - apply wf3_app; [exact WS| |left; exact ES]. apply wf3_app; [exact WC|exact WR|right; exact SR].
  - destruct first; reflexivity.
Qed.

Lemma er_wf o : wf3 (er_toks o) /\ starts_with_id (er_toks o) = false.
Proof.
  unfold er_toks, rc_name. destruct (o_er o).
  - destruct (o_rc o =? 0); [split; [split|]; reflexivity|]. destruct (o_rc o =? 1); [split; [split|]; reflexivity|].
    destruct (o_rc o =? 2); split; try split; reflexivity.
  - destruct (o_sae o); split; try split; reflexivity.
Qed.

Lemma inst_toks_wf f i : inst_ok i -> wf3 (fmt_inst_toks f i).
Proof.
  destruct i as [m o ex ops]. unfold inst_ok. cbn [i_mnem i_opts i_extra i_ops].
  intros ([Hm _] & Hex & Hrc & Hops & Hamb).
  unfold fmt_inst_toks, prefix_toks. cbn [i_mnem i_opts i_extra i_ops].
  destruct (items_wf specsA eq_refl (flagsA o)) as [WA EA].
  destruct (items_wf specsR eq_refl [o_rex o]) as [WR ER].
  assert (WG : wf3 (regitem f o ex) /\ ends_with_punct (regitem f o ex) = true).
  { unfold regitem. destruct (o_rep o || o_repne o); [|split; [split|]; reflexivity].
    destruct ex as [[t i]|]; [|split; [split|]; reflexivity].
    cbn [fmt_op_toks brace app]. cbn [ex_ok] in Hex. pose proof (proj2 (proj2 (reg_facts t i Hex))) as Tk.
    split; [split|]; cbn [forallb no_adjacent_ids]; rewrite ?Tk; reflexivity. }
  destruct WG as [WG EG].
  assert (Hvr : Forall vis_ok (until_none ops)).
  { pose proof (until_none_not_none ops) as Hnn. clear - Hops Hnn.
    induction (until_none ops); constructor; inversion Hops; inversion Hnn; subst; [split; assumption|auto]. }
  destruct (ops_wf f o ex Hex (until_none ops) true Hvr) as [WO SO]. rewrite <- ops_toks_until in WO, SO.
  destruct (er_wf o) as [WE SE].
  assert (WP : wf3 (items specsA (flagsA o) ++ regitem f o ex ++ items specsR [o_rex o]) /\
               ends_with_punct (items specsA (flagsA o) ++ regitem f o ex ++ items specsR [o_rex o]) = true).
  { split; [apply wf3_app; [exact WA| |left; exact EA]; apply wf3_app; [exact WG|exact WR|left; exact EG]|].
    apply ends_punct_app; [exact EA|apply ends_punct_app; assumption]. }
  destruct WP as [WP EP].
  apply wf3_app; [exact WP| |left; exact EP].
  assert (WM : wf3 [TId m]) by (split; [cbn [forallb]; rewrite Hm; reflexivity|reflexivity]).
  apply wf3_app; [exact WM| |].
  - apply wf3_app; [exact WO|exact WE|right; exact SE].
  - right. destruct (ops_toks f o ex true ops) as [|t0 r0]; [cbn [app]; exact SE|cbn [app]; exact SO].
Qed.

Theorem inst_roundtrip f i : inst_ok i -> parse_inst (fmt_inst f i) = Some (canon_inst i).
Proof.
  intros H. destruct (inst_toks_wf f i H) as [W1 W2].
  unfold parse_inst, fmt_inst. rewrite lex_render by assumption. apply inst_toks_roundtrip; assumption.
Qed.

Example inst_roundtrip_nonvacuous :
  let i := {| i_mnem := s "vaddps";
              i_opts := {| o_vex := false; o_vex3 := false; o_evex := true; o_modrm := false; o_modmr := false; o_short := false;
                           o_long := false; o_xacquire := false; o_xrelease := false; o_lock := false; o_rep := false;
                           o_repne := false; o_rex := false; o_zmask := true; o_er := false; o_sae := false; o_rc := 0 |};
              i_extra := Some (KReg, 3);
              i_ops := [OReg Zmm 1; OReg Zmm 30;
                        OMem {| m_size := 4; m_seg := 5; m_addr := 0; m_base := MBReg Gp64 13; m_index := Some (Gp64, 9); m_shift := 2;
                                m_off := -128; m_bcst := 4 |}] |} in
  inst_ok i /\ parse_inst (fmt_inst {| ff_hex_imms := true; ff_hex_offsets := true |} i) = Some i.
Proof.
  cbv zeta. split.
  - unfold inst_ok, mnem_ok, ex_ok, op_vis_ok, op_ok, mem_ok, base_ok, reg_ok, id_ok, arch_sizes, two32, two63.
    cbn. repeat split; try reflexivity; try lia.
    repeat (apply Forall_cons || apply Forall_nil); cbn; repeat split; try reflexivity; try lia.
  - vm_compute. reflexivity.
Qed.

(* C20 — capstone for AArch64: the whole logger line of an emitted instruction determines the instruction and the bytes *)
From Coq Require Import ZArith Bool Ascii String Lia.
From Coq Require Import List.
Import ListNotations.
From Verif Require Import Fmt.TextModel Fmt.TextProofs Fmt.X86FmtModel Fmt.X86FmtProofs Fmt.X86InstProofs
  Fmt.A64FmtModel Fmt.A64FmtProofs Fmt.A64InstProofs Fmt.LogLine Fmt.LogLineX86.
Local Open Scope Z_scope.

Definition good_lastb (ts : list tok) : bool :=
  match ts with
  | [] => false
  | _ => match last ts (TP spc) with TId _ => true | TP c => negb (Ascii.eqb c spc) end
  end.

Lemma good_last_of_b ts : good_lastb ts = true -> good_last ts.
Proof.
  intros H. destruct ts as [|t0 r]; [discriminate|].
  assert (Hne : t0 :: r <> []) by discriminate.
  destruct (exists_last Hne) as (ts' & t & E). rewrite E in *. exists ts', t. split; [reflexivity|].
  unfold good_lastb in H. destruct (ts' ++ [t]) eqn:E2; [destruct ts'; discriminate|]. rewrite <- E2 in H.
  rewrite last_last in H. destruct t; [exact I|]. apply negb_true_iff in H. exact H.
Qed.

Ltac split_ifs :=
  repeat match goal with
         | |- context [if ?c then _ else _] => destruct c
         | |- context [match ?x with Some _ => _ | None => _ end] => destruct x
         end.

Lemma a64_op_allowed_last f o : a64_op_ok o -> o <> AONone ->
  forallb allowed (a64_op_toks true f o) = true /\ good_lastb (a64_op_toks true f o) = true.
Proof.
  intros Hok Hn. destruct o as [|t id et ei|m|v p|id]; cbn [a64_op_toks]; [congruence| | | |split; reflexivity].
  - unfold a64_reg_toks. destruct (a64_special t id); [split; reflexivity|]. destruct ei; split; reflexivity.
  - cbn [a64_op_ok] in Hok. destruct Hok as (Hb & _).
    unfold a64_mem_toks, a64_off_toks, shift_toks.
    destruct (am_base m) as [|lid|bt bi]; [contradiction| |];
      destruct (am_index m) as [[it ii]|]; cbn [orb andb negb];
      destruct (am_mode m =? 2); destruct (am_mode m =? 0); destruct (am_mode m =? 1);
      destruct (am_off m =? 0); cbn [negb]; try destruct (ff_hex_offsets f && _); try destruct (am_off m <? 0);
      destruct (am_shift m =? 0); cbn [negb andb]; try destruct (am_shiftop m =? 0); cbn [negb andb];
      destruct (shift_name (am_shiftop m)); split; reflexivity.
  - unfold a64_imm_toks, shift_toks, fmt_imm_toks.
    destruct (p =? 0); destruct (shift_name p); destruct (ff_hex_imms f && _); try destruct (v <? 0); split; reflexivity.
Qed.

Lemma a64_ops_allowed_last f : forall ops first, Forall vis64 ops ->
  forallb allowed (a64_ops_toks true f first ops) = true /\
  (ops <> [] -> good_last (a64_ops_toks true f first ops)).
Proof.
  induction ops as [|o r IH]; intros first Hv; [split; [reflexivity|congruence]|].
  inversion Hv as [|? ? [Hok Hn] Hr]; subst. rewrite a64_ops_cons by assumption.
  destruct (a64_op_allowed_last f o Hok Hn) as [A L]. destruct (IH false Hr) as [AR LR].
  split.
  - rewrite !forallb_app, A, AR. destruct first; reflexivity.
  - intros _. apply good_last_app. destruct r as [|o' r'].
    + cbn [a64_ops_toks]. rewrite app_nil_r. apply good_last_of_b. exact L.
    + apply good_last_app. apply LR. discriminate.
Qed.

Theorem a64_log_line_transcript f i pad1 pad2 bytes rel imm comment :
  a64_inst_ok i -> Forall (fun v => 0 <= v < 256) bytes -> bytes <> [] ->
  exists txt col,
    parse_log_line (finish_line (a64_fmt_inst true f i) pad1 pad2 (Some (bytes, rel, imm)) comment) = Some (txt, col, comment) /\
    parse_a64_inst txt = Some (a64_canon_inst i) /\ parse_hexcol col = Some (hexcol_spec bytes rel imm).
Proof.
  intros Hi Hb Hne. exists (a64_fmt_inst true f i), (fmt_hexcol bytes rel imm).
  pose proof Hi as (Hm & Hc & Hops & Hl).
  pose proof (a64_until_not_none (ai_ops i)) as Hnn.
  assert (Hv : Forall vis64 (a64_until_none (ai_ops i))).
  { clear - Hops Hnn. induction (a64_until_none (ai_ops i)); constructor; inversion Hops; inversion Hnn; subst; [split; assumption|auto]. }
  destruct (a64_ops_wf f (a64_until_none (ai_ops i)) true Hv) as [WO SO]. rewrite <- a64_ops_until in WO, SO.
  destruct (a64_ops_allowed_last f (a64_until_none (ai_ops i)) true Hv) as [AO LO]. rewrite <- a64_ops_until in AO, LO.
  assert (W : wf3 (a64_inst_toks true f i)).
  { unfold a64_inst_toks. change (TId (a64_mnem_text i) :: a64_ops_toks true f true (ai_ops i))
      with ([TId (a64_mnem_text i)] ++ a64_ops_toks true f true (ai_ops i)).
    apply wf3_app; [|exact WO|right; exact SO].
    split; [cbn [forallb]; rewrite (proj2 (mnem_split i Hm Hc)); reflexivity|reflexivity]. }
  destruct W as [W1 W2].
  assert (A : forallb allowed (a64_inst_toks true f i) = true) by (unfold a64_inst_toks; cbn [forallb allowed]; exact AO).
  assert (L : good_last (a64_inst_toks true f i)).
  { unfold a64_inst_toks. rewrite a64_ops_until. destruct (a64_until_none (ai_ops i)) as [|o r] eqn:Ev.
    - exists [], (TId (a64_mnem_text i)). split; [reflexivity|exact I].
    - change (TId (a64_mnem_text i) :: a64_ops_toks true f true (o :: r)) with ([TId (a64_mnem_text i)] ++ a64_ops_toks true f true (o :: r)).
      apply good_last_app. rewrite a64_ops_until in LO. rewrite Ev in LO. apply LO. discriminate. }
  split; [|split].
  - apply log_line_roundtrip; auto; unfold a64_fmt_inst; [apply render_nosemi; assumption|apply render_ends; assumption].
  - apply a64_inst_roundtrip; assumption.
  - apply hex_column; assumption.
Qed.

(* C20 — text primitives: characters, numbers (String::_op_number), hex dumps (String::_op_hex), the machine-code
   column (EmitterUtils::finish_formatted_line), tokens and the lexer used by the operand/instruction parsers.
   Models only (no proofs) so that extraction survives a broken proof. Text is `list ascii`. *)
From Coq Require Import ZArith Bool Ascii String.
From Coq Require Import List.
Import ListNotations.
Local Open Scope Z_scope.

Definition text := list ascii.
Definition s (x : string) : text := list_ascii_of_string x.
Definition code (c : ascii) : Z := Z.of_N (N_of_ascii c).

Fixpoint text_eqb (a b : text) : bool :=
  match a, b with
  | [], [] => true
  | x :: a', y :: b' => Ascii.eqb x y && text_eqb a' b'
  | _, _ => false
  end.

(* ------------------------------------------------------------------ digits *)
Definition hexchars : text := s "0123456789ABCDEF".
Definition digit_char (d : Z) : ascii := nth (Z.to_nat d) hexchars "?"%char.

(* value of a digit character; lower-case hex digits are accepted by the parser (AsmJit prints upper case) *)
Definition digit_val (c : ascii) : option Z :=
  let n := code c in
  if (48 <=? n) && (n <=? 57) then Some (n - 48)
  else if (65 <=? n) && (n <=? 70) then Some (n - 55)
  else if (97 <=? n) && (n <=? 102) then Some (n - 87)
  else None.

Definition is_digit10 (c : ascii) : bool := let n := code c in (48 <=? n) && (n <=? 57).

(* the do { *--p = digit(i % base); i /= base; } while (i) loop of String::_op_number; 64 iterations suffice for
   a 64-bit value in any base >= 2 *)
Fixpoint to_digits (fuel : nat) (b n : Z) (acc : text) : text :=
  let acc' := digit_char (n mod b) :: acc in
  match fuel with
  | O => acc'
  | S f => if n / b =? 0 then acc' else to_digits f b (n / b) acc'
  end.
Definition digits (b n : Z) : text := to_digits 64 b n [].

Fixpoint parse_digits (b : Z) (l : text) (a : Z) : option Z :=
  match l with
  | [] => Some a
  | c :: r => match digit_val c with
              | Some d => if d <? b then parse_digits b r (a * b + d) else None
              | None => None
              end
  end.

(* ------------------------------------------------------------------ String::_op_number *)
Record numflags := { nf_signed : bool; nf_showsign : bool; nf_showspace : bool; nf_alternate : bool }.
Definition nf_none := {| nf_signed := false; nf_showsign := false; nf_showspace := false; nf_alternate := false |}.
Definition nf_sgn := {| nf_signed := true; nf_showsign := false; nf_showspace := false; nf_alternate := false |}.

Definition two64 : Z := 18446744073709551616.
Definition two63 : Z := 9223372036854775808.
Definition two32 : Z := 4294967296.
Definition sext64 (i : Z) : Z := if i <? two63 then i else i - two64.

(* i is the raw uint64_t argument; base in {2,8,10,16} (others: error, no text) *)
Definition fmt_num (i base width : Z) (f : numflags) : text :=
  let neg := nf_signed f && (two63 <=? i) in
  let mag := if neg then two64 - i else i in
  let sign := if neg then ["-"%char] else if nf_showsign f then ["+"%char] else if nf_showspace f then [" "%char] else [] in
  let ds := digits base mag in
  let alt := if nf_alternate f
             then (if base =? 8 then (if i =? 0 then [] else ["0"%char])
                   else if base =? 16 then ["0"%char; "x"%char] else [])
             else [] in
  let w := Z.min width 256 in
  let len := Z.of_nat (length ds) in
  let pad := if w <=? len then 0 else w - len in
  sign ++ alt ++ repeat "0"%char (Z.to_nat pad) ++ ds.

(* append_uint(v, base) / append_int(v, 10) / printf("%u") as used by the formatters *)
Definition fmt_uint (base v : Z) : text := fmt_num v base 0 nf_none.
Definition fmt_int (v : Z) : text := fmt_num (v mod two64) 10 0 nf_sgn.
Definition dec (v : Z) : text := digits 10 v.

Definition strip0x (b : Z) (l1 : text) : text :=
  if b =? 16 then match l1 with
                  | c0 :: cx :: r => if Ascii.eqb c0 "0"%char && Ascii.eqb cx "x"%char then r else l1
                  | _ => l1
                  end else l1.

(* inverse: optional sign character, optional 0x (base 16), digits; result is the signed value denoted *)
Definition parse_num (b : Z) (l : text) : option Z :=
  let '(neg, l1) := match l with
                    | c :: r => if Ascii.eqb c "-"%char then (true, r)
                                else if Ascii.eqb c "+"%char then (false, r)
                                else if Ascii.eqb c " "%char then (false, r) else (false, l)
                    | [] => (false, l)
                    end in
  let l2 := strip0x b l1 in
  match l2 with
  | [] => None
  | _ => match parse_digits b l2 0 with Some v => Some (if neg then - v else v) | None => None end
  end.

(* unsigned literal as it appears inside operands: "0x" + hex digits, or decimal digits (flag independent) *)
Definition parse_ulit (l : text) : option Z :=
  match l with
  | c0 :: cx :: (c2 :: _) as r =>
      if Ascii.eqb c0 "0"%char && Ascii.eqb cx "x"%char then parse_digits 16 r 0 else parse_digits 10 l 0
  | [] => None
  | _ => parse_digits 10 l 0
  end.

(* ------------------------------------------------------------------ String::_op_hex and the machine-code column *)
Definition hex_byte (v : Z) : text := [digit_char (v / 16); digit_char (v mod 16)].
Definition fmt_hex (bytes : list Z) : text := flat_map hex_byte bytes.

(* finish_formatted_line: hex of all bytes but the last rel+imm, then 2*rel dots, then hex of the last imm bytes *)
Definition fmt_hexcol (bytes : list Z) (rel imm : nat) : text :=
  let n := length bytes in
  fmt_hex (firstn (n - rel - imm) bytes) ++ repeat "."%char (2 * rel) ++ fmt_hex (skipn (n - imm) bytes).

Fixpoint parse_hexcol (l : text) : option (list (option Z)) :=
  match l with
  | [] => Some []
  | a :: l1 =>
    match l1 with
    | [] => None
    | b :: r =>
      if Ascii.eqb a "."%char && Ascii.eqb b "."%char
      then match parse_hexcol r with Some t => Some (None :: t) | None => None end
      else match digit_val a, digit_val b with
           | Some x, Some y => if (x <? 16) && (y <? 16)
                               then match parse_hexcol r with Some t => Some (Some (x * 16 + y) :: t) | None => None end
                               else None
           | _, _ => None
           end
    end
  end.

(* what the column must denote: the emitted bytes, unknown exactly at the pending displacement *)
Definition hexcol_spec (bytes : list Z) (rel imm : nat) : list (option Z) :=
  let n := length bytes in
  map Some (firstn (n - rel - imm) bytes) ++ repeat None rel ++ map Some (skipn (n - imm) bytes).

(* whole logger line: text, padded to `pad1` columns, "; " + column [, padded to pad1+pad2, "| " + comment ], "\n".
   bin = None models bin_size == SIZE_MAX (no kMachineCode) *)
Definition pad_end (t : text) (n : nat) : text := t ++ repeat " "%char (n - length t).
Definition finish_line (t : text) (pad1 pad2 : nat) (bin : option (list Z * nat * nat)) (comment : text) : text :=
  let has_bin := match bin with Some (b, _, _) => negb (Nat.eqb (length b) 0) | None => false end in
  let has_c := negb (Nat.eqb (length comment) 0) in
  (if has_bin || has_c then
     match bin with
     | Some (b, rel, imm) =>
         let t1 := pad_end t pad1 ++ s "; " ++ fmt_hexcol b rel imm in
         if has_c then pad_end t1 (pad1 + pad2) ++ s "| " ++ comment else t1
     | None => pad_end t pad1 ++ s "; " ++ comment
     end
   else t) ++ [ascii_of_nat 10].

(* ------------------------------------------------------------------ tokens *)
Inductive tok := TId (x : text) | TP (c : ascii).

Definition is_ident_char (c : ascii) : bool :=
  let n := code c in
  ((48 <=? n) && (n <=? 57)) || ((65 <=? n) && (n <=? 90)) || ((97 <=? n) && (n <=? 122))
  || (n =? 64) (* @ *) || (n =? 46) (* . *) || (n =? 95) (* _ *) || (n =? 47) (* / *) || (n =? 37) (* % *).

Definition render_tok (t : tok) : text := match t with TId x => x | TP c => [c] end.
Definition render (ts : list tok) : text := flat_map render_tok ts.

Definition flush (cur : text) (rest : list tok) : list tok :=
  match cur with [] => rest | _ => TId (rev cur) :: rest end.
Fixpoint lex_aux (cur : text) (l : text) : list tok :=
  match l with
  | [] => flush cur []
  | c :: r => if is_ident_char c then lex_aux (c :: cur) r else flush cur (TP c :: lex_aux [] r)
  end.
Definition lex (l : text) : list tok := lex_aux [] l.

(* well-formed token lists (the formatter's): identifiers non-empty, made of identifier characters, never adjacent;
   punctuation is never an identifier character *)
Definition tok_ok (t : tok) : bool :=
  match t with
  | TId x => negb (Nat.eqb (length x) 0) && forallb is_ident_char x
  | TP c => negb (is_ident_char c)
  end.
Fixpoint no_adjacent_ids (ts : list tok) : bool :=
  match ts with
  | TId _ :: ((TId _ :: _) as r) => false
  | _ :: r => no_adjacent_ids r
  | [] => true
  end.

Definition first_char (t : text) : ascii := match t with c :: _ => c | [] => "000"%char end.
Definition starts_digit (t : text) : bool := is_digit10 (first_char t).

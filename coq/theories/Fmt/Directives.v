(* C20 — the non-instruction lines an Assembler logs: "align N" (x86, with the code indentation), ".<word> L<id>" (embed_label) and
   ".<word> (L<id> - L<base>)" (embed_label_delta).  Embedded data (".db 0x01, …") is DataNode.fmt_data.  Readers and round trips. *)
From Coq Require Import ZArith Bool Ascii String Lia.
From Coq Require Import List.
Import ListNotations.
From Verif Require Import Fmt.TextModel Fmt.TextProofs Fmt.X86FmtModel Fmt.X86FmtProofs Fmt.A64FmtModel Fmt.A64FmtProofs Fmt.LogLine Fmt.DataNode.
Local Open Scope Z_scope.

Definition dot : ascii := "."%char.

Definition fmt_embed_label (a64 : bool) (size id : Z) : text :=
  dot :: s (data_word a64 size) ++ spc :: label_text id.

Definition fmt_embed_delta (a64 : bool) (size id base : Z) : text :=
  dot :: s (data_word a64 size) ++ s " (" ++ label_text id ++ s " - " ++ label_text base ++ s ")".

Definition fmt_align_line (indent : nat) (n : Z) : text := repeat spc indent ++ s "align " ++ dec n.

(* the directive word back to the item size (the four sizes a label can be embedded with) *)
Definition word_size (a64 : bool) (w : text) : option Z :=
  find (fun sz => text_eqb (s (data_word a64 sz)) w) [1; 2; 4; 8].

Definition parse_embed_label (a64 : bool) (x : text) : option (Z * Z) :=
  match x with
  | c :: r =>
    if Ascii.eqb c dot then
      match split_at spc r with
      | Some (w, l) => match word_size a64 w, parse_label_text l with Some sz, Some id => Some (sz, id) | _, _ => None end
      | None => None
      end
    else None
  | [] => None
  end.

Definition parse_embed_delta (a64 : bool) (x : text) : option (Z * Z * Z) :=
  match x with
  | c :: r =>
    if Ascii.eqb c dot then
      match split_at spc r with
      | Some (w, p :: r1) =>
        if Ascii.eqb p "("%char then
          match split_at spc r1 with
          | Some (l1, m :: sp2 :: r2) =>
            if Ascii.eqb m "-"%char && Ascii.eqb sp2 spc && Ascii.eqb (last r2 "000"%char) ")"%char then
              match word_size a64 w, parse_label_text l1, parse_label_text (removelast r2) with
              | Some sz, Some id, Some b => Some (sz, id, b)
              | _, _, _ => None
              end
            else None
          | _ => None
          end
        else None
      | _ => None
      end
    else None
  | [] => None
  end.

Definition parse_align_line (x : text) : option (nat * Z) :=
  let t := drop_sp x in
  match split_at spc t with
  | Some (w, n) => if text_eqb w (s "align") then match parse_dec32 n with Some v => Some ((length x - length t)%nat, v) | None => None end else None
  | None => None
  end.

(* ------------------------------------------------------------------ proofs *)
Definition size_ok (sz : Z) : Prop := sz = 1 \/ sz = 2 \/ sz = 4 \/ sz = 8.

Lemma word_facts a64 sz : size_ok sz ->
  word_size a64 (s (data_word a64 sz)) = Some sz /\ Forall (fun c => Ascii.eqb c spc = false) (s (data_word a64 sz)).
Proof.
  intros [-> | [-> | [-> | ->]]]; destruct a64; split; try reflexivity; repeat constructor.
Qed.

Lemma label_no_space id : 0 <= id -> Forall (fun c => Ascii.eqb c spc = false) (label_text id).
Proof. intros H. unfold label_text. constructor; [reflexivity|]. apply dec_no; [assumption|reflexivity]. Qed.

Theorem embed_label_roundtrip a64 sz id : size_ok sz -> id_ok id ->
  parse_embed_label a64 (fmt_embed_label a64 sz id) = Some (sz, id).
Proof.
  intros Hs Hi. destruct (word_facts a64 sz Hs) as [W N]. destruct (label_facts id Hi) as (_ & _ & _ & L).
  unfold parse_embed_label, fmt_embed_label. change (Ascii.eqb dot dot) with true. cbv iota.
  rewrite split_at_app' by exact N. rewrite W, L. reflexivity.
Qed.

Theorem embed_delta_roundtrip a64 sz id base : size_ok sz -> id_ok id -> id_ok base ->
  parse_embed_delta a64 (fmt_embed_delta a64 sz id base) = Some (sz, id, base).
Proof.
  intros Hs Hi Hb. destruct (word_facts a64 sz Hs) as [W N].
  destruct (label_facts id Hi) as (_ & _ & _ & L1). destruct (label_facts base Hb) as (_ & _ & _ & L2).
  unfold parse_embed_delta, fmt_embed_delta. change (Ascii.eqb dot dot) with true. cbv iota.
  change (s " (") with [spc; "("%char]. cbn [app].
  rewrite split_at_app' by exact N.
  change (Ascii.eqb "(" "(") with true. cbv iota.
  change (s " - ") with [spc; "-"%char; spc]. cbn [app].
  rewrite split_at_app' by (apply label_no_space; unfold id_ok in Hi; lia).
  change (Ascii.eqb "-" "-") with true. change (Ascii.eqb spc spc) with true. cbn [andb].
  change (s ")") with [")"%char]. rewrite last_last, removelast_last.
  change (Ascii.eqb ")" ")") with true. cbv iota. rewrite W, L1, L2. reflexivity.
Qed.

Lemma drop_sp_repeat_app n t : (exists c r, t = c :: r /\ Ascii.eqb c spc = false) -> drop_sp (repeat spc n ++ t) = t.
Proof.
  intros (c & r & -> & Hc). induction n as [|n IH]; cbn [repeat app drop_sp]; [rewrite Hc; reflexivity|].
  change (Ascii.eqb spc spc) with true. cbv iota. exact IH.
Qed.

Theorem align_line_roundtrip indent n : id_ok n -> parse_align_line (fmt_align_line indent n) = Some (indent, n).
Proof.
  intros Hn. unfold parse_align_line, fmt_align_line.
  rewrite drop_sp_repeat_app by (exists "a"%char; eexists; split; reflexivity).
  change (s "align " ++ dec n) with (s "align" ++ spc :: dec n).
  rewrite split_at_app' by (repeat constructor).
  change (text_eqb (s "align") (s "align")) with true. cbv iota.
  rewrite parse_dec32_dec by exact Hn.
  rewrite app_length, repeat_length. replace (indent + length (s "align" ++ spc :: dec n) - length (s "align" ++ spc :: dec n))%nat with indent by lia.
  reflexivity.
Qed.

(* C20 — AArch32 register operands (arm::FormatterInternal::format_register with a 32-bit ARM architecture): r0..r15 ("r<id>" for every id), s/d/q and
   v<id>.<T> as on AArch64; a 64-bit GP register has no name there ("<Reg-6>?<id>"); no zr/sp special names. *)
From Coq Require Import ZArith Bool Ascii String Lia.
From Coq Require Import List.
Import ListNotations.
From Verif Require Import Fmt.TextModel Fmt.TextProofs Fmt.X86FmtModel Fmt.X86FmtProofs Fmt.A64FmtModel Fmt.A64FmtProofs Fmt.RegList.
Local Open Scope Z_scope.

Definition a32_reg_text (t : a64rt) (id et : Z) : text :=
  (match t with
   | AGp32 => a32_reg id
   | AGp64 => s "<Reg-6>?" ++ dec id
   | _ => a64_reg_base t id (negb (et =? 0))
   end) ++ a64_elem_suffix t et.

Definition a32_reg_toks (t : a64rt) (id et : Z) (ei : option Z) : list tok :=
  TId (a32_reg_text t id et) :: match ei with Some i => [P "["; TId (dec i); P "]"] | None => [] end.

Definition a32_fmt_reg (t : a64rt) (id et : Z) (ei : option Z) : text := render (a32_reg_toks t id et ei).

Definition parse_a32_gp (x : text) : option Z :=
  match x with c :: ds => if Ascii.eqb c "r"%char then parse_dec32 ds else None | [] => None end.

Theorem a32_gp_roundtrip id : id_ok id -> parse_a32_gp (a32_fmt_reg AGp32 id 0 None) = Some id.
Proof.
  intros H. unfold a32_fmt_reg, a32_reg_toks, a32_reg_text, a32_reg, render. cbn [a64_elem_suffix Z.eqb flat_map render_tok app].
  rewrite !app_nil_r. cbn [parse_a32_gp]. change (Ascii.eqb "r" "r") with true. cbv iota. apply parse_dec32_dec. exact H.
Qed.

(* vector registers print as on AArch64 *)
Lemma a32_vec_same t id et : t <> AGp32 -> t <> AGp64 -> a32_reg_text t id et = a64_reg_text t id et.
Proof. intros H1 H2. unfold a32_reg_text, a64_reg_text. destruct t; try congruence; reflexivity. Qed.

Example ex_a32 : a32_fmt_reg AGp32 13 0 None = s "r13" /\ a32_fmt_reg AVec128 3 3 (Some 1) = s "v3.4s[1]" /\ a32_fmt_reg AGp64 3 0 None = s "<Reg-6>?3".
Proof. repeat split; vm_compute; reflexivity. Qed.

(* C20 — the WHOLE FuncNode line "L1: int32@eax Func(int32@ecx a0, int32x4@[rdx] <none>, float64@[32] %1)" read back: label id, the return
   value (or void) and every argument with the name of the register bound to it.  Generic in the register printer (FuncValue.v). *)
From Coq Require Import ZArith Bool Ascii String Lia.
From Coq Require Import List.
Import ListNotations.
From Verif Require Import Fmt.TextModel Fmt.TextProofs Fmt.X86FmtModel Fmt.X86FmtProofs Fmt.A64FmtModel Fmt.A64FmtProofs Fmt.LogLine Fmt.FuncValue.
Local Open Scope Z_scope.

Definition comma : ascii := ","%char.
Definition clean (c : ascii) : Prop := Ascii.eqb c spc = false /\ Ascii.eqb c comma = false.

Fixpoint split_commas_t (x : text) : list text :=
  match x with
  | [] => [[]]
  | c :: r => if Ascii.eqb c comma then [] :: split_commas_t r
              else match split_commas_t r with h :: t => (c :: h) :: t | [] => [[c]] end
  end.

Definition drop1sp (x : text) : option text := match x with c :: r => if Ascii.eqb c spc then Some r else None | [] => None end.

Fixpoint traverse {A B} (f : A -> option B) (l : list A) : option (list B) :=
  match l with
  | [] => Some []
  | a :: r => match f a, traverse f r with Some b, Some bs => Some (b :: bs) | _, _ => None end
  end.

Definition none_name : text := s "<none>".

Definition parse_arg {R} (pr : text -> option R) (x : text) : option (fvalue R * option text) :=
  match split_at spc x with
  | Some (fv, nm) => match parse_fvalue pr fv with
                     | Some v => Some (v, if text_eqb nm none_name then None else Some nm)
                     | None => None
                     end
  | None => None
  end.

Definition parse_args {R} (pr : text -> option R) (x : text) : option (list (fvalue R * option text)) :=
  if text_eqb x (s "void") then Some [] else
  match split_commas_t x with
  | first :: rest => match traverse drop1sp rest with
                     | Some rest' => traverse (parse_arg pr) (first :: rest')
                     | None => None
                     end
  | [] => None
  end.

Definition strip_func (x : text) : option text :=      (* "Func(" A ")" -> A *)
  match x with
  | c1 :: c2 :: c3 :: c4 :: c5 :: r =>
    if text_eqb [c1; c2; c3; c4; c5] (s "Func(") && Ascii.eqb (last r "000"%char) ")"%char && negb (Nat.eqb (length r) 0)
    then Some (removelast r) else None
  | _ => None
  end.

(* label id, return value (None = void), arguments *)
Definition parse_func_line {R} (pr : text -> option R) (x : text) : option (Z * option (fvalue R) * list (fvalue R * option text)) :=
  match split_at ":"%char x with
  | Some (l, c :: r0) =>
    if Ascii.eqb c spc then
      match parse_label_text l, split_at spc r0 with
      | Some id, Some (rt, fa) =>
        match (if text_eqb rt (s "void") then Some None else match parse_fvalue pr rt with Some v => Some (Some v) | None => None end),
              strip_func fa with
        | Some ret, Some a => match parse_args pr a with Some args => Some (id, ret, args) | None => None end
        | _, _ => None
        end
      | _, _ => None
      end
    else None
  | _ => None
  end.

(* ------------------------------------------------------------------ proofs *)
Definition nocomma (c : ascii) : Prop := Ascii.eqb c comma = false.

Lemma split_commas_single a : Forall nocomma a -> split_commas_t a = [a].
Proof.
  induction 1 as [|c a Hc F IH]; [reflexivity|]. cbn [split_commas_t]. rewrite Hc, IH. reflexivity.
Qed.

Lemma split_commas_app a b : Forall nocomma a -> split_commas_t (a ++ comma :: b) = a :: split_commas_t b.
Proof.
  induction 1 as [|c a Hc F IH]; cbn [app split_commas_t].
  - change (Ascii.eqb comma comma) with true. reflexivity.
  - rewrite Hc, IH. reflexivity.
Qed.

Lemma digit_clean c : is_digit10 c = true -> clean c.
Proof. intros H. split; apply digit10_not; auto. Qed.

Lemma fmt_int_clean off : - two63 <= off < two63 -> Forall clean (fmt_int off).
Proof.
  intros H. unfold fmt_int, fmt_num. cbn [nf_signed nf_showsign nf_showspace nf_alternate nf_sgn andb].
  assert (Hm : 0 <= off mod two64 < two64) by (apply Z.mod_pos_bound; unfold two64; lia).
  assert (D : forall n, 0 <= n -> Forall clean (digits 10 n)).
  { intros n Hn. pose proof (dec_all_digits n Hn) as A. apply forallb_Forall in A. unfold dec in A.
    eapply Forall_impl; [|exact A]. intros a Ha. apply digit_clean; exact Ha. }
  assert (P : forall ds : text, repeat "0"%char (Z.to_nat (if Z.min 0 256 <=? Z.of_nat (length ds) then 0 else Z.min 0 256 - Z.of_nat (length ds))) = []).
  { intros ds. change (Z.min 0 256) with 0. destruct (Z.leb_spec 0 (Z.of_nat (length ds))); [reflexivity|lia]. }
  destruct (Z.leb_spec two63 (off mod two64)).
  - rewrite P. cbn [app]. constructor; [split; reflexivity|]. apply D. lia.
  - rewrite P. cbn [app]. apply D. lia.
Qed.

Section Generic.
  Variable R : Type.
  Variable rp : R -> text.
  Variable pr : text -> option R.
  Variable ok : R -> Prop.
  Hypothesis pr_rp : forall r, ok r -> pr (rp r) = Some r.
  Hypothesis rp_lower : forall r, ok r -> is_lower (first_char (rp r)) = true.
  Hypothesis rp_clean : forall r, ok r -> Forall clean (rp r).

  (* a value of the line: type name over clean characters without '@', location in range *)
  Definition lvalue_ok (v : fvalue R) : Prop :=
    fvalue_ok R ok v /\ Forall clean (fst v) /\ fst v <> s "void".

  Lemma fvalue_clean v : lvalue_ok v -> Forall clean (fmt_fvalue rp v).
  Proof.
    intros ((_ & A) & C & _). destruct v as [ty [[ind a]|]]; cbn [fst snd] in *; unfold fmt_fvalue; cbn [fst snd].
    - apply Forall_app; split; [exact C|]. constructor; [split; reflexivity|].
      assert (B : Forall clean (fmt_fbody rp a)).
      { destruct a as [r|off]; cbn [fa_ok fmt_fbody] in *; [apply rp_clean; exact A|].
        constructor; [split; reflexivity|]. apply Forall_app; split; [apply fmt_int_clean; exact A|repeat constructor]. }
      destruct ind; [|cbn [app]; rewrite app_nil_r; exact B].
      cbn [app]. constructor; [split; reflexivity|]. apply Forall_app; split; [exact B|repeat constructor].
    - rewrite app_nil_r. exact C.
  Qed.

  Definition name_okP (n : option text) : Prop :=
    match n with Some x => Forall clean x /\ x <> none_name | None => True end.
  Definition arg_ok (a : fvalue R * option text) : Prop := lvalue_ok (fst a) /\ name_okP (snd a).

  Definition arg_text (p : fvalue R * option text) : text :=
    fmt_fvalue rp (fst p) ++ " "%char :: match snd p with Some n => n | None => none_name end.

  Lemma arg_text_clean_head p : arg_ok p -> Forall (fun c => Ascii.eqb c comma = false) (arg_text p).
  Proof.
    intros [V N]. unfold arg_text. apply Forall_app; split.
    - eapply Forall_impl; [|apply fvalue_clean; exact V]. intros a [_ H]; exact H.
    - constructor; [reflexivity|]. destruct (snd p) as [n|]; [|repeat constructor].
      destruct N as [N _]. eapply Forall_impl; [|exact N]. intros a [_ H]; exact H.
  Qed.

  Lemma parse_arg_rt p : arg_ok p -> parse_arg pr (arg_text p) = Some p.
  Proof.
    intros [V N]. unfold parse_arg, arg_text. change " "%char with spc.
    rewrite split_at_app' by (eapply Forall_impl; [|apply fvalue_clean; exact V]; intros a [H _]; exact H).
    rewrite (fvalue_roundtrip R rp pr ok pr_rp rp_lower (fst p)) by (destruct V as [V _]; exact V).
    destruct p as [v [n|]]; cbn [fst snd] in *.
    - destruct N as [_ N]. destruct (text_eqb n none_name) eqn:E; [apply text_eqb_eq in E; congruence|reflexivity].
    - rewrite text_eqb_refl. reflexivity.
  Qed.

  Lemma split_join : forall l p, Forall arg_ok (p :: l) ->
    split_commas_t (join_comma (map arg_text (p :: l))) = arg_text p :: map (fun q => spc :: arg_text q) l.
  Proof.
    induction l as [|q l IH]; intros p F; inversion F as [|? ? Hp Fl]; subst.
    - cbn [map join_comma]. apply split_commas_single. apply arg_text_clean_head; exact Hp.
    - change (join_comma (map arg_text (p :: q :: l))) with (arg_text p ++ s ", " ++ join_comma (map arg_text (q :: l))).
      change (s ", " ++ join_comma (map arg_text (q :: l))) with (comma :: spc :: join_comma (map arg_text (q :: l))).
      rewrite split_commas_app by (apply arg_text_clean_head; exact Hp).
      cbn [split_commas_t]. change (Ascii.eqb spc comma) with false. cbv iota.
      rewrite (IH q Fl). reflexivity.
  Qed.

  Lemma traverse_drop l : traverse drop1sp (map (fun q => spc :: arg_text q) l) = Some (map arg_text l).
  Proof.
    induction l as [|q l IH]; [reflexivity|]. cbn [map traverse drop1sp]. change (Ascii.eqb spc spc) with true. cbv iota.
    rewrite IH. reflexivity.
  Qed.

  Lemma traverse_args l : Forall arg_ok l -> traverse (parse_arg pr) (map arg_text l) = Some l.
  Proof.
    induction 1 as [|p l Hp F IH]; [reflexivity|]. cbn [map traverse]. rewrite (parse_arg_rt p Hp), IH. reflexivity.
  Qed.

  Definition args_text (args : list (fvalue R * option text)) : text :=
    match args with [] => s "void" | _ => join_comma (map arg_text args) end.

  Lemma parse_args_rt args : Forall arg_ok args -> parse_args pr (args_text args) = Some args.
  Proof.
    intros F. destruct args as [|p l]; [reflexivity|]. unfold parse_args, args_text.
    pose proof (split_join l p F) as S.
    destruct (text_eqb (join_comma (map arg_text (p :: l))) (s "void")) eqn:E.
    - exfalso. apply text_eqb_eq in E. rewrite E in S. cbn in S. inversion S as [[A B]].
      assert (I : In spc (arg_text p)) by (unfold arg_text; apply in_or_app; right; left; reflexivity).
      rewrite <- A in I. cbn in I. repeat (destruct I as [I|I]; [discriminate I|]). exact I.
    - rewrite S, traverse_drop. exact (traverse_args (p :: l) F).
  Qed.

  Lemma strip_func_ok a : strip_func (s "Func(" ++ a ++ [")"%char]) = Some a.
  Proof.
    change (s "Func(" ++ a ++ [")"%char]) with ("F"%char :: "u"%char :: "n"%char :: "c"%char :: "("%char :: (a ++ [")"%char])).
    unfold strip_func. change (text_eqb ["F"%char; "u"%char; "n"%char; "c"%char; "("%char] (s "Func(")) with true.
    rewrite last_last, removelast_last, app_length. cbn [length andb]. change (Ascii.eqb ")" ")") with true. cbn [andb].
    replace (length a + 1)%nat with (S (length a)) by lia. reflexivity.
  Qed.

  Definition ret_list (ret : option (fvalue R)) : list (fvalue R) := match ret with Some v => [v] | None => [] end.

  Lemma fvalue_not_void v : lvalue_ok v -> text_eqb (fmt_fvalue rp v) (s "void") = false.
  Proof.
    intros (_ & _ & NV). destruct (text_eqb (fmt_fvalue rp v) (s "void")) eqn:E; [|reflexivity]. exfalso.
    apply text_eqb_eq in E. destruct v as [ty [[ind a]|]]; cbn [fst snd] in *; unfold fmt_fvalue in E; cbn [fst snd] in E.
    - assert (I : In at_c (s "void")) by (rewrite <- E; apply in_or_app; right; left; reflexivity).
      cbn in I. repeat (destruct I as [I|I]; [discriminate I|]). exact I.
    - rewrite app_nil_r in E. congruence.
  Qed.

  Theorem func_line_roundtrip lbl ret args : id_ok lbl ->
    match ret with Some v => lvalue_ok v | None => True end -> Forall arg_ok args ->
    parse_func_line pr (fmt_func_node rp lbl (ret_list ret) args) = Some (lbl, ret, args).
  Proof.
    intros Hl Hr Ha. destruct (label_facts lbl Hl) as (_ & _ & _ & L).
    set (rt := match ret with Some v => fmt_fvalue rp v | None => s "void" end).
    assert (E : fmt_func_node rp lbl (ret_list ret) args =
                label_text lbl ++ ":"%char :: spc :: rt ++ spc :: (s "Func(" ++ args_text args ++ [")"%char])).
    { unfold fmt_func_node, rt, args_text. destruct ret; destruct args; cbn [ret_list]; cbn [s app]; rewrite <- ?app_assoc; reflexivity. }
    rewrite E. unfold parse_func_line.
    rewrite split_at_app' by (unfold label_text; constructor; [reflexivity|apply dec_no; [unfold id_ok in Hl; lia|reflexivity]]).
    change (Ascii.eqb spc spc) with true. cbv iota. rewrite L.
    assert (C : Forall (fun c => Ascii.eqb c spc = false) rt).
    { unfold rt. destruct ret as [v|]; [|repeat constructor].
      eapply Forall_impl; [|apply fvalue_clean; exact Hr]. intros a [H _]; exact H. }
    rewrite split_at_app' by exact C.
    rewrite strip_func_ok, parse_args_rt by exact Ha.
    unfold rt. destruct ret as [v|].
    - rewrite (fvalue_not_void v Hr). rewrite (fvalue_roundtrip R rp pr ok pr_rp rp_lower v) by (destruct Hr as [V _]; exact V). reflexivity.
    - rewrite text_eqb_refl. reflexivity.
  Qed.
End Generic.

(* ------------------------------------------------------------------ the two Compilers *)
Lemma ident_clean c : is_ident_char c = true -> clean c.
Proof. intros H. split; [destruct (Ascii.eqb_spec c spc) as [->|]|destruct (Ascii.eqb_spec c comma) as [->|]]; try reflexivity; discriminate H. Qed.

Lemma tok_ok_clean x : tok_ok (TId x) = true -> Forall clean x.
Proof.
  intros H. cbn [tok_ok] in H. apply andb_prop in H as [_ H]. apply forallb_Forall in H.
  eapply Forall_impl; [|exact H]. intros a Ha. apply ident_clean; exact Ha.
Qed.

Definition x86_reg_okP (r : x86rt * Z) : Prop := reg_ok (fst r) (snd r).
Definition a64_reg_okP (r : a64rt * Z) : Prop := a64_reg_ok (fst r) (snd r) 0.

Theorem x86_func_line_roundtrip lbl ret args : id_ok lbl ->
  match ret with Some v => lvalue_ok _ x86_reg_okP v | None => True end -> Forall (arg_ok _ x86_reg_okP) args ->
  parse_func_line parse_reg_name (fmt_func_node x86_rp lbl (ret_list _ ret) args) = Some (lbl, ret, args).
Proof.
  apply func_line_roundtrip.
  - intros [t i] H. apply (reg_facts t i H).
  - intros [t i] H. apply (reg_facts t i H).
  - intros [t i] H. apply tok_ok_clean. apply (reg_facts t i H).
Qed.

Theorem a64_func_line_roundtrip lbl ret args : id_ok lbl ->
  match ret with Some v => lvalue_ok _ a64_reg_okP v | None => True end -> Forall (arg_ok _ a64_reg_okP) args ->
  parse_func_line a64_pr (fmt_func_node a64_rp lbl (ret_list _ ret) args) = Some (lbl, ret, args).
Proof.
  apply func_line_roundtrip.
  - intros [t i] H. unfold a64_reg_okP in H. cbn [fst snd] in H. unfold a64_rp, a64_pr. cbn [fst snd]. rewrite (a64_reg_roundtrip t i 0 H). reflexivity.
  - intros [t i] H. unfold a64_reg_okP in H. cbn [fst snd] in H. unfold a64_rp. cbn [fst snd]. pose proof H as (Ht & Hid & _). unfold id_ok in Hid.
    apply a64_reg_first_lower; [assumption|lia].
  - intros [t i] H. unfold a64_reg_okP in H. cbn [fst snd] in H. unfold a64_rp. cbn [fst snd]. apply tok_ok_clean. apply (a64_reg_facts t i 0 H).
Qed.

(* non-vacuity: the line of the header comment *)
Definition ex_args : list (fvalue (x86rt * Z) * option text) :=
  [((s "int32", Some (false, FAReg (Gp32, 1))), Some (s "a0"));
   ((s "int32x4", Some (true, FAReg (Gp64, 2))), None);
   ((s "float64", Some (false, FAStack 32)), Some (s "%1"))].
Example ex_func_line_text :
  fmt_func_node x86_rp 1 [(s "int32", Some (false, FAReg (Gp32, 0)))] ex_args = s "L1: int32@eax Func(int32@ecx a0, int32x4@[rdx] <none>, float64@[32] %1)".
Proof. vm_compute. reflexivity. Qed.
Example ex_func_line_read :
  parse_func_line parse_reg_name (s "L1: int32@eax Func(int32@ecx a0, int32x4@[rdx] <none>, float64@[32] %1)")
  = Some (1, Some (s "int32", Some (false, FAReg (Gp32, 0))), ex_args).
Proof. vm_compute. reflexivity. Qed.
Example ex_func_line_void : parse_func_line parse_reg_name (s "L1: void Func(void)") = Some (1, None, []).
Proof. vm_compute. reflexivity. Qed.

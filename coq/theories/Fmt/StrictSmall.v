(* C20 — the other direction for the small readers: decimal indexes, labels, directive lines.  parse_dec32 is already strict; labels and directive lines get
   strict readers that accept exactly the prints (Strict.strict). *)
From Coq Require Import ZArith Bool Ascii String Lia.
From Coq Require Import List.
Import ListNotations.
From Verif Require Import Fmt.TextModel Fmt.TextProofs Fmt.X86FmtModel Fmt.X86FmtProofs Fmt.A64FmtModel Fmt.A64FmtProofs Fmt.Directives Fmt.Strict.
Local Open Scope Z_scope.

Theorem parse_dec32_sound x i : parse_dec32 x = Some i -> dec i = x.
Proof.
  unfold parse_dec32. destruct (negb (Nat.eqb (length x) 0) && forallb is_digit10 x); [|discriminate].
  destruct (parse_digits 10 x 0) as [v|]; [|discriminate]. destruct ((v <? two32) && text_eqb (dec v) x) eqn:E; [|discriminate].
  intros H. inversion H; subst. apply andb_prop in E as [_ E]. apply text_eqb_eq; exact E.
Qed.

Definition strict_label : text -> option Z := strict Z label_text parse_label_text.
Definition strict_embed_label (a64 : bool) : text -> option (Z * Z) := strict (Z * Z) (fun p => fmt_embed_label a64 (fst p) (snd p)) (parse_embed_label a64).
Definition strict_align : text -> option (nat * Z) := strict (nat * Z) (fun p => fmt_align_line (fst p) (snd p)) parse_align_line.

Theorem strict_label_exact :
  (forall id, id_ok id -> strict_label (label_text id) = Some id) /\ (forall x id, strict_label x = Some id -> x = label_text id).
Proof.
  split.
  - intros id H. apply strict_complete. apply (label_facts id H).
  - intros x id H. symmetry. exact (strict_sound _ _ _ x id H).
Qed.

Theorem strict_directives_exact a64 :
  (forall sz id, size_ok sz -> id_ok id -> strict_embed_label a64 (fmt_embed_label a64 sz id) = Some (sz, id)) /\
  (forall x p, strict_embed_label a64 x = Some p -> x = fmt_embed_label a64 (fst p) (snd p)) /\
  (forall indent n, id_ok n -> strict_align (fmt_align_line indent n) = Some (indent, n)) /\
  (forall x p, strict_align x = Some p -> x = fmt_align_line (fst p) (snd p)).
Proof.
  split; [|split; [|split]].
  - intros sz id Hs Hi. apply (strict_complete (Z * Z) (fun p => fmt_embed_label a64 (fst p) (snd p)) (parse_embed_label a64) (sz, id)).
    cbn [fst snd]. apply embed_label_roundtrip; assumption.
  - intros x p H. symmetry. exact (strict_sound _ _ _ x p H).
  - intros indent n Hn. apply (strict_complete (nat * Z) (fun p => fmt_align_line (fst p) (snd p)) parse_align_line (indent, n)).
    cbn [fst snd]. apply align_line_roundtrip; exact Hn.
  - intros x p H. symmetry. exact (strict_sound _ _ _ x p H).
Qed.

Example ex_strict_label : strict_label (s "L7") = Some 7 /\ strict_label (s "L007") = None /\ parse_label_text (s "L007") = Some 7.
Proof. repeat split; vm_compute; reflexivity. Qed.

(* C17 — what must NOT change, for the two sign-bit formats that are not in the layout table (their field position is a
   parameter of the format): A32_U23 (magnitude field + U bit) and A32_ADR (imm12 + the ADD/SUB opcode bits 23/22):
   the encoded mask lies inside  field | bit 23  resp.  imm12 field | bits 23..22, so write_offset keeps every other bit. *)
From Coq Require Import ZArith Lia Bool List.
From Verif Require Import Base.ZBits Codec.OffsetModel Codec.OffsetProofs Codec.ImmProofs Codec.OffsetFormatsProofs
  Codec.A32ImmProofs Codec.T32FixModel Codec.T32FixProofs Codec.LayoutModel Codec.LayoutProofs.
Local Open Scope Z_scope.

Definition a32_u23_mask (f : fmt) : Z := Z.lor (field_mask f) (2 ^ 23).
Definition a32_adr_mask (f : fmt) : Z := Z.lor (3 * 2 ^ 22) ((2 ^ 12 - 1) * 2 ^ shift f).

Theorem a32_u23_inside f off m :
  is_a32_u23_fmt f -> int64 off -> encode_offset f off = Some m -> Z.land m (Z.lnot (a32_u23_mask f)) = 0.
Proof.
  intros (Hty & Hv & Hb & Hs & Hfit & Hd) Hoff He.
  unfold encode_offset in He. rewrite Hv in He. cbn [Z.eqb Pos.eqb orb] in He.
  rewrite signbit_spec in He by (rewrite ?Hty, ?Hv; (reflexivity || lia || assumption)).
  destruct ((Z.abs off mod 2 ^ discard f =? 0) && (Z.abs off / 2 ^ discard f <? 2 ^ bits f)) eqn:Eacc; [|discriminate].
  apply abs_accept in Eacc; [|lia|lia]. destruct Eacc as (Hr & _).
  rewrite Hty in He. unfold post32 in He. set (v := Z.abs off / 2 ^ discard f) in *.
  pose proof (mul_pow2_bound v (bits f) (shift f) Hs ltac:(lia) Hr) as Hvb.
  pose proof (pow2_le (bits f + shift f) 23 ltac:(lia)) as Hle. change (2 ^ 23) with 8388608 in Hle.
  assert (Hu : (if 0 <=? off then 1 else 0) = 0 \/ (if 0 <=? off then 1 else 0) = 1) by (destruct (0 <=? off); [right | left]; reflexivity).
  unfold wrap in He. rewrite (Z.mod_small (v * 2 ^ shift f) (2 ^ 32)) in He by (change (2 ^ 32) with 4294967296; lia).
  assert (Hin : Z.land (Z.lor (v * 2 ^ shift f) ((if 0 <=? off then 1 else 0) * 2 ^ 23)) (Z.lnot (a32_u23_mask f)) = 0).
  { unfold a32_u23_mask, field_mask. apply land_lor_inside; [apply contig_outside_clear; lia | apply inside_bit; exact Hu]. }
  assert (Hrange : 0 <= Z.lor (v * 2 ^ shift f) ((if 0 <=? off then 1 else 0) * 2 ^ 23) < 2 ^ 32).
  { rewrite lor_disjoint_high by (try lia; change (2 ^ 23) with 8388608; lia).
    change (2 ^ 23) with 8388608. change (2 ^ 32) with 4294967296. destruct Hu as [-> | ->]; lia. }
  rewrite Z.mod_small in He by (change (2 ^ (8 * 4)) with (2 ^ 32); exact Hrange).
  apply some_inj in He. subst m. exact Hin.
Qed.

Theorem a32_adr_inside f off m :
  is_a32_adr_fmt f -> int64 off -> encode_offset f off = Some m -> Z.land m (Z.lnot (a32_adr_mask f)) = 0.
Proof.
  intros (Hty & Hv & Hb & Hs & Hfit & Hd) Hoff He.
  destruct (a32_adr_roundtrip f off m (conj Hty (conj Hv (conj Hb (conj Hs (conj Hfit Hd))))) Hoff He) as (_ & Hm).
  unfold encode_offset in He. rewrite Hv in He. cbn [Z.eqb Pos.eqb orb] in He.
  rewrite signbit_spec in He by (rewrite ?Hty, ?Hv; (reflexivity || lia || assumption)).
  destruct ((Z.abs off mod 2 ^ discard f =? 0) && (Z.abs off / 2 ^ discard f <? 2 ^ bits f)) eqn:Eacc; [|discriminate].
  apply abs_accept in Eacc; [|lia|lia]. destruct Eacc as (Hr & _).
  rewrite Hty in He. unfold post32 in He. set (v := Z.abs off / 2 ^ discard f) in *.
  destruct (encode_aarch32_imm v) as [e|] eqn:Ee; [|discriminate].
  destruct (a32_imm_sound v e ltac:(lia) Ee) as (_ & Her).
  assert (Hu : (if 0 <=? off then 1 else 0) = 0 \/ (if 0 <=? off then 1 else 0) = 1) by (destruct (0 <=? off); [right | left]; reflexivity).
  pose proof (mul_pow2_bound e 12 (shift f) Hs ltac:(lia) Her) as Heb.
  pose proof (pow2_le (12 + shift f) 22 ltac:(lia)) as Hle. change (2 ^ 22) with 4194304 in Hle.
  unfold wrap in He.
  rewrite (Z.mod_small (e * 2 ^ shift f) (2 ^ 32)) in He by (change (2 ^ 32) with 4294967296; lia).
  assert (Hop : Z.land ((2 ^ 22 * 2 ^ (if 0 <=? off then 1 else 0)) mod 2 ^ 32) (Z.lnot (3 * 2 ^ 22)) = 0)
    by (destruct Hu as [-> | ->]; vm_compute; reflexivity).
  assert (Hin : Z.land (Z.lor ((2 ^ 22 * 2 ^ (if 0 <=? off then 1 else 0)) mod 2 ^ 32) (e * 2 ^ shift f)) (Z.lnot (a32_adr_mask f)) = 0).
  { unfold a32_adr_mask. apply land_lor_inside; [exact Hop | apply contig_outside_clear; lia]. }
  set (x := Z.lor ((2 ^ 22 * 2 ^ (if 0 <=? off then 1 else 0)) mod 2 ^ 32) (e * 2 ^ shift f)) in *.
  change (2 ^ (8 * 4)) with (2 ^ 32) in He. rewrite <- Z.land_ones in He by lia. apply some_inj in He. subst m.
  rewrite <- Z.land_assoc, (Z.land_comm (Z.ones 32)), Z.land_assoc, Hin. reflexivity.
Qed.

(* patching keeps every bit outside the mask (the generic OR lemma of OffsetProofs) *)
Theorem a32_write_offset_outside f old off w mask :
  (is_a32_u23_fmt f /\ mask = a32_u23_mask f) \/ (is_a32_adr_fmt f /\ mask = a32_adr_mask f) -> int64 off ->
  write_offset f old off = Some w -> Z.land w (Z.lnot mask) = Z.land old (Z.lnot mask).
Proof.
  intros Hf Hoff Hw. apply write_offset_or in Hw. destruct Hw as (m & He & ->).
  rewrite Z.land_lor_distr_l.
  assert (Hin : Z.land m (Z.lnot mask) = 0).
  { destruct Hf as [(Hf & ->) | (Hf & ->)]; [eapply a32_u23_inside | eapply a32_adr_inside]; eassumption. }
  rewrite Hin, Z.lor_0_r. reflexivity.
Qed.

Example a32_masks_witness :
  a32_u23_mask {| ty := A32_U23; vsize := 4; bits := 12; shift := 0; discard := 0 |} = 0x00800FFF /\
  a32_adr_mask {| ty := A32_ADR; vsize := 4; bits := 12; shift := 0; discard := 0 |} = 0x00C00FFF.
Proof. split; vm_compute; reflexivity. Qed.

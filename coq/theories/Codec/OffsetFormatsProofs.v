(* C17 — round-trip theorems for the remaining (non-contiguous / sign-bit) OffsetTypes of encode_offset32 whose pinned
   implementation is right, against the architectural decoders of OffsetModel.v:
     T32_ADR                    decode_t32_adr          i:imm3:imm8 with the ADD/SUB form selected by bits 21 and 23
     A32_U23                    decode_a32_u23          magnitude field + U bit (bit 23)
     A32_U23_0To3At0_4To7At8    decode_a32_u23_split    imm4H:imm4L + U bit
     A32_1To24At0_0At24         decode_a32_blx          imm24:H (BLX, A2)
   each for EVERY int64 offset the encoder accepts. *)
From Coq Require Import ZArith Lia Bool List.
From Verif Require Import Base.ZBits Codec.OffsetModel Codec.OffsetProofs.
Local Open Scope Z_scope.

(* ------------------------------------------------------------------------------------------------ *)
(* the formats whose sign lives in a separate bit: encode_offset32 restructured (definitionally equal) *)
Definition ucheck (bc dl A : Z) : option Z :=
  if negb (dl =? 0) && negb (A mod 2 ^ dl =? 0) then None else
  let o := if dl =? 0 then A else to_i64 (wrap 64 A / 2 ^ dl) in
  let value := o mod 2 ^ bc in
  if value =? o then Some value else None.

Definition post32 (t : otype) (vs bc bs value u : Z) : option Z :=
  match t with
  | SignedOffset | UnsignedOffset => Some (wrap 32 ((value mod 2 ^ bc) * 2 ^ bs))
  | T32_ADR =>
    if negb (vs =? 4) || negb (bc =? 12) || negb (bs =? 0) then None else
    let imm8 := value mod 256 in
    let imm3 := ((value / 256) mod 8) * 2 ^ 12 in
    let imm1 := ((value / 2048) mod 2) * 2 ^ 26 in
    let n := 1 - u in
    Some (imm8 + imm3 + imm1 + n * 2 ^ 21 + n * 2 ^ 23)
  | T32_BLX | T32_B =>
    let value := match t with T32_BLX => wrap 32 (value * 2) | _ => value end in
    if negb (vs =? 4) then None else
    let ia := value mod 2048 in
    let ib := ((value / 2048) mod 1024) * 2 ^ 16 in
    let ic := (bitz value 23) * 2 ^ 26 in
    let ja := (1 - bitz value 23 + bitz value 22) mod 2 in
    let jb := (1 - bitz value 23 + bitz value 21) mod 2 in
    Some (ia + ib + ic + ja * 2 ^ 14 + jb * 2 ^ 11)
  | T32_BCond =>
    if negb (vs =? 4) || negb (bc =? 20) || negb (bs =? 0) then None else
    let ia := value mod 2048 in
    let ib := ((value / 2048) mod 64) * 2 ^ 16 in
    let ic := (bitz value 19) * 2 ^ 26 in
    let ja := (1 - bitz value 19 + bitz value 22) mod 2 in
    let jb := (1 - bitz value 19 + bitz value 21) mod 2 in
    Some (ia + ib + ic + ja * 2 ^ 14 + jb * 2 ^ 11)
  | A32_ADR =>
    match encode_aarch32_imm value with
    | None => None
    | Some e => Some (Z.lor (wrap 32 (2 ^ 22 * 2 ^ u)) (wrap 32 (e * 2 ^ bs)))
    end
  | A32_U23 => Some (Z.lor (wrap 32 (value * 2 ^ bs)) (u * 2 ^ 23))
  | A32_U23_0To3At0_4To7At8 =>
    if negb (vs =? 4) || negb (bc =? 8) || negb (bs =? 0) then None else
    Some (value mod 16 + ((value / 16) mod 16) * 2 ^ 8 + u * 2 ^ 23)
  | A32_1To24At0_0At24 =>
    if negb (vs =? 4) || negb (bc =? 25) || negb (bs =? 0) then None else
    Some ((value mod 2) * 2 ^ 24 + (value mod 2 ^ 25) / 2)
  | A64_ADR | A64_ADRP =>
    if negb (vs =? 4) || negb (bc =? 21) || negb (bs =? 5) then None else
    Some ((value mod 4) * 2 ^ 29 + ((value / 4) mod 2 ^ 19) * 2 ^ 5)
  end.

Definition encode_offset32_sb (f : fmt) (off0 : Z) : option Z :=
  if (bits f =? 0) || (vsize f * 8 <? bits f) then None else
  let u := if 0 <=? off0 then 1 else 0 in
  let A := if u =? 0 then to_i64 (- off0) else off0 in
  match ucheck (bits f) (discard f) A with
  | None => None
  | Some value => post32 (ty f) (vsize f) (bits f) (shift f) value u
  end.

Lemma encode_offset32_sb_eq f off :
  has_sign_bit (ty f) = true -> encode_offset32 f off = encode_offset32_sb f off.
Proof.
  intros H. unfold encode_offset32, encode_offset32_sb, ucheck, post32.
  destruct (ty f); try discriminate H; reflexivity.
Qed.

Lemma some_inj (a b : Z) : Some a = Some b -> a = b.
Proof. intros H. injection H as E. exact E. Qed.

Lemma to_i64_small x : 0 <= x < 2 ^ 63 -> to_i64 x = x.
Proof.
  intros H. unfold to_i64. rewrite sext_is_sextz. unfold sextz.
  change (2 ^ 64) with 18446744073709551616. change (2 ^ (64 - 1)) with 9223372036854775808.
  change (2 ^ 63) with 9223372036854775808 in H.
  rewrite Z.mod_small by lia. destruct (Z.ltb_spec x 9223372036854775808); lia.
Qed.

Lemma mod_ne_of_ge o bc : 0 <= bc -> 2 ^ bc <= o -> (o mod 2 ^ bc =? o) = false.
Proof.
  intros Hb Ho. apply Z.eqb_neq. pose proof (Z.mod_pos_bound o (2 ^ bc) (pow2_pos bc Hb)). lia.
Qed.

Lemma ucheck_spec bc dl A : 0 < bc <= 32 -> 0 <= dl <= 31 -> 0 <= A < 2 ^ 63 ->
  ucheck bc dl A = if (A mod 2 ^ dl =? 0) && (A / 2 ^ dl <? 2 ^ bc) then Some (A / 2 ^ dl) else None.
Proof.
  intros Hb Hd HA. unfold ucheck.
  pose proof (pow2_pos dl ltac:(lia)) as Hpd.
  assert (Hq : 0 <= A / 2 ^ dl < 2 ^ 63).
  { split; [apply Z.div_pos; lia|]. apply Z.div_lt_upper_bound; [lia|]. nia. }
  assert (Ho : (if dl =? 0 then A else to_i64 (wrap 64 A / 2 ^ dl)) = A / 2 ^ dl).
  { destruct (Z.eqb_spec dl 0) as [->|Hne].
    - change (2 ^ 0) with 1. rewrite Z.div_1_r. reflexivity.
    - unfold wrap. pose proof (pow2_lt 63 64 ltac:(lia)). rewrite (Z.mod_small A) by lia. apply to_i64_small. exact Hq. }
  cbv zeta. rewrite Ho.
  assert (Hchk : negb (dl =? 0) && negb (A mod 2 ^ dl =? 0) = negb (A mod 2 ^ dl =? 0)).
  { destruct (Z.eqb_spec dl 0) as [->|Hne]; [|reflexivity].
    change (2 ^ 0) with 1. rewrite Z.mod_1_r. reflexivity. }
  rewrite Hchk. destruct (A mod 2 ^ dl =? 0); cbn [negb andb]; [|reflexivity].
  destruct (Z.ltb_spec (A / 2 ^ dl) (2 ^ bc)) as [Hlt|Hge].
  - rewrite Z.mod_small by lia. rewrite Z.eqb_refl. reflexivity.
  - rewrite mod_ne_of_ge by lia. reflexivity.
Qed.

Lemma pow2_63_div dl : 0 <= dl <= 31 -> 2 ^ 63 / 2 ^ dl = 2 ^ (63 - dl).
Proof.
  intros Hd. rewrite (pow2_split dl 63) by lia. rewrite Z.mul_comm. apply Z.div_mul.
  pose proof (pow2_pos dl ltac:(lia)). lia.
Qed.

Lemma ucheck_min bc dl : 0 < bc <= 32 -> 0 <= dl <= 31 -> ucheck bc dl (- 2 ^ 63) = None.
Proof.
  intros Hb Hd. unfold ucheck.
  destruct (Z.eqb_spec dl 0) as [->|Hne]; cbn [negb andb].
  - cbv zeta. assert (E : ((- 2 ^ 63) mod 2 ^ bc =? - 2 ^ 63) = false).
    { apply Z.eqb_neq. pose proof (Z.mod_pos_bound (- 2 ^ 63) (2 ^ bc) (pow2_pos bc ltac:(lia))). lia. }
    rewrite E. reflexivity.
  - assert (Em : (- 2 ^ 63) mod 2 ^ dl = 0).
    { rewrite (pow2_split dl 63) by lia. rewrite <- Z.mul_opp_r, Z.mul_comm. apply Z.mod_mul.
      pose proof (pow2_pos dl ltac:(lia)). lia. }
    rewrite Em. cbn [Z.eqb negb]. cbv zeta.
    assert (Ew : wrap 64 (- 2 ^ 63) = 2 ^ 63) by (vm_compute; reflexivity).
    rewrite Ew, pow2_63_div by lia.
    pose proof (pow2_lt (63 - dl) 63 ltac:(lia)). pose proof (pow2_pos (63 - dl) ltac:(lia)).
    rewrite to_i64_small by lia.
    rewrite mod_ne_of_ge; [reflexivity|lia|].
    apply Z.le_trans with (2 ^ 32); apply pow2_le; lia.
Qed.

(* what every sign-bit format accepts and the magnitude / sign it hands to the field packer *)
Lemma signbit_spec f off :
  has_sign_bit (ty f) = true -> 0 < bits f -> bits f <= 32 -> bits f <= vsize f * 8 -> 0 <= discard f <= 31 -> int64 off ->
  encode_offset32 f off =
  if (Z.abs off mod 2 ^ discard f =? 0) && (Z.abs off / 2 ^ discard f <? 2 ^ bits f)
  then post32 (ty f) (vsize f) (bits f) (shift f) (Z.abs off / 2 ^ discard f) (if 0 <=? off then 1 else 0)
  else None.
Proof.
  intros Hsb Hb Hb32 Hbv Hd Hoff. rewrite encode_offset32_sb_eq by exact Hsb. unfold encode_offset32_sb.
  replace (bits f =? 0) with false by (symmetry; apply Z.eqb_neq; lia).
  replace (vsize f * 8 <? bits f) with false by (symmetry; apply Z.ltb_ge; lia).
  cbn [orb]. cbv zeta. unfold int64 in Hoff.
  destruct (Z.leb_spec 0 off) as [Hpos|Hneg].
  - change (1 =? 0) with false. cbv iota. rewrite Z.abs_eq by lia. rewrite ucheck_spec by lia.
    destruct ((off mod 2 ^ discard f =? 0) && (off / 2 ^ discard f <? 2 ^ bits f)); reflexivity.
  - change (0 =? 0) with true. cbv iota. rewrite Z.abs_neq by lia.
    destruct (Z.eq_dec off (- 2 ^ 63)) as [->|Hne].
    + assert (E : to_i64 (- - 2 ^ 63) = - 2 ^ 63) by (vm_compute; reflexivity).
      rewrite E, ucheck_min by lia. rewrite Z.opp_involutive.
      assert (Em : 2 ^ 63 mod 2 ^ discard f = 0).
      { rewrite (pow2_split (discard f) 63) by lia. rewrite Z.mul_comm. apply Z.mod_mul.
        pose proof (pow2_pos (discard f) ltac:(lia)). lia. }
      rewrite Em, pow2_63_div by lia. cbn [Z.eqb andb].
      replace (2 ^ (63 - discard f) <? 2 ^ bits f) with false; [reflexivity|].
      symmetry. apply Z.ltb_ge. apply Z.le_trans with (2 ^ 32); apply pow2_le; lia.
    + rewrite to_i64_small by lia. rewrite ucheck_spec by lia.
      destruct ((- off mod 2 ^ discard f =? 0) && (- off / 2 ^ discard f <? 2 ^ bits f)); reflexivity.
Qed.

(* accepted magnitude: facts used by all three sign-bit formats *)
Lemma abs_accept off dl bc :
  0 <= dl -> 0 <= bc ->
  (Z.abs off mod 2 ^ dl =? 0) && (Z.abs off / 2 ^ dl <? 2 ^ bc) = true ->
  0 <= Z.abs off / 2 ^ dl < 2 ^ bc /\ (Z.abs off / 2 ^ dl) * 2 ^ dl = Z.abs off.
Proof.
  intros Hd Hb H. apply andb_true_iff in H. destruct H as [H1 H2]. apply Z.eqb_eq in H1. apply Z.ltb_lt in H2.
  pose proof (pow2_pos dl Hd). split; [split; [apply Z.div_pos; lia | exact H2]|]. apply div_pow2_exact; assumption.
Qed.

(* ------------------------------------------------------------------------------------------------ *)
(* T32 ADR *)
Definition is_t32_adr_fmt (f : fmt) : Prop :=
  ty f = T32_ADR /\ vsize f = 4 /\ bits f = 12 /\ shift f = 0 /\ 0 <= discard f <= 31.

Lemma t32_adr_pack v n : 0 <= v < 4096 -> (n = 0 \/ n = 1) ->
  let m := v mod 256 + ((v / 256) mod 8) * 2 ^ 12 + ((v / 2048) mod 2) * 2 ^ 26 + n * 2 ^ 21 + n * 2 ^ 23 in
  0 <= m < 2 ^ 32 /\ decode_t32_adr m = if n =? 1 then - v else v.
Proof.
  intros Hv Hn m.
  set (a := v mod 256) in *. set (b := (v / 256) mod 8) in *. set (c := (v / 2048) mod 2) in *.
  assert (Ha : 0 <= a < 256) by (subst a; apply Z.mod_pos_bound; lia).
  assert (Hb : 0 <= b < 8) by (subst b; apply Z.mod_pos_bound; lia).
  assert (Hc : 0 <= c < 2) by (subst c; apply Z.mod_pos_bound; lia).
  assert (Ev : v = a + 256 * b + 2048 * c) by (subst a b c; Z.div_mod_to_equations; lia).
  change (2 ^ 12) with 4096 in m. change (2 ^ 26) with 67108864 in m. change (2 ^ 21) with 2097152 in m.
  change (2 ^ 23) with 8388608 in m. change (2 ^ 32) with 4294967296.
  assert (Hm : 0 <= m < 4294967296) by (subst m; destruct Hn as [-> | ->]; lia).
  split; [exact Hm|].
  unfold decode_t32_adr, bitz.
  change (2 ^ 12) with 4096. change (2 ^ 26) with 67108864. change (2 ^ 21) with 2097152. change (2 ^ 23) with 8388608.
  assert (E0 : m mod 256 = a) by (subst m; destruct Hn as [-> | ->]; Z.div_mod_to_equations; lia).
  assert (E1 : (m / 4096) mod 8 = b) by (subst m; destruct Hn as [-> | ->]; Z.div_mod_to_equations; lia).
  assert (E2 : (m / 67108864) mod 2 = c) by (subst m; destruct Hn as [-> | ->]; Z.div_mod_to_equations; lia).
  assert (E3 : (m / 2097152) mod 2 = n) by (subst m; destruct Hn as [-> | ->]; Z.div_mod_to_equations; lia).
  assert (E4 : (m / 8388608) mod 2 = n) by (subst m; destruct Hn as [-> | ->]; Z.div_mod_to_equations; lia).
  rewrite E0, E1, E2, E3, E4.
  destruct Hn as [-> | ->]; cbn [Z.eqb Pos.eqb andb]; lia.
Qed.

Theorem t32_adr_roundtrip f off m :
  is_t32_adr_fmt f -> int64 off -> encode_offset f off = Some m ->
  decode_t32_adr m * 2 ^ discard f = off /\ 0 <= m < 2 ^ 32.
Proof.
  intros (Hty & Hv & Hb & Hs & Hd) Hoff He.
  unfold encode_offset in He. rewrite Hv in He. cbn [Z.eqb Pos.eqb orb] in He.
  rewrite signbit_spec in He by (rewrite ?Hty, ?Hv, ?Hb; (reflexivity || lia || assumption)).
  destruct ((Z.abs off mod 2 ^ discard f =? 0) && (Z.abs off / 2 ^ discard f <? 2 ^ bits f)) eqn:Eacc; [|discriminate].
  apply abs_accept in Eacc; [|lia|lia]. destruct Eacc as (Hr & Hx).
  rewrite Hty, Hv, Hb, Hs in He. rewrite Hb in Hr. change (2 ^ 12) with 4096 in Hr.
  unfold post32 in He. change (negb (4 =? 4) || negb (12 =? 12) || negb (0 =? 0)) with false in He. cbv iota zeta in He.
  set (v := Z.abs off / 2 ^ discard f) in *.
  assert (Hn : 1 - (if 0 <=? off then 1 else 0) = 0 \/ 1 - (if 0 <=? off then 1 else 0) = 1)
    by (destruct (0 <=? off); [left | right]; reflexivity).
  destruct (t32_adr_pack v _ Hr Hn) as (Hm & Hdec). cbv zeta in Hm, Hdec.
  rewrite Z.mod_small in He by (change (2 ^ (8 * 4)) with (2 ^ 32); exact Hm).
  apply some_inj in He. subst m. split; [|exact Hm]. rewrite Hdec.
  destruct (Z.leb_spec 0 off).
  - change (1 - 1 =? 1) with false. cbv iota. rewrite Hx. apply Z.abs_eq. lia.
  - change (1 - 0 =? 1) with true. cbv iota. rewrite Z.mul_opp_l, Hx. rewrite Z.abs_neq by lia. lia.
Qed.

(* ------------------------------------------------------------------------------------------------ *)
(* A32 U-bit formats *)
Lemma lor_disjoint_high a b k : 0 <= k -> 0 <= a < 2 ^ k -> 0 <= b -> Z.lor a (b * 2 ^ k) = a + b * 2 ^ k.
Proof.
  intros Hk Ha Hb.
  assert (Hl : Z.land a (b * 2 ^ k) = 0).
  { apply Z.bits_inj'. intros n Hn. rewrite Z.land_spec, Z.bits_0.
    destruct (Z_lt_le_dec n k).
    - rewrite Z.mul_pow2_bits_low by lia. apply andb_false_r.
    - replace (Z.testbit a n) with false; [reflexivity|]. symmetry.
      rewrite Z.testbit_eqb by lia. rewrite Z.div_small; [reflexivity|].
      pose proof (pow2_le k n ltac:(lia)). lia. }
  rewrite <- Z.lxor_lor by exact Hl. symmetry. apply Z.add_nocarry_lxor. exact Hl.
Qed.

Definition is_a32_u23_fmt (f : fmt) : Prop :=
  ty f = A32_U23 /\ vsize f = 4 /\ 0 < bits f /\ 0 <= shift f /\ bits f + shift f <= 23 /\ 0 <= discard f <= 31.

Lemma a32_u23_pack f v u : 0 < bits f -> 0 <= shift f -> bits f + shift f <= 23 -> 0 <= v < 2 ^ bits f -> (u = 0 \/ u = 1) ->
  let m := Z.lor (wrap 32 (v * 2 ^ shift f)) (u * 2 ^ 23) in
  0 <= m < 2 ^ 32 /\ decode_a32_u23 f m = if u =? 1 then v else - v.
Proof.
  intros Hb Hs Hfit Hv Hu m.
  pose proof (mul_pow2_bound v (bits f) (shift f) Hs ltac:(lia) Hv) as Hvb.
  pose proof (pow2_le (bits f + shift f) 23 ltac:(lia)) as Hle.
  change (2 ^ 23) with 8388608 in *.
  assert (Em : m = v * 2 ^ shift f + u * 8388608).
  { subst m. unfold wrap. change (2 ^ 32) with 4294967296. rewrite Z.mod_small by lia.
    change 8388608 with (2 ^ 23). apply lor_disjoint_high; [lia| change (2 ^ 23) with 8388608; lia | lia]. }
  split; [rewrite Em; change (2 ^ 32) with 4294967296; lia|].
  unfold decode_a32_u23, field_raw, bitz. rewrite Em. change (2 ^ 23) with 8388608.
  assert (E1 : ((v * 2 ^ shift f + u * 8388608) / 2 ^ shift f) mod 2 ^ bits f = v).
  { change 8388608 with (2 ^ 23). rewrite (pow2_split (shift f) 23) by lia.
    replace (v * 2 ^ shift f + u * (2 ^ shift f * 2 ^ (23 - shift f))) with ((v + u * 2 ^ (23 - shift f)) * 2 ^ shift f) by ring.
    rewrite mul_pow2_div by lia. rewrite (pow2_split (bits f) (23 - shift f)) by lia.
    replace (v + u * (2 ^ bits f * 2 ^ (23 - shift f - bits f))) with (v + (u * 2 ^ (23 - shift f - bits f)) * 2 ^ bits f) by ring.
    rewrite Z.mod_add by (pose proof (pow2_pos (bits f) ltac:(lia)); lia). apply Z.mod_small. lia. }
  assert (E2 : ((v * 2 ^ shift f + u * 8388608) / 8388608) mod 2 = u).
  { rewrite Z.div_add by lia. rewrite Z.div_small by lia. destruct Hu as [-> | ->]; reflexivity. }
  rewrite E1, E2. reflexivity.
Qed.

Theorem a32_u23_roundtrip f off m :
  is_a32_u23_fmt f -> int64 off -> encode_offset f off = Some m ->
  decode_a32_u23 f m * 2 ^ discard f = off /\ 0 <= m < 2 ^ 32.
Proof.
  intros (Hty & Hv & Hb & Hs & Hfit & Hd) Hoff He.
  unfold encode_offset in He. rewrite Hv in He. cbn [Z.eqb Pos.eqb orb] in He.
  rewrite signbit_spec in He by (rewrite ?Hty, ?Hv; (reflexivity || lia || assumption)).
  destruct ((Z.abs off mod 2 ^ discard f =? 0) && (Z.abs off / 2 ^ discard f <? 2 ^ bits f)) eqn:Eacc; [|discriminate].
  apply abs_accept in Eacc; [|lia|lia]. destruct Eacc as (Hr & Hx).
  rewrite Hty in He. unfold post32 in He.
  set (v := Z.abs off / 2 ^ discard f) in *.
  assert (Hu : (if 0 <=? off then 1 else 0) = 0 \/ (if 0 <=? off then 1 else 0) = 1)
    by (destruct (0 <=? off); [right | left]; reflexivity).
  destruct (a32_u23_pack f v _ Hb Hs Hfit Hr Hu) as (Hm & Hdec). cbv zeta in Hm, Hdec.
  rewrite Z.mod_small in He by (change (2 ^ (8 * 4)) with (2 ^ 32); exact Hm).
  apply some_inj in He. subst m. split; [|exact Hm]. rewrite Hdec.
  destruct (Z.leb_spec 0 off).
  - change (1 =? 1) with true. cbv iota. rewrite Hx. apply Z.abs_eq. lia.
  - change (0 =? 1) with false. cbv iota. rewrite Z.mul_opp_l, Hx. rewrite Z.abs_neq by lia. lia.
Qed.

Definition is_a32_u23_split_fmt (f : fmt) : Prop :=
  ty f = A32_U23_0To3At0_4To7At8 /\ vsize f = 4 /\ bits f = 8 /\ shift f = 0 /\ 0 <= discard f <= 31.

Lemma a32_u23_split_pack v u : 0 <= v < 256 -> (u = 0 \/ u = 1) ->
  let m := v mod 16 + ((v / 16) mod 16) * 2 ^ 8 + u * 2 ^ 23 in
  0 <= m < 2 ^ 32 /\ decode_a32_u23_split m = if u =? 1 then v else - v.
Proof.
  intros Hv Hu m. change (2 ^ 8) with 256 in m. change (2 ^ 23) with 8388608 in m. change (2 ^ 32) with 4294967296.
  set (a := v mod 16) in *. set (b := (v / 16) mod 16) in *.
  assert (Ha : 0 <= a < 16) by (subst a; apply Z.mod_pos_bound; lia).
  assert (Hb : 0 <= b < 16) by (subst b; apply Z.mod_pos_bound; lia).
  assert (Ev : v = a + 16 * b) by (subst a b; Z.div_mod_to_equations; lia).
  assert (Hm : 0 <= m < 4294967296) by (subst m; destruct Hu as [-> | ->]; lia).
  split; [exact Hm|].
  unfold decode_a32_u23_split, bitz. change (2 ^ 8) with 256. change (2 ^ 23) with 8388608.
  assert (E0 : m mod 16 = a) by (subst m; destruct Hu as [-> | ->]; Z.div_mod_to_equations; lia).
  assert (E1 : (m / 256) mod 16 = b) by (subst m; destruct Hu as [-> | ->]; Z.div_mod_to_equations; lia).
  assert (E2 : (m / 8388608) mod 2 = u) by (subst m; destruct Hu as [-> | ->]; Z.div_mod_to_equations; lia).
  rewrite E0, E1, E2. destruct Hu as [-> | ->]; cbn [Z.eqb Pos.eqb]; lia.
Qed.

Theorem a32_u23_split_roundtrip f off m :
  is_a32_u23_split_fmt f -> int64 off -> encode_offset f off = Some m ->
  decode_a32_u23_split m * 2 ^ discard f = off /\ 0 <= m < 2 ^ 32.
Proof.
  intros (Hty & Hv & Hb & Hs & Hd) Hoff He.
  unfold encode_offset in He. rewrite Hv in He. cbn [Z.eqb Pos.eqb orb] in He.
  rewrite signbit_spec in He by (rewrite ?Hty, ?Hv, ?Hb; (reflexivity || lia || assumption)).
  destruct ((Z.abs off mod 2 ^ discard f =? 0) && (Z.abs off / 2 ^ discard f <? 2 ^ bits f)) eqn:Eacc; [|discriminate].
  apply abs_accept in Eacc; [|lia|lia]. destruct Eacc as (Hr & Hx).
  rewrite Hty, Hv, Hb, Hs in He. rewrite Hb in Hr. change (2 ^ 8) with 256 in Hr.
  unfold post32 in He. change (negb (4 =? 4) || negb (8 =? 8) || negb (0 =? 0)) with false in He. cbv iota in He.
  set (v := Z.abs off / 2 ^ discard f) in *.
  assert (Hu : (if 0 <=? off then 1 else 0) = 0 \/ (if 0 <=? off then 1 else 0) = 1)
    by (destruct (0 <=? off); [right | left]; reflexivity).
  destruct (a32_u23_split_pack v _ Hr Hu) as (Hm & Hdec). cbv zeta in Hm, Hdec.
  rewrite Z.mod_small in He by (change (2 ^ (8 * 4)) with (2 ^ 32); exact Hm).
  apply some_inj in He. subst m. split; [|exact Hm]. rewrite Hdec.
  destruct (Z.leb_spec 0 off).
  - change (1 =? 1) with true. cbv iota. rewrite Hx. apply Z.abs_eq. lia.
  - change (0 =? 1) with false. cbv iota. rewrite Z.mul_opp_l, Hx. rewrite Z.abs_neq by lia. lia.
Qed.

(* ------------------------------------------------------------------------------------------------ *)
(* A32 BLX (A2): imm24:H, a signed 25-bit half-word displacement *)
Definition is_a32_blx_fmt (f : fmt) : Prop :=
  ty f = A32_1To24At0_0At24 /\ vsize f = 4 /\ bits f = 25 /\ shift f = 0 /\ 0 <= discard f <= 31.

Lemma a32_blx_pack o : - 2 ^ 24 <= o < 2 ^ 24 ->
  let value := o mod 2 ^ 32 in
  let m := (value mod 2) * 2 ^ 24 + (value mod 2 ^ 25) / 2 in
  0 <= m < 2 ^ 32 /\ decode_a32_blx m = o.
Proof.
  intros Ho value m.
  assert (Hlo : value mod 2 = o mod 2).
  { subst value. change (2 ^ 32) with 4294967296. Z.div_mod_to_equations. lia. }
  assert (Hmid : value mod 2 ^ 25 = o mod 2 ^ 25) by (subst value; apply mod_mod_pow2; lia).
  subst m. rewrite Hlo, Hmid. clear Hlo Hmid value.
  set (r := o mod 2 ^ 25). assert (Hr : 0 <= r < 2 ^ 25) by (subst r; apply Z.mod_pos_bound; lia).
  assert (Hr2 : o mod 2 = r mod 2).
  { subst r. change (2 ^ 25) with 33554432. Z.div_mod_to_equations. lia. }
  rewrite Hr2.
  change (2 ^ 24) with 16777216 in *. change (2 ^ 25) with 33554432 in *. change (2 ^ 32) with 4294967296.
  split; [Z.div_mod_to_equations; lia|].
  unfold decode_a32_blx, bitz. change (2 ^ 24) with 16777216.
  assert (E : (r mod 2 * 16777216 + r / 2) mod 16777216 * 2 + ((r mod 2 * 16777216 + r / 2) / 16777216) mod 2 = r)
    by (Z.div_mod_to_equations; lia).
  rewrite E. subst r. rewrite sext_is_sextz. change 33554432 with (2 ^ 25). apply sextz_of_mod; [lia|].
  change (2 ^ (25 - 1)) with 16777216. lia.
Qed.

Theorem a32_blx_roundtrip f off m :
  is_a32_blx_fmt f -> int64 off -> encode_offset f off = Some m ->
  decode_a32_blx m * 2 ^ discard f = off /\ 0 <= m < 2 ^ 32.
Proof.
  intros (Hty & Hv & Hb & Hs & Hd) Hoff He.
  unfold encode_offset in He. rewrite Hv in He. cbn [Z.eqb Pos.eqb orb] in He.
  unfold encode_offset32 in He. rewrite Hty, Hb, Hs, Hv in He.
  cbn [has_sign_bit andb orb Z.eqb Z.ltb Z.mul Z.compare Pos.mul Pos.compare Pos.compare_cont negb] in He.
  destruct (negb (discard f =? 0) && negb (off mod 2 ^ discard f =? 0)) eqn:Edl; [discriminate|].
  apply discard_check_false in Edl; [|lia].
  set (o := off / 2 ^ discard f) in *.
  destruct ((- 2 ^ 31 <=? o) && (o <? 2 ^ 31)) eqn:E32; cbn [negb] in He; [|discriminate].
  destruct ((- 2 ^ (25 - 1) <=? o) && (o <? 2 ^ (25 - 1))) eqn:Eb; [|discriminate].
  apply andb_true_iff in Eb. destruct Eb as [E1 E2]. apply Z.leb_le in E1. apply Z.ltb_lt in E2.
  replace (25 - 1) with 24 in * by lia.
  destruct (a32_blx_pack o ltac:(lia)) as (Hm & Hdec). cbv zeta in Hm, Hdec.
  cbv beta iota zeta delta [negb orb Pos.eqb] in He.
  unfold wrap in He. rewrite (Z.mod_small _ (2 ^ 32)) in He by exact Hm.
  apply some_inj in He. subst m. split; [|exact Hm]. rewrite Hdec. apply div_pow2_exact; lia.
Qed.

(* the hypotheses are satisfiable: a negative and a positive offset for each format *)
Example t32_adr_witness :
  encode_offset {| ty := T32_ADR; vsize := 4; bits := 12; shift := 0; discard := 0 |} (-2049) = Some (2 ^ 26 + 2 ^ 23 + 2 ^ 21 + 1).
Proof. vm_compute. reflexivity. Qed.
Example a32_u23_witness :
  encode_offset {| ty := A32_U23; vsize := 4; bits := 12; shift := 0; discard := 0 |} (-4095) = Some 4095 /\
  encode_offset {| ty := A32_U23; vsize := 4; bits := 8; shift := 0; discard := 2 |} 1020 = Some (2 ^ 23 + 255).
Proof. split; vm_compute; reflexivity. Qed.
Example a32_u23_split_witness :
  encode_offset {| ty := A32_U23_0To3At0_4To7At8; vsize := 4; bits := 8; shift := 0; discard := 0 |} 171 = Some (2 ^ 23 + 10 * 256 + 11).
Proof. vm_compute. reflexivity. Qed.
Example a32_blx_witness :
  encode_offset {| ty := A32_1To24At0_0At24; vsize := 4; bits := 25; shift := 0; discard := 1 |} (-2) = Some (2 ^ 25 - 1).
Proof. vm_compute. reflexivity. Qed.

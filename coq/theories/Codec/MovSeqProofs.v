(* C17 — move-wide sequences: executing the words returned by encode_mov_sequence_32/64 (model: ImmModel.movseq32/64)
   with the architectural MOVZ/MOVN/MOVK semantics leaves exactly the requested immediate, for EVERY immediate. *)
From Coq Require Import ZArith Lia Bool List.
From Verif Require Import Base.ZBits Codec.ImmModel.
Import ListNotations.
Local Open Scope Z_scope.

Definition quad := (Z * Z * Z * Z)%type.
Definition join (q : quad) : Z := let '(a0, a1, a2, a3) := q in a0 + a1 * 65536 + a2 * 4294967296 + a3 * 281474976710656.
Definition hwok (a : Z) : Prop := 0 <= a < 65536.
Definition qok (q : quad) : Prop := let '(a0, a1, a2, a3) := q in hwok a0 /\ hwok a1 /\ hwok a2 /\ hwok a3.
Definition qget (q : quad) (i : Z) : Z := let '(a0, a1, a2, a3) := q in if i =? 0 then a0 else if i =? 1 then a1 else if i =? 2 then a2 else a3.
Definition qset (q : quad) (i v : Z) : quad :=
  let '(a0, a1, a2, a3) := q in if i =? 0 then (v, a1, a2, a3) else if i =? 1 then (a0, v, a2, a3) else if i =? 2 then (a0, a1, v, a3) else (a0, a1, a2, v).

Lemma pow16 i : i = 0 \/ i = 1 \/ i = 2 \/ i = 3 ->
  2 ^ (16 * i) = if i =? 0 then 1 else if i =? 1 then 65536 else if i =? 2 then 4294967296 else 281474976710656.
Proof. intros [-> | [-> | [-> | ->]]]; reflexivity. Qed.

Lemma join_range q : qok q -> 0 <= join q < 2 ^ 64.
Proof. destruct q as [[[a0 a1] a2] a3]. unfold qok, hwok, join. change (2 ^ 64) with 18446744073709551616. lia. Qed.

Lemma hw_of_join q i : qok q -> i = 0 \/ i = 1 \/ i = 2 \/ i = 3 -> hw_of (join q) i = qget q i.
Proof.
  destruct q as [[[a0 a1] a2] a3]. unfold qok, hwok, join, hw_of, qget. intros (H0 & H1 & H2 & H3) Hi.
  rewrite (pow16 i Hi). destruct Hi as [-> | [-> | [-> | ->]]]; cbn [Z.eqb Pos.eqb]; Z.div_mod_to_equations; lia.
Qed.

Lemma join_split imm : 0 <= imm < 2 ^ 64 ->
  join (hw_of imm 0, hw_of imm 1, hw_of imm 2, hw_of imm 3) = imm /\ qok (hw_of imm 0, hw_of imm 1, hw_of imm 2, hw_of imm 3).
Proof.
  intros H. unfold join, hw_of, qok, hwok. change (2 ^ 64) with 18446744073709551616 in H.
  change (2 ^ (16 * 0)) with 1. change (2 ^ (16 * 1)) with 65536. change (2 ^ (16 * 2)) with 4294967296.
  change (2 ^ (16 * 3)) with 281474976710656. Z.div_mod_to_equations. lia.
Qed.

(* quad-level semantics of one move-wide operation *)
Definition mw_ok (m : mw) : Prop :=
  (mw_sf m = 0 \/ mw_sf m = 1) /\ (mw_hw m = 0 \/ mw_hw m = 1 \/ mw_hw m = 2 \/ mw_hw m = 3) /\ hwok (mw_imm m) /\
  (mw_sf m = 0 -> mw_hw m = 0 \/ mw_hw m = 1).

Definition exec_q (q : quad) (m : mw) : quad :=
  let top := if mw_sf m =? 1 then 65535 else 0 in
  match mw_op m with
  | MovZ => qset (0, 0, 0, 0) (mw_hw m) (mw_imm m)
  | MovN => qset (65535, 65535, top, top) (mw_hw m) (65535 - mw_imm m)
  | MovK => let '(a0, a1, a2, a3) := q in
            qset (if mw_sf m =? 1 then q else (a0, a1, 0, 0)) (mw_hw m) (mw_imm m)
  end.

Lemma exec_q_ok q m : qok q -> mw_ok m -> qok (exec_q q m).
Proof.
  destruct q as [[[a0 a1] a2] a3]. destruct m as [sf op hw im]. unfold mw_ok, qok, hwok, exec_q, qset. cbn [mw_sf mw_op mw_hw mw_imm].
  intros (H0 & H1 & H2 & H3) (Hsf & Hhw & Him & _).
  destruct Hsf as [-> | ->]; destruct Hhw as [-> | [-> | [-> | ->]]]; destruct op; cbn [Z.eqb Pos.eqb]; lia.
Qed.

Lemma mw_exec_join q m : qok q -> mw_ok m -> mw_exec (join q) m = Some (join (exec_q q m)).
Proof.
  intros Hq (Hsf & Hhw & Him & H32).
  pose proof (join_range q Hq) as Hr.
  unfold mw_exec.
  assert (Hguard : (mw_sf m =? 0) && (2 <=? mw_hw m) = false).
  { destruct Hsf as [Es | Es]; rewrite Es; cbn [Z.eqb andb]; [|reflexivity].
    destruct (H32 Es) as [-> | ->]; reflexivity. }
  rewrite Hguard. rewrite (pow16 (mw_hw m) Hhw).
  destruct (mw_op m) eqn:Eop; unfold exec_q; rewrite Eop.
  - (* MovZ *) f_equal. unfold hwok in Him.
    destruct Hhw as [E | [E | [E | E]]]; rewrite E; cbn [Z.eqb Pos.eqb qset join]; lia.
  - (* MovN *) f_equal. unfold hwok in Him.
    destruct Hsf as [Es | Es]; rewrite Es; cbn [Z.eqb Pos.eqb].
    + change (2 ^ 32) with 4294967296. destruct (H32 Es) as [E | E]; rewrite E; cbn [Z.eqb Pos.eqb qset join]; lia.
    + change (2 ^ 64) with 18446744073709551616.
      destruct Hhw as [E | [E | [E | E]]]; rewrite E; cbn [Z.eqb Pos.eqb qset join]; lia.
  - (* MovK *) f_equal. destruct q as [[[a0 a1] a2] a3]. unfold qok, hwok in Hq. destruct Hq as (H0 & H1 & H2 & H3). unfold hwok in Him.
    destruct Hsf as [Es | Es]; rewrite Es; cbn [Z.eqb Pos.eqb].
    + (* 32-bit: the register is truncated first *)
      assert (Et : join (a0, a1, a2, a3) mod 2 ^ 32 = join (a0, a1, 0, 0)).
      { unfold join. change (2 ^ 32) with 4294967296. Z.div_mod_to_equations. lia. }
      rewrite Et. rewrite hw_of_join by (unfold qok, hwok; lia || (destruct (H32 Es); lia)).
      destruct (H32 Es) as [E | E]; rewrite E; cbn [Z.eqb Pos.eqb qset qget join]; lia.
    + rewrite (Z.mod_small _ (2 ^ 64)) by exact Hr.
      rewrite hw_of_join by (unfold qok, hwok; lia).
      destruct Hhw as [E | [E | [E | E]]]; rewrite E; cbn [Z.eqb Pos.eqb qset qget join]; lia.
Qed.

Fixpoint run_q (q : quad) (l : list mw) : quad :=
  match l with [] => q | m :: r => run_q (exec_q q m) r end.

Lemma mw_run_join l : forall q, qok q -> Forall mw_ok l -> mw_run (join q) l = Some (join (run_q q l)).
Proof.
  induction l as [|m r IH]; intros q Hq Hl; [reflexivity|].
  inversion Hl as [|? ? Hm Hr]; subst. cbn [mw_run run_q]. rewrite mw_exec_join by assumption.
  apply IH; [apply exec_q_ok; assumption | assumption].
Qed.

(* ------------------------------------------------------------------------------------------------ *)
(* the sequences, expressed over half-words *)
Ltac hw_cases a := destruct (Z.eqb_spec a 0); [| destruct (Z.eqb_spec a 65535)].

Lemma movseq32_spec a0 a1 x q0 : hwok a0 -> hwok a1 -> (x = 0 \/ x = 1) -> qok q0 ->
  let imm := join (a0, a1, 0, 0) in
  Forall mw_ok (movseq32 imm x) /\ run_q q0 (movseq32 imm x) = (a0, a1, 0, 0) /\ (length (movseq32 imm x) <= 2)%nat.
Proof.
  intros H0 H1 Hx Hq0 imm. unfold movseq32.
  assert (Hq : qok (a0, a1, 0, 0)) by (unfold qok, hwok in *; lia).
  subst imm. rewrite !hw_of_join by (assumption || lia). cbn [qget Z.eqb Pos.eqb].
  destruct q0 as [[[b0 b1] b2] b3].
  unfold hwok in *.
  destruct (Z.eqb_spec a1 0) as [E1|E1]; [|destruct (Z.eqb_spec a1 65535) as [E2|E2]; [|destruct (Z.eqb_spec a0 0) as [E3|E3];
    [|destruct (Z.eqb_spec a0 65535) as [E4|E4]]]];
  (split; [repeat (apply Forall_cons; [unfold mw_ok, hwok; cbn [mw_sf mw_op mw_hw mw_imm]; lia|]); apply Forall_nil|]);
  (split; [|cbn [length]; lia]);
  destruct Hx as [-> | ->]; cbn [run_q exec_q qset mw_sf mw_op mw_hw mw_imm Z.eqb Pos.eqb]; f_equal; try f_equal; try f_equal; lia.
Qed.

Theorem movseq32_correct imm x init :
  0 <= imm < 2 ^ 32 -> (x = 0 \/ x = 1) -> 0 <= init < 2 ^ 64 ->
  mw_run init (movseq32 imm x) = Some imm /\ (1 <= length (movseq32 imm x) <= 2)%nat /\ Forall mw_ok (movseq32 imm x).
Proof.
  intros Hi Hx Hinit.
  destruct (join_split init Hinit) as (Ej0 & Hq0).
  assert (Hi64 : 0 <= imm < 2 ^ 64) by (change (2 ^ 32) with 4294967296 in Hi; change (2 ^ 64) with 18446744073709551616; lia).
  destruct (join_split imm Hi64) as (Ej & Hq).
  assert (E2 : hw_of imm 2 = 0 /\ hw_of imm 3 = 0).
  { unfold hw_of. change (2 ^ 32) with 4294967296 in Hi. change (2 ^ (16 * 2)) with 4294967296.
    change (2 ^ (16 * 3)) with 281474976710656. split; Z.div_mod_to_equations; lia. }
  destruct E2 as [E2 E3]. rewrite E2, E3 in Ej, Hq.
  destruct Hq as (H0 & H1 & _).
  pose proof (movseq32_spec (hw_of imm 0) (hw_of imm 1) x _ H0 H1 Hx Hq0) as (Hok & Hrun & Hlen).
  cbv zeta in *. rewrite Ej in *.
  rewrite <- Ej0. rewrite mw_run_join by assumption. rewrite Hrun, Ej. split; [reflexivity|]. split; [|exact Hok].
  split; [|exact Hlen]. unfold movseq32. repeat match goal with |- context [if ?b then _ else _] => destruct b end; cbn [length]; lia.
Qed.

(* ---- 64-bit strategies ---- *)
Ltac solve_seq Hx :=
  split; [repeat (apply Forall_cons; [unfold mw_ok, hwok; cbn [mw_sf mw_op mw_hw mw_imm]; lia|]); apply Forall_nil|];
  split; [|cbn [length]; lia];
  cbn [run_q exec_q qset mw_sf mw_op mw_hw mw_imm Z.eqb Pos.eqb]; repeat f_equal; lia.

Lemma movz_spec a0 a1 a2 a3 q0 : qok (a0, a1, a2, a3) -> qok q0 -> ~ (a0 = 0 /\ a1 = 0 /\ a2 = 0 /\ a3 = 0) ->
  let l := movz_loop [0; 1; 2; 3] (join (a0, a1, a2, a3)) true in
  Forall mw_ok l /\ run_q q0 l = (a0, a1, a2, a3) /\ (length l <= 4)%nat.
Proof.
  intros Hq Hq0 Hnz l. subst l. cbn [movz_loop]. rewrite !hw_of_join by (assumption || lia). cbn [qget Z.eqb Pos.eqb].
  destruct q0 as [[[b0 b1] b2] b3]. unfold qok, hwok in *. destruct Hq as (H0 & H1 & H2 & H3).
  destruct (Z.eqb_spec a0 0); destruct (Z.eqb_spec a1 0); destruct (Z.eqb_spec a2 0); destruct (Z.eqb_spec a3 0);
    try (exfalso; apply Hnz; lia); solve_seq tt.
Qed.

Lemma movn_spec a0 a1 a2 a3 q0 : qok (a0, a1, a2, a3) -> qok q0 ->
  let l := match movn_loop [0; 1; 2; 3] (join (a0, a1, a2, a3)) true with
           | [] => [ {| mw_sf := 1; mw_op := MovN; mw_hw := 0; mw_imm := 0 |} ]
           | l => l
           end in
  Forall mw_ok l /\ run_q q0 l = (a0, a1, a2, a3) /\ (length l <= 4)%nat.
Proof.
  intros Hq Hq0 l. subst l. cbn [movn_loop]. rewrite !hw_of_join by (assumption || lia). cbn [qget Z.eqb Pos.eqb].
  destruct q0 as [[[b0 b1] b2] b3]. unfold qok, hwok in *. destruct Hq as (H0 & H1 & H2 & H3).
  destruct (Z.eqb_spec a0 65535); destruct (Z.eqb_spec a1 65535); destruct (Z.eqb_spec a2 65535); destruct (Z.eqb_spec a3 65535);
    solve_seq tt.
Qed.

Theorem movseq64_correct imm x init :
  0 <= imm < 2 ^ 64 -> (x = 0 \/ x = 1) -> 0 <= init < 2 ^ 64 ->
  mw_run init (movseq64 imm x) = Some imm /\ (1 <= length (movseq64 imm x) <= 4)%nat /\ Forall mw_ok (movseq64 imm x).
Proof.
  intros Hi Hx Hinit. unfold movseq64.
  destruct (Z.leb_spec imm 4294967295) as [Hsmall | Hbig].
  { pose proof (movseq32_correct imm x init ltac:(change (2 ^ 32) with 4294967296; lia) Hx Hinit) as (Hr & Hl & Hf). split; [exact Hr | split; [lia | exact Hf]]. }
  destruct (join_split init Hinit) as (Ej0 & Hq0).
  destruct (join_split imm Hi) as (Ej & Hq).
  set (a0 := hw_of imm 0) in *. set (a1 := hw_of imm 1) in *. set (a2 := hw_of imm 2) in *. set (a3 := hw_of imm 3) in *.
  assert (Hnz : ~ (a0 = 0 /\ a1 = 0 /\ a2 = 0 /\ a3 = 0)).
  { intros (E0 & E1 & E2 & E3). rewrite E0, E1, E2, E3 in Ej. unfold join in Ej. lia. }
  rewrite <- Ej0.
  destruct (count_hw 65535 imm <=? count_hw 0 imm).
  - pose proof (movz_spec a0 a1 a2 a3 _ Hq Hq0 Hnz) as (Hok & Hrun & Hlen). cbv zeta in Hok, Hrun, Hlen.
    rewrite Ej in Hok, Hrun, Hlen. rewrite (mw_run_join _ _ Hq0 Hok). rewrite Hrun, Ej. split; [reflexivity|]. split; [|exact Hok].
    split; [|exact Hlen].
    destruct (movz_loop [0; 1; 2; 3] imm true) eqn:El; [|cbn [length]; lia].
    exfalso. clear - El Hnz. subst a0 a1 a2 a3. cbn [movz_loop] in El.
    repeat match type of El with context [if ?b then _ else _] => destruct b eqn:? end; try discriminate.
    apply Hnz. repeat split; apply Z.eqb_eq; assumption.
  - pose proof (movn_spec a0 a1 a2 a3 _ Hq Hq0) as (Hok & Hrun & Hlen). cbv zeta in Hok, Hrun, Hlen.
    rewrite Ej in Hok, Hrun, Hlen. rewrite (mw_run_join _ _ Hq0 Hok). rewrite Hrun, Ej. split; [reflexivity|]. split; [|exact Hok].
    split; [|exact Hlen].
    destruct (movn_loop [0; 1; 2; 3] imm true); cbn [length]; lia.
Qed.

(* ---- the instruction words decode to the abstract operations (ARM ARM "Move wide (immediate)") ---- *)
Lemma mw_decode_word rd m : 0 <= rd < 32 -> mw_ok m -> mw_decode (mw_word rd m) = Some (rd, m).
Proof.
  intros Hrd (Hsf & Hhw & Him & _). destruct m as [sf op hw im]. cbn [mw_sf mw_op mw_hw mw_imm] in *. unfold hwok in Him.
  unfold mw_decode, mw_word. cbn [mw_sf mw_op mw_hw mw_imm].
  change (2 ^ 31) with 2147483648. change (2 ^ 29) with 536870912. change (2 ^ 23) with 8388608.
  change (2 ^ 21) with 2097152. change (2 ^ 5) with 32.
  set (c := match op with MovN => 0 | MovZ => 2 | MovK => 3 end).
  assert (Hc : c = 0 \/ c = 2 \/ c = 3) by (subst c; destruct op; lia).
  set (w := sf * 2147483648 + c * 536870912 + 37 * 8388608 + hw * 2097152 + im * 32 + rd).
  assert (E1 : (w / 8388608) mod 64 = 37) by (subst w; Z.div_mod_to_equations; lia).
  assert (E2 : (w / 536870912) mod 4 = c) by (subst w; Z.div_mod_to_equations; lia).
  assert (E3 : w mod 32 = rd) by (subst w; Z.div_mod_to_equations; lia).
  assert (E4 : (w / 2147483648) mod 2 = sf) by (subst w; Z.div_mod_to_equations; lia).
  assert (E5 : (w / 2097152) mod 4 = hw) by (subst w; Z.div_mod_to_equations; lia).
  assert (E6 : (w / 32) mod 65536 = im) by (subst w; Z.div_mod_to_equations; lia).
  rewrite E1, E2, E3, E4, E5, E6. cbn [Z.eqb Pos.eqb negb].
  subst c. destruct op; reflexivity.
Qed.

(* ---- end to end: the emitted WORDS, decoded architecturally and executed, load the immediate ---- *)
Theorem mov_sequence_words_correct (is64 : bool) imm rd x init :
  0 <= imm < (if is64 then 2 ^ 64 else 2 ^ 32) -> 0 <= rd < 32 -> (x = 0 \/ x = 1) -> 0 <= init < 2 ^ 64 ->
  let ws := encode_mov_sequence is64 imm rd x in
  exists ops, map mw_decode ws = map (fun m => Some (rd, m)) ops /\ mw_run init ops = Some imm /\
              (1 <= length ws <= (if is64 then 4 else 2))%nat.
Proof.
  intros Hi Hrd Hx Hinit ws. subst ws. unfold encode_mov_sequence.
  destruct is64.
  - destruct (movseq64_correct imm x init Hi Hx Hinit) as (Hr & Hl & Hf). exists (movseq64 imm x).
    split; [|split; [exact Hr | rewrite map_length; exact Hl]].
    rewrite map_map. apply map_ext_in. intros m Hm. apply mw_decode_word; [exact Hrd|].
    rewrite Forall_forall in Hf. exact (Hf m Hm).
  - destruct (movseq32_correct imm x init Hi Hx Hinit) as (Hr & Hl & Hf). exists (movseq32 imm x).
    split; [|split; [exact Hr | rewrite map_length; exact Hl]].
    rewrite map_map. apply map_ext_in. intros m Hm. apply mw_decode_word; [exact Hrd|].
    rewrite Forall_forall in Hf. exact (Hf m Hm).
Qed.

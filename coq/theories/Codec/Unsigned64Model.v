(* C17 — the 8-byte UnsignedOffset path of encode_offset64 with the test fixes/C17-unsigned64-negative.patch adds
   (a negative displacement is never an unsigned value).  `un` = the tree has the test; `write_offset_top` is the model the
   check runs (Thumb-2 packers, x86 flags are separate).  No proofs in this file. *)
From Coq Require Import ZArith Bool.
From Verif Require Import Codec.OffsetModel Codec.T32FixModel.
Local Open Scope Z_scope.

Definition is_unsigned8 (f : fmt) : bool := match ty f with UnsignedOffset => vsize f =? 8 | _ => false end.

Definition encode_offset_top (fb fc un : bool) (f : fmt) (off : Z) : option Z :=
  if un && is_unsigned8 f && (off <? 0) then None else encode_offset_var fb fc f off.

Definition write_offset_top (fb fc un : bool) (f : fmt) (old off : Z) : option Z :=
  match encode_offset_top fb fc un f off with
  | Some m => Some (Z.lor old m)
  | None => None
  end.

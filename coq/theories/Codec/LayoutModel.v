(* C17 — the field layouts of CodeWriterUtils::encode_offset32 as DATA, in the shape the C++ has them: every case of the
   switch is a bitwise OR of terms  ((value & MASK) << or >> n),  single bits of value,  the J bits of Thumb-2 B/BL/BLX and
   the sign bit u (or u ^ 1).  `expected_layouts` is what the proofs of LayoutProofs.v are about; tools/c17_layouts.py
   re-extracts the same table from asmjit/core/codewriter.cpp on every run into coq/gen/C17Layouts.v, where it must be
   equal to this one (C17_layouts_current).  No proofs in this file. *)
From Coq Require Import ZArith List Bool.
From Verif Require Import Codec.OffsetModel Codec.ImmModel.
Import ListNotations.
Local Open Scope Z_scope.

Inductive lterm :=
| LMask (mask net : Z)            (* (value & mask) << net   (net >= 0)   or   (value & mask) >> -net   (net < 0) *)
| LBit (src pos : Z)              (* ((value >> src) & 1) << pos *)
| LXnor (a b pos : Z)             (* (((~value >> a) ^ (value >> b)) & 1) << pos, value a uint32 *)
| LSign (inv : bool) (pos : Z).   (* (u << pos)   or   ((u ^ 1) << pos) *)

Record layout := { l_shl1 : bool;                 (* value <<= 1 first (uint32) *)
                   l_vsize : option Z; l_bits : option Z; l_shift : option Z;   (* the sanity checks of the case *)
                   l_terms : list lterm }.

Definition eval_term (v u : Z) (t : lterm) : Z :=
  match t with
  | LMask m net => if 0 <=? net then Z.land v m * 2 ^ net else Z.land v m / 2 ^ (- net)
  | LBit a p => Z.land (v / 2 ^ a) 1 * 2 ^ p
  | LXnor a b p => Z.land (Z.lxor ((2 ^ 32 - 1 - v) / 2 ^ a) (v / 2 ^ b)) 1 * 2 ^ p
  | LSign inv p => (if inv then Z.lxor u 1 else u) * 2 ^ p
  end.

Definition opt_ok (o : option Z) (x : Z) : bool := match o with None => true | Some y => x =? y end.

Definition eval_layout (l : layout) (vs bc bs value u : Z) : option Z :=
  if negb (opt_ok (l_vsize l) vs) || negb (opt_ok (l_bits l) bc) || negb (opt_ok (l_shift l) bs) then None else
  let v := if l_shl1 l then (value * 2) mod 2 ^ 32 else value in
  Some (fold_right (fun t acc => Z.lor (eval_term v u t) acc) 0 (l_terms l)).

(* the bits a term can set, and their union: the field mask of the format as the source text implies it *)
Definition term_mask (t : lterm) : Z :=
  match t with
  | LMask m net => if 0 <=? net then m * 2 ^ net else m / 2 ^ (- net)
  | LBit _ p | LXnor _ _ p | LSign _ p => 2 ^ p
  end.
Definition layout_mask (l : layout) : Z := fold_right (fun t acc => Z.lor (term_mask t) acc) 0 (l_terms l).

(* terms in ascending order of their destination (| is commutative; the translator sorts the same way) *)
Definition expected_layouts : list (otype * layout) :=
  [ (T32_ADR, {| l_shl1 := false; l_vsize := Some 4; l_bits := Some 12; l_shift := Some 0;
                 l_terms := [LMask 255 0; LMask 1792 4; LSign true 21; LSign true 23; LMask 2048 15] |});
    (T32_BLX, {| l_shl1 := true; l_vsize := Some 4; l_bits := None; l_shift := None;
                 l_terms := [LMask 2047 0; LXnor 23 21 11; LXnor 23 22 13; LMask 2095104 5; LMask 8388608 3] |});
    (T32_B, {| l_shl1 := false; l_vsize := Some 4; l_bits := None; l_shift := None;
               l_terms := [LMask 2047 0; LXnor 23 21 11; LXnor 23 22 13; LMask 2095104 5; LMask 8388608 3] |});
    (T32_BCond, {| l_shl1 := false; l_vsize := Some 4; l_bits := Some 20; l_shift := Some 0;
                   l_terms := [LMask 2047 0; LBit 18 11; LBit 17 13; LMask 129024 5; LMask 524288 7] |});
    (A32_U23_0To3At0_4To7At8, {| l_shl1 := false; l_vsize := Some 4; l_bits := Some 8; l_shift := Some 0;
                                 l_terms := [LMask 15 0; LMask 240 4; LSign false 23] |});
    (A32_1To24At0_0At24, {| l_shl1 := false; l_vsize := Some 4; l_bits := Some 25; l_shift := Some 0;
                            l_terms := [LMask 33554430 (-1); LMask 1 24] |});
    (A64_ADR, {| l_shl1 := false; l_vsize := Some 4; l_bits := Some 21; l_shift := Some 5;
                 l_terms := [LMask 2097148 3; LMask 3 29] |});
    (A64_ADRP, {| l_shl1 := false; l_vsize := Some 4; l_bits := Some 21; l_shift := Some 5;
                  l_terms := [LMask 2097148 3; LMask 3 29] |}) ].

Fixpoint layout_of (t : otype) (l : list (otype * layout)) : option layout :=
  match l with
  | [] => None
  | (t', y) :: r => if (match t, t' with
                        | T32_ADR, T32_ADR | T32_BLX, T32_BLX | T32_B, T32_B | T32_BCond, T32_BCond
                        | A32_U23_0To3At0_4To7At8, A32_U23_0To3At0_4To7At8 | A32_1To24At0_0At24, A32_1To24At0_0At24
                        | A64_ADR, A64_ADR | A64_ADRP, A64_ADRP => true
                        | _, _ => false end) then Some y else layout_of t r
  end.

(* ---- asmjit/core/fixup.h as data (re-extracted by tools/c17_layouts.py): the enumerators of OffsetType in declaration order
   (= the constructor order of OffsetModel.otype, which the model driver numbers 0..11) and the types listed by has_sign_bit() *)
Definition expected_otype_order : list otype :=
  [SignedOffset; UnsignedOffset; A64_ADR; A64_ADRP; T32_ADR; T32_BLX; T32_B; T32_BCond; A32_ADR; A32_U23;
   A32_U23_0To3At0_4To7At8; A32_1To24At0_0At24].
Definition expected_sign_types : list otype := [T32_ADR; A32_ADR; A32_U23; A32_U23_0To3At0_4To7At8].

(* ---- asmjit/arm/armutils.h as data: template arguments <kNumBBits, kNumCDEFGHBits, kNumZeroBits> of is_fp16/32/64_imm8 and of
   encode_fp64_to_imm8, the two constants of is_add_sub_imm (0xFFF, << 12) and the byte-mask constant of is_byte_mask_imm *)
Definition expected_fp_params : list (Z * (Z * Z * Z)) := [(16, (3, 6, 6)); (32, (6, 6, 19)); (64, (9, 6, 48)); (64, (9, 6, 48))].
Definition expected_arm_consts : list Z := [4095; 12; 72340172838076673].

(* ---- every OffsetFormat the backends build (call sites of reset_to_simple_value / reset_to_imm_value), re-extracted per run ---- *)
Definition expected_used_formats : list fmt :=
  [ {| ty := SignedOffset; vsize := 1; bits := 8; shift := 0; discard := 0 |};
    {| ty := SignedOffset; vsize := 2; bits := 16; shift := 0; discard := 0 |};
    {| ty := SignedOffset; vsize := 4; bits := 14; shift := 5; discard := 2 |};
    {| ty := SignedOffset; vsize := 4; bits := 19; shift := 5; discard := 2 |};
    {| ty := SignedOffset; vsize := 4; bits := 26; shift := 0; discard := 2 |};
    {| ty := SignedOffset; vsize := 4; bits := 32; shift := 0; discard := 0 |};
    {| ty := SignedOffset; vsize := 8; bits := 64; shift := 0; discard := 0 |};
    {| ty := UnsignedOffset; vsize := 1; bits := 8; shift := 0; discard := 0 |};
    {| ty := UnsignedOffset; vsize := 2; bits := 16; shift := 0; discard := 0 |};
    {| ty := UnsignedOffset; vsize := 4; bits := 32; shift := 0; discard := 0 |};
    {| ty := UnsignedOffset; vsize := 8; bits := 64; shift := 0; discard := 0 |};
    {| ty := A64_ADR; vsize := 4; bits := 21; shift := 5; discard := 0 |};
    {| ty := A64_ADRP; vsize := 4; bits := 21; shift := 5; discard := 12 |} ].

(* decidable form of the hypotheses of the round-trip theorems *)
Definition fmt_supported (f : fmt) : bool :=
  let contig := ((vsize f =? 1) || (vsize f =? 2) || (vsize f =? 4) || (vsize f =? 8)) && (0 <? bits f) && (0 <=? shift f) &&
                (bits f + shift f <=? 8 * vsize f) && (0 <=? discard f) && (discard f <=? 31) in
  match ty f with
  | SignedOffset | UnsignedOffset => contig
  | A64_ADR | A64_ADRP => (vsize f =? 4) && (bits f =? 21) && (shift f =? 5) && (0 <=? discard f) && (discard f <=? 31)
  | _ => false
  end.

(* the numbering the model driver uses for OffsetType values on the wire: position in the (re-extracted) enumerator order *)
Definition otype_of_index (i : Z) : option otype := if i <? 0 then None else nth_error expected_otype_order (Z.to_nat i).

(* ---- the bit-field alias cases of a64assembler.cpp (BaseBfx / BaseBfi / BaseBfc / BaseBfm, LSL #imm of BaseShift) as DATA:
   operand guards, the two field expressions and where they are added (bit 16 = immr, bit 10 = imms), re-extracted per run ---- *)
Inductive bexpr := BA | BB                      (* first / second immediate operand (uint64) *)
| BNegAnd (e : bexpr)                            (* Support::neg(uint32_t(e)) & (op_size - 1) *)
| BPred (e : bexpr)                              (* uint32_t(e) - 1 *)
| BAddPred (e1 e2 : bexpr)                       (* e1 + uint32_t(e2) - 1 *)
| BSizePredMinus (e : bexpr).                    (* op_size - 1 - uint32_t(e) *)
Inductive bguard := GGeSize (e : bexpr) | GEqZero (e : bexpr) | GGtSizeMinus (e1 e2 : bexpr) | GOrGeSize (e1 e2 : bexpr).
Record bf_rule := { br_guards : list bguard; br_immr : bexpr; br_imms : bexpr; br_imms_lt_size : bool }.

Fixpoint eval_bexpr (size a b : Z) (e : bexpr) : Z :=
  match e with
  | BA => a | BB => b
  | BNegAnd x => Z.land ((2 ^ 32 - eval_bexpr size a b x mod 2 ^ 32) mod 2 ^ 32) (size - 1)
  | BPred x => eval_bexpr size a b x - 1
  | BAddPred x y => eval_bexpr size a b x + eval_bexpr size a b y - 1
  | BSizePredMinus x => size - 1 - eval_bexpr size a b x
  end.
Definition eval_bguard (size a b : Z) (g : bguard) : bool :=
  match g with
  | GGeSize e => size <=? eval_bexpr size a b e
  | GEqZero e => eval_bexpr size a b e =? 0
  | GGtSizeMinus e1 e2 => size - eval_bexpr size a b e2 <? eval_bexpr size a b e1
  | GOrGeSize e1 e2 => size <=? Z.lor (eval_bexpr size a b e1) (eval_bexpr size a b e2)
  end.
Definition eval_bf_rule (r : bf_rule) (size a b : Z) : option (Z * Z) :=
  if existsb (eval_bguard size a b) (br_guards r) then None else
  let s := eval_bexpr size a b (br_imms r) in
  if br_imms_lt_size r && (size <=? s) then None else Some (eval_bexpr size a b (br_immr r), s).

Definition lw_guards : list bguard := [GGeSize BA; GEqZero BB; GGtSizeMinus BB BA].
Definition expected_bf_rules : list bf_rule :=     (* BaseBfc; BaseBfi; BaseBfm; BaseBfx; LSL #imm *)
  [ {| br_guards := lw_guards; br_immr := BNegAnd BA; br_imms := BPred BB; br_imms_lt_size := false |};
    {| br_guards := lw_guards; br_immr := BNegAnd BA; br_imms := BPred BB; br_imms_lt_size := false |};
    {| br_guards := [GOrGeSize BA BB]; br_immr := BA; br_imms := BB; br_imms_lt_size := false |};
    {| br_guards := lw_guards; br_immr := BA; br_imms := BAddPred BA BB; br_imms_lt_size := true |};
    {| br_guards := [GGeSize BA]; br_immr := BNegAnd BA; br_imms := BSizePredMinus BA; br_imms_lt_size := false |} ].

(* C17 — the field layouts of CodeWriterUtils::encode_offset32 as DATA, in the shape the C++ has them: every case of the
   switch is a bitwise OR of terms  ((value & MASK) << or >> n),  single bits of value,  the J bits of Thumb-2 B/BL/BLX and
   the sign bit u (or u ^ 1).  `expected_layouts` is what the proofs of LayoutProofs.v are about; tools/c17_layouts.py
   re-extracts the same table from asmjit/core/codewriter.cpp on every run into coq/gen/C17Layouts.v, where it must be
   equal to this one (C17_layouts_current).  No proofs in this file. *)
From Coq Require Import ZArith List Bool.
From Verif Require Import Codec.OffsetModel.
Import ListNotations.
Local Open Scope Z_scope.

Inductive lterm :=
| LMask (mask net : Z)            (* (value & mask) << net   (net >= 0)   or   (value & mask) >> -net   (net < 0) *)
| LBit (src pos : Z)              (* ((value >> src) & 1) << pos *)
| LXnor (a b pos : Z)             (* (((~value >> a) ^ (value >> b)) & 1) << pos, value a uint32 *)
| LSign (inv : bool) (pos : Z).   (* (u << pos)   or   ((u ^ 1) << pos) *)

Record layout := { l_shl1 : bool;                 (* value <<= 1 first (uint32) *)
                   l_vsize : option Z; l_bits : option Z; l_shift : option Z;   (* the sanity checks of the case *)
                   l_terms : list lterm }.

Definition eval_term (v u : Z) (t : lterm) : Z :=
  match t with
  | LMask m net => if 0 <=? net then Z.land v m * 2 ^ net else Z.land v m / 2 ^ (- net)
  | LBit a p => Z.land (v / 2 ^ a) 1 * 2 ^ p
  | LXnor a b p => Z.land (Z.lxor ((2 ^ 32 - 1 - v) / 2 ^ a) (v / 2 ^ b)) 1 * 2 ^ p
  | LSign inv p => (if inv then Z.lxor u 1 else u) * 2 ^ p
  end.

Definition opt_ok (o : option Z) (x : Z) : bool := match o with None => true | Some y => x =? y end.

Definition eval_layout (l : layout) (vs bc bs value u : Z) : option Z :=
  if negb (opt_ok (l_vsize l) vs) || negb (opt_ok (l_bits l) bc) || negb (opt_ok (l_shift l) bs) then None else
  let v := if l_shl1 l then (value * 2) mod 2 ^ 32 else value in
  Some (fold_right (fun t acc => Z.lor (eval_term v u t) acc) 0 (l_terms l)).

(* the bits a term can set, and their union: the field mask of the format as the source text implies it *)
Definition term_mask (t : lterm) : Z :=
  match t with
  | LMask m net => if 0 <=? net then m * 2 ^ net else m / 2 ^ (- net)
  | LBit _ p | LXnor _ _ p | LSign _ p => 2 ^ p
  end.
Definition layout_mask (l : layout) : Z := fold_right (fun t acc => Z.lor (term_mask t) acc) 0 (l_terms l).

(* terms in ascending order of their destination (| is commutative; the translator sorts the same way) *)
Definition expected_layouts : list (otype * layout) :=
  [ (T32_ADR, {| l_shl1 := false; l_vsize := Some 4; l_bits := Some 12; l_shift := Some 0;
                 l_terms := [LMask 255 0; LMask 1792 4; LSign true 21; LSign true 23; LMask 2048 15] |});
    (T32_BLX, {| l_shl1 := true; l_vsize := Some 4; l_bits := None; l_shift := None;
                 l_terms := [LMask 2047 0; LXnor 23 21 11; LXnor 23 22 13; LMask 2095104 5; LMask 8388608 3] |});
    (T32_B, {| l_shl1 := false; l_vsize := Some 4; l_bits := None; l_shift := None;
               l_terms := [LMask 2047 0; LXnor 23 21 11; LXnor 23 22 13; LMask 2095104 5; LMask 8388608 3] |});
    (T32_BCond, {| l_shl1 := false; l_vsize := Some 4; l_bits := Some 20; l_shift := Some 0;
                   l_terms := [LMask 2047 0; LBit 18 11; LBit 17 13; LMask 129024 5; LMask 524288 7] |});
    (A32_U23_0To3At0_4To7At8, {| l_shl1 := false; l_vsize := Some 4; l_bits := Some 8; l_shift := Some 0;
                                 l_terms := [LMask 15 0; LMask 240 4; LSign false 23] |});
    (A32_1To24At0_0At24, {| l_shl1 := false; l_vsize := Some 4; l_bits := Some 25; l_shift := Some 0;
                            l_terms := [LMask 33554430 (-1); LMask 1 24] |});
    (A64_ADR, {| l_shl1 := false; l_vsize := Some 4; l_bits := Some 21; l_shift := Some 5;
                 l_terms := [LMask 2097148 3; LMask 3 29] |});
    (A64_ADRP, {| l_shl1 := false; l_vsize := Some 4; l_bits := Some 21; l_shift := Some 5;
                  l_terms := [LMask 2097148 3; LMask 3 29] |}) ].

Fixpoint layout_of (t : otype) (l : list (otype * layout)) : option layout :=
  match l with
  | [] => None
  | (t', y) :: r => if (match t, t' with
                        | T32_ADR, T32_ADR | T32_BLX, T32_BLX | T32_B, T32_B | T32_BCond, T32_BCond
                        | A32_U23_0To3At0_4To7At8, A32_U23_0To3At0_4To7At8 | A32_1To24At0_0At24, A32_1To24At0_0At24
                        | A64_ADR, A64_ADR | A64_ADRP, A64_ADRP => true
                        | _, _ => false end) then Some y else layout_of t r
  end.

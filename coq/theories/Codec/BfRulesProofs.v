(* C17 — the bit-field alias rules as extracted data (LayoutModel.expected_bf_rules: guards, field expressions, bit positions of the
   a64 assembler's BaseBfc / BaseBfi / BaseBfm / BaseBfx cases and the LSL #imm branch) denote exactly BitfieldModel.encode_bitfield,
   for EVERY operand pair; with C17_bf_rules_current (coq/gen/C17Layouts.v = this table) the alias model is tied to the source text. *)
From Coq Require Import ZArith Lia Bool List.
From Verif Require Import Base.ZBits Codec.OffsetModel Codec.BitfieldModel Codec.LayoutModel.
Import ListNotations.
Local Open Scope Z_scope.

Theorem bf_rules_denote size a b :
  map (fun r => eval_bf_rule r size a b) expected_bf_rules =
  [ encode_bitfield Bfi size a b;      (* BaseBfc *)
    encode_bitfield Bfi size a b;      (* BaseBfi *)
    encode_bitfield Bfm size a b;      (* BaseBfm *)
    encode_bitfield Bfx size a b;      (* BaseBfx *)
    encode_bitfield ShLsl size a b ].  (* LSL #imm (the second operand is not used) *)
Proof.
  unfold expected_bf_rules, eval_bf_rule, encode_bitfield, neg32_and, lw_guards.
  cbn [map br_guards br_immr br_imms br_imms_lt_size existsb eval_bguard eval_bexpr andb].
  rewrite !orb_false_r, !orb_assoc.
  reflexivity.
Qed.

Example bf_rules_witness :
  eval_bf_rule (nth 3 expected_bf_rules (nth 0 expected_bf_rules {| br_guards := []; br_immr := BA; br_imms := BB; br_imms_lt_size := false |})) 32 4 8 = Some (4, 11) /\
  eval_bf_rule (nth 0 expected_bf_rules {| br_guards := []; br_immr := BA; br_imms := BB; br_imms_lt_size := false |}) 32 1 32 = None /\
  eval_bf_rule (nth 4 expected_bf_rules (nth 0 expected_bf_rules {| br_guards := []; br_immr := BA; br_imms := BB; br_imms_lt_size := false |})) 64 3 0 = Some (61, 60).
Proof. repeat split; vm_compute; reflexivity. Qed.

(* C17 — proofs about the offset codec model (OffsetModel.v). *)
From Coq Require Import ZArith Lia Bool List.
From Verif Require Import Base.ZBits Codec.OffsetModel.
Import ListNotations.
Local Open Scope Z_scope.

Lemma sext_is_sextz n x : sext n x = sextz n x.
Proof. reflexivity. Qed.

(* ------------------------------------------------------------------------------------------------ *)
(* what the contiguous signed encoder accepts, as an arithmetic predicate *)
Definition signed_ok (f : fmt) (off : Z) : Prop :=
  off mod 2 ^ discard f = 0 /\ - 2 ^ (bits f - 1) <= off / 2 ^ discard f < 2 ^ (bits f - 1).
Definition unsigned_ok (f : fmt) (off : Z) : Prop :=
  off mod 2 ^ discard f = 0 /\ 0 <= off / 2 ^ discard f < 2 ^ bits f.

Definition wf_contig (f : fmt) : Prop :=
  (vsize f = 1 \/ vsize f = 2 \/ vsize f = 4 \/ vsize f = 8) /\ 0 < bits f /\ 0 <= shift f /\
  bits f + shift f <= 8 * vsize f /\ 0 <= discard f <= 31.

Lemma wf_contig_cases f : wf_contig f -> wf_contig32 f \/ wf_contig64 f.
Proof. unfold wf_contig, wf_contig32, wf_contig64. intros (Hv & Hr). destruct Hv as [E|[E|[E|E]]]; rewrite E in *; intuition lia. Qed.

Lemma discard_check_true f off :
  0 <= discard f ->
  (negb (discard f =? 0) && negb (off mod 2 ^ discard f =? 0)) = true -> off mod 2 ^ discard f <> 0.
Proof.
  intros Hd H. apply andb_true_iff in H. destruct H as [_ H]. apply negb_true_iff in H. apply Z.eqb_neq in H. exact H.
Qed.

Lemma discard_check_false f off :
  0 <= discard f ->
  (negb (discard f =? 0) && negb (off mod 2 ^ discard f =? 0)) = false -> off mod 2 ^ discard f = 0.
Proof.
  intros Hd H. apply andb_false_iff in H. destruct H as [H|H].
  - apply negb_false_iff in H. apply Z.eqb_eq in H. rewrite H. simpl. apply Z.mod_1_r.
  - apply negb_false_iff in H. apply Z.eqb_eq in H. exact H.
Qed.

(* ---- signed, 1/2/4-byte words ---- *)
Lemma signed32_spec f off :
  ty f = SignedOffset -> wf_contig32 f ->
  match encode_offset f off with
  | Some m => signed_ok f off /\ m = ((off / 2 ^ discard f) mod 2 ^ bits f) * 2 ^ shift f
  | None => ~ signed_ok f off
  end.
Proof.
  intros Hty (Hv & Hb & Hs & Hfit & Hd).
  assert (Hb32 : bits f <= 32) by (destruct Hv as [H|[H|H]]; rewrite H in *; lia).
  assert (Hvs : (vsize f =? 1) || (vsize f =? 2) || (vsize f =? 4) = true)
    by (destruct Hv as [H|[H|H]]; rewrite H; reflexivity).
  unfold encode_offset. rewrite Hvs. unfold encode_offset32. rewrite Hty. cbn [has_sign_bit andb orb].
  replace (bits f =? 0) with false by (symmetry; apply Z.eqb_neq; lia).
  replace (vsize f * 8 <? bits f) with false by (symmetry; apply Z.ltb_ge; lia).
  cbn [orb].
  destruct (negb (discard f =? 0) && negb (off mod 2 ^ discard f =? 0)) eqn:Edl.
  { apply discard_check_true in Edl; [|lia]. intros (H & _). contradiction. }
  apply discard_check_false in Edl; [|lia].
  set (o := off / 2 ^ discard f) in *.
  pose proof (pow2_le (bits f - 1) 31 ltac:(lia)) as Hle.
  pose proof (pow2_pos (bits f - 1) ltac:(lia)) as Hpp.
  destruct ((- 2 ^ 31 <=? o) && (o <? 2 ^ 31)) eqn:E32; cbn [negb].
  2:{ intros (_ & Hr). apply andb_false_iff in E32. destruct E32 as [E|E].
      - apply Z.leb_gt in E. lia.
      - apply Z.ltb_ge in E. lia. }
  destruct ((- 2 ^ (bits f - 1) <=? o) && (o <? 2 ^ (bits f - 1))) eqn:Eb.
  2:{ intros (_ & Hr). apply andb_false_iff in Eb. destruct Eb as [E|E].
      - apply Z.leb_gt in E. lia.
      - apply Z.ltb_ge in E. lia. }
  apply andb_true_iff in Eb. destruct Eb as [E1 E2]. apply Z.leb_le in E1. apply Z.ltb_lt in E2.
  split; [split; [exact Edl | lia] |].
  unfold wrap. rewrite (mod_mod_pow2 o (bits f) 32) by lia.
  pose proof (Z.mod_pos_bound o (2 ^ bits f) (pow2_pos (bits f) ltac:(lia))) as Hm.
  pose proof (mul_pow2_bound (o mod 2 ^ bits f) (bits f) (shift f) Hs ltac:(lia) Hm) as Hmb.
  pose proof (pow2_le (bits f + shift f) (8 * vsize f) ltac:(lia)) as Hl1.
  pose proof (pow2_le (8 * vsize f) 32 ltac:(destruct Hv as [H|[H|H]]; rewrite H; lia)) as Hl2.
  rewrite (Z.mod_small _ (2 ^ 32)) by lia.
  rewrite Z.mod_small by lia. reflexivity.
Qed.

Lemma signed64_spec f off :
  ty f = SignedOffset -> wf_contig64 f -> int64 off ->
  match encode_offset f off with
  | Some m => signed_ok f off /\ m = ((off / 2 ^ discard f) mod 2 ^ bits f) * 2 ^ shift f
  | None => ~ signed_ok f off
  end.
Proof.
  intros Hty (Hv & Hb & Hs & Hfit & Hd) Hoff.
  unfold encode_offset. rewrite Hv. cbn [Z.eqb Pos.eqb orb].
  unfold encode_offset64. rewrite Hty, Hv.
  replace (bits f =? 0) with false by (symmetry; apply Z.eqb_neq; lia).
  replace (8 * 8 <? bits f) with false by (symmetry; apply Z.ltb_ge; lia).
  cbn [orb].
  destruct (negb (discard f =? 0) && negb (off mod 2 ^ discard f =? 0)) eqn:Edl.
  { apply discard_check_true in Edl; [|lia]. intros (H & _). contradiction. }
  apply discard_check_false in Edl; [|lia].
  set (o := off / 2 ^ discard f) in *.
  destruct ((- 2 ^ (bits f - 1) <=? o) && (o <? 2 ^ (bits f - 1))) eqn:Eb.
  2:{ intros (_ & Hr). apply andb_false_iff in Eb. destruct Eb as [E|E].
      - apply Z.leb_gt in E. lia.
      - apply Z.ltb_ge in E. lia. }
  apply andb_true_iff in Eb. destruct Eb as [E1 E2]. apply Z.leb_le in E1. apply Z.ltb_lt in E2.
  split; [split; [exact Edl | lia] |].
  unfold wrap. rewrite (mod_mod_pow2 o (bits f) 64) by lia.
  pose proof (Z.mod_pos_bound o (2 ^ bits f) (pow2_pos (bits f) ltac:(lia))) as Hm.
  pose proof (mul_pow2_bound (o mod 2 ^ bits f) (bits f) (shift f) Hs ltac:(lia) Hm) as Hmb.
  pose proof (pow2_le (bits f + shift f) 64 ltac:(lia)) as Hl1.
  rewrite Z.mod_small by lia. reflexivity.
Qed.

Lemma signed_spec f off :
  ty f = SignedOffset -> wf_contig f -> int64 off ->
  match encode_offset f off with
  | Some m => signed_ok f off /\ m = ((off / 2 ^ discard f) mod 2 ^ bits f) * 2 ^ shift f
  | None => ~ signed_ok f off
  end.
Proof.
  intros Hty Hwf Hoff. destruct (wf_contig_cases f Hwf).
  - apply signed32_spec; assumption.
  - apply signed64_spec; assumption.
Qed.

(* decoding what was encoded *)
Lemma field_raw_of_encoded f r : 0 <= shift f -> 0 <= bits f -> 0 <= r < 2 ^ bits f ->
  field_raw f (r * 2 ^ shift f) = r.
Proof.
  intros Hs Hb Hr. unfold field_raw. rewrite mul_pow2_div by lia. apply Z.mod_small; lia.
Qed.

Theorem signed_roundtrip f off m :
  ty f = SignedOffset -> wf_contig f -> int64 off ->
  encode_offset f off = Some m ->
  decode_signed f m = off /\ 0 <= m < 2 ^ (bits f + shift f) /\ m mod 2 ^ shift f = 0.
Proof.
  intros Hty Hwf Hoff He. pose proof (signed_spec f off Hty Hwf Hoff) as Hs. rewrite He in Hs.
  destruct Hs as ((Hm0 & Hr) & ->). destruct Hwf as (Hv & Hb & Hsft & Hfit & Hd).
  pose proof (Z.mod_pos_bound (off / 2 ^ discard f) (2 ^ bits f) (pow2_pos (bits f) ltac:(lia))) as Hm.
  split; [|split].
  - unfold decode_signed. rewrite field_raw_of_encoded by lia.
    rewrite sext_is_sextz, sextz_of_mod by lia. apply div_pow2_exact; lia.
  - apply mul_pow2_bound; lia.
  - apply mul_pow2_mod; lia.
Qed.

Theorem signed_refused_iff f off :
  ty f = SignedOffset -> wf_contig f -> int64 off ->
  (encode_offset f off = None <-> ~ signed_ok f off).
Proof.
  intros Hty Hwf Hoff. pose proof (signed_spec f off Hty Hwf Hoff) as Hs.
  destruct (encode_offset f off) as [m|]; split; intros H; try congruence; tauto.
Qed.

(* ---- unsigned ---- *)
Lemma unsigned32_spec f off :
  ty f = UnsignedOffset -> wf_contig32 f -> int64 off ->
  match encode_offset f off with
  | Some m => unsigned_ok f off /\ m = (off / 2 ^ discard f) * 2 ^ shift f
  | None => ~ unsigned_ok f off
  end.
Proof.
  intros Hty (Hv & Hb & Hs & Hfit & Hd) Hoff.
  assert (Hb32 : bits f <= 32) by (destruct Hv as [H|[H|H]]; rewrite H in *; lia).
  assert (Hvs : (vsize f =? 1) || (vsize f =? 2) || (vsize f =? 4) = true)
    by (destruct Hv as [H|[H|H]]; rewrite H; reflexivity).
  unfold encode_offset. rewrite Hvs. unfold encode_offset32. rewrite Hty. cbn [has_sign_bit andb orb].
  replace (bits f =? 0) with false by (symmetry; apply Z.eqb_neq; lia).
  replace (vsize f * 8 <? bits f) with false by (symmetry; apply Z.ltb_ge; lia).
  cbn [orb].
  destruct (negb (discard f =? 0) && negb (off mod 2 ^ discard f =? 0)) eqn:Edl.
  { apply discard_check_true in Edl; [|lia]. intros (H & _). contradiction. }
  apply discard_check_false in Edl; [|lia].
  pose proof (pow2_pos (discard f) ltac:(lia)) as Hpd.
  pose proof (pow2_pos (bits f) ltac:(lia)) as Hpb.
  (* the value after the (logical) shift *)
  set (o := if discard f =? 0 then off else to_i64 (wrap 64 off / 2 ^ discard f)).
  destruct (o mod 2 ^ bits f =? o) eqn:Ev.
  - apply Z.eqb_eq in Ev. apply mod_small_iff_range in Ev; [|lia].
    assert (Ho : o = off / 2 ^ discard f).
    { subst o. destruct (Z.eqb_spec (discard f) 0) as [E0|E0].
      - rewrite E0. simpl. rewrite Z.div_1_r. reflexivity.
      - revert Ev. destruct (Z.eqb_spec (discard f) 0); [contradiction|]. intros Ev.
        (* off must be non-negative: otherwise the logical shift leaves a value >= 2^32 *)
        unfold to_i64, wrap in *. unfold int64 in Hoff.
        destruct (Z_lt_le_dec off 0) as [Hneg|Hpos].
        + exfalso.
          assert (Ew : off mod 2 ^ 64 = off + 2 ^ 64).
          { symmetry. apply (Z.mod_unique off (2 ^ 64) (-1)); lia. }
          rewrite Ew in Ev.
          assert (Hq : 2 ^ 32 <= (off + 2 ^ 64) / 2 ^ discard f < 2 ^ 63).
          { split.
            - apply Z.div_le_lower_bound; [lia|].
              pose proof (pow2_le (discard f) 31 ltac:(lia)).
              assert (2 ^ discard f * 2 ^ 32 <= 2 ^ 31 * 2 ^ 32) by nia. lia.
            - apply Z.div_lt_upper_bound; [lia|].
              assert (2 <= 2 ^ discard f) by (pose proof (pow2_le 1 (discard f) ltac:(lia)); lia). nia. }
          rewrite sext_is_sextz in Ev. unfold sextz in Ev.
          rewrite (Z.mod_small _ (2 ^ 64)) in Ev by lia.
          replace (64 - 1) with 63 in Ev by lia.
          destruct (Z.ltb_spec ((off + 2 ^ 64) / 2 ^ discard f) (2 ^ 63)); [|lia].
          pose proof (pow2_le (bits f) 32 ltac:(lia)). lia.
        + rewrite (Z.mod_small off (2 ^ 64)) by lia.
          assert (0 <= off / 2 ^ discard f < 2 ^ 63).
          { split; [apply Z.div_pos; lia|]. apply Z.div_lt_upper_bound; [lia|]. nia. }
          rewrite sext_is_sextz. unfold sextz. rewrite (Z.mod_small _ (2 ^ 64)) by lia.
          replace (64 - 1) with 63 by lia.
          destruct (Z.ltb_spec (off / 2 ^ discard f) (2 ^ 63)); lia. }
    rewrite <- Ho.
    split; [split; [exact Edl| lia] |].
    rewrite (Z.mod_small o (2 ^ bits f)) by lia.
    rewrite (Z.mod_small o (2 ^ bits f)) by lia.
    pose proof (mul_pow2_bound o (bits f) (shift f) Hs ltac:(lia) Ev) as Hmb.
    pose proof (pow2_le (bits f + shift f) (8 * vsize f) ltac:(lia)) as Hl1.
    pose proof (pow2_le (8 * vsize f) 32 ltac:(destruct Hv as [H|[H|H]]; rewrite H; lia)) as Hl2.
    unfold wrap. rewrite (Z.mod_small _ (2 ^ 32)) by lia. rewrite Z.mod_small by lia. reflexivity.
  - apply Z.eqb_neq in Ev. intros (_ & Hr). apply Ev. apply mod_small_iff_range; [lia|].
    subst o. destruct (Z.eqb_spec (discard f) 0) as [E0|E0].
    + rewrite E0 in Hr. simpl in Hr. rewrite Z.div_1_r in Hr. exact Hr.
    + unfold to_i64, wrap. unfold int64 in Hoff.
      assert (0 <= off).
      { destruct (Z_lt_le_dec off 0); [|lia]. exfalso.
        assert (off / 2 ^ discard f < 0) by (apply Z.div_lt_upper_bound; lia). lia. }
      rewrite (Z.mod_small off (2 ^ 64)) by lia.
      pose proof (pow2_le (bits f) 32 ltac:(lia)).
      rewrite sext_is_sextz. unfold sextz. rewrite (Z.mod_small _ (2 ^ 64)) by lia.
      replace (64 - 1) with 63 by lia.
      destruct (Z.ltb_spec (off / 2 ^ discard f) (2 ^ 63)); lia.
Qed.

Theorem unsigned32_roundtrip f off m :
  ty f = UnsignedOffset -> wf_contig32 f -> int64 off ->
  encode_offset f off = Some m ->
  decode_unsigned f m = off /\ 0 <= m < 2 ^ (bits f + shift f) /\ m mod 2 ^ shift f = 0.
Proof.
  intros Hty Hwf Hoff He. pose proof (unsigned32_spec f off Hty Hwf Hoff) as Hs. rewrite He in Hs.
  destruct Hs as ((Hm0 & Hr) & ->). destruct Hwf as (Hv & Hb & Hsft & Hfit & Hd).
  split; [|split].
  - unfold decode_unsigned. rewrite field_raw_of_encoded by lia. apply div_pow2_exact; lia.
  - apply mul_pow2_bound; lia.
  - apply mul_pow2_mod; lia.
Qed.

Theorem unsigned32_refused_iff f off :
  ty f = UnsignedOffset -> wf_contig32 f -> int64 off ->
  (encode_offset f off = None <-> ~ unsigned_ok f off).
Proof.
  intros Hty Hwf Hoff. pose proof (unsigned32_spec f off Hty Hwf Hoff) as Hs.
  destruct (encode_offset f off) as [m|]; split; intros H; try congruence; tauto.
Qed.

(* ---- AArch64 ADR / ADRP: split immlo:immhi field ---- *)
Definition is_adr_fmt (f : fmt) : Prop :=
  (ty f = A64_ADR \/ ty f = A64_ADRP) /\ vsize f = 4 /\ bits f = 21 /\ shift f = 5 /\ 0 <= discard f <= 31.

Lemma adr_pack_unpack o :
  - 2 ^ 20 <= o < 2 ^ 20 ->
  let value := o mod 2 ^ 32 in
  let m := (value mod 4) * 2 ^ 29 + ((value / 4) mod 2 ^ 19) * 2 ^ 5 in
  decode_a64_adr m = o /\ 0 <= m < 2 ^ 32 /\ Z.land m (Z.lnot a64_adr_mask) = 0.
Proof.
  intros Ho value m.
  assert (Hlo : value mod 4 = o mod 4).
  { subst value. change 4 with (2 ^ 2). apply mod_mod_pow2. lia. }
  assert (Hhi : (value / 4) mod 2 ^ 19 = (o / 4) mod 2 ^ 19).
  { subst value. change (2 ^ 32) with 4294967296. change (2 ^ 19) with 524288.
    Z.div_mod_to_equations. lia. }
  subst m. rewrite Hlo, Hhi.
  pose proof (Z.mod_pos_bound o 4 ltac:(lia)) as B1.
  pose proof (Z.mod_pos_bound (o / 4) (2 ^ 19) ltac:(lia)) as B2.
  set (lo := o mod 4) in *. set (hi := (o / 4) mod 2 ^ 19) in *.
  assert (Hdec : decode_a64_adr (lo * 2 ^ 29 + hi * 2 ^ 5) = o).
  { unfold decode_a64_adr.
    assert (E1 : ((lo * 2 ^ 29 + hi * 2 ^ 5) / 2 ^ 5) mod 2 ^ 19 = hi).
    { replace (lo * 2 ^ 29 + hi * 2 ^ 5) with ((lo * 2 ^ 24 + hi) * 2 ^ 5) by ring.
      rewrite Z.div_mul by lia. replace (lo * 2 ^ 24 + hi) with (hi + (lo * 2 ^ 5) * 2 ^ 19) by ring.
      rewrite Z.mod_add by lia. apply Z.mod_small; lia. }
    assert (E2 : ((lo * 2 ^ 29 + hi * 2 ^ 5) / 2 ^ 29) mod 4 = lo).
    { replace (lo * 2 ^ 29 + hi * 2 ^ 5) with (hi * 2 ^ 5 + lo * 2 ^ 29) by ring.
      rewrite Z.div_add by lia. rewrite (Z.div_small (hi * 2 ^ 5)) by lia. rewrite Z.add_0_l.
      apply Z.mod_small; lia. }
    rewrite E1, E2.
    assert (E3 : hi * 4 + lo = o mod 2 ^ 21).
    { subst hi lo. change (2 ^ 21) with (4 * 2 ^ 19). rewrite Z.rem_mul_r by lia. ring. }
    rewrite E3, sext_is_sextz. apply sextz_of_mod; lia. }
  split; [exact Hdec|]. split; [lia|].
  (* bits outside the two sub-fields are clear *)
  apply Z.bits_inj'. intros n Hn. rewrite Z.land_spec, Z.lnot_spec, Z.bits_0 by lia.
  destruct (Z_lt_le_dec n 5).
  { replace (lo * 2 ^ 29 + hi * 2 ^ 5) with ((lo * 2 ^ 24 + hi) * 2 ^ 5) by ring.
    rewrite Z.mul_pow2_bits_low by lia. reflexivity. }
  destruct (Z_lt_le_dec n 24).
  { replace (Z.testbit a64_adr_mask n) with true; [apply andb_false_r|].
    unfold a64_adr_mask. symmetry.
    assert (Hcases : n = 5 \/ n = 6 \/ n = 7 \/ n = 8 \/ n = 9 \/ n = 10 \/ n = 11 \/ n = 12 \/ n = 13 \/ n = 14 \/
                     n = 15 \/ n = 16 \/ n = 17 \/ n = 18 \/ n = 19 \/ n = 20 \/ n = 21 \/ n = 22 \/ n = 23) by lia.
    repeat (destruct Hcases as [-> | Hcases]; [reflexivity|]). subst n; reflexivity. }
  destruct (Z_lt_le_dec n 29).
  { replace (Z.testbit (lo * 2 ^ 29 + hi * 2 ^ 5) n) with false; [reflexivity|]. symmetry.
    rewrite Z.testbit_eqb by lia.
    assert (E : (lo * 2 ^ 29 + hi * 2 ^ 5) / 2 ^ n = lo * 2 ^ (29 - n)).
    { replace (lo * 2 ^ 29) with (lo * 2 ^ (29 - n) * 2 ^ n)
        by (rewrite <- Z.mul_assoc, <- Z.pow_add_r by lia; do 2 f_equal; lia).
      rewrite Z.add_comm, Z.div_add by (pose proof (pow2_pos n); lia).
      rewrite Z.div_small; [lia|]. split; [lia|].
      pose proof (pow2_le 24 n ltac:(lia)). lia. }
    rewrite E. replace (29 - n) with (1 + (28 - n)) by lia. rewrite Z.pow_add_r by lia.
    replace (lo * (2 ^ 1 * 2 ^ (28 - n))) with ((lo * 2 ^ (28 - n)) * 2) by ring.
    rewrite Z.mod_mul by lia. reflexivity. }
  destruct (Z_lt_le_dec n 31).
  { replace (Z.testbit a64_adr_mask n) with true; [apply andb_false_r|].
    assert (Hcases : n = 29 \/ n = 30) by lia. destruct Hcases as [-> | ->]; reflexivity. }
  replace (Z.testbit (lo * 2 ^ 29 + hi * 2 ^ 5) n) with false; [reflexivity|]. symmetry.
  rewrite Z.testbit_eqb by lia. rewrite Z.div_small; [reflexivity|].
  split; [lia|]. pose proof (pow2_le 31 n ltac:(lia)). lia.
Qed.

Theorem a64_adr_roundtrip f off m :
  is_adr_fmt f -> int64 off ->
  encode_offset f off = Some m ->
  decode_a64_adr m * 2 ^ discard f = off /\ 0 <= m < 2 ^ 32 /\ Z.land m (Z.lnot a64_adr_mask) = 0.
Proof.
  intros (Hty & Hv & Hb & Hs & Hd) Hoff He.
  unfold encode_offset in He. rewrite Hv in He. cbn [Z.eqb Pos.eqb orb] in He.
  unfold encode_offset32 in He. rewrite Hb, Hs, Hv in He.
  assert (Hsb : has_sign_bit (ty f) = false) by (destruct Hty as [-> | ->]; reflexivity).
  rewrite Hsb in He. cbn [andb orb Z.eqb Z.ltb Z.mul Z.compare Pos.mul Pos.compare Pos.compare_cont] in He.
  assert (Hul : match ty f with UnsignedOffset => true | _ => false end = false)
    by (destruct Hty as [-> | ->]; reflexivity).
  rewrite Hul in He.
  destruct (negb (discard f =? 0) && negb (off mod 2 ^ discard f =? 0)) eqn:Edl; [discriminate|].
  apply discard_check_false in Edl; [|lia].
  set (o := off / 2 ^ discard f) in *.
  destruct ((- 2 ^ 31 <=? o) && (o <? 2 ^ 31)) eqn:E32; cbn [negb] in He; [|discriminate].
  destruct ((- 2 ^ (21 - 1) <=? o) && (o <? 2 ^ (21 - 1))) eqn:Eb; [|discriminate].
  apply andb_true_iff in Eb. destruct Eb as [E1 E2]. apply Z.leb_le in E1. apply Z.ltb_lt in E2.
  replace (21 - 1) with 20 in * by lia.
  pose proof (adr_pack_unpack o ltac:(lia)) as (Hdec & Hrange & Hmask).
  assert (Hm : m = ((wrap 32 o) mod 4) * 2 ^ 29 + ((wrap 32 o / 4) mod 2 ^ 19) * 2 ^ 5).
  { destruct Hty as [Ht | Ht]; rewrite Ht in He; cbn [negb orb] in He;
      injection He as <-; unfold wrap in *; (rewrite Z.mod_small; [reflexivity|]);
      change (8 * 4) with 32; exact Hrange. }
  unfold wrap in Hm. rewrite Hm. split; [|split; assumption].
  rewrite Hdec. apply div_pow2_exact; lia.
Qed.

(* ---- write_offset: OR into the word; bits outside the field are untouched ---- *)
Lemma contig_outside_clear b s r :
  0 <= b -> 0 <= s -> 0 <= r < 2 ^ b -> Z.land (r * 2 ^ s) (Z.lnot ((2 ^ b - 1) * 2 ^ s)) = 0.
Proof.
  intros Hb Hs Hr. apply Z.bits_inj'. intros n Hn.
  rewrite Z.land_spec, Z.lnot_spec, Z.bits_0 by lia.
  destruct (Z_lt_le_dec n s).
  { rewrite Z.mul_pow2_bits_low by lia. reflexivity. }
  rewrite !Z.mul_pow2_bits by lia.
  destruct (Z_lt_le_dec (n - s) b).
  - replace (2 ^ b - 1) with (Z.ones b) by (rewrite Z.ones_equiv; lia).
    rewrite Z.ones_spec_low by lia. apply andb_false_r.
  - replace (Z.testbit r (n - s)) with false; [reflexivity|]. symmetry.
    rewrite Z.testbit_eqb by lia. rewrite Z.div_small; [reflexivity|].
    pose proof (pow2_le b (n - s) ltac:(lia)). lia.
Qed.

Theorem write_offset_or f old off w :
  write_offset f old off = Some w -> exists m, encode_offset f off = Some m /\ w = Z.lor old m.
Proof.
  unfold write_offset. destruct (encode_offset f off) as [m|]; [|discriminate].
  intros H; injection H as <-. exists m; auto.
Qed.

(* the general fact used for every format: if the encoded mask lies inside `mask`, every bit of the old
   word outside `mask` survives, and if the old field was zero the masked part is exactly the encoded field *)
Theorem write_offset_exact f old off w mask :
  0 <= old -> 0 <= mask ->
  (forall m, encode_offset f off = Some m -> 0 <= m /\ Z.land m (Z.lnot mask) = 0) ->
  write_offset f old off = Some w ->
  Z.land w (Z.lnot mask) = Z.land old (Z.lnot mask) /\
  (Z.land old mask = 0 -> exists m, encode_offset f off = Some m /\ Z.land w mask = m).
Proof.
  intros Hold Hmask Hin Hw. apply write_offset_or in Hw. destruct Hw as (m & He & ->).
  destruct (Hin m He) as (Hm0 & Hm).
  split.
  - rewrite Z.land_lor_distr_l, Hm, Z.lor_0_r. reflexivity.
  - intros Hz. exists m. split; [exact He|]. rewrite Z.land_lor_distr_l, Hz, Z.lor_0_l.
    (* m land mask = m because m land (lnot mask) = 0 *)
    apply Z.bits_inj'. intros n Hn. rewrite Z.land_spec.
    assert (Hb : Z.testbit (Z.land m (Z.lnot mask)) n = false) by (rewrite Hm; apply Z.bits_0).
    rewrite Z.land_spec, Z.lnot_spec in Hb by lia.
    destruct (Z.testbit m n), (Z.testbit mask n); simpl in *; congruence.
Qed.

Theorem write_offset_contig_exact f old off w :
  (ty f = SignedOffset \/ (ty f = UnsignedOffset /\ vsize f <> 8)) -> wf_contig f -> int64 off -> 0 <= old ->
  write_offset f old off = Some w ->
  Z.land w (Z.lnot (field_mask f)) = Z.land old (Z.lnot (field_mask f)).
Proof.
  intros Hty Hwf Hoff Hold Hw.
  assert (Hmask : 0 <= field_mask f).
  { unfold field_mask. destruct Hwf as (_ & Hb & Hs & _).
    pose proof (pow2_pos (bits f) ltac:(lia)). pose proof (pow2_pos (shift f) ltac:(lia)). nia. }
  refine (proj1 (write_offset_exact f old off w (field_mask f) Hold Hmask _ Hw)).
  intros m He. unfold field_mask.
  destruct Hty as [Hty | (Hty & Hv8)].
  - pose proof (signed_spec f off Hty Hwf Hoff) as Hs. rewrite He in Hs. destruct Hs as (_ & ->).
    destruct Hwf as (_ & Hb & Hs & _).
    pose proof (Z.mod_pos_bound (off / 2 ^ discard f) (2 ^ bits f) (pow2_pos (bits f) ltac:(lia))).
    split; [pose proof (pow2_pos (shift f) Hs); nia|]. apply contig_outside_clear; lia.
  - assert (Hwf32 : wf_contig32 f).
    { destruct (wf_contig_cases f Hwf) as [H|H]; [exact H|]. destruct H as (H & _). contradiction. }
    pose proof (unsigned32_spec f off Hty Hwf32 Hoff) as Hs. rewrite He in Hs. destruct Hs as ((_ & Hr) & ->).
    destruct Hwf as (_ & Hb & Hs & _).
    split; [pose proof (pow2_pos (shift f) Hs); nia|]. apply contig_outside_clear; lia.
Qed.

(* ---- Thumb-2 branch formats: the pinned code does NOT implement the architectural encoding ---- *)
Definition t32_b_fmt : fmt := {| ty := T32_B; vsize := 4; bits := 24; shift := 0; discard := 1 |}.
Definition t32_bcond_fmt : fmt := {| ty := T32_BCond; vsize := 4; bits := 20; shift := 0; discard := 1 |}.

(* B.W / BL (T4): offset 2 (halfword displacement 1) encodes with J1 at bit 14 instead of bit 13 *)
Theorem t32_b_refuted :
  exists off m, encode_offset t32_b_fmt off = Some m /\ decode_t32_b m * 2 <> off.
Proof. exists 2, 18433. split; vm_compute; [reflexivity | discriminate]. Qed.

(* B<c>.W (T3): two different offsets share one field value (information is lost) *)
Theorem t32_bcond_refuted :
  exists off1 off2 m, off1 <> off2 /\ encode_offset t32_bcond_fmt off1 = Some m /\ encode_offset t32_bcond_fmt off2 = Some m.
Proof. exists 0, 524288, 18432. split; [discriminate|]. split; vm_compute; reflexivity. Qed.

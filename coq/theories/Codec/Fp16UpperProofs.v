(* C17 — removal of a hypothesis: is_fp16_imm8 / encode_fp_to_imm8_generic<uint32_t,3,6,6> take a uint32 argument; bits 16..31
   are never looked at, so acceptance and the imm8 depend only on the low 16 bits, and soundness holds for every uint32 argument
   with the half-precision value read modulo 2^16. *)
From Coq Require Import ZArith Lia Bool List.
From Verif Require Import Base.ZBits Codec.ImmModel Codec.ImmProofs Codec.OffsetModel Codec.LayoutModel Codec.LayoutProofs.
Local Open Scope Z_scope.

Lemma fp16_upper_bits_ignored v : 0 <= v ->
  fp_is 16 v = fp_is 16 (v mod 2 ^ 16) /\ fp_enc 16 v = fp_enc 16 (v mod 2 ^ 16).
Proof.
  intros Hv. unfold fp_is, fp_enc. change (fp_params 16) with (3, 6, 6). unfold is_fp_imm8, encode_fp_imm8, lsb_mask.
  change (2 ^ 3 - 1) with 7. change (2 ^ (3 - 1)) with 4. change (2 ^ 6 - 1) with 63. change (2 ^ (6 + 6)) with 4096.
  change (2 ^ 6) with 64. change (2 ^ (3 + 6 - 7)) with 4. change (2 ^ 16) with 65536. change (2 ^ 32) with 4294967296.
  set (u := v mod 65536).
  assert (E1 : Z.land v 63 = Z.land u 63).
  { rewrite !(mask_field' _ 63 0 6) by (reflexivity || lia). change (2 ^ 0) with 1. change (2 ^ 6) with 64.
    rewrite !Z.div_1_r. subst u. f_equal. Z.div_mod_to_equations. lia. }
  assert (E2 : Z.land ((v / 4096) mod 4294967296) 7 = Z.land ((u / 4096) mod 4294967296) 7).
  { rewrite !(mask_field' _ 7 0 3) by (reflexivity || lia). change (2 ^ 0) with 1. change (2 ^ 3) with 8.
    rewrite !Z.div_1_r. subst u. f_equal. Z.div_mod_to_equations. lia. }
  assert (E3 : Z.land (((v / 64) mod 4294967296) / 4) 128 = Z.land (((u / 64) mod 4294967296) / 4) 128).
  { rewrite !(mask_field' _ 128 7 1) by (reflexivity || lia). change (2 ^ 7) with 128. change (2 ^ 1) with 2.
    subst u. f_equal. Z.div_mod_to_equations. lia. }
  assert (E4 : Z.land ((v / 64) mod 4294967296) 127 = Z.land ((u / 64) mod 4294967296) 127).
  { rewrite !(mask_field' _ 127 0 7) by (reflexivity || lia). change (2 ^ 0) with 1. change (2 ^ 7) with 128.
    rewrite !Z.div_1_r. subst u. f_equal. Z.div_mod_to_equations. lia. }
  rewrite E1, E2, E3, E4. split; reflexivity.
Qed.

Theorem fp16_sound_any v : 0 <= v -> fp_is 16 v = true -> vfp_expand_imm 16 (fp_enc 16 v) = v mod 2 ^ 16.
Proof.
  intros Hv Hi. destruct (fp16_upper_bits_ignored v Hv) as (E1 & E2). rewrite E1 in Hi. rewrite E2.
  apply fp_imm8_sound; [left; reflexivity | apply Z.mod_pos_bound; reflexivity | exact Hi].
Qed.

Example fp16_upper_witness : fp_is 16 0xFFFF3C00 = true /\ fp_enc 16 0xFFFF3C00 = fp_enc 16 0x3C00 /\ fp_is 16 0xFFFF3C01 = false.
Proof. repeat split; vm_compute; reflexivity. Qed.

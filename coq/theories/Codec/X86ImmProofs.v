(* C17 — the x86 ALU-group immediates are exact: whatever form the assembler picks (imm8 / imm16 / imm32 / accumulator
   short form, AND r64 -> r32), the operand the CPU reconstructs equals the requested immediate modulo the operand size,
   a 64-bit destination is accepted exactly when the immediate is an int32 (or, for AND, a uint32 done as a 32-bit
   operation), and the (Mem, Imm) form WITHOUT that test truncates (refuted theorem; fixes/C17-x86-arith-mem-imm64.patch). *)
From Coq Require Import ZArith Lia Bool.
From Verif Require Import Base.ZBits Codec.RangeModel Codec.RangeProofs Codec.X86ImmModel.
Local Open Scope Z_scope.

Definition i64 (x : Z) : Prop := - 2 ^ 63 <= x < 2 ^ 63.
Definition size_ok4 (s : Z) : Prop := s = 1 \/ s = 2 \/ s = 4 \/ s = 8.

Lemma field_exact k v : 0 < k -> - 2 ^ (8 * k - 1) <= v < 2 ^ (8 * k - 1) -> sx (8 * k) (imm_field v k) = v.
Proof. intros Hk Hv. unfold imm_field. rewrite sx_mod by lia. apply sx_small; [lia | exact Hv]. Qed.

Lemma field_mod n v : 0 < n -> sx (8 * n) (imm_field v n) mod 2 ^ (8 * n) = v mod 2 ^ (8 * n).
Proof.
  intros Hn. unfold imm_field. rewrite sx_mod by lia. rewrite sx_is_sextz. apply sextz_mod_id. lia.
Qed.

Lemma is_int8_spec x : i64 x -> is_int8 x = (- 128 <=? x) && (x <? 128).
Proof. intros H. unfold is_int8. rewrite is_int_n_signed_spec by (try lia; exact H). reflexivity. Qed.
Lemma is_int32_spec x : i64 x -> is_int32 x = (- 2 ^ 31 <=? x) && (x <? 2 ^ 31).
Proof. intros H. unfold is_int32. rewrite is_int_n_signed_spec by (try lia; exact H). reflexivity. Qed.
Lemma is_uint32_spec x : i64 x -> is_uint32 x = (0 <=? x) && (x <? 2 ^ 32).
Proof. intros H. unfold is_uint32. rewrite is_uint_n_signed_spec by (try lia; exact H). reflexivity. Qed.

Lemma sx32_i64 x : i64 (sign_extend_int32 x).
Proof. unfold sign_extend_int32, i64. pose proof (sx_range 32 x ltac:(lia)). change (2 ^ (32 - 1)) with 2147483648 in H.
       change (2 ^ 63) with 9223372036854775808. lia. Qed.
Lemma sx32_mod x : sign_extend_int32 x mod 2 ^ 32 = x mod 2 ^ 32.
Proof. unfold sign_extend_int32. rewrite sx_is_sextz. apply sextz_mod_id. lia. Qed.

(* the operand reconstructed from an immediate of imm_size bytes chosen as the assembler does *)
Lemma effective_ok opsize imm_size v :
  (opsize = 1 \/ opsize = 2 \/ opsize = 4 \/ opsize = 8) ->
  (imm_size = Z.min opsize 4 \/ (imm_size = 1 /\ - 128 <= v < 128)) ->
  (opsize = 8 -> - 2 ^ 31 <= v < 2 ^ 31) ->
  sx (8 * imm_size) (imm_field v imm_size) mod 2 ^ (8 * opsize) = v mod 2 ^ (8 * opsize).
Proof.
  intros Ho Hi H8. destruct Hi as [-> | (-> & Hv)].
  - destruct Ho as [-> | [-> | [-> | ->]]].
    + change (Z.min 1 4) with 1. apply field_mod. lia.
    + change (Z.min 2 4) with 2. apply field_mod. lia.
    + change (Z.min 4 4) with 4. apply field_mod. lia.
    + change (Z.min 8 4) with 4. rewrite field_exact; [reflexivity | lia |]. change (8 * 4 - 1) with 31. apply H8. reflexivity.
  - rewrite field_exact; [reflexivity | lia |]. change (2 ^ (8 * 1 - 1)) with 128. exact Hv.
Qed.

Theorem arith_reg_imm_exact op size rb0 optsize longform imm e :
  size_ok4 size -> i64 imm -> arith_reg_imm op size rb0 optsize longform imm = Some e ->
  effective_imm e = imm mod 2 ^ (8 * ae_opsize e) /\
  (size <> 8 -> ae_opsize e = size) /\
  (size = 8 -> (ae_opsize e = 8 /\ - 2 ^ 31 <= imm < 2 ^ 31) \/ (ae_opsize e = 4 /\ op = 4 /\ 0 <= imm < 2 ^ 32)) /\
  (ae_immsize e = 1 \/ ae_immsize e = Z.min (ae_opsize e) 4) /\
  (longform = true -> ae_short e = false /\ ae_immsize e = Z.min (ae_opsize e) 4).
Proof.
  intros Hs Hi He. unfold arith_reg_imm in He.
  destruct (Z.eqb_spec size 1) as [->|Hn1].
  { assert (Hf : sx (8 * 1) (imm_field imm 1) mod 2 ^ (8 * 1) = imm mod 2 ^ (8 * 1)) by (apply field_mod; lia).
    destruct (rb0 && negb longform) eqn:Eb; injection He as <-; unfold effective_imm; cbn [ae_opsize ae_immsize ae_field ae_short].
    - split; [exact Hf|]. split; [reflexivity|]. split; [discriminate|]. split; [left; reflexivity|].
      intros ->. rewrite andb_false_r in Eb. discriminate.
    - split; [exact Hf|]. split; [reflexivity|]. split; [discriminate|]. split; [left; reflexivity|].
      intros _. split; reflexivity. }
  set (pre := if size =? 2 then Some (imm, 2) else if size =? 4 then Some (sign_extend_int32 imm, 4) else
              if negb (is_int32 imm) then (if (op =? 4) && is_uint32 imm then Some (imm, 4) else None)
              else if (op =? 4) && is_uint32 imm && optsize then Some (imm, 4) else Some (imm, 8)) in He.
  (* what the size analysis yields: the value handed on, congruent to imm modulo the (new) operand size *)
  assert (Hpre : forall v sz, pre = Some (v, sz) ->
            i64 v /\ v mod 2 ^ (8 * sz) = imm mod 2 ^ (8 * sz) /\ (sz = 1 \/ sz = 2 \/ sz = 4 \/ sz = 8) /\
            (size <> 8 -> sz = size) /\
            (size = 8 -> (sz = 8 /\ v = imm /\ - 2 ^ 31 <= imm < 2 ^ 31) \/ (sz = 4 /\ v = imm /\ op = 4 /\ 0 <= imm < 2 ^ 32)) /\
            (sz = 8 -> - 2 ^ 31 <= v < 2 ^ 31)).
  { intros v sz Hp. subst pre. pose proof Hi as Hi'. unfold i64 in Hi'. destruct Hs as [-> | [-> | [-> | ->]]]; [contradiction | | |].
    - cbn [Z.eqb Pos.eqb] in Hp. injection Hp as <- <-. repeat split; try lia; try assumption; try discriminate.
    - cbn [Z.eqb Pos.eqb] in Hp. injection Hp as <- <-. repeat split; try lia; try discriminate.
      + apply sx32_i64. + apply sx32_i64. + apply sx32_mod.
    - cbn [Z.eqb Pos.eqb] in Hp. rewrite is_int32_spec, is_uint32_spec in Hp by exact Hi.
      destruct (Z.leb_spec (- 2 ^ 31) imm), (Z.ltb_spec imm (2 ^ 31)), (Z.eqb_spec op 4), (Z.leb_spec 0 imm), (Z.ltb_spec imm (2 ^ 32)),
        optsize; cbn [andb negb] in Hp; try discriminate; injection Hp as <- <-;
        (split; [exact Hi|]); (split; [reflexivity|]); (split; [lia|]); (split; [intros; lia|]);
        (split; [intros _; first [left; repeat split; (lia || reflexivity) | right; repeat split; (lia || reflexivity || assumption)]|]);
        intros; lia. }
  destruct pre as [[v sz]|] eqn:Ep; [|discriminate].
  destruct (Hpre v sz eq_refl) as (Hv & Hcong & Hsz & Hsame & H8 & Hr8).
  rewrite is_int8_spec in He by exact Hv.
  set (imm_size := if (-128 <=? v) && (v <? 128) && negb longform then 1 else Z.min sz 4) in He.
  assert (Him : imm_size = Z.min sz 4 \/ (imm_size = 1 /\ - 128 <= v < 128)).
  { subst imm_size. destruct (Z.leb_spec (-128) v), (Z.ltb_spec v 128), longform; cbn [andb negb]; try (left; reflexivity).
    right. split; [reflexivity | lia]. }
  assert (Hlong : longform = true -> imm_size = Z.min sz 4).
  { intros ->. subst imm_size. rewrite andb_false_r. reflexivity. }
  assert (Hfull : sx (8 * Z.min sz 4) (imm_field v (Z.min sz 4)) mod 2 ^ (8 * sz) = imm mod 2 ^ (8 * sz)).
  { rewrite <- Hcong. apply effective_ok; [exact Hsz | left; reflexivity | exact Hr8]. }
  assert (Hany : sx (8 * imm_size) (imm_field v imm_size) mod 2 ^ (8 * sz) = imm mod 2 ^ (8 * sz)).
  { rewrite <- Hcong. apply effective_ok; [exact Hsz | exact Him | exact Hr8]. }
  assert (H8' : size = 8 -> (sz = 8 /\ - 2 ^ 31 <= imm < 2 ^ 31) \/ (sz = 4 /\ op = 4 /\ 0 <= imm < 2 ^ 32)).
  { intros E. destruct (H8 E) as [(A & _ & B) | (A & _ & B & C)]; [left | right]; repeat split; (assumption || lia). }
  destruct (rb0 && negb (imm_size =? 1) && negb longform) eqn:Eb; injection He as <-; unfold effective_imm;
    cbn [ae_opsize ae_immsize ae_field ae_short].
  - split; [exact Hfull|]. split; [exact Hsame|]. split; [exact H8'|]. split; [right; reflexivity|].
    intros ->. rewrite andb_false_r in Eb. discriminate.
  - split; [exact Hany|]. split; [exact Hsame|]. split; [exact H8'|].
    split; [destruct Him as [-> | (-> & _)]; [right | left]; reflexivity|].
    intros Hl. split; [reflexivity | exact (Hlong Hl)].
Qed.

Theorem arith_reg_imm_refused_iff op size rb0 optsize longform imm :
  size_ok4 size -> i64 imm ->
  (arith_reg_imm op size rb0 optsize longform imm = None <->
   size = 8 /\ ~ (- 2 ^ 31 <= imm < 2 ^ 31) /\ ~ (op = 4 /\ 0 <= imm < 2 ^ 32)).
Proof.
  intros Hs Hi. unfold arith_reg_imm.
  destruct Hs as [-> | [-> | [-> | ->]]]; cbn [Z.eqb Pos.eqb].
  - destruct (rb0 && negb longform); split; [discriminate | lia | discriminate | lia].
  - destruct (rb0 && negb (_ =? 1) && negb longform); split; [discriminate | lia | discriminate | lia].
  - destruct (rb0 && negb (_ =? 1) && negb longform); split; [discriminate | lia | discriminate | lia].
  - rewrite is_int32_spec, is_uint32_spec by exact Hi.
    destruct (Z.leb_spec (- 2 ^ 31) imm), (Z.ltb_spec imm (2 ^ 31)), (Z.eqb_spec op 4), (Z.leb_spec 0 imm), (Z.ltb_spec imm (2 ^ 32)),
      optsize; cbn [andb negb];
      try (match goal with |- context [if ?c then _ else _] => destruct c end); split; intros H'; try discriminate; try lia;
      try reflexivity.
Qed.

(* ---------- (Mem, Imm) ---------- *)
Theorem arith_mem_imm_exact op mem_size longform imm e :
  size_ok4 mem_size -> i64 imm -> arith_mem_imm true op mem_size longform imm = Some e ->
  effective_imm e = imm mod 2 ^ (8 * mem_size) /\ ae_opsize e = mem_size /\
  (mem_size = 8 -> - 2 ^ 31 <= imm < 2 ^ 31) /\ (ae_immsize e = 1 \/ ae_immsize e = Z.min mem_size 4).
Proof.
  intros Hs Hi He. unfold arith_mem_imm in He. cbn [andb] in He.
  set (v := if mem_size =? 4 then sign_extend_int32 imm else imm) in He.
  assert (Hv : i64 v) by (subst v; destruct (mem_size =? 4); [apply sx32_i64 | exact Hi]).
  assert (Hcong : v mod 2 ^ (8 * mem_size) = imm mod 2 ^ (8 * mem_size)).
  { subst v. destruct (Z.eqb_spec mem_size 4) as [->|]; [apply sx32_mod | reflexivity]. }
  rewrite is_int32_spec, is_int8_spec in He by exact Hv.
  destruct ((mem_size =? 8) && negb ((- 2 ^ 31 <=? v) && (v <? 2 ^ 31))) eqn:E8; [discriminate|].
  assert (Hr8 : mem_size = 8 -> - 2 ^ 31 <= v < 2 ^ 31).
  { intros ->. cbn [Z.eqb Pos.eqb andb] in E8. apply negb_false_iff in E8. apply andb_true_iff in E8.
    destruct E8 as [A B]. apply Z.leb_le in A. apply Z.ltb_lt in B. lia. }
  set (imm_size := if (-128 <=? v) && (v <? 128) && negb longform then 1 else Z.min mem_size 4) in He.
  assert (Him : imm_size = Z.min mem_size 4 \/ (imm_size = 1 /\ - 128 <= v < 128)).
  { subst imm_size. destruct (Z.leb_spec (-128) v), (Z.ltb_spec v 128), longform; cbn [andb negb]; try (left; reflexivity).
    right. split; [reflexivity | lia]. }
  injection He as <-. unfold effective_imm. cbn [ae_opsize ae_immsize ae_field].
  split; [rewrite <- Hcong; apply effective_ok; [exact Hs | exact Him | exact Hr8]|].
  split; [reflexivity|]. split.
  - intros E. pose proof (Hr8 E) as H. subst v. rewrite E in H. exact H.
  - destruct Him as [-> | (-> & _)]; [right | left]; reflexivity.
Qed.

Theorem arith_mem_imm_refused_iff op mem_size longform imm :
  size_ok4 mem_size -> i64 imm ->
  (arith_mem_imm true op mem_size longform imm = None <-> mem_size = 8 /\ ~ (- 2 ^ 31 <= imm < 2 ^ 31)).
Proof.
  intros Hs Hi. unfold arith_mem_imm. cbn [andb].
  destruct Hs as [-> | [-> | [-> | ->]]]; cbn [Z.eqb Pos.eqb andb]; try (split; [discriminate | lia]).
  rewrite is_int32_spec by exact Hi.
  destruct (Z.leb_spec (- 2 ^ 31) imm), (Z.ltb_spec imm (2 ^ 31)); cbn [andb negb]; split; intros H'; try discriminate; try lia; reflexivity.
Qed.

(* the form WITHOUT the test (the tree before fixes/C17-x86-arith-mem-imm64.patch): `add qword ptr [..], 0x100000000` adds 0 *)
Theorem arith_mem_imm_unchecked_refuted :
  exists op imm e, i64 imm /\ arith_mem_imm false op 8 false imm = Some e /\ effective_imm e <> imm mod 2 ^ (8 * 8).
Proof.
  exists 0, (2 ^ 32). eexists. split; [split; [discriminate | reflexivity]|]. split; [vm_compute; reflexivity|].
  vm_compute. discriminate.
Qed.

Example arith_reg_imm_witness :
  arith_reg_imm 0 4 false false false 4294967295 =
    Some {| ae_opsize := 4; ae_short := false; ae_opc := 131; ae_immsize := 1; ae_field := 255 |} /\
  arith_reg_imm 4 8 false false false 4294967295 =
    Some {| ae_opsize := 4; ae_short := false; ae_opc := 129; ae_immsize := 4; ae_field := 4294967295 |} /\
  arith_reg_imm 0 8 false false false 4294967295 = None /\
  arith_reg_imm 5 2 true false false 128 =
    Some {| ae_opsize := 2; ae_short := true; ae_opc := 45; ae_immsize := 2; ae_field := 128 |}.
Proof. repeat split; vm_compute; reflexivity. Qed.

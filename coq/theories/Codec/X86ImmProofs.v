(* C17 — the x86 ALU-group immediates are exact: whatever form the assembler picks (imm8 / imm16 / imm32 / accumulator
   short form, AND r64 -> r32), the operand the CPU reconstructs equals the requested immediate modulo the operand size,
   a 64-bit destination is accepted exactly when the immediate is an int32 (or, for AND, a uint32 done as a 32-bit
   operation), and the (Mem, Imm) form WITHOUT that test truncates (refuted theorem; fixes/C17-x86-arith-mem-imm64.patch). *)
From Coq Require Import ZArith Lia Bool.
From Verif Require Import Base.ZBits Codec.RangeModel Codec.RangeProofs Codec.X86ImmModel.
Local Open Scope Z_scope.

Definition i64 (x : Z) : Prop := - 2 ^ 63 <= x < 2 ^ 63.
Definition size_ok4 (s : Z) : Prop := s = 1 \/ s = 2 \/ s = 4 \/ s = 8.

Lemma field_exact k v : 0 < k -> - 2 ^ (8 * k - 1) <= v < 2 ^ (8 * k - 1) -> sx (8 * k) (imm_field v k) = v.
Proof. intros Hk Hv. unfold imm_field. rewrite sx_mod by lia. apply sx_small; [lia | exact Hv]. Qed.

Lemma field_mod n v : 0 < n -> sx (8 * n) (imm_field v n) mod 2 ^ (8 * n) = v mod 2 ^ (8 * n).
Proof.
  intros Hn. unfold imm_field. rewrite sx_mod by lia. rewrite sx_is_sextz. apply sextz_mod_id. lia.
Qed.

Lemma is_int8_spec x : i64 x -> is_int8 x = (- 128 <=? x) && (x <? 128).
Proof. intros H. unfold is_int8. rewrite is_int_n_signed_spec by (try lia; exact H). reflexivity. Qed.
Lemma is_int32_spec x : i64 x -> is_int32 x = (- 2 ^ 31 <=? x) && (x <? 2 ^ 31).
Proof. intros H. unfold is_int32. rewrite is_int_n_signed_spec by (try lia; exact H). reflexivity. Qed.
Lemma is_uint32_spec x : i64 x -> is_uint32 x = (0 <=? x) && (x <? 2 ^ 32).
Proof. intros H. unfold is_uint32. rewrite is_uint_n_signed_spec by (try lia; exact H). reflexivity. Qed.

Lemma sx32_i64 x : i64 (sign_extend_int32 x).
Proof. unfold sign_extend_int32, i64. pose proof (sx_range 32 x ltac:(lia)). change (2 ^ (32 - 1)) with 2147483648 in H.
       change (2 ^ 63) with 9223372036854775808. lia. Qed.
Lemma sx32_mod x : sign_extend_int32 x mod 2 ^ 32 = x mod 2 ^ 32.
Proof. unfold sign_extend_int32. rewrite sx_is_sextz. apply sextz_mod_id. lia. Qed.

(* the operand reconstructed from an immediate of imm_size bytes chosen as the assembler does *)
Lemma effective_ok opsize imm_size v :
  (opsize = 1 \/ opsize = 2 \/ opsize = 4 \/ opsize = 8) ->
  (imm_size = Z.min opsize 4 \/ (imm_size = 1 /\ - 128 <= v < 128)) ->
  (opsize = 8 -> - 2 ^ 31 <= v < 2 ^ 31) ->
  sx (8 * imm_size) (imm_field v imm_size) mod 2 ^ (8 * opsize) = v mod 2 ^ (8 * opsize).
Proof.
  intros Ho Hi H8. destruct Hi as [-> | (-> & Hv)].
  - destruct Ho as [-> | [-> | [-> | ->]]].
    + change (Z.min 1 4) with 1. apply field_mod. lia.
    + change (Z.min 2 4) with 2. apply field_mod. lia.
    + change (Z.min 4 4) with 4. apply field_mod. lia.
    + change (Z.min 8 4) with 4. rewrite field_exact; [reflexivity | lia |]. change (8 * 4 - 1) with 31. apply H8. reflexivity.
  - rewrite field_exact; [reflexivity | lia |]. change (2 ^ (8 * 1 - 1)) with 128. exact Hv.
Qed.

Theorem arith_reg_imm_exact op size rb0 optsize longform imm e :
  size_ok4 size -> i64 imm -> arith_reg_imm op size rb0 optsize longform imm = Some e ->
  effective_imm e = imm mod 2 ^ (8 * ae_opsize e) /\
  (size <> 8 -> ae_opsize e = size) /\
  (size = 8 -> (ae_opsize e = 8 /\ - 2 ^ 31 <= imm < 2 ^ 31) \/ (ae_opsize e = 4 /\ op = 4 /\ 0 <= imm < 2 ^ 32)) /\
  (ae_immsize e = 1 \/ ae_immsize e = Z.min (ae_opsize e) 4) /\
  (longform = true -> ae_short e = false /\ ae_immsize e = Z.min (ae_opsize e) 4).
Proof.
  intros Hs Hi He. unfold arith_reg_imm in He.
  destruct (Z.eqb_spec size 1) as [->|Hn1].
  { assert (Hf : sx (8 * 1) (imm_field imm 1) mod 2 ^ (8 * 1) = imm mod 2 ^ (8 * 1)) by (apply field_mod; lia).
    destruct (rb0 && negb longform) eqn:Eb; injection He as <-; unfold effective_imm; cbn [ae_opsize ae_immsize ae_field ae_short].
    - split; [exact Hf|]. split; [reflexivity|]. split; [discriminate|]. split; [left; reflexivity|].
      intros ->. rewrite andb_false_r in Eb. discriminate.
    - split; [exact Hf|]. split; [reflexivity|]. split; [discriminate|]. split; [left; reflexivity|].
      intros _. split; reflexivity. }
  set (pre := if size =? 2 then Some (imm, 2) else if size =? 4 then Some (sign_extend_int32 imm, 4) else
              if negb (is_int32 imm) then (if (op =? 4) && is_uint32 imm then Some (imm, 4) else None)
              else if (op =? 4) && is_uint32 imm && optsize then Some (imm, 4) else Some (imm, 8)) in He.
  (* what the size analysis yields: the value handed on, congruent to imm modulo the (new) operand size *)
  assert (Hpre : forall v sz, pre = Some (v, sz) ->
            i64 v /\ v mod 2 ^ (8 * sz) = imm mod 2 ^ (8 * sz) /\ (sz = 1 \/ sz = 2 \/ sz = 4 \/ sz = 8) /\
            (size <> 8 -> sz = size) /\
            (size = 8 -> (sz = 8 /\ v = imm /\ - 2 ^ 31 <= imm < 2 ^ 31) \/ (sz = 4 /\ v = imm /\ op = 4 /\ 0 <= imm < 2 ^ 32)) /\
            (sz = 8 -> - 2 ^ 31 <= v < 2 ^ 31)).
  { intros v sz Hp. subst pre. pose proof Hi as Hi'. unfold i64 in Hi'. destruct Hs as [-> | [-> | [-> | ->]]]; [contradiction | | |].
    - cbn [Z.eqb Pos.eqb] in Hp. injection Hp as <- <-. repeat split; try lia; try assumption; try discriminate.
    - cbn [Z.eqb Pos.eqb] in Hp. injection Hp as <- <-. repeat split; try lia; try discriminate.
      + apply sx32_i64. + apply sx32_i64. + apply sx32_mod.
    - cbn [Z.eqb Pos.eqb] in Hp. rewrite is_int32_spec, is_uint32_spec in Hp by exact Hi.
      destruct (Z.leb_spec (- 2 ^ 31) imm), (Z.ltb_spec imm (2 ^ 31)), (Z.eqb_spec op 4), (Z.leb_spec 0 imm), (Z.ltb_spec imm (2 ^ 32)),
        optsize; cbn [andb negb] in Hp; try discriminate; injection Hp as <- <-;
        (split; [exact Hi|]); (split; [reflexivity|]); (split; [lia|]); (split; [intros; lia|]);
        (split; [intros _; first [left; repeat split; (lia || reflexivity) | right; repeat split; (lia || reflexivity || assumption)]|]);
        intros; lia. }
  destruct pre as [[v sz]|] eqn:Ep; [|discriminate].
  destruct (Hpre v sz eq_refl) as (Hv & Hcong & Hsz & Hsame & H8 & Hr8).
  rewrite is_int8_spec in He by exact Hv.
  set (imm_size := if (-128 <=? v) && (v <? 128) && negb longform then 1 else Z.min sz 4) in He.
  assert (Him : imm_size = Z.min sz 4 \/ (imm_size = 1 /\ - 128 <= v < 128)).
  { subst imm_size. destruct (Z.leb_spec (-128) v), (Z.ltb_spec v 128), longform; cbn [andb negb]; try (left; reflexivity).
    right. split; [reflexivity | lia]. }
  assert (Hlong : longform = true -> imm_size = Z.min sz 4).
  { intros ->. subst imm_size. rewrite andb_false_r. reflexivity. }
  assert (Hfull : sx (8 * Z.min sz 4) (imm_field v (Z.min sz 4)) mod 2 ^ (8 * sz) = imm mod 2 ^ (8 * sz)).
  { rewrite <- Hcong. apply effective_ok; [exact Hsz | left; reflexivity | exact Hr8]. }
  assert (Hany : sx (8 * imm_size) (imm_field v imm_size) mod 2 ^ (8 * sz) = imm mod 2 ^ (8 * sz)).
  { rewrite <- Hcong. apply effective_ok; [exact Hsz | exact Him | exact Hr8]. }
  assert (H8' : size = 8 -> (sz = 8 /\ - 2 ^ 31 <= imm < 2 ^ 31) \/ (sz = 4 /\ op = 4 /\ 0 <= imm < 2 ^ 32)).
  { intros E. destruct (H8 E) as [(A & _ & B) | (A & _ & B & C)]; [left | right]; repeat split; (assumption || lia). }
  destruct (rb0 && negb (imm_size =? 1) && negb longform) eqn:Eb; injection He as <-; unfold effective_imm;
    cbn [ae_opsize ae_immsize ae_field ae_short].
  - split; [exact Hfull|]. split; [exact Hsame|]. split; [exact H8'|]. split; [right; reflexivity|].
    intros ->. rewrite andb_false_r in Eb. discriminate.
  - split; [exact Hany|]. split; [exact Hsame|]. split; [exact H8'|].
    split; [destruct Him as [-> | (-> & _)]; [right | left]; reflexivity|].
    intros Hl. split; [reflexivity | exact (Hlong Hl)].
Qed.

Theorem arith_reg_imm_refused_iff op size rb0 optsize longform imm :
  size_ok4 size -> i64 imm ->
  (arith_reg_imm op size rb0 optsize longform imm = None <->
   size = 8 /\ ~ (- 2 ^ 31 <= imm < 2 ^ 31) /\ ~ (op = 4 /\ 0 <= imm < 2 ^ 32)).
Proof.
  intros Hs Hi. unfold arith_reg_imm.
  destruct Hs as [-> | [-> | [-> | ->]]]; cbn [Z.eqb Pos.eqb].
  - destruct (rb0 && negb longform); split; [discriminate | lia | discriminate | lia].
  - destruct (rb0 && negb (_ =? 1) && negb longform); split; [discriminate | lia | discriminate | lia].
  - destruct (rb0 && negb (_ =? 1) && negb longform); split; [discriminate | lia | discriminate | lia].
  - rewrite is_int32_spec, is_uint32_spec by exact Hi.
    destruct (Z.leb_spec (- 2 ^ 31) imm), (Z.ltb_spec imm (2 ^ 31)), (Z.eqb_spec op 4), (Z.leb_spec 0 imm), (Z.ltb_spec imm (2 ^ 32)),
      optsize; cbn [andb negb];
      try (match goal with |- context [if ?c then _ else _] => destruct c end); split; intros H'; try discriminate; try lia;
      try reflexivity.
Qed.

(* ---------- (Mem, Imm) ---------- *)
Theorem arith_mem_imm_exact op mem_size longform imm e :
  size_ok4 mem_size -> i64 imm -> arith_mem_imm true op mem_size longform imm = Some e ->
  effective_imm e = imm mod 2 ^ (8 * mem_size) /\ ae_opsize e = mem_size /\
  (mem_size = 8 -> - 2 ^ 31 <= imm < 2 ^ 31) /\ (ae_immsize e = 1 \/ ae_immsize e = Z.min mem_size 4).
Proof.
  intros Hs Hi He. unfold arith_mem_imm in He. cbn [andb] in He.
  set (v := if mem_size =? 4 then sign_extend_int32 imm else imm) in He.
  assert (Hv : i64 v) by (subst v; destruct (mem_size =? 4); [apply sx32_i64 | exact Hi]).
  assert (Hcong : v mod 2 ^ (8 * mem_size) = imm mod 2 ^ (8 * mem_size)).
  { subst v. destruct (Z.eqb_spec mem_size 4) as [->|]; [apply sx32_mod | reflexivity]. }
  rewrite is_int32_spec, is_int8_spec in He by exact Hv.
  destruct ((mem_size =? 8) && negb ((- 2 ^ 31 <=? v) && (v <? 2 ^ 31))) eqn:E8; [discriminate|].
  assert (Hr8 : mem_size = 8 -> - 2 ^ 31 <= v < 2 ^ 31).
  { intros ->. cbn [Z.eqb Pos.eqb andb] in E8. apply negb_false_iff in E8. apply andb_true_iff in E8.
    destruct E8 as [A B]. apply Z.leb_le in A. apply Z.ltb_lt in B. lia. }
  set (imm_size := if (-128 <=? v) && (v <? 128) && negb longform then 1 else Z.min mem_size 4) in He.
  assert (Him : imm_size = Z.min mem_size 4 \/ (imm_size = 1 /\ - 128 <= v < 128)).
  { subst imm_size. destruct (Z.leb_spec (-128) v), (Z.ltb_spec v 128), longform; cbn [andb negb]; try (left; reflexivity).
    right. split; [reflexivity | lia]. }
  injection He as <-. unfold effective_imm. cbn [ae_opsize ae_immsize ae_field].
  split; [rewrite <- Hcong; apply effective_ok; [exact Hs | exact Him | exact Hr8]|].
  split; [reflexivity|]. split.
  - intros E. pose proof (Hr8 E) as H. subst v. rewrite E in H. exact H.
  - destruct Him as [-> | (-> & _)]; [right | left]; reflexivity.
Qed.

Theorem arith_mem_imm_refused_iff op mem_size longform imm :
  size_ok4 mem_size -> i64 imm ->
  (arith_mem_imm true op mem_size longform imm = None <-> mem_size = 8 /\ ~ (- 2 ^ 31 <= imm < 2 ^ 31)).
Proof.
  intros Hs Hi. unfold arith_mem_imm. cbn [andb].
  destruct Hs as [-> | [-> | [-> | ->]]]; cbn [Z.eqb Pos.eqb andb]; try (split; [discriminate | lia]).
  rewrite is_int32_spec by exact Hi.
  destruct (Z.leb_spec (- 2 ^ 31) imm), (Z.ltb_spec imm (2 ^ 31)); cbn [andb negb]; split; intros H'; try discriminate; try lia; reflexivity.
Qed.

(* the form WITHOUT the test (the tree before fixes/C17-x86-arith-mem-imm64.patch): `add qword ptr [..], 0x100000000` adds 0 *)
Theorem arith_mem_imm_unchecked_refuted :
  exists op imm e, i64 imm /\ arith_mem_imm false op 8 false imm = Some e /\ effective_imm e <> imm mod 2 ^ (8 * 8).
Proof.
  exists 0, (2 ^ 32). eexists. split; [split; [discriminate | reflexivity]|]. split; [vm_compute; reflexivity|].
  vm_compute. discriminate.
Qed.

Example arith_reg_imm_witness :
  arith_reg_imm 0 4 false false false 4294967295 =
    Some {| ae_opsize := 4; ae_short := false; ae_opc := 131; ae_immsize := 1; ae_field := 255 |} /\
  arith_reg_imm 4 8 false false false 4294967295 =
    Some {| ae_opsize := 4; ae_short := false; ae_opc := 129; ae_immsize := 4; ae_field := 4294967295 |} /\
  arith_reg_imm 0 8 false false false 4294967295 = None /\
  arith_reg_imm 5 2 true false false 128 =
    Some {| ae_opsize := 2; ae_short := true; ae_opc := 45; ae_immsize := 2; ae_field := 128 |}.
Proof. repeat split; vm_compute; reflexivity. Qed.

(* ---------- TEST r/m, imm ---------- *)
Lemma full_field opsize v : size_ok4 opsize -> (opsize = 8 -> - 2 ^ 31 <= v < 2 ^ 31) ->
  sx (8 * Z.min opsize 4) (imm_field v (Z.min opsize 4)) mod 2 ^ (8 * opsize) = v mod 2 ^ (8 * opsize).
Proof. intros Hs H8. apply effective_ok; [exact Hs | left; reflexivity | exact H8]. Qed.

Lemma int32_of_checked size imm : i64 imm -> (true && (size =? 8) && negb (is_int32 imm)) = false ->
  size = 8 -> - 2 ^ 31 <= imm < 2 ^ 31.
Proof.
  intros Hi H ->. cbn [Z.eqb Pos.eqb andb] in H. apply negb_false_iff in H. rewrite is_int32_spec in H by exact Hi.
  apply andb_true_iff in H. destruct H as [A B]. apply Z.leb_le in A. apply Z.ltb_lt in B. lia.
Qed.

Theorem test_reg_imm_exact size acc longform imm e :
  size_ok4 size -> i64 imm -> test_reg_imm true size acc longform imm = Some e ->
  effective_imm e = imm mod 2 ^ (8 * size) /\ ae_opsize e = size /\ ae_immsize e = Z.min size 4 /\
  (size = 8 -> - 2 ^ 31 <= imm < 2 ^ 31).
Proof.
  intros Hs Hi He. unfold test_reg_imm in He.
  destruct (true && (size =? 8) && negb (is_int32 imm)) eqn:Ec; [discriminate|].
  pose proof (int32_of_checked size imm Hi Ec) as H8.
  assert (Hm : (if size =? 1 then 1 else Z.min size 4) = Z.min size 4) by (destruct (Z.eqb_spec size 1) as [->|]; reflexivity).
  rewrite Hm in He.
  destruct (acc && negb longform); apply (f_equal (fun o => match o with Some x => x | None => e end)) in He; subst e;
    unfold effective_imm; cbn [ae_opsize ae_immsize ae_field];
    (split; [apply full_field; assumption|]); repeat split; try reflexivity; apply H8; assumption.
Qed.

Theorem test_reg_imm_refused_iff size acc longform imm : size_ok4 size -> i64 imm ->
  (test_reg_imm true size acc longform imm = None <-> size = 8 /\ ~ (- 2 ^ 31 <= imm < 2 ^ 31)).
Proof.
  intros Hs Hi. unfold test_reg_imm. cbn [andb].
  destruct Hs as [-> | [-> | [-> | ->]]]; cbn [Z.eqb Pos.eqb andb]; try (destruct (acc && negb longform); cbv iota; (split; [discriminate | intros [H _]; discriminate H])).
  rewrite is_int32_spec by exact Hi.
  destruct (Z.leb_spec (- 2 ^ 31) imm), (Z.ltb_spec imm (2 ^ 31)); cbn [andb negb]; try (destruct (acc && negb longform); cbv iota);
    split; intros H'; try discriminate; try lia; reflexivity.
Qed.

Theorem test_mem_imm_exact mem_size imm e :
  size_ok4 mem_size -> i64 imm -> test_mem_imm true mem_size imm = Some e ->
  effective_imm e = imm mod 2 ^ (8 * mem_size) /\ ae_opsize e = mem_size /\ (mem_size = 8 -> - 2 ^ 31 <= imm < 2 ^ 31).
Proof.
  intros Hs Hi He. unfold test_mem_imm in He.
  destruct (true && (mem_size =? 8) && negb (is_int32 imm)) eqn:Ec; [discriminate|].
  pose proof (int32_of_checked mem_size imm Hi Ec) as H8.
  apply (f_equal (fun o => match o with Some x => x | None => e end)) in He; subst e.
  unfold effective_imm; cbn [ae_opsize ae_immsize ae_field]. split; [apply full_field; assumption|]. split; [reflexivity | exact H8].
Qed.

(* ---------- MOV reg, imm: always encodable, the register receives exactly the immediate ---------- *)
Theorem mov_reg_imm_exact size acc optsize longform imm :
  size_ok4 size -> i64 imm ->
  let e := mov_reg_imm size acc optsize longform imm in
  effective_imm e = imm mod 2 ^ (8 * ae_opsize e) /\
  (size <> 8 -> ae_opsize e = size) /\
  (size = 8 -> ae_opsize e = 8 \/ (ae_opsize e = 4 /\ 0 <= imm < 2 ^ 32)) /\
  (longform = true -> ae_opsize e = size /\ ae_immsize e = size).
Proof.
  intros Hs Hi e. subst e. unfold mov_reg_imm.
  destruct (Z.eqb_spec size 1) as [->|Hn1].
  { unfold effective_imm; cbn [ae_opsize ae_immsize ae_field]. split; [apply field_mod; lia|]. repeat split; try reflexivity. discriminate. }
  rewrite is_uint32_spec, is_int32_spec by exact Hi.
  assert (Hfull : forall k, (k = 2 \/ k = 4 \/ k = 8) -> sx (8 * k) (imm_field imm k) mod 2 ^ (8 * k) = imm mod 2 ^ (8 * k))
    by (intros k Hk; apply field_mod; lia).
  destruct Hs as [-> | [-> | [-> | ->]]]; [contradiction | | |]; cbn [Z.eqb Pos.eqb andb].
  - unfold effective_imm; cbn [ae_opsize ae_immsize ae_field]. split; [apply Hfull; lia|]. repeat split; try reflexivity; discriminate.
  - unfold effective_imm; cbn [ae_opsize ae_immsize ae_field]. split; [apply Hfull; lia|]. repeat split; try reflexivity; discriminate.
  - destruct longform; cbn [negb andb].
    + unfold effective_imm; cbn [ae_opsize ae_immsize ae_field]. split; [apply Hfull; lia|].
      split; [intros H; contradiction|]. split; [intros _; left; reflexivity|]. intros _; split; reflexivity.
    + destruct (Z.leb_spec 0 imm), (Z.ltb_spec imm (2 ^ 32)), optsize; cbn [andb];
        try (destruct (Z.leb_spec (- 2 ^ 31) imm), (Z.ltb_spec imm (2 ^ 31)); cbn [andb]);
        unfold effective_imm; cbn [ae_opsize ae_immsize ae_field];
        (split; [first [apply Hfull; lia | apply (full_field 8 imm); [right; right; right; reflexivity | intros _; lia]] |]);
        (split; [intros H'; contradiction|]); (split; [intros _; first [left; reflexivity | right; split; [reflexivity | lia]] |]); discriminate.
Qed.

Theorem mov_mem_imm_exact mem_size imm e :
  size_ok4 mem_size -> i64 imm -> mov_mem_imm true mem_size imm = Some e ->
  effective_imm e = imm mod 2 ^ (8 * mem_size) /\ ae_opsize e = mem_size /\ (mem_size = 8 -> - 2 ^ 31 <= imm < 2 ^ 31).
Proof.
  intros Hs Hi He. unfold mov_mem_imm in He.
  destruct (true && (mem_size =? 8) && negb (is_int32 imm)) eqn:Ec; [discriminate|].
  pose proof (int32_of_checked mem_size imm Hi Ec) as H8.
  apply (f_equal (fun o => match o with Some x => x | None => e end)) in He; subst e.
  unfold effective_imm; cbn [ae_opsize ae_immsize ae_field]. split; [apply full_field; assumption|]. split; [reflexivity | exact H8].
Qed.

Theorem test_mov_mem_refused_iff mem_size imm : size_ok4 mem_size -> i64 imm ->
  (test_mem_imm true mem_size imm = None <-> mem_size = 8 /\ ~ (- 2 ^ 31 <= imm < 2 ^ 31)) /\
  (mov_mem_imm true mem_size imm = None <-> mem_size = 8 /\ ~ (- 2 ^ 31 <= imm < 2 ^ 31)).
Proof.
  intros Hs Hi. unfold test_mem_imm, mov_mem_imm. cbn [andb].
  destruct Hs as [-> | [-> | [-> | ->]]]; cbn [Z.eqb Pos.eqb andb]; try (split; split; [discriminate | intros [H _]; discriminate H | discriminate | intros [H _]; discriminate H]).
  rewrite is_int32_spec by exact Hi.
  destruct (Z.leb_spec (- 2 ^ 31) imm), (Z.ltb_spec imm (2 ^ 31)); cbn [andb negb]; split; split; intros H'; try discriminate; try lia; reflexivity.
Qed.

(* KNOWN FINDING: without the test, TEST r/m64 and MOV m64 truncate a 64-bit immediate to its low 32 bits *)
Theorem test_mov_imm64_unchecked_refuted :
  (exists imm e, i64 imm /\ test_reg_imm false 8 true false imm = Some e /\ effective_imm e <> imm mod 2 ^ 64) /\
  (exists imm e, i64 imm /\ test_mem_imm false 8 imm = Some e /\ effective_imm e <> imm mod 2 ^ 64) /\
  (exists imm e, i64 imm /\ mov_mem_imm false 8 imm = Some e /\ effective_imm e <> imm mod 2 ^ 64).
Proof.
  repeat split; exists (2 ^ 32); eexists; (split; [split; [discriminate | reflexivity]|]); (split; [vm_compute; reflexivity|]);
    vm_compute; discriminate.
Qed.

Example mov_reg_imm_witness :
  mov_reg_imm 8 false false false 4294967295 = {| ae_opsize := 8; ae_short := true; ae_opc := 185; ae_immsize := 8; ae_field := 4294967295 |} /\
  mov_reg_imm 8 false true false 4294967295 = {| ae_opsize := 4; ae_short := true; ae_opc := 185; ae_immsize := 4; ae_field := 4294967295 |} /\
  mov_reg_imm 8 true false false (-1) = {| ae_opsize := 8; ae_short := false; ae_opc := 199; ae_immsize := 4; ae_field := 4294967295 |} /\
  test_reg_imm true 8 true false 2147483648 = None /\ mov_mem_imm true 8 (-2147483648) <> None.
Proof. repeat split; try (vm_compute; reflexivity). vm_compute. discriminate. Qed.

(* ---------- IMUL r, r/m, imm and PUSH imm (64-bit mode) ---------- *)
Theorem imul_imm_exact mem size longform imm e :
  (size = 2 \/ size = 4 \/ size = 8) -> i64 imm -> imul_imm true mem size longform imm = Some e ->
  effective_imm e = imm mod 2 ^ (8 * size) /\ ae_opsize e = size /\ (size = 8 -> - 2 ^ 31 <= imm < 2 ^ 31) /\
  (ae_immsize e = 1 \/ ae_immsize e = Z.min size 4).
Proof.
  intros Hs Hi He. unfold imul_imm in He.
  destruct (true && (size =? 8) && negb (is_int32 imm)) eqn:Ec; [discriminate|].
  pose proof (int32_of_checked size imm Hi Ec) as H8.
  set (v := if mem && (size =? 4) then sign_extend_int32 imm else imm) in He.
  assert (Hv : i64 v) by (subst v; destruct (mem && (size =? 4)); [apply sx32_i64 | exact Hi]).
  assert (Hcong : v mod 2 ^ (8 * size) = imm mod 2 ^ (8 * size)).
  { subst v. destruct mem; cbn [andb]; [|reflexivity]. destruct (Z.eqb_spec size 4) as [->|]; [apply sx32_mod | reflexivity]. }
  assert (Hv8 : size = 8 -> - 2 ^ 31 <= v < 2 ^ 31).
  { intros E. subst v. rewrite E. cbn [Z.eqb Pos.eqb]. rewrite andb_false_r. apply H8. exact E. }
  rewrite is_int8_spec in He by exact Hv.
  assert (Hs4 : size_ok4 size) by (destruct Hs as [-> | [-> | ->]]; unfold size_ok4; lia).
  assert (Hmin : (if size =? 2 then 2 else 4) = Z.min size 4) by (destruct Hs as [-> | [-> | ->]]; reflexivity).
  rewrite Hmin in He.
  set (imm_size := if (-128 <=? v) && (v <? 128) && negb longform then 1 else Z.min size 4) in He.
  assert (Him : imm_size = Z.min size 4 \/ (imm_size = 1 /\ - 128 <= v < 128)).
  { subst imm_size. destruct (Z.leb_spec (-128) v), (Z.ltb_spec v 128), longform; cbn [andb negb]; try (left; reflexivity).
    right. split; [reflexivity | lia]. }
  apply (f_equal (fun o => match o with Some x => x | None => e end)) in He; subst e.
  unfold effective_imm; cbn [ae_opsize ae_immsize ae_field].
  split; [rewrite <- Hcong; apply effective_ok; [exact Hs4 | exact Him | exact Hv8]|].
  split; [reflexivity|]. split; [exact H8|]. destruct Him as [-> | (-> & _)]; [right | left]; reflexivity.
Qed.

Theorem push_imm_exact longform imm e :
  i64 imm -> push_imm true longform imm = Some e ->
  effective_imm e = imm mod 2 ^ 64 /\ - 2 ^ 31 <= imm < 2 ^ 31 /\ (ae_immsize e = 1 \/ ae_immsize e = 4).
Proof.
  intros Hi He. unfold push_imm in He. cbn [andb] in He.
  rewrite is_int32_spec, is_int8_spec in He by exact Hi.
  destruct (Z.leb_spec (- 2 ^ 31) imm), (Z.ltb_spec imm (2 ^ 31)); cbn [andb negb] in He; try discriminate.
  set (imm_size := if (-128 <=? imm) && (imm <? 128) && negb longform then 1 else 4) in He.
  assert (Him : imm_size = Z.min 8 4 \/ (imm_size = 1 /\ - 128 <= imm < 128)).
  { subst imm_size. destruct (Z.leb_spec (-128) imm), (Z.ltb_spec imm 128), longform; cbn [andb negb]; try (left; reflexivity).
    right. split; [reflexivity | lia]. }
  apply (f_equal (fun o => match o with Some x => x | None => e end)) in He; subst e.
  unfold effective_imm; cbn [ae_opsize ae_immsize ae_field]. change (8 * 8) with 64.
  split; [change 64 with (8 * 8); apply effective_ok; [right; right; right; reflexivity | exact Him | intros _; lia]|].
  split; [lia|]. destruct Him as [-> | (-> & _)]; [right | left]; reflexivity.
Qed.

Theorem imul_push_refused_iff mem size longform imm : (size = 2 \/ size = 4 \/ size = 8) -> i64 imm ->
  (imul_imm true mem size longform imm = None <-> size = 8 /\ ~ (- 2 ^ 31 <= imm < 2 ^ 31)) /\
  (push_imm true longform imm = None <-> ~ (- 2 ^ 31 <= imm < 2 ^ 31)).
Proof.
  intros Hs Hi. unfold imul_imm, push_imm. cbn [andb]. rewrite is_int32_spec by exact Hi.
  destruct (Z.leb_spec (- 2 ^ 31) imm), (Z.ltb_spec imm (2 ^ 31)); cbn [andb negb];
    destruct Hs as [-> | [-> | ->]]; cbn [Z.eqb Pos.eqb andb]; split; split; intros H'; try discriminate; try lia; try reflexivity;
    try (destruct H' as [H'' _]; discriminate H'').
Qed.

Theorem imul_push_imm64_unchecked_refuted :
  (exists imm e, i64 imm /\ imul_imm false false 8 false imm = Some e /\ effective_imm e <> imm mod 2 ^ 64) /\
  (exists imm e, i64 imm /\ push_imm false false imm = Some e /\ effective_imm e <> imm mod 2 ^ 64).
Proof.
  split; exists (2 ^ 32); eexists; (split; [split; [discriminate | reflexivity]|]); (split; [vm_compute; reflexivity|]);
    vm_compute; discriminate.
Qed.

Example imul_push_witness :
  imul_imm true false 8 false 2147483647 = Some {| ae_opsize := 8; ae_short := false; ae_opc := 105; ae_immsize := 4; ae_field := 2147483647 |} /\
  imul_imm true true 4 false 4294967295 = Some {| ae_opsize := 4; ae_short := false; ae_opc := 107; ae_immsize := 1; ae_field := 255 |} /\
  imul_imm true false 4 false 4294967295 = Some {| ae_opsize := 4; ae_short := false; ae_opc := 105; ae_immsize := 4; ae_field := 4294967295 |} /\
  imul_imm true false 8 false 2147483648 = None /\
  push_imm true false (-128) = Some {| ae_opsize := 8; ae_short := true; ae_opc := 106; ae_immsize := 1; ae_field := 128 |} /\
  push_imm true false 4294967295 = None.
Proof. repeat split; vm_compute; reflexivity. Qed.

(* ---------- shift / rotate / double-shift counts ---------- *)
Lemma land_mask_mod x k : 0 <= k -> Z.land x (2 ^ k - 1) = x mod 2 ^ k.
Proof. intros Hk. replace (2 ^ k - 1) with (Z.ones k) by (rewrite Z.ones_equiv; lia). apply Z.land_ones. exact Hk. Qed.

Lemma count_of_byte size imm : size_ok4 size ->
  Z.land (imm mod 256) (count_mask size) = imm mod (count_mask size + 1).
Proof.
  intros Hs. unfold count_mask. destruct (Z.eqb_spec size 8) as [->|_].
  - change 63 with (2 ^ 6 - 1). rewrite land_mask_mod by lia. change (2 ^ 6 - 1 + 1) with (2 ^ 6).
    change 256 with (2 ^ 8). apply mod_mod_pow2. lia.
  - change 31 with (2 ^ 5 - 1). rewrite land_mask_mod by lia. change (2 ^ 5 - 1 + 1) with (2 ^ 5).
    change 256 with (2 ^ 8). apply mod_mod_pow2. lia.
Qed.

(* for EVERY int64 immediate the CPU shifts by imm mod 32 (mod 64 for a 64-bit operand): truncating the count to a byte loses
   nothing the architecture would not mask anyway; the by-1 form is used exactly for count byte 1 without the long form *)
Theorem rot_imm_exact size longform imm : size_ok4 size ->
  let e := rot_imm size longform imm in
  cpu_count size e = imm mod (count_mask size + 1) /\
  (0 <= imm <= count_mask size -> cpu_count size e = imm) /\
  (ae_immsize e = 0 <-> imm mod 256 = 1 /\ longform = false) /\
  ae_opsize e = size /\ (ae_immsize e = 1 -> ae_field e = imm mod 256).
Proof.
  intros Hs e. subst e. unfold rot_imm.
  assert (Hc : cpu_count size (rot_imm size longform imm) = imm mod (count_mask size + 1)).
  { unfold rot_imm. destruct (Z.eqb_spec (imm mod 256) 1) as [E1|E1]; cbn [andb].
    - destruct longform; cbn [negb]; unfold cpu_count; cbn [ae_immsize ae_field Z.eqb].
      + rewrite <- count_of_byte by exact Hs. reflexivity.
      + rewrite <- count_of_byte by exact Hs. rewrite E1. unfold count_mask. destruct (size =? 8); reflexivity.
    - unfold cpu_count; cbn [ae_immsize ae_field Z.eqb]. apply count_of_byte. exact Hs. }
  unfold rot_imm in Hc.
  split; [exact Hc|]. split.
  { intros Hr. rewrite Hc. apply Z.mod_small. unfold count_mask in *. destruct (size =? 8); lia. }
  destruct (Z.eqb_spec (imm mod 256) 1) as [E1|E1]; cbn [andb]; destruct longform; cbn [negb ae_immsize ae_opsize ae_field];
    (split; [split; [intros H; try discriminate H; try (split; [assumption | reflexivity]) | intros (H1 & H2); try reflexivity; try discriminate H2; try contradiction]|]);
    (split; [reflexivity|]); intros H; try discriminate H; reflexivity.
Qed.

Theorem shld_imm_exact right size imm : (size = 2 \/ size = 4 \/ size = 8) ->
  let e := shld_imm right size imm in
  cpu_count size e = imm mod (count_mask size + 1) /\ (0 <= imm <= count_mask size -> cpu_count size e = imm) /\
  ae_immsize e = 1 /\ ae_field e = imm mod 256.
Proof.
  intros Hs e. subst e. unfold shld_imm, cpu_count, imm_field. cbn [ae_immsize ae_field Z.eqb].
  assert (Hs4 : size_ok4 size) by (unfold size_ok4; lia).
  change (2 ^ (8 * 1)) with 256. rewrite count_of_byte by exact Hs4.
  split; [reflexivity|]. split; [|split; reflexivity].
  intros Hr. apply Z.mod_small. unfold count_mask in *. destruct (size =? 8); lia.
Qed.

Example rot_imm_witness :
  rot_imm 8 false 1 = {| ae_opsize := 8; ae_short := false; ae_opc := 209; ae_immsize := 0; ae_field := 0 |} /\
  rot_imm 8 true 1 = {| ae_opsize := 8; ae_short := false; ae_opc := 193; ae_immsize := 1; ae_field := 1 |} /\
  rot_imm 1 false 257 = {| ae_opsize := 1; ae_short := false; ae_opc := 208; ae_immsize := 0; ae_field := 0 |} /\
  cpu_count 8 (rot_imm 8 false (-1)) = 63 /\ cpu_count 4 (rot_imm 4 false 33) = 1 /\
  cpu_count 4 (shld_imm false 4 31) = 31.
Proof. repeat split; vm_compute; reflexivity. Qed.

(* ---------- the short immediate is used exactly when it can be (completeness of the size choice) ---------- *)
Theorem arith_mem_imm8_iff op mem_size longform imm e :
  (mem_size = 2 \/ mem_size = 4 \/ mem_size = 8) -> i64 imm -> arith_mem_imm true op mem_size longform imm = Some e ->
  let v := if mem_size =? 4 then sign_extend_int32 imm else imm in
  (ae_immsize e = 1 <-> (- 128 <= v < 128 /\ longform = false)) /\ (ae_opc e = 131 <-> ae_immsize e = 1).
Proof.
  intros Hs Hi He v. unfold arith_mem_imm in He. cbn [andb] in He. fold v in He.
  assert (Hv : i64 v) by (subst v; destruct (mem_size =? 4); [apply sx32_i64 | exact Hi]).
  rewrite is_int8_spec in He by exact Hv.
  destruct ((mem_size =? 8) && negb (is_int32 v)); [discriminate|].
  assert (Hmin : Z.min mem_size 4 <> 1) by (destruct Hs as [-> | [-> | ->]]; discriminate).
  assert (Hn1 : (mem_size =? 1) = false) by (destruct Hs as [-> | [-> | ->]]; reflexivity).
  rewrite Hn1 in He.
  apply (f_equal (fun o => match o with Some x => x | None => e end)) in He; subst e. cbn [ae_immsize ae_opc].
  destruct (Z.leb_spec (-128) v), (Z.ltb_spec v 128), longform; cbn [andb negb Z.eqb];
    (split; [split; [intros H'; first [contradiction | split; [lia | reflexivity]] | intros (H1 & H2); first [reflexivity | lia | discriminate H2]]|]);
    try (rewrite (proj2 (Z.eqb_neq _ _) Hmin));
    split; intros H'; first [reflexivity | discriminate H' | contradiction].
Qed.

Theorem push_imm8_iff longform imm e :
  i64 imm -> push_imm true longform imm = Some e ->
  (ae_immsize e = 1 <-> (- 128 <= imm < 128 /\ longform = false)) /\ (ae_opc e = 106 <-> ae_immsize e = 1).
Proof.
  intros Hi He. unfold push_imm in He. cbn [andb] in He. rewrite is_int8_spec in He by exact Hi.
  destruct (negb (is_int32 imm)); [discriminate|].
  apply (f_equal (fun o => match o with Some x => x | None => e end)) in He; subst e. cbn [ae_immsize ae_opc].
  destruct (Z.leb_spec (-128) imm), (Z.ltb_spec imm 128), longform; cbn [andb negb];
    (split; [split; [intros H'; first [discriminate H' | split; [lia | reflexivity]] | intros (H1 & H2); first [reflexivity | lia | discriminate H2]]|]);
    split; intros H'; first [reflexivity | discriminate H'].
Qed.

(* MOV r64, imm: the 10-byte movabs form is used exactly when no shorter form can load the value (or the long form is asked) *)
Theorem mov_reg_imm_forms size acc optsize longform imm : size_ok4 size -> i64 imm ->
  let e := mov_reg_imm size acc optsize longform imm in
  (ae_immsize e = 8 <-> size = 8 /\ (longform = true \/ (~ (- 2 ^ 31 <= imm < 2 ^ 31) /\ ~ (optsize = true /\ 0 <= imm < 2 ^ 32)))) /\
  (ae_opc e = 199 <-> size = 8 /\ longform = false /\ - 2 ^ 31 <= imm < 2 ^ 31 /\ ~ (optsize = true /\ 0 <= imm)) /\
  (size <> 8 -> ae_immsize e = size).
Proof.
  intros Hs Hi e. subst e. unfold mov_reg_imm.
  destruct Hs as [-> | [-> | [-> | ->]]]; cbn [Z.eqb Pos.eqb andb].
  - cbn [ae_immsize ae_opc]. destruct acc; split; [split; [discriminate | lia] | split; [split; [discriminate | lia] | reflexivity] | split; [discriminate | lia] | split; [split; [discriminate | lia] | reflexivity]].
  - cbn [ae_immsize ae_opc]. destruct acc; (split; [split; [discriminate | lia]|]); (split; [split; [discriminate | lia] | reflexivity]).
  - cbn [ae_immsize ae_opc]. destruct acc; (split; [split; [discriminate | lia]|]); (split; [split; [discriminate | lia] | reflexivity]).
  - rewrite is_uint32_spec, is_int32_spec by exact Hi. unfold i64 in Hi.
    destruct longform, optsize, (Z.leb_spec 0 imm), (Z.ltb_spec imm (2 ^ 32)), (Z.leb_spec (- 2 ^ 31) imm), (Z.ltb_spec imm (2 ^ 31)), acc;
      cbn [negb andb ae_immsize ae_opc];
      (split; [split; [intros H'; first [discriminate H' | split; [reflexivity|]; first [left; reflexivity | right; split; [lia | intros (Hx & Hy); first [discriminate Hx | lia]]]]
                      | intros (_ & [Hx | (Hx & Hy)]); first [reflexivity | discriminate Hx | lia | (exfalso; apply Hy; split; [reflexivity | lia])]]|]);
      (split; [split; [intros H'; first [discriminate H' | repeat split; first [reflexivity | lia | (intros (Hx & Hy); first [discriminate Hx | lia])]]
                      | intros (_ & Hl & Hr1 & Hr2); first [reflexivity | discriminate Hl | lia | (exfalso; apply Hr2; split; [reflexivity | lia])]]
              | intros Hc; exfalso; apply Hc; reflexivity]).
Qed.

Theorem imul_imm8_iff mem size longform imm e :
  (size = 2 \/ size = 4 \/ size = 8) -> i64 imm -> imul_imm true mem size longform imm = Some e ->
  let v := if mem && (size =? 4) then sign_extend_int32 imm else imm in
  (ae_immsize e = 1 <-> (- 128 <= v < 128 /\ longform = false)) /\ (ae_opc e = 107 <-> ae_immsize e = 1).
Proof.
  intros Hs Hi He v. unfold imul_imm in He. fold v in He.
  assert (Hv : i64 v) by (subst v; destruct (mem && (size =? 4)); [apply sx32_i64 | exact Hi]).
  rewrite is_int8_spec in He by exact Hv.
  destruct (true && (size =? 8) && negb (is_int32 imm)); [discriminate|].
  assert (Hmin : (if size =? 2 then 2 else 4) <> 1) by (destruct Hs as [-> | [-> | ->]]; discriminate).
  apply (f_equal (fun o => match o with Some x => x | None => e end)) in He; subst e. cbn [ae_immsize ae_opc].
  destruct (Z.leb_spec (-128) v), (Z.ltb_spec v 128), longform; cbn [andb negb];
    (split; [split; [intros H'; first [contradiction | split; [lia | reflexivity]] | intros (H1 & H2); first [reflexivity | lia | discriminate H2]]|]);
    split; intros H'; first [reflexivity | discriminate H' | contradiction].
Qed.

(* (Reg, Imm) with a register other than the accumulator: same statement as the memory form *)
Theorem arith_reg_imm8_iff op size optsize longform imm e :
  (size = 2 \/ size = 4 \/ size = 8) -> i64 imm -> arith_reg_imm op size false optsize longform imm = Some e ->
  let v := if size =? 4 then sign_extend_int32 imm else imm in
  (ae_immsize e = 1 <-> (- 128 <= v < 128 /\ longform = false)) /\ ae_short e = false /\ (ae_opc e = 131 <-> ae_immsize e = 1).
Proof.
  intros Hs Hi He v. unfold arith_reg_imm in He.
  assert (Hn1 : (size =? 1) = false) by (destruct Hs as [-> | [-> | ->]]; reflexivity).
  rewrite Hn1 in He. cbn [andb] in He.
  set (pre := if size =? 2 then Some (imm, 2) else if size =? 4 then Some (sign_extend_int32 imm, 4) else
              if negb (is_int32 imm) then (if (op =? 4) && is_uint32 imm then Some (imm, 4) else None)
              else if (op =? 4) && is_uint32 imm && optsize then Some (imm, 4) else Some (imm, 8)) in He.
  assert (Hpre : forall w sz, pre = Some (w, sz) -> w = v /\ (sz = 2 \/ sz = 4 \/ sz = 8)).
  { intros w sz Hp. subst pre v. destruct Hs as [-> | [-> | ->]]; cbn [Z.eqb Pos.eqb] in Hp |- *.
    - injection Hp as <- <-. split; [reflexivity | lia].
    - injection Hp as <- <-. split; [reflexivity | lia].
    - destruct (negb (is_int32 imm)), ((op =? 4) && is_uint32 imm), optsize; cbn [andb] in Hp; try discriminate Hp;
        injection Hp as <- <-; split; try reflexivity; lia. }
  destruct pre as [[w sz]|] eqn:Ep; [|discriminate].
  destruct (Hpre w sz eq_refl) as (-> & Hsz).
  assert (Hv : i64 v) by (subst v; destruct (size =? 4); [apply sx32_i64 | exact Hi]).
  rewrite is_int8_spec in He by exact Hv.
  assert (Hmin : Z.min sz 4 <> 1) by (destruct Hsz as [-> | [-> | ->]]; discriminate).
  apply (f_equal (fun o => match o with Some x => x | None => e end)) in He; subst e. cbn [ae_immsize ae_opc ae_short].
  destruct (Z.leb_spec (-128) v), (Z.ltb_spec v 128), longform; cbn [andb negb Z.eqb];
    try (rewrite (proj2 (Z.eqb_neq _ _) Hmin));
    (split; [split; [intros H'; first [contradiction | split; [lia | reflexivity]] | intros (H1 & H2); first [reflexivity | lia | discriminate H2]]|]);
    (split; [reflexivity|]); split; intros H'; first [reflexivity | discriminate H' | contradiction].
Qed.

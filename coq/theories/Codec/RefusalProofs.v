(* C17 — completeness direction (refusal is exact) for the formats that only had a round trip so far:
   T32_ADR, A32_U23, A32_U23_0To3At0_4To7At8 (sign-bit formats: refused iff the magnitude is misaligned or does not fit) and
   A64_ADR, A64_ADRP, A32_1To24At0_0At24 (signed path: refused iff misaligned or outside the signed range). *)
From Coq Require Import ZArith Lia Bool List.
From Verif Require Import Base.ZBits Codec.OffsetModel Codec.OffsetProofs Codec.OffsetFormatsProofs Codec.T32FixModel
  Codec.T32FixProofs Codec.LayoutModel Codec.LayoutProofs.
Local Open Scope Z_scope.

Definition magnitude_ok (f : fmt) (off : Z) : Prop :=
  Z.abs off mod 2 ^ discard f = 0 /\ Z.abs off / 2 ^ discard f < 2 ^ bits f.

Theorem signbit_refused_iff f off :
  is_t32_adr_fmt f \/ is_a32_u23_fmt f \/ is_a32_u23_split_fmt f -> int64 off ->
  (encode_offset f off = None <-> ~ magnitude_ok f off).
Proof.
  intros Hf Hoff.
  assert (H : has_sign_bit (ty f) = true /\ vsize f = 4 /\ 0 < bits f <= 23 /\ 0 <= discard f <= 31 /\
              (forall v u, exists m, post32 (ty f) (vsize f) (bits f) (shift f) v u = Some m)).
  { destruct Hf as [(Hty & Hv & Hb & Hs & Hd) | [(Hty & Hv & Hb & Hs & Hfit & Hd) | (Hty & Hv & Hb & Hs & Hd)]];
      rewrite Hty; repeat split; try reflexivity; try lia; try assumption; intros v u; unfold post32; rewrite ?Hv, ?Hb, ?Hs.
    - change (negb (4 =? 4) || negb (12 =? 12) || negb (0 =? 0)) with false. cbv iota zeta. eexists; reflexivity.
    - eexists; reflexivity.
    - change (negb (4 =? 4) || negb (8 =? 8) || negb (0 =? 0)) with false. cbv iota. eexists; reflexivity. }
  destruct H as (Hsb & Hv & Hb & Hd & Hpost).
  unfold encode_offset. rewrite Hv. cbn [Z.eqb Pos.eqb orb].
  rewrite signbit_spec by (try exact Hsb; try exact Hoff; lia).
  unfold magnitude_ok.
  destruct (Z.eqb_spec (Z.abs off mod 2 ^ discard f) 0) as [E0|E0]; cbn [andb].
  2:{ split; [intros _ (H & _); contradiction | reflexivity]. }
  destruct (Z.ltb_spec (Z.abs off / 2 ^ discard f) (2 ^ bits f)) as [Hlt|Hge].
  - destruct (Hpost (Z.abs off / 2 ^ discard f) (if 0 <=? off then 1 else 0)) as (m & ->).
    split; [discriminate|]. intros Hn. exfalso. apply Hn. split; assumption.
  - split; [intros _ (_ & H); lia | reflexivity].
Qed.

Theorem signed_layout_refused_iff f off :
  is_adr_fmt f \/ is_a32_blx_fmt f -> int64 off ->
  (encode_offset f off = None <->
   ~ (off mod 2 ^ discard f = 0 /\ - 2 ^ (bits f - 1) <= off / 2 ^ discard f < 2 ^ (bits f - 1))).
Proof.
  intros Hf Hoff.
  assert (H : is_signed_layout_type (ty f) = true /\ vsize f = 4 /\ 0 < bits f <= 25 /\ 0 <= discard f <= 31 /\
              (forall v u, exists m, post32 (ty f) (vsize f) (bits f) (shift f) v u = Some m)).
  { destruct Hf as [(Hty & Hv & Hb & Hs & Hd) | (Hty & Hv & Hb & Hs & Hd)].
    - destruct Hty as [Hty | Hty]; rewrite Hty; repeat split; try reflexivity; try lia; intros v u; unfold post32; rewrite Hv, Hb, Hs;
        change (negb (4 =? 4) || negb (21 =? 21) || negb (5 =? 5)) with false; cbv iota; eexists; reflexivity.
    - rewrite Hty; repeat split; try reflexivity; try lia; intros v u; unfold post32; rewrite Hv, Hb, Hs;
        change (negb (4 =? 4) || negb (25 =? 25) || negb (0 =? 0)) with false; cbv iota; eexists; reflexivity. }
  destruct H as (Hst & Hv & Hb & Hd & Hpost).
  unfold encode_offset. rewrite Hv. cbn [Z.eqb Pos.eqb orb].
  rewrite encode_offset32_signed_path by exact Hst. rewrite Hv.
  replace (bits f =? 0) with false by (symmetry; apply Z.eqb_neq; lia).
  replace (4 * 8 <? bits f) with false by (symmetry; apply Z.ltb_ge; lia).
  cbn [orb].
  destruct (signed_checked (bits f) (discard f) off) as [v|] eqn:Ec.
  - apply signed_checked_spec in Ec; [|lia|lia]. destruct Ec as (Hm0 & Hr & ->).
    destruct (Hpost ((off / 2 ^ discard f) mod 2 ^ 32) 0) as (m & Hm). rewrite Hv in Hm. rewrite Hm.
    split; [discriminate|]. intros Hn. exfalso. apply Hn. split; assumption.
  - split; [|reflexivity]. intros _ (Hm0 & Hr).
    unfold signed_checked in Ec.
    replace (negb (discard f =? 0) && negb (off mod 2 ^ discard f =? 0)) with false in Ec
      by (rewrite Hm0; cbn [Z.eqb negb]; rewrite andb_false_r; reflexivity).
    cbv zeta in Ec.
    pose proof (pow2_le (bits f - 1) 31 ltac:(lia)) as Hle.
    replace ((- 2 ^ 31 <=? off / 2 ^ discard f) && (off / 2 ^ discard f <? 2 ^ 31)) with true in Ec
      by (symmetry; apply andb_true_iff; split; [apply Z.leb_le | apply Z.ltb_lt]; lia).
    cbn [negb] in Ec.
    replace ((- 2 ^ (bits f - 1) <=? off / 2 ^ discard f) && (off / 2 ^ discard f <? 2 ^ (bits f - 1))) with true in Ec
      by (symmetry; apply andb_true_iff; split; [apply Z.leb_le | apply Z.ltb_lt]; lia).
    discriminate.
Qed.

(* non-vacuity: both directions occur *)
Example refusal_witness :
  let t := {| ty := T32_ADR; vsize := 4; bits := 12; shift := 0; discard := 0 |} in
  let a := {| ty := A64_ADRP; vsize := 4; bits := 21; shift := 5; discard := 12 |} in
  is_t32_adr_fmt t /\ encode_offset t 4096 = None /\ encode_offset t (-4095) <> None /\
  is_adr_fmt a /\ encode_offset a 4097 = None /\ encode_offset a (-4294967296) <> None /\ encode_offset a 4294967296 = None.
Proof.
  cbv zeta. unfold is_t32_adr_fmt, is_adr_fmt. cbn [ty vsize bits shift discard].
  repeat split; try lia; try (right; reflexivity); try (vm_compute; reflexivity); vm_compute; discriminate.
Qed.

(* ---------- completeness: every representable displacement is accepted (and then decodes to itself) ---------- *)
Theorem adr_complete f o :
  is_adr_fmt f -> - 2 ^ 20 <= o < 2 ^ 20 ->
  exists m, encode_offset f (o * 2 ^ discard f) = Some m /\ decode_a64_adr m = o.
Proof.
  intros Hf Ho. pose proof Hf as (Hty & Hv & Hb & Hs & Hd).
  pose proof (pow2_pos (discard f) ltac:(lia)) as Hpd. pose proof (pow2_le (discard f) 31 ltac:(lia)) as Hle.
  assert (Hi : int64 (o * 2 ^ discard f)).
  { unfold int64. change (2 ^ 20) with 1048576 in Ho. change (2 ^ 31) with 2147483648 in Hle. change (2 ^ 63) with 9223372036854775808. nia. }
  destruct (encode_offset f (o * 2 ^ discard f)) as [m|] eqn:He.
  - exists m. split; [reflexivity|].
    destruct (a64_adr_roundtrip f _ m Hf Hi He) as (Hdec & _).
    apply (Z.mul_cancel_r _ _ (2 ^ discard f)); [lia | exact Hdec].
  - exfalso. apply (proj1 (signed_layout_refused_iff f _ (or_introl Hf) Hi)) in He. apply He.
    rewrite mul_pow2_mod, mul_pow2_div by lia. rewrite Hb. change (21 - 1) with 20. split; [reflexivity | exact Ho].
Qed.

Theorem signbit_complete f v (neg : bool) :
  is_t32_adr_fmt f \/ is_a32_u23_fmt f \/ is_a32_u23_split_fmt f -> 0 <= v < 2 ^ bits f ->
  exists m, encode_offset f ((if neg then - v else v) * 2 ^ discard f) = Some m.
Proof.
  intros Hf Hv.
  assert (H : 0 < bits f <= 23 /\ 0 <= discard f <= 31).
  { destruct Hf as [(Hty & Hvs & Hb & Hs & Hd) | [(Hty & Hvs & Hb & Hs & Hfit & Hd) | (Hty & Hvs & Hb & Hs & Hd)]]; lia. }
  destruct H as (Hb & Hd).
  pose proof (pow2_pos (discard f) ltac:(lia)) as Hpd. pose proof (pow2_le (discard f) 31 ltac:(lia)) as Hle.
  pose proof (pow2_le (bits f) 23 ltac:(lia)) as Hbl.
  set (off := (if neg then - v else v) * 2 ^ discard f).
  assert (Ha : Z.abs off = v * 2 ^ discard f) by (subst off; destruct neg; [rewrite Z.mul_opp_l, Z.abs_opp|]; apply Z.abs_eq; nia).
  assert (Hi : int64 off).
  { unfold int64. change (2 ^ 23) with 8388608 in Hbl. change (2 ^ 31) with 2147483648 in Hle. change (2 ^ 63) with 9223372036854775808.
    subst off. destruct neg; nia. }
  destruct (encode_offset f off) as [m|] eqn:He; [exists m; reflexivity|].
  exfalso. apply (proj1 (signbit_refused_iff f off Hf Hi)) in He. apply He. unfold magnitude_ok.
  rewrite Ha, mul_pow2_mod, mul_pow2_div by lia. split; [reflexivity | lia].
Qed.

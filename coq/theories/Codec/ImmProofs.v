(* C17 — proofs about the AArch64 immediate encoders (ImmModel.v). *)
From Coq Require Import ZArith Lia Bool List.
From Verif Require Import Base.ZBits Codec.ImmModel.
Import ListNotations.
Local Open Scope Z_scope.

(* ---------- finite ranges ---------- *)
Fixpoint zrange_from (lo : Z) (n : nat) : list Z :=
  match n with O => [] | S k => lo :: zrange_from (lo + 1) k end.
Definition zrange (n : Z) : list Z := zrange_from 0 (Z.to_nat n).

Lemma zrange_from_in lo n x : lo <= x < lo + Z.of_nat n -> In x (zrange_from lo n).
Proof.
  revert lo. induction n as [|n IH]; intros lo H; [lia|].
  cbn [zrange_from]. destruct (Z.eq_dec x lo) as [->|Hne]; [left; reflexivity|].
  right. apply IH. lia.
Qed.
Lemma zrange_in n x : 0 <= x < n -> In x (zrange n).
Proof. intros H. unfold zrange. apply zrange_from_in. rewrite Z2Nat.id by lia. lia. Qed.

(* ---------- logical immediates: completeness over ALL encodings (finite: 2 * 64 * 64 per width) ---------- *)
Definition logimm_check (m n imms immr : Z) : bool :=
  match decode_bit_masks m n imms immr with
  | None => true
  | Some v =>
    match encode_logical_imm v m with
    | None => false
    | Some e => match decode_bit_masks m (li_n e) (li_s e) (li_r e) with
                | Some v' => v' =? v
                | None => false
                end
    end
  end.

Definition logimm_sweep (m : Z) : bool :=
  forallb (fun n => forallb (fun s => forallb (fun r => logimm_check m n s r) (zrange 64)) (zrange 64)) (zrange 2).

Lemma logimm_sweep_64 : logimm_sweep 64 = true.
Proof. vm_compute. reflexivity. Qed.
Lemma logimm_sweep_32 : logimm_sweep 32 = true.
Proof. vm_compute. reflexivity. Qed.

Theorem logical_imm_complete m n imms immr v :
  (m = 32 \/ m = 64) -> 0 <= n < 2 -> 0 <= imms < 64 -> 0 <= immr < 64 ->
  decode_bit_masks m n imms immr = Some v ->
  exists e, encode_logical_imm v m = Some e /\ decode_bit_masks m (li_n e) (li_s e) (li_r e) = Some v.
Proof.
  intros Hm Hn Hs Hr Hd.
  assert (Hc : logimm_check m n imms immr = true).
  { assert (Hsw : logimm_sweep m = true) by (destruct Hm as [-> | ->]; [apply logimm_sweep_32 | apply logimm_sweep_64]).
    unfold logimm_sweep in Hsw. rewrite forallb_forall in Hsw. specialize (Hsw n (zrange_in 2 n Hn)).
    rewrite forallb_forall in Hsw. specialize (Hsw imms (zrange_in 64 imms Hs)).
    rewrite forallb_forall in Hsw. exact (Hsw immr (zrange_in 64 immr Hr)). }
  unfold logimm_check in Hc. rewrite Hd in Hc.
  destruct (encode_logical_imm v m) as [e|]; [|discriminate]. exists e. split; [reflexivity|].
  destruct (decode_bit_masks m (li_n e) (li_s e) (li_r e)) as [v'|]; [|discriminate].
  apply Z.eqb_eq in Hc. subst; reflexivity.
Qed.

(* ---------- FP imm8 ---------- *)
Definition fp_n_ok (n : Z) : Prop := n = 16 \/ n = 32 \/ n = 64.
Definition fp_is (n v : Z) : bool := let '(nb, nc, nz) := fp_params n in is_fp_imm8 nb nc nz v.
Definition fp_enc (n v : Z) : Z := let '(nb, nc, nz) := fp_params n in encode_fp_imm8 nb nc nz v.
Definition fp_nz (n : Z) : Z := let '(_, _, nz) := fp_params n in nz.

(* completeness: every imm8 expands to an accepted value that encodes back to it (finite: 256 x 3) *)
Definition fp_complete_sweep (n : Z) : bool :=
  forallb (fun i => fp_is n (vfp_expand_imm n i) && (fp_enc n (vfp_expand_imm n i) =? i)) (zrange 256).
Lemma fp_complete_sweep_all : fp_complete_sweep 16 && fp_complete_sweep 32 && fp_complete_sweep 64 = true.
Proof. vm_compute. reflexivity. Qed.

Theorem fp_imm8_complete n i : fp_n_ok n -> 0 <= i < 256 ->
  fp_is n (vfp_expand_imm n i) = true /\ fp_enc n (vfp_expand_imm n i) = i.
Proof.
  intros Hn Hi. pose proof fp_complete_sweep_all as H.
  apply andb_true_iff in H. destruct H as [H H64]. apply andb_true_iff in H. destruct H as [H16 H32].
  assert (Hs : fp_complete_sweep n = true) by (destruct Hn as [-> | [-> | ->]]; assumption).
  unfold fp_complete_sweep in Hs. rewrite forallb_forall in Hs. specialize (Hs i (zrange_in 256 i Hi)).
  apply andb_true_iff in Hs. destruct Hs as [Ha Hb]. apply Z.eqb_eq in Hb. auto.
Qed.

(* soundness for EVERY n-bit value: an accepted value has its low nz bits clear, so it is t * 2^nz with
   t < 2^(n-nz) <= 2^16; the remaining finite family is swept *)
Definition fp_sound_sweep (n : Z) : bool :=
  forallb (fun t => let v := t * 2 ^ fp_nz n in implb (fp_is n v) (vfp_expand_imm n (fp_enc n v) =? v)) (zrange (2 ^ (n - fp_nz n))).
Lemma fp_sound_sweep_16 : fp_sound_sweep 16 = true. Proof. vm_compute. reflexivity. Qed.
Lemma fp_sound_sweep_32 : fp_sound_sweep 32 = true. Proof. vm_compute. reflexivity. Qed.
Lemma fp_sound_sweep_64 : fp_sound_sweep 64 = true. Proof. vm_compute. reflexivity. Qed.

Lemma land_lsb_mask_zero v k : 0 <= k -> Z.land v (lsb_mask k) = 0 -> v mod 2 ^ k = 0.
Proof.
  intros Hk H. unfold lsb_mask in H. replace (2 ^ k - 1) with (Z.ones k) in H by (rewrite Z.ones_equiv; lia).
  rewrite Z.land_ones in H by lia. exact H.
Qed.

Theorem fp_imm8_sound n v : fp_n_ok n -> 0 <= v < 2 ^ n ->
  fp_is n v = true -> vfp_expand_imm n (fp_enc n v) = v.
Proof.
  intros Hn Hv Hi.
  assert (Hnz : 0 <= fp_nz n <= n) by (destruct Hn as [-> | [-> | ->]]; vm_compute; split; discriminate).
  assert (Hz : v mod 2 ^ fp_nz n = 0).
  { apply land_lsb_mask_zero; [lia|].
    unfold fp_is in Hi. unfold fp_nz. destruct (fp_params n) as [[nb nc] nz]. unfold is_fp_imm8 in Hi.
    apply andb_true_iff in Hi. destruct Hi as [Hi _]. apply Z.eqb_eq in Hi. exact Hi. }
  set (t := v / 2 ^ fp_nz n).
  assert (Hvt : v = t * 2 ^ fp_nz n) by (subst t; symmetry; apply div_pow2_exact; lia).
  assert (Ht : 0 <= t < 2 ^ (n - fp_nz n)).
  { subst t. pose proof (pow2_pos (fp_nz n) ltac:(lia)). split; [apply Z.div_pos; lia|].
    apply Z.div_lt_upper_bound; [lia|]. rewrite <- Z.pow_add_r by lia. replace (fp_nz n + (n - fp_nz n)) with n by lia. lia. }
  assert (Hs : fp_sound_sweep n = true)
    by (destruct Hn as [-> | [-> | ->]]; [apply fp_sound_sweep_16 | apply fp_sound_sweep_32 | apply fp_sound_sweep_64]).
  unfold fp_sound_sweep in Hs. rewrite forallb_forall in Hs. specialize (Hs t (zrange_in _ t Ht)).
  cbv zeta in Hs. rewrite <- Hvt in Hs. rewrite Hi in Hs. cbn [implb] in Hs. apply Z.eqb_eq in Hs. exact Hs.
Qed.

(* ---------- add/sub immediate ---------- *)
Theorem add_sub_imm_exact imm : 0 <= imm < 2 ^ 64 -> is_add_sub_imm imm = add_sub_encodable imm.
Proof.
  intros Hi. unfold is_add_sub_imm, add_sub_encodable.
  replace (imm <=? 4095) with (imm <? 2 ^ 12) by (change (2 ^ 12) with 4096; destruct (Z.ltb_spec imm 4096), (Z.leb_spec imm 4095); lia).
  destruct (imm <? 2 ^ 12) eqn:E; [reflexivity|]. cbn [orb]. apply Z.ltb_ge in E.
  (* the complement mask = low 12 ones  +  bits 24..63 *)
  assert (HM : not64 (4095 * 2 ^ 12) = Z.lor (Z.ones 12) (Z.shiftl (Z.ones 40) 24)) by (vm_compute; reflexivity).
  rewrite HM, Z.land_lor_distr_r, Z.land_ones by lia.
  assert (Hhi : Z.land imm (Z.shiftl (Z.ones 40) 24) = Z.shiftl (imm / 2 ^ 24) 24).
  { apply Z.bits_inj'. intros k Hk. rewrite Z.land_spec.
    destruct (Z_lt_le_dec k 24).
    - rewrite !Z.shiftl_spec_low by lia. apply andb_false_r.
    - rewrite !Z.shiftl_spec_high by lia.
      rewrite <- Z.shiftr_div_pow2 by lia. rewrite Z.shiftr_spec by lia. replace (k - 24 + 24) with k by lia.
      destruct (Z_lt_le_dec (k - 24) 40).
      + rewrite Z.ones_spec_low by lia. apply andb_true_r.
      + rewrite Z.ones_spec_high by lia. rewrite andb_false_r. symmetry.
        rewrite Z.testbit_eqb by lia. rewrite Z.div_small; [reflexivity|].
        pose proof (pow2_le 64 k ltac:(lia)). lia. }
  rewrite Hhi, Z.shiftl_mul_pow2 by lia.
  destruct (Z.eqb_spec (Z.lor (imm mod 2 ^ 12) (imm / 2 ^ 24 * 2 ^ 24)) 0) as [H0|H0].
  - apply Z.lor_eq_0_iff in H0. destruct H0 as [Ha Hb].
    rewrite Ha. cbn [Z.eqb andb]. symmetry. apply Z.ltb_lt.
    change (2 ^ 12) with 4096 in *. change (2 ^ 24) with 16777216 in *. Z.div_mod_to_equations. lia.
  - symmetry. apply andb_false_iff.
    destruct (Z.eqb_spec (imm mod 2 ^ 12) 0) as [Ha|Ha]; [right|left; reflexivity].
    apply Z.ltb_ge. rewrite Ha, Z.lor_0_l in H0.
    change (2 ^ 12) with 4096 in *. change (2 ^ 24) with 16777216 in *. Z.div_mod_to_equations. lia.
Qed.

(* ---------- byte mask: completeness over all imm8 ---------- *)
Lemma byte_mask_complete_sweep :
  forallb (fun i => is_byte_mask_imm (expand_byte_mask 8 i) && (encode_byte_mask_imm8 (expand_byte_mask 8 i) =? i)) (zrange 256) = true.
Proof. vm_compute. reflexivity. Qed.
Theorem byte_mask_complete i : 0 <= i < 256 ->
  is_byte_mask_imm (expand_byte_mask 8 i) = true /\ encode_byte_mask_imm8 (expand_byte_mask 8 i) = i.
Proof.
  intros Hi. pose proof byte_mask_complete_sweep as H. rewrite forallb_forall in H.
  specialize (H i (zrange_in 256 i Hi)). apply andb_true_iff in H. destruct H as [Ha Hb]. apply Z.eqb_eq in Hb. auto.
Qed.

(* ---------- by-element index H:L:M ---------- *)
Theorem lmh_exact size idx : 0 <= idx ->
  match encode_lmh size idx with
  | Some (lm, h, maxrm) =>
      (size = 1 /\ h * 4 + lm = idx /\ idx < 8 /\ maxrm = 15) \/
      (size = 2 /\ h * 2 + lm / 2 = idx /\ lm mod 2 = 0 /\ idx < 4 /\ maxrm = 31)
  | None => (size <> 1 /\ size <> 2) \/ (size = 1 /\ 8 <= idx) \/ (size = 2 /\ 4 <= idx)
  end.
Proof.
  intros Hi. unfold encode_lmh.
  destruct (Z.eqb_spec size 1) as [->|H1]; cbn [negb andb].
  - change (15 / 2 ^ 1) with 7. destruct (Z.leb_spec idx 7); [|right; left; lia].
    left. assert (Hc : idx = 0 \/ idx = 1 \/ idx = 2 \/ idx = 3 \/ idx = 4 \/ idx = 5 \/ idx = 6 \/ idx = 7) by lia.
    repeat (destruct Hc as [-> | Hc]; [vm_compute; intuition congruence|]). subst; vm_compute; intuition congruence.
  - destruct (Z.eqb_spec size 2) as [->|H2]; cbn [negb].
    + change (15 / 2 ^ 2) with 3. destruct (Z.leb_spec idx 3); [|right; right; lia].
      right. assert (Hc : idx = 0 \/ idx = 1 \/ idx = 2 \/ idx = 3) by lia.
      repeat (destruct Hc as [-> | Hc]; [vm_compute; intuition congruence|]). subst; vm_compute; intuition congruence.
    + left; lia.
Qed.

(* C17 — executable models of the range tests the codecs are built from (no proofs in this file):
   Support::is_int_n<N>(T) / Support::is_uint_n<N>(T) (asmjit/support/support.h), Support::shl / Support::sar and
   EmitterUtils::is_encodable_offset_32 / _64 (asmjit/core/emitterutils_p.h), written operation by operation
   (masks, wrapping shift, arithmetic shift) and NOT as the arithmetic predicate the theorems prove them equal to. *)
From Coq Require Import ZArith Bool.
Local Open Scope Z_scope.

(* two's complement of width w *)
Definition sx (w x : Z) : Z := let y := x mod 2 ^ w in if y <? 2 ^ (w - 1) then y else y - 2 ^ w.
Definition lsbm (n : Z) : Z := 2 ^ n - 1.                      (* Support::lsb_mask_const<U>(n), 0 < n <= width *)

(* T = intW_t (signed, W = 8 * sizeof(T)); x is the mathematical value of the argument *)
Definition is_int_n_signed (w n x : Z) : bool :=
  if (w <? n) || (w =? n) then true else
  let maximum_value := sx w (lsbm (n - 1)) in
  let minimum_value := sx w (- maximum_value - 1) in
  (minimum_value <=? x) && (x <=? maximum_value).
(* T = uintW_t *)
Definition is_int_n_unsigned (w n x : Z) : bool :=
  if w <? n then true else x <=? lsbm (n - 1).
Definition is_uint_n_signed (w n x : Z) : bool :=
  if w <=? n then 0 <=? x else (x mod 2 ^ w) <=? lsbm n.       (* as_std_uint(x) <= lsb_mask(N) *)
Definition is_uint_n_unsigned (w n x : Z) : bool :=
  if w <=? n then true else x <=? lsbm n.

(* Support::shl(T value, n) = T(as_std_uint(value) << n);  Support::sar(T value, n) = T(as_std_sint(value) >> n) *)
Definition shl_w (w x n : Z) : Z := sx w ((x mod 2 ^ w) * 2 ^ n).
Definition sar_w (w x n : Z) : Z := x / 2 ^ n.                  (* x signed; >> on a signed value is the floor division *)

Definition is_encodable_offset_32 (offset num_bits : Z) : bool :=
  let n_rev := 32 - num_bits in sar_w 32 (shl_w 32 offset n_rev) n_rev =? offset.
Definition is_encodable_offset_64 (offset num_bits : Z) : bool :=
  let n_rev := 64 - num_bits in sar_w 64 (shl_w 64 offset n_rev) n_rev =? offset.

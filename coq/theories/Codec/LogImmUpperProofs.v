(* C17 — removal of a hypothesis: encode_logical_imm(imm, 32) takes a uint64 argument; the bits above bit 31 are never looked
   at, so soundness / refusal hold for EVERY uint64 argument with the value read modulo 2^32 (the C++ signature allows it, and
   a caller that passes a sign-extended 32-bit pattern gets the same answer). *)
From Coq Require Import ZArith Lia Bool List.
From Verif Require Import Base.ZBits Codec.ImmModel Codec.ImmProofs Codec.LogImmSound.
Local Open Scope Z_scope.

Lemma low_part x w : 0 <= w <= 32 -> Z.land (x mod 2 ^ 32) (lsb_mask w) = Z.land x (lsb_mask w).
Proof. intros Hw. rewrite !land_lsb_mask by lia. apply mod_mod_pow2. lia. Qed.

Lemma high_part x w : 0 <= w <= 16 -> Z.land ((x mod 2 ^ 32) / 2 ^ w) (lsb_mask w) = Z.land (x / 2 ^ w) (lsb_mask w).
Proof.
  intros Hw. rewrite !land_lsb_mask by lia.
  pose proof (pow2_pos w ltac:(lia)) as Hp.
  (* (x mod 2^32) / 2^w mod 2^w = (x / 2^w) mod 2^w  because 2^w * 2^w divides 2^32 *)
  assert (E : forall y, (y / 2 ^ w) mod 2 ^ w = (y mod (2 ^ w * 2 ^ w)) / 2 ^ w).
  { intros y. rewrite Z.rem_mul_r by lia. rewrite Z.mul_comm, Z.div_add by lia.
    rewrite (Z.div_small (y mod 2 ^ w)) by (apply Z.mod_pos_bound; lia). reflexivity. }
  rewrite !E. f_equal. rewrite <- Z.pow_add_r by lia. apply mod_mod_pow2. lia.
Qed.

Lemma elem_width_upper fuel : forall x width, 0 <= width <= 32 ->
  elem_width fuel (x mod 2 ^ 32) width = elem_width fuel x width /\ 0 <= elem_width fuel x width <= 32.
Proof.
  induction fuel as [|k IH]; intros x width Hw; cbn [elem_width]; [split; [reflexivity | lia]|].
  assert (Hh : 0 <= width / 2 <= 16) by (split; [apply Z.div_pos; lia | apply Z.div_le_upper_bound; lia]).
  rewrite low_part, high_part by lia.
  destruct (Z.land x (lsb_mask (width / 2)) =? Z.land (x / 2 ^ (width / 2)) (lsb_mask (width / 2))).
  - destruct (2 <? width / 2); [apply IH; lia | split; [reflexivity | lia]].
  - split; [reflexivity|]. pose proof (Z.mul_div_le width 2 ltac:(lia)). lia.
Qed.

Theorem logical_imm32_upper_bits_ignored imm :
  encode_logical_imm imm 32 = encode_logical_imm (imm mod 2 ^ 32) 32.
Proof.
  rewrite !encode_logical_imm_core.
  destruct (elem_width_upper 6 imm 32 ltac:(lia)) as (E & Hr). rewrite E, low_part by exact Hr. reflexivity.
Qed.

(* soundness and exact refusal for every argument, the 32-bit value read modulo 2^32 *)
Theorem logical_imm32_sound_any imm e :
  encode_logical_imm imm 32 = Some e ->
  decode_bit_masks 32 (li_n e) (li_s e) (li_r e) = Some (imm mod 2 ^ 32) /\
  0 <= li_n e < 2 /\ 0 <= li_s e < 64 /\ 0 <= li_r e < 64.
Proof.
  intros He. rewrite logical_imm32_upper_bits_ignored in He.
  apply (logical_imm_sound_fields 32 (imm mod 2 ^ 32) e); [left; reflexivity | apply Z.mod_pos_bound; reflexivity | exact He].
Qed.

Theorem logical_imm32_refused_iff_any imm :
  (encode_logical_imm imm 32 = None <->
   ~ exists n s r, 0 <= n < 2 /\ 0 <= s < 64 /\ 0 <= r < 64 /\ decode_bit_masks 32 n s r = Some (imm mod 2 ^ 32)).
Proof.
  rewrite logical_imm32_upper_bits_ignored.
  apply logical_imm_refused_iff; [left; reflexivity | apply Z.mod_pos_bound; reflexivity].
Qed.

Example logical_imm32_upper_witness :
  encode_logical_imm 0xFFFFFFFF00FF00FF 32 = encode_logical_imm 0x00FF00FF 32 /\ encode_logical_imm 0xFFFFFFFF00FF00FF 32 <> None /\
  encode_logical_imm (-1) 32 = None.
Proof. repeat split; try (vm_compute; reflexivity). vm_compute. discriminate. Qed.

(* C17 — the range tests are exact: each equals the arithmetic interval test, for every argument of the C++ type.
   These justify the interval tests written directly in OffsetModel.encode_offset32/64 (signed_check32_faithful,
   signed_check64_faithful). *)
From Coq Require Import ZArith Lia Bool.
From Verif Require Import Base.ZBits Codec.RangeModel Codec.OffsetModel.
Local Open Scope Z_scope.

Lemma sx_is_sextz w x : sx w x = sextz w x.
Proof. reflexivity. Qed.

Lemma sx_small w x : 0 < w -> - 2 ^ (w - 1) <= x < 2 ^ (w - 1) -> sx w x = x.
Proof.
  intros Hw Hx. rewrite <- (sextz_of_mod w x Hw Hx) at 2. unfold sx, sextz.
  rewrite Z.mod_mod by (pose proof (pow2_pos w ltac:(lia)); lia). reflexivity.
Qed.

Lemma sx_range w x : 0 < w -> - 2 ^ (w - 1) <= sx w x < 2 ^ (w - 1).
Proof. intros Hw. rewrite sx_is_sextz. apply sextz_range. exact Hw. Qed.

Lemma sx_mod w x : 0 < w -> sx w (x mod 2 ^ w) = sx w x.
Proof. intros Hw. unfold sx. rewrite Z.mod_mod by (pose proof (pow2_pos w ltac:(lia)); lia). reflexivity. Qed.

(* ---------- is_int_n / is_uint_n ---------- *)
Theorem is_int_n_signed_spec w n x : 0 < n -> n <= w -> - 2 ^ (w - 1) <= x < 2 ^ (w - 1) ->
  is_int_n_signed w n x = (- 2 ^ (n - 1) <=? x) && (x <? 2 ^ (n - 1)).
Proof.
  intros Hn Hnw Hx. unfold is_int_n_signed.
  replace (w <? n) with false by (symmetry; apply Z.ltb_ge; lia). cbn [orb].
  destruct (Z.eqb_spec w n) as [->|Hne].
  - symmetry. apply andb_true_iff. split; [apply Z.leb_le | apply Z.ltb_lt]; lia.
  - cbv zeta. unfold lsbm.
    pose proof (pow2_pos (n - 1) ltac:(lia)) as Hp. pose proof (pow2_lt (n - 1) (w - 1) ltac:(lia)) as Hlt.
    rewrite (sx_small w (2 ^ (n - 1) - 1)) by lia.
    rewrite (sx_small w (- (2 ^ (n - 1) - 1) - 1)) by lia.
    replace (- (2 ^ (n - 1) - 1) - 1) with (- 2 ^ (n - 1)) by lia. f_equal.
    destruct (Z.leb_spec x (2 ^ (n - 1) - 1)), (Z.ltb_spec x (2 ^ (n - 1))); lia.
Qed.

Theorem is_int_n_unsigned_spec w n x : 0 < n -> n <= w -> 0 <= x < 2 ^ w ->
  is_int_n_unsigned w n x = (x <? 2 ^ (n - 1)).
Proof.
  intros Hn Hnw Hx. unfold is_int_n_unsigned, lsbm.
  replace (w <? n) with false by (symmetry; apply Z.ltb_ge; lia).
  destruct (Z.leb_spec x (2 ^ (n - 1) - 1)), (Z.ltb_spec x (2 ^ (n - 1))); lia.
Qed.

Theorem is_uint_n_signed_spec w n x : 0 < n -> 0 < w -> - 2 ^ (w - 1) <= x < 2 ^ (w - 1) ->
  is_uint_n_signed w n x = (0 <=? x) && (x <? 2 ^ n).
Proof.
  intros Hn Hw Hx. unfold is_uint_n_signed, lsbm.
  pose proof (pow2_double w Hw) as Hd. pose proof (pow2_pos (w - 1) ltac:(lia)) as Hp.
  destruct (Z.leb_spec w n) as [Hle|Hgt].
  - pose proof (pow2_le (w - 1) n ltac:(lia)).
    destruct (Z.leb_spec 0 x); cbn [andb]; [|reflexivity]. symmetry. apply Z.ltb_lt. lia.
  - pose proof (pow2_le n (w - 1) ltac:(lia)).
    destruct (Z.leb_spec 0 x) as [Hpos|Hneg]; cbn [andb].
    + rewrite Z.mod_small by lia. destruct (Z.leb_spec x (2 ^ n - 1)), (Z.ltb_spec x (2 ^ n)); lia.
    + assert (E : x mod 2 ^ w = x + 2 ^ w) by (symmetry; apply (Z.mod_unique x (2 ^ w) (-1)); lia).
      rewrite E. apply Z.leb_gt. lia.
Qed.

Theorem is_uint_n_unsigned_spec w n x : 0 < n -> 0 < w -> 0 <= x < 2 ^ w ->
  is_uint_n_unsigned w n x = (x <? 2 ^ n).
Proof.
  intros Hn Hw Hx. unfold is_uint_n_unsigned, lsbm.
  destruct (Z.leb_spec w n) as [Hle|Hgt].
  - symmetry. apply Z.ltb_lt. pose proof (pow2_le w n ltac:(lia)). lia.
  - destruct (Z.leb_spec x (2 ^ n - 1)), (Z.ltb_spec x (2 ^ n)); lia.
Qed.

(* ---------- shl / sar round trip = fits in num_bits signed bits ---------- *)
Lemma encodable_gen w off nb : 0 < nb <= w -> - 2 ^ (w - 1) <= off < 2 ^ (w - 1) ->
  (sar_w w (shl_w w off (w - nb)) (w - nb) =? off) = (- 2 ^ (nb - 1) <=? off) && (off <? 2 ^ (nb - 1)).
Proof.
  intros Hnb Hoff. unfold sar_w, shl_w. set (r := w - nb).
  assert (Hw : 0 < w) by lia.
  pose proof (pow2_pos r ltac:(lia)) as Hpr. pose proof (pow2_pos (nb - 1) ltac:(lia)) as Hpn.
  assert (Hsplit : 2 ^ (w - 1) = 2 ^ (nb - 1) * 2 ^ r).
  { rewrite <- Z.pow_add_r by lia. f_equal. lia. }
  assert (Hsame : sx w (off mod 2 ^ w * 2 ^ r) = sx w (off * 2 ^ r)).
  { rewrite <- (sx_mod w (off mod 2 ^ w * 2 ^ r)), <- (sx_mod w (off * 2 ^ r)) by exact Hw. f_equal.
    rewrite Z.mul_mod_idemp_l by (pose proof (pow2_pos w ltac:(lia)); lia). reflexivity. }
  rewrite Hsame.
  destruct (Z.leb_spec (- 2 ^ (nb - 1)) off) as [Hlo|Hlo]; [destruct (Z.ltb_spec off (2 ^ (nb - 1))) as [Hhi|Hhi]|]; cbn [andb].
  - rewrite sx_small by (try exact Hw; nia). rewrite Z.div_mul by lia. apply Z.eqb_refl.
  - apply Z.eqb_neq. pose proof (sx_range w (off * 2 ^ r) Hw) as Hs.
    assert (sx w (off * 2 ^ r) / 2 ^ r < 2 ^ (nb - 1)) by (apply Z.div_lt_upper_bound; lia). lia.
  - apply Z.eqb_neq. pose proof (sx_range w (off * 2 ^ r) Hw) as Hs.
    assert (- 2 ^ (nb - 1) <= sx w (off * 2 ^ r) / 2 ^ r) by (apply Z.div_le_lower_bound; lia). lia.
Qed.

Theorem is_encodable_offset_32_spec off nb : 0 < nb <= 32 -> - 2 ^ 31 <= off < 2 ^ 31 ->
  is_encodable_offset_32 off nb = (- 2 ^ (nb - 1) <=? off) && (off <? 2 ^ (nb - 1)).
Proof. intros Hn Ho. unfold is_encodable_offset_32. cbv zeta. apply (encodable_gen 32); [lia | exact Ho]. Qed.

Theorem is_encodable_offset_64_spec off nb : 0 < nb <= 64 -> - 2 ^ 63 <= off < 2 ^ 63 ->
  is_encodable_offset_64 off nb = (- 2 ^ (nb - 1) <=? off) && (off <? 2 ^ (nb - 1)).
Proof. intros Hn Ho. unfold is_encodable_offset_64. cbv zeta. apply (encodable_gen 64); [lia | exact Ho]. Qed.

(* the first value that does not fit is refused, the last that fits is accepted -- both signs (the classical off-by-one) *)
Corollary is_encodable_offset_32_limits nb : 0 < nb <= 32 ->
  is_encodable_offset_32 (2 ^ (nb - 1) - 1) nb = true /\ is_encodable_offset_32 (2 ^ (nb - 1)) nb = false \/ nb = 32.
Proof.
  intros Hn. destruct (Z.eq_dec nb 32) as [->|Hne]; [right; reflexivity|left].
  pose proof (pow2_pos (nb - 1) ltac:(lia)) as Hp. pose proof (pow2_lt (nb - 1) 31 ltac:(lia)) as Hlt.
  rewrite !is_encodable_offset_32_spec by lia. split.
  - apply andb_true_iff. split; [apply Z.leb_le | apply Z.ltb_lt]; lia.
  - apply andb_false_iff. right. apply Z.ltb_ge. lia.
Qed.
Corollary is_encodable_offset_32_neg_limits nb : 0 < nb <= 32 ->
  is_encodable_offset_32 (- 2 ^ (nb - 1)) nb = true /\ (nb < 32 -> is_encodable_offset_32 (- 2 ^ (nb - 1) - 1) nb = false).
Proof.
  intros Hn. pose proof (pow2_pos (nb - 1) ltac:(lia)) as Hp. pose proof (pow2_le (nb - 1) 31 ltac:(lia)) as Hle. split.
  - rewrite is_encodable_offset_32_spec by lia. apply andb_true_iff. split; [apply Z.leb_le | apply Z.ltb_lt]; lia.
  - intros H32. pose proof (pow2_lt (nb - 1) 31 ltac:(lia)). rewrite is_encodable_offset_32_spec by lia.
    apply andb_false_iff. left. apply Z.leb_gt. lia.
Qed.

(* ---------- the interval tests inside OffsetModel.encode_offset32 / 64 are these functions ---------- *)
(* encode_offset32, signed path: is_int_n<32>(int64 o), then is_encodable_offset_32(int32_t(uint32_t(o)), bit_count) *)
Theorem signed_check32_faithful o bc : 0 < bc <= 32 -> int64 o ->
  ((- 2 ^ 31 <=? o) && (o <? 2 ^ 31)) = is_int_n_signed 64 32 o /\
  (is_int_n_signed 64 32 o = true ->
   ((- 2 ^ (bc - 1) <=? o) && (o <? 2 ^ (bc - 1))) = is_encodable_offset_32 (sx 32 (wrap 32 o)) bc).
Proof.
  intros Hb Ho. unfold int64 in Ho.
  assert (E : is_int_n_signed 64 32 o = (- 2 ^ 31 <=? o) && (o <? 2 ^ 31)).
  { rewrite is_int_n_signed_spec by (try lia; exact Ho). reflexivity. }
  split; [symmetry; exact E|]. rewrite E. intros H. apply andb_true_iff in H. destruct H as [H1 H2].
  apply Z.leb_le in H1. apply Z.ltb_lt in H2.
  unfold wrap. rewrite sx_mod, sx_small by lia. symmetry. apply is_encodable_offset_32_spec; lia.
Qed.

Theorem signed_check64_faithful o bc : 0 < bc <= 64 -> int64 o ->
  ((- 2 ^ (bc - 1) <=? o) && (o <? 2 ^ (bc - 1))) = is_encodable_offset_64 o bc.
Proof. intros Hb Ho. symmetry. apply is_encodable_offset_64_spec; [lia | exact Ho]. Qed.

(* C17 — SOUNDNESS of the 64-bit byte-mask immediate (MOVI Dd/Vd.2D, #imm64) for EVERY 64-bit value:
   a value accepted by is_byte_mask_imm is the AdvSIMDExpandImm expansion of the imm8 the encoder produces.

   An accepted value equals (imm AND 0x0101..01) * 255; peeling the mask byte by byte (land_split8) shows this is
   expand_byte_mask 8 j for j = the 8 selected bits, j < 256, and the finite completeness theorem
   (ImmProofs.byte_mask_complete, all 256 imm8) gives  encode (expand j) = j. *)
From Coq Require Import ZArith Lia Bool List.
From Verif Require Import Base.ZBits Codec.ImmModel Codec.ImmProofs.
Local Open Scope Z_scope.

(* AND acts byte-wise *)
Lemma land_split8 a b : Z.land a b = Z.land (a mod 256) (b mod 256) + 256 * Z.land (a / 256) (b / 256).
Proof.
  rewrite (Z.div_mod (Z.land a b) 256) at 1 by lia. rewrite Z.add_comm. f_equal.
  - change 256 with (2 ^ 8). rewrite <- !Z.land_ones by lia.
    apply Z.bits_inj'. intros n _. rewrite !Z.land_spec.
    destruct (Z.testbit a n), (Z.testbit b n), (Z.testbit (Z.ones 8) n); reflexivity.
  - f_equal. change 256 with (2 ^ 8). rewrite <- !Z.shiftr_div_pow2 by lia. apply Z.shiftr_land.
Qed.

Fixpoint kmask (n : nat) : Z := match n with O => 0 | S k => 1 + 256 * kmask k end.
Fixpoint sel (n : nat) (x : Z) : Z := match n with O => 0 | S k => x mod 2 + 256 * sel k (x / 256) end.
Fixpoint pack (n : nat) (x : Z) : Z := match n with O => 0 | S k => x mod 2 + 2 * pack k (x / 256) end.

Lemma land_kmask n : forall x, Z.land x (kmask n) = sel n x.
Proof.
  induction n as [|n IH]; intros x.
  - cbn [kmask sel]. apply Z.land_0_r.
  - cbn [kmask sel]. rewrite land_split8.
    replace ((1 + 256 * kmask n) mod 256) with 1 by (Z.div_mod_to_equations; lia).
    replace ((1 + 256 * kmask n) / 256) with (kmask n) by (Z.div_mod_to_equations; lia).
    rewrite IH. f_equal.
    change 1 with (Z.ones 1). rewrite Z.land_ones by lia. change (2 ^ 1) with 2.
    Z.div_mod_to_equations. lia.
Qed.

Lemma pack_bound n : forall x, 0 <= pack n x < 2 ^ Z.of_nat n.
Proof.
  induction n as [|n IH]; intros x.
  - cbn [pack]. change (2 ^ Z.of_nat 0) with 1. lia.
  - cbn [pack]. rewrite Nat2Z.inj_succ, Z.pow_succ_r by lia.
    specialize (IH (x / 256)). pose proof (Z.mod_pos_bound x 2 ltac:(lia)). lia.
Qed.

Lemma sel_expand n : forall x, sel n x * 255 = expand_byte_mask n (pack n x).
Proof.
  induction n as [|n IH]; intros x.
  - reflexivity.
  - cbn [sel pack expand_byte_mask].
    pose proof (Z.mod_pos_bound x 2 ltac:(lia)) as Hb.
    assert (Hd : (x mod 2 + 2 * pack n (x / 256)) / 2 = pack n (x / 256)) by (Z.div_mod_to_equations; lia).
    rewrite Hd, <- IH.
    assert (Ho : Z.odd (x mod 2 + 2 * pack n (x / 256)) = (x mod 2 =? 1)).
    { rewrite Z.odd_add_mul_2.
      assert (Hc : x mod 2 = 0 \/ x mod 2 = 1) by lia. destruct Hc as [-> | ->]; reflexivity. }
    rewrite Ho. destruct (Z.eqb_spec (x mod 2) 1) as [E|E]; [rewrite E; ring|].
    replace (x mod 2) with 0 by lia. ring.
Qed.

Lemma sel_bound n : forall x, 0 <= sel n x <= kmask n.
Proof.
  induction n as [|n IH]; intros x.
  - cbn [sel kmask]. lia.
  - cbn [sel kmask]. specialize (IH (x / 256)). pose proof (Z.mod_pos_bound x 2 ltac:(lia)). lia.
Qed.

Lemma byte_mask_is_expansion imm :
  is_byte_mask_imm imm = true -> exists j, 0 <= j < 256 /\ imm = expand_byte_mask 8 j.
Proof.
  intros H. unfold is_byte_mask_imm in H. apply Z.eqb_eq in H.
  change 72340172838076673 with (kmask 8) in H. rewrite land_kmask in H.
  pose proof (sel_bound 8 imm) as Hb. change (kmask 8) with 72340172838076673 in Hb.
  change (2 ^ 64) with 18446744073709551616 in H. rewrite Z.mod_small in H by lia.
  exists (pack 8 imm). split; [exact (pack_bound 8 imm)|].
  rewrite <- sel_expand. exact H.
Qed.

(* (the range hypothesis is kept for uniformity with the other statements; acceptance already implies it) *)
Theorem byte_mask_sound imm :
  0 <= imm < 2 ^ 64 -> is_byte_mask_imm imm = true ->
  expand_byte_mask 8 (encode_byte_mask_imm8 imm) = imm /\ 0 <= encode_byte_mask_imm8 imm < 256.
Proof.
  intros _ H. destruct (byte_mask_is_expansion imm H) as (j & Hj & ->).
  destruct (byte_mask_complete j Hj) as (_ & ->). split; [reflexivity | exact Hj].
Qed.

(* exactness: the encoder accepts precisely the expansions of the 256 imm8 values *)
Theorem byte_mask_accepted_iff imm :
  is_byte_mask_imm imm = true <-> exists j, 0 <= j < 256 /\ imm = expand_byte_mask 8 j.
Proof.
  split; [apply byte_mask_is_expansion|].
  intros (j & Hj & ->). exact (proj1 (byte_mask_complete j Hj)).
Qed.

Example byte_mask_sound_witness : is_byte_mask_imm 0xFF00FFFF000000FF = true /\ 0 <= 0xFF00FFFF000000FF < 2 ^ 64.
Proof. split; [vm_compute; reflexivity | split; [discriminate | reflexivity]]. Qed.

(* C17 — the ARM ARM pseudo-code of the bit-field move class (C6.2 BFM / SBFM / UBFM, shared/functions/DecodeBitMasks with
   immediate = FALSE), transcribed operation by operation.  No proofs in this file.  Register values are Z in [0, 2^size). *)
From Coq Require Import ZArith Bool.
From Verif Require Import Codec.ImmModel.
Local Open Scope Z_scope.

Definition ones (n : Z) : Z := 2 ^ n - 1.

(* (wmask, tmask) = DecodeBitMasks(immN, imms, immr, FALSE), datasize m *)
Definition decode_bit_masks_f (m immN imms immr : Z) : option (Z * Z) :=
  let len := highest_set_bit 7 (immN * 64 + (63 - imms mod 64)) in
  if len <? 1 then None else
  if 2 ^ len >? m then None else
  let levels := 2 ^ len - 1 in
  let s := Z.land imms levels in
  let r := Z.land immr levels in
  let diff := s - r in
  let esize := 2 ^ len in
  let d := diff mod 2 ^ len in                                   (* UInt(diff<len-1:0>) *)
  let welem := ones (s + 1) in
  let telem := ones (d + 1) in
  Some (replicate_bits (Z.to_nat (m / esize)) esize (ror_n esize welem r),
        replicate_bits (Z.to_nat (m / esize)) esize telem).

Definition immN_of (size : Z) : Z := if size =? 64 then 1 else 0.       (* the class requires N = sf *)
Definition notm (size x : Z) : Z := ones size - x.                       (* NOT on a size-bit mask, 0 <= x < 2^size *)

(* UBFM: bot = ROR(src, R) AND wmask; X[d] = bot AND tmask *)
Definition ubfm_pc (size immr imms src : Z) : option Z :=
  match decode_bit_masks_f size (immN_of size) imms immr with
  | None => None
  | Some (wmask, tmask) => Some (Z.land (Z.land (ror_n size src immr) wmask) tmask)
  end.
(* SBFM: bot = ROR(src, R) AND wmask; top = Replicate(src<S>); X[d] = (top AND NOT(tmask)) OR (bot AND tmask) *)
Definition sbfm_pc (size immr imms src : Z) : option Z :=
  match decode_bit_masks_f size (immN_of size) imms immr with
  | None => None
  | Some (wmask, tmask) =>
    let bot := Z.land (ror_n size src immr) wmask in
    let top := if Z.testbit src imms then ones size else 0 in
    Some (Z.lor (Z.land top (notm size tmask)) (Z.land bot tmask))
  end.
(* BFM: bot = (dst AND NOT(wmask)) OR (ROR(src, R) AND wmask); X[d] = (dst AND NOT(tmask)) OR (bot AND tmask) *)
Definition bfm_pc (size immr imms dst src : Z) : option Z :=
  match decode_bit_masks_f size (immN_of size) imms immr with
  | None => None
  | Some (wmask, tmask) =>
    let bot := Z.lor (Z.land dst (notm size wmask)) (Z.land (ror_n size src immr) wmask) in
    Some (Z.lor (Z.land dst (notm size tmask)) (Z.land bot tmask))
  end.

(* C17 — executable models of the AArch64 immediate encoders (asmjit/arm/armutils.h, a64assembler.cpp)
   and the architectural decoders written from the ARM ARM.  No proofs in this file. *)
From Coq Require Import ZArith List Bool.
Import ListNotations.
Local Open Scope Z_scope.

Definition lsb_mask (n : Z) : Z := 2 ^ n - 1.
Definition not64 (x : Z) : Z := 2 ^ 64 - 1 - (x mod 2 ^ 64).
Definition xor64 (a b : Z) : Z := Z.lxor a b.

Fixpoint ctz_fuel (fuel : nat) (v : Z) (acc : Z) : Z :=
  match fuel with
  | O => acc
  | S f => if Z.odd v then acc else ctz_fuel f (v / 2) (acc + 1)
  end.
Definition ctz64 (v : Z) : Z := ctz_fuel 64 v 0.     (* only called with v <> 0 *)

(* ---- encode_logical_imm ---- *)
Fixpoint elem_width (fuel : nat) (imm width : Z) : Z :=
  match fuel with
  | O => width
  | S k =>
    let w := width / 2 in
    let mask := lsb_mask w in
    if Z.land imm mask =? Z.land (imm / 2 ^ w) mask
    then (if 2 <? w then elem_width k imm w else w)
    else w * 2
  end.

Record logimm := { li_n : Z; li_s : Z; li_r : Z }.

Definition encode_logical_imm (imm0 width0 : Z) : option logimm :=
  let width := elem_width 6 imm0 width0 in
  let lm := lsb_mask width in
  let imm := Z.land imm0 lm in
  if (imm =? 0) || (imm =? lm) then None else
  let z_index := ctz64 (not64 imm) in
  let z_imm := Z.lxor imm (lsb_mask z_index) in
  let z_count := (if z_imm =? 0 then width else ctz64 z_imm) - z_index in
  let o_index := z_index + z_count in
  let o_imm := not64 (Z.lxor z_imm (lsb_mask o_index)) in
  let o_count := (if o_imm =? 0 then width else ctz64 o_imm) - o_index in
  let must_be_zero := Z.lxor o_imm (not64 (lsb_mask (o_index + o_count))) in
  if negb (must_be_zero =? 0) || ((0 <? z_index) && negb (width - (o_index + o_count) =? 0)) then None else
  Some {| li_n := if width =? 64 then 1 else 0;
          li_s := Z.lor (o_count + z_index - 1) (Z.land ((2 ^ 32 - width * 2) mod 2 ^ 32) 63);
          li_r := width - o_index |}.

(* ---- ARM ARM DecodeBitMasks(immN, imms, immr, immediate = TRUE), datasize M ---- *)
Fixpoint highest_set_bit (fuel : nat) (v : Z) : Z :=     (* index of the highest set bit of a 7-bit value, -1 if none *)
  match fuel with
  | O => -1
  | S k => if Z.testbit v (Z.of_nat k) then Z.of_nat k else highest_set_bit k v
  end.
Definition ror_n (n v r : Z) : Z := let r := r mod n in ((v / 2 ^ r) + (v mod 2 ^ r) * 2 ^ (n - r)) mod 2 ^ n.
Fixpoint replicate_bits (count : nat) (esize v : Z) : Z :=
  match count with O => 0 | S k => v + 2 ^ esize * replicate_bits k esize v end.

Definition decode_bit_masks (m immN imms immr : Z) : option Z :=
  let len := highest_set_bit 7 (immN * 64 + (63 - imms mod 64)) in
  if len <? 1 then None else
  if 2 ^ len >? m then None else
  let levels := 2 ^ len - 1 in
  let s := Z.land imms levels in
  let r := Z.land immr levels in
  if s =? levels then None else
  let esize := 2 ^ len in
  let welem := 2 ^ (s + 1) - 1 in
  let elem := ror_n esize welem r in
  Some (replicate_bits (Z.to_nat (m / esize)) esize elem).

(* canonical field check: for element sizes below 64 the unused high bits of immr must be what the encoder writes (0);
   the architecture ignores them, so the *value* decoded is what matters *)

(* ---- add/sub immediate ---- *)
Definition is_add_sub_imm (imm : Z) : bool := (imm <=? 4095) || (Z.land imm (not64 (4095 * 2 ^ 12)) =? 0).
(* architectural: imm12 optionally shifted by 12 *)
Definition add_sub_encodable (imm : Z) : bool :=
  (imm <? 2 ^ 12) || ((imm mod 2 ^ 12 =? 0) && (imm / 2 ^ 12 <? 2 ^ 12)).

(* ---- byte mask (MOVI 64-bit) ---- *)
Fixpoint byte_mask_ok (n : nat) (imm : Z) : bool :=
  match n with O => imm =? 0 | S k => let b := imm mod 256 in ((b =? 0) || (b =? 255)) && byte_mask_ok k (imm / 256) end.
Definition is_byte_mask_imm (imm : Z) : bool := imm =? (Z.land imm 72340172838076673 (* 0x0101010101010101 *) * 255) mod 2 ^ 64.
Definition encode_byte_mask_imm8 (imm : Z) : Z :=
  Z.lor (Z.lor (Z.land (imm / 2 ^ 7) 3) (Z.land (imm / 2 ^ 21) 12)) (Z.lor (Z.land (imm / 2 ^ 35) 48) (Z.land (imm / 2 ^ 49) 192)).
(* AdvSIMDExpandImm, op=1 cmode=1110: each bit of imm8 expands to a byte *)
Fixpoint expand_byte_mask (n : nat) (imm8 : Z) : Z :=
  match n with O => 0 | S k => (if Z.odd imm8 then 255 else 0) + 256 * expand_byte_mask k (imm8 / 2) end.

(* ---- FP imm8 : is_fp_imm8_generic<T, kNumBBits, kNumCDEFGHBits, kNumZeroBits> / encode_fp_to_imm8_generic ---- *)
Definition is_fp_imm8 (nb nc nz : Z) (v : Z) : bool :=
  let all_bs := 2 ^ nb - 1 in
  let b0 := 2 ^ (nb - 1) in
  let b1 := Z.lxor all_bs b0 in
  let imm_z := Z.land v (lsb_mask nz) in
  let imm_b := Z.land ((v / 2 ^ (nz + nc)) mod 2 ^ 32) all_bs in
  (imm_z =? 0) && ((imm_b =? b0) || (imm_b =? b1)).
Definition encode_fp_imm8 (nb nc nz : Z) (v : Z) : Z :=
  let bits := (v / 2 ^ nz) mod 2 ^ 32 in
  Z.lor (Z.land (bits / 2 ^ (nb + nc - 7)) 128) (Z.land bits 127).
(* VFPExpandImm(imm8) for N = 16/32/64 : sign : NOT(b6) : Replicate(b6, E-3) : imm8<5:4> : imm8<3:0> : Zeros(F-4) *)
Definition vfp_expand_imm (n : Z) (imm8 : Z) : Z :=
  let e := if n =? 16 then 5 else if n =? 32 then 8 else 11 in
  let f := n - e - 1 in
  let sign := (imm8 / 128) mod 2 in
  let b6 := (imm8 / 64) mod 2 in
  let exp := (1 - b6) * 2 ^ (e - 1) + (if b6 =? 1 then (2 ^ (e - 3) - 1) * 4 else 0) + (imm8 / 16) mod 4 in
  let frac := (imm8 mod 16) * 2 ^ (f - 4) in
  sign * 2 ^ (n - 1) + exp * 2 ^ f + frac.
Definition fp_params (n : Z) : Z * Z * Z := if n =? 16 then (3, 6, 6) else if n =? 32 then (6, 6, 19) else (9, 6, 48).

(* ---- encode_lmh ---- *)
Definition encode_lmh (size_field idx : Z) : option (Z * Z * Z) :=   (* (lm, h, max_rm_id) *)
  if negb (size_field =? 1) && negb (size_field =? 2) then None else
  let h_shift := 3 - size_field in
  let lm_shift := size_field - 1 in
  let max_idx := 15 / 2 ^ size_field in
  if idx <=? max_idx then Some (Z.land (idx * 2 ^ lm_shift) 3, idx / 2 ^ h_shift, 8 * 2 ^ size_field - 1) else None.

(* ---- move-wide sequences: abstract operations over half-words ---- *)
Inductive mwop := MovZ | MovN | MovK.
Record mw := { mw_sf : Z; mw_op : mwop; mw_hw : Z; mw_imm : Z }.

Definition hw_of (imm i : Z) : Z := (imm / 2 ^ (16 * i)) mod 65536.

Definition movseq32 (imm x : Z) : list mw :=
  let lo := hw_of imm 0 in let hi := hw_of imm 1 in
  if hi =? 0 then [ {| mw_sf := x; mw_op := MovZ; mw_hw := 0; mw_imm := lo |} ]
  else if hi =? 65535 then [ {| mw_sf := 0; mw_op := MovN; mw_hw := 0; mw_imm := 65535 - lo |} ]
  else if lo =? 0 then [ {| mw_sf := x; mw_op := MovZ; mw_hw := 1; mw_imm := hi |} ]
  else if lo =? 65535 then [ {| mw_sf := 0; mw_op := MovN; mw_hw := 1; mw_imm := 65535 - hi |} ]
  else [ {| mw_sf := x; mw_op := MovZ; mw_hw := 0; mw_imm := lo |}; {| mw_sf := 0; mw_op := MovK; mw_hw := 1; mw_imm := hi |} ].

Definition count_hw (v imm : Z) : Z :=
  (if hw_of imm 0 =? v then 1 else 0) + (if hw_of imm 1 =? v then 1 else 0) +
  (if hw_of imm 2 =? v then 1 else 0) + (if hw_of imm 3 =? v then 1 else 0).

(* loop of the MOVZ strategy: skip zero half-words, first emitted is MOVZ then MOVK *)
Fixpoint movz_loop (idxs : list Z) (imm : Z) (first : bool) : list mw :=
  match idxs with
  | [] => []
  | i :: r =>
    let h := hw_of imm i in
    if h =? 0 then movz_loop r imm first
    else {| mw_sf := 1; mw_op := if first then MovZ else MovK; mw_hw := i; mw_imm := h |} :: movz_loop r imm false
  end.
Fixpoint movn_loop (idxs : list Z) (imm : Z) (first : bool) : list mw :=
  match idxs with
  | [] => []
  | i :: r =>
    let h := hw_of imm i in
    if h =? 65535 then movn_loop r imm first
    else {| mw_sf := 1; mw_op := if first then MovN else MovK; mw_hw := i; mw_imm := if first then 65535 - h else h |}
         :: movn_loop r imm false
  end.

Definition movseq64 (imm x : Z) : list mw :=
  if imm <=? 4294967295 then movseq32 imm x else
  if count_hw 65535 imm <=? count_hw 0 imm then movz_loop [0; 1; 2; 3] imm true
  else match movn_loop [0; 1; 2; 3] imm true with
       | [] => [ {| mw_sf := 1; mw_op := MovN; mw_hw := 0; mw_imm := 0 |} ]
       | l => l
       end.

(* instruction words (ARM ARM C4.1 "Move wide (immediate)": sf opc 100101 hw imm16 Rd) *)
Definition mw_word (rd : Z) (m : mw) : Z :=
  mw_sf m * 2 ^ 31 + (match mw_op m with MovN => 0 | MovZ => 2 | MovK => 3 end) * 2 ^ 29 + 37 * 2 ^ 23 +
  mw_hw m * 2 ^ 21 + mw_imm m * 2 ^ 5 + rd.
Definition encode_mov_sequence (is64 : bool) (imm rd x : Z) : list Z :=
  map (mw_word rd) (if is64 then movseq64 imm x else movseq32 imm x).

(* architectural decode + execution of a move-wide word on a 64-bit register value *)
Definition mw_decode (w : Z) : option (Z * mw) :=
  if negb ((w / 2 ^ 23) mod 64 =? 37) then None else
  let opc := (w / 2 ^ 29) mod 4 in
  match (if opc =? 0 then Some MovN else if opc =? 2 then Some MovZ else if opc =? 3 then Some MovK else None) with
  | None => None
  | Some op => Some (w mod 32, {| mw_sf := (w / 2 ^ 31) mod 2; mw_op := op; mw_hw := (w / 2 ^ 21) mod 4; mw_imm := (w / 2 ^ 5) mod 65536 |})
  end.

Definition mw_exec (reg : Z) (m : mw) : option Z :=
  if (mw_sf m =? 0) && (2 <=? mw_hw m) then None else
  let ds := if mw_sf m =? 1 then 64 else 32 in
  let pos := 16 * mw_hw m in
  match mw_op m with
  | MovZ => Some (mw_imm m * 2 ^ pos)
  | MovN => Some (2 ^ ds - 1 - mw_imm m * 2 ^ pos)
  | MovK => let r := reg mod 2 ^ ds in
            Some (r - (hw_of r (mw_hw m)) * 2 ^ pos + mw_imm m * 2 ^ pos)
  end.

Fixpoint mw_run (reg : Z) (l : list mw) : option Z :=
  match l with
  | [] => Some reg
  | m :: r => match mw_exec reg m with Some v => mw_run v r | None => None end
  end.

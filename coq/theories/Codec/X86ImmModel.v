(* C17 — immediates of the x86 ALU group (add/or/adc/sbb/and/sub/xor/cmp r/m, imm): x86::Assembler::_emit, case
   InstDB::kEncodingX86Arith (asmjit/x86/x86assembler.cpp), operand forms (Reg, Imm) and (Mem, Imm): choice of the
   operand size, of imm8 (opcode 0x83, sign-extended by the CPU) versus imm16/imm32 (0x81) versus the accumulator short
   form (op*8 + 4/5), and the bytes X86BufferWriter::emit_immediate / emit_imm_byte_or_dword put out (the low imm_size
   bytes, little endian).  No proofs in this file.  `imm` is the int64 value of the Imm operand. *)
From Coq Require Import ZArith Bool.
From Verif Require Import Codec.RangeModel.
Local Open Scope Z_scope.

Record arith_enc := { ae_opsize : Z;      (* operand size in bytes after the AND r64 -> r32 transformation *)
                      ae_short : bool;    (* accumulator short form (no ModRM) *)
                      ae_opc : Z;         (* opcode byte *)
                      ae_immsize : Z;     (* bytes of immediate emitted *)
                      ae_field : Z }.     (* their little-endian value *)

Definition sign_extend_int32 (x : Z) : Z := sx 32 x.            (* T(int64_t(int32_t(imm & 0xFFFFFFFF))) *)
Definition is_int8 (x : Z) : bool := is_int_n_signed 64 8 x.    (* Support::is_int_n<8>(int64_t) *)
Definition is_int32 (x : Z) : bool := is_int_n_signed 64 32 x.
Definition is_uint32 (x : Z) : bool := is_uint_n_signed 64 32 x.

Definition imm_field (imm_value imm_size : Z) : Z := imm_value mod 2 ^ (8 * imm_size).

(* op = /digit of the group (0 add 1 or 2 adc 3 sbb 4 and 5 sub 6 xor 7 cmp); size = register size in bytes;
   rb0 = the register is AL/AX/EAX/RAX; optsize = EncodingOptions::kOptimizeForSize; longform = InstOptions::kLongForm *)
Definition arith_reg_imm (op size : Z) (rb0 optsize longform : bool) (imm : Z) : option arith_enc :=
  if size =? 1 then
    if rb0 && negb longform
    then Some {| ae_opsize := 1; ae_short := true; ae_opc := op * 8 + 4; ae_immsize := 1; ae_field := imm_field imm 1 |}
    else Some {| ae_opsize := 1; ae_short := false; ae_opc := 128; ae_immsize := 1; ae_field := imm_field imm 1 |}
  else
    let pre : option (Z * Z) :=              (* (imm_value, size) *)
      if size =? 2 then Some (imm, 2)
      else if size =? 4 then Some (sign_extend_int32 imm, 4)
      else
        let can32 := (op =? 4) && is_uint32 imm in
        if negb (is_int32 imm) then (if can32 then Some (imm, 4) else None)
        else if can32 && optsize then Some (imm, 4) else Some (imm, 8) in
    match pre with
    | None => None
    | Some (imm_value, size) =>
      let imm_size := if is_int8 imm_value && negb longform then 1 else Z.min size 4 in
      if rb0 && negb (imm_size =? 1) && negb longform
      then Some {| ae_opsize := size; ae_short := true; ae_opc := op * 8 + 5; ae_immsize := Z.min size 4;
                   ae_field := imm_field imm_value (Z.min size 4) |}
      else Some {| ae_opsize := size; ae_short := false; ae_opc := 128 + (if imm_size =? 1 then 3 else 1);
                   ae_immsize := imm_size; ae_field := imm_field imm_value imm_size |}
    end.

(* (Mem, Imm): `checked` = the tree refuses a qword destination whose immediate is not an int32
   (fixes/C17-x86-arith-mem-imm64.patch); the pinned code has no such test and truncates *)
Definition arith_mem_imm (checked : bool) (op mem_size : Z) (longform : bool) (imm : Z) : option arith_enc :=
  let imm_value := if mem_size =? 4 then sign_extend_int32 imm else imm in
  if checked && (mem_size =? 8) && negb (is_int32 imm_value) then None else
  let imm_size := if is_int8 imm_value && negb longform then 1 else Z.min mem_size 4 in
  Some {| ae_opsize := mem_size; ae_short := false;
          ae_opc := if mem_size =? 1 then 128 else 128 + (if imm_size =? 1 then 3 else 1);
          ae_immsize := imm_size; ae_field := imm_field imm_value imm_size |}.

(* what the CPU uses as second operand (Intel SDM vol. 2, ADD..CMP: imm8 sign-extended to the operand size; imm32
   sign-extended to 64 bits for a 64-bit operand), as an unsigned operand-size value *)
Definition effective_imm (e : arith_enc) : Z := (sx (8 * ae_immsize e) (ae_field e)) mod 2 ^ (8 * ae_opsize e).

(* C17 — immediates of the x86 ALU group (add/or/adc/sbb/and/sub/xor/cmp r/m, imm): x86::Assembler::_emit, case
   InstDB::kEncodingX86Arith (asmjit/x86/x86assembler.cpp), operand forms (Reg, Imm) and (Mem, Imm): choice of the
   operand size, of imm8 (opcode 0x83, sign-extended by the CPU) versus imm16/imm32 (0x81) versus the accumulator short
   form (op*8 + 4/5), and the bytes X86BufferWriter::emit_immediate / emit_imm_byte_or_dword put out (the low imm_size
   bytes, little endian).  No proofs in this file.  `imm` is the int64 value of the Imm operand. *)
From Coq Require Import ZArith Bool.
From Verif Require Import Codec.RangeModel.
Local Open Scope Z_scope.

Record arith_enc := { ae_opsize : Z;      (* operand size in bytes after the AND r64 -> r32 transformation *)
                      ae_short : bool;    (* accumulator short form (no ModRM) *)
                      ae_opc : Z;         (* opcode byte *)
                      ae_immsize : Z;     (* bytes of immediate emitted *)
                      ae_field : Z }.     (* their little-endian value *)

Definition sign_extend_int32 (x : Z) : Z := sx 32 x.            (* T(int64_t(int32_t(imm & 0xFFFFFFFF))) *)
Definition is_int8 (x : Z) : bool := is_int_n_signed 64 8 x.    (* Support::is_int_n<8>(int64_t) *)
Definition is_int32 (x : Z) : bool := is_int_n_signed 64 32 x.
Definition is_uint32 (x : Z) : bool := is_uint_n_signed 64 32 x.

Definition imm_field (imm_value imm_size : Z) : Z := imm_value mod 2 ^ (8 * imm_size).

(* op = /digit of the group (0 add 1 or 2 adc 3 sbb 4 and 5 sub 6 xor 7 cmp); size = register size in bytes;
   rb0 = the register is AL/AX/EAX/RAX; optsize = EncodingOptions::kOptimizeForSize; longform = InstOptions::kLongForm *)
Definition arith_reg_imm (op size : Z) (rb0 optsize longform : bool) (imm : Z) : option arith_enc :=
  if size =? 1 then
    if rb0 && negb longform
    then Some {| ae_opsize := 1; ae_short := true; ae_opc := op * 8 + 4; ae_immsize := 1; ae_field := imm_field imm 1 |}
    else Some {| ae_opsize := 1; ae_short := false; ae_opc := 128; ae_immsize := 1; ae_field := imm_field imm 1 |}
  else
    let pre : option (Z * Z) :=              (* (imm_value, size) *)
      if size =? 2 then Some (imm, 2)
      else if size =? 4 then Some (sign_extend_int32 imm, 4)
      else
        let can32 := (op =? 4) && is_uint32 imm in
        if negb (is_int32 imm) then (if can32 then Some (imm, 4) else None)
        else if can32 && optsize then Some (imm, 4) else Some (imm, 8) in
    match pre with
    | None => None
    | Some (imm_value, size) =>
      let imm_size := if is_int8 imm_value && negb longform then 1 else Z.min size 4 in
      if rb0 && negb (imm_size =? 1) && negb longform
      then Some {| ae_opsize := size; ae_short := true; ae_opc := op * 8 + 5; ae_immsize := Z.min size 4;
                   ae_field := imm_field imm_value (Z.min size 4) |}
      else Some {| ae_opsize := size; ae_short := false; ae_opc := 128 + (if imm_size =? 1 then 3 else 1);
                   ae_immsize := imm_size; ae_field := imm_field imm_value imm_size |}
    end.

(* (Mem, Imm): `checked` = the tree refuses a qword destination whose immediate is not an int32
   (fixes/C17-x86-arith-mem-imm64.patch); the pinned code has no such test and truncates *)
Definition arith_mem_imm (checked : bool) (op mem_size : Z) (longform : bool) (imm : Z) : option arith_enc :=
  let imm_value := if mem_size =? 4 then sign_extend_int32 imm else imm in
  if checked && (mem_size =? 8) && negb (is_int32 imm_value) then None else
  let imm_size := if is_int8 imm_value && negb longform then 1 else Z.min mem_size 4 in
  Some {| ae_opsize := mem_size; ae_short := false;
          ae_opc := if mem_size =? 1 then 128 else 128 + (if imm_size =? 1 then 3 else 1);
          ae_immsize := imm_size; ae_field := imm_field imm_value imm_size |}.

(* what the CPU uses as second operand (Intel SDM vol. 2, ADD..CMP: imm8 sign-extended to the operand size; imm32
   sign-extended to 64 bits for a 64-bit operand), as an unsigned operand-size value *)
Definition effective_imm (e : arith_enc) : Z := (sx (8 * ae_immsize e) (ae_field e)) mod 2 ^ (8 * ae_opsize e).

(* ---- TEST r/m, imm (case kEncodingX86Test) and MOV r/m, imm (case kEncodingX86Mov) ----
   `checked` = the tree refuses a 64-bit operand whose immediate is not an int32 where only a sign-extended imm32 exists
   (TEST r/m64, MOV m64: fixes/C17-x86-test-mov-imm64.patch); the pinned code truncates.  acc: the register is rAX (id 0),
   otherwise the harness uses rCX (id 1). *)
Definition test_reg_imm (checked : bool) (size : Z) (acc longform : bool) (imm : Z) : option arith_enc :=
  if checked && (size =? 8) && negb (is_int32 imm) then None else
  let imm_size := if size =? 1 then 1 else Z.min size 4 in
  if acc && negb longform
  then Some {| ae_opsize := size; ae_short := true; ae_opc := if size =? 1 then 168 else 169; ae_immsize := imm_size;
               ae_field := imm_field imm imm_size |}
  else Some {| ae_opsize := size; ae_short := false; ae_opc := if size =? 1 then 246 else 247; ae_immsize := imm_size;
               ae_field := imm_field imm imm_size |}.

Definition test_mem_imm (checked : bool) (mem_size : Z) (imm : Z) : option arith_enc :=
  if checked && (mem_size =? 8) && negb (is_int32 imm) then None else
  Some {| ae_opsize := mem_size; ae_short := false; ae_opc := if mem_size =? 1 then 246 else 247;
          ae_immsize := Z.min mem_size 4; ae_field := imm_field imm (Z.min mem_size 4) |}.

(* MOV reg, imm: B0+r ib / B8+r iw,id / REX.W C7 /0 id (sign-extended) / REX.W B8+r io (movabs) / B8+r id for a uint32 when
   optimising for size (32-bit destination, zero-extended by the CPU).  ae_short = no ModRM byte. *)
Definition mov_reg_imm (size : Z) (acc optsize longform : bool) (imm : Z) : arith_enc :=
  let id := if acc then 0 else 1 in
  if size =? 1 then {| ae_opsize := 1; ae_short := true; ae_opc := 176 + id; ae_immsize := 1; ae_field := imm_field imm 1 |}
  else if (size =? 8) && negb longform && is_uint32 imm && optsize
  then {| ae_opsize := 4; ae_short := true; ae_opc := 184 + id; ae_immsize := 4; ae_field := imm_field imm 4 |}
  else if (size =? 8) && negb longform && is_int32 imm
  then {| ae_opsize := 8; ae_short := false; ae_opc := 199; ae_immsize := 4; ae_field := imm_field imm 4 |}
  else {| ae_opsize := size; ae_short := true; ae_opc := 184 + id; ae_immsize := size; ae_field := imm_field imm size |}.

Definition mov_mem_imm (checked : bool) (mem_size : Z) (imm : Z) : option arith_enc :=
  if checked && (mem_size =? 8) && negb (is_int32 imm) then None else
  Some {| ae_opsize := mem_size; ae_short := false; ae_opc := if mem_size =? 1 then 198 else 199;
          ae_immsize := Z.min mem_size 4; ae_field := imm_field imm (Z.min mem_size 4) |}.

(* ---- IMUL r, r/m, imm (case kEncodingX86Imul, (Reg, Reg, Imm) and (Reg, Mem, Imm)) and PUSH imm in 64-bit mode
   (case kEncodingX86Push): 6B /r ib | 69 /r iw,id  and  6A ib | 68 id; `checked` as above (same patch). The memory form
   of IMUL sign-extends a 32-bit immediate before the imm8 test, the register form does not. *)
Definition imul_imm (checked mem : bool) (size : Z) (longform : bool) (imm : Z) : option arith_enc :=
  if checked && (size =? 8) && negb (is_int32 imm) then None else
  let imm_value := if mem && (size =? 4) then sign_extend_int32 imm else imm in
  let i8 := is_int8 imm_value && negb longform in
  let imm_size := if i8 then 1 else if size =? 2 then 2 else 4 in
  Some {| ae_opsize := size; ae_short := false; ae_opc := if i8 then 107 else 105; ae_immsize := imm_size;
          ae_field := imm_field imm_value imm_size |}.

Definition push_imm (checked longform : bool) (imm : Z) : option arith_enc :=
  if checked && negb (is_int32 imm) then None else
  let i8 := is_int8 imm && negb longform in
  let imm_size := if i8 then 1 else 4 in
  Some {| ae_opsize := 8; ae_short := true; ae_opc := if i8 then 106 else 104; ae_immsize := imm_size;
          ae_field := imm_field imm imm_size |}.

(* ---- shifts and rotates by an immediate count (case kEncodingX86Rot: rol ror rcl rcr shl shr sal sar r/m, imm) and the
   double shifts (case kEncodingX86ShldShrd: shld/shrd r/m, r, imm): the count byte is `imm & 0xFF`; a count of 1 uses the
   D0/D1 form without immediate unless the long form is requested.  ae_opc: D0/D1 (by 1), C0/C1 (ib); 0FA4 / 0FAC for shld / shrd. *)
Definition rot_imm (size : Z) (longform : bool) (imm : Z) : arith_enc :=
  let c := imm mod 256 in
  if (c =? 1) && negb longform
  then {| ae_opsize := size; ae_short := false; ae_opc := if size =? 1 then 208 else 209; ae_immsize := 0; ae_field := 0 |}
  else {| ae_opsize := size; ae_short := false; ae_opc := if size =? 1 then 192 else 193; ae_immsize := 1; ae_field := c |}.

Definition shld_imm (right : bool) (size : Z) (imm : Z) : arith_enc :=
  {| ae_opsize := size; ae_short := false; ae_opc := if right then 4012 else 4004; ae_immsize := 1; ae_field := imm_field imm 1 |}.

(* the count the CPU uses (SDM, SHL/SHR/.., SHLD/SHRD: the count is masked to 5 bits, 6 bits with REX.W) *)
Definition count_mask (size : Z) : Z := if size =? 8 then 63 else 31.
Definition cpu_count (size : Z) (e : arith_enc) : Z :=
  if ae_immsize e =? 0 then 1 else Z.land (ae_field e) (count_mask size).

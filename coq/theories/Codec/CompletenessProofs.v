(* C17 — completeness directions and malformed formats:
   * every value of a contiguous field is reached: for each r in [0, 2^bits) there is an int64 offset the encoder accepts and
     encodes as r (so encoder and architectural decoder are inverse bijections between the accepted offsets and the field values);
   * a malformed format (value size not 1/2/4/8, zero bits, more bits than the value has) is refused for every type and offset. *)
From Coq Require Import ZArith Lia Bool List.
From Verif Require Import Base.ZBits Codec.OffsetModel Codec.OffsetProofs.
Local Open Scope Z_scope.

Theorem encode_offset_malformed f off :
  (vsize f <> 1 /\ vsize f <> 2 /\ vsize f <> 4 /\ vsize f <> 8) \/ bits f = 0 \/ 8 * vsize f < bits f ->
  encode_offset f off = None.
Proof.
  intros H. unfold encode_offset.
  destruct ((vsize f =? 1) || (vsize f =? 2) || (vsize f =? 4)) eqn:E124.
  - assert (Hg : (bits f =? 0) || (vsize f * 8 <? bits f) = true).
    { destruct H as [(H1 & H2 & H4 & _) | [H | H]].
      - exfalso. apply orb_true_iff in E124. destruct E124 as [E|E]; [apply orb_true_iff in E; destruct E as [E|E]|];
          apply Z.eqb_eq in E; contradiction.
      - rewrite H. reflexivity.
      - apply orb_true_iff. right. apply Z.ltb_lt. lia. }
    unfold encode_offset32. rewrite Hg. reflexivity.
  - destruct (Z.eqb_spec (vsize f) 8) as [E8|E8]; [|reflexivity].
    assert (Hg : (bits f =? 0) || (vsize f * 8 <? bits f) = true).
    { destruct H as [(_ & _ & _ & H8) | [H | H]]; [contradiction | rewrite H; reflexivity |].
      apply orb_true_iff. right. apply Z.ltb_lt. lia. }
    unfold encode_offset64. rewrite Hg. reflexivity.
Qed.

(* every field value of a signed contiguous format is the encoding of exactly the offset the decoder assigns to it *)
Theorem signed_surjective f r :
  ty f = SignedOffset -> wf_contig f -> bits f + discard f <= 64 -> 0 <= r < 2 ^ bits f ->
  let off := decode_signed f (r * 2 ^ shift f) in
  int64 off /\ encode_offset f off = Some (r * 2 ^ shift f).
Proof.
  intros Hty Hwf Hbd Hr off. pose proof Hwf as (Hv & Hb & Hs & Hfit & Hd).
  subst off. unfold decode_signed. rewrite field_raw_of_encoded by lia.
  rewrite sext_is_sextz.
  pose proof (sextz_range (bits f) r Hb) as Hsr.
  pose proof (pow2_pos (discard f) ltac:(lia)) as Hpd. pose proof (pow2_pos (bits f - 1) ltac:(lia)) as Hpb.
  assert (Hi : int64 (sextz (bits f) r * 2 ^ discard f)).
  { unfold int64. assert (Hp : 2 ^ (bits f - 1) * 2 ^ discard f <= 2 ^ 63).
    { rewrite <- Z.pow_add_r by lia. apply pow2_le. lia. }
    nia. }
  split; [exact Hi|].
  pose proof (signed_spec f (sextz (bits f) r * 2 ^ discard f) Hty Hwf Hi) as Hspec.
  assert (Hok : signed_ok f (sextz (bits f) r * 2 ^ discard f)).
  { unfold signed_ok. rewrite mul_pow2_mod, mul_pow2_div by lia. split; [reflexivity | exact Hsr]. }
  destruct (encode_offset f (sextz (bits f) r * 2 ^ discard f)) as [m|]; [|contradiction].
  destruct Hspec as (_ & ->). rewrite mul_pow2_div by lia. rewrite sextz_mod_id by lia.
  rewrite Z.mod_small by lia. reflexivity.
Qed.

Theorem unsigned_surjective f r :
  ty f = UnsignedOffset -> wf_contig32 f -> 0 <= r < 2 ^ bits f ->
  let off := decode_unsigned f (r * 2 ^ shift f) in
  int64 off /\ encode_offset f off = Some (r * 2 ^ shift f).
Proof.
  intros Hty Hwf Hr off. pose proof Hwf as (Hv & Hb & Hs & Hfit & Hd).
  subst off. unfold decode_unsigned. rewrite field_raw_of_encoded by lia.
  pose proof (pow2_pos (discard f) ltac:(lia)) as Hpd.
  assert (Hb32 : bits f <= 32) by (destruct Hv as [H|[H|H]]; rewrite H in *; lia).
  assert (Hi : int64 (r * 2 ^ discard f)).
  { unfold int64. pose proof (pow2_le (bits f) 32 ltac:(lia)). pose proof (pow2_le (discard f) 31 ltac:(lia)).
    change (2 ^ 32) with 4294967296 in *. change (2 ^ 31) with 2147483648 in *. change (2 ^ 63) with 9223372036854775808. nia. }
  split; [exact Hi|].
  pose proof (unsigned32_spec f (r * 2 ^ discard f) Hty Hwf Hi) as Hspec.
  assert (Hok : unsigned_ok f (r * 2 ^ discard f)).
  { unfold unsigned_ok. rewrite mul_pow2_mod, mul_pow2_div by lia. split; [reflexivity | exact Hr]. }
  destruct (encode_offset f (r * 2 ^ discard f)) as [m|]; [|contradiction].
  destruct Hspec as (_ & ->). rewrite mul_pow2_div by lia. reflexivity.
Qed.

Example completeness_witness :
  let f := {| ty := SignedOffset; vsize := 4; bits := 19; shift := 5; discard := 2 |} in
  wf_contig f /\ decode_signed f (524287 * 2 ^ 5) = -4 /\ encode_offset f (-4) = Some (524287 * 2 ^ 5) /\
  encode_offset {| ty := SignedOffset; vsize := 3; bits := 8; shift := 0; discard := 0 |} 0 = None /\
  encode_offset {| ty := A64_ADR; vsize := 4; bits := 40; shift := 5; discard := 0 |} 0 = None.
Proof. cbv zeta. unfold wf_contig. cbn [vsize bits shift discard]. repeat split; try lia; vm_compute; reflexivity. Qed.

(* C17 — the bit-field move class: the manual's PSEUDO-CODE (BfmSemModel.v: DecodeBitMasks(.., FALSE), wmask/tmask, ROR)
   is characterised bit by bit, proved equal to the prose form `ubfm_sem` used by the alias theorems of BitfieldProofs.v,
   and the signed (SBFM) and merging (BFM) aliases the assembler builds are proved to do what their mnemonic says. *)
From Coq Require Import ZArith Lia Bool List.
From Verif Require Import Base.ZBits Codec.ImmModel Codec.ImmProofs Codec.OffsetFormatsProofs Codec.BitfieldModel
  Codec.BitfieldProofs Codec.BfmSemModel.
Local Open Scope Z_scope.

Lemma tb_high a i : 0 <= a -> 0 <= i -> a < 2 ^ i -> Z.testbit a i = false.
Proof. intros Ha Hi H. rewrite Z.testbit_eqb by lia. rewrite Z.div_small by lia. reflexivity. Qed.

Lemma ones_is n : ones n = Z.ones n.
Proof. unfold ones. rewrite Z.ones_equiv. lia. Qed.

Lemma ones_bit n i : 0 <= n -> 0 <= i -> Z.testbit (ones n) i = (i <? n).
Proof. intros Hn Hi. rewrite ones_is. apply Z.testbit_ones_nonneg; assumption. Qed.

Lemma ones_range n m : 0 <= n <= m -> 0 <= ones n < 2 ^ m.
Proof. intros H. unfold ones. pose proof (pow2_pos n ltac:(lia)). pose proof (pow2_le n m ltac:(lia)). lia. Qed.

(* ---------- ROR on an n-bit value, bit by bit ---------- *)
Lemma ror_n_range n v r : 0 <= n -> 0 <= ror_n n v r < 2 ^ n.
Proof. intros Hn. unfold ror_n. apply Z.mod_pos_bound. apply pow2_pos. exact Hn. Qed.

Lemma ror_n_spec n v r i : 0 < n -> 0 <= v < 2 ^ n -> 0 <= i < n ->
  Z.testbit (ror_n n v r) i = Z.testbit v ((i + r) mod n).
Proof.
  intros Hn Hv Hi. unfold ror_n. cbv zeta.
  pose proof (Z.mod_pos_bound r n ltac:(lia)) as Hk. set (k := r mod n) in *.
  replace ((i + r) mod n) with ((i + k) mod n) by (subst k; rewrite Z.add_mod_idemp_r by lia; reflexivity).
  pose proof (pow2_pos k ltac:(lia)) as Hpk.
  assert (Hsplit : 2 ^ n = 2 ^ k * 2 ^ (n - k)) by (rewrite <- Z.pow_add_r by lia; f_equal; lia).
  assert (Ha : 0 <= v / 2 ^ k < 2 ^ (n - k)).
  { split; [apply Z.div_pos; lia|]. apply Z.div_lt_upper_bound; [lia|]. lia. }
  pose proof (Z.mod_pos_bound v (2 ^ k) Hpk) as Hb.
  rewrite <- (lor_disjoint_high (v / 2 ^ k) (v mod 2 ^ k) (n - k)) by lia.
  assert (Hlt : 0 <= Z.lor (v / 2 ^ k) (v mod 2 ^ k * 2 ^ (n - k)) < 2 ^ n).
  { rewrite lor_disjoint_high by lia. split; [pose proof (pow2_pos (n - k) ltac:(lia)); nia|]. nia. }
  rewrite Z.mod_small by exact Hlt.
  rewrite Z.lor_spec.
  destruct (Z_lt_le_dec i (n - k)) as [Hlo|Hhi].
  - rewrite Z.mul_pow2_bits_low by lia. rewrite orb_false_r.
    rewrite <- Z.shiftr_div_pow2 by lia. rewrite Z.shiftr_spec by lia.
    rewrite Z.mod_small by lia. reflexivity.
  - rewrite (tb_high (v / 2 ^ k) i) by (try lia; pose proof (pow2_le (n - k) i ltac:(lia)); lia).
    rewrite orb_false_l. rewrite Z.mul_pow2_bits by lia.
    rewrite Z.mod_pow2_bits_low by lia.
    replace ((i + k) mod n) with (i - (n - k)); [reflexivity|].
    apply (Z.mod_unique (i + k) n 1); lia.
Qed.

(* ---------- DecodeBitMasks(N = sf, imms, immr, FALSE): one element of the register size ---------- *)
Lemma len_sweep :
  forallb (fun s => (highest_set_bit 7 (1 * 64 + (63 - s mod 64)) =? 6) &&
                    ((32 <=? s) || (highest_set_bit 7 (0 * 64 + (63 - s mod 64)) =? 5))) (zrange 64) = true.
Proof. vm_compute. reflexivity. Qed.

Lemma land_small x k : 0 <= k -> 0 <= x < 2 ^ k -> Z.land x (2 ^ k - 1) = x.
Proof.
  intros Hk Hx. replace (2 ^ k - 1) with (Z.ones k) by (rewrite Z.ones_equiv; lia).
  rewrite Z.land_ones by lia. apply Z.mod_small. exact Hx.
Qed.

Theorem masks_spec size immr imms : size_ok size -> 0 <= immr < size -> 0 <= imms < size ->
  decode_bit_masks_f size (immN_of size) imms immr =
  Some (ror_n size (ones (imms + 1)) immr, ones ((imms - immr) mod size + 1)).
Proof.
  intros Hs Hr Hi. pose proof len_sweep as H. rewrite forallb_forall in H.
  specialize (H imms (zrange_in 64 imms ltac:(destruct Hs; lia))). apply andb_true_iff in H. destruct H as [H64 H32].
  unfold decode_bit_masks_f. destruct Hs as [-> | ->].
  - apply orb_true_iff in H32. destruct H32 as [H32|H32]; [apply Z.leb_le in H32; lia|]. apply Z.eqb_eq in H32.
    change (immN_of 32) with 0. rewrite H32.
    change (5 <? 1) with false. change (2 ^ 5 >? 32) with false. cbv iota zeta.
    change (2 ^ 5) with 32. change (Z.to_nat (32 / 32)) with 1%nat. cbn [replicate_bits].
    change (32 - 1) with (2 ^ 5 - 1). rewrite !land_small by (change (2 ^ 5) with 32; lia).
    change (2 ^ 5) with 32. f_equal. f_equal; lia.
  - apply Z.eqb_eq in H64. change (immN_of 64) with 1. rewrite H64.
    change (6 <? 1) with false. change (2 ^ 6 >? 64) with false. cbv iota zeta.
    change (2 ^ 6) with 64. change (Z.to_nat (64 / 64)) with 1%nat. cbn [replicate_bits].
    change (64 - 1) with (2 ^ 6 - 1). rewrite !land_small by (change (2 ^ 6) with 64; lia).
    change (2 ^ 6) with 64. f_equal. f_equal; lia.
Qed.

Definition wmask_of (size r s : Z) : Z := ror_n size (ones (s + 1)) r.
Definition tmask_of (size r s : Z) : Z := ones ((s - r) mod size + 1).

Lemma wmask_bit size r s i : 0 < size -> 0 <= r < size -> 0 <= s < size -> 0 <= i < size ->
  Z.testbit (wmask_of size r s) i = ((i + r) mod size <? s + 1).
Proof.
  intros Hs Hr Hi Hii. unfold wmask_of. rewrite ror_n_spec by (try lia; apply ones_range; lia).
  apply ones_bit; [lia|]. apply Z.mod_pos_bound. lia.
Qed.

Lemma tmask_bit size r s i : 0 < size -> 0 <= i ->
  Z.testbit (tmask_of size r s) i = (i <? (s - r) mod size + 1).
Proof.
  intros Hs Hi. unfold tmask_of. apply ones_bit; [|lia]. pose proof (Z.mod_pos_bound (s - r) size Hs). lia.
Qed.

Lemma modsize_lo size x : 0 <= x < size -> x mod size = x.
Proof. intros H. apply Z.mod_small. exact H. Qed.
Lemma modsize_hi size x : size <= x < 2 * size -> x mod size = x - size.
Proof. intros H. symmetry. apply (Z.mod_unique x size 1); lia. Qed.
Lemma modsize_neg size x : - size <= x < 0 -> x mod size = x + size.
Proof. intros H. symmetry. apply (Z.mod_unique x size (-1)); lia. Qed.

(* ---------- UBFM: pseudo-code = prose form ---------- *)
Theorem ubfm_pc_is_sem size r s src : size_ok size -> 0 <= r < size -> 0 <= s < size -> 0 <= src < 2 ^ size ->
  ubfm_pc size r s src = Some (ubfm_sem size r s src).
Proof.
  intros Hso Hr Hs Hsrc. assert (Hsz : 0 < size) by (destruct Hso; lia).
  unfold ubfm_pc. rewrite masks_spec by assumption. f_equal.
  fold (wmask_of size r s). fold (tmask_of size r s).
  apply Z.bits_inj'. intros i Hi. rewrite !Z.land_spec, tmask_bit by lia.
  unfold ubfm_sem.
  destruct (Z.leb_spec r s) as [Hrs|Hrs].
  - (* extract *)
    rewrite (modsize_lo size (s - r)) by lia.
    destruct (Z.ltb_spec i (s - r + 1)) as [Hlt|Hge].
    + rewrite wmask_bit, ror_n_spec by lia. rewrite (modsize_lo size (i + r)) by lia.
      replace (i + r <? s + 1) with true by (symmetry; apply Z.ltb_lt; lia).
      rewrite !andb_true_r. rewrite Z.mod_pow2_bits_low by lia.
      rewrite Z.div_pow2_bits by lia. reflexivity.
    + rewrite andb_false_r. rewrite Z.mod_pow2_bits_high by lia. reflexivity.
  - (* insert *)
    rewrite (modsize_neg size (s - r)) by lia.
    destruct (Z_lt_le_dec i size) as [Hin|Hout].
    2:{ replace (i <? s - r + size + 1) with false by (symmetry; apply Z.ltb_ge; lia).
        rewrite andb_false_r. rewrite Z.mod_pow2_bits_high by lia. reflexivity. }
    rewrite wmask_bit, ror_n_spec by lia.
    rewrite Z.mod_pow2_bits_low by lia. rewrite Z.mul_pow2_bits by lia.
    destruct (Z_lt_le_dec i (size - r)) as [Hl|Hh].
    + rewrite (modsize_lo size (i + r)) by lia.
      replace (i + r <? s + 1) with false by (symmetry; apply Z.ltb_ge; lia).
      rewrite andb_false_r, andb_false_l. rewrite Z.testbit_neg_r by lia. reflexivity.
    + rewrite (modsize_hi size (i + r)) by lia.
      replace (i - (size - r)) with (i + r - size) by lia.
      destruct (Z.ltb_spec (i + r - size) (s + 1)) as [Hf|Hf].
      * replace (i <? s - r + size + 1) with true by (symmetry; apply Z.ltb_lt; lia).
        rewrite !andb_true_r. rewrite Z.mod_pow2_bits_low by lia. reflexivity.
      * rewrite andb_false_r, andb_false_l. rewrite Z.mod_pow2_bits_high by lia. reflexivity.
Qed.

(* ---------- SBFM / BFM: the pseudo-code bit by bit ---------- *)
Lemma small_of_bits v size : 0 <= size -> 0 <= v -> (forall i, size <= i -> Z.testbit v i = false) -> v < 2 ^ size.
Proof.
  intros Hs Hv H. destruct (Z_lt_le_dec v (2 ^ size)) as [|Hge]; [assumption|exfalso].
  pose proof (pow2_pos size Hs) as Hp.
  assert (Hl : size <= Z.log2 v) by (apply Z.log2_le_pow2; lia).
  pose proof (Z.bit_log2 v ltac:(lia)) as Hb. rewrite (H _ Hl) in Hb. discriminate.
Qed.

Lemma notm_bit size x i : 0 <= size -> 0 <= x < 2 ^ size -> 0 <= i ->
  Z.testbit (notm size x) i = negb (Z.testbit x i) && (i <? size).
Proof.
  intros Hs Hx Hi. unfold notm, ones.
  assert (E : 2 ^ size - 1 - x = (Z.lnot x) mod 2 ^ size).
  { unfold Z.lnot. apply (Z.mod_unique (Z.pred (- x)) (2 ^ size) (-1)); lia. }
  rewrite E. destruct (Z.ltb_spec i size).
  - rewrite Z.mod_pow2_bits_low by lia. rewrite Z.lnot_spec by lia. rewrite andb_true_r. reflexivity.
  - rewrite Z.mod_pow2_bits_high by lia. rewrite andb_false_r. reflexivity.
Qed.

Lemma wmask_range size r s : 0 <= size -> 0 <= wmask_of size r s < 2 ^ size.
Proof. intros H. apply ror_n_range. exact H. Qed.
Lemma tmask_range size r s : 0 < size -> 0 <= tmask_of size r s < 2 ^ size.
Proof.
  intros H. unfold tmask_of. pose proof (Z.mod_pos_bound (s - r) size H). apply ones_range. lia.
Qed.

Theorem sbfm_pc_bits size r s src : size_ok size -> 0 <= r < size -> 0 <= s < size -> 0 <= src < 2 ^ size ->
  exists v, sbfm_pc size r s src = Some v /\ 0 <= v < 2 ^ size /\
    forall i, 0 <= i < size ->
      Z.testbit v i = if i <? (s - r) mod size + 1
                      then Z.testbit src ((i + r) mod size) && ((i + r) mod size <? s + 1)
                      else Z.testbit src s.
Proof.
  intros Hso Hr Hs Hsrc. assert (Hsz : 0 < size) by (destruct Hso; lia).
  unfold sbfm_pc. rewrite masks_spec by assumption. cbv zeta.
  fold (wmask_of size r s). fold (tmask_of size r s).
  eexists. split; [reflexivity|].
  pose proof (tmask_range size r s Hsz) as HT. pose proof (wmask_range size r s ltac:(lia)) as HW.
  pose proof (ror_n_range size src r ltac:(lia)) as HR.
  assert (Htop : 0 <= (if Z.testbit src s then ones size else 0) < 2 ^ size).
  { destruct (Z.testbit src s); [apply ones_range; lia | pose proof (pow2_pos size ltac:(lia)); lia]. }
  assert (Hbits : forall i, 0 <= i ->
    Z.testbit (Z.lor (Z.land (if Z.testbit src s then ones size else 0) (notm size (tmask_of size r s)))
                     (Z.land (Z.land (ror_n size src r) (wmask_of size r s)) (tmask_of size r s))) i =
    if i <? size then (if i <? (s - r) mod size + 1
                       then Z.testbit src ((i + r) mod size) && ((i + r) mod size <? s + 1) else Z.testbit src s)
    else false).
  { intros i Hi. rewrite Z.lor_spec, !Z.land_spec, notm_bit, tmask_bit by lia.
    pose proof (Z.mod_pos_bound (s - r) size Hsz) as Hd.
    destruct (Z.ltb_spec i size) as [Hin|Hout].
    - rewrite wmask_bit, ror_n_spec by lia.
      assert (Et : Z.testbit (if Z.testbit src s then ones size else 0) i = Z.testbit src s).
      { destruct (Z.testbit src s); [rewrite ones_bit by lia; apply Z.ltb_lt; lia | apply Z.bits_0]. }
      rewrite Et. destruct (i <? (s - r) mod size + 1); cbn [negb andb orb].
      + rewrite andb_false_r, andb_true_r. reflexivity.
      + rewrite andb_true_r, andb_false_r, orb_false_r. reflexivity.
    - replace (i <? (s - r) mod size + 1) with false by (symmetry; apply Z.ltb_ge; lia).
      rewrite !andb_false_r. reflexivity. }
  split.
  - split.
    + apply Z.lor_nonneg. split; apply Z.land_nonneg; left; [lia | apply Z.land_nonneg; left; lia].
    + apply small_of_bits; [lia| |].
      * apply Z.lor_nonneg. split; apply Z.land_nonneg; left; [lia | apply Z.land_nonneg; left; lia].
      * intros i Hi. rewrite Hbits by lia. replace (i <? size) with false by (symmetry; apply Z.ltb_ge; lia). reflexivity.
  - intros i Hi. rewrite Hbits by lia. replace (i <? size) with true by (symmetry; apply Z.ltb_lt; lia). reflexivity.
Qed.

Theorem bfm_pc_bits size r s dst src : size_ok size -> 0 <= r < size -> 0 <= s < size ->
  0 <= dst < 2 ^ size -> 0 <= src < 2 ^ size ->
  exists v, bfm_pc size r s dst src = Some v /\ 0 <= v < 2 ^ size /\
    forall i, 0 <= i < size ->
      Z.testbit v i = if (i <? (s - r) mod size + 1) && ((i + r) mod size <? s + 1)
                      then Z.testbit src ((i + r) mod size) else Z.testbit dst i.
Proof.
  intros Hso Hr Hs Hdst Hsrc. assert (Hsz : 0 < size) by (destruct Hso; lia).
  unfold bfm_pc. rewrite masks_spec by assumption. cbv zeta.
  fold (wmask_of size r s). fold (tmask_of size r s).
  eexists. split; [reflexivity|].
  pose proof (tmask_range size r s Hsz) as HT. pose proof (wmask_range size r s ltac:(lia)) as HW.
  pose proof (ror_n_range size src r ltac:(lia)) as HR.
  set (v := Z.lor (Z.land dst (notm size (tmask_of size r s)))
                  (Z.land (Z.lor (Z.land dst (notm size (wmask_of size r s))) (Z.land (ror_n size src r) (wmask_of size r s)))
                          (tmask_of size r s))).
  assert (Hnn : 0 <= v).
  { subst v. apply Z.lor_nonneg. split; apply Z.land_nonneg; [left; lia | right; lia]. }
  assert (Hbits : forall i, 0 <= i -> Z.testbit v i =
    if i <? size then (if (i <? (s - r) mod size + 1) && ((i + r) mod size <? s + 1)
                       then Z.testbit src ((i + r) mod size) else Z.testbit dst i)
    else false).
  { intros i Hi. subst v. rewrite !Z.lor_spec, !Z.land_spec, !Z.lor_spec, !Z.land_spec, !notm_bit, tmask_bit by lia.
    pose proof (Z.mod_pos_bound (s - r) size Hsz) as Hd.
    destruct (Z.ltb_spec i size) as [Hin|Hout].
    - rewrite wmask_bit, ror_n_spec by lia.
      destruct (i <? (s - r) mod size + 1), ((i + r) mod size <? s + 1), (Z.testbit dst i), (Z.testbit src ((i + r) mod size));
        reflexivity.
    - rewrite (tb_high dst i) by (try lia; pose proof (pow2_le size i ltac:(lia)); lia).
      replace (i <? (s - r) mod size + 1) with false by (symmetry; apply Z.ltb_ge; lia).
      rewrite !andb_false_r. reflexivity. }
  split.
  - split; [exact Hnn|]. apply small_of_bits; [lia|exact Hnn|].
    intros i Hi. rewrite Hbits by lia. replace (i <? size) with false by (symmetry; apply Z.ltb_ge; lia). reflexivity.
  - intros i Hi. rewrite Hbits by lia. replace (i <? size) with true by (symmetry; apply Z.ltb_lt; lia). reflexivity.
Qed.

(* ---------- the signed and merging aliases the assembler builds (fields from encode_bitfield) ---------- *)
(* SBFX Rd, Rn, #lsb, #width : the field, sign-extended *)
Theorem sbfx_correct size lsb width r s src : size_ok size -> 0 <= lsb -> 0 <= width -> 0 <= src < 2 ^ size ->
  encode_bitfield Bfx size lsb width = Some (r, s) ->
  exists v, sbfm_pc size r s src = Some v /\ 0 <= v < 2 ^ size /\
    forall i, 0 <= i < size -> Z.testbit v i = Z.testbit src (if i <? width then i + lsb else lsb + width - 1).
Proof.
  intros Hso Hl Hw Hsrc He. pose proof (bfx_spec size lsb width Hso Hl Hw) as H. rewrite He in H.
  destruct H as (Hwd & -> & -> & Hrs & Hss).
  assert (Hsz : 0 < size) by (destruct Hso; lia).
  destruct (sbfm_pc_bits size lsb (lsb + width - 1) src Hso ltac:(lia) ltac:(lia) Hsrc) as (v & Hv & Hr & Hb).
  exists v. split; [exact Hv|]. split; [exact Hr|]. intros i Hi. rewrite (Hb i Hi).
  rewrite (modsize_lo size (lsb + width - 1 - lsb)) by lia. replace (lsb + width - 1 - lsb + 1) with width by lia.
  destruct (Z.ltb_spec i width); [|reflexivity].
  rewrite (modsize_lo size (i + lsb)) by lia.
  replace (i + lsb <? lsb + width - 1 + 1) with true by (symmetry; apply Z.ltb_lt; lia). apply andb_true_r.
Qed.

(* ASR Rd, Rn, #sh *)
Theorem asr_correct size sh r s src : size_ok size -> 0 <= sh -> 0 <= src < 2 ^ size ->
  encode_bitfield ShLsr size sh 0 = Some (r, s) ->
  exists v, sbfm_pc size r s src = Some v /\ 0 <= v < 2 ^ size /\
    forall i, 0 <= i < size -> Z.testbit v i = Z.testbit src (if i <? size - sh then i + sh else size - 1).
Proof.
  intros Hso Hsh Hsrc He. unfold encode_bitfield in He.
  destruct (Z.leb_spec size sh); [discriminate|]. injection He as <- <-.
  assert (Hsz : 0 < size) by (destruct Hso; lia).
  destruct (sbfm_pc_bits size sh (size - 1) src Hso ltac:(lia) ltac:(lia) Hsrc) as (v & Hv & Hr & Hb).
  exists v. split; [exact Hv|]. split; [exact Hr|]. intros i Hi. rewrite (Hb i Hi).
  rewrite (modsize_lo size (size - 1 - sh)) by lia. replace (size - 1 - sh + 1) with (size - sh) by lia.
  destruct (Z.ltb_spec i (size - sh)); [|reflexivity].
  rewrite (modsize_lo size (i + sh)) by lia.
  replace (i + sh <? size - 1 + 1) with true by (symmetry; apply Z.ltb_lt; lia). apply andb_true_r.
Qed.

(* facts shared by the insert aliases: where the rotated source lands *)
Lemma bfi_fields size lsb width i : 0 < size -> 0 <= lsb < size -> 1 <= width <= size - lsb -> 0 <= i < size ->
  let r := (size - lsb) mod size in let s := width - 1 in
  (i <? (s - r) mod size + 1) = (i <? lsb + width) /\
  (i < lsb -> ((i + r) mod size <? s + 1) = false) /\
  (lsb <= i < lsb + width -> ((i + r) mod size <? s + 1) = true /\ (i + r) mod size = i - lsb).
Proof.
  intros Hsz Hl Hw Hi r s. subst r s.
  destruct (Z.eq_dec lsb 0) as [->|Hne].
  - rewrite Z.sub_0_r, Z.mod_same by lia. rewrite Z.sub_0_r, Z.add_0_r, Z.add_0_l.
    rewrite (modsize_lo size (width - 1)) by lia. rewrite (modsize_lo size i) by lia.
    replace (width - 1 + 1) with width by lia. repeat split; try lia.
  - rewrite (modsize_lo size (size - lsb)) by lia.
    rewrite (modsize_neg size (width - 1 - (size - lsb))) by lia.
    replace (width - 1 - (size - lsb) + size + 1) with (lsb + width) by lia.
    split; [reflexivity|]. split.
    + intros Hlt. rewrite (modsize_lo size (i + (size - lsb))) by lia. apply Z.ltb_ge. lia.
    + intros Hin. rewrite (modsize_hi size (i + (size - lsb))) by lia. split; [apply Z.ltb_lt|]; lia.
Qed.

(* SBFIZ Rd, Rn, #lsb, #width : zero below lsb, the low `width` bits of Rn, then its sign *)
Theorem sbfiz_correct size lsb width r s src : size_ok size -> 0 <= lsb -> 0 <= width -> 0 <= src < 2 ^ size ->
  encode_bitfield Bfi size lsb width = Some (r, s) ->
  exists v, sbfm_pc size r s src = Some v /\ 0 <= v < 2 ^ size /\
    forall i, 0 <= i < size ->
      Z.testbit v i = if i <? lsb then false else Z.testbit src (if i <? lsb + width then i - lsb else width - 1).
Proof.
  intros Hso Hl Hw Hsrc He. pose proof (bfi_spec size lsb width Hso Hl Hw) as H. rewrite He in H.
  destruct H as (Hwd & -> & -> & Hr & Hss & _).
  assert (Hsz : 0 < size) by (destruct Hso; lia).
  destruct (sbfm_pc_bits size ((size - lsb) mod size) (width - 1) src Hso Hr Hss Hsrc) as (v & Hv & Hrg & Hb).
  exists v. split; [exact Hv|]. split; [exact Hrg|]. intros i Hi. rewrite (Hb i Hi).
  destruct (bfi_fields size lsb width i Hsz ltac:(lia) ltac:(lia) Hi) as (Et & Elo & Ein). cbv zeta in Et, Elo, Ein.
  rewrite Et. destruct (Z.ltb_spec i lsb) as [Hlo|Hhi].
  - replace (i <? lsb + width) with true by (symmetry; apply Z.ltb_lt; lia).
    rewrite (Elo Hlo). apply andb_false_r.
  - destruct (Z.ltb_spec i (lsb + width)) as [Hin|Hout]; [|reflexivity].
    destruct (Ein ltac:(lia)) as (-> & ->). apply andb_true_r.
Qed.

(* BFXIL Rd, Rn, #lsb, #width : the field of Rn replaces the low `width` bits of Rd *)
Theorem bfxil_correct size lsb width r s dst src : size_ok size -> 0 <= lsb -> 0 <= width ->
  0 <= dst < 2 ^ size -> 0 <= src < 2 ^ size ->
  encode_bitfield Bfx size lsb width = Some (r, s) ->
  exists v, bfm_pc size r s dst src = Some v /\ 0 <= v < 2 ^ size /\
    forall i, 0 <= i < size -> Z.testbit v i = if i <? width then Z.testbit src (i + lsb) else Z.testbit dst i.
Proof.
  intros Hso Hl Hw Hdst Hsrc He. pose proof (bfx_spec size lsb width Hso Hl Hw) as H. rewrite He in H.
  destruct H as (Hwd & -> & -> & Hrs & Hss).
  assert (Hsz : 0 < size) by (destruct Hso; lia).
  destruct (bfm_pc_bits size lsb (lsb + width - 1) dst src Hso ltac:(lia) ltac:(lia) Hdst Hsrc) as (v & Hv & Hr & Hb).
  exists v. split; [exact Hv|]. split; [exact Hr|]. intros i Hi. rewrite (Hb i Hi).
  rewrite (modsize_lo size (lsb + width - 1 - lsb)) by lia. replace (lsb + width - 1 - lsb + 1) with width by lia.
  destruct (Z.ltb_spec i width); cbn [andb]; [|reflexivity].
  rewrite (modsize_lo size (i + lsb)) by lia.
  replace (i + lsb <? lsb + width - 1 + 1) with true by (symmetry; apply Z.ltb_lt; lia). reflexivity.
Qed.

(* BFI Rd, Rn, #lsb, #width (and BFC = BFI from the zero register): the low `width` bits of Rn replace Rd<lsb+width-1:lsb> *)
Theorem bfi_correct size lsb width r s dst src : size_ok size -> 0 <= lsb -> 0 <= width ->
  0 <= dst < 2 ^ size -> 0 <= src < 2 ^ size ->
  encode_bitfield Bfi size lsb width = Some (r, s) ->
  exists v, bfm_pc size r s dst src = Some v /\ 0 <= v < 2 ^ size /\
    forall i, 0 <= i < size ->
      Z.testbit v i = if (lsb <=? i) && (i <? lsb + width) then Z.testbit src (i - lsb) else Z.testbit dst i.
Proof.
  intros Hso Hl Hw Hdst Hsrc He. pose proof (bfi_spec size lsb width Hso Hl Hw) as H. rewrite He in H.
  destruct H as (Hwd & -> & -> & Hr & Hss & _).
  assert (Hsz : 0 < size) by (destruct Hso; lia).
  destruct (bfm_pc_bits size ((size - lsb) mod size) (width - 1) dst src Hso Hr Hss Hdst Hsrc) as (v & Hv & Hrg & Hb).
  exists v. split; [exact Hv|]. split; [exact Hrg|]. intros i Hi. rewrite (Hb i Hi).
  destruct (bfi_fields size lsb width i Hsz ltac:(lia) ltac:(lia) Hi) as (Et & Elo & Ein). cbv zeta in Et, Elo, Ein.
  rewrite Et. destruct (Z.leb_spec lsb i) as [Hhi|Hlo]; cbn [andb].
  - destruct (Z.ltb_spec i (lsb + width)) as [Hin|Hout]; cbn [andb]; [|reflexivity].
    destruct (Ein ltac:(lia)) as (-> & ->). reflexivity.
  - rewrite (Elo Hlo). rewrite andb_false_r. reflexivity.
Qed.

(* BFC Rd, #lsb, #width = BFI from the zero register: the field is cleared, everything else kept *)
Corollary bfc_correct size lsb width r s dst : size_ok size -> 0 <= lsb -> 0 <= width -> 0 <= dst < 2 ^ size ->
  encode_bitfield Bfi size lsb width = Some (r, s) ->
  exists v, bfm_pc size r s dst 0 = Some v /\ 0 <= v < 2 ^ size /\
    forall i, 0 <= i < size -> Z.testbit v i = if (lsb <=? i) && (i <? lsb + width) then false else Z.testbit dst i.
Proof.
  intros Hso Hl Hw Hdst He.
  assert (H0 : 0 <= 0 < 2 ^ size) by (split; [lia | apply pow2_pos; destruct Hso; lia]).
  destruct (bfi_correct size lsb width r s dst 0 Hso Hl Hw Hdst H0 He) as (v & Hv & Hr & Hb).
  exists v. split; [exact Hv|]. split; [exact Hr|]. intros i Hi. rewrite (Hb i Hi). rewrite Z.bits_0. reflexivity.
Qed.

(* ROR #shift through EXTR Rd, Rn, Rn, #shift: the extract of Rn:Rn is the rotation *)
Theorem ror_extr_correct size sh imms src : size_ok size -> 0 <= sh -> 0 <= src < 2 ^ size ->
  encode_ror_imm size sh = Some imms ->
  imms = sh /\ 0 <= imms < size /\ extr_pc size src src imms = ror_n size src sh.
Proof.
  intros Hso Hsh Hsrc He. unfold encode_ror_imm in He.
  destruct (Z.leb_spec size sh); [discriminate|]. injection He as <-.
  assert (Hsz : 0 < size) by (destruct Hso; lia).
  split; [reflexivity|]. split; [lia|].
  unfold extr_pc, ror_n. cbv zeta. rewrite (Z.mod_small sh size) by lia.
  pose proof (pow2_pos sh Hsh) as Hp. pose proof (pow2_pos (size - sh) ltac:(lia)) as Hq.
  assert (Hs : 2 ^ size = 2 ^ (size - sh) * 2 ^ sh) by (rewrite <- Z.pow_add_r by lia; f_equal; lia).
  (* (src * 2^size + src) / 2^sh = src * 2^(size-sh) + src / 2^sh *)
  rewrite Hs at 1. rewrite Z.mul_assoc, Z.add_comm, Z.div_add by lia.
  (* modulo 2^size only the low sh bits of src survive in the first summand *)
  rewrite (Z.div_mod src (2 ^ sh)) at 2 by lia.
  replace ((2 ^ sh * (src / 2 ^ sh) + src mod 2 ^ sh) * 2 ^ (size - sh))
    with (src mod 2 ^ sh * 2 ^ (size - sh) + (src / 2 ^ sh) * (2 ^ sh * 2 ^ (size - sh))) by ring.
  replace (2 ^ sh * 2 ^ (size - sh)) with (2 ^ size) by (rewrite <- Z.pow_add_r by lia; f_equal; lia).
  rewrite Z.add_assoc, Z.mod_add by lia. reflexivity.
Qed.

Example ror_extr_witness : extr_pc 32 0x80000001 0x80000001 1 = 0xC0000000 /\ encode_ror_imm 64 64 = None /\ encode_ror_imm 64 63 = Some 63.
Proof. repeat split; vm_compute; reflexivity. Qed.

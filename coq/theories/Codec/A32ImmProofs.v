(* C17 — A32 modified immediates (arm::Utils::encode_aarch32_imm) and the A32_ADR offset format.

   * a32_imm_sound     : for EVERY value v >= 0, encode_aarch32_imm v = Some e -> ARMExpandImm(e) = v and e < 2^12
                         (rotation algebra on bits: ror32_spec / ror32_ror32; NO property of ctz32 is needed beyond
                         0 <= ctz32 x <= 32, because any even rotation that leaves a byte is a valid encoding)
   * a32_imm_complete  : every one of the 4096 encodings expands to a value the encoder accepts (finite, vm_compute)
   * a32_imm_refused_iff
   * a32_adr_roundtrip / a32_adr_refused_iff : the A32_ADR OffsetType (magnitude as modified immediate, ADD/SUB form) *)
From Coq Require Import ZArith Lia Bool List.
From Verif Require Import Base.ZBits Codec.OffsetModel Codec.OffsetProofs Codec.ImmProofs Codec.OffsetFormatsProofs.
Import ListNotations.
Local Open Scope Z_scope.

(* ---------- rotation on bits ---------- *)
Lemma ror32_range v n : 0 <= ror32 v n < 2 ^ 32.
Proof. unfold ror32. apply Z.mod_pos_bound. reflexivity. Qed.

Lemma testbit_high_false a i : 0 <= a -> 0 <= i -> a < 2 ^ i -> Z.testbit a i = false.
Proof. intros Ha Hi H. rewrite Z.testbit_eqb by lia. rewrite Z.div_small by lia. reflexivity. Qed.

Lemma ror32_spec v n i : 0 <= v < 2 ^ 32 -> 0 <= i < 32 ->
  Z.testbit (ror32 v n) i = Z.testbit v ((i + n) mod 32).
Proof.
  intros Hv Hi. unfold ror32. cbv zeta.
  pose proof (Z.mod_pos_bound n 32 ltac:(lia)) as Hk. set (k := n mod 32) in *.
  replace ((i + n) mod 32) with ((i + k) mod 32) by (subst k; rewrite Z.add_mod_idemp_r by lia; reflexivity).
  pose proof (pow2_pos k ltac:(lia)) as Hpk.
  assert (Ha : 0 <= v / 2 ^ k < 2 ^ (32 - k)).
  { split; [apply Z.div_pos; lia|]. apply Z.div_lt_upper_bound; [lia|]. rewrite <- Z.pow_add_r by lia.
    replace (k + (32 - k)) with 32 by lia. lia. }
  pose proof (Z.mod_pos_bound v (2 ^ k) Hpk) as Hb.
  rewrite <- (lor_disjoint_high (v / 2 ^ k) (v mod 2 ^ k) (32 - k)) by lia.
  assert (Hlt : 0 <= Z.lor (v / 2 ^ k) (v mod 2 ^ k * 2 ^ (32 - k)) < 2 ^ 32).
  { rewrite lor_disjoint_high by lia. split; [pose proof (pow2_pos (32 - k) ltac:(lia)); nia|].
    replace (2 ^ 32) with (2 ^ k * 2 ^ (32 - k)) by (rewrite <- Z.pow_add_r by lia; f_equal; lia). nia. }
  rewrite Z.mod_small by exact Hlt.
  rewrite Z.lor_spec.
  destruct (Z_lt_le_dec i (32 - k)) as [Hlo|Hhi].
  - rewrite Z.mul_pow2_bits_low by lia. rewrite orb_false_r.
    rewrite <- Z.shiftr_div_pow2 by lia. rewrite Z.shiftr_spec by lia.
    rewrite Z.mod_small by lia. reflexivity.
  - rewrite (testbit_high_false (v / 2 ^ k) i) by (try lia; pose proof (pow2_le (32 - k) i ltac:(lia)); lia).
    rewrite orb_false_l. rewrite Z.mul_pow2_bits by lia.
    rewrite Z.mod_pow2_bits_low by lia.
    replace ((i + k) mod 32) with (i - (32 - k)); [reflexivity|].
    apply (Z.mod_unique (i + k) 32 1); lia.
Qed.

Lemma bits_eq_32 a b : 0 <= a < 2 ^ 32 -> 0 <= b < 2 ^ 32 ->
  (forall i, 0 <= i < 32 -> Z.testbit a i = Z.testbit b i) -> a = b.
Proof.
  intros Ha Hb H. apply Z.bits_inj'. intros i Hi.
  destruct (Z_lt_le_dec i 32); [apply H; lia|].
  pose proof (pow2_le 32 i ltac:(lia)).
  rewrite !testbit_high_false by lia. reflexivity.
Qed.

Lemma ror32_ror32 v a b : 0 <= v < 2 ^ 32 -> ror32 (ror32 v a) b = ror32 v (a + b).
Proof.
  intros Hv. apply bits_eq_32; try apply ror32_range.
  intros i Hi. rewrite ror32_spec by (try apply ror32_range; lia).
  rewrite ror32_spec by (try lia; apply Z.mod_pos_bound; lia).
  rewrite ror32_spec by lia. f_equal.
  rewrite Z.add_mod_idemp_l by lia. f_equal. lia.
Qed.

Lemma ror32_mult32 v n : 0 <= v < 2 ^ 32 -> n mod 32 = 0 -> ror32 v n = v.
Proof.
  intros Hv Hn. apply bits_eq_32; [apply ror32_range | exact Hv |].
  intros i Hi. rewrite ror32_spec by lia. f_equal.
  rewrite <- Z.add_mod_idemp_r, Hn by lia. rewrite Z.add_0_r. apply Z.mod_small. lia.
Qed.

(* ---------- the rotation amounts the encoder computes: finite facts (33 x 2 cases) ---------- *)
Lemma ctz32_bound v : 0 <= ctz32 v <= 32.
Proof.
  unfold ctz32.
  assert (H : forall fuel v acc, acc <= OffsetModel.ctz_fuel fuel v acc <= acc + Z.of_nat fuel).
  { induction fuel as [|f IH]; intros x acc; cbn [OffsetModel.ctz_fuel].
    - change (Z.of_nat 0) with 0. lia.
    - rewrite Nat2Z.inj_succ. destruct (Z.odd x); [lia|]. specialize (IH (x / 2) (acc + 1)). lia. }
  pose proof (H 32%nat v 0) as H0. change (Z.of_nat 32) with 32 in H0. lia.
Qed.

Definition rot_ok (c r0 : Z) : bool :=
  let n := Z.land c (Z.lnot 1) in
  let r := Z.land (wrap 32 (r0 - n)) 30 in
  (0 <=? n) && (n <=? 32) && (0 <=? r) && (r <=? 30) && (r mod 2 =? 0) && ((r0 + n + r) mod 32 =? 0).
Lemma rot_ok_all : forallb (fun c => rot_ok c 0 && rot_ok c 16) (zrange 33) = true.
Proof. vm_compute. reflexivity. Qed.

Lemma rot_facts c r0 : 0 <= c <= 32 -> (r0 = 0 \/ r0 = 16) ->
  let n := Z.land c (Z.lnot 1) in
  let r := Z.land (wrap 32 (r0 - n)) 30 in
  0 <= n <= 32 /\ 0 <= r <= 30 /\ r mod 2 = 0 /\ (r0 + n + r) mod 32 = 0.
Proof.
  intros Hc Hr0. pose proof rot_ok_all as H. rewrite forallb_forall in H.
  specialize (H c (zrange_in 33 c ltac:(lia))). apply andb_true_iff in H. destruct H as [H0 H16].
  assert (Hk : rot_ok c r0 = true) by (destruct Hr0 as [-> | ->]; assumption).
  unfold rot_ok in Hk. cbv zeta in *.
  repeat (apply andb_true_iff in Hk; destruct Hk as [Hk ?]).
  repeat match goal with
         | H : (_ <=? _) = true |- _ => apply Z.leb_le in H
         | H : (_ =? _) = true |- _ => apply Z.eqb_eq in H
         end.
  repeat split; assumption.
Qed.

(* ---------- soundness for every value ---------- *)
Theorem a32_imm_sound v e : 0 <= v -> encode_aarch32_imm v = Some e -> arm_expand_imm e = v /\ 0 <= e < 2 ^ 12.
Proof.
  intros Hv He. unfold encode_aarch32_imm in He.
  destruct (Z.leb_spec (2 ^ 32) v) as [|Hlt]; [discriminate|].
  destruct (Z.leb_spec v 255) as [Hsmall|Hbig].
  { apply some_inj in He. subst e. split; [|change (2 ^ 12) with 4096; lia].
    unfold arm_expand_imm. rewrite (Z.mod_small v 256) by lia. rewrite (Z.div_small v 256) by lia.
    change (2 * (0 mod 16)) with 0. apply ror32_mult32; [lia | reflexivity]. }
  set (p := if Z.land v 4278190335 =? 0 then (v, 0) else (ror32 v 16, 16)) in He.
  assert (Hp : exists r0, (r0 = 0 \/ r0 = 16) /\ p = (ror32 v r0, r0)).
  { subst p. destruct (Z.land v 4278190335 =? 0).
    - exists 0. split; [left; reflexivity|]. f_equal. symmetry. apply ror32_mult32; [lia | reflexivity].
    - exists 16. split; [right; reflexivity | reflexivity]. }
  destruct Hp as (r0 & Hr0 & ->). cbv iota beta zeta in He.
  set (v1 := ror32 v r0) in *.
  pose proof (ror32_range v r0) as Hv1. fold v1 in Hv1.
  destruct (rot_facts (ctz32 v1) r0 (ctz32_bound v1) Hr0) as (Hn & Hr & Hre & Hsum). cbv zeta in Hn, Hr, Hre, Hsum.
  set (n := Z.land (ctz32 v1) (Z.lnot 1)) in *.
  set (r := Z.land (wrap 32 (r0 - n)) 30) in *.
  destruct (Z.ltb_spec 255 (ror32 v1 n)) as [|Hb]; [discriminate|].
  apply some_inj in He. subst e.
  pose proof (ror32_range v1 n) as Hv2. set (b := ror32 v1 n) in *.
  change (2 ^ 7) with 128. change (2 ^ 12) with 4096.
  assert (Eb : (b + r * 128) mod 256 = b) by (Z.div_mod_to_equations; lia).
  assert (Er : 2 * (((b + r * 128) / 256) mod 16) = r) by (Z.div_mod_to_equations; lia).
  split; [|lia].
  unfold arm_expand_imm. rewrite Eb, Er. subst b v1.
  rewrite !ror32_ror32 by (try lia; apply ror32_range).
  apply ror32_mult32; [lia|]. rewrite Z.add_assoc. exact Hsum.
Qed.

(* ---------- completeness over all 4096 encodings ---------- *)
Definition a32_imm_check (imm12 : Z) : bool :=
  match encode_aarch32_imm (arm_expand_imm imm12) with
  | Some e => arm_expand_imm e =? arm_expand_imm imm12
  | None => false
  end.
Lemma a32_imm_sweep : forallb a32_imm_check (zrange 4096) = true.
Proof. vm_compute. reflexivity. Qed.

Theorem a32_imm_complete imm12 : 0 <= imm12 < 4096 ->
  exists e, encode_aarch32_imm (arm_expand_imm imm12) = Some e /\ arm_expand_imm e = arm_expand_imm imm12.
Proof.
  intros H. pose proof a32_imm_sweep as Hs. rewrite forallb_forall in Hs. specialize (Hs imm12 (zrange_in 4096 imm12 H)).
  unfold a32_imm_check in Hs. destruct (encode_aarch32_imm (arm_expand_imm imm12)) as [e|]; [|discriminate].
  exists e. split; [reflexivity|]. apply Z.eqb_eq. exact Hs.
Qed.

Theorem a32_imm_refused_iff v : 0 <= v ->
  (encode_aarch32_imm v = None <-> ~ exists imm12, 0 <= imm12 < 4096 /\ arm_expand_imm imm12 = v).
Proof.
  intros Hv. split.
  - intros Hn (i & Hi & <-). destruct (a32_imm_complete i Hi) as (e & He & _). congruence.
  - intros Hne. destruct (encode_aarch32_imm v) as [e|] eqn:He; [|reflexivity].
    exfalso. apply Hne. destruct (a32_imm_sound v e Hv He) as (Hx & Hr). exists e.
    change (2 ^ 12) with 4096 in Hr. split; assumption.
Qed.

(* ---------- the A32_ADR offset format ---------- *)
Definition is_a32_adr_fmt (f : fmt) : Prop :=
  ty f = A32_ADR /\ vsize f = 4 /\ 0 < bits f <= 32 /\ 0 <= shift f /\ shift f + 12 <= 22 /\ 0 <= discard f <= 31.

Lemma a32_adr_pack f e u : 0 <= shift f -> shift f + 12 <= 22 -> 0 <= e < 2 ^ 12 -> (u = 0 \/ u = 1) ->
  let m := Z.lor (wrap 32 (2 ^ 22 * 2 ^ u)) (wrap 32 (e * 2 ^ shift f)) in
  0 <= m < 2 ^ 32 /\ decode_a32_adr f m = if u =? 1 then arm_expand_imm e else - arm_expand_imm e.
Proof.
  intros Hs Hfit He Hu m.
  pose proof (mul_pow2_bound e 12 (shift f) Hs ltac:(lia) He) as Heb.
  pose proof (pow2_le (12 + shift f) 22 ltac:(lia)) as Hle.
  pose proof (pow2_pos (shift f) Hs) as Hps.
  assert (Em : m = e * 2 ^ shift f + 2 ^ (22 + u)).
  { subst m. unfold wrap. rewrite <- Z.pow_add_r by lia.
    assert (H1 : 0 <= 2 ^ (22 + u) < 2 ^ 32) by (destruct Hu as [-> | ->]; split; (reflexivity || discriminate)).
    rewrite (Z.mod_small (2 ^ (22 + u))) by exact H1.
    rewrite (Z.mod_small (e * 2 ^ shift f)) by (change (2 ^ 22) with 4194304 in Hle; change (2 ^ 32) with 4294967296; lia).
    rewrite Z.lor_comm. replace (2 ^ (22 + u)) with (1 * 2 ^ (22 + u)) by lia.
    apply lor_disjoint_high; [lia | | lia]. pose proof (pow2_le 22 (22 + u) ltac:(lia)). lia. }
  change (2 ^ 22) with 4194304 in Hle.
  assert (Hm : 0 <= m < 2 ^ 32).
  { rewrite Em. change (2 ^ 32) with 4294967296. destruct Hu as [-> | ->]; [change (2 ^ (22 + 0)) with 4194304 | change (2 ^ (22 + 1)) with 8388608]; lia. }
  split; [exact Hm|].
  unfold decode_a32_adr, bitz. rewrite Em.
  assert (E1 : ((e * 2 ^ shift f + 2 ^ (22 + u)) / 2 ^ shift f) mod 4096 = e).
  { rewrite (pow2_split (shift f) (22 + u)) by lia.
    replace (e * 2 ^ shift f + 2 ^ shift f * 2 ^ (22 + u - shift f)) with ((e + 2 ^ (22 + u - shift f)) * 2 ^ shift f) by ring.
    rewrite mul_pow2_div by lia. change 4096 with (2 ^ 12).
    rewrite (pow2_split 12 (22 + u - shift f)) by lia.
    replace (e + 2 ^ 12 * 2 ^ (22 + u - shift f - 12)) with (e + 2 ^ (22 + u - shift f - 12) * 2 ^ 12) by ring.
    rewrite Z.mod_add by (change (2 ^ 12) with 4096; lia). apply Z.mod_small. exact He. }
  rewrite E1.
  change (2 ^ 22) with 4194304. change (2 ^ 23) with 8388608.
  set (X := e * 2 ^ shift f) in *.
  assert (HX : 0 <= X < 4194304) by lia.
  destruct Hu as [-> | ->].
  - change (2 ^ (22 + 0)) with 4194304.
    assert (E2 : ((X + 4194304) / 4194304) mod 2 = 1) by (Z.div_mod_to_equations; lia).
    assert (E3 : ((X + 4194304) / 8388608) mod 2 = 0) by (Z.div_mod_to_equations; lia).
    rewrite E2, E3. reflexivity.
  - change (2 ^ (22 + 1)) with 8388608.
    assert (E2 : ((X + 8388608) / 4194304) mod 2 = 0) by (Z.div_mod_to_equations; lia).
    rewrite E2. reflexivity.
Qed.

Theorem a32_adr_roundtrip f off m :
  is_a32_adr_fmt f -> int64 off -> encode_offset f off = Some m ->
  decode_a32_adr f m * 2 ^ discard f = off /\ 0 <= m < 2 ^ 32.
Proof.
  intros (Hty & Hv & Hb & Hs & Hfit & Hd) Hoff He.
  unfold encode_offset in He. rewrite Hv in He. cbn [Z.eqb Pos.eqb orb] in He.
  rewrite signbit_spec in He by (rewrite ?Hty, ?Hv; (reflexivity || lia || assumption)).
  destruct ((Z.abs off mod 2 ^ discard f =? 0) && (Z.abs off / 2 ^ discard f <? 2 ^ bits f)) eqn:Eacc; [|discriminate].
  apply abs_accept in Eacc; [|lia|lia]. destruct Eacc as (Hr & Hx).
  rewrite Hty in He. unfold post32 in He.
  set (v := Z.abs off / 2 ^ discard f) in *.
  destruct (encode_aarch32_imm v) as [e|] eqn:Ee; [|discriminate].
  destruct (a32_imm_sound v e ltac:(lia) Ee) as (Hexp & Her).
  assert (Hu : (if 0 <=? off then 1 else 0) = 0 \/ (if 0 <=? off then 1 else 0) = 1)
    by (destruct (0 <=? off); [right | left]; reflexivity).
  destruct (a32_adr_pack f e _ Hs Hfit Her Hu) as (Hm & Hdec). cbv zeta in Hm, Hdec.
  rewrite Z.mod_small in He by (change (2 ^ (8 * 4)) with (2 ^ 32); exact Hm).
  apply some_inj in He. subst m. split; [|exact Hm]. rewrite Hdec, Hexp.
  destruct (Z.leb_spec 0 off).
  - change (1 =? 1) with true. cbv iota. rewrite Hx. apply Z.abs_eq. lia.
  - change (0 =? 1) with false. cbv iota. rewrite Z.mul_opp_l, Hx. rewrite Z.abs_neq by lia. lia.
Qed.

(* refusal is exact: within the format's bit count, refused iff the magnitude is no ARMExpandImm value *)
Theorem a32_adr_refused_iff f off :
  is_a32_adr_fmt f -> int64 off ->
  (encode_offset f off = None <->
   ~ (Z.abs off mod 2 ^ discard f = 0 /\ Z.abs off / 2 ^ discard f < 2 ^ bits f /\
      exists imm12, 0 <= imm12 < 4096 /\ arm_expand_imm imm12 = Z.abs off / 2 ^ discard f)).
Proof.
  intros (Hty & Hv & Hb & Hs & Hfit & Hd) Hoff.
  unfold encode_offset. rewrite Hv. cbn [Z.eqb Pos.eqb orb].
  rewrite signbit_spec by (rewrite ?Hty, ?Hv; (reflexivity || lia || assumption)).
  pose proof (pow2_pos (discard f) ltac:(lia)) as Hpd.
  assert (Hv0 : 0 <= Z.abs off / 2 ^ discard f) by (apply Z.div_pos; lia).
  destruct (Z.eqb_spec (Z.abs off mod 2 ^ discard f) 0) as [Hm0|Hm0]; cbn [andb].
  2:{ split; [intros _ (H & _); contradiction | reflexivity]. }
  destruct (Z.ltb_spec (Z.abs off / 2 ^ discard f) (2 ^ bits f)) as [Hlt|Hge].
  2:{ split; [intros _ (_ & H & _); lia | reflexivity]. }
  rewrite Hty. unfold post32.
  pose proof (a32_imm_refused_iff (Z.abs off / 2 ^ discard f) Hv0) as Hiff.
  destruct (encode_aarch32_imm (Z.abs off / 2 ^ discard f)) as [e|] eqn:Ee.
  - split; [discriminate|]. intros Hn. exfalso. apply Hn. split; [exact Hm0|]. split; [exact Hlt|].
    destruct (a32_imm_sound _ e Hv0 Ee) as (Hx & Hr). change (2 ^ 12) with 4096 in Hr. exists e. split; assumption.
  - split; [|reflexivity]. intros _ (_ & _ & Hex). apply (proj1 Hiff); [reflexivity | exact Hex].
Qed.

(* C17 — the Thumb-2 branch OffsetTypes as they are after fixes/C17-thumb32-branch-formats.patch (no proofs here).
   `encode_offset32_fixed` is encode_offset32 with ONLY the field packers of T32_B / T32_BLX / T32_BCond replaced:
     T32_B / T32_BLX : J1 = NOT(I1 EOR S) at bit 13 (pinned: bit 14), J2 = NOT(I2 EOR S) at bit 11
     T32_BCond       : J1 = value[17] at bit 13, J2 = value[18] at bit 11 (pinned: inverted mixes of bits 19/22/21, bit 14)
   `t32_pack false` is the pinned packer (T32FixProofs.encode_offset32_t32_pinned: definitionally what OffsetModel has). *)
From Coq Require Import ZArith Bool.
From Verif Require Import Codec.OffsetModel.
Local Open Scope Z_scope.

Definition signed_checked (bc dl off : Z) : option Z :=
  if negb (dl =? 0) && negb ((off mod 2 ^ dl) =? 0) then None else
  let off := off / 2 ^ dl in
  if negb ((- 2 ^ 31 <=? off) && (off <? 2 ^ 31)) then None else
  let value := wrap 32 off in
  if (- 2 ^ (bc - 1) <=? off) && (off <? 2 ^ (bc - 1)) then Some value else None.

Definition t32_pack (fixed : bool) (t : otype) (vs bc bs value : Z) : option Z :=
  match t with
  | T32_BLX | T32_B =>
    let value := match t with T32_BLX => wrap 32 (value * 2) | _ => value end in
    if negb (vs =? 4) then None else
    let ia := value mod 2048 in
    let ib := ((value / 2048) mod 1024) * 2 ^ 16 in
    let ic := (bitz value 23) * 2 ^ 26 in
    let ja := (1 - bitz value 23 + bitz value 22) mod 2 in
    let jb := (1 - bitz value 23 + bitz value 21) mod 2 in
    Some (ia + ib + ic + ja * 2 ^ (if fixed then 13 else 14) + jb * 2 ^ 11)
  | T32_BCond =>
    if negb (vs =? 4) || negb (bc =? 20) || negb (bs =? 0) then None else
    let ia := value mod 2048 in
    let ib := ((value / 2048) mod 64) * 2 ^ 16 in
    let ic := (bitz value 19) * 2 ^ 26 in
    if fixed then Some (ia + ib + ic + (bitz value 17) * 2 ^ 13 + (bitz value 18) * 2 ^ 11)
    else
      let ja := (1 - bitz value 19 + bitz value 22) mod 2 in
      let jb := (1 - bitz value 19 + bitz value 21) mod 2 in
      Some (ia + ib + ic + ja * 2 ^ 14 + jb * 2 ^ 11)
  | _ => None
  end.

Definition is_t32_branch (t : otype) : bool := match t with T32_BLX | T32_B | T32_BCond => true | _ => false end.

Definition encode_offset32_t32 (fixed : bool) (f : fmt) (off : Z) : option Z :=
  if (bits f =? 0) || (vsize f * 8 <? bits f) then None else
  match signed_checked (bits f) (discard f) off with
  | None => None
  | Some value => t32_pack fixed (ty f) (vsize f) (bits f) (shift f) value
  end.

Definition encode_offset32_fixed (f : fmt) (off : Z) : option Z :=
  if is_t32_branch (ty f) then encode_offset32_t32 true f off else encode_offset32 f off.

Definition encode_offset_fixed (f : fmt) (off : Z) : option Z :=
  if (vsize f =? 1) || (vsize f =? 2) || (vsize f =? 4) then
    match encode_offset32_fixed f off with
    | Some m => Some (m mod 2 ^ (8 * vsize f))
    | None => None
    end
  else if vsize f =? 8 then encode_offset64 f off
  else None.

Definition write_offset_fixed (f : fmt) (old : Z) (off : Z) : option Z :=
  match encode_offset_fixed f off with
  | Some m => Some (Z.lor old m)
  | None => None
  end.

(* per-type variants, for a tree in which only one of the two packers is fixed (the check probes each separately):
   fb = B.W/BL/BLX packer fixed, fc = B<c>.W packer fixed.  T32FixProofs: var true true = fixed, var false false = pinned. *)
Definition encode_offset32_var (fb fc : bool) (f : fmt) (off : Z) : option Z :=
  if is_t32_branch (ty f) then encode_offset32_t32 (match ty f with T32_BCond => fc | _ => fb end) f off else encode_offset32 f off.
Definition encode_offset_var (fb fc : bool) (f : fmt) (off : Z) : option Z :=
  if (vsize f =? 1) || (vsize f =? 2) || (vsize f =? 4) then
    match encode_offset32_var fb fc f off with
    | Some m => Some (m mod 2 ^ (8 * vsize f))
    | None => None
    end
  else if vsize f =? 8 then encode_offset64 f off
  else None.
Definition write_offset_var (fb fc : bool) (f : fmt) (old : Z) (off : Z) : option Z :=
  match encode_offset_var fb fc f off with
  | Some m => Some (Z.lor old m)
  | None => None
  end.

(* C17 — the bit-field aliases denote what their mnemonic says (UBFM semantics), for every source value; the operand
   check of the extract AND insert forms is exact (refused exactly when the field does not fit the register: the insert
   forms accepted lsb + width > size before /repo commit 638bd9f). *)
From Coq Require Import ZArith Lia Bool List.
From Verif Require Import Base.ZBits Codec.ImmProofs Codec.BitfieldModel.
Local Open Scope Z_scope.

Definition size_ok (size : Z) : Prop := size = 32 \/ size = 64.

Lemma neg32_sweep : forallb (fun a => (neg32_and a 64 =? (64 - a) mod 64) && ((32 <=? a) || (neg32_and a 32 =? (32 - a) mod 32))) (zrange 64) = true.
Proof. vm_compute. reflexivity. Qed.

Lemma neg32_and_spec size a : size_ok size -> 0 <= a < size -> neg32_and a size = (size - a) mod size.
Proof.
  intros Hs Ha. pose proof neg32_sweep as H. rewrite forallb_forall in H.
  specialize (H a (zrange_in 64 a ltac:(destruct Hs; lia))). apply andb_true_iff in H. destruct H as [H64 H32].
  destruct Hs as [-> | ->].
  - apply orb_true_iff in H32. destruct H32 as [H|H]; [apply Z.leb_le in H; lia | apply Z.eqb_eq in H; exact H].
  - apply Z.eqb_eq in H64. exact H64.
Qed.

(* ---------- extract forms: UBFX / SBFX / BFXIL ---------- *)
Theorem bfx_spec size lsb width : size_ok size -> 0 <= lsb -> 0 <= width ->
  match encode_bitfield Bfx size lsb width with
  | Some (r, s) => 1 <= width <= size - lsb /\ r = lsb /\ s = lsb + width - 1 /\ 0 <= r <= s /\ s < size
  | None => ~ (lsb < size /\ 1 <= width <= size - lsb)
  end.
Proof.
  intros Hs Hl Hw. unfold encode_bitfield.
  destruct (Z.leb_spec size lsb); cbn [orb]; [lia|].
  destruct (Z.eqb_spec width 0); cbn [orb]; [lia|].
  destruct (Z.ltb_spec (size - lsb) width); [lia|]. cbv zeta.
  destruct (Z.leb_spec size (lsb + width - 1)); lia.
Qed.

Theorem ubfx_correct size lsb width r s src : size_ok size -> 0 <= lsb -> 0 <= width -> 0 <= src < 2 ^ size ->
  encode_bitfield Bfx size lsb width = Some (r, s) ->
  ubfm_sem size r s src = (src / 2 ^ lsb) mod 2 ^ width /\ 0 <= r < size /\ 0 <= s < size.
Proof.
  intros Hs Hl Hw Hsrc He. pose proof (bfx_spec size lsb width Hs Hl Hw) as H. rewrite He in H.
  destruct H as (Hwd & -> & -> & Hrs & Hss). unfold ubfm_sem.
  replace (lsb <=? lsb + width - 1) with true by (symmetry; apply Z.leb_le; lia).
  replace (lsb + width - 1 - lsb + 1) with width by lia. repeat split; lia.
Qed.

(* ---------- insert forms: UBFIZ / SBFIZ / BFI / BFC ---------- *)
(* accepted exactly when the inserted field fits the register *)
Theorem bfi_spec size lsb width : size_ok size -> 0 <= lsb -> 0 <= width ->
  match encode_bitfield Bfi size lsb width with
  | Some (r, s) => 1 <= width <= size - lsb /\ r = (size - lsb) mod size /\ s = width - 1 /\ 0 <= r < size /\ 0 <= s < size /\
                   (lsb = 0 \/ s < r)
  | None => ~ (lsb < size /\ 1 <= width <= size - lsb)
  end.
Proof.
  intros Hs Hl Hw. unfold encode_bitfield.
  destruct (Z.leb_spec size lsb); cbn [orb]; [lia|].
  destruct (Z.eqb_spec width 0); cbn [orb]; [lia|].
  destruct (Z.ltb_spec (size - lsb) width); [lia|].
  rewrite neg32_and_spec by (try exact Hs; lia).
  assert (Hsz : 0 < size) by (destruct Hs; lia).
  destruct (Z.eq_dec lsb 0) as [->|Hne].
  - rewrite Z.sub_0_r, Z.mod_same by lia. repeat split; lia.
  - rewrite (Z.mod_small (size - lsb)) by lia. repeat split; try lia.
Qed.

Theorem bfi_refused_iff size lsb width : size_ok size -> 0 <= lsb -> 0 <= width ->
  (encode_bitfield Bfi size lsb width = None <-> ~ (lsb < size /\ 1 <= width <= size - lsb)).
Proof.
  intros Hs Hl Hw. pose proof (bfi_spec size lsb width Hs Hl Hw) as H.
  destruct (encode_bitfield Bfi size lsb width) as [[r s]|]; split; intros H'; try discriminate; try reflexivity; try exact H.
  exfalso. apply H'. lia.
Qed.

Theorem ubfiz_correct size lsb width r s src : size_ok size -> 0 <= lsb -> 0 <= width -> 0 <= src < 2 ^ size ->
  encode_bitfield Bfi size lsb width = Some (r, s) ->
  ubfm_sem size r s src = (src mod 2 ^ width) * 2 ^ lsb /\ 0 <= r < size /\ 0 <= s < size.
Proof.
  intros Hs Hl Hw Hsrc He. pose proof (bfi_spec size lsb width Hs Hl Hw) as H. rewrite He in H.
  destruct H as (Hwd & -> & -> & Hr & Hss & Hord).
  assert (Hsz : 0 < size) by (destruct Hs; lia).
  split; [|split; assumption].
  unfold ubfm_sem.
  destruct (Z.eq_dec lsb 0) as [->|Hne].
  - rewrite Z.sub_0_r, Z.mod_same by lia.
    replace (0 <=? width - 1) with true by (symmetry; apply Z.leb_le; lia).
    change (2 ^ 0) with 1. rewrite Z.div_1_r, Z.mul_1_r. replace (width - 1 - 0 + 1) with width by lia. reflexivity.
  - rewrite (Z.mod_small (size - lsb)) in * by lia.
    replace (size - lsb <=? width - 1) with false by (symmetry; apply Z.leb_gt; lia).
    replace (width - 1 + 1) with width by lia. replace (size - (size - lsb)) with lsb by lia.
    apply Z.mod_small. pose proof (Z.mod_pos_bound src (2 ^ width) (pow2_pos width Hw)) as Hb.
    pose proof (mul_pow2_bound (src mod 2 ^ width) width lsb Hl Hw Hb) as Hm.
    pose proof (pow2_le (width + lsb) size ltac:(lia)). lia.
Qed.

(* ---------- shifts by immediate ---------- *)
Theorem lsl_correct size sh r s src : size_ok size -> 0 <= sh -> 0 <= src < 2 ^ size ->
  encode_bitfield ShLsl size sh 0 = Some (r, s) ->
  ubfm_sem size r s src = (src * 2 ^ sh) mod 2 ^ size /\ 0 <= r < size /\ 0 <= s < size.
Proof.
  intros Hs Hsh Hsrc He. unfold encode_bitfield in He.
  destruct (Z.leb_spec size sh); [discriminate|]. injection He as <- <-.
  rewrite neg32_and_spec by (try exact Hs; lia).
  assert (Hsz : 0 < size) by (destruct Hs; lia).
  unfold ubfm_sem.
  destruct (Z.eq_dec sh 0) as [->|Hne].
  - rewrite Z.sub_0_r, Z.mod_same by lia.
    replace (0 <=? size - 1 - 0) with true by (symmetry; apply Z.leb_le; lia).
    change (2 ^ 0) with 1. rewrite Z.div_1_r, Z.mul_1_r. replace (size - 1 - 0 - 0 + 1) with size by lia.
    repeat split; lia.
  - rewrite (Z.mod_small (size - sh)) by lia.
    replace (size - sh <=? size - 1 - sh) with false by (symmetry; apply Z.leb_gt; lia).
    replace (size - 1 - sh + 1) with (size - sh) by lia. replace (size - (size - sh)) with sh by lia.
    split; [|lia].
    pose proof (pow2_pos sh Hsh). pose proof (pow2_pos (size - sh) ltac:(lia)).
    rewrite <- Z.mul_mod_distr_r by lia. rewrite <- Z.pow_add_r by lia. replace (size - sh + sh) with size by lia.
    apply Z.mod_mod. pose proof (pow2_pos size ltac:(lia)). lia.
Qed.

Theorem lsr_correct size sh r s src : size_ok size -> 0 <= sh -> 0 <= src < 2 ^ size ->
  encode_bitfield ShLsr size sh 0 = Some (r, s) ->
  ubfm_sem size r s src = src / 2 ^ sh /\ 0 <= r < size /\ 0 <= s < size.
Proof.
  intros Hs Hsh Hsrc He. unfold encode_bitfield in He.
  destruct (Z.leb_spec size sh); [discriminate|]. injection He as <- <-.
  assert (Hsz : 0 < size) by (destruct Hs; lia).
  unfold ubfm_sem. replace (sh <=? size - 1) with true by (symmetry; apply Z.leb_le; lia).
  replace (size - 1 - sh + 1) with (size - sh) by lia. split; [|lia].
  apply Z.mod_small. pose proof (pow2_pos sh Hsh). split; [apply Z.div_pos; lia|].
  apply Z.div_lt_upper_bound; [lia|]. rewrite <- Z.pow_add_r by lia. replace (sh + (size - sh)) with size by lia. lia.
Qed.

Theorem shift_refused_iff size k sh : size_ok size -> 0 <= sh -> (k = ShLsl \/ k = ShLsr) ->
  (encode_bitfield k size sh 0 = None <-> size <= sh).
Proof.
  intros Hs Hsh [-> | ->]; unfold encode_bitfield; destruct (Z.leb_spec size sh); split; intros; try lia; try discriminate; reflexivity.
Qed.

(* raw BFM/SBFM/UBFM: the fields are the operands, accepted exactly when both fit *)
Theorem bfm_raw_spec size immr imms : size_ok size -> 0 <= immr -> 0 <= imms ->
  match encode_bitfield Bfm size immr imms with
  | Some (r, s) => r = immr /\ s = imms /\ immr < size /\ imms < size
  | None => ~ (immr < size /\ imms < size)
  end.
Proof.
  intros Hs Hr Hi. unfold encode_bitfield.
  assert (Hj : exists j, size = 2 ^ j /\ 0 <= j) by (destruct Hs as [-> | ->]; [exists 5 | exists 6]; split; (reflexivity || lia)).
  destruct Hj as (j & -> & Hj).
  assert (Hlor : Z.lor immr imms < 2 ^ j <-> immr < 2 ^ j /\ imms < 2 ^ j).
  { destruct (Z.eq_dec (Z.lor immr imms) 0) as [E0|E0].
    - apply Z.lor_eq_0_iff in E0. destruct E0 as [-> ->]. pose proof (pow2_pos j Hj). rewrite Z.lor_0_l. lia.
    - assert (H0 : 0 <= Z.lor immr imms) by (apply Z.lor_nonneg; lia).
      rewrite (Z.log2_lt_pow2 (Z.lor immr imms)) by lia. rewrite Z.log2_lor by lia.
      split.
      + intros H. split.
        * destruct (Z.eq_dec immr 0) as [->|]; [apply pow2_pos; lia|]. apply Z.log2_lt_pow2; lia.
        * destruct (Z.eq_dec imms 0) as [->|]; [apply pow2_pos; lia|]. apply Z.log2_lt_pow2; lia.
      + intros (Ha & Hb).
        assert (0 < j) by (destruct (Z.eq_dec j 0) as [->|]; [|lia]; change (2 ^ 0) with 1 in *; exfalso; apply E0;
                           assert (immr = 0) by lia; assert (imms = 0) by lia; subst; reflexivity).
        assert (Z.log2 immr < j) by (destruct (Z.eq_dec immr 0) as [->|]; [assumption|]; apply Z.log2_lt_pow2; lia).
        assert (Z.log2 imms < j) by (destruct (Z.eq_dec imms 0) as [->|]; [assumption|]; apply Z.log2_lt_pow2; lia).
        lia. }
  destruct (Z.leb_spec (2 ^ j) (Z.lor immr imms)); [intros H'; apply Hlor in H'; lia|].
  apply Hlor in H. repeat split; lia.
Qed.

(* C17 — completeness directions that were still missing: the fixed Thumb-2 branch formats and A32 BLX accept EVERY representable
   displacement, and the word they produce decodes to it (so encoder and architectural decoder are inverse on the whole range). *)
From Coq Require Import ZArith Lia Bool List.
From Verif Require Import Base.ZBits Codec.OffsetModel Codec.OffsetProofs Codec.OffsetFormatsProofs Codec.T32FixModel
  Codec.T32FixProofs Codec.LayoutModel Codec.LayoutProofs Codec.RefusalProofs.
Local Open Scope Z_scope.

Lemma int64_of_scaled o b dl : 0 < b <= 25 -> 0 <= dl <= 31 -> - 2 ^ (b - 1) <= o < 2 ^ (b - 1) -> int64 (o * 2 ^ dl).
Proof.
  intros Hb Hd Ho. unfold int64. pose proof (pow2_pos dl ltac:(lia)). pose proof (pow2_le dl 31 ltac:(lia)) as H31.
  pose proof (pow2_le (b - 1) 24 ltac:(lia)) as H24. pose proof (pow2_pos (b - 1) ltac:(lia)).
  change (2 ^ 31) with 2147483648 in H31. change (2 ^ 24) with 16777216 in H24. change (2 ^ 63) with 9223372036854775808. nia.
Qed.

Theorem t32_b_complete f o : is_t32_b_fmt f -> - 2 ^ (bits f - 1) <= o < 2 ^ (bits f - 1) ->
  exists m, encode_offset_fixed f (o * 2 ^ discard f) = Some m /\ decode_t32_b m = o.
Proof.
  intros Hf Ho. pose proof Hf as (Hty & Hv & Hb & Hd).
  pose proof (pow2_pos (discard f) ltac:(lia)) as Hpd.
  assert (Hi : int64 (o * 2 ^ discard f)) by (apply (int64_of_scaled o (bits f)); lia).
  destruct (encode_offset_fixed f (o * 2 ^ discard f)) as [m|] eqn:He.
  - exists m. split; [reflexivity|]. destruct (t32_b_roundtrip f _ m Hf Hi He) as (Hdec & _).
    apply (Z.mul_cancel_r _ _ (2 ^ discard f)); [lia | exact Hdec].
  - exfalso. apply (proj1 (t32_fixed_refused_iff f _ (or_introl Hf) Hi)) in He. apply He.
    rewrite mul_pow2_mod, mul_pow2_div by lia. split; [reflexivity | exact Ho].
Qed.

Theorem t32_blx_complete f o : is_t32_blx_fmt f -> - 2 ^ (bits f - 1) <= o < 2 ^ (bits f - 1) ->
  exists m, encode_offset_fixed f (o * 2 ^ discard f) = Some m /\ decode_t32_b m = 2 * o.
Proof.
  intros Hf Ho. pose proof Hf as (Hty & Hv & Hb & Hd).
  pose proof (pow2_pos (discard f) ltac:(lia)) as Hpd.
  assert (Hi : int64 (o * 2 ^ discard f)) by (apply (int64_of_scaled o (bits f)); lia).
  destruct (encode_offset_fixed f (o * 2 ^ discard f)) as [m|] eqn:He.
  - exists m. split; [reflexivity|]. destruct (t32_blx_roundtrip f _ m Hf Hi He) as (Hev & Hdec & _).
    assert (Hq : decode_t32_b m / 2 = o) by (apply (Z.mul_cancel_r _ _ (2 ^ discard f)); [lia | exact Hdec]).
    rewrite (Z.div_mod (decode_t32_b m) 2) by lia. rewrite Hev, Hq. lia.
  - exfalso. apply (proj1 (t32_fixed_refused_iff f _ (or_intror (or_introl Hf)) Hi)) in He. apply He.
    rewrite mul_pow2_mod, mul_pow2_div by lia. split; [reflexivity | exact Ho].
Qed.

Theorem t32_bcond_complete f o : is_t32_bcond_fmt f -> - 2 ^ 19 <= o < 2 ^ 19 ->
  exists m, encode_offset_fixed f (o * 2 ^ discard f) = Some m /\ decode_t32_bcond m = o.
Proof.
  intros Hf Ho. pose proof Hf as (Hty & Hv & Hb & Hs & Hd).
  pose proof (pow2_pos (discard f) ltac:(lia)) as Hpd.
  assert (Hi : int64 (o * 2 ^ discard f)) by (apply (int64_of_scaled o 20); [lia | lia | exact Ho]).
  destruct (encode_offset_fixed f (o * 2 ^ discard f)) as [m|] eqn:He.
  - exists m. split; [reflexivity|]. destruct (t32_bcond_roundtrip f _ m Hf Hi He) as (Hdec & _).
    apply (Z.mul_cancel_r _ _ (2 ^ discard f)); [lia | exact Hdec].
  - exfalso. apply (proj1 (t32_fixed_refused_iff f _ (or_intror (or_intror Hf)) Hi)) in He. apply He.
    rewrite mul_pow2_mod, mul_pow2_div by lia. rewrite Hb. change (20 - 1) with 19. split; [reflexivity | exact Ho].
Qed.

Theorem a32_blx_complete f o : is_a32_blx_fmt f -> - 2 ^ 24 <= o < 2 ^ 24 ->
  exists m, encode_offset f (o * 2 ^ discard f) = Some m /\ decode_a32_blx m = o.
Proof.
  intros Hf Ho. pose proof Hf as (Hty & Hv & Hb & Hs & Hd).
  pose proof (pow2_pos (discard f) ltac:(lia)) as Hpd.
  assert (Hi : int64 (o * 2 ^ discard f)) by (apply (int64_of_scaled o 25); [lia | lia | exact Ho]).
  destruct (encode_offset f (o * 2 ^ discard f)) as [m|] eqn:He.
  - exists m. split; [reflexivity|]. destruct (a32_blx_roundtrip f _ m Hf Hi He) as (Hdec & _).
    apply (Z.mul_cancel_r _ _ (2 ^ discard f)); [lia | exact Hdec].
  - exfalso. apply (proj1 (signed_layout_refused_iff f _ (or_intror Hf) Hi)) in He. apply He.
    rewrite mul_pow2_mod, mul_pow2_div by lia. rewrite Hb. change (25 - 1) with 24. split; [reflexivity | exact Ho].
Qed.

(* non-vacuity: the extreme displacements of each format are accepted (the encodings llvm-mc gives for the Thumb-2 ones) *)
Example complete_more_witness :
  is_t32_b_fmt {| ty := T32_B; vsize := 4; bits := 24; shift := 0; discard := 1 |} /\
  encode_offset_fixed {| ty := T32_B; vsize := 4; bits := 24; shift := 0; discard := 1 |} (-16777216) = Some 0x04000000 /\
  encode_offset_fixed {| ty := T32_BCond; vsize := 4; bits := 20; shift := 0; discard := 1 |} 1048574 <> None /\
  encode_offset {| ty := A32_1To24At0_0At24; vsize := 4; bits := 25; shift := 0; discard := 1 |} (-33554432) <> None.
Proof.
  unfold is_t32_b_fmt. cbn [ty vsize bits shift discard].
  repeat split; try lia; try (vm_compute; reflexivity); vm_compute; discriminate.
Qed.

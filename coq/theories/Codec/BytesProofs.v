(* C17 — byte level: CodeWriterUtils::write_offset patches the little-endian word of `vsize` bytes at `value_offset` inside a
   region (OffsetModel.write_offset_bytes).  What must NOT change: the length of the region and every byte outside
   [value_offset, value_offset + vsize); the bytes inside are the little-endian split of the word write_offset computes from
   the little-endian join of the old bytes. *)
From Coq Require Import ZArith Lia Bool List.
From Verif Require Import Base.ZBits Codec.OffsetModel.
Import ListNotations.
Local Open Scope Z_scope.

Lemma le_split_length n : forall w, length (le_split n w) = n.
Proof. induction n as [|n IH]; intros w; cbn [le_split length]; [reflexivity | rewrite IH; reflexivity]. Qed.

Lemma le_join_split n : forall w, le_join (le_split n w) = w mod 256 ^ Z.of_nat n.
Proof.
  induction n as [|n IH]; intros w.
  - cbn [le_split le_join]. change (256 ^ Z.of_nat 0) with 1. rewrite Z.mod_1_r. reflexivity.
  - cbn [le_split le_join]. rewrite IH, Nat2Z.inj_succ, Z.pow_succ_r by lia.
    rewrite Z.rem_mul_r by (try lia; apply Z.pow_nonzero; lia). reflexivity.
Qed.

Lemma firstn_app_exact {A} (l1 l2 : list A) : firstn (length l1) (l1 ++ l2) = l1.
Proof. induction l1 as [|a l IH]; cbn; [destruct l2; reflexivity | rewrite IH; reflexivity]. Qed.
Lemma skipn_app_exact {A} (l1 l2 : list A) : skipn (length l1) (l1 ++ l2) = l2.
Proof. induction l1 as [|a l IH]; cbn; [reflexivity | exact IH]. Qed.

Lemma skipn_skipn' {A} (a b : nat) : forall l : list A, skipn a (skipn b l) = skipn (b + a) l.
Proof.
  induction b as [|b IH]; intros l; [reflexivity|]. destruct l as [|x l]; cbn [skipn plus]; [destruct a; reflexivity | apply IH].
Qed.

Theorem write_offset_bytes_exact f region vo off region' :
  (0 < Z.to_nat (vsize f))%nat ->
  write_offset_bytes f region vo off = Some region' ->
  let n := Z.to_nat (vsize f) in
  length region' = length region /\
  firstn vo region' = firstn vo region /\
  skipn (vo + n) region' = skipn (vo + n) region /\
  (forall i d, (i < vo \/ vo + n <= i)%nat -> nth i region' d = nth i region d) /\
  exists w, write_offset f (le_join (firstn n (skipn vo region))) off = Some w /\
            firstn n (skipn vo region') = le_split n w /\
            le_join (firstn n (skipn vo region')) = w mod 256 ^ Z.of_nat n.
Proof.
  intros Hn H n. unfold write_offset_bytes in H. fold n in H.
  set (pre := firstn vo region) in *. set (mid := firstn n (skipn vo region)) in *. set (post := skipn (vo + n) region) in *.
  destruct (Nat.eqb (length mid) n) eqn:E; cbn [negb] in H; [|discriminate]. apply Nat.eqb_eq in E.
  destruct (write_offset f (le_join mid) off) as [w|] eqn:Ew; [|discriminate].
  injection H as <-.
  (* the old region splits the same way *)
  assert (Hsplit : region = pre ++ mid ++ post).
  { subst pre mid post. rewrite <- (firstn_skipn vo region) at 1. f_equal.
    rewrite <- (firstn_skipn n (skipn vo region)) at 1. f_equal. apply skipn_skipn'. }
  assert (Hpre : length pre = vo).
  { subst pre. apply firstn_length_le. destruct (le_lt_dec vo (length region)) as [|Hgt]; [assumption|exfalso].
    subst mid. rewrite skipn_all2 in E by lia. rewrite firstn_nil in E. cbn in E. lia. }
  pose proof (le_split_length n w) as Hsp.
  split; [rewrite Hsplit at 1; rewrite !app_length, Hsp, E; reflexivity|].
  split; [rewrite <- Hpre at 1; apply firstn_app_exact|].
  split.
  { rewrite app_assoc. replace (vo + n)%nat with (length (pre ++ le_split n w)) by (rewrite app_length, Hpre, Hsp; reflexivity).
    apply skipn_app_exact. }
  split.
  { intros i d Hi. rewrite Hsplit. destruct Hi as [Hi|Hi].
    - rewrite !app_nth1 by lia. reflexivity.
    - rewrite !app_assoc. rewrite !app_nth2 by (rewrite app_length; lia). rewrite !app_length, Hsp, E. reflexivity. }
  exists w. split; [reflexivity|].
  assert (Hmid' : firstn n (skipn vo (pre ++ le_split n w ++ post)) = le_split n w).
  { rewrite <- Hpre at 1. rewrite skipn_app_exact. rewrite <- Hsp at 1. apply firstn_app_exact. }
  split; [exact Hmid'|]. rewrite Hmid'. apply le_join_split.
Qed.

(* with valid bytes and a word that fits, the patched bytes join to exactly the word write_offset computes *)
Corollary write_offset_bytes_word f region vo off region' w :
  (0 < Z.to_nat (vsize f))%nat -> 0 <= vsize f ->
  write_offset_bytes f region vo off = Some region' ->
  write_offset f (le_join (firstn (Z.to_nat (vsize f)) (skipn vo region))) off = Some w -> 0 <= w < 2 ^ (8 * vsize f) ->
  le_join (firstn (Z.to_nat (vsize f)) (skipn vo region')) = w.
Proof.
  intros Hn Hv H Hw Hr. destruct (write_offset_bytes_exact f region vo off region' Hn H) as (_ & _ & _ & _ & w' & Hw' & _ & Hj).
  rewrite Hw in Hw'. injection Hw' as <-. rewrite Hj. rewrite Z2Nat.id by lia.
  replace (256 ^ vsize f) with (2 ^ (8 * vsize f)) by (rewrite Z.pow_mul_r by lia; reflexivity).
  apply Z.mod_small. exact Hr.
Qed.

Example write_offset_bytes_witness :
  write_offset_bytes {| ty := SignedOffset; vsize := 4; bits := 26; shift := 0; discard := 2 |}
                     [0xAA; 0x00; 0x00; 0x00; 0x94; 0xBB] 1 (-8) = Some [0xAA; 0xFE; 0xFF; 0xFF; 0x97; 0xBB].
Proof. vm_compute. reflexivity. Qed.

(* the same frame condition for ANY word-level patch function (in particular the model of HEAD, write_offset_var true true):
   patching a region through a word function only touches the vsize bytes at value_offset *)
Definition write_bytes_with (wo : fmt -> Z -> Z -> option Z) (f : fmt) (region : list Z) (value_offset : nat) (off : Z) : option (list Z) :=
  let n := Z.to_nat (vsize f) in
  let pre := firstn value_offset region in
  let mid := firstn n (skipn value_offset region) in
  let post := skipn (value_offset + n) region in
  if negb (Nat.eqb (length mid) n) then None else
  match wo f (le_join mid) off with
  | Some w => Some (pre ++ le_split n w ++ post)
  | None => None
  end.

Lemma write_bytes_with_pinned f region vo off : write_bytes_with write_offset f region vo off = write_offset_bytes f region vo off.
Proof. reflexivity. Qed.

Theorem write_bytes_with_exact wo f region vo off region' :
  (0 < Z.to_nat (vsize f))%nat ->
  write_bytes_with wo f region vo off = Some region' ->
  let n := Z.to_nat (vsize f) in
  length region' = length region /\
  (forall i d, (i < vo \/ vo + n <= i)%nat -> nth i region' d = nth i region d) /\
  exists w, wo f (le_join (firstn n (skipn vo region))) off = Some w /\ firstn n (skipn vo region') = le_split n w.
Proof.
  intros Hn H n. unfold write_bytes_with in H. fold n in H.
  set (pre := firstn vo region) in *. set (mid := firstn n (skipn vo region)) in *. set (post := skipn (vo + n) region) in *.
  destruct (Nat.eqb (length mid) n) eqn:E; cbn [negb] in H; [|discriminate]. apply Nat.eqb_eq in E.
  destruct (wo f (le_join mid) off) as [w|] eqn:Ew; [|discriminate].
  injection H as <-.
  assert (Hsplit : region = pre ++ mid ++ post).
  { subst pre mid post. rewrite <- (firstn_skipn vo region) at 1. f_equal.
    rewrite <- (firstn_skipn n (skipn vo region)) at 1. f_equal. apply skipn_skipn'. }
  assert (Hpre : length pre = vo).
  { subst pre. apply firstn_length_le. destruct (le_lt_dec vo (length region)) as [|Hgt]; [assumption|exfalso].
    subst mid. rewrite skipn_all2 in E by lia. rewrite firstn_nil in E. cbn in E. lia. }
  pose proof (le_split_length n w) as Hsp.
  split; [rewrite Hsplit at 1; rewrite !app_length, Hsp, E; reflexivity|].
  split.
  { intros i d Hi. rewrite Hsplit. destruct Hi as [Hi|Hi].
    - rewrite !app_nth1 by lia. reflexivity.
    - rewrite !app_assoc. rewrite !app_nth2 by (rewrite app_length; lia). rewrite !app_length, Hsp, E. reflexivity. }
  exists w. split; [reflexivity|].
  rewrite <- Hpre at 1. rewrite skipn_app_exact. rewrite <- Hsp at 1. apply firstn_app_exact.
Qed.

(* C17 — 8-byte unsigned fields: round trip and exact refusal for EVERY int64 offset when a negative displacement is
   refused first (the fixed tree), and for the code as it is whenever bits + discard <= 63; with bits + discard = 64 the code
   as it is accepts negative displacements as their two's complement (refuted theorem, known finding). *)
From Coq Require Import ZArith Lia Bool List.
From Verif Require Import Base.ZBits Codec.OffsetModel Codec.OffsetProofs Codec.OffsetFormatsProofs Codec.T32FixModel Codec.Unsigned64Model.
Local Open Scope Z_scope.

Lemma encode_var_unsigned8 fb fc f off : ty f = UnsignedOffset -> vsize f = 8 -> encode_offset_var fb fc f off = encode_offset64 f off.
Proof.
  intros Hty Hv. unfold encode_offset_var. rewrite Hv. reflexivity.
Qed.

(* the 64-bit unsigned path on a non-negative offset, and on a negative one when the field cannot hold its two's complement *)
Lemma unsigned64_spec f off :
  ty f = UnsignedOffset -> wf_contig64 f -> int64 off -> (0 <= off \/ bits f + discard f <= 63) ->
  match encode_offset64 f off with
  | Some m => unsigned_ok f off /\ m = (off / 2 ^ discard f) * 2 ^ shift f
  | None => ~ unsigned_ok f off
  end.
Proof.
  intros Hty (Hv & Hb & Hs & Hfit & Hd) Hoff Hcase. unfold int64 in Hoff.
  unfold encode_offset64. rewrite Hty, Hv.
  replace (bits f =? 0) with false by (symmetry; apply Z.eqb_neq; lia).
  replace (8 * 8 <? bits f) with false by (symmetry; apply Z.ltb_ge; lia).
  cbn [orb].
  destruct (negb (discard f =? 0) && negb (off mod 2 ^ discard f =? 0)) eqn:Edl.
  { apply discard_check_true in Edl; [|lia]. intros (H & _). contradiction. }
  apply discard_check_false in Edl; [|lia].
  pose proof (pow2_pos (discard f) ltac:(lia)) as Hpd. pose proof (pow2_pos (bits f) ltac:(lia)) as Hpb.
  pose proof (pow2_le (bits f) 64 ltac:(lia)) as Hb64.
  set (o := if discard f =? 0 then off else to_i64 (wrap 64 off / 2 ^ discard f)).
  (* the unsigned 64-bit value compared against *)
  assert (Hw : wrap 64 o = (wrap 64 off) / 2 ^ discard f).
  { subst o. destruct (Z.eqb_spec (discard f) 0) as [E|E].
    - rewrite E. change (2 ^ 0) with 1. rewrite Z.div_1_r. reflexivity.
    - unfold to_i64, wrap. rewrite sext_is_sextz, sextz_mod_id by lia.
      apply Z.mod_small. pose proof (Z.mod_pos_bound off (2 ^ 64) ltac:(reflexivity)).
      split; [apply Z.div_pos; lia|]. apply Z.div_lt_upper_bound; [lia|]. nia. }
  cbv zeta. fold o. rewrite Hw.
  destruct (Z_lt_le_dec off 0) as [Hneg|Hpos].
  - (* negative: refused because the quotient does not fit *)
    assert (Hbd : bits f + discard f <= 63) by (destruct Hcase; lia).
    assert (Ew : wrap 64 off = off + 2 ^ 64) by (unfold wrap; symmetry; apply (Z.mod_unique off (2 ^ 64) (-1)); lia).
    rewrite Ew.
    assert (Hq : 2 ^ bits f <= (off + 2 ^ 64) / 2 ^ discard f).
    { apply Z.div_le_lower_bound; [lia|]. rewrite Z.mul_comm, <- Z.pow_add_r by lia.
      pose proof (pow2_le (bits f + discard f) 63 ltac:(lia)). lia. }
    rewrite mod_ne_of_ge by lia.
    intros (_ & Hr). assert (off / 2 ^ discard f < 0) by (apply Z.div_lt_upper_bound; lia). lia.
  - replace (wrap 64 off) with off by (unfold wrap; rewrite Z.mod_small by lia; reflexivity).
    destruct (Z.ltb_spec (off / 2 ^ discard f) (2 ^ bits f)) as [Hlt|Hge].
    + assert (Hq : 0 <= off / 2 ^ discard f) by (apply Z.div_pos; lia).
      rewrite Z.mod_small by lia. rewrite Z.eqb_refl.
      split; [split; [exact Edl | lia]|].
      rewrite Z.mod_small by lia.
      pose proof (mul_pow2_bound (off / 2 ^ discard f) (bits f) (shift f) Hs ltac:(lia) ltac:(lia)) as Hmb.
      pose proof (pow2_le (bits f + shift f) 64 ltac:(lia)). unfold wrap. rewrite Z.mod_small by lia. reflexivity.
    + rewrite mod_ne_of_ge by lia. intros (_ & Hr). lia.
Qed.

Theorem unsigned64_roundtrip f off m :
  ty f = UnsignedOffset -> wf_contig64 f -> int64 off -> bits f + discard f <= 63 ->
  encode_offset f off = Some m ->
  decode_unsigned f m = off /\ 0 <= m < 2 ^ (bits f + shift f) /\ m mod 2 ^ shift f = 0.
Proof.
  intros Hty Hwf Hoff Hbd He. pose proof Hwf as (Hv & Hb & Hsft & Hfit & Hd).
  unfold encode_offset in He. rewrite Hv in He. cbn [Z.eqb Pos.eqb orb] in He.
  pose proof (unsigned64_spec f off Hty Hwf Hoff (or_intror Hbd)) as Hs. rewrite He in Hs.
  destruct Hs as ((Hm0 & Hr) & ->).
  split; [|split].
  - unfold decode_unsigned. rewrite field_raw_of_encoded by lia. apply div_pow2_exact; lia.
  - apply mul_pow2_bound; lia.
  - apply mul_pow2_mod; lia.
Qed.

Theorem unsigned64_refused_iff f off :
  ty f = UnsignedOffset -> wf_contig64 f -> int64 off -> bits f + discard f <= 63 ->
  (encode_offset f off = None <-> ~ unsigned_ok f off).
Proof.
  intros Hty Hwf Hoff Hbd. pose proof Hwf as (Hv & _).
  unfold encode_offset. rewrite Hv. cbn [Z.eqb Pos.eqb orb].
  pose proof (unsigned64_spec f off Hty Hwf Hoff (or_intror Hbd)) as Hs.
  destruct (encode_offset64 f off) as [m|]; split; intros H; try congruence; tauto.
Qed.

(* with the negative test (un = true): every well-formed 8-byte unsigned format, no restriction on bits + discard *)
Theorem unsigned64_top_spec fb fc f off :
  ty f = UnsignedOffset -> wf_contig64 f -> int64 off ->
  match encode_offset_top fb fc true f off with
  | Some m => unsigned_ok f off /\ m = (off / 2 ^ discard f) * 2 ^ shift f /\ decode_unsigned f m = off
  | None => ~ unsigned_ok f off
  end.
Proof.
  intros Hty Hwf Hoff. pose proof Hwf as (Hv & Hb & Hsft & Hfit & Hd).
  unfold encode_offset_top, is_unsigned8. rewrite Hty, Hv. cbn [Z.eqb Pos.eqb andb].
  pose proof (pow2_pos (discard f) ltac:(lia)) as Hpd.
  destruct (Z.ltb_spec off 0) as [Hneg|Hpos].
  - intros (_ & Hr). assert (off / 2 ^ discard f < 0) by (apply Z.div_lt_upper_bound; lia). lia.
  - rewrite encode_var_unsigned8 by assumption.
    pose proof (unsigned64_spec f off Hty Hwf Hoff (or_introl Hpos)) as Hs.
    destruct (encode_offset64 f off) as [m|]; [|exact Hs].
    destruct Hs as ((Hm0 & Hr) & ->). split; [split; assumption|]. split; [reflexivity|].
    unfold decode_unsigned. rewrite field_raw_of_encoded by lia. apply div_pow2_exact; lia.
Qed.

(* the other formats are untouched by the flag *)
Lemma encode_offset_top_other fb fc un f off : is_unsigned8 f = false -> encode_offset_top fb fc un f off = encode_offset_var fb fc f off.
Proof. intros H. unfold encode_offset_top. rewrite H, andb_false_r. reflexivity. Qed.

(* KNOWN FINDING: the code as it is accepts a negative displacement when bits + discard = 64 *)
Theorem unsigned64_negative_refuted :
  exists f off m, ty f = UnsignedOffset /\ wf_contig64 f /\ int64 off /\ off < 0 /\
                  encode_offset f off = Some m /\ decode_unsigned f m <> off.
Proof.
  exists {| ty := UnsignedOffset; vsize := 8; bits := 61; shift := 0; discard := 3 |}, (-8), (2 ^ 61 - 1).
  split; [reflexivity|]. split; [unfold wf_contig64; cbn; lia|]. split; [split; [discriminate | reflexivity]|].
  split; [reflexivity|]. split; [vm_compute; reflexivity | vm_compute; discriminate].
Qed.

(* the hypotheses of the round trip are satisfiable (a 40-bit field at bit 3 of an 8-byte word, positive offset accepted,
   negative and too large ones refused) *)
Example unsigned64_witness :
  let f := {| ty := UnsignedOffset; vsize := 8; bits := 40; shift := 3; discard := 0 |} in
  wf_contig64 f /\ bits f + discard f <= 63 /\
  encode_offset f 1099511627775 = Some (1099511627775 * 8) /\ encode_offset f (-1) = None /\ encode_offset f 1099511627776 = None /\
  encode_offset_top true true true {| ty := UnsignedOffset; vsize := 8; bits := 61; shift := 0; discard := 3 |} (-8) = None.
Proof. cbv zeta. unfold wf_contig64. cbn [vsize bits shift discard]. repeat split; try lia; vm_compute; reflexivity. Qed.

(* C17 — 8-byte unsigned fields (encode_offset64, OffsetType::kUnsignedOffset).  The int64 argument is the two's-complement
   image of a uint64 displacement (relocate_to_base stores absolute addresses >= 2^63 through the 8-byte 64-bit format), so the
   field is specified over the UINT64 READING  u = off mod 2^64 :  encoding succeeds iff u has zero low `discard` bits and
   u / 2^discard fits `bits`, and decoding gives back u.  For bits + discard <= 63 no negative int64 is accepted, so there the
   int64 reading and the uint64 reading coincide (unsigned64_int64_exact). *)
From Coq Require Import ZArith Lia Bool List.
From Verif Require Import Base.ZBits Codec.OffsetModel Codec.OffsetProofs Codec.OffsetFormatsProofs.
Local Open Scope Z_scope.

(* the reinterpretation, explicit *)
Definition u64 (off : Z) : Z := off mod 2 ^ 64.
Lemma u64_of_int64 off : int64 off -> u64 off = if off <? 0 then off + 2 ^ 64 else off.
Proof.
  intros H. unfold int64 in H. unfold u64. destruct (Z.ltb_spec off 0).
  - symmetry. apply (Z.mod_unique off (2 ^ 64) (-1)); lia.
  - apply Z.mod_small. lia.
Qed.
Lemma u64_range off : 0 <= u64 off < 2 ^ 64.
Proof. apply Z.mod_pos_bound. reflexivity. Qed.

Lemma unsigned64_spec f off :
  ty f = UnsignedOffset -> wf_contig64 f -> int64 off ->
  match encode_offset64 f off with
  | Some m => unsigned_ok f (u64 off) /\ m = (u64 off / 2 ^ discard f) * 2 ^ shift f
  | None => ~ unsigned_ok f (u64 off)
  end.
Proof.
  intros Hty (Hv & Hb & Hs & Hfit & Hd) Hoff. unfold int64 in Hoff. unfold unsigned_ok.
  pose proof (u64_range off) as Hu.
  unfold encode_offset64. rewrite Hty, Hv.
  replace (bits f =? 0) with false by (symmetry; apply Z.eqb_neq; lia).
  replace (8 * 8 <? bits f) with false by (symmetry; apply Z.ltb_ge; lia).
  cbn [orb].
  pose proof (pow2_pos (discard f) ltac:(lia)) as Hpd. pose proof (pow2_pos (bits f) ltac:(lia)) as Hpb.
  (* the low discard bits of off and of its uint64 image are the same *)
  assert (Hlow : off mod 2 ^ discard f = u64 off mod 2 ^ discard f).
  { unfold u64. symmetry. apply mod_mod_pow2. lia. }
  destruct (negb (discard f =? 0) && negb (off mod 2 ^ discard f =? 0)) eqn:Edl.
  { apply discard_check_true in Edl; [|lia]. intros (H & _). rewrite Hlow in Edl. contradiction. }
  apply discard_check_false in Edl; [|lia]. rewrite Hlow in Edl.
  set (o := if discard f =? 0 then off else to_i64 (wrap 64 off / 2 ^ discard f)).
  assert (Hw : wrap 64 o = u64 off / 2 ^ discard f).
  { subst o. unfold u64. destruct (Z.eqb_spec (discard f) 0) as [E|E].
    - rewrite E. change (2 ^ 0) with 1. rewrite Z.div_1_r. reflexivity.
    - unfold to_i64, wrap. rewrite sext_is_sextz, sextz_mod_id by lia.
      apply Z.mod_small. fold (u64 off). split; [apply Z.div_pos; lia|]. apply Z.div_lt_upper_bound; [lia|]. nia. }
  cbv zeta. fold o. rewrite Hw.
  assert (Hq : 0 <= u64 off / 2 ^ discard f) by (apply Z.div_pos; lia).
  destruct (Z.ltb_spec (u64 off / 2 ^ discard f) (2 ^ bits f)) as [Hlt|Hge].
  - rewrite Z.mod_small by lia. rewrite Z.eqb_refl.
    split; [split; [exact Edl | lia]|].
    rewrite Z.mod_small by lia.
    pose proof (mul_pow2_bound (u64 off / 2 ^ discard f) (bits f) (shift f) Hs ltac:(lia) ltac:(lia)) as Hmb.
    pose proof (pow2_le (bits f + shift f) 64 ltac:(lia)). unfold wrap. rewrite Z.mod_small by lia. reflexivity.
  - rewrite mod_ne_of_ge by lia. intros (_ & Hr). lia.
Qed.

Theorem unsigned64_roundtrip f off m :
  ty f = UnsignedOffset -> wf_contig64 f -> int64 off ->
  encode_offset f off = Some m ->
  decode_unsigned f m = off mod 2 ^ 64 /\ 0 <= m < 2 ^ (bits f + shift f) /\ m mod 2 ^ shift f = 0.
Proof.
  intros Hty Hwf Hoff He. pose proof Hwf as (Hv & Hb & Hsft & Hfit & Hd).
  unfold encode_offset in He. rewrite Hv in He. cbn [Z.eqb Pos.eqb orb] in He.
  pose proof (unsigned64_spec f off Hty Hwf Hoff) as Hs. rewrite He in Hs.
  destruct Hs as ((Hm0 & Hr) & ->). fold (u64 off).
  split; [|split].
  - unfold decode_unsigned. rewrite field_raw_of_encoded by lia. apply div_pow2_exact; lia.
  - apply mul_pow2_bound; lia.
  - apply mul_pow2_mod; lia.
Qed.

Theorem unsigned64_refused_iff f off :
  ty f = UnsignedOffset -> wf_contig64 f -> int64 off ->
  (encode_offset f off = None <-> ~ unsigned_ok f (off mod 2 ^ 64)).
Proof.
  intros Hty Hwf Hoff. pose proof Hwf as (Hv & _).
  unfold encode_offset. rewrite Hv. cbn [Z.eqb Pos.eqb orb].
  pose proof (unsigned64_spec f off Hty Hwf Hoff) as Hs. fold (u64 off).
  destruct (encode_offset64 f off) as [m|]; split; intros H; try congruence; tauto.
Qed.

(* when the field cannot hold values >= 2^63 (bits + discard <= 63) only non-negative int64 offsets are accepted and the
   decoded value is the int64 offset itself *)
Theorem unsigned64_int64_exact f off m :
  ty f = UnsignedOffset -> wf_contig64 f -> int64 off -> bits f + discard f <= 63 ->
  encode_offset f off = Some m -> 0 <= off /\ decode_unsigned f m = off.
Proof.
  intros Hty Hwf Hoff Hbd He. pose proof Hwf as (Hv & Hb & Hsft & Hfit & Hd).
  destruct (unsigned64_roundtrip f off m Hty Hwf Hoff He) as (Hdec & _).
  unfold encode_offset in He. rewrite Hv in He. cbn [Z.eqb Pos.eqb orb] in He.
  pose proof (unsigned64_spec f off Hty Hwf Hoff) as Hs. rewrite He in Hs. destruct Hs as ((_ & Hr) & _).
  assert (Hpos : 0 <= off).
  { destruct (Z_lt_le_dec off 0) as [Hneg|]; [exfalso|assumption]. unfold int64 in Hoff.
    rewrite u64_of_int64 in Hr by exact Hoff. replace (off <? 0) with true in Hr by (symmetry; apply Z.ltb_lt; lia).
    pose proof (pow2_pos (discard f) ltac:(lia)).
    assert (2 ^ bits f <= (off + 2 ^ 64) / 2 ^ discard f).
    { apply Z.div_le_lower_bound; [lia|]. rewrite Z.mul_comm, <- Z.pow_add_r by lia.
      pose proof (pow2_le (bits f + discard f) 63 ltac:(lia)). lia. }
    lia. }
  split; [exact Hpos|]. rewrite Hdec. apply Z.mod_small. unfold int64 in Hoff. lia.
Qed.

(* non-vacuity: an absolute address >= 2^63 arrives as a negative int64 and is stored as itself (relocate_to_base);
   a 40-bit field refuses negative and too large offsets *)
Example unsigned64_witness :
  let a := {| ty := UnsignedOffset; vsize := 8; bits := 64; shift := 0; discard := 0 |} in
  let f := {| ty := UnsignedOffset; vsize := 8; bits := 40; shift := 3; discard := 0 |} in
  wf_contig64 a /\ wf_contig64 f /\
  encode_offset a (-16717024) = Some 18446744073692834592 /\ decode_unsigned a 18446744073692834592 = (-16717024) mod 2 ^ 64 /\
  encode_offset f 1099511627775 = Some (1099511627775 * 8) /\ encode_offset f (-1) = None /\ encode_offset f 1099511627776 = None.
Proof. cbv zeta. unfold wf_contig64. cbn [vsize bits shift discard]. repeat split; try lia; vm_compute; reflexivity. Qed.

(* what must NOT change, 8-byte unsigned fields: patching keeps every bit outside the field *)
Theorem unsigned64_write_offset_exact f old off w :
  ty f = UnsignedOffset -> wf_contig64 f -> int64 off -> 0 <= old ->
  write_offset f old off = Some w ->
  Z.land w (Z.lnot (field_mask f)) = Z.land old (Z.lnot (field_mask f)).
Proof.
  intros Hty Hwf Hoff Hold Hw. pose proof Hwf as (Hv & Hb & Hs & Hfit & Hd).
  apply write_offset_or in Hw. destruct Hw as (m & He & ->).
  unfold encode_offset in He. rewrite Hv in He. cbn [Z.eqb Pos.eqb orb] in He.
  pose proof (unsigned64_spec f off Hty Hwf Hoff) as Hsp. rewrite He in Hsp. destruct Hsp as ((_ & Hr) & ->).
  rewrite Z.land_lor_distr_l. unfold field_mask. rewrite contig_outside_clear by lia. apply Z.lor_0_r.
Qed.

(* completeness: every field value r is reached, by the int64 image of the uint64 displacement r * 2^discard *)
Theorem unsigned64_surjective f r :
  ty f = UnsignedOffset -> wf_contig64 f -> bits f + discard f <= 64 -> 0 <= r < 2 ^ bits f ->
  let off := sextz 64 (r * 2 ^ discard f) in
  int64 off /\ off mod 2 ^ 64 = r * 2 ^ discard f /\ encode_offset f off = Some (r * 2 ^ shift f).
Proof.
  intros Hty Hwf Hbd Hr off. pose proof Hwf as (Hv & Hb & Hs & Hfit & Hd).
  pose proof (pow2_pos (discard f) ltac:(lia)) as Hpd.
  assert (Hu : 0 <= r * 2 ^ discard f < 2 ^ 64).
  { pose proof (mul_pow2_bound r (bits f) (discard f) ltac:(lia) ltac:(lia) Hr) as Hm.
    pose proof (pow2_le (bits f + discard f) 64 ltac:(lia)). lia. }
  assert (Hi : int64 off).
  { subst off. unfold int64. pose proof (sextz_range 64 (r * 2 ^ discard f) ltac:(lia)) as H. change (2 ^ (64 - 1)) with (2 ^ 63) in H. exact H. }
  assert (Hm : off mod 2 ^ 64 = r * 2 ^ discard f).
  { subst off. rewrite sextz_mod_id by lia. apply Z.mod_small. exact Hu. }
  split; [exact Hi|]. split; [exact Hm|].
  unfold encode_offset. rewrite Hv. cbn [Z.eqb Pos.eqb orb].
  pose proof (unsigned64_spec f off Hty Hwf Hi) as Hsp. unfold u64 in Hsp. rewrite Hm in Hsp.
  assert (Hok : unsigned_ok f (r * 2 ^ discard f)).
  { unfold unsigned_ok. rewrite mul_pow2_mod, mul_pow2_div by lia. split; [reflexivity | exact Hr]. }
  destruct (encode_offset64 f off) as [m|]; [|contradiction].
  destruct Hsp as (_ & ->). rewrite mul_pow2_div by lia. reflexivity.
Qed.

(* C17 — bit-field aliases of the a64 assembler (asmjit/arm/a64assembler.cpp, encodings BaseBfx / BaseBfi / BaseBfc /
   BaseBfm and the immediate forms of LSL / LSR / ASR in BaseShift): how (lsb, width) or a shift amount becomes the
   (immr, imms) pair of UBFM/SBFM/BFM, as of /repo commit 638bd9f (operand test `width > op_size - lsb` in all
   three lsb/width encodings).  No proofs in this file.  Operand values are uint64 (0 <= . < 2^64). *)
From Coq Require Import ZArith Bool.
Local Open Scope Z_scope.

Inductive bf_kind := Bfx | Bfi | Bfm | ShLsl | ShLsr.   (* Bfi also stands for Bfc (same computation); ShLsr for ASR *)

Definition neg32_and (x size : Z) : Z := Z.land ((2 ^ 32 - x mod 2 ^ 32) mod 2 ^ 32) (size - 1).   (* Support::neg(uint32_t(x)) & (size - 1) *)

Definition encode_bitfield (k : bf_kind) (size a b : Z) : option (Z * Z) :=   (* (immr, imms) *)
  match k with
  | Bfx =>
    if (size <=? a) || (b =? 0) || (size - a <? b) then None else
    let imms := a + b - 1 in
    if size <=? imms then None else Some (a, imms)
  | Bfi =>
    if (size <=? a) || (b =? 0) || (size - a <? b) then None else Some (neg32_and a size, b - 1)
  | Bfm => if size <=? Z.lor a b then None else Some (a, b)
  | ShLsl => if size <=? a then None else Some (neg32_and a size, size - 1 - a)
  | ShLsr => if size <=? a then None else Some (a, size - 1)
  end.

(* UBFM Rd, Rn, #immr, #imms (ARM ARM C6.2 UBFM, operation in words): if imms >= immr the bit-field Rn<imms:immr> is copied to
   the bottom of Rd, otherwise the imms+1 low bits of Rn are copied to bit position size-immr; all other bits zero *)
Definition ubfm_sem (size immr imms src : Z) : Z :=
  if immr <=? imms then (src / 2 ^ immr) mod 2 ^ (imms - immr + 1)
  else ((src mod 2 ^ (imms + 1)) * 2 ^ (size - immr)) mod 2 ^ size.

(* ROR Rd, Rn, #shift is an alias of EXTR Rd, Rn, Rn, #shift (case kEncodingBaseShift, `op_data.ror` branch): imms = shift, Rm = Rn *)
Definition encode_ror_imm (size sh : Z) : option Z := if size <=? sh then None else Some sh.
(* EXTR (ARM ARM C6.2): concat = X[n]:X[m]; result = concat<lsb+datasize-1:lsb> *)
Definition extr_pc (size hi lo lsb : Z) : Z := ((hi * 2 ^ size + lo) / 2 ^ lsb) mod 2 ^ size.

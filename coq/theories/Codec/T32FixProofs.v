(* C17 — round trips of the FIXED Thumb-2 branch formats (T32FixModel.v) against the architectural decoders
   decode_t32_b (B.W T4 / BL / BLX: SignExtend(S:I1:I2:imm10:imm11)) and decode_t32_bcond (B<c>.W T3:
   SignExtend(S:J2:J1:imm6:imm11)) of OffsetModel.v, for every int64 offset the encoder accepts; and the statement
   that the fixed model differs from the pinned one only in the packers. *)
From Coq Require Import ZArith Lia Bool List.
From Verif Require Import Base.ZBits Codec.OffsetModel Codec.OffsetProofs Codec.OffsetFormatsProofs Codec.T32FixModel.
Local Open Scope Z_scope.

(* the pinned model, restated with the shared pieces: definitional *)
Lemma encode_offset32_t32_pinned f off :
  is_t32_branch (ty f) = true -> encode_offset32 f off = encode_offset32_t32 false f off.
Proof.
  intros H. unfold encode_offset32, encode_offset32_t32, signed_checked, t32_pack.
  destruct (ty f); try discriminate H; reflexivity.
Qed.

Lemma encode_offset_fixed_other f off : is_t32_branch (ty f) = false -> encode_offset_fixed f off = encode_offset f off.
Proof. intros H. unfold encode_offset_fixed, encode_offset, encode_offset32_fixed. rewrite H. reflexivity. Qed.

Lemma write_offset_var_fixed f old off : write_offset_var true true f old off = write_offset_fixed f old off.
Proof.
  unfold write_offset_var, write_offset_fixed, encode_offset_var, encode_offset_fixed, encode_offset32_var, encode_offset32_fixed.
  destruct (ty f); reflexivity.
Qed.

Lemma write_offset_var_pinned f old off : write_offset_var false false f old off = write_offset f old off.
Proof.
  unfold write_offset_var, write_offset, encode_offset_var, encode_offset, encode_offset32_var.
  destruct (is_t32_branch (ty f)) eqn:E; [|reflexivity].
  rewrite (encode_offset32_t32_pinned f off E). destruct (ty f); reflexivity.
Qed.

(* what the signed check accepts *)
Lemma signed_checked_spec bc dl off v : 0 < bc <= 32 -> 0 <= dl ->
  signed_checked bc dl off = Some v ->
  off mod 2 ^ dl = 0 /\ - 2 ^ (bc - 1) <= off / 2 ^ dl < 2 ^ (bc - 1) /\ v = (off / 2 ^ dl) mod 2 ^ 32.
Proof.
  intros Hb Hd H. unfold signed_checked in H.
  destruct (negb (dl =? 0) && negb (off mod 2 ^ dl =? 0)) eqn:Edl; [discriminate|].
  assert (Hm : off mod 2 ^ dl = 0).
  { apply andb_false_iff in Edl. destruct Edl as [E|E]; apply negb_false_iff in E; apply Z.eqb_eq in E.
    - rewrite E. apply Z.mod_1_r.
    - exact E. }
  cbv zeta in H.
  destruct ((- 2 ^ 31 <=? off / 2 ^ dl) && (off / 2 ^ dl <? 2 ^ 31)); cbn [negb] in H; [|discriminate].
  destruct ((- 2 ^ (bc - 1) <=? off / 2 ^ dl) && (off / 2 ^ dl <? 2 ^ (bc - 1))) eqn:Eb; [|discriminate].
  apply andb_true_iff in Eb. destruct Eb as [E1 E2]. apply Z.leb_le in E1. apply Z.ltb_lt in E2.
  apply some_inj in H. subst v. unfold wrap. repeat split; assumption.
Qed.

(* ---------- B.W / BL : 24-bit half-word displacement ---------- *)
Lemma t32_b_pack o : - 2 ^ 23 <= o < 2 ^ 23 ->
  let value := o mod 2 ^ 32 in
  let m := value mod 2048 + ((value / 2048) mod 1024) * 2 ^ 16 + (bitz value 23) * 2 ^ 26 +
           ((1 - bitz value 23 + bitz value 22) mod 2) * 2 ^ 13 + ((1 - bitz value 23 + bitz value 21) mod 2) * 2 ^ 11 in
  0 <= m < 2 ^ 32 /\ decode_t32_b m = o.
Proof.
  intros Ho value m. unfold bitz in m.
  set (u := o mod 2 ^ 24).
  assert (Hu : 0 <= u < 2 ^ 24) by (subst u; apply Z.mod_pos_bound; reflexivity).
  change (2 ^ 23) with 8388608 in *. change (2 ^ 24) with 16777216 in *. change (2 ^ 32) with 4294967296 in *.
  change (2 ^ 22) with 4194304 in *. change (2 ^ 21) with 2097152 in *.
  set (a := u mod 2048). set (b := (u / 2048) mod 1024). set (i2 := (u / 2097152) mod 2). set (i1 := (u / 4194304) mod 2).
  set (s := u / 8388608).
  assert (Ha : 0 <= a < 2048) by (subst a; apply Z.mod_pos_bound; lia).
  assert (Hb : 0 <= b < 1024) by (subst b; apply Z.mod_pos_bound; lia).
  assert (Hi2 : 0 <= i2 < 2) by (subst i2; apply Z.mod_pos_bound; lia).
  assert (Hi1 : 0 <= i1 < 2) by (subst i1; apply Z.mod_pos_bound; lia).
  assert (Hs : 0 <= s < 2) by (subst s; Z.div_mod_to_equations; lia).
  assert (Eu : u = a + 2048 * b + 2097152 * i2 + 4194304 * i1 + 8388608 * s) by (subst a b i2 i1 s; Z.div_mod_to_equations; lia).
  assert (F0 : value mod 2048 = a) by (subst value a u; Z.div_mod_to_equations; lia).
  assert (F1 : (value / 2048) mod 1024 = b) by (subst value b u; Z.div_mod_to_equations; lia).
  assert (F2 : (value / 8388608) mod 2 = s) by (subst value s u; Z.div_mod_to_equations; lia).
  assert (F3 : (value / 4194304) mod 2 = i1) by (subst value i1 u; Z.div_mod_to_equations; lia).
  assert (F4 : (value / 2097152) mod 2 = i2) by (subst value i2 u; Z.div_mod_to_equations; lia).
  subst m. rewrite F0, F1, F2, F3, F4.
  change (2 ^ 16) with 65536. change (2 ^ 26) with 67108864. change (2 ^ 13) with 8192. change (2 ^ 11) with 2048.
  set (ja := (1 - s + i1) mod 2). set (jb := (1 - s + i2) mod 2).
  assert (Hja : 0 <= ja < 2) by (subst ja; apply Z.mod_pos_bound; lia).
  assert (Hjb : 0 <= jb < 2) by (subst jb; apply Z.mod_pos_bound; lia).
  set (m := a + b * 65536 + s * 67108864 + ja * 8192 + jb * 2048).
  assert (Hm : 0 <= m < 4294967296) by (subst m; lia).
  split; [exact Hm|].
  unfold decode_t32_b, bitz. cbv zeta.
  change (2 ^ 26) with 67108864. change (2 ^ 13) with 8192. change (2 ^ 11) with 2048. change (2 ^ 16) with 65536.
  change (2 ^ 23) with 8388608. change (2 ^ 22) with 4194304. change (2 ^ 21) with 2097152.
  assert (G0 : (m / 67108864) mod 2 = s) by (subst m; Z.div_mod_to_equations; lia).
  assert (G1 : (m / 8192) mod 2 = ja) by (subst m; Z.div_mod_to_equations; lia).
  assert (G2 : (m / 2048) mod 2 = jb) by (subst m; Z.div_mod_to_equations; lia).
  assert (G3 : (m / 65536) mod 1024 = b) by (subst m; Z.div_mod_to_equations; lia).
  assert (G4 : m mod 2048 = a) by (subst m; Z.div_mod_to_equations; lia).
  rewrite G0, G1, G2, G3, G4.
  assert (I1 : 1 - (ja + s) mod 2 = i1) by (subst ja; Z.div_mod_to_equations; lia).
  assert (I2 : 1 - (jb + s) mod 2 = i2) by (subst jb; Z.div_mod_to_equations; lia).
  rewrite I1, I2.
  replace (s * 8388608 + i1 * 4194304 + i2 * 2097152 + b * 2048 + a) with u by lia.
  subst u. rewrite sext_is_sextz. change 16777216 with (2 ^ 24). apply sextz_of_mod; [lia|].
  change (2 ^ (24 - 1)) with 8388608. lia.
Qed.

Definition is_t32_b_fmt (f : fmt) : Prop :=
  ty f = T32_B /\ vsize f = 4 /\ 0 < bits f <= 24 /\ 0 <= discard f <= 31.

Theorem t32_b_roundtrip f off m :
  is_t32_b_fmt f -> int64 off -> encode_offset_fixed f off = Some m ->
  decode_t32_b m * 2 ^ discard f = off /\ 0 <= m < 2 ^ 32.
Proof.
  intros (Hty & Hv & Hb & Hd) Hoff He.
  unfold encode_offset_fixed in He. rewrite Hv in He. cbn [Z.eqb Pos.eqb orb] in He.
  unfold encode_offset32_fixed in He. rewrite Hty in He. cbn [is_t32_branch] in He.
  unfold encode_offset32_t32 in He. rewrite Hv in He.
  replace (bits f =? 0) with false in He by (symmetry; apply Z.eqb_neq; lia).
  replace (4 * 8 <? bits f) with false in He by (symmetry; apply Z.ltb_ge; lia).
  cbn [orb] in He.
  destruct (signed_checked (bits f) (discard f) off) as [v|] eqn:Ec; [|discriminate].
  apply signed_checked_spec in Ec; [|lia|lia]. destruct Ec as (Hm0 & Hr & ->).
  rewrite Hty in He. unfold t32_pack in He. change (negb (4 =? 4)) with false in He. cbv iota zeta in He.
  pose proof (pow2_le (bits f - 1) 23 ltac:(lia)) as Hle.
  destruct (t32_b_pack (off / 2 ^ discard f) ltac:(lia)) as (Hm & Hdec). cbv zeta in Hm, Hdec.
  rewrite Z.mod_small in He by (change (2 ^ (8 * 4)) with (2 ^ 32); exact Hm).
  apply some_inj in He. subst m. split; [|exact Hm]. rewrite Hdec. apply div_pow2_exact; lia.
Qed.

(* ---------- BLX : 23-bit word displacement, stored as the even half-word displacement ---------- *)
Definition is_t32_blx_fmt (f : fmt) : Prop :=
  ty f = T32_BLX /\ vsize f = 4 /\ 0 < bits f <= 23 /\ 0 <= discard f <= 31.

Theorem t32_blx_roundtrip f off m :
  is_t32_blx_fmt f -> int64 off -> encode_offset_fixed f off = Some m ->
  decode_t32_b m mod 2 = 0 /\ (decode_t32_b m / 2) * 2 ^ discard f = off /\ 0 <= m < 2 ^ 32.
Proof.
  intros (Hty & Hv & Hb & Hd) Hoff He.
  unfold encode_offset_fixed in He. rewrite Hv in He. cbn [Z.eqb Pos.eqb orb] in He.
  unfold encode_offset32_fixed in He. rewrite Hty in He. cbn [is_t32_branch] in He.
  unfold encode_offset32_t32 in He. rewrite Hv in He.
  replace (bits f =? 0) with false in He by (symmetry; apply Z.eqb_neq; lia).
  replace (4 * 8 <? bits f) with false in He by (symmetry; apply Z.ltb_ge; lia).
  cbn [orb] in He.
  destruct (signed_checked (bits f) (discard f) off) as [v|] eqn:Ec; [|discriminate].
  apply signed_checked_spec in Ec; [|lia|lia]. destruct Ec as (Hm0 & Hr & ->).
  rewrite Hty in He. unfold t32_pack in He. change (negb (4 =? 4)) with false in He. cbv iota zeta in He.
  pose proof (pow2_le (bits f - 1) 22 ltac:(lia)) as Hle. change (2 ^ 22) with 4194304 in Hle.
  set (o := off / 2 ^ discard f) in *.
  assert (Ew : wrap 32 (o mod 2 ^ 32 * 2) = (2 * o) mod 2 ^ 32).
  { unfold wrap. rewrite Z.mul_mod_idemp_l by (change (2 ^ 32) with 4294967296; lia). f_equal. lia. }
  rewrite Ew in He.
  destruct (t32_b_pack (2 * o) ltac:(change (2 ^ 23) with 8388608; lia)) as (Hm & Hdec). cbv zeta in Hm, Hdec.
  rewrite Z.mod_small in He by (change (2 ^ (8 * 4)) with (2 ^ 32); exact Hm).
  apply some_inj in He. subst m. rewrite Hdec.
  split; [Z.div_mod_to_equations; lia|]. split; [|exact Hm].
  replace (2 * o / 2) with o by (Z.div_mod_to_equations; lia). apply div_pow2_exact; lia.
Qed.

(* ---------- B<c>.W : 20-bit half-word displacement ---------- *)
Lemma t32_bcond_pack o : - 2 ^ 19 <= o < 2 ^ 19 ->
  let value := o mod 2 ^ 32 in
  let m := value mod 2048 + ((value / 2048) mod 64) * 2 ^ 16 + (bitz value 19) * 2 ^ 26 +
           (bitz value 17) * 2 ^ 13 + (bitz value 18) * 2 ^ 11 in
  0 <= m < 2 ^ 32 /\ decode_t32_bcond m = o.
Proof.
  intros Ho value m. unfold bitz in m.
  set (u := o mod 2 ^ 20).
  assert (Hu : 0 <= u < 2 ^ 20) by (subst u; apply Z.mod_pos_bound; reflexivity).
  change (2 ^ 19) with 524288 in *. change (2 ^ 20) with 1048576 in *. change (2 ^ 32) with 4294967296 in *.
  change (2 ^ 17) with 131072 in *. change (2 ^ 18) with 262144 in *.
  set (a := u mod 2048). set (b := (u / 2048) mod 64). set (j1 := (u / 131072) mod 2). set (j2 := (u / 262144) mod 2).
  set (s := u / 524288).
  assert (Ha : 0 <= a < 2048) by (subst a; apply Z.mod_pos_bound; lia).
  assert (Hb : 0 <= b < 64) by (subst b; apply Z.mod_pos_bound; lia).
  assert (Hj1 : 0 <= j1 < 2) by (subst j1; apply Z.mod_pos_bound; lia).
  assert (Hj2 : 0 <= j2 < 2) by (subst j2; apply Z.mod_pos_bound; lia).
  assert (Hs : 0 <= s < 2) by (subst s; Z.div_mod_to_equations; lia).
  assert (Eu : u = a + 2048 * b + 131072 * j1 + 262144 * j2 + 524288 * s) by (subst a b j1 j2 s; Z.div_mod_to_equations; lia).
  assert (F0 : value mod 2048 = a) by (subst value a u; Z.div_mod_to_equations; lia).
  assert (F1 : (value / 2048) mod 64 = b) by (subst value b u; Z.div_mod_to_equations; lia).
  assert (F2 : (value / 524288) mod 2 = s) by (subst value s u; Z.div_mod_to_equations; lia).
  assert (F3 : (value / 131072) mod 2 = j1) by (subst value j1 u; Z.div_mod_to_equations; lia).
  assert (F4 : (value / 262144) mod 2 = j2) by (subst value j2 u; Z.div_mod_to_equations; lia).
  subst m. rewrite F0, F1, F2, F3, F4.
  change (2 ^ 16) with 65536. change (2 ^ 26) with 67108864. change (2 ^ 13) with 8192. change (2 ^ 11) with 2048.
  set (m := a + b * 65536 + s * 67108864 + j1 * 8192 + j2 * 2048).
  assert (Hm : 0 <= m < 4294967296) by (subst m; lia).
  split; [exact Hm|].
  unfold decode_t32_bcond, bitz. cbv zeta.
  change (2 ^ 26) with 67108864. change (2 ^ 13) with 8192. change (2 ^ 11) with 2048. change (2 ^ 16) with 65536.
  change (2 ^ 19) with 524288. change (2 ^ 18) with 262144. change (2 ^ 17) with 131072.
  assert (G0 : (m / 67108864) mod 2 = s) by (subst m; Z.div_mod_to_equations; lia).
  assert (G1 : (m / 8192) mod 2 = j1) by (subst m; Z.div_mod_to_equations; lia).
  assert (G2 : (m / 2048) mod 2 = j2) by (subst m; Z.div_mod_to_equations; lia).
  assert (G3 : (m / 65536) mod 64 = b) by (subst m; Z.div_mod_to_equations; lia).
  assert (G4 : m mod 2048 = a) by (subst m; Z.div_mod_to_equations; lia).
  rewrite G0, G1, G2, G3, G4.
  replace (s * 524288 + j2 * 262144 + j1 * 131072 + b * 2048 + a) with u by lia.
  subst u. rewrite sext_is_sextz. change 1048576 with (2 ^ 20). apply sextz_of_mod; [lia|].
  change (2 ^ (20 - 1)) with 524288. lia.
Qed.

Definition is_t32_bcond_fmt (f : fmt) : Prop :=
  ty f = T32_BCond /\ vsize f = 4 /\ bits f = 20 /\ shift f = 0 /\ 0 <= discard f <= 31.

Theorem t32_bcond_roundtrip f off m :
  is_t32_bcond_fmt f -> int64 off -> encode_offset_fixed f off = Some m ->
  decode_t32_bcond m * 2 ^ discard f = off /\ 0 <= m < 2 ^ 32.
Proof.
  intros (Hty & Hv & Hb & Hs & Hd) Hoff He.
  unfold encode_offset_fixed in He. rewrite Hv in He. cbn [Z.eqb Pos.eqb orb] in He.
  unfold encode_offset32_fixed in He. rewrite Hty in He. cbn [is_t32_branch] in He.
  unfold encode_offset32_t32 in He. rewrite Hv, Hb, Hs in He.
  change ((20 =? 0) || (4 * 8 <? 20)) with false in He. cbv iota in He.
  destruct (signed_checked 20 (discard f) off) as [v|] eqn:Ec; [|discriminate].
  apply signed_checked_spec in Ec; [|lia|lia]. destruct Ec as (Hm0 & Hr & ->).
  rewrite Hty in He. unfold t32_pack in He.
  change (negb (4 =? 4) || negb (20 =? 20) || negb (0 =? 0)) with false in He. cbv iota zeta in He.
  change (20 - 1) with 19 in Hr.
  destruct (t32_bcond_pack (off / 2 ^ discard f) Hr) as (Hm & Hdec). cbv zeta in Hm, Hdec.
  rewrite Z.mod_small in He by (change (2 ^ (8 * 4)) with (2 ^ 32); exact Hm).
  apply some_inj in He. subst m. split; [|exact Hm]. rewrite Hdec. apply div_pow2_exact; lia.
Qed.

(* refusal is exact for the fixed formats (the same signed test as every other signed format) *)
Theorem t32_fixed_refused_iff f off :
  is_t32_b_fmt f \/ is_t32_blx_fmt f \/ is_t32_bcond_fmt f -> int64 off ->
  (encode_offset_fixed f off = None <->
   ~ (off mod 2 ^ discard f = 0 /\ - 2 ^ (bits f - 1) <= off / 2 ^ discard f < 2 ^ (bits f - 1))).
Proof.
  intros Hf Hoff.
  assert (H : is_t32_branch (ty f) = true /\ vsize f = 4 /\ 0 < bits f <= 24 /\ 0 <= discard f <= 31 /\
              (ty f = T32_BCond -> bits f = 20 /\ shift f = 0)).
  { destruct Hf as [(Hty & Hv & Hb & Hd) | [(Hty & Hv & Hb & Hd) | (Hty & Hv & Hb & Hs & Hd)]]; rewrite Hty;
      repeat split; try reflexivity; try lia; try discriminate; try assumption. }
  destruct H as (Ht & Hv & Hb & Hd & Hbc).
  unfold encode_offset_fixed. rewrite Hv. cbn [Z.eqb Pos.eqb orb].
  unfold encode_offset32_fixed. rewrite Ht. unfold encode_offset32_t32. rewrite Hv.
  replace (bits f =? 0) with false by (symmetry; apply Z.eqb_neq; lia).
  replace (4 * 8 <? bits f) with false by (symmetry; apply Z.ltb_ge; lia).
  cbn [orb].
  destruct (signed_checked (bits f) (discard f) off) as [v|] eqn:Ec.
  - apply signed_checked_spec in Ec; [|lia|lia]. destruct Ec as (Hm0 & Hr & ->).
    assert (Hsome : exists m, t32_pack true (ty f) 4 (bits f) (shift f) ((off / 2 ^ discard f) mod 2 ^ 32) = Some m).
    { unfold t32_pack. destruct (ty f) eqn:Ety; try discriminate Ht.
      - change (negb (4 =? 4)) with false. cbv iota zeta. eexists; reflexivity.
      - change (negb (4 =? 4)) with false. cbv iota zeta. eexists; reflexivity.
      - destruct (Hbc eq_refl) as (-> & ->).
        change (negb (4 =? 4) || negb (20 =? 20) || negb (0 =? 0)) with false. cbv iota. eexists; reflexivity. }
    destruct Hsome as (m & ->). split; [discriminate|]. intros Hn. exfalso. apply Hn. split; assumption.
  - split; [|reflexivity]. intros _ (Hm0 & Hr).
    unfold signed_checked in Ec.
    replace (negb (discard f =? 0) && negb (off mod 2 ^ discard f =? 0)) with false in Ec
      by (rewrite Hm0; cbn [Z.eqb negb]; rewrite andb_false_r; reflexivity).
    cbv zeta in Ec.
    pose proof (pow2_le (bits f - 1) 31 ltac:(lia)) as Hle.
    replace ((- 2 ^ 31 <=? off / 2 ^ discard f) && (off / 2 ^ discard f <? 2 ^ 31)) with true in Ec
      by (symmetry; apply andb_true_iff; split; [apply Z.leb_le | apply Z.ltb_lt]; lia).
    cbn [negb] in Ec.
    replace ((- 2 ^ (bits f - 1) <=? off / 2 ^ discard f) && (off / 2 ^ discard f <? 2 ^ (bits f - 1))) with true in Ec
      by (symmetry; apply andb_true_iff; split; [apply Z.leb_le | apply Z.ltb_lt]; lia).
    discriminate.
Qed.

(* witnesses: the encodings llvm-mc -triple=thumbv7 produces (hw1:hw2) *)
Example t32_fixed_witness :
  encode_offset_fixed {| ty := T32_B; vsize := 4; bits := 24; shift := 0; discard := 1 |} 2 = Some 0x00002801 /\
  encode_offset_fixed {| ty := T32_B; vsize := 4; bits := 24; shift := 0; discard := 1 |} (-16777216) = Some 0x04000000 /\
  encode_offset_fixed {| ty := T32_BLX; vsize := 4; bits := 23; shift := 0; discard := 2 |} (-4) = Some 0x07FF2FFE /\
  encode_offset_fixed {| ty := T32_BCond; vsize := 4; bits := 20; shift := 0; discard := 1 |} 262144 = Some 0x00002000 /\
  encode_offset_fixed {| ty := T32_BCond; vsize := 4; bits := 20; shift := 0; discard := 1 |} 524288 = Some 0x00000800.
Proof. repeat split; vm_compute; reflexivity. Qed.

(* C17 — the layout table (LayoutModel.expected_layouts: masks and shifts as the C++ writes them, OR-ed together) denotes
   exactly the packers of the Gallina model (sums of div/mod fields), for EVERY uint32 value and both signs; together with
   C17_layouts_current (coq/gen/C17Layouts.v = this table, re-extracted from codewriter.cpp on every run) this ties the
   field positions of the model to the source text, not only to its behaviour. *)
From Coq Require Import ZArith Lia Bool List.
From Verif Require Import Base.ZBits Codec.OffsetModel Codec.OffsetProofs Codec.OffsetFormatsProofs Codec.T32FixModel Codec.T32FixProofs Codec.ImmModel Codec.LayoutModel.
Import ListNotations.
Local Open Scope Z_scope.

Lemma mask_field v lo w : 0 <= lo -> 0 <= w -> Z.land v ((2 ^ w - 1) * 2 ^ lo) = ((v / 2 ^ lo) mod 2 ^ w) * 2 ^ lo.
Proof.
  intros Hlo Hw. apply Z.bits_inj'. intros i Hi. rewrite Z.land_spec.
  replace (2 ^ w - 1) with (Z.ones w) by (rewrite Z.ones_equiv; lia).
  destruct (Z_lt_le_dec i lo) as [Hl|Hh].
  - rewrite !Z.mul_pow2_bits_low by lia. apply andb_false_r.
  - rewrite !Z.mul_pow2_bits by lia. rewrite Z.testbit_ones_nonneg by lia.
    destruct (Z.ltb_spec (i - lo) w).
    + rewrite Z.mod_pow2_bits_low by lia. rewrite Z.div_pow2_bits by lia. replace (i - lo + lo) with i by lia. apply andb_true_r.
    + rewrite Z.mod_pow2_bits_high by lia. apply andb_false_r.
Qed.

Lemma mask_field' v m lo w : m = (2 ^ w - 1) * 2 ^ lo -> 0 <= lo -> 0 <= w -> Z.land v m = ((v / 2 ^ lo) mod 2 ^ w) * 2 ^ lo.
Proof. intros ->. apply mask_field. Qed.

Lemma land1 x : Z.land x 1 = x mod 2.
Proof. change 1 with (Z.ones 1). rewrite Z.land_ones by lia. reflexivity. Qed.

Lemma lxor_mod2 x y : (Z.lxor x y) mod 2 = (x + y) mod 2.
Proof.
  rewrite !Zmod_odd. rewrite Z.odd_add. rewrite <- !Z.bit0_odd. rewrite Z.lxor_spec. reflexivity.
Qed.

Lemma lor_add_low a r k : 0 <= k -> 0 <= a < 2 ^ k -> 0 <= r -> r mod 2 ^ k = 0 -> Z.lor a r = a + r.
Proof.
  intros Hk Ha Hr Hm. pose proof (pow2_pos k Hk).
  rewrite <- (div_pow2_exact r k Hk Hm). apply lor_disjoint_high; [lia | lia | apply Z.div_pos; lia].
Qed.

Definition packer_head (t : otype) (vs bc bs value u : Z) : option Z :=
  match t with
  | T32_B | T32_BLX | T32_BCond => t32_pack true t vs bc bs value
  | _ => post32 t vs bc bs value u
  end.

Lemma t32_adr_layout vs bc bs value u : 0 <= value < 2 ^ 32 -> (u = 0 \/ u = 1) ->
  forall l, layout_of T32_ADR expected_layouts = Some l -> eval_layout l vs bc bs value u = packer_head T32_ADR vs bc bs value u.
Proof.
  intros Hv Hu l Hl. injection Hl as <-. unfold eval_layout, packer_head, post32. cbn [l_shl1 l_vsize l_bits l_shift l_terms opt_ok].
  destruct (negb (vs =? 4) || negb (bc =? 12) || negb (bs =? 0)); [reflexivity|]. cbv zeta. f_equal.
  cbn [fold_right eval_term]. cbn [Z.leb Z.compare]. rewrite Z.lor_0_r.
  rewrite (mask_field' value 255 0 8), (mask_field' value 1792 8 3), (mask_field' value 2048 11 1) by (reflexivity || lia).
  assert (Hn : Z.lxor u 1 = 1 - u) by (destruct Hu as [-> | ->]; reflexivity). rewrite Hn.
  change (2 ^ 0) with 1. rewrite Z.div_1_r, !Z.mul_1_r.
  change (2 ^ 8) with 256. change (2 ^ 3) with 8. change (2 ^ 11) with 2048. change (2 ^ 1) with 2.
  change (2 ^ 4) with 16. change (2 ^ 15) with 32768. change (2 ^ 21) with 2097152. change (2 ^ 23) with 8388608.
  change (2 ^ 12) with 4096. change (2 ^ 26) with 67108864.
  set (a := value mod 256). set (b := (value / 256) mod 8). set (c := (value / 2048) mod 2). set (n := 1 - u).
  assert (Ha : 0 <= a < 256) by (subst a; apply Z.mod_pos_bound; lia).
  assert (Hb : 0 <= b < 8) by (subst b; apply Z.mod_pos_bound; lia).
  assert (Hc : 0 <= c < 2) by (subst c; apply Z.mod_pos_bound; lia).
  assert (Hn' : 0 <= n < 2) by (subst n; lia).
  rewrite (lor_add_low (n * 8388608) (c * 2048 * 32768) 26) by (try lia; change (2 ^ 26) with 67108864; (lia || (Z.div_mod_to_equations; lia))).
  rewrite (lor_add_low (n * 2097152) _ 23) by (try lia; change (2 ^ 23) with 8388608; (lia || (Z.div_mod_to_equations; lia))).
  rewrite (lor_add_low (b * 256 * 16) _ 21) by (try lia; change (2 ^ 21) with 2097152; (lia || (Z.div_mod_to_equations; lia))).
  rewrite (lor_add_low a _ 12) by (try lia; change (2 ^ 12) with 4096; (lia || (Z.div_mod_to_equations; lia))).
  lia.
Qed.

Ltac side := try lia; try (Z.div_mod_to_equations; lia).

Lemma a32_split_layout vs bc bs value u : 0 <= value < 2 ^ 32 -> (u = 0 \/ u = 1) ->
  forall l, layout_of A32_U23_0To3At0_4To7At8 expected_layouts = Some l ->
  eval_layout l vs bc bs value u = packer_head A32_U23_0To3At0_4To7At8 vs bc bs value u.
Proof.
  intros Hv Hu l Hl. injection Hl as <-. unfold eval_layout, packer_head, post32. cbn [l_shl1 l_vsize l_bits l_shift l_terms opt_ok].
  destruct (negb (vs =? 4) || negb (bc =? 8) || negb (bs =? 0)); [reflexivity|]. cbv zeta. f_equal.
  cbn [fold_right eval_term]. cbn [Z.leb Z.compare]. rewrite Z.lor_0_r.
  rewrite (mask_field' value 15 0 4), (mask_field' value 240 4 4) by (reflexivity || lia).
  change (2 ^ 0) with 1. rewrite Z.div_1_r, !Z.mul_1_r.
  change (2 ^ 4) with 16. change (2 ^ 8) with 256. change (2 ^ 23) with 8388608.
  set (a := value mod 16). set (b := (value / 16) mod 16).
  assert (Ha : 0 <= a < 16) by (subst a; apply Z.mod_pos_bound; lia).
  assert (Hb : 0 <= b < 16) by (subst b; apply Z.mod_pos_bound; lia).
  rewrite (lor_add_low (b * 16 * 16) (u * 8388608) 23) by (change (2 ^ 23) with 8388608; side).
  rewrite (lor_add_low a _ 8) by (change (2 ^ 8) with 256; side).
  lia.
Qed.

Lemma a32_blx_layout vs bc bs value u : 0 <= value < 2 ^ 32 ->
  forall l, layout_of A32_1To24At0_0At24 expected_layouts = Some l ->
  eval_layout l vs bc bs value u = packer_head A32_1To24At0_0At24 vs bc bs value u.
Proof.
  intros Hv l Hl. injection Hl as <-. unfold eval_layout, packer_head, post32. cbn [l_shl1 l_vsize l_bits l_shift l_terms opt_ok].
  destruct (negb (vs =? 4) || negb (bc =? 25) || negb (bs =? 0)); [reflexivity|]. cbv zeta. f_equal.
  cbn [fold_right eval_term]. cbn [Z.leb Z.compare Z.opp]. rewrite Z.lor_0_r.
  rewrite (mask_field' value 33554430 1 24), (mask_field' value 1 0 1) by (reflexivity || lia).
  change (2 ^ 0) with 1. rewrite Z.div_1_r, !Z.mul_1_r.
  change (2 ^ 1) with 2. change (2 ^ 24) with 16777216. change (2 ^ 25) with 33554432.
  rewrite Z.div_mul by lia.
  set (h := (value / 2) mod 16777216). set (b := value mod 2).
  assert (Hh : 0 <= h < 16777216) by (subst h; apply Z.mod_pos_bound; lia).
  assert (Hb : 0 <= b < 2) by (subst b; apply Z.mod_pos_bound; lia).
  rewrite (lor_add_low h (b * 16777216) 24) by (change (2 ^ 24) with 16777216; side).
  subst h b. Z.div_mod_to_equations. lia.
Qed.

Lemma a64_adr_layout t vs bc bs value u : (t = A64_ADR \/ t = A64_ADRP) -> 0 <= value < 2 ^ 32 ->
  forall l, layout_of t expected_layouts = Some l -> eval_layout l vs bc bs value u = packer_head t vs bc bs value u.
Proof.
  intros Ht Hv l Hl.
  assert (El : l = {| l_shl1 := false; l_vsize := Some 4; l_bits := Some 21; l_shift := Some 5; l_terms := [LMask 2097148 3; LMask 3 29] |})
    by (destruct Ht as [-> | ->]; injection Hl as <-; reflexivity).
  subst l. unfold eval_layout, packer_head. cbn [l_shl1 l_vsize l_bits l_shift l_terms opt_ok].
  assert (Ep : post32 t vs bc bs value u =
               if negb (vs =? 4) || negb (bc =? 21) || negb (bs =? 5) then None
               else Some ((value mod 4) * 2 ^ 29 + ((value / 4) mod 2 ^ 19) * 2 ^ 5)) by (destruct Ht as [-> | ->]; reflexivity).
  assert (Eh : match t with T32_B | T32_BLX | T32_BCond => t32_pack true t vs bc bs value | _ => post32 t vs bc bs value u end =
               post32 t vs bc bs value u) by (destruct Ht as [-> | ->]; reflexivity).
  rewrite Eh, Ep.
  destruct (negb (vs =? 4) || negb (bc =? 21) || negb (bs =? 5)); [reflexivity|]. cbv zeta. f_equal.
  cbn [fold_right eval_term]. cbn [Z.leb Z.compare]. rewrite Z.lor_0_r.
  rewrite (mask_field' value 2097148 2 19), (mask_field' value 3 0 2) by (reflexivity || lia).
  change (2 ^ 0) with 1. rewrite Z.div_1_r, !Z.mul_1_r.
  change (2 ^ 2) with 4. change (2 ^ 19) with 524288. change (2 ^ 3) with 8. change (2 ^ 29) with 536870912. change (2 ^ 5) with 32.
  set (h := (value / 4) mod 524288). set (b := value mod 4).
  assert (Hh : 0 <= h < 524288) by (subst h; apply Z.mod_pos_bound; lia).
  assert (Hb : 0 <= b < 4) by (subst b; apply Z.mod_pos_bound; lia).
  rewrite (lor_add_low (h * 4 * 8) (b * 536870912) 29) by (change (2 ^ 29) with 536870912; side).
  lia.
Qed.

Lemma t32_bcond_layout vs bc bs value u : 0 <= value < 2 ^ 32 ->
  forall l, layout_of T32_BCond expected_layouts = Some l -> eval_layout l vs bc bs value u = packer_head T32_BCond vs bc bs value u.
Proof.
  intros Hv l Hl. injection Hl as <-. unfold eval_layout, packer_head, t32_pack, bitz. cbn [l_shl1 l_vsize l_bits l_shift l_terms opt_ok].
  destruct (negb (vs =? 4) || negb (bc =? 20) || negb (bs =? 0)); [reflexivity|]. cbv zeta. f_equal.
  cbn [fold_right eval_term]. cbn [Z.leb Z.compare]. rewrite Z.lor_0_r.
  rewrite (mask_field' value 2047 0 11), (mask_field' value 129024 11 6), (mask_field' value 524288 19 1) by (reflexivity || lia).
  rewrite !land1.
  change (2 ^ 0) with 1. rewrite Z.div_1_r, !Z.mul_1_r.
  change (2 ^ 11) with 2048. change (2 ^ 6) with 64. change (2 ^ 19) with 524288. change (2 ^ 1) with 2. change (2 ^ 5) with 32.
  change (2 ^ 7) with 128. change (2 ^ 13) with 8192. change (2 ^ 17) with 131072. change (2 ^ 18) with 262144.
  change (2 ^ 16) with 65536. change (2 ^ 26) with 67108864.
  set (a := value mod 2048). set (b := (value / 2048) mod 64). set (s := (value / 524288) mod 2).
  set (j1 := (value / 131072) mod 2). set (j2 := (value / 262144) mod 2).
  assert (Ha : 0 <= a < 2048) by (subst a; apply Z.mod_pos_bound; lia).
  assert (Hb : 0 <= b < 64) by (subst b; apply Z.mod_pos_bound; lia).
  assert (Hs : 0 <= s < 2) by (subst s; apply Z.mod_pos_bound; lia).
  assert (H1 : 0 <= j1 < 2) by (subst j1; apply Z.mod_pos_bound; lia).
  assert (H2 : 0 <= j2 < 2) by (subst j2; apply Z.mod_pos_bound; lia).
  rewrite (lor_add_low (b * 2048 * 32) (s * 524288 * 128) 26) by (change (2 ^ 26) with 67108864; side).
  rewrite (lor_add_low (j1 * 8192) _ 16) by (change (2 ^ 16) with 65536; side).
  rewrite (lor_add_low (j2 * 2048) _ 13) by (change (2 ^ 13) with 8192; side).
  rewrite (lor_add_low a _ 11) by (change (2 ^ 11) with 2048; side).
  lia.
Qed.

(* B.W / BL / BLX on the (possibly doubled) uint32 value v *)
Lemma t32_b_terms v u : 0 <= v < 2 ^ 32 ->
  fold_right (fun t acc => Z.lor (eval_term v u t) acc) 0
    [LMask 2047 0; LXnor 23 21 11; LXnor 23 22 13; LMask 2095104 5; LMask 8388608 3] =
  v mod 2048 + ((v / 2048) mod 1024) * 2 ^ 16 + (bitz v 23) * 2 ^ 26 +
  ((1 - bitz v 23 + bitz v 22) mod 2) * 2 ^ 13 + ((1 - bitz v 23 + bitz v 21) mod 2) * 2 ^ 11.
Proof.
  intros Hv. unfold bitz. cbn [fold_right eval_term]. cbn [Z.leb Z.compare]. rewrite Z.lor_0_r.
  rewrite (mask_field' v 2047 0 11), (mask_field' v 2095104 11 10), (mask_field' v 8388608 23 1) by (reflexivity || lia).
  rewrite !land1, !lxor_mod2.
  change (2 ^ 0) with 1. rewrite Z.div_1_r, !Z.mul_1_r.
  change (2 ^ 32) with 4294967296 in *. change (2 ^ 11) with 2048. change (2 ^ 10) with 1024. change (2 ^ 23) with 8388608.
  change (2 ^ 22) with 4194304. change (2 ^ 21) with 2097152. change (2 ^ 1) with 2. change (2 ^ 5) with 32. change (2 ^ 3) with 8.
  change (2 ^ 13) with 8192. change (2 ^ 16) with 65536. change (2 ^ 26) with 67108864.
  assert (Ja : ((4294967296 - 1 - v) / 8388608 + v / 4194304) mod 2 = (1 - (v / 8388608) mod 2 + (v / 4194304) mod 2) mod 2)
    by (Z.div_mod_to_equations; lia).
  assert (Jb : ((4294967296 - 1 - v) / 8388608 + v / 2097152) mod 2 = (1 - (v / 8388608) mod 2 + (v / 2097152) mod 2) mod 2)
    by (Z.div_mod_to_equations; lia).
  rewrite Ja, Jb.
  set (a := v mod 2048). set (b := (v / 2048) mod 1024). set (s := (v / 8388608) mod 2).
  set (ja := (1 - s + (v / 4194304) mod 2) mod 2). set (jb := (1 - s + (v / 2097152) mod 2) mod 2).
  assert (Ha : 0 <= a < 2048) by (subst a; apply Z.mod_pos_bound; lia).
  assert (Hb : 0 <= b < 1024) by (subst b; apply Z.mod_pos_bound; lia).
  assert (Hs : 0 <= s < 2) by (subst s; apply Z.mod_pos_bound; lia).
  assert (H1 : 0 <= ja < 2) by (subst ja; apply Z.mod_pos_bound; lia).
  assert (H2 : 0 <= jb < 2) by (subst jb; apply Z.mod_pos_bound; lia).
  rewrite (lor_add_low (b * 2048 * 32) (s * 8388608 * 8) 26) by (change (2 ^ 26) with 67108864; side).
  rewrite (lor_add_low (ja * 8192) _ 16) by (change (2 ^ 16) with 65536; side).
  rewrite (lor_add_low (jb * 2048) _ 13) by (change (2 ^ 13) with 8192; side).
  rewrite (lor_add_low a _ 11) by (change (2 ^ 11) with 2048; side).
  lia.
Qed.

Lemma t32_b_layout vs bc bs value u : 0 <= value < 2 ^ 32 ->
  forall l, layout_of T32_B expected_layouts = Some l -> eval_layout l vs bc bs value u = packer_head T32_B vs bc bs value u.
Proof.
  intros Hv l Hl. injection Hl as <-. unfold eval_layout, packer_head, t32_pack. cbn [l_shl1 l_vsize l_bits l_shift l_terms opt_ok].
  rewrite !orb_false_r. destruct (negb (vs =? 4)); [reflexivity|]. cbv zeta. f_equal. apply t32_b_terms. exact Hv.
Qed.

Lemma t32_blx_layout vs bc bs value u : 0 <= value < 2 ^ 32 ->
  forall l, layout_of T32_BLX expected_layouts = Some l -> eval_layout l vs bc bs value u = packer_head T32_BLX vs bc bs value u.
Proof.
  intros Hv l Hl. injection Hl as <-. unfold eval_layout, packer_head, t32_pack, wrap. cbn [l_shl1 l_vsize l_bits l_shift l_terms opt_ok].
  rewrite !orb_false_r. destruct (negb (vs =? 4)); [reflexivity|]. cbv zeta. f_equal. apply t32_b_terms.
  apply Z.mod_pos_bound. reflexivity.
Qed.

(* the table denotes the packers of the model of HEAD, for every type it lists, every uint32 value, both signs *)
Theorem layout_pack_eq t l vs bc bs value u :
  layout_of t expected_layouts = Some l -> 0 <= value < 2 ^ 32 -> (u = 0 \/ u = 1) ->
  eval_layout l vs bc bs value u = packer_head t vs bc bs value u.
Proof.
  intros Hl Hv Hu. destruct t; try discriminate Hl.
  - apply a64_adr_layout; auto.
  - apply a64_adr_layout; auto.
  - apply t32_adr_layout; assumption.
  - apply t32_blx_layout; assumption.
  - apply t32_b_layout; assumption.
  - apply t32_bcond_layout; assumption.
  - apply a32_split_layout; assumption.
  - apply a32_blx_layout; assumption.
Qed.

(* ---------- what must NOT change: whatever a layout evaluates to lies inside its mask (generic in the table) ---------- *)
Lemma inside_shl x m n : 0 <= n -> Z.land (Z.land x m * 2 ^ n) (Z.lnot (m * 2 ^ n)) = 0.
Proof.
  intros Hn. apply Z.bits_inj'. intros i Hi. rewrite Z.land_spec, Z.lnot_spec, Z.bits_0 by lia.
  destruct (Z_lt_le_dec i n).
  - rewrite Z.mul_pow2_bits_low by lia. reflexivity.
  - rewrite !Z.mul_pow2_bits by lia. rewrite Z.land_spec. destruct (Z.testbit x (i - n)), (Z.testbit m (i - n)); reflexivity.
Qed.

Lemma inside_shr x m k : 0 <= k -> Z.land (Z.land x m / 2 ^ k) (Z.lnot (m / 2 ^ k)) = 0.
Proof.
  intros Hk. apply Z.bits_inj'. intros i Hi. rewrite Z.land_spec, Z.lnot_spec, Z.bits_0 by lia.
  rewrite !Z.div_pow2_bits by lia. rewrite Z.land_spec. destruct (Z.testbit x (i + k)), (Z.testbit m (i + k)); reflexivity.
Qed.

Lemma inside_bit b p : (b = 0 \/ b = 1) -> Z.land (b * 2 ^ p) (Z.lnot (2 ^ p)) = 0.
Proof. intros [-> | ->]; [reflexivity|]. rewrite Z.mul_1_l. apply Z.land_lnot_diag. Qed.

Lemma mod2_01 x : x mod 2 = 0 \/ x mod 2 = 1.
Proof. pose proof (Z.mod_pos_bound x 2 ltac:(lia)). lia. Qed.

Lemma term_inside v u t : (u = 0 \/ u = 1) -> Z.land (eval_term v u t) (Z.lnot (term_mask t)) = 0.
Proof.
  intros Hu. destruct t as [m net | a p | a b p | inv p]; cbn [eval_term term_mask].
  - destruct (Z.leb_spec 0 net); [apply inside_shl; lia | apply inside_shr; lia].
  - rewrite land1. apply inside_bit. apply mod2_01.
  - rewrite land1. apply inside_bit. apply mod2_01.
  - apply inside_bit. destruct inv; [|exact Hu]. destruct Hu as [-> | ->]; [right | left]; reflexivity.
Qed.

Lemma land_lor_inside x acc mx macc :
  Z.land x (Z.lnot mx) = 0 -> Z.land acc (Z.lnot macc) = 0 -> Z.land (Z.lor x acc) (Z.lnot (Z.lor mx macc)) = 0.
Proof.
  intros H1 H2. apply Z.bits_inj'. intros i Hi.
  assert (B1 := f_equal (fun z => Z.testbit z i) H1). assert (B2 := f_equal (fun z => Z.testbit z i) H2). cbv beta in B1, B2.
  rewrite Z.land_spec, Z.lnot_spec, Z.bits_0 in B1, B2 by lia.
  rewrite Z.land_spec, Z.lnot_spec, !Z.lor_spec, Z.bits_0 by lia.
  destruct (Z.testbit x i), (Z.testbit acc i), (Z.testbit mx i), (Z.testbit macc i); cbn in *; congruence.
Qed.

Theorem eval_inside_mask l vs bc bs value u m : (u = 0 \/ u = 1) ->
  eval_layout l vs bc bs value u = Some m -> Z.land m (Z.lnot (layout_mask l)) = 0.
Proof.
  intros Hu He. unfold eval_layout in He.
  destruct (negb (opt_ok (l_vsize l) vs) || negb (opt_ok (l_bits l) bc) || negb (opt_ok (l_shift l) bs)); [discriminate|].
  cbv zeta in He. apply some_inj in He. subst m. unfold layout_mask.
  induction (l_terms l) as [|t r IH]; cbn [fold_right]; [reflexivity|].
  apply land_lor_inside; [apply term_inside; exact Hu | exact IH].
Qed.

(* the masks the table implies, as numbers (the architectural field masks; the python oracle's field_mask() has the same) *)
Example layout_masks_values :
  map (fun p => layout_mask (snd p)) expected_layouts =
  [ 0x04A070FF; 0x07FF2FFF; 0x07FF2FFF; 0x043F2FFF; 0x00800F0F; 0x01FFFFFF; 0x60FFFFE0; 0x60FFFFE0 ].
Proof. vm_compute. reflexivity. Qed.

(* ---------- end to end on the model of HEAD: patching leaves every bit outside the layout's mask untouched ---------- *)
Definition is_signed_layout_type (t : otype) : bool :=
  match t with A64_ADR | A64_ADRP | A32_1To24At0_0At24 => true | _ => false end.

Lemma encode_offset32_signed_path f off : is_signed_layout_type (ty f) = true ->
  encode_offset32 f off =
  if (bits f =? 0) || (vsize f * 8 <? bits f) then None else
  match signed_checked (bits f) (discard f) off with
  | None => None
  | Some v => post32 (ty f) (vsize f) (bits f) (shift f) v 0
  end.
Proof.
  intros H. unfold encode_offset32, signed_checked, post32. destruct (ty f); try discriminate H; reflexivity.
Qed.

Lemma head_packer f off m' l :
  vsize f = 4 -> 0 < bits f <= 32 -> 0 <= discard f <= 31 -> int64 off ->
  layout_of (ty f) expected_layouts = Some l -> encode_offset32_var true true f off = Some m' ->
  exists value u, 0 <= value < 2 ^ 32 /\ (u = 0 \/ u = 1) /\ packer_head (ty f) (vsize f) (bits f) (shift f) value u = Some m'.
Proof.
  intros Hv Hb Hd Hoff Hl He.
  assert (Hg : (bits f =? 0) || (vsize f * 8 <? bits f) = false).
  { rewrite Hv. apply orb_false_iff. split; [apply Z.eqb_neq; lia | apply Z.ltb_ge; lia]. }
  unfold encode_offset32_var in He.
  destruct (is_t32_branch (ty f)) eqn:Et.
  - (* Thumb-2 branches *)
    unfold encode_offset32_t32 in He. rewrite Hg in He.
    destruct (signed_checked (bits f) (discard f) off) as [v|] eqn:Ec; [|discriminate].
    apply signed_checked_spec in Ec; [|lia|lia]. destruct Ec as (_ & _ & ->).
    exists ((off / 2 ^ discard f) mod 2 ^ 32), 0. split; [apply Z.mod_pos_bound; reflexivity|]. split; [left; reflexivity|].
    unfold packer_head. destruct (ty f); try discriminate Et; exact He.
  - destruct (is_signed_layout_type (ty f)) eqn:Es.
    + rewrite encode_offset32_signed_path in He by exact Es. rewrite Hg in He.
      destruct (signed_checked (bits f) (discard f) off) as [v|] eqn:Ec; [|discriminate].
      apply signed_checked_spec in Ec; [|lia|lia]. destruct Ec as (_ & _ & ->).
      exists ((off / 2 ^ discard f) mod 2 ^ 32), 0. split; [apply Z.mod_pos_bound; reflexivity|]. split; [left; reflexivity|].
      unfold packer_head. destruct (ty f); try discriminate Es; exact He.
    + assert (Hsb : has_sign_bit (ty f) = true) by (destruct (ty f); try discriminate Hl; try discriminate Et; try discriminate Es; reflexivity).
      rewrite signbit_spec in He by (try exact Hsb; try exact Hoff; lia).
      destruct ((Z.abs off mod 2 ^ discard f =? 0) && (Z.abs off / 2 ^ discard f <? 2 ^ bits f)) eqn:Ea; [|discriminate].
      apply abs_accept in Ea; [|lia|lia]. destruct Ea as (Hr & _).
      exists (Z.abs off / 2 ^ discard f), (if 0 <=? off then 1 else 0).
      split; [pose proof (pow2_le (bits f) 32 ltac:(lia)); lia|].
      split; [destruct (0 <=? off); [right | left]; reflexivity|].
      unfold packer_head. destruct (ty f); try discriminate Hl; try discriminate Et; try discriminate Es; exact He.
Qed.

Theorem head_write_offset_outside f old off w l :
  vsize f = 4 -> 0 < bits f <= 32 -> 0 <= discard f <= 31 -> int64 off ->
  layout_of (ty f) expected_layouts = Some l -> write_offset_var true true f old off = Some w ->
  Z.land w (Z.lnot (layout_mask l)) = Z.land old (Z.lnot (layout_mask l)) /\
  exists m, encode_offset_var true true f off = Some m /\ w = Z.lor old m /\ Z.land m (Z.lnot (layout_mask l)) = 0.
Proof.
  intros Hv Hb Hd Hoff Hl Hw. unfold write_offset_var in Hw.
  destruct (encode_offset_var true true f off) as [m|] eqn:Em; [|discriminate]. apply some_inj in Hw. subst w.
  assert (Hin : Z.land m (Z.lnot (layout_mask l)) = 0).
  { unfold encode_offset_var in Em. rewrite Hv in Em. cbn [Z.eqb Pos.eqb orb] in Em.
    destruct (encode_offset32_var true true f off) as [m'|] eqn:E32; [|discriminate]. apply some_inj in Em. subst m.
    destruct (head_packer f off m' l Hv Hb Hd Hoff Hl E32) as (value & u & Hval & Hu & Hp).
    rewrite <- (layout_pack_eq (ty f) l (vsize f) (bits f) (shift f) value u Hl Hval Hu) in Hp.
    pose proof (eval_inside_mask l _ _ _ value u m' Hu Hp) as Hi.
    change (2 ^ (8 * 4)) with (2 ^ 32). rewrite <- Z.land_ones by lia.
    rewrite <- Z.land_assoc, (Z.land_comm (Z.ones 32)), Z.land_assoc, Hi. reflexivity. }
  split.
  - rewrite Z.land_lor_distr_l, Hin, Z.lor_0_r. reflexivity.
  - exists m. repeat split; assumption.
Qed.

(* non-vacuity: the table evaluates to the llvm-mc encodings (b.w +2 -> 0x2801, bne.w +0x40000 -> 0x2000, adr x, -4 -> immhi all ones, immlo 0) *)
Example layout_eval_witness :
  (exists l, layout_of T32_B expected_layouts = Some l /\ eval_layout l 4 24 0 1 0 = Some 0x2801) /\
  (exists l, layout_of T32_BCond expected_layouts = Some l /\ eval_layout l 4 20 0 131072 0 = Some 0x2000) /\
  (exists l, layout_of A64_ADR expected_layouts = Some l /\ eval_layout l 4 21 5 (2 ^ 32 - 4) 0 = Some 0x00FFFFE0 /\
             eval_layout l 4 21 4 0 0 = None) /\
  layout_of SignedOffset expected_layouts = None.
Proof. repeat split; try (eexists; split; [reflexivity|]); vm_compute; try reflexivity. split; reflexivity. Qed.

(* fixup.h: has_sign_bit of the model is exactly the list in the source; every constructor is an enumerator, once *)
Theorem has_sign_bit_spec t : has_sign_bit t = true <-> In t expected_sign_types.
Proof.
  unfold expected_sign_types. split.
  - destruct t; intros H; try discriminate H; cbn; tauto.
  - intros [<- | [<- | [<- | [<- | []]]]]; reflexivity.
Qed.

Theorem otype_order_complete t : In t expected_otype_order /\ NoDup expected_otype_order.
Proof.
  split; [destruct t; cbn; tauto|].
  unfold expected_otype_order. repeat constructor; cbn; intuition discriminate.
Qed.

(* armutils.h: the constants of the table are the ones the model computes with *)
Theorem arm_consts_used :
  (forall n p, In (n, p) expected_fp_params -> fp_params n = p) /\
  (forall imm, is_add_sub_imm imm = ((imm <=? nth 0 expected_arm_consts 0) ||
                                     (Z.land imm (not64 (nth 0 expected_arm_consts 0 * 2 ^ nth 1 expected_arm_consts 0)) =? 0))) /\
  (forall imm, is_byte_mask_imm imm = (imm =? (Z.land imm (nth 2 expected_arm_consts 0) * 255) mod 2 ^ 64)).
Proof.
  split; [|split; intros imm; reflexivity].
  intros n p [H | [H | [H | [H | []]]]]; injection H as <- <-; reflexivity.
Qed.

(* every format the backends build satisfies the hypotheses of a round-trip / refusal theorem *)
Lemma fmt_supported_sound f : fmt_supported f = true ->
  (ty f = SignedOffset /\ wf_contig f) \/ (ty f = UnsignedOffset /\ (wf_contig32 f \/ wf_contig64 f)) \/ is_adr_fmt f.
Proof.
  unfold fmt_supported. intros H.
  destruct (ty f) eqn:Ety; try discriminate H.
  - left. split; [reflexivity|].
    repeat (apply andb_true_iff in H; destruct H as [H ?]).
    repeat match goal with
           | H : (_ <=? _) = true |- _ => apply Z.leb_le in H
           | H : (_ <? _) = true |- _ => apply Z.ltb_lt in H
           end.
    unfold wf_contig. repeat split; lia.
  - right; left. split; [reflexivity|]. apply wf_contig_cases.
    repeat (apply andb_true_iff in H; destruct H as [H ?]).
    repeat match goal with
           | H : (_ <=? _) = true |- _ => apply Z.leb_le in H
           | H : (_ <? _) = true |- _ => apply Z.ltb_lt in H
           end.
    unfold wf_contig. repeat split; lia.
  - right; right.
    repeat (apply andb_true_iff in H; destruct H as [H ?]).
    repeat match goal with
           | H : (_ <=? _) = true |- _ => apply Z.leb_le in H
           | H : (_ =? _) = true |- _ => apply Z.eqb_eq in H
           end.
    unfold is_adr_fmt. rewrite Ety. repeat split; try lia; try (left; reflexivity).
  - right; right.
    repeat (apply andb_true_iff in H; destruct H as [H ?]).
    repeat match goal with
           | H : (_ <=? _) = true |- _ => apply Z.leb_le in H
           | H : (_ =? _) = true |- _ => apply Z.eqb_eq in H
           end.
    unfold is_adr_fmt. rewrite Ety. repeat split; try lia; try (right; reflexivity).
Qed.

Lemma used_formats_supported : forallb fmt_supported expected_used_formats = true.
Proof. vm_compute. reflexivity. Qed.

Theorem used_formats_covered f : In f expected_used_formats ->
  (ty f = SignedOffset /\ wf_contig f) \/ (ty f = UnsignedOffset /\ (wf_contig32 f \/ wf_contig64 f)) \/ is_adr_fmt f.
Proof.
  intros H. apply fmt_supported_sound. pose proof used_formats_supported as Hs. rewrite forallb_forall in Hs. apply Hs. exact H.
Qed.

(* the wire numbering is a bijection between 0..11 and the constructors *)
Theorem otype_of_index_spec t : exists i, 0 <= i < 12 /\ otype_of_index i = Some t /\ forall j, otype_of_index j = Some t -> j = i.
Proof.
  assert (Hall : forall j t', otype_of_index j = Some t' -> 0 <= j < 12).
  { intros j t' H. unfold otype_of_index in H. destruct (Z.ltb_spec j 0); [discriminate|].
    assert (Hl : (Z.to_nat j < length expected_otype_order)%nat) by (apply nth_error_Some; congruence).
    cbn in Hl. lia. }
  assert (Hc : forall j, 0 <= j < 12 -> j = 0 \/ j = 1 \/ j = 2 \/ j = 3 \/ j = 4 \/ j = 5 \/ j = 6 \/ j = 7 \/ j = 8 \/ j = 9 \/ j = 10 \/ j = 11) by (intros; lia).
  destruct t;
    [exists 0 | exists 1 | exists 2 | exists 3 | exists 4 | exists 5 | exists 6 | exists 7 | exists 8 | exists 9 | exists 10 | exists 11];
    (split; [lia|]); (split; [reflexivity|]); intros j Hj; pose proof (Hall j _ Hj) as Hr;
    destruct (Hc j Hr) as [-> | [-> | [-> | [-> | [-> | [-> | [-> | [-> | [-> | [-> | [-> | ->]]]]]]]]]]]; try reflexivity; discriminate Hj.
Qed.

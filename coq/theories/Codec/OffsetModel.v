(* C17 — executable model of CodeWriterUtils::encode_offset32 / encode_offset64 / write_offset
   (asmjit/core/codewriter.cpp) and the *architectural* field decoders written from the manuals.
   No proofs in this file.  Words are Z in [0, 2^(8*size)); offsets are Z in int64 range.  Disjoint
   bit-wise ORs of the C++ are written as sums (the correspondence check ties this to the code). *)
From Coq Require Import ZArith List Bool.
Import ListNotations.
Local Open Scope Z_scope.

Inductive otype :=
| SignedOffset | UnsignedOffset | A64_ADR | A64_ADRP
| T32_ADR | T32_BLX | T32_B | T32_BCond
| A32_ADR | A32_U23 | A32_U23_0To3At0_4To7At8 | A32_1To24At0_0At24.

Record fmt := { ty : otype; vsize : Z; bits : Z; shift : Z; discard : Z }.

Definition has_sign_bit (t : otype) : bool :=
  match t with T32_ADR | A32_ADR | A32_U23 | A32_U23_0To3At0_4To7At8 => true | _ => false end.

(* two's complement helpers *)
Definition wrap (n x : Z) : Z := x mod 2 ^ n.                       (* to unsigned n-bit *)
Definition sext (n x : Z) : Z :=                                    (* unsigned n-bit -> signed *)
  let y := x mod 2 ^ n in if y <? 2 ^ (n - 1) then y else y - 2 ^ n.
Definition to_i64 (x : Z) : Z := sext 64 x.
Definition bitz (x i : Z) : Z := (x / 2 ^ i) mod 2.

(* ---- arm::Utils::encode_aarch32_imm (armutils.h) ---- *)
Fixpoint ctz_fuel (fuel : nat) (v : Z) (acc : Z) : Z :=
  match fuel with
  | O => acc
  | S f => if Z.odd v then acc else ctz_fuel f (v / 2) (acc + 1)
  end.
Definition ctz32 (v : Z) : Z := ctz_fuel 32 v 0.
Definition ror32 (v n : Z) : Z :=
  let n := n mod 32 in ((v / 2 ^ n) + (v mod 2 ^ n) * 2 ^ (32 - n)) mod 2 ^ 32.

Definition encode_aarch32_imm (imm : Z) : option Z :=
  if 2 ^ 32 <=? imm then None else
  let v := imm in
  if v <=? 255 then Some v else
  let '(v, r) := if (Z.land v 4278190335 (* 0xFF0000FF *)) =? 0 then (v, 0) else (ror32 v 16, 16) in
  let n := Z.land (ctz32 v) (Z.lnot 1) in
  let r := Z.land (wrap 32 (r - n)) 30 in
  let v := ror32 v n in
  if 255 <? v then None else Some (v + r * 2 ^ 7).

(* ---- encode_offset32 ---- *)
Definition encode_offset32 (f : fmt) (off0 : Z) : option Z :=
  let bc := bits f in let bs := shift f in let dl := discard f in
  if (bc =? 0) || (vsize f * 8 <? bc) then None else
  let sgn := has_sign_bit (ty f) in
  let u := if sgn then (if 0 <=? off0 then 1 else 0) else 0 in
  let off := if sgn && (u =? 0) then to_i64 (- off0) else off0 in
  let unsigned_logic := sgn || match ty f with UnsignedOffset => true | _ => false end in
  let checked : option Z :=
    if unsigned_logic then
      if negb (dl =? 0) && negb ((off mod 2 ^ dl) =? 0) then None else
      let off := if dl =? 0 then off else to_i64 ((wrap 64 off) / 2 ^ dl) in
      let value := off mod 2 ^ bc in
      if value =? off then Some value else None
    else
      if negb (dl =? 0) && negb ((off mod 2 ^ dl) =? 0) then None else
      let off := off / 2 ^ dl in
      if negb ((- 2 ^ 31 <=? off) && (off <? 2 ^ 31)) then None else
      let value := wrap 32 off in
      (* is_encodable_offset_32(int32(value), bit_count): shl/sar round trip == fits in bit_count signed bits *)
      if (- 2 ^ (bc - 1) <=? off) && (off <? 2 ^ (bc - 1)) then Some value else None
  in
  match checked with
  | None => None
  | Some value =>
    match ty f with
    | SignedOffset | UnsignedOffset => Some (wrap 32 ((value mod 2 ^ bc) * 2 ^ bs))
    | T32_ADR =>
      if negb (vsize f =? 4) || negb (bc =? 12) || negb (bs =? 0) then None else
      let imm8 := value mod 256 in
      let imm3 := ((value / 256) mod 8) * 2 ^ 12 in
      let imm1 := ((value / 2048) mod 2) * 2 ^ 26 in
      let n := 1 - u in
      Some (imm8 + imm3 + imm1 + n * 2 ^ 21 + n * 2 ^ 23)
    | T32_BLX | T32_B =>
      let value := match ty f with T32_BLX => wrap 32 (value * 2) | _ => value end in
      if negb (vsize f =? 4) then None else
      let ia := value mod 2048 in
      let ib := ((value / 2048) mod 1024) * 2 ^ 16 in
      let ic := (bitz value 23) * 2 ^ 26 in
      let ja := (1 - bitz value 23 + bitz value 22) mod 2 in
      let jb := (1 - bitz value 23 + bitz value 21) mod 2 in
      Some (ia + ib + ic + ja * 2 ^ 14 + jb * 2 ^ 11)
    | T32_BCond =>
      if negb (vsize f =? 4) || negb (bc =? 20) || negb (bs =? 0) then None else
      let ia := value mod 2048 in
      let ib := ((value / 2048) mod 64) * 2 ^ 16 in
      let ic := (bitz value 19) * 2 ^ 26 in
      let ja := (1 - bitz value 19 + bitz value 22) mod 2 in
      let jb := (1 - bitz value 19 + bitz value 21) mod 2 in
      Some (ia + ib + ic + ja * 2 ^ 14 + jb * 2 ^ 11)
    | A32_ADR =>
      match encode_aarch32_imm value with
      | None => None
      | Some e => Some (Z.lor (wrap 32 (2 ^ 22 * 2 ^ u)) (wrap 32 (e * 2 ^ bs)))
      end
    | A32_U23 => Some (Z.lor (wrap 32 (value * 2 ^ bs)) (u * 2 ^ 23))
    | A32_U23_0To3At0_4To7At8 =>
      if negb (vsize f =? 4) || negb (bc =? 8) || negb (bs =? 0) then None else
      Some (value mod 16 + ((value / 16) mod 16) * 2 ^ 8 + u * 2 ^ 23)
    | A32_1To24At0_0At24 =>
      if negb (vsize f =? 4) || negb (bc =? 25) || negb (bs =? 0) then None else
      Some ((value mod 2) * 2 ^ 24 + (value mod 2 ^ 25) / 2)
    | A64_ADR | A64_ADRP =>
      if negb (vsize f =? 4) || negb (bc =? 21) || negb (bs =? 5) then None else
      Some ((value mod 4) * 2 ^ 29 + ((value / 4) mod 2 ^ 19) * 2 ^ 5)
    end
  end.

(* ---- encode_offset64 ---- *)
Definition encode_offset64 (f : fmt) (off : Z) : option Z :=
  let bc := bits f in let dl := discard f in
  if (bc =? 0) || (vsize f * 8 <? bc) then None else
  let checked : option Z :=
    match ty f with
    | UnsignedOffset =>
      if negb (dl =? 0) && negb ((off mod 2 ^ dl) =? 0) then None else
      let off := if dl =? 0 then off else to_i64 ((wrap 64 off) / 2 ^ dl) in
      let value := (wrap 64 off) mod 2 ^ bc in
      if value =? wrap 64 off then Some value else None
    | _ =>
      if negb (dl =? 0) && negb ((off mod 2 ^ dl) =? 0) then None else
      let off := off / 2 ^ dl in
      (* is_encodable_offset_64 *)
      if (- 2 ^ (bc - 1) <=? off) && (off <? 2 ^ (bc - 1)) then Some (wrap 64 off) else None
    end in
  match checked with
  | None => None
  | Some value =>
    match ty f with
    | SignedOffset | UnsignedOffset => Some (wrap 64 ((value mod 2 ^ bc) * 2 ^ (shift f)))
    | _ => None
    end
  end.

(* ---- write_offset: OR the mask into the little-endian word of vsize bytes ---- *)
Definition encode_offset (f : fmt) (off : Z) : option Z :=
  if (vsize f =? 1) || (vsize f =? 2) || (vsize f =? 4) then
    match encode_offset32 f off with
    | Some m => Some (m mod 2 ^ (8 * vsize f))   (* uint8_t/uint16_t cast of the 32-bit mask *)
    | None => None
    end
  else if vsize f =? 8 then encode_offset64 f off
  else None.

Definition write_offset (f : fmt) (old : Z) (off : Z) : option Z :=
  match encode_offset f off with
  | Some m => Some (Z.lor old m)
  | None => None
  end.

(* little-endian bytes <-> word (for the byte-level statement) *)
Fixpoint le_join (bs : list Z) : Z :=
  match bs with [] => 0 | b :: r => b + 256 * le_join r end.
Fixpoint le_split (n : nat) (w : Z) : list Z :=
  match n with O => [] | S k => (w mod 256) :: le_split k (w / 256) end.

Definition write_offset_bytes (f : fmt) (region : list Z) (value_offset : nat) (off : Z) : option (list Z) :=
  let n := Z.to_nat (vsize f) in
  let pre := firstn value_offset region in
  let mid := firstn n (skipn value_offset region) in
  let post := skipn (value_offset + n) region in
  if negb (Nat.eqb (length mid) n) then None else
  match write_offset f (le_join mid) off with
  | Some w => Some (pre ++ le_split n w ++ post)
  | None => None
  end.

(* ================= architectural decoders (from the manuals, independent of the code) ========= *)

Definition field_mask (f : fmt) : Z := (2 ^ bits f - 1) * 2 ^ shift f.
Definition field_raw (f : fmt) (w : Z) : Z := (w / 2 ^ shift f) mod 2 ^ bits f.

(* contiguous field: signed / unsigned displacement scaled by 2^discard *)
Definition decode_signed (f : fmt) (w : Z) : Z := sext (bits f) (field_raw f w) * 2 ^ discard f.
Definition decode_unsigned (f : fmt) (w : Z) : Z := field_raw f w * 2 ^ discard f.

(* A64 ADR/ADRP (ARM ARM C6.2.10/11): imm = SignExtend(immhi:immlo, 21) *)
Definition decode_a64_adr (w : Z) : Z :=
  sext 21 (((w / 2 ^ 5) mod 2 ^ 19) * 4 + (w / 2 ^ 29) mod 4).
Definition a64_adr_mask : Z := 3 * 2 ^ 29 + (2 ^ 19 - 1) * 2 ^ 5.

(* T32 ADR (T2: SUB form, bits 21 and 23 set; T3: ADD form): imm32 = ZeroExtend(i:imm3:imm8) *)
Definition decode_t32_adr (w : Z) : Z :=
  let imm := (w mod 256) + ((w / 2 ^ 12) mod 8) * 256 + (bitz w 26) * 2048 in
  if (bitz w 21 =? 1) && (bitz w 23 =? 1) then - imm else imm.

(* T32 B.W (T4) / BL / BLX: I1 = NOT(J1 EOR S), I2 = NOT(J2 EOR S); imm32 = SignExtend(S:I1:I2:imm10:imm11:'0')
   J1 = bit 13, J2 = bit 11, S = bit 26, imm10 = bits 25..16, imm11 = bits 10..0. Returns offset/2. *)
Definition decode_t32_b (w : Z) : Z :=
  let s := bitz w 26 in let j1 := bitz w 13 in let j2 := bitz w 11 in
  let i1 := (1 - (j1 + s) mod 2) in let i2 := (1 - (j2 + s) mod 2) in
  sext 24 (s * 2 ^ 23 + i1 * 2 ^ 22 + i2 * 2 ^ 21 + ((w / 2 ^ 16) mod 1024) * 2 ^ 11 + w mod 2048).
(* T32 B<c>.W (T3): imm32 = SignExtend(S:J2:J1:imm6:imm11:'0').  Returns offset/2. *)
Definition decode_t32_bcond (w : Z) : Z :=
  let s := bitz w 26 in let j1 := bitz w 13 in let j2 := bitz w 11 in
  sext 20 (s * 2 ^ 19 + j2 * 2 ^ 18 + j1 * 2 ^ 17 + ((w / 2 ^ 16) mod 64) * 2 ^ 11 + w mod 2048).

(* A32 modified immediate: ARMExpandImm(imm12) = ROR(ZeroExtend(imm12<7:0>), 2*imm12<11:8>) *)
Definition arm_expand_imm (imm12 : Z) : Z := ror32 (imm12 mod 256) (2 * ((imm12 / 256) mod 16)).
(* A32 ADR (A1: ADD form, bit 23; A2: SUB form, bit 22): imm32 = ARMExpandImm(imm12), imm12 at `shift` (0 in the ISA) *)
Definition decode_a32_adr (f : fmt) (w : Z) : Z :=
  let imm := arm_expand_imm ((w / 2 ^ shift f) mod 4096) in
  if (bitz w 22 =? 1) && (bitz w 23 =? 0) then - imm else imm.
(* A32 U-bit formats: offset = (U ? + : -) imm *)
Definition decode_a32_u23 (f : fmt) (w : Z) : Z :=
  let imm := field_raw f w in if bitz w 23 =? 1 then imm else - imm.
Definition decode_a32_u23_split (w : Z) : Z :=
  let imm := w mod 16 + ((w / 2 ^ 8) mod 16) * 16 in if bitz w 23 =? 1 then imm else - imm.
(* A32 BLX (A2): imm32 = SignExtend(imm24:H:'0') with H = bit 24; returns offset/2 (25-bit signed) *)
Definition decode_a32_blx (w : Z) : Z := sext 25 ((w mod 2 ^ 24) * 2 + bitz w 24).

(* well-formed contiguous formats: what reset_to_simple_value/reset_to_imm_value are asserted to build *)
Definition wf_contig32 (f : fmt) : Prop :=
  (vsize f = 1 \/ vsize f = 2 \/ vsize f = 4) /\ 0 < bits f /\ 0 <= shift f /\ bits f + shift f <= 8 * vsize f /\
  0 <= discard f <= 31.
Definition wf_contig64 (f : fmt) : Prop :=
  vsize f = 8 /\ 0 < bits f /\ 0 <= shift f /\ bits f + shift f <= 64 /\ 0 <= discard f <= 31.
Definition int64 (x : Z) : Prop := - 2 ^ 63 <= x < 2 ^ 63.

(* C17 — end to end for the formats in use: every OffsetFormat the backends build (LayoutModel.expected_used_formats, re-extracted
   from the reset_to_* call sites on every run) round-trips for every int64 offset it accepts, and refuses exactly the offsets
   that have no field value; no hypothesis on the format is left. *)
From Coq Require Import ZArith Lia Bool List.
From Verif Require Import Base.ZBits Codec.OffsetModel Codec.OffsetProofs Codec.OffsetFormatsProofs Codec.Unsigned64Proofs
  Codec.LayoutModel Codec.LayoutProofs Codec.RefusalProofs.
Local Open Scope Z_scope.

Definition decoded (f : fmt) (m : Z) : Z :=
  match ty f with
  | SignedOffset => decode_signed f m
  | UnsignedOffset => decode_unsigned f m
  | _ => decode_a64_adr m * 2 ^ discard f
  end.
(* what the argument means: the int64 offset, except for 8-byte unsigned fields where it is the image of a uint64 value *)
Definition meant (f : fmt) (off : Z) : Z :=
  match ty f with UnsignedOffset => if vsize f =? 8 then off mod 2 ^ 64 else off | _ => off end.

Theorem used_formats_roundtrip f off m :
  In f expected_used_formats -> int64 off -> encode_offset f off = Some m -> decoded f m = meant f off.
Proof.
  intros Hin Hoff He. unfold decoded, meant.
  destruct (used_formats_covered f Hin) as [(Hty & Hwf) | [(Hty & Hwf) | Hadr]].
  - rewrite Hty. exact (proj1 (signed_roundtrip f off m Hty Hwf Hoff He)).
  - rewrite Hty. destruct Hwf as [H32 | H64].
    + assert (E : (vsize f =? 8) = false) by (destruct H32 as ([E | [E | E]] & _); rewrite E; reflexivity).
      rewrite E. exact (proj1 (unsigned32_roundtrip f off m Hty H32 Hoff He)).
    + assert (E : (vsize f =? 8) = true) by (destruct H64 as (E & _); rewrite E; reflexivity).
      rewrite E. exact (proj1 (unsigned64_roundtrip f off m Hty H64 Hoff He)).
  - pose proof Hadr as ([Hty | Hty] & _); rewrite Hty; exact (proj1 (a64_adr_roundtrip f off m Hadr Hoff He)).
Qed.

Theorem used_formats_refused_iff f off :
  In f expected_used_formats -> int64 off ->
  (encode_offset f off = None <->
   ~ match ty f with
     | UnsignedOffset => unsigned_ok f (meant f off)
     | _ => signed_ok f off
     end).
Proof.
  intros Hin Hoff. unfold meant.
  destruct (used_formats_covered f Hin) as [(Hty & Hwf) | [(Hty & Hwf) | Hadr]].
  - rewrite Hty. apply signed_refused_iff; assumption.
  - rewrite Hty. destruct Hwf as [H32 | H64].
    + assert (E : (vsize f =? 8) = false) by (destruct H32 as ([E | [E | E]] & _); rewrite E; reflexivity).
      rewrite E. apply unsigned32_refused_iff; assumption.
    + assert (E : (vsize f =? 8) = true) by (destruct H64 as (E & _); rewrite E; reflexivity).
      rewrite E. apply unsigned64_refused_iff; assumption.
  - pose proof Hadr as ([Hty | Hty] & _); rewrite Hty; unfold signed_ok;
      apply (signed_layout_refused_iff f off (or_introl Hadr) Hoff).
Qed.

Example used_formats_witness :
  In {| ty := SignedOffset; vsize := 4; bits := 19; shift := 5; discard := 2 |} expected_used_formats /\
  In {| ty := A64_ADRP; vsize := 4; bits := 21; shift := 5; discard := 12 |} expected_used_formats /\
  length expected_used_formats = 13%nat.
Proof. cbn. repeat split; tauto. Qed.

(* C17 — SOUNDNESS of the AArch64 logical-immediate encoder model (ImmModel.encode_logical_imm) for EVERY value:
   whatever the encoder accepts decodes (ARM ARM DecodeBitMasks) to exactly the value that was given.

   Structure of the proof
   (1) the encoder is  encode_core (elem_width 6 imm m) (imm mod 2^w)  (definitional);
   (2) acceptance by encode_core forces  must_be_zero = 0, hence (not64 is injective below 2^64, xor is an involution)
       the masked element is a member of the 3-parameter family  fam a b c = ones a xor ones b xor ones c,
       a, b, c in [0,64]  (only the trivial bound 0 <= ctz64 x <= 64 is needed);
   (3) the family is FINITE: for each element width w and register width m the real encoder core (with ctz64 replaced by
       a provably equal faster count of trailing zeros) is run on every member (sorted triples; the family is symmetric) and its answer is decoded -- a `forallb` closed by vm_compute,
       lifted with forallb_forall; the sweep also checks the ranges of the produced fields N, imms, immr;
   (4) the width search elem_width returns w = 2^j (1 <= j) dividing m such that imm is w-periodic below 2^m, i.e.
       imm = replicate_bits (m/w) w (imm mod 2^w): induction on the fuel of elem_width.
   No proofs are left open in this file. *)
From Coq Require Import ZArith Lia Bool List.
From Verif Require Import Base.ZBits Codec.ImmModel Codec.ImmProofs.
Import ListNotations.
Local Open Scope Z_scope.

(* ------------------------------------------------------------------------------------------------ *)
(* (1) the encoder after the width search *)
Definition encode_core_gen (ctz : Z -> Z) (width imm : Z) : option logimm :=
  let lm := lsb_mask width in
  if (imm =? 0) || (imm =? lm) then None else
  let z_index := ctz (not64 imm) in
  let z_imm := Z.lxor imm (lsb_mask z_index) in
  let z_count := (if z_imm =? 0 then width else ctz z_imm) - z_index in
  let o_index := z_index + z_count in
  let o_imm := not64 (Z.lxor z_imm (lsb_mask o_index)) in
  let o_count := (if o_imm =? 0 then width else ctz o_imm) - o_index in
  let must_be_zero := Z.lxor o_imm (not64 (lsb_mask (o_index + o_count))) in
  if negb (must_be_zero =? 0) || ((0 <? z_index) && negb (width - (o_index + o_count) =? 0)) then None else
  Some {| li_n := if width =? 64 then 1 else 0;
          li_s := Z.lor (o_count + z_index - 1) (Z.land ((2 ^ 32 - width * 2) mod 2 ^ 32) 63);
          li_r := width - o_index |}.
Definition encode_core : Z -> Z -> option logimm := encode_core_gen ctz64.

Lemma encode_logical_imm_core imm0 width0 :
  encode_logical_imm imm0 width0 =
  encode_core (elem_width 6 imm0 width0) (Z.land imm0 (lsb_mask (elem_width 6 imm0 width0))).
Proof. reflexivity. Qed.

(* ------------------------------------------------------------------------------------------------ *)
(* small facts *)
Lemma lsb_mask_ones k : lsb_mask k = Z.ones k.
Proof. unfold lsb_mask. rewrite Z.ones_equiv. lia. Qed.

Lemma land_lsb_mask x k : 0 <= k -> Z.land x (lsb_mask k) = x mod 2 ^ k.
Proof. intros Hk. rewrite lsb_mask_ones. apply Z.land_ones. exact Hk. Qed.

Lemma lsb_mask_bound k n : 0 <= k <= n -> 0 <= lsb_mask k < 2 ^ n.
Proof.
  intros H. unfold lsb_mask. pose proof (pow2_pos k ltac:(lia)). pose proof (pow2_le k n ltac:(lia)). lia.
Qed.

Lemma ctz_fuel_bound fuel : forall v acc, acc <= ctz_fuel fuel v acc <= acc + Z.of_nat fuel.
Proof.
  induction fuel as [|f IH]; intros v acc.
  - cbn [ctz_fuel]. change (Z.of_nat 0) with 0. lia.
  - cbn [ctz_fuel]. rewrite Nat2Z.inj_succ. destruct (Z.odd v); [lia|].
    specialize (IH (v / 2) (acc + 1)). lia.
Qed.

Lemma ctz64_bound v : 0 <= ctz64 v <= 64.
Proof. unfold ctz64. pose proof (ctz_fuel_bound 64 v 0) as H. change (Z.of_nat 64) with 64 in H. lia. Qed.

Lemma lxor_bound n a b : 0 <= n -> 0 <= a < 2 ^ n -> 0 <= b < 2 ^ n -> 0 <= Z.lxor a b < 2 ^ n.
Proof.
  intros Hn Ha Hb.
  assert (H0 : 0 <= Z.lxor a b) by (apply Z.lxor_nonneg; lia).
  split; [exact H0|].
  destruct (Z.eq_dec (Z.lxor a b) 0) as [E|E]; [rewrite E; apply pow2_pos; lia|].
  apply Z.log2_lt_pow2; [lia|].
  pose proof (Z.log2_lxor a b ltac:(lia) ltac:(lia)) as HL.
  assert (Hn0 : 0 < n).
  { destruct (Z.eq_dec n 0) as [->|]; [|lia]. exfalso. apply E.
    change (2 ^ 0) with 1 in *. assert (a = 0) by lia. assert (b = 0) by lia. subst. reflexivity. }
  assert (La : Z.log2 a < n).
  { destruct (Z.eq_dec a 0) as [->|]; [exact Hn0|]. apply Z.log2_lt_pow2; lia. }
  assert (Lb : Z.log2 b < n).
  { destruct (Z.eq_dec b 0) as [->|]; [exact Hn0|]. apply Z.log2_lt_pow2; lia. }
  lia.
Qed.

Lemma not64_inj a b : 0 <= a < 2 ^ 64 -> 0 <= b < 2 ^ 64 -> not64 a = not64 b -> a = b.
Proof.
  intros Ha Hb H. unfold not64 in H. rewrite (Z.mod_small a), (Z.mod_small b) in H by lia. lia.
Qed.

Lemma lxor3 i a b : i = Z.lxor (Z.lxor a b) (Z.lxor (Z.lxor i a) b).
Proof.
  apply Z.bits_inj'. intros n _. rewrite !Z.lxor_spec.
  destruct (Z.testbit i n), (Z.testbit a n), (Z.testbit b n); reflexivity.
Qed.

(* a trailing-zero count on the binary representation that computes fast (the model's ctz_fuel divides by 2 with
   the general Z.div, ~1 ms per call inside vm_compute); equal to ctz64 for EVERY argument *)
Fixpoint pos_ctz (fuel : nat) (p : positive) (acc : Z) : Z :=
  match fuel with
  | O => acc
  | S f => match p with xO q => pos_ctz f q (acc + 1) | _ => acc end
  end.
Definition ctz_fast (v : Z) : Z :=
  match v with Z0 => 64 | Zpos p => pos_ctz 64 p 0 | Zneg _ => ctz64 v end.

Lemma ctz_fuel_pos fuel : forall p acc, ctz_fuel fuel (Zpos p) acc = pos_ctz fuel p acc.
Proof.
  induction fuel as [|f IH]; intros p acc; [reflexivity|].
  cbn [ctz_fuel pos_ctz]. destruct p as [q|q|].
  - reflexivity.
  - change (Z.odd (Z.pos q~0)) with false. cbv iota.
    replace (Z.pos q~0 / 2) with (Z.pos q); [apply IH|].
    change (Z.pos q~0) with (2 * Z.pos q). rewrite Z.mul_comm, Z.div_mul by lia. reflexivity.
  - reflexivity.
Qed.

Lemma ctz_fuel_zero fuel : forall acc, ctz_fuel fuel 0 acc = acc + Z.of_nat fuel.
Proof.
  induction fuel as [|f IH]; intros acc.
  - cbn [ctz_fuel]. change (Z.of_nat 0) with 0. lia.
  - cbn [ctz_fuel]. change (Z.odd 0) with false. cbv iota. change (0 / 2) with 0.
    rewrite IH, Nat2Z.inj_succ. lia.
Qed.

Lemma ctz64_fast v : ctz64 v = ctz_fast v.
Proof.
  destruct v as [|p|p]; [|apply ctz_fuel_pos|reflexivity].
  unfold ctz64. rewrite ctz_fuel_zero. reflexivity.
Qed.

Definition encode_core_fast : Z -> Z -> option logimm := encode_core_gen ctz_fast.
Lemma encode_core_fast_eq w v : encode_core w v = encode_core_fast w v.
Proof. unfold encode_core, encode_core_fast, encode_core_gen. cbv zeta. rewrite !ctz64_fast. reflexivity. Qed.

(* ------------------------------------------------------------------------------------------------ *)
(* (2) an accepted element is a member of the family *)
Definition fam (a b c : Z) : Z := Z.lxor (Z.lxor (lsb_mask a) (lsb_mask b)) (lsb_mask c).

Lemma encode_core_family w imm e :
  0 <= w <= 64 -> 0 <= imm < 2 ^ w -> encode_core w imm = Some e ->
  exists a b c, 0 <= a <= 64 /\ 0 <= b <= 64 /\ 0 <= c <= 64 /\ imm = fam a b c.
Proof.
  intros Hw Hi He. unfold encode_core, encode_core_gen in He. cbv zeta in He.
  destruct ((imm =? 0) || (imm =? lsb_mask w)); [discriminate|].
  set (zi := ctz64 (not64 imm)) in *.
  set (z_imm := Z.lxor imm (lsb_mask zi)) in *.
  set (oi := zi + ((if z_imm =? 0 then w else ctz64 z_imm) - zi)) in *.
  set (o_imm := not64 (Z.lxor z_imm (lsb_mask oi))) in *.
  set (oc := oi + ((if o_imm =? 0 then w else ctz64 o_imm) - oi)) in *.
  destruct (Z.eqb_spec (Z.lxor o_imm (not64 (lsb_mask oc))) 0) as [Hz|Hz]; cbn [negb orb] in He; [|discriminate].
  clear He.
  assert (Hzi : 0 <= zi <= 64) by (subst zi; apply ctz64_bound).
  assert (Hoi : 0 <= oi <= 64).
  { subst oi. pose proof (ctz64_bound z_imm). destruct (z_imm =? 0); lia. }
  assert (Hoc : 0 <= oc <= 64).
  { subst oc. pose proof (ctz64_bound o_imm). destruct (o_imm =? 0); lia. }
  exists zi, oi, oc. split; [exact Hzi|]. split; [exact Hoi|]. split; [exact Hoc|].
  apply Z.lxor_eq in Hz. subst o_imm.
  pose proof (pow2_le w 64 ltac:(lia)) as Hw64.
  assert (Hzimm : 0 <= z_imm < 2 ^ 64).
  { subst z_imm. apply lxor_bound; [lia|lia|]. apply lsb_mask_bound; lia. }
  apply not64_inj in Hz.
  - unfold fam. rewrite <- Hz. subst z_imm. apply lxor3.
  - apply lxor_bound; [lia|exact Hzimm|]. apply lsb_mask_bound; lia.
  - apply lsb_mask_bound; lia.
Qed.

(* the family is symmetric, so sorted parameters suffice *)
Lemma fam_swap12 a b c : fam a b c = fam b a c.
Proof. unfold fam. rewrite (Z.lxor_comm (lsb_mask a)). reflexivity. Qed.
Lemma fam_swap23 a b c : fam a b c = fam a c b.
Proof. unfold fam. rewrite !Z.lxor_assoc. rewrite (Z.lxor_comm (lsb_mask b)). reflexivity. Qed.

Lemma fam_sorted a b c :
  0 <= a <= 64 -> 0 <= b <= 64 -> 0 <= c <= 64 ->
  exists a' b' c', 0 <= a' /\ a' <= b' /\ b' <= c' /\ c' <= 64 /\ fam a b c = fam a' b' c'.
Proof.
  intros Ha Hb Hc.
  destruct (Z_le_gt_dec a b), (Z_le_gt_dec b c), (Z_le_gt_dec a c).
  - exists a, b, c. repeat (split; [lia|]). reflexivity.
  - lia.
  - exists a, c, b. repeat (split; [lia|]). apply fam_swap23.
  - exists c, a, b. repeat (split; [lia|]). rewrite fam_swap23. apply fam_swap12.
  - exists b, a, c. repeat (split; [lia|]). apply fam_swap12.
  - exists b, c, a. repeat (split; [lia|]). rewrite fam_swap12. apply fam_swap23.
  - lia.
  - exists c, b, a. repeat (split; [lia|]). rewrite fam_swap12, fam_swap23. apply fam_swap12.
Qed.

(* ------------------------------------------------------------------------------------------------ *)
(* (3) the finite sweep: the real encoder core on every member of the family *)
Definition core_check (m w v : Z) : bool :=
  if (0 <=? v) && (v <? 2 ^ w) then
    match encode_core_fast w v with
    | None => true
    | Some e =>
      (0 <=? li_n e) && (li_n e <? 2) && (0 <=? li_s e) && (li_s e <? 64) && (0 <=? li_r e) && (li_r e <? 64) &&
      match decode_bit_masks m (li_n e) (li_s e) (li_r e) with
      | Some d => d =? replicate_bits (Z.to_nat (m / w)) w v
      | None => false
      end
    end
  else true.

Definition fam_sweep (m w : Z) : bool :=
  forallb (fun a => forallb (fun b => forallb (fun c =>
    if (a <=? b) && (b <=? c) then core_check m w (fam a b c) else true) (zrange 65)) (zrange 65)) (zrange 65).

Lemma fam_sweep_64_64 : fam_sweep 64 64 = true. Proof. vm_cast_no_check (eq_refl true). Qed.
Lemma fam_sweep_64_32 : fam_sweep 64 32 = true. Proof. vm_cast_no_check (eq_refl true). Qed.
Lemma fam_sweep_64_16 : fam_sweep 64 16 = true. Proof. vm_cast_no_check (eq_refl true). Qed.
Lemma fam_sweep_64_8 : fam_sweep 64 8 = true. Proof. vm_cast_no_check (eq_refl true). Qed.
Lemma fam_sweep_64_4 : fam_sweep 64 4 = true. Proof. vm_cast_no_check (eq_refl true). Qed.
Lemma fam_sweep_64_2 : fam_sweep 64 2 = true. Proof. vm_cast_no_check (eq_refl true). Qed.
Lemma fam_sweep_32_32 : fam_sweep 32 32 = true. Proof. vm_cast_no_check (eq_refl true). Qed.
Lemma fam_sweep_32_16 : fam_sweep 32 16 = true. Proof. vm_cast_no_check (eq_refl true). Qed.
Lemma fam_sweep_32_8 : fam_sweep 32 8 = true. Proof. vm_cast_no_check (eq_refl true). Qed.
Lemma fam_sweep_32_4 : fam_sweep 32 4 = true. Proof. vm_cast_no_check (eq_refl true). Qed.
Lemma fam_sweep_32_2 : fam_sweep 32 2 = true. Proof. vm_cast_no_check (eq_refl true). Qed.

Definition width_ok (m w : Z) : Prop := exists j, 1 <= j /\ w = 2 ^ j /\ w <= m.

Lemma fam_sweep_all m w : (m = 32 \/ m = 64) -> width_ok m w -> fam_sweep m w = true.
Proof.
  intros Hm (j & Hj & -> & Hle).
  assert (Hj6 : j <= 6).
  { destruct (Z_le_gt_dec j 6); [assumption|]. pose proof (pow2_le 7 j ltac:(lia)). change (2 ^ 7) with 128 in *. lia. }
  assert (Hc : j = 1 \/ j = 2 \/ j = 3 \/ j = 4 \/ j = 5 \/ j = 6) by lia.
  destruct Hm as [-> | ->].
  - destruct Hc as [-> | [-> | [-> | [-> | [-> | ->]]]]].
    + exact fam_sweep_32_2.
    + exact fam_sweep_32_4.
    + exact fam_sweep_32_8.
    + exact fam_sweep_32_16.
    + exact fam_sweep_32_32.
    + change (2 ^ 6) with 64 in Hle. lia.
  - destruct Hc as [-> | [-> | [-> | [-> | [-> | ->]]]]].
    + exact fam_sweep_64_2.
    + exact fam_sweep_64_4.
    + exact fam_sweep_64_8.
    + exact fam_sweep_64_16.
    + exact fam_sweep_64_32.
    + exact fam_sweep_64_64.
Qed.

Lemma core_check_family m w a b c :
  (m = 32 \/ m = 64) -> width_ok m w -> 0 <= a <= 64 -> 0 <= b <= 64 -> 0 <= c <= 64 ->
  core_check m w (fam a b c) = true.
Proof.
  intros Hm Hw Ha Hb Hc.
  destruct (fam_sorted a b c Ha Hb Hc) as (a' & b' & c' & H0 & H1 & H2 & H3 & ->).
  pose proof (fam_sweep_all m w Hm Hw) as Hs. unfold fam_sweep in Hs.
  rewrite forallb_forall in Hs. specialize (Hs a' (zrange_in 65 a' ltac:(lia))).
  rewrite forallb_forall in Hs. specialize (Hs b' (zrange_in 65 b' ltac:(lia))).
  rewrite forallb_forall in Hs. specialize (Hs c' (zrange_in 65 c' ltac:(lia))).
  cbv beta in Hs.
  replace (a' <=? b') with true in Hs by (symmetry; apply Z.leb_le; lia).
  replace (b' <=? c') with true in Hs by (symmetry; apply Z.leb_le; lia).
  exact Hs.
Qed.

(* soundness of the core on an element of width w, for every element value *)
Lemma encode_core_sound m w v e :
  (m = 32 \/ m = 64) -> width_ok m w -> 0 <= v < 2 ^ w -> encode_core w v = Some e ->
  decode_bit_masks m (li_n e) (li_s e) (li_r e) = Some (replicate_bits (Z.to_nat (m / w)) w v) /\
  0 <= li_n e < 2 /\ 0 <= li_s e < 64 /\ 0 <= li_r e < 64.
Proof.
  intros Hm Hw Hv He.
  assert (Hw64 : 0 <= w <= 64).
  { destruct Hw as (j & Hj & -> & Hle). pose proof (pow2_pos j ltac:(lia)). destruct Hm; lia. }
  destruct (encode_core_family w v e Hw64 Hv He) as (a & b & c & Ha & Hb & Hc & Hf).
  pose proof (core_check_family m w a b c Hm Hw Ha Hb Hc) as Hk. rewrite <- Hf in Hk.
  unfold core_check in Hk. rewrite <- encode_core_fast_eq, He in Hk.
  replace (0 <=? v) with true in Hk by (symmetry; apply Z.leb_le; lia).
  replace (v <? 2 ^ w) with true in Hk by (symmetry; apply Z.ltb_lt; lia).
  cbn [andb] in Hk.
  repeat (apply andb_true_iff in Hk; destruct Hk as [Hk ?]).
  destruct (decode_bit_masks m (li_n e) (li_s e) (li_r e)) as [d|]; [|discriminate].
  repeat match goal with
         | H : (_ <=? _) = true |- _ => apply Z.leb_le in H
         | H : (_ <? _) = true |- _ => apply Z.ltb_lt in H
         | H : (_ =? _) = true |- _ => apply Z.eqb_eq in H
         end.
  subst d. split; [reflexivity|]. lia.
Qed.

(* ------------------------------------------------------------------------------------------------ *)
(* (4) the width search returns a period of the value *)
Lemma replicate_double k h v : 0 <= h ->
  replicate_bits (2 * k) h v = replicate_bits k (2 * h) (v + 2 ^ h * v).
Proof.
  intros Hh. induction k as [|k IH].
  - reflexivity.
  - replace (2 * S k)%nat with (S (S (2 * k))) by lia. cbn [replicate_bits]. rewrite IH.
    replace (2 * h) with (h + h) by lia. rewrite Z.pow_add_r by lia. ring.
Qed.

Lemma periodic_step k h x : 0 < h ->
  x = replicate_bits k (2 * h) (x mod 2 ^ (2 * h)) ->
  Z.land x (lsb_mask h) = Z.land (x / 2 ^ h) (lsb_mask h) ->
  x = replicate_bits (2 * k) h (x mod 2 ^ h).
Proof.
  intros Hh Hp He. rewrite !land_lsb_mask in He by lia.
  rewrite replicate_double by lia.
  pose proof (pow2_pos h ltac:(lia)) as Hp2.
  replace (x mod 2 ^ h + 2 ^ h * (x mod 2 ^ h)) with (x mod 2 ^ (2 * h)); [exact Hp|].
  replace (2 * h) with (h + h) by lia. rewrite Z.pow_add_r by lia.
  rewrite Z.rem_mul_r by lia. rewrite <- He. reflexivity.
Qed.

(* invariant of the loop: width = 2^j with 2 <= j, k * width = m, x is width-periodic (k copies) *)
Lemma elem_width_spec m x fuel : forall j k,
  2 <= j -> Z.of_nat k * 2 ^ j = m ->
  x = replicate_bits k (2 ^ j) (x mod 2 ^ (2 ^ j)) ->
  exists j' k', 1 <= j' <= j /\ elem_width fuel x (2 ^ j) = 2 ^ j' /\ Z.of_nat k' * 2 ^ j' = m /\
                x = replicate_bits k' (2 ^ j') (x mod 2 ^ (2 ^ j')).
Proof.
  induction fuel as [|f IH]; intros j k Hj Hk Hp.
  - exists j, k. cbn [elem_width]. repeat split; try lia; assumption.
  - cbn [elem_width].
    assert (Hhalf : 2 ^ j / 2 = 2 ^ (j - 1)).
    { rewrite (pow2_double j) by lia. rewrite Z.mul_comm, Z.div_mul by lia. reflexivity. }
    assert (Hdbl : 2 ^ j = 2 * 2 ^ (j - 1)) by (apply pow2_double; lia).
    rewrite Hhalf.
    pose proof (pow2_pos (j - 1) ltac:(lia)) as Hpos.
    destruct (Z.eqb_spec (Z.land x (lsb_mask (2 ^ (j - 1)))) (Z.land (x / 2 ^ 2 ^ (j - 1)) (lsb_mask (2 ^ (j - 1))))) as [He|He].
    + assert (Hp' : x = replicate_bits (2 * k) (2 ^ (j - 1)) (x mod 2 ^ (2 ^ (j - 1)))).
      { apply periodic_step; [lia| |exact He]. rewrite <- Hdbl. exact Hp. }
      assert (Hk' : Z.of_nat (2 * k) * 2 ^ (j - 1) = m).
      { rewrite Nat2Z.inj_mul. change (Z.of_nat 2) with 2. rewrite <- Hk, Hdbl. ring. }
      destruct (Z.ltb_spec 2 (2 ^ (j - 1))) as [Hlt|Hge].
      * assert (Hj3 : 2 <= j - 1).
        { destruct (Z_le_gt_dec 2 (j - 1)); [assumption|]. exfalso.
          assert (j - 1 = 1) by lia. replace (j - 1) with 1 in Hlt by lia. change (2 ^ 1) with 2 in Hlt. lia. }
        destruct (IH (j - 1) (2 * k)%nat Hj3 Hk' Hp') as (j' & k' & Hj' & Hw & Hkk & Hpp).
        exists j', k'. repeat split; try lia; assumption.
      * exists (j - 1), (2 * k)%nat. repeat split; try lia; assumption.
    + exists j, k. repeat split; try lia; try assumption.
Qed.

Lemma elem_width_periodic m x :
  (m = 32 \/ m = 64) -> 0 <= x < 2 ^ m ->
  width_ok m (elem_width 6 x m) /\
  x = replicate_bits (Z.to_nat (m / elem_width 6 x m)) (elem_width 6 x m) (x mod 2 ^ elem_width 6 x m).
Proof.
  intros Hm Hx.
  assert (Hj : exists j, 2 <= j /\ m = 2 ^ j) by (destruct Hm as [-> | ->]; [exists 5 | exists 6]; split; (lia || reflexivity)).
  destruct Hj as (j & Hj & Hmj).
  assert (H1 : Z.of_nat 1 * 2 ^ j = m) by (change (Z.of_nat 1) with 1; lia).
  assert (Hp : x = replicate_bits 1 (2 ^ j) (x mod 2 ^ (2 ^ j))).
  { cbn [replicate_bits]. rewrite <- Hmj. rewrite Z.mod_small by lia. lia. }
  destruct (elem_width_spec m x 6 j 1%nat Hj H1 Hp) as (j' & k' & Hj' & Hw & Hk' & Hpp).
  clear Hm. subst m. rewrite Hw.
  pose proof (pow2_pos j' ltac:(lia)) as Hpos.
  split.
  - exists j'. split; [lia|]. split; [reflexivity|]. apply pow2_le. lia.
  - rewrite <- Hk'. rewrite Z.div_mul by lia. rewrite Nat2Z.id. exact Hpp.
Qed.

(* ------------------------------------------------------------------------------------------------ *)
(* the theorems *)
Theorem logical_imm_sound_fields m imm e :
  (m = 32 \/ m = 64) -> 0 <= imm < 2 ^ m -> encode_logical_imm imm m = Some e ->
  decode_bit_masks m (li_n e) (li_s e) (li_r e) = Some imm /\
  0 <= li_n e < 2 /\ 0 <= li_s e < 64 /\ 0 <= li_r e < 64.
Proof.
  intros Hm Hi He. rewrite encode_logical_imm_core in He.
  destruct (elem_width_periodic m imm Hm Hi) as (Hw & Hp).
  set (w := elem_width 6 imm m) in *.
  assert (Hw0 : 0 <= w) by (destruct Hw as (j & Hj & -> & _); pose proof (pow2_pos j ltac:(lia)); lia).
  rewrite land_lsb_mask in He by exact Hw0.
  assert (Hv : 0 <= imm mod 2 ^ w < 2 ^ w) by (apply Z.mod_pos_bound; apply pow2_pos; exact Hw0).
  destruct (encode_core_sound m w (imm mod 2 ^ w) e Hm Hw Hv He) as (Hd & Hr).
  rewrite <- Hp in Hd. split; [exact Hd | exact Hr].
Qed.

Theorem logical_imm_sound m imm e :
  (m = 32 \/ m = 64) -> 0 <= imm < 2 ^ m -> encode_logical_imm imm m = Some e ->
  decode_bit_masks m (li_n e) (li_s e) (li_r e) = Some imm.
Proof. intros Hm Hi He. exact (proj1 (logical_imm_sound_fields m imm e Hm Hi He)). Qed.

(* the encoder refuses exactly the values that no (N, imms, immr) denotes *)
Theorem logical_imm_refused_iff m imm :
  (m = 32 \/ m = 64) -> 0 <= imm < 2 ^ m ->
  (encode_logical_imm imm m = None <->
   ~ exists n s r, 0 <= n < 2 /\ 0 <= s < 64 /\ 0 <= r < 64 /\ decode_bit_masks m n s r = Some imm).
Proof.
  intros Hm Hi. split.
  - intros Hn (n & s & r & Hn' & Hs & Hr & Hd).
    destruct (logical_imm_complete m n s r imm Hm Hn' Hs Hr Hd) as (e & He & _). congruence.
  - intros Hne. destruct (encode_logical_imm imm m) as [e|] eqn:He; [|reflexivity].
    exfalso. apply Hne.
    destruct (logical_imm_sound_fields m imm e Hm Hi He) as (Hd & Hn' & Hs & Hr).
    exists (li_n e), (li_s e), (li_r e). repeat split; try lia. exact Hd.
Qed.

(* the hypotheses are satisfiable: an accepted and a refused value *)
Example logical_imm_sound_witness :
  exists e, encode_logical_imm 0x00FF00FF00FF00FF 64 = Some e /\ 0 <= 0x00FF00FF00FF00FF < 2 ^ 64.
Proof. eexists. split; [vm_compute; reflexivity | split; [discriminate | reflexivity]]. Qed.
Example logical_imm_refused_witness : encode_logical_imm 5 32 = None /\ 0 <= 5 < 2 ^ 32.
Proof. split; [vm_compute; reflexivity | split; [discriminate | reflexivity]]. Qed.

(* C18 (1) — BitVectorRangeIterator, EVERY word size W > 0: the word-level core of next_range. For a non-zero word w of the
   iterator (its set bits are the B-bits not yet reported) the mask arithmetic of the C++ finds the first maximal run of set
   bits: i = ctz(w) is its start; bw = ~(w ^ ~(ones << i)) is zero exactly when the run reaches the end of the word; otherwise
   j = ctz(bw) is its end (first clear bit above i) and the word left in the iterator, ~(bw ^ ~(ones << j)), has exactly the
   bits of w from j on. (The loops around this step — skipping empty words, extending a run over full words, the clipping at
   `end` — are covered by the small-scope theorems at W = 4 and by the correspondence at W = 32 / 64.) *)
From Coq Require Import ZArith List Bool Lia.
From Verif Require Import Containers.BitVecModel Containers.BitVecProofs Containers.RangeIterModel.
Import ListNotations.
Local Open Scope Z_scope.

Lemma ones_nonneg' W : 0 <= W -> 0 <= Z.ones W.
Proof. intros H. rewrite Z.ones_equiv. pose proof (Z.pow_pos_nonneg 2 W ltac:(lia) H). lia. Qed.

Lemma wlnot_nonneg W x : 0 <= W -> 0 <= x -> 0 <= wlnot W x.
Proof. intros HW Hx. unfold wlnot. apply Z.lxor_nonneg. split; intros _; [apply ones_nonneg'; exact HW|exact Hx]. Qed.

Lemma wlnot_bit W x k : 0 <= W -> 0 <= k -> Z.testbit (wlnot W x) k = xorb (Z.testbit x k) (k <? W).
Proof. intros HW Hk. unfold wlnot. rewrite Z.lxor_spec, ones_testbit by lia. reflexivity. Qed.

Lemma shl_ones_bit W i k : 0 <= W -> 0 <= i -> 0 <= k -> Z.testbit (shl_ones W i) k = (k <? W) && (i <=? k).
Proof.
  intros HW Hi Hk. unfold shl_ones. rewrite mod_pow2_testbit by lia.
  destruct (Z.ltb_spec k W); cbn [andb]; [|reflexivity].
  destruct (Z.leb_spec i k).
  - rewrite Z.shiftl_spec by lia. rewrite ones_testbit by lia. apply Z.ltb_lt. lia.
  - rewrite Z.shiftl_spec_low by lia. reflexivity.
Qed.

(* ~(x ^ ~(ones << i)) flips the bits of x from i on (inside the word) *)
Lemma flip_from_bit W x i k : 0 <= W -> 0 <= i -> 0 <= k ->
  Z.testbit (wlnot W (Z.lxor x (wlnot W (shl_ones W i)))) k = xorb (Z.testbit x k) ((k <? W) && (i <=? k)).
Proof.
  intros HW Hi Hk. rewrite wlnot_bit, Z.lxor_spec, wlnot_bit, shl_ones_bit by lia.
  destruct (Z.testbit x k), (k <? W), (i <=? k); reflexivity.
Qed.

Lemma flip_from_ok W x i : 0 <= W -> 0 <= i -> word_ok W x -> word_ok W (wlnot W (Z.lxor x (wlnot W (shl_ones W i)))).
Proof.
  intros HW Hi Hx. apply word_ok_of_bits; [exact HW| |].
  - apply wlnot_nonneg; [exact HW|]. apply Z.lxor_nonneg. split; intros _; [|exact (proj1 Hx)].
    apply wlnot_nonneg; [exact HW|]. unfold shl_ones. apply Z.mod_pos_bound. apply Z.pow_pos_nonneg; lia.
  - intros j Hj. rewrite flip_from_bit by lia. rewrite (word_ok_testbit_high W x j HW Hx Hj).
    destruct (Z.ltb_spec j W); [lia|reflexivity].
Qed.

Theorem range_word_run W w : 0 < W -> word_ok W w -> w <> 0 ->
  let i := ctz w in
  let bw := wlnot W (Z.lxor w (wlnot W (shl_ones W i))) in
  0 <= i < W /\ Z.testbit w i = true /\ (forall k, 0 <= k < i -> Z.testbit w k = false) /\ word_ok W bw /\
  (bw = 0 <-> forall k, i <= k < W -> Z.testbit w k = true) /\
  (bw <> 0 ->
     let j := ctz bw in
     let w' := wlnot W (Z.lxor bw (wlnot W (shl_ones W j))) in
     i < j < W /\ (forall k, i <= k < j -> Z.testbit w k = true) /\ Z.testbit w j = false /\ word_ok W w' /\
     forall k, 0 <= k -> Z.testbit w' k = (j <=? k) && Z.testbit w k).
Proof.
  intros HW Hw Hn. cbn zeta.
  assert (Hpos : 0 < w) by (destruct Hw; lia).
  destruct (ctz_spec w Hpos) as (I0 & I1 & I2).
  assert (IW : ctz w < W).
  { destruct (Z_lt_le_dec (ctz w) W) as [|Hge]; [assumption|]. rewrite (word_ok_testbit_high W w (ctz w) ltac:(lia) Hw Hge) in I1. discriminate. }
  set (i := ctz w) in *.
  set (bw := wlnot W (Z.lxor w (wlnot W (shl_ones W i)))).
  assert (Hbw : forall k, 0 <= k -> Z.testbit bw k = xorb (Z.testbit w k) ((k <? W) && (i <=? k))) by (intros k Hk; apply flip_from_bit; lia).
  assert (Obw : word_ok W bw) by (apply flip_from_ok; [lia|lia|exact Hw]).
  split; [lia|]. split; [exact I1|]. split; [exact I2|]. split; [exact Obw|]. split.
  - split.
    + intros E k Hk. pose proof (Hbw k ltac:(lia)) as Hb. rewrite E, Z.bits_0 in Hb.
      destruct (Z.ltb_spec k W); [|lia]. destruct (Z.leb_spec i k); [|lia]. cbn [andb] in Hb. destruct (Z.testbit w k); [reflexivity|discriminate].
    + intros H. apply Z.bits_inj'. intros k Hk. rewrite Z.bits_0, Hbw by exact Hk.
      destruct (Z.ltb_spec k W); cbn [andb].
      * destruct (Z.leb_spec i k); cbn [xorb].
        -- rewrite (H k ltac:(lia)). reflexivity.
        -- rewrite (I2 k ltac:(lia)). reflexivity.
      * rewrite (word_ok_testbit_high W w k ltac:(lia) Hw ltac:(lia)). reflexivity.
  - intros Hbn. cbn zeta.
    assert (Hbpos : 0 < bw) by (destruct Obw; lia).
    destruct (ctz_spec bw Hbpos) as (J0 & J1 & J2).
    set (j := ctz bw) in *.
    assert (JW : j < W).
    { destruct (Z_lt_le_dec j W) as [|Hge]; [assumption|]. rewrite (word_ok_testbit_high W bw j ltac:(lia) Obw Hge) in J1. discriminate. }
    assert (Hij : i < j).
    { destruct (Z_lt_le_dec i j) as [|Hge]; [assumption|]. exfalso. rewrite Hbw in J1 by lia.
      destruct (Z.ltb_spec j W); [|lia]. cbn [andb] in J1. destruct (Z.leb_spec i j).
      - assert (j = i) by lia. subst j. rewrite H1, I1 in J1. discriminate.
      - rewrite (I2 j ltac:(lia)) in J1. discriminate. }
    assert (Hrun : forall k, i <= k < j -> Z.testbit w k = true).
    { intros k Hk. pose proof (J2 k ltac:(lia)) as Hb. rewrite Hbw in Hb by lia.
      destruct (Z.ltb_spec k W); [|lia]. destruct (Z.leb_spec i k); [|lia]. cbn [andb] in Hb. destruct (Z.testbit w k); [reflexivity|discriminate]. }
    split; [lia|]. split; [exact Hrun|]. split.
    + rewrite Hbw in J1 by lia. destruct (Z.ltb_spec j W); [|lia]. destruct (Z.leb_spec i j); [|lia]. cbn [andb] in J1. destruct (Z.testbit w j); [discriminate|reflexivity].
    + split; [apply flip_from_ok; [lia|lia|exact Obw]|].
      intros k Hk. rewrite flip_from_bit, Hbw by lia.
      destruct (Z.ltb_spec k W); cbn [andb].
      * destruct (Z.leb_spec j k); destruct (Z.leb_spec i k); try lia; cbn [xorb andb].
        -- destruct (Z.testbit w k); reflexivity.
        -- rewrite (Hrun k ltac:(lia)). reflexivity.
        -- rewrite (I2 k ltac:(lia)). reflexivity.
      * rewrite (word_ok_testbit_high W w k ltac:(lia) Hw ltac:(lia)). destruct (j <=? k); reflexivity.
Qed.

(* the word the iterator starts with: the B-bits of the first word from `start` on *)
Lemma xor_mask_bit W (b : bool) x k : 0 <= W -> 0 <= k < W -> Z.testbit (Z.lxor x (xor_mask W b)) k = Bool.eqb (Z.testbit x k) b.
Proof.
  intros HW Hk. rewrite Z.lxor_spec. unfold xor_mask. destruct b.
  - rewrite Z.bits_0. destruct (Z.testbit x k); reflexivity.
  - rewrite ones_testbit by lia. destruct (Z.ltb_spec k W); [|lia]. destruct (Z.testbit x k); reflexivity.
Qed.

Theorem range_init_word W (b : bool) x s : 0 < W -> word_ok W x -> 0 <= s < W ->
  let w0 := Z.land (Z.lxor x (xor_mask W b)) (shl_ones W s) in
  word_ok W w0 /\ forall k, 0 <= k < W -> Z.testbit w0 k = (s <=? k) && Bool.eqb (Z.testbit x k) b.
Proof.
  intros HW Hx Hs. cbn zeta. split.
  - apply word_ok_of_bits; [lia| |].
    + apply Z.land_nonneg. right. unfold shl_ones. apply Z.mod_pos_bound. apply Z.pow_pos_nonneg; lia.
    + intros j Hj. rewrite Z.land_spec, shl_ones_bit by lia. destruct (Z.ltb_spec j W); [lia|]. cbn [andb]. apply andb_false_r.
  - intros k Hk. rewrite Z.land_spec, shl_ones_bit, xor_mask_bit by lia. destruct (Z.ltb_spec k W); [|lia]. cbn [andb]. apply andb_comm.
Qed.

(* ------------------------------------------------------------------ the loop that skips empty words, every W *)
(* the words the iterator looks at: ws[p] ^ mask *)
Definition mword (W : Z) (b : bool) (ws : list Z) (p : Z) : Z := Z.lxor (nthw ws p) (xor_mask W b).

Theorem ri_skip_spec W (b : bool) ws : forall fuel it it', ri_skip fuel W b ws it = Some it' ->
  ri_word it' <> 0 /\ ri_end it' = ri_end it /\
  exists k, 0 <= k /\ ri_idx it' = ri_idx it + W * k /\ ri_ptr it' = ri_ptr it + k /\
    (k = 0 -> it' = it) /\
    (0 < k -> ri_word it = 0 /\ ri_word it' = mword W b ws (ri_ptr it + k) /\ ri_idx it' < ri_end it) /\
    (forall j, 0 < j < k -> mword W b ws (ri_ptr it + j) = 0).
Proof.
  induction fuel as [|f IH]; intros it it' H; cbn [ri_skip] in H; [discriminate|].
  destruct (Z.eqb_spec (ri_word it) 0) as [E0|E0].
  - destruct (Z.geb_spec (ri_idx it + W) (ri_end it)) as [|Hlt]; [discriminate|].
    set (it1 := mkri (ri_ptr it + 1) (ri_idx it + W) (ri_end it) (Z.lxor (nthw ws (ri_ptr it + 1)) (xor_mask W b))) in *.
    destruct (IH it1 it' H) as (N0 & Ee & k1 & K0 & K1 & K2 & K3 & K4 & K5). cbn [it1 ri_word ri_idx ri_ptr ri_end] in *.
    split; [exact N0|]. split; [exact Ee|]. exists (k1 + 1).
    split; [lia|]. split; [rewrite K1; ring|]. split; [lia|]. split; [intros Hc; lia|]. split.
    + intros _. split; [exact E0|]. destruct (Z.eq_dec k1 0) as [Ek|Ek].
      * rewrite (K3 Ek). unfold it1. cbn [ri_word ri_idx]. split; [unfold mword; subst k1; reflexivity|lia].
      * destruct (K4 ltac:(lia)) as (_ & W1 & W2). split; [rewrite W1; f_equal; ring|exact W2].
    + intros j Hj. destruct (Z.eq_dec j 1) as [->|Hne].
      * destruct (K4 ltac:(lia)) as (W0 & _). exact W0.
      * replace (ri_ptr it + j) with (ri_ptr it + 1 + (j - 1)) by ring. apply K5. lia.
  - injection H as <-. split; [exact E0|]. split; [reflexivity|]. exists 0.
    split; [lia|]. split; [ring|]. split; [ring|]. split; [reflexivity|]. split; [intros Hc; lia|intros j Hj; lia].
Qed.

(* ------------------------------------------------------------------ the loop that extends a range over full words, every W
   (round 5).  From an iterator standing on a word whose remaining bits all belong to the current range, the loop walks over
   k >= 0 following words that are all ones (after the xor mask) and stops in exactly one of three ways:
     (a) the hint is reached: the range ends at the end of the last full word (clamped to end);
     (b) the data ends: same range end, the iterator index is moved past the end so that the next call returns false;
     (c) the next word is not full: the range ends at its first zero bit j (clamped), and the iterator keeps that word with
         bits [0, j) cleared (word_run above says what the next call does with it). *)
Theorem ri_extend_spec W (b : bool) ws : forall fuel it rstart rend hint it' rend',
  ri_extend fuel W b ws it rstart rend hint = (it', rend') ->
  ri_end it' = ri_end it /\
  exists k, 0 <= k /\
    (forall j, 0 < j <= k -> mword W b ws (ri_ptr it + j) = Z.ones W /\ ri_idx it + W * j < ri_end it) /\
    let rk := if k =? 0 then rend else Z.min (ri_idx it + W * k + W) (ri_end it) in
    ((it' = (if k =? 0 then it else mkri (ri_ptr it + k) (ri_idx it + W * k) (ri_end it) 0) /\ rend' = rk)
     \/ (ri_idx it + W * k + W >= ri_end it /\
         it' = mkri (ri_ptr it + k) (ri_idx it + W * k + W) (ri_end it) (if k =? 0 then ri_word it else 0) /\ rend' = rk)
     \/ (ri_idx it + W * k + W < ri_end it /\ mword W b ws (ri_ptr it + k + 1) <> Z.ones W /\
         let bw := mword W b ws (ri_ptr it + k + 1) in let j := ctz (wlnot W bw) in
         it' = mkri (ri_ptr it + k + 1) (ri_idx it + W * k + W) (ri_end it) (Z.lxor bw (wlnot W (shl_ones W j))) /\
         rend' = Z.min (ri_idx it + W * k + W + j) (ri_end it))).
Proof.
  induction fuel as [|f IH]; intros it rstart rend hint it' rend' H; cbn [ri_extend] in H.
  - injection H as <- <-. split; [reflexivity|]. exists 0. split; [lia|]. split; [intros j Hj; lia|]. left. split; reflexivity.
  - destruct ((rend - rstart) mod 2 ^ 64 <? hint).
    2:{ injection H as <- <-. split; [reflexivity|]. exists 0. split; [lia|]. split; [intros j Hj; lia|]. left. split; reflexivity. }
    destruct (Z.geb_spec (ri_idx it + W) (ri_end it)) as [Hge|Hlt].
    + injection H as <- <-. split; [reflexivity|]. exists 0. split; [lia|]. split; [intros j Hj; lia|]. right. left.
      cbn [Z.eqb ri_ptr ri_idx ri_end]. split; [lia|]. split; [f_equal; lia|reflexivity].
    + fold (mword W b ws (ri_ptr it + 1)) in H. destruct (Z.eqb_spec (mword W b ws (ri_ptr it + 1)) (Z.ones W)) as [E1|E1]; cbn [negb] in H.
      * set (it1 := mkri (ri_ptr it + 1) (ri_idx it + W) (ri_end it) 0) in *.
        destruct (IH it1 rstart _ hint it' rend' H) as (Ee & k1 & K0 & KF & KD). cbn [it1 ri_ptr ri_idx ri_end ri_word] in *.
        split; [exact Ee|]. exists (k1 + 1). split; [lia|]. split.
        { intros j Hj. destruct (Z.eq_dec j 1) as [->|Hne]; [split; [exact E1|lia]|].
          destruct (KF (j - 1) ltac:(lia)) as [A B]. split; [rewrite <- A; f_equal; ring|lia]. }
        destruct (Z.eqb_spec (k1 + 1) 0) as [Hc|_]; [lia|]. cbn zeta in KD |- *.
        replace (ri_ptr it + (k1 + 1)) with (ri_ptr it + 1 + k1) by ring.
        replace (ri_ptr it + (k1 + 1) + 1) with (ri_ptr it + 1 + k1 + 1) by ring.
        replace (ri_idx it + W * (k1 + 1)) with (ri_idx it + W + W * k1) by ring.
        destruct (Z.eqb_spec k1 0) as [K|K].
        { subst k1. rewrite !Z.mul_0_r, !Z.add_0_r in *. destruct KD as [(A & B)|[(A & B & C)|(A & B & C & D)]].
          - left. split; [exact A|exact B].
          - right. left. split; [exact A|]. split; [exact B|exact C].
          - right. right. split; [exact A|]. split; [exact B|]. split; [exact C|exact D]. }
        { destruct KD as [(A & B)|[(A & B & C)|(A & B & C & D)]].
          - left. split; [exact A|exact B].
          - right. left. split; [exact A|]. split; [exact B|exact C].
          - right. right. split; [exact A|]. split; [exact B|]. split; [exact C|exact D]. }
      * injection H as <- <-. split; [reflexivity|]. exists 0. split; [lia|]. split; [intros j Hj; lia|]. right. right.
        cbn [Z.eqb ri_ptr ri_idx ri_end]. rewrite !Z.mul_0_r, !Z.add_0_r. split; [lia|]. split; [exact E1|]. split; reflexivity.
Qed.

(* C18 (7), round 6 — ArenaPool over ANY SEQUENCE of allocations and releases: with U the items handed out and not yet released,
   the pool never hands out an item that is in use, every item in use stays a live arena block of the item size, and the free
   list holds distinct released items that are not in use. *)
From Coq Require Import ZArith List Bool Lia.
From Verif Require Import Containers.ArenaModel Containers.ArenaProofs Containers.ListModel Containers.ListProofs.
Import ListNotations.
Local Open Scope Z_scope.

Definition PInv (a : arena) (p : pool) (U : list addr) (sz : Z) : Prop :=
  inv a /\ pool_inv a p sz /\ NoDup U /\ forall x, In x U -> In (x, sz) (live a) /\ ~ In x p.

Definition urem (x : addr) (U : list addr) : list addr := filter (fun y => negb (addr_eqb y x)) U.

Lemma in_urem x y U : In y (urem x U) <-> In y U /\ y <> x.
Proof.
  unfold urem. rewrite filter_In. split; intros [A B]; (split; [exact A|]).
  - intros E. subst y. assert (addr_eqb x x = true) by (apply addr_eqb_eq; reflexivity). rewrite H in B. discriminate.
  - destruct (addr_eqb y x) eqn:E; [apply addr_eqb_eq in E; contradiction|reflexivity].
Qed.

Lemma disjoint_same_size_ne (x y : addr) sz : 0 < sz -> disjoint (x, sz) (y, sz) -> x <> y.
Proof. intros Hs D E. subst y. unfold disjoint in D. cbn [fst snd] in D. destruct D as [D|[D|D]]; [contradiction|lia|lia]. Qed.

Theorem pool_alloc_in_use mok a p U item : 0 < item <= 2 ^ 32 ->
  let sz := ((item + 7) / 8) * 8 in
  PInv a p U sz ->
  let '(r, a', p') := pool_alloc mok a p item in
  match r with
  | Some x => ~ In x U /\ PInv a' p' (x :: U) sz
  | None => PInv a' p' U sz
  end.
Proof.
  intros Hitem sz (I & HP & HU & HUl). pose proof HP as [Hnd Hin]. unfold pool_alloc. destruct p as [|x r].
  - fold sz.
    assert (Hsz : 0 < sz <= SIZE_MAX /\ sz mod 8 = 0).
    { unfold sz, SIZE_MAX. split; [|apply Z.mod_mul; lia].
      pose proof (Z.div_mod (item + 7) 8 ltac:(lia)). pose proof (Z.mod_pos_bound (item + 7) 8 ltac:(lia)).
      change (2 ^ 64) with (2 ^ 32 * 2 ^ 32). lia. }
    destruct Hsz as [Hs1 Hs2].
    pose proof (alloc_oneshot_sound mok a sz I Hs1 Hs2) as Hp. unfold alloc_post in Hp.
    destruct (alloc_oneshot mok a sz) as [[x|] a']; cbn [fst snd] in Hp; destruct Hp as [I' Hp].
    + destruct Hp as (_ & _ & Hd & Hl & _).
      assert (Hfresh : ~ In x U).
      { intros Hx. destruct (HUl x Hx) as [Hlive _]. rewrite Forall_forall in Hd.
        assert (D : disjoint (x, sz) (x, sz)) by (apply Hd; unfold regions; apply in_or_app; left; exact Hlive).
        exact (disjoint_same_size_ne x x sz (proj1 Hs1) D eq_refl). }
      split; [exact Hfresh|]. split; [exact I'|]. split; [split; [constructor|intros y []]|]. split; [constructor; assumption|].
      intros y [<-|Hy]; [split; [rewrite Hl; left; reflexivity|intros []]|]. destruct (HUl y Hy) as [A _]. split; [rewrite Hl; right; exact A|intros []].
    + destruct Hp as [Hl _]. split; [exact I'|]. split; [split; [constructor|intros y []]|]. split; [exact HU|].
      intros y Hy. destruct (HUl y Hy) as [A _]. split; [rewrite Hl; exact A|intros []].
  - inversion Hnd as [|? ? Hxr Hndr]; subst.
    assert (Hfresh : ~ In x U) by (intros Hx; destruct (HUl x Hx) as [_ B]; apply B; left; reflexivity).
    split; [exact Hfresh|]. split; [exact I|]. split; [split; [exact Hndr|intros y Hy; apply Hin; right; exact Hy]|].
    split; [constructor; assumption|].
    intros y [<-|Hy]; [split; [apply Hin; left; reflexivity|exact Hxr]|]. destruct (HUl y Hy) as [A B]. split; [exact A|intros Hc; apply B; right; exact Hc].
Qed.

Theorem pool_release_in_use a p U sz x : PInv a p U sz -> In x U -> PInv a (pool_release p x) (urem x U) sz /\ ~ In x (urem x U).
Proof.
  intros (I & HP & HU & HUl) Hx. destruct (HUl x Hx) as [A B]. split.
  - split; [exact I|]. split; [apply pool_release_sound; assumption|]. split; [unfold urem; apply NoDup_filter; exact HU|].
    intros y Hy. apply in_urem in Hy. destruct Hy as [Hy Hne]. destruct (HUl y Hy) as [A' B']. split; [exact A'|].
    unfold pool_release. intros [Hc|Hc]; [apply Hne; symmetry; exact Hc|exact (B' Hc)].
  - intros Hc. apply in_urem in Hc. destruct Hc as [_ Hc]. apply Hc. reflexivity.
Qed.

(* any sequence *)
Inductive pop := PAlloc | PRel (x : addr).
Definition pstep (mok : Z -> bool) (item : Z) (st : arena * pool * list addr) (o : pop) : arena * pool * list addr :=
  let '(a, p, U) := st in
  match o with
  | PAlloc => let '(r, a', p') := pool_alloc mok a p item in (a', p', match r with Some x => x :: U | None => U end)
  | PRel x => (a, pool_release p x, urem x U)
  end.
(* a release must name an item in use; checked against the in-use list of the state reached *)
Fixpoint ppres (mok : Z -> bool) (item : Z) (st : arena * pool * list addr) (ops : list pop) : Prop :=
  match ops with
  | [] => True
  | o :: r => (match o with PAlloc => True | PRel x => In x (snd st) end) /\ ppres mok item (pstep mok item st o) r
  end.

Theorem pool_any_sequence mok item : 0 < item <= 2 ^ 32 -> forall ops a p U,
  PInv a p U (((item + 7) / 8) * 8) -> ppres mok item (a, p, U) ops ->
  let '(a', p', U') := fold_left (pstep mok item) ops (a, p, U) in PInv a' p' U' (((item + 7) / 8) * 8).
Proof.
  intros Hitem. induction ops as [|o r IH]; intros a p U HI Hp; cbn [fold_left]; [exact HI|].
  cbn [ppres] in Hp. destruct Hp as [P Pr]. destruct o as [|x].
  - cbn [pstep] in *. pose proof (pool_alloc_in_use mok a p U item Hitem HI) as H.
    destruct (pool_alloc mok a p item) as [[rr a'] p']. destruct rr as [x|]; [destruct H as [_ H]|]; apply IH; assumption.
  - cbn [pstep snd] in *. apply IH; [apply pool_release_in_use; assumption|exact Pr].
Qed.

Lemma pinv_init a item : inv a -> PInv a [] [] (((item + 7) / 8) * 8).
Proof. intros I. split; [exact I|]. split; [split; [constructor|intros x []]|]. split; [constructor|intros x []]. Qed.

(* C18 (4) — executable model of ArenaHash (support/arenahash.{h,cpp}) on top of the arena model.
   The prime table (prime, reciprocal, shift, grow limit) is a parameter, translated from arenahash.cpp into
   coq/gen/C18Tables.v on every run. A node is identified by `hn_id` (its address in the C++); `hn_key` is what the
   matcher compares. *)
From Coq Require Import ZArith List Bool.
From Verif Require Import Containers.ArenaModel.
Import ListNotations.
Local Open Scope Z_scope.

Record hnode := mkhn { hn_id : Z; hn_hash : Z; hn_key : Z }.
Record prow := mkrow { p_prime : Z; p_rcp : Z; p_shift : Z; p_grow : Z }.

Record hash := mkhash {
  h_data : option addr;            (* None = the embedded single bucket *)
  h_buckets : list (list hnode);   (* _data[0 .. _buckets_count), each chain head first *)
  h_size : Z; h_count : Z; h_grow : Z; h_rcp : Z; h_shift : Z; h_pidx : Z }.

Definition hash_empty : hash := mkhash None [[]] 0 1 1 1 0 0.

(* ArenaHashBase::_calc_mod in uint32/uint64 arithmetic *)
Definition calc_mod_gen (count rcp shift hash : Z) : Z :=
  let x := Z.shiftr ((hash * rcp) mod 2 ^ 64) shift mod 2 ^ 32 in
  (hash - (x * count) mod 2 ^ 32) mod 2 ^ 32.
Definition calc_mod (h : hash) (hc : Z) : Z := calc_mod_gen (h_count h) (h_rcp h) (h_shift h) hc.

Fixpoint upd_bucket (bs : list (list hnode)) (i : nat) (f : list hnode -> list hnode) : list (list hnode) :=
  match bs, i with
  | [], _ => []
  | b :: r, O => f b :: r
  | b :: r, S k => b :: upd_bucket r k f
  end.
Definition bucket (bs : list (list hnode)) (i : Z) : list hnode := nth (Z.to_nat i) bs [].

(* move every node of the old buckets (bucket 0 first, each chain head to tail) to the front of its new bucket *)
Definition rehash_nodes (count rcp shift : Z) (nodes : list hnode) (init : list (list hnode)) : list (list hnode) :=
  fold_left (fun bs n => upd_bucket bs (Z.to_nat (calc_mod_gen count rcp shift (hn_hash n))) (cons n)) nodes init.

(* ArenaHashBase::_rehash(arena, prime_index) *)
Definition hash_rehash (primes : list prow) (mok : Z -> bool) (a : arena) (h : hash) (pidx : Z) : arena * hash :=
  let row := nth (Z.to_nat pidx) primes (mkrow 1 1 0 1) in
  let ncount := p_prime row in
  match alloc_reusable mok a (ncount * 8) with
  | (None, a1) => (a1, h)
  | (Some (p, _), a1) =>
    let nb := rehash_nodes ncount (p_rcp row) (p_shift row) (concat (h_buckets h)) (repeat [] (Z.to_nat ncount)) in
    let a2 := match h_data h with Some old => free_reusable a1 old (h_count h * 8) | None => a1 end in
    (a2, mkhash (Some p) nb (h_size h) ncount (p_grow row) (p_rcp row) (p_shift row) pidx)
  end.

(* ArenaHashBase::_insert *)
Definition hash_insert (primes : list prow) (mok : Z -> bool) (a : arena) (h : hash) (n : hnode) : arena * hash :=
  let m := calc_mod h (hn_hash n) in
  let h1 := mkhash (h_data h) (upd_bucket (h_buckets h) (Z.to_nat m) (cons n)) (h_size h + 1) (h_count h) (h_grow h)
                   (h_rcp h) (h_shift h) (h_pidx h) in
  if h_size h1 >? h_grow h1 then
    let pidx := Z.min (h_pidx h1 + 2) (Z.of_nat (length primes) - 1) in
    if pidx >? h_pidx h1 then hash_rehash primes mok a h1 pidx else (a, h1)
  else (a, h1).

Fixpoint remove_node (id : Z) (l : list hnode) : option (list hnode) :=
  match l with
  | [] => None
  | n :: r => if hn_id n =? id then Some r
              else match remove_node id r with Some r' => Some (n :: r') | None => None end
  end.

(* ArenaHashBase::_remove: true when the node was found *)
Definition hash_remove (h : hash) (n : hnode) : bool * hash :=
  let m := calc_mod h (hn_hash n) in
  match remove_node (hn_id n) (bucket (h_buckets h) m) with
  | Some b' => (true, mkhash (h_data h) (upd_bucket (h_buckets h) (Z.to_nat m) (fun _ => b')) (h_size h - 1) (h_count h)
                             (h_grow h) (h_rcp h) (h_shift h) (h_pidx h))
  | None => (false, h)
  end.

(* ArenaHash::get(key): key = (hash code, key value); first node of the chain whose key matches *)
Definition hash_get (h : hash) (hc key : Z) : option hnode :=
  find (fun n => hn_key n =? key) (bucket (h_buckets h) (calc_mod h hc)).

(* ArenaHashBase::release *)
Definition hash_release (a : arena) (h : hash) : arena * hash :=
  match h_data h with
  | Some p => (free_reusable a p (h_count h * 8), hash_empty)
  | None => (a, hash_empty)
  end.

(* the textbook content: the nodes stored *)
Definition hash_abs (h : hash) : list hnode := concat (h_buckets h).

(* the criterion checked per table row (see HashProofs.row_ok_mod): with e = rcp * prime - 2^shift >= 0,
   qmax = floor((2^32-1) / prime) and rmax = (2^32-1) mod prime:  qmax * e < rcp  and  qmax * e + rmax * rcp < 2^shift *)
Definition row_ok (r : prow) : bool :=
  let e := p_rcp r * p_prime r - 2 ^ p_shift r in
  let qmax := (2 ^ 32 - 1) / p_prime r in
  let rmax := (2 ^ 32 - 1) mod p_prime r in
  (0 <? p_prime r) && (0 <=? p_shift r) && (p_shift r <? 64) && (0 <? p_rcp r) && (p_rcp r <? 2 ^ 32) && (p_prime r <? 2 ^ 32) &&
  (0 <=? e) && (qmax * e <? p_rcp r) && (qmax * e + rmax * p_rcp r <? 2 ^ p_shift r).

(* C18 (3), round 6 — String::swap, move assignment and move construction (plain Strings): the two strings stay valid, the
   contents are exchanged / transferred, and the moved-from string is the empty small string. *)
From Coq Require Import ZArith List Bool Lia.
From Verif Require Import Containers.ArenaModel Containers.VecModel Containers.BufLemmas Containers.StrModel Containers.StrProofs.
Import ListNotations.
Local Open Scope Z_scope.

Lemma str_inv_empty : str_inv str_empty.
Proof. unfold str_inv, str_empty; cbn [s_size s_cap s_buf s_kind]. split; [vm_compute; split; discriminate|]. split; [reflexivity|]. split; reflexivity. Qed.

Theorem str_swap_sound a b : str_inv a -> str_inv b ->
  let '(a', b') := str_swap a b in str_inv a' /\ str_inv b' /\ str_abs a' = str_abs b /\ str_abs b' = str_abs a /\ a' = b /\ b' = a.
Proof. intros Ha Hb. cbn [str_swap]. split; [exact Hb|]. split; [exact Ha|]. repeat split; reflexivity. Qed.

Theorem str_move_assign_sound a b : str_inv a -> str_inv b ->
  let '(a', b') := str_move_assign a b in str_inv a' /\ str_inv b' /\ str_abs a' = str_abs b /\ a' = b /\ b' = str_empty /\ str_abs b' = [].
Proof. intros Ha Hb. cbn [str_move_assign str_reset]. split; [exact Hb|]. split; [exact str_inv_empty|]. repeat split; reflexivity. Qed.

Theorem str_move_construct_sound b : str_inv b ->
  let '(t, b') := str_move_construct b in str_inv t /\ str_inv b' /\ str_abs t = str_abs b /\ b' = str_empty /\ str_abs b' = [].
Proof. intros Hb. cbn [str_move_construct]. split; [exact Hb|]. split; [exact str_inv_empty|]. repeat split; reflexivity. Qed.

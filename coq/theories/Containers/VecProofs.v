(* C18 (2) — proofs about the vector model. *)
From Coq Require Import ZArith List Bool Lia Permutation.
From Verif Require Import Base.ZBits Containers.ArenaModel Containers.ArenaProofs Containers.VecModel Containers.BufLemmas.
Import ListNotations.
Local Open Scope Z_scope.

(* ------------------------------------------------------------------ growth policy *)
(* what is needed from the table of arenavector.cpp (checked by reflection on the translated table):
   32 entries; entry i is at least i (the expanded size is not below the request), below 64, and at most 11 for i <= 11
   (a request that fits a reusable slot is not expanded beyond the largest slot) *)
Definition grow_entry_ok (t : list Z) (i : nat) : bool :=
  let g := nth i t 0 in (Z.of_nat i <=? g) && (g <? 64) && ((g <=? 11) || (11 <? Z.of_nat i)).
Definition grow_table_ok (t : list Z) : bool := (length t =? 32)%nat && forallb (grow_entry_ok t) (seq 0 32).

Lemma grow_entry t i : grow_table_ok t = true -> (i < 32)%nat ->
  Z.of_nat i <= nth i t 0 < 64 /\ (Z.of_nat i <= 11 -> nth i t 0 <= 11).
Proof.
  unfold grow_table_ok. intros H Hi. apply andb_prop in H. destruct H as [_ H].
  rewrite forallb_forall in H. specialize (H i). rewrite in_seq in H. specialize (H ltac:(lia)).
  unfold grow_entry_ok in H. apply andb_prop in H. destruct H as [H H3]. apply andb_prop in H. destruct H as [H1 H2].
  apply Z.leb_le in H1. apply Z.ltb_lt in H2. split; [lia|]. intros Hle.
  apply orb_prop in H3. destruct H3 as [H3|H3]; [apply Z.leb_le in H3; lia|apply Z.ltb_lt in H3; lia].
Qed.

Lemma grow_index_bounds bs : 1 <= bs ->
  let idx := Z.log2 (Z.lor (bs - 1) 1) + 1 in 1 <= idx /\ bs <= 2 ^ idx /\ (2 <= bs -> 2 ^ (idx - 1) < bs).
Proof.
  intros Hbs idx. subst idx.
  rewrite Z.log2_lor by lia. change (Z.log2 1) with 0.
  pose proof (Z.log2_nonneg (bs - 1)) as Hl0.
  rewrite Z.max_l by lia.
  destruct (Z.eq_dec bs 1) as [->|Hn].
  - simpl. lia.
  - pose proof (Z.log2_spec (bs - 1) ltac:(lia)) as [Hlo Hhi].
    replace (Z.succ (Z.log2 (bs - 1))) with (Z.log2 (bs - 1) + 1) in Hhi by lia.
    split; [lia|]. split; [lia|]. intros _. replace (Z.log2 (bs - 1) + 1 - 1) with (Z.log2 (bs - 1)) by lia. lia.
Qed.

(* the expanded byte size is never below the request, stays a 64-bit size, and a request that fits the largest reusable
   slot is expanded within the reusable slots *)
Theorem expand_byte_size_ok t bs : grow_table_ok t = true -> 1 <= bs < 2 ^ 63 ->
  bs <= expand_byte_size t bs < 2 ^ 64 /\ (bs <= 2048 -> expand_byte_size t bs <= 2048).
Proof.
  intros Ht Hbs. unfold expand_byte_size, kGrowThreshold.
  destruct (Z.leb_spec bs 16777216) as [Hle|Hgt].
  - destruct (grow_index_bounds bs ltac:(lia)) as (Hi1 & Hi2 & Hi3).
    set (idx := Z.log2 (Z.lor (bs - 1) 1) + 1) in *.
    assert (Hidx : idx <= 25).
    { destruct (Z.eq_dec bs 1) as [->|Hn]; [unfold idx; simpl; lia|].
      specialize (Hi3 ltac:(lia)).
      destruct (Z.le_gt_cases idx 25); [assumption|exfalso].
      assert (2 ^ 25 <= 2 ^ (idx - 1)) by (apply Z.pow_le_mono_r; lia). change (2 ^ 25) with 33554432 in *. lia. }
    destruct (grow_entry t (Z.to_nat idx) Ht ltac:(lia)) as [[Hg1 Hg2] Hg3]. rewrite Z2Nat.id in * by lia.
    set (g := nth (Z.to_nat idx) t 0) in *.
    assert (Hpow : 2 ^ idx <= 2 ^ g) by (apply Z.pow_le_mono_r; lia).
    assert (Hpow2 : 2 ^ g <= 2 ^ 63) by (apply Z.pow_le_mono_r; lia).
    split; [split; [lia|]|].
    + change (2 ^ 64) with (2 * 2 ^ 63). lia.
    + intros H2048. assert (idx <= 11).
      { destruct (Z.eq_dec bs 1) as [->|Hn]; [unfold idx; simpl; lia|]. specialize (Hi3 ltac:(lia)).
        destruct (Z.le_gt_cases idx 11); [assumption|exfalso].
        assert (2 ^ 11 <= 2 ^ (idx - 1)) by (apply Z.pow_le_mono_r; lia). change (2 ^ 11) with 2048 in *. lia. }
      specialize (Hg3 H). assert (2 ^ g <= 2 ^ 11) by (apply Z.pow_le_mono_r; lia). change (2 ^ 11) with 2048 in *. lia.
  - split; [|lia].
    assert (H1 : bs + 1 <= (bs + 1 + 16777216 - 1) / 16777216 * 16777216).
    { pose proof (Z.div_mod (bs + 1 + 16777216 - 1) 16777216 ltac:(lia)).
      pose proof (Z.mod_pos_bound (bs + 1 + 16777216 - 1) 16777216 ltac:(lia)). lia. }
    assert (H2 : (bs + 1 + 16777216 - 1) / 16777216 * 16777216 <= bs + 1 + 16777216 - 1).
    { rewrite Z.mul_comm. apply Z.mul_div_le. lia. }
    change (2 ^ 64) with (2 * 2 ^ 63). change (2 ^ 63) with 9223372036854775808 in *. lia.
Qed.

(* ------------------------------------------------------------------ representation invariant *)
(* the vector's buffer is a live block of the arena, large enough for the capacity, and capacity * sizeof(T) is a size of the
   class the block was allocated with (what Arena::free_reusable needs) *)
Definition owns (isz : Z) (a : arena) (p : addr) (cap : Z) : Prop :=
  exists asz, In (p, asz) (live a) /\ cap * isz <= asz /\
    (slot_index (cap * isz) < 8 -> asz = slot_size (slot_index (cap * isz))) /\
    (8 <= slot_index (cap * isz) -> In (a_blk p) (map mb_id (dyn a))).

Definition vec_inv (isz : Z) (a : arena) (v : vec) : Prop :=
  0 <= v_size v <= v_cap v /\ zlength (v_buf v) = v_cap v /\ v_cap v <= 4294967295 /\
  match v_data v with None => v_cap v = 0 | Some p => 0 < v_cap v /\ owns isz a p (v_cap v) end.

Lemma vec_inv_empty isz a : vec_inv isz a vec_empty.
Proof. unfold vec_inv, vec_empty; simpl. repeat split; try lia; reflexivity. Qed.

(* every other live block survives an operation that releases at most `old` *)
Definition keeps_others (a a' : arena) (old : option addr) : Prop :=
  forall q n, In (q, n) (live a) -> Some q <> old ->
    In (q, n) (live a') /\ (In (a_blk q) (map mb_id (dyn a)) -> In (a_blk q) (map mb_id (dyn a'))).

Lemma keeps_others_refl a old : keeps_others a a old.
Proof. intros q n H _. split; [exact H|auto]. Qed.

Lemma keeps_weaken a a' old : keeps_others a a' None -> keeps_others a a' old.
Proof. intros H q n Hq _. apply H; [exact Hq|discriminate]. Qed.

Lemma keeps_trans a a1 a2 old : keeps_others a a1 None -> keeps_others a1 a2 old -> keeps_others a a2 old.
Proof.
  intros H1 H2 q n Hq Hne. destruct (H1 q n Hq ltac:(discriminate)) as [Hl Hd].
  destruct (H2 q n Hl Hne) as [Hl2 Hd2]. split; [exact Hl2|auto].
Qed.

(* an allocation keeps every live block and every dynamic block *)
Lemma alloc_keeps mok a bs : inv a -> 1 <= bs <= SIZE_MAX -> keeps_others a (snd (alloc_reusable mok a bs)) None.
Proof.
  intros I Hbs q n Hq _.
  pose proof (alloc_reusable_sound mok a bs I Hbs) as Hpost. unfold ralloc_post in Hpost. destruct Hpost as [_ Hpost].
  split.
  - destruct (fst (alloc_reusable mok a bs)) as [[p asz]|]; [destruct Hpost as (_ & _ & _ & _ & ->); right; exact Hq|rewrite Hpost; exact Hq].
  - apply alloc_reusable_dyn_mono.
Qed.

(* releasing `old` keeps every other live block, and every other dynamic block stays registered *)
Lemma free_keeps a old sz n : inv a -> In (old, n) (live a) ->
  (slot_index sz < 8 -> n = slot_size (slot_index sz)) -> (8 <= slot_index sz -> In (a_blk old) (map mb_id (dyn a))) ->
  keeps_others a (free_reusable a old sz) (Some old).
Proof.
  intros I Hin Hc1 Hc2 q m Hq Hne.
  destruct (free_reusable_sound a old sz n I Hin Hc1 Hc2) as [_ Hperm].
  split.
  - eapply Permutation_in in Hq; [|exact Hperm]. destruct Hq as [Hq|Hq]; [inversion Hq; congruence|exact Hq].
  - intros Hd. unfold free_reusable. destruct (slot_index sz <? kSlotCount); [exact Hd|].
    cbn [dyn]. apply in_remove_dyn_other; [exact Hd|].
    intros Hb. apply Hne. f_equal. apply (dyn_live_unique a q m old n I Hq Hin Hb Hd).
Qed.

Lemma owns_preserved isz a a' old q cap : keeps_others a a' old -> owns isz a q cap -> Some q <> old -> owns isz a' q cap.
Proof.
  intros K (asz & Hin & Hle & Hc1 & Hc2) Hne. destruct (K q asz Hin Hne) as [Hl Hd].
  exists asz. repeat split; auto.
Qed.

(* the block allocated for `bs` bytes is owned with capacity min(asz / isz, 2^32 - 1) *)
Lemma owns_after_alloc mok a isz bs p asz : inv a -> 0 < isz <= 2048 -> isz <= bs <= SIZE_MAX ->
  (bs <= 2048 \/ bs mod isz = 0 \/ 4096 <= bs) ->
  fst (alloc_reusable mok a bs) = Some (p, asz) ->
  let a1 := snd (alloc_reusable mok a bs) in
  let ncap := Z.min (asz / isz) 4294967295 in
  owns isz a1 p ncap /\ 0 < ncap /\ bs <= asz /\ Z.min (bs / isz) 4294967295 <= ncap /\
  (8 <= slot_index (ncap * isz) -> a_blk p = next_id a).
Proof.
  intros I Hisz Hbs Hshape Hres a1 ncap.
  pose proof (alloc_reusable_sound mok a bs I ltac:(lia)) as Hpost. fold a1 in Hpost. rewrite Hres in Hpost.
  destruct Hpost as (I1 & Hfit & Hal & Hreg & Hdis & Hlive).
  pose proof (alloc_reusable_class mok a bs p asz ltac:(lia) Hres) as Hcls. fold a1 in Hcls.
  assert (Hq : 1 <= asz / isz) by (apply Z.div_le_lower_bound; lia).
  assert (Hqm : asz / isz * isz <= asz) by (rewrite Z.mul_comm; apply Z.mul_div_le; lia).
  assert (Hqm2 : asz < (asz / isz + 1) * isz).
  { pose proof (Z.div_mod asz isz ltac:(lia)). pose proof (Z.mod_pos_bound asz isz ltac:(lia)). nia. }
  assert (Hncap : 1 <= ncap <= asz / isz) by (unfold ncap; lia).
  assert (Hmono : bs / isz <= asz / isz) by (apply Z.div_le_mono; lia).
  assert (Hgoal : (exists asz0, In (p, asz0) (live a1) /\ ncap * isz <= asz0 /\
             (slot_index (ncap * isz) < 8 -> asz0 = slot_size (slot_index (ncap * isz))) /\
             (8 <= slot_index (ncap * isz) -> In (a_blk p) (map mb_id (dyn a1)))) /\
            (8 <= slot_index (ncap * isz) -> a_blk p = next_id a));
    [|destruct Hgoal as [Hg1 Hg2]; split; [exact Hg1|split; [lia|split; [lia|split; [unfold ncap; lia|exact Hg2]]]]].
  assert (Hex : forall P Q : Prop, (In (p, asz) (live a1) /\ ncap * isz <= asz /\ P /\ Q) ->
            (P -> asz = asz) -> True) by auto.
  clear Hex.
  cut ((slot_index (ncap * isz) < 8 -> asz = slot_size (slot_index (ncap * isz))) /\
       (8 <= slot_index (ncap * isz) -> In (a_blk p) (map mb_id (dyn a1)) /\ a_blk p = next_id a)).
  { intros [C1 C2]. split.
    - exists asz. split; [rewrite Hlive; left; reflexivity|]. split; [nia|]. split; [exact C1|]. intros H8. apply C2. exact H8.
    - intros H8. apply C2. exact H8. }
  destruct Hcls as [(Hsi & Hasz & Hdyn & _)|(Hsi & Hasz & Hblk & Hdyn & _)].
  - (* slot class *)
    pose proof (slot_index_nonneg bs) as Hsi0. set (k := slot_index bs) in *.
    assert (Hsz : asz <= 2048).
    { subst asz. unfold slot_size. assert (2 ^ k <= 2 ^ 7) by (apply Z.pow_le_mono_r; lia). change (2 ^ 7) with 128 in *. lia. }
    assert (Hnc : ncap = asz / isz).
    { unfold ncap. apply Z.min_l. assert (asz / isz <= asz) by (apply Z.div_le_upper_bound; nia). lia. }
    assert (Hcls : slot_index (ncap * isz) = k).
    { rewrite Hnc. apply slot_index_class; try lia.
      intros Hk1. rewrite <- Hasz.
      destruct (Z.le_gt_cases (2 * isz) asz) as [Hsmall|Hlarge]; nia. }
    rewrite Hcls. split; [intros _; exact Hasz|intros; lia].
  - (* dynamic block *)
    assert (Hbig : 2048 < bs).
    { destruct (Z.le_gt_cases bs 2048) as [Hle|]; [|assumption]. exfalso.
      pose proof (slot_size_fits bs ltac:(unfold SIZE_MAX in *; lia)) as Hf.
      rewrite slot_index_eq in Hsi. rewrite Z.mod_small in Hsi by (unfold SIZE_MAX in *; lia).
      assert (Z.log2 (bs - 1) <= 10).
      { destruct (Z.eq_dec bs 1) as [->|]; [simpl; lia|]. apply Z.lt_succ_r. apply Z.log2_lt_pow2; [lia|]. simpl. lia. }
      lia. }
    assert (Hcap2048 : 2048 < ncap * isz).
    { subst asz. unfold ncap. destruct (Z.min_spec (bs / isz) 4294967295) as [[_ ->]|[_ ->]]; [|nia].
      destruct Hshape as [Hsmall|[Hmod|H4096]]; [lia| |].
      - assert (bs / isz * isz = bs); [|lia]. pose proof (Z.div_mod bs isz ltac:(lia)). lia.
      - nia. }
    assert (Hcls : 8 <= slot_index (ncap * isz)).
    { rewrite slot_index_eq.
      assert (ncap * isz <= SIZE_MAX) by (unfold SIZE_MAX in *; nia).
      rewrite Z.mod_small by (unfold SIZE_MAX in *; lia).
      assert (11 <= Z.log2 (ncap * isz - 1)) by (apply Z.log2_le_pow2; [lia|]; change (2 ^ 11) with 2048; lia).
      lia. }
    split; [intros; lia|]. intros _. split; [rewrite Hdyn, Hblk; left; reflexivity|exact Hblk].
Qed.

(* ------------------------------------------------------------------ reallocation *)
Lemma vec_abs_read v : 0 <= v_size v <= zlength (v_buf v) -> buf_read (v_buf v) 0 (v_size v) = Some (vec_abs v).
Proof. intros. rewrite buf_read_some by lia. rewrite zskipn_0. reflexivity. Qed.

Definition realloc_post (isz : Z) (a : arena) (v : vec) (bs : Z) (r : verr * arena * vec) : Prop :=
  let '(e, a', v') := r in
  inv a' /\ keeps_others a a' (v_data v) /\
  ((e = EOk /\ vec_inv isz a' v' /\ vec_abs v' = vec_abs v /\ v_size v' = v_size v /\ Z.min (bs / isz) 4294967295 <= v_cap v')
   \/ (e = EOutOfMemory /\ v' = v /\ vec_inv isz a' v)).

Lemma vec_inv_alloc_fail mok isz a v bs : inv a -> vec_inv isz a v -> 1 <= bs <= SIZE_MAX ->
  fst (alloc_reusable mok a bs) = None ->
  inv (snd (alloc_reusable mok a bs)) /\ vec_inv isz (snd (alloc_reusable mok a bs)) v /\
  keeps_others a (snd (alloc_reusable mok a bs)) (v_data v).
Proof.
  intros I V Hbs Hres.
  pose proof (alloc_reusable_sound mok a bs I Hbs) as Hpost. rewrite Hres in Hpost. destruct Hpost as [I1 Hlive].
  split; [exact I1|]. split.
  - destruct V as (V1 & V2 & V3 & V4). split; [exact V1|]. split; [exact V2|]. split; [exact V3|].
    destruct (v_data v) as [p|]; [|assumption]. destruct V4 as [Hc (asz & Hin & Hle & Hc1 & Hc2)].
    split; [assumption|]. exists asz. rewrite Hlive. repeat split; try assumption.
    intros H8. apply alloc_reusable_dyn_mono. auto.
  - intros q n Hin _. split; [rewrite Hlive; exact Hin|apply alloc_reusable_dyn_mono].
Qed.

Theorem vec_realloc_sound mok isz a v bs : inv a -> vec_inv isz a v -> 0 < isz <= 2048 -> isz <= bs <= SIZE_MAX ->
  (bs <= 2048 \/ bs mod isz = 0 \/ 4096 <= bs) -> v_size v * isz <= bs ->
  realloc_post isz a v bs (vec_realloc mok isz a v bs).
Proof.
  intros I V Hisz Hbs Hshape Hsz. unfold vec_realloc, realloc_post.
  destruct (alloc_reusable mok a bs) as [[[p asz]|] a1] eqn:Ealloc.
  2:{ pose proof (vec_inv_alloc_fail mok isz a v bs I V ltac:(lia)) as H. rewrite Ealloc in H. cbn [fst snd] in H.
      destruct (H eq_refl) as (I1 & V1 & K). split; [exact I1|]. split; [exact K|]. right. auto. }
  pose proof (alloc_reusable_sound mok a bs I ltac:(lia)) as Hpost. rewrite Ealloc in Hpost. cbn [fst snd] in Hpost.
  destruct Hpost as (I1 & Hfit & Hal & Hreg & Hdis & Hlive).
  pose proof (owns_after_alloc mok a isz bs p asz I Hisz Hbs Hshape) as Hown. rewrite Ealloc in Hown. cbn [fst snd] in Hown.
  specialize (Hown eq_refl). cbv zeta in Hown. destruct Hown as (Hown & Hncap0 & _ & Hncapn & Hfresh).
  set (ncap := Z.min (asz / isz) 4294967295) in *.
  destruct V as (V1 & V2 & V3 & V4).
  assert (Hsize0 : match v_data v with Some _ => v_size v | None => 0 end = v_size v).
  { destruct (v_data v); [reflexivity|]. lia. }
  rewrite Hsize0. rewrite vec_abs_read by lia.
  assert (Habs_len : zlength (vec_abs v) = v_size v) by (unfold vec_abs; apply zlength_zfirstn; lia).
  assert (Hsize_cap : v_size v <= ncap).
  { assert (v_size v <= bs / isz) by (apply Z.div_le_lower_bound; lia). lia. }
  rewrite buf_write_some by (rewrite ?zlength_zrepeat by lia; lia).
  rewrite zfirstn_0. cbn [app].
  set (nb := vec_abs v ++ zskipn (0 + zlength (vec_abs v)) (zrepeat poison ncap)).
  assert (Hnb_len : zlength nb = ncap).
  { unfold nb. rewrite zlength_app, zlength_zskipn by (rewrite zlength_zrepeat by lia; lia). rewrite zlength_zrepeat by lia. lia. }
  assert (Hnb_abs : zfirstn (v_size v) nb = vec_abs v).
  { unfold nb. rewrite zfirstn_app_l by lia. apply zfirstn_all. lia. }
  destruct (v_data v) as [old|] eqn:Edata.
  - (* the old buffer is released *)
    destruct V4 as [Hcap0 (oasz & Hoin & Hole & Hoc1 & Hoc2)].
    assert (Hoin1 : In (old, oasz) (live a1)) by (rewrite Hlive; right; exact Hoin).
    destruct (free_reusable_sound a1 old (v_cap v * isz) oasz I1 Hoin1 Hoc1) as [I2 Hperm].
    { intros H8. replace a1 with (snd (alloc_reusable mok a bs)) by (rewrite Ealloc; reflexivity).
      apply alloc_reusable_dyn_mono. auto. }
    set (a2 := free_reusable a1 old (v_cap v * isz)) in *.
    assert (Hpold : p <> old).
    { intros ->. rewrite Forall_forall in Hdis. specialize (Hdis _ Hoin). unfold disjoint in Hdis. cbn [fst snd] in Hdis.
      assert (0 < oasz) by nia. lia. }
    assert (Hkeep : forall q n, In (q, n) (live a1) -> q <> old -> In (q, n) (live a2)).
    { intros q n Hq Hne. eapply Permutation_in in Hq; [|exact Hperm]. destruct Hq as [Hq|Hq]; [inversion Hq; congruence|exact Hq]. }
    split; [exact I2|]. split.
    { eapply keeps_trans.
      - pose proof (alloc_keeps mok a bs I ltac:(lia)) as Hk. rewrite Ealloc in Hk. exact Hk.
      - apply (free_keeps a1 old (v_cap v * isz) oasz I1 Hoin1 Hoc1).
        intros H8. replace a1 with (snd (alloc_reusable mok a bs)) by (rewrite Ealloc; reflexivity).
        apply alloc_reusable_dyn_mono. auto. }
    left. split; [reflexivity|]. split; [|split; [exact Hnb_abs|split; [reflexivity|exact Hncapn]]].
    unfold vec_inv. cbn [v_size v_cap v_buf v_data]. split; [lia|]. split; [exact Hnb_len|]. split; [unfold ncap; lia|].
    split; [lia|]. destruct Hown as (asz' & Hin' & Hle' & Hc1' & Hc2').
    exists asz'. split; [apply Hkeep; [exact Hin'|exact Hpold]|]. split; [exact Hle'|]. split; [exact Hc1'|].
    intros H8. specialize (Hc2' H8). specialize (Hfresh H8).
    unfold a2, free_reusable. destruct (slot_index (v_cap v * isz) <? kSlotCount); [exact Hc2'|].
    cbn [dyn]. apply in_remove_dyn_other; [exact Hc2'|].
    pose proof (live_region_blk_lt a old oasz I Hoin). lia.
  - split; [exact I1|]. split.
    { pose proof (alloc_keeps mok a bs I ltac:(lia)) as Hk. rewrite Ealloc in Hk. exact Hk. }
    left. split; [reflexivity|]. split; [|split; [exact Hnb_abs|split; [reflexivity|exact Hncapn]]].
    unfold vec_inv. cbn [v_size v_cap v_buf v_data]. split; [lia|]. split; [exact Hnb_len|]. split; [unfold ncap; lia|].
    split; [lia|exact Hown].
Qed.

Lemma expand_shape t bs : grow_table_ok t = true -> 1 <= bs < 2 ^ 63 ->
  expand_byte_size t bs <= 2048 \/ 4096 <= expand_byte_size t bs.
Proof.
  intros Ht Hbs. pose proof (expand_byte_size_ok t bs Ht Hbs) as [[Hle _] _].
  unfold expand_byte_size, kGrowThreshold in *.
  destruct (Z.leb_spec bs 16777216); [|lia].
  destruct (grow_index_bounds bs ltac:(lia)) as (Hi1 & Hi2 & Hi3).
  set (idx := Z.log2 (Z.lor (bs - 1) 1) + 1) in *.
  set (g := nth (Z.to_nat idx) t 0) in *.
  destruct (Z.le_gt_cases g 11).
  - left. destruct (Z.lt_ge_cases g 0); [rewrite Z.pow_neg_r by lia; lia|].
    assert (2 ^ g <= 2 ^ 11) by (apply Z.pow_le_mono_r; lia). change (2 ^ 11) with 2048 in *. lia.
  - right. assert (2 ^ 12 <= 2 ^ g) by (apply Z.pow_le_mono_r; lia). change (2 ^ 12) with 4096 in *. lia.
Qed.

(* ------------------------------------------------------------------ reserve *)
Definition table_ok (grow : option (list Z)) : Prop := match grow with Some t => grow_table_ok t = true | None => True end.

Definition reserve_post (isz : Z) (a : arena) (v : vec) (n : Z) (r : verr * arena * vec) : Prop :=
  let '(e, a', v') := r in
  inv a' /\ keeps_others a a' (v_data v) /\
  ((e = EOk /\ vec_inv isz a' v' /\ vec_abs v' = vec_abs v /\ v_size v' = v_size v /\ n <= v_cap v')
   \/ (e = EOutOfMemory /\ v' = v /\ vec_inv isz a' v)).

Theorem vec_reserve_gen_sound grow mok isz a v n : table_ok grow -> inv a -> vec_inv isz a v -> 0 < isz <= 2048 ->
  reserve_post isz a v n (vec_reserve_gen grow mok isz a v n).
Proof.
  intros Ht I V Hisz. unfold vec_reserve_gen, reserve_post.
  destruct (Z.geb_spec (v_cap v) n) as [Hge|Hlt].
  { split; [exact I|]. split; [apply keeps_others_refl|]. left. split; [reflexivity|]. split; [exact V|]. split; [reflexivity|]. split; [reflexivity|lia]. }
  unfold is_valid_size. destruct (Z.ltb_spec n 4294967295) as [Hv|Hv]; cbn [negb].
  2:{ split; [exact I|]. split; [apply keeps_others_refl|]. right. auto. }
  pose proof V as (V1 & V2 & V3 & V4).
  set (bs := n * isz).
  assert (Hbs : isz <= bs < 2 ^ 44).
  { unfold bs. split; [nia|]. change (2 ^ 44) with (4294967296 * 4096). nia. }
  set (rbs := match grow with Some t => expand_byte_size t bs | None => bs end).
  assert (Hrbs : bs <= rbs <= SIZE_MAX /\ (rbs <= 2048 \/ rbs mod isz = 0 \/ 4096 <= rbs)).
  { unfold rbs. destruct grow as [t|].
    - pose proof (expand_byte_size_ok t bs Ht ltac:(change (2 ^ 63) with (2 ^ 44 * 524288); lia)) as [[H1 H2] _].
      pose proof (expand_shape t bs Ht ltac:(change (2 ^ 63) with (2 ^ 44 * 524288); lia)) as H3.
      unfold SIZE_MAX. split; [lia|]. destruct H3; [left; assumption|right; right; assumption].
    - unfold SIZE_MAX. change (2 ^ 64) with (2 ^ 44 * 1048576). split; [lia|]. right. left. unfold bs. apply Z.mod_mul. lia. }
  destruct Hrbs as [Hr1 Hr2].
  pose proof (vec_realloc_sound mok isz a v rbs I V Hisz ltac:(lia) Hr2 ltac:(unfold bs in *; nia)) as Hpost.
  unfold realloc_post in Hpost.
  destruct (vec_realloc mok isz a v rbs) as [[e a'] v'].
  destruct Hpost as (I' & K & [(He & V' & Habs & Hsz & Hcap)|Hfail]).
  - split; [exact I'|]. split; [exact K|]. left. split; [exact He|]. split; [exact V'|]. split; [exact Habs|]. split; [exact Hsz|].
    assert (n <= rbs / isz) by (apply Z.div_le_lower_bound; unfold bs in *; lia). lia.
  - split; [exact I'|]. split; [exact K|]. right. exact Hfail.
Qed.

Lemma vec_grow_sound t mok isz a v n : grow_table_ok t = true -> inv a -> vec_inv isz a v -> 0 < isz <= 2048 -> 0 <= n ->
  reserve_post isz a v (v_size v + n) (vec_grow t mok isz a v n).
Proof.
  intros Ht I V Hisz Hn. unfold vec_grow.
  destruct (Z.gtb_spec (v_size v + n) SIZE_MAX).
  - unfold reserve_post. split; [exact I|]. split; [apply keeps_others_refl|]. right. auto.
  - apply (vec_reserve_gen_sound (Some t)); assumption.
Qed.

Lemma vec_reserve_one_sound t mok isz a v : grow_table_ok t = true -> inv a -> vec_inv isz a v -> 0 < isz <= 2048 ->
  reserve_post isz a v (v_size v + 1) (vec_reserve_one t mok isz a v).
Proof.
  intros Ht I V Hisz. unfold vec_reserve_one.
  destruct (Z.eqb_spec (v_size v) (v_cap v)).
  - apply vec_grow_sound; auto. lia.
  - unfold reserve_post. split; [exact I|]. split; [apply keeps_others_refl|]. left.
    split; [reflexivity|]. split; [exact V|]. split; [reflexivity|]. split; [reflexivity|]. destruct V as (V1 & V2 & V3 & V4). lia.
Qed.

Lemma vec_reserve_additional_sound t mok isz a v n : grow_table_ok t = true -> inv a -> vec_inv isz a v -> 0 < isz <= 2048 -> 0 <= n ->
  reserve_post isz a v (v_size v + n) (vec_reserve_additional t mok isz a v n).
Proof.
  intros Ht I V Hisz Hn. unfold vec_reserve_additional.
  destruct (Z.ltb_spec (v_cap v - v_size v) n).
  - apply vec_grow_sound; auto.
  - unfold reserve_post. split; [exact I|]. split; [apply keeps_others_refl|]. left.
    split; [reflexivity|]. split; [exact V|]. split; [reflexivity|]. split; [reflexivity|]. destruct V as (V1 & V2 & V3 & V4). lia.
Qed.

(* ------------------------------------------------------------------ operations refine the textbook list *)
Definition op_post (isz : Z) (a : arena) (v : vec) (abs' : list Z) (r : verr * arena * vec) : Prop :=
  let '(e, a', v') := r in
  inv a' /\ keeps_others a a' (v_data v) /\
  ((e = EOk /\ vec_inv isz a' v' /\ vec_abs v' = abs')
   \/ (e = EOutOfMemory /\ v' = v /\ vec_inv isz a' v)).

Lemma with_buf_inv isz a v b size : vec_inv isz a v -> zlength b = zlength (v_buf v) -> 0 <= size <= v_cap v ->
  vec_inv isz a (with_buf v b size).
Proof.
  intros (V1 & V2 & V3 & V4) Hb Hs. unfold vec_inv, with_buf. cbn [v_size v_cap v_buf v_data].
  split; [exact Hs|]. split; [lia|]. split; [exact V3|exact V4].
Qed.

Lemma vec_abs_len v : 0 <= v_size v <= zlength (v_buf v) -> zlength (vec_abs v) = v_size v.
Proof. intros. unfold vec_abs. apply zlength_zfirstn. lia. Qed.

Theorem vec_append_refines t mok isz a v x : grow_table_ok t = true -> inv a -> vec_inv isz a v -> 0 < isz <= 2048 ->
  op_post isz a v (vec_abs v ++ [x]) (vec_append t mok isz a v x).
Proof.
  intros Ht I V Hisz. unfold vec_append, op_post.
  pose proof (vec_reserve_one_sound t mok isz a v Ht I V Hisz) as Hr. unfold reserve_post in Hr.
  destruct (vec_reserve_one t mok isz a v) as [[e a1] v1].
  destruct Hr as (I1 & K & [(-> & V1 & Habs & Hsz & Hcap)|(-> & -> & V1)]).
  2:{ split; [exact I1|]. split; [exact K|]. right. auto. }
  pose proof V1 as (W1 & W2 & W3 & W4).
  rewrite buf_write_some by (change (zlength [x]) with 1; lia).
  split; [exact I1|]. split; [exact K|]. left. split; [reflexivity|]. split.
  - apply with_buf_inv; [exact V1| |lia].
    rewrite !zlength_app, zlength_zfirstn, zlength_zskipn by (change (zlength [x]) with 1; lia). change (zlength [x]) with 1. lia.
  - unfold vec_abs at 1, with_buf. cbn [v_size v_buf].
    replace (v_size v1 + 1) with (v_size v1 + zlength [x]) by reflexivity.
    rewrite write_prefix by (change (zlength [x]) with 1; lia). fold (vec_abs v1). rewrite Habs. reflexivity.
Qed.

(* the textbook insertion *)
Definition list_insert (l : list Z) (idx x : Z) : list Z := zfirstn idx l ++ x :: zskipn idx l.

Theorem vec_insert_refines t mok isz a v idx x : grow_table_ok t = true -> inv a -> vec_inv isz a v -> 0 < isz <= 2048 ->
  0 <= idx <= v_size v ->
  op_post isz a v (list_insert (vec_abs v) idx x) (vec_insert t mok isz a v idx x).
Proof.
  intros Ht I V Hisz Hidx. unfold vec_insert, op_post.
  pose proof (vec_reserve_one_sound t mok isz a v Ht I V Hisz) as Hr. unfold reserve_post in Hr.
  destruct (vec_reserve_one t mok isz a v) as [[e a1] v1].
  destruct Hr as (I1 & K & [(-> & V1 & Habs & Hsz & Hcap)|(-> & -> & V1)]).
  2:{ split; [exact I1|]. split; [exact K|]. right. auto. }
  pose proof V1 as (W1 & W2 & W3 & W4).
  destruct (insert_cells (v_buf v1) idx (v_size v1 - idx) x ltac:(lia) ltac:(lia) ltac:(lia)) as (b1 & b & Hm & Hw & Hlen & Hpre).
  rewrite Hm, Hw.
  split; [exact I1|]. split; [exact K|]. left. split; [reflexivity|]. split.
  - apply with_buf_inv; [exact V1|exact Hlen|lia].
  - unfold vec_abs at 1, with_buf. cbn [v_size v_buf].
    replace (v_size v1 + 1) with (idx + (v_size v1 - idx) + 1) by lia. rewrite Hpre.
    unfold list_insert. rewrite <- Habs. unfold vec_abs.
    rewrite zfirstn_zfirstn by lia. f_equal. f_equal.
    rewrite zfirstn_zskipn_comm by lia. f_equal. f_equal. lia.
Qed.

Theorem vec_remove_at_refines isz a v i : vec_inv isz a v -> 0 <= i < v_size v ->
  fst (vec_remove_at v i) = EOk /\ vec_inv isz a (snd (vec_remove_at v i)) /\
  vec_abs (snd (vec_remove_at v i)) = zfirstn i (vec_abs v) ++ zskipn (i + 1) (vec_abs v).
Proof.
  intros V Hi. pose proof V as (V1 & V2 & V3 & V4). unfold vec_remove_at.
  destruct (Z.eqb_spec (v_size v - 1 - i) 0) as [He|Hne].
  - cbn [fst snd]. split; [reflexivity|]. split; [apply with_buf_inv; [exact V|reflexivity|lia]|].
    unfold vec_abs, with_buf. cbn [v_size v_buf].
    rewrite zfirstn_zfirstn by lia. replace (v_size v - 1) with i by lia.
    rewrite zskipn_all by (rewrite zlength_zfirstn by lia; lia). rewrite app_nil_r. reflexivity.
  - destruct (remove_cells (v_buf v) i (v_size v - 1 - i) ltac:(lia) ltac:(lia) ltac:(lia)) as (b & Hm & Hlen & Hpre).
    rewrite Hm. cbn [fst snd]. split; [reflexivity|]. split; [apply with_buf_inv; [exact V|exact Hlen|lia]|].
    unfold vec_abs at 1, with_buf. cbn [v_size v_buf].
    replace (v_size v - 1) with (i + (v_size v - 1 - i)) at 1 by lia. rewrite Hpre.
    unfold vec_abs. rewrite zfirstn_zfirstn by lia. f_equal.
    rewrite zfirstn_zskipn_comm by lia. f_equal. f_equal. lia.
Qed.

Theorem vec_pop_refines isz a v : vec_inv isz a v -> 0 < v_size v ->
  exists x, fst (vec_pop v) = Some x /\ vec_inv isz a (snd (vec_pop v)) /\ vec_abs v = vec_abs (snd (vec_pop v)) ++ [x].
Proof.
  intros V Hs. pose proof V as (V1 & V2 & V3 & V4). unfold vec_pop.
  rewrite buf_read_some by lia.
  destruct (zfirstn 1 (zskipn (v_size v - 1) (v_buf v))) as [|x [|y l]] eqn:E.
  - exfalso. assert (zlength (zfirstn 1 (zskipn (v_size v - 1) (v_buf v))) = 1).
    { apply zlength_zfirstn. rewrite zlength_zskipn by lia. lia. }
    rewrite E in H. discriminate.
  - exists x. cbn [fst snd]. split; [reflexivity|]. split; [apply with_buf_inv; [exact V|reflexivity|lia]|].
    unfold vec_abs, with_buf. cbn [v_size v_buf].
    rewrite <- E. rewrite zfirstn_zskipn_comm by lia. replace (v_size v - 1 + 1) with (v_size v) by lia.
    rewrite <- (zfirstn_zfirstn (v_size v - 1) (v_size v)) by lia. apply (eq_sym (zfirstn_zskipn _ _)).
  - exfalso. assert (zlength (zfirstn 1 (zskipn (v_size v - 1) (v_buf v))) = 1).
    { apply zlength_zfirstn. rewrite zlength_zskipn by lia. lia. }
    rewrite E in H. rewrite !zlength_cons in H. pose proof (zlength_nonneg l). lia.
Qed.

Theorem vec_truncate_refines isz a v n : vec_inv isz a v -> 0 <= n ->
  vec_inv isz a (vec_truncate v n) /\ vec_abs (vec_truncate v n) = zfirstn n (vec_abs v).
Proof.
  intros V Hn. pose proof V as (V1 & V2 & V3 & V4). unfold vec_truncate. split.
  - apply with_buf_inv; [exact V|reflexivity|lia].
  - unfold vec_abs, with_buf. cbn [v_size v_buf].
    destruct (Z.min_spec (v_size v) n) as [[H ->]|[H ->]].
    + symmetry. apply zfirstn_all. rewrite zlength_zfirstn by lia. lia.
    + symmetry. apply zfirstn_zfirstn. lia.
Qed.

Theorem vec_clear_refines isz a v : vec_inv isz a v -> vec_inv isz a (vec_clear v) /\ vec_abs (vec_clear v) = [].
Proof.
  intros V. pose proof V as (V1 & V2 & V3 & V4). unfold vec_clear. split.
  - apply with_buf_inv; [exact V|reflexivity|lia].
  - reflexivity.
Qed.

(* resize: keep the first n items, pad with zero items *)
Theorem vec_resize_refines grow mok isz a v n : table_ok grow -> inv a -> vec_inv isz a v -> 0 < isz <= 2048 -> 0 <= n ->
  op_post isz a v (zfirstn n (vec_abs v) ++ zrepeat 0 (n - v_size v)) (vec_resize grow mok isz a v n).
Proof.
  intros Ht I V Hisz Hn. unfold vec_resize, op_post.
  assert (Hr : reserve_post isz a v n (if v_cap v <? n then vec_reserve_gen grow mok isz a v n else (EOk, a, v))).
  { destruct (Z.ltb_spec (v_cap v) n).
    - apply vec_reserve_gen_sound; assumption.
    - unfold reserve_post. split; [exact I|]. split; [apply keeps_others_refl|]. left.
      split; [reflexivity|]. split; [exact V|]. split; [reflexivity|]. split; [reflexivity|lia]. }
  unfold reserve_post in Hr.
  destruct (if v_cap v <? n then vec_reserve_gen grow mok isz a v n else (EOk, a, v)) as [[e a1] v1].
  destruct Hr as (I1 & K & [(-> & V1 & Habs & Hsz & Hcap)|(-> & -> & V1)]).
  2:{ split; [exact I1|]. split; [exact K|]. right. auto. }
  pose proof V1 as (W1 & W2 & W3 & W4).
  rewrite Z.mod_small by lia.
  destruct (Z.ltb_spec (v_size v1) n) as [Hlt|Hge].
  - rewrite buf_write_some by (rewrite ?zlength_zrepeat by lia; lia).
    split; [exact I1|]. split; [exact K|]. left. split; [reflexivity|]. split.
    + apply with_buf_inv; [exact V1| |lia].
      rewrite !zlength_app, zlength_zfirstn, zlength_zskipn, zlength_zrepeat by (rewrite ?zlength_zrepeat by lia; lia). lia.
    + unfold vec_abs at 1, with_buf. cbn [v_size v_buf].
      replace n with (v_size v1 + zlength (zrepeat 0 (n - v_size v1))) at 1 by (rewrite zlength_zrepeat by lia; lia).
      rewrite write_prefix by (rewrite ?zlength_zrepeat by lia; lia).
      fold (vec_abs v1). rewrite Habs, Hsz.
      rewrite (zfirstn_all n (vec_abs v)) by (rewrite vec_abs_len; destruct V as (? & ? & ?); lia). reflexivity.
  - split; [exact I1|]. split; [exact K|]. left. split; [reflexivity|]. split.
    + apply with_buf_inv; [exact V1|reflexivity|lia].
    + unfold vec_abs at 1, with_buf. cbn [v_size v_buf].
      replace (zrepeat 0 (n - v_size v)) with (@nil Z) by (unfold zrepeat; replace (Z.to_nat (n - v_size v)) with 0%nat by lia; reflexivity).
      rewrite app_nil_r. rewrite <- Habs. unfold vec_abs. symmetry. apply zfirstn_zfirstn. lia.
Qed.

(* release: the buffer goes back to the arena, the vector is empty *)
Theorem vec_release_sound isz a v : inv a -> vec_inv isz a v ->
  inv (fst (vec_release isz a v)) /\ vec_inv isz (fst (vec_release isz a v)) (snd (vec_release isz a v)) /\
  vec_abs (snd (vec_release isz a v)) = [] /\ keeps_others a (fst (vec_release isz a v)) (v_data v).
Proof.
  intros I V. pose proof V as (V1 & V2 & V3 & V4). unfold vec_release.
  destruct (v_data v) as [p|] eqn:E.
  - destruct V4 as [Hc (asz & Hin & Hle & Hc1 & Hc2)].
    destruct (free_reusable_sound a p (v_cap v * isz) asz I Hin Hc1 Hc2) as [I' Hperm].
    cbn [fst snd]. split; [exact I'|]. split; [apply vec_inv_empty|]. split; [reflexivity|].
    apply (free_keeps a p (v_cap v * isz) asz I Hin Hc1 Hc2).
  - cbn [fst snd]. split; [exact I|]. split; [exact V|]. split; [|apply keeps_others_refl].
    unfold vec_abs. assert (v_size v = 0) by lia. rewrite H. reflexivity.
Qed.

(* concat: append the other vector's items *)
Theorem vec_concat_refines t mok isz a v other : grow_table_ok t = true -> inv a -> vec_inv isz a v -> 0 < isz <= 2048 ->
  0 <= v_size other <= zlength (v_buf other) ->
  op_post isz a v (vec_abs v ++ vec_abs other) (vec_concat t mok isz a v other).
Proof.
  intros Ht I V Hisz Ho. unfold vec_concat, op_post.
  assert (Hr : reserve_post isz a v (v_size v + v_size other)
            (if v_cap v - v_size v <? v_size other then vec_reserve_additional t mok isz a v (v_size other) else (EOk, a, v))).
  { destruct (Z.ltb_spec (v_cap v - v_size v) (v_size other)).
    - apply vec_reserve_additional_sound; auto. lia.
    - unfold reserve_post. split; [exact I|]. split; [apply keeps_others_refl|]. left.
      split; [reflexivity|]. split; [exact V|]. split; [reflexivity|]. split; [reflexivity|lia]. }
  unfold reserve_post in Hr.
  destruct (if v_cap v - v_size v <? v_size other then vec_reserve_additional t mok isz a v (v_size other) else (EOk, a, v)) as [[e a1] v1].
  destruct Hr as (I1 & K & [(-> & V1 & Habs & Hsz & Hcap)|(-> & -> & V1)]).
  2:{ split; [exact I1|]. split; [exact K|]. right. auto. }
  pose proof V1 as (W1 & W2 & W3 & W4).
  destruct (Z.eqb_spec (v_size other) 0) as [H0|Hn0].
  - split; [exact I1|]. split; [exact K|]. left. split; [reflexivity|]. split; [exact V1|].
    rewrite Habs. replace (vec_abs other) with (@nil Z) by (unfold vec_abs; rewrite H0; reflexivity). rewrite app_nil_r. reflexivity.
  - rewrite vec_abs_read by lia.
    assert (Hol : zlength (vec_abs other) = v_size other) by (apply vec_abs_len; lia).
    rewrite buf_write_some by lia.
    split; [exact I1|]. split; [exact K|]. left. split; [reflexivity|]. split.
    + apply with_buf_inv; [exact V1| |lia].
      rewrite !zlength_app, zlength_zfirstn, zlength_zskipn by lia. lia.
    + unfold vec_abs at 1, with_buf. cbn [v_size v_buf].
      rewrite <- Hol at 1. rewrite write_prefix by lia. fold (vec_abs v1). rewrite Habs. reflexivity.
Qed.

(* ------------------------------------------------------------------ the buffer-free reservation logic is a projection *)
Theorem reserve_shape_agrees grow mok isz a v n : table_ok grow -> inv a -> vec_inv isz a v -> 0 < isz <= 2048 ->
  let '(e, a', v') := vec_reserve_gen grow mok isz a v n in
  reserve_shape grow mok isz a (shape_of v) n = (e, a', shape_of v').
Proof.
  intros Ht I V Hisz.
  pose proof (vec_reserve_gen_sound grow mok isz a v n Ht I V Hisz) as Hs.
  unfold vec_reserve_gen, reserve_shape, shape_of, reserve_post in *.
  destruct (v_cap v >=? n); [reflexivity|]. destruct (negb (is_valid_size n)); [reflexivity|].
  pose proof V as (V1 & V2 & V3 & V4).
  set (rbs := match grow with Some t => expand_byte_size t (n * isz) | None => n * isz end) in *.
  unfold vec_realloc, realloc_shape in *.
  destruct (alloc_reusable mok a rbs) as [[[p asz]|] a1]; [|reflexivity].
  assert (Hsize0 : match v_data v with Some _ => v_size v | None => 0 end = v_size v).
  { destruct (v_data v); [reflexivity|]. lia. }
  rewrite Hsize0 in *. rewrite vec_abs_read in * by lia.
  destruct (buf_write (zrepeat poison (Z.min (asz / isz) 4294967295)) 0 (vec_abs v)) as [nb|].
  - reflexivity.
  - exfalso. destruct Hs as (_ & _ & [(He & _)|(He & _)]); discriminate.
Qed.

(* ------------------------------------------------------------------ every operation sequence, interleaved with other arena traffic *)
Inductive vop :=
| VAppend (x : Z) | VInsert (idx x : Z) | VRemoveAt (i : Z) | VPop | VClear | VTruncate (n : Z)
| VReserveFit (n : Z) | VReserveGrow (n : Z) | VReserveAdditional (n : Z) | VResizeFit (n : Z) | VResizeGrow (n : Z) | VRelease
| VOtherOneshot (size : Z) | VOtherReusable (size : Z).   (* allocations made by other users of the same arena *)

(* operations whose C++ precondition (an assert) does not hold are skipped, as in the harness *)
Definition vstep (t : list Z) (mok : Z -> bool) (isz : Z) (st : arena * vec) (o : vop) : verr * (arena * vec) :=
  let '(a, v) := st in
  match o with
  | VAppend x => let '(e, a', v') := vec_append t mok isz a v x in (e, (a', v'))
  | VInsert idx x => if (0 <=? idx) && (idx <=? v_size v) then let '(e, a', v') := vec_insert t mok isz a v idx x in (e, (a', v')) else (EOk, st)
  | VRemoveAt i => if (0 <=? i) && (i <? v_size v) then let '(e, v') := vec_remove_at v i in (e, (a, v')) else (EOk, st)
  | VPop => if 0 <? v_size v then (EOk, (a, snd (vec_pop v))) else (EOk, st)
  | VClear => (EOk, (a, vec_clear v))
  | VTruncate n => if 0 <=? n then (EOk, (a, vec_truncate v n)) else (EOk, st)
  | VReserveFit n => let '(e, a', v') := vec_reserve_fit mok isz a v n in (e, (a', v'))
  | VReserveGrow n => let '(e, a', v') := vec_reserve_grow t mok isz a v n in (e, (a', v'))
  | VReserveAdditional n => if 0 <=? n then let '(e, a', v') := vec_reserve_additional t mok isz a v n in (e, (a', v')) else (EOk, st)
  | VResizeFit n => if 0 <=? n then let '(e, a', v') := vec_resize None mok isz a v n in (e, (a', v')) else (EOk, st)
  | VResizeGrow n => if 0 <=? n then let '(e, a', v') := vec_resize (Some t) mok isz a v n in (e, (a', v')) else (EOk, st)
  | VRelease => let '(a', v') := vec_release isz a v in (EOk, (a', v'))
  | VOtherOneshot size => if (0 <? size) && (size <=? SIZE_MAX) && (size mod 8 =? 0) then (EOk, (snd (alloc_oneshot mok a size), v)) else (EOk, st)
  | VOtherReusable size => if (1 <=? size) && (size <=? SIZE_MAX) then (EOk, (snd (alloc_reusable mok a size), v)) else (EOk, st)
  end.

(* the textbook data type: a list; a refused (out of memory) operation leaves it alone *)
Definition lstep (l : list Z) (o : vop) (e : verr) : list Z :=
  match e with
  | EOk =>
    match o with
    | VAppend x => l ++ [x]
    | VInsert idx x => if (0 <=? idx) && (idx <=? zlength l) then list_insert l idx x else l
    | VRemoveAt i => if (0 <=? i) && (i <? zlength l) then zfirstn i l ++ zskipn (i + 1) l else l
    | VPop => if 0 <? zlength l then zfirstn (zlength l - 1) l else l
    | VClear => []
    | VTruncate n => if 0 <=? n then zfirstn n l else l
    | VResizeFit n | VResizeGrow n => if 0 <=? n then zfirstn n l ++ zrepeat 0 (n - zlength l) else l
    | VRelease => []
    | _ => l
    end
  | _ => l
  end.

Definition vstate_ok (isz : Z) (st : arena * vec) (l : list Z) : Prop :=
  inv (fst st) /\ vec_inv isz (fst st) (snd st) /\ vec_abs (snd st) = l.

Lemma vec_inv_other_alloc isz a a' v : vec_inv isz a v ->
  (forall q n, In (q, n) (live a) -> In (q, n) (live a')) ->
  (forall x, In x (map mb_id (dyn a)) -> In x (map mb_id (dyn a'))) -> vec_inv isz a' v.
Proof.
  intros (V1 & V2 & V3 & V4) Hl Hd. split; [exact V1|]. split; [exact V2|]. split; [exact V3|].
  destruct (v_data v) as [p|]; [|exact V4]. destruct V4 as [Hc (asz & Hin & Hle & Hc1 & Hc2)].
  split; [exact Hc|]. exists asz. repeat split; auto.
Qed.

Lemma alloc_oneshot_dyn mok a size : dyn (snd (alloc_oneshot mok a size)) = dyn a.
Proof.
  unfold alloc_oneshot. destruct (size >? endp a - ptr a); [|reflexivity].
  unfold alloc_oneshot_slow. destruct (scan_next _ _) as [[b rest]|]; [reflexivity|].
  destruct (_ && _); [reflexivity|]. destruct (mok _); reflexivity.
Qed.

Theorem vstep_refines t mok isz st l o : grow_table_ok t = true -> 0 < isz <= 2048 -> vstate_ok isz st l ->
  let r := vstep t mok isz st o in
  (fst r = EOk \/ fst r = EOutOfMemory) /\ vstate_ok isz (snd r) (lstep l o (fst r)).
Proof.
  intros Ht Hisz (I & V & Habs). destruct st as [a v]. cbn [fst snd] in *.
  pose proof V as (V1 & V2 & V3 & V4).
  assert (Hlen : zlength l = v_size v) by (rewrite <- Habs; apply vec_abs_len; lia).
  assert (Hpost : forall abs' r, op_post isz a v abs' r ->
            (fst (fst r) = EOk \/ fst (fst r) = EOutOfMemory) /\
            inv (snd (fst r)) /\ vec_inv isz (snd (fst r)) (snd r) /\ vec_abs (snd r) = (match fst (fst r) with EOk => abs' | _ => l end)).
  { intros abs' [[e a'] v'] (I' & _ & [(-> & V' & Ha)|(-> & -> & V')]); cbn [fst snd]; auto. }
  assert (Hrpost : forall n r, reserve_post isz a v n r ->
            (fst (fst r) = EOk \/ fst (fst r) = EOutOfMemory) /\
            inv (snd (fst r)) /\ vec_inv isz (snd (fst r)) (snd r) /\ vec_abs (snd r) = l).
  { intros n [[e a'] v'] (I' & _ & [(-> & V' & Ha & _)|(-> & -> & V')]); cbn [fst snd]; [rewrite Ha|]; auto. }
  destruct o; cbn [vstep].
  - (* append *) pose proof (Hpost _ _ (vec_append_refines t mok isz a v x Ht I V Hisz)) as Hq.
    destruct (vec_append t mok isz a v x) as [[e a'] v']. cbn [fst snd] in *. destruct Hq as (He & I' & V' & Ha).
    split; [exact He|]. split; [exact I'|]. split; [exact V'|]. cbn [fst snd]. rewrite Ha, Habs. destruct He as [-> | ->]; reflexivity.
  - (* insert *)
    assert (Hl1 : lstep l (VInsert idx x) EOk = if (0 <=? idx) && (idx <=? v_size v) then list_insert l idx x else l)
      by (cbn [lstep]; rewrite Hlen; reflexivity).
    destruct ((0 <=? idx) && (idx <=? v_size v)) eqn:Ec.
    2:{ cbn [fst snd]. rewrite Hl1. split; [left; reflexivity|]. split; [exact I|]. split; [exact V|exact Habs]. }
    apply andb_prop in Ec. destruct Ec as [Ec1 Ec2]. apply Z.leb_le in Ec1. apply Z.leb_le in Ec2.
    pose proof (Hpost _ _ (vec_insert_refines t mok isz a v idx x Ht I V Hisz ltac:(lia))) as Hq.
    destruct (vec_insert t mok isz a v idx x) as [[e a'] v']. cbn [fst snd] in *. destruct Hq as (He & I' & V' & Ha).
    split; [exact He|]. split; [exact I'|]. split; [exact V'|]. cbn [fst snd]. rewrite Ha, Habs.
    destruct He as [-> | ->]; [rewrite Hl1; reflexivity|reflexivity].
  - (* remove_at *)
    assert (Hl1 : lstep l (VRemoveAt i) EOk = if (0 <=? i) && (i <? v_size v) then zfirstn i l ++ zskipn (i + 1) l else l)
      by (cbn [lstep]; rewrite Hlen; reflexivity).
    destruct ((0 <=? i) && (i <? v_size v)) eqn:Ec.
    2:{ cbn [fst snd]. rewrite Hl1. split; [left; reflexivity|]. split; [exact I|]. split; [exact V|exact Habs]. }
    apply andb_prop in Ec. destruct Ec as [Ec1 Ec2]. apply Z.leb_le in Ec1. apply Z.ltb_lt in Ec2.
    destruct (vec_remove_at_refines isz a v i V ltac:(lia)) as (He & V' & Ha).
    destruct (vec_remove_at v i) as [e v']. cbn [fst snd] in *. subst e. rewrite Hl1.
    split; [left; reflexivity|]. split; [exact I|]. split; [exact V'|]. cbn [fst snd]. rewrite Ha, Habs. reflexivity.
  - (* pop *)
    assert (Hl1 : lstep l VPop EOk = if 0 <? v_size v then zfirstn (v_size v - 1) l else l)
      by (cbn [lstep]; rewrite Hlen; reflexivity).
    destruct (Z.ltb_spec 0 (v_size v)).
    2:{ cbn [fst snd]. rewrite Hl1. split; [left; reflexivity|]. split; [exact I|]. split; [exact V|exact Habs]. }
    destruct (vec_pop_refines isz a v V ltac:(lia)) as (x & _ & V' & Ha).
    cbn [fst snd]. rewrite Hl1. split; [left; reflexivity|]. split; [exact I|]. split; [exact V'|]. cbn [fst snd].
    rewrite <- Habs, Ha.
    assert (Hl' : zlength (vec_abs (snd (vec_pop v))) = v_size v - 1).
    { assert (Hz : zlength (vec_abs v) = v_size v) by (apply vec_abs_len; lia). rewrite Ha, zlength_app in Hz. change (zlength [x]) with 1 in Hz. lia. }
    rewrite zfirstn_app_l by lia. symmetry. apply zfirstn_all. lia.
  - (* clear *) destruct (vec_clear_refines isz a v V) as [V' Ha]. cbn [fst snd lstep]. split; [left; reflexivity|]. split; [exact I|]. split; [exact V'|cbn [fst snd]; exact Ha].
  - (* truncate *) destruct (Z.leb_spec 0 n);
      [|cbn [fst snd lstep]; split; [left; reflexivity|]; split; [exact I|]; split; [exact V|cbn [fst snd]; try (destruct (Z.leb_spec 0 n); [lia|]); exact Habs]].
    destruct (vec_truncate_refines isz a v n V ltac:(lia)) as [V' Ha]. cbn [fst snd lstep].
    split; [left; reflexivity|]. split; [exact I|]. split; [exact V'|]. cbn [fst snd]. rewrite Ha, Habs.
    destruct (Z.leb_spec 0 n); [reflexivity|lia].
  - (* reserve_fit *) pose proof (Hrpost _ _ (vec_reserve_gen_sound None mok isz a v n Logic.I I V Hisz)) as Hq.
    unfold vec_reserve_fit. destruct (vec_reserve_gen None mok isz a v n) as [[e a'] v']. cbn [fst snd] in *. destruct Hq as (He & I' & V' & Ha).
    split; [exact He|]. split; [exact I'|]. split; [exact V'|]. cbn [fst snd]. rewrite Ha. destruct He as [-> | ->]; reflexivity.
  - (* reserve_grow *) pose proof (Hrpost _ _ (vec_reserve_gen_sound (Some t) mok isz a v n Ht I V Hisz)) as Hq.
    unfold vec_reserve_grow. destruct (vec_reserve_gen (Some t) mok isz a v n) as [[e a'] v']. cbn [fst snd] in *. destruct Hq as (He & I' & V' & Ha).
    split; [exact He|]. split; [exact I'|]. split; [exact V'|]. cbn [fst snd]. rewrite Ha. destruct He as [-> | ->]; reflexivity.
  - (* reserve_additional *) destruct (Z.leb_spec 0 n);
      [|cbn [fst snd lstep]; split; [left; reflexivity|]; split; [exact I|]; split; [exact V|cbn [fst snd]; try (destruct (Z.leb_spec 0 n); [lia|]); exact Habs]].
    pose proof (Hrpost _ _ (vec_reserve_additional_sound t mok isz a v n Ht I V Hisz ltac:(lia))) as Hq.
    destruct (vec_reserve_additional t mok isz a v n) as [[e a'] v']. cbn [fst snd] in *. destruct Hq as (He & I' & V' & Ha).
    split; [exact He|]. split; [exact I'|]. split; [exact V'|]. cbn [fst snd]. rewrite Ha. destruct He as [-> | ->]; reflexivity.
  - (* resize_fit *) destruct (Z.leb_spec 0 n);
      [|cbn [fst snd lstep]; split; [left; reflexivity|]; split; [exact I|]; split; [exact V|cbn [fst snd]; try (destruct (Z.leb_spec 0 n); [lia|]); exact Habs]].
    pose proof (Hpost _ _ (vec_resize_refines None mok isz a v n Logic.I I V Hisz ltac:(lia))) as Hq.
    destruct (vec_resize None mok isz a v n) as [[e a'] v']. cbn [fst snd] in *. destruct Hq as (He & I' & V' & Ha).
    split; [exact He|]. split; [exact I'|]. split; [exact V'|]. cbn [fst snd]. rewrite Ha, Habs. destruct He as [-> | ->]; cbn [lstep];
      [rewrite Hlen; destruct (Z.leb_spec 0 n); [reflexivity|lia]|reflexivity].
  - (* resize_grow *) destruct (Z.leb_spec 0 n);
      [|cbn [fst snd lstep]; split; [left; reflexivity|]; split; [exact I|]; split; [exact V|cbn [fst snd]; try (destruct (Z.leb_spec 0 n); [lia|]); exact Habs]].
    pose proof (Hpost _ _ (vec_resize_refines (Some t) mok isz a v n Ht I V Hisz ltac:(lia))) as Hq.
    destruct (vec_resize (Some t) mok isz a v n) as [[e a'] v']. cbn [fst snd] in *. destruct Hq as (He & I' & V' & Ha).
    split; [exact He|]. split; [exact I'|]. split; [exact V'|]. cbn [fst snd]. rewrite Ha, Habs. destruct He as [-> | ->]; cbn [lstep];
      [rewrite Hlen; destruct (Z.leb_spec 0 n); [reflexivity|lia]|reflexivity].
  - (* release *) destruct (vec_release_sound isz a v I V) as (I' & V' & Ha & _).
    destruct (vec_release isz a v) as [a' v']. cbn [fst snd lstep] in *. split; [left; reflexivity|]. split; [exact I'|]. split; [exact V'|cbn [fst snd]; exact Ha].
  - (* other one-shot allocation *)
    destruct (Z.ltb_spec 0 size), (Z.leb_spec size SIZE_MAX), (Z.eqb_spec (size mod 8) 0); cbn [andb];
      try (cbn [fst snd lstep]; split; [left; reflexivity|]; split; [exact I|]; split; [exact V|exact Habs]).
    pose proof (alloc_oneshot_sound mok a size I ltac:(lia) ltac:(assumption)) as Hp. unfold alloc_post in Hp.
    cbn [fst snd lstep]. split; [left; reflexivity|]. destruct Hp as [I' Hp]. split; [exact I'|]. split; [|exact Habs].
    cbn [fst snd]. eapply vec_inv_other_alloc; [exact V| |].
    + intros q n Hq. destruct (fst (alloc_oneshot mok a size)); [destruct Hp as (_ & _ & _ & -> & _); right; exact Hq|destruct Hp as [-> _]; exact Hq].
    + rewrite alloc_oneshot_dyn. auto.
  - (* other reusable allocation *)
    destruct (Z.leb_spec 1 size), (Z.leb_spec size SIZE_MAX); cbn [andb];
      try (cbn [fst snd lstep]; split; [left; reflexivity|]; split; [exact I|]; split; [exact V|exact Habs]).
    pose proof (alloc_reusable_sound mok a size I ltac:(lia)) as Hp. unfold ralloc_post in Hp.
    cbn [fst snd lstep]. split; [left; reflexivity|]. destruct Hp as [I' Hp]. split; [exact I'|]. split; [|exact Habs].
    cbn [fst snd]. eapply vec_inv_other_alloc; [exact V| |].
    + intros q n Hq. destruct (fst (alloc_reusable mok a size)) as [[p asz]|]; [destruct Hp as (_ & _ & _ & _ & ->); right; exact Hq|rewrite Hp; exact Hq].
    + intros x Hx. apply alloc_reusable_dyn_mono. exact Hx.
Qed.

(* running a whole script: the vector holds exactly what the list holds, whatever the sequence *)
Fixpoint vrun (t : list Z) (mok : Z -> bool) (isz : Z) (st : arena * vec) (l : list Z) (ops : list vop) : (arena * vec) * list Z :=
  match ops with
  | [] => (st, l)
  | o :: r => let res := vstep t mok isz st o in vrun t mok isz (snd res) (lstep l o (fst res)) r
  end.

Theorem vrun_refines t mok isz ops : grow_table_ok t = true -> 0 < isz <= 2048 -> forall st l, vstate_ok isz st l ->
  vstate_ok isz (fst (vrun t mok isz st l ops)) (snd (vrun t mok isz st l ops)).
Proof.
  intros Ht Hisz. induction ops as [|o r IH]; intros st l H; cbn [vrun fst snd]; [exact H|].
  apply IH. apply (vstep_refines t mok isz st l o Ht Hisz H).
Qed.

(* ------------------------------------------------------------------ frame: what a step on one vector leaves alone *)
Lemma oneshot_keeps mok a size : inv a -> 0 < size <= SIZE_MAX -> size mod 8 = 0 -> keeps_others a (snd (alloc_oneshot mok a size)) None.
Proof.
  intros I Hs H8 q n Hq _.
  pose proof (alloc_oneshot_sound mok a size I Hs H8) as Hp. unfold alloc_post in Hp. destruct Hp as [_ Hp]. split.
  - destruct (fst (alloc_oneshot mok a size)); [destruct Hp as (_ & _ & _ & -> & _); right; exact Hq|destruct Hp as [-> _]; exact Hq].
  - rewrite alloc_oneshot_dyn. auto.
Qed.

(* every other live block of the arena stays live (and registered, if dynamic) across any step on the vector *)
Theorem vstep_frame t mok isz st l o : grow_table_ok t = true -> 0 < isz <= 2048 -> vstate_ok isz st l ->
  keeps_others (fst st) (fst (snd (vstep t mok isz st o))) (v_data (snd st)).
Proof.
  intros Ht Hisz (I & V & Habs). destruct st as [a v]. cbn [fst snd] in *.
  assert (Hop : forall abs' r, op_post isz a v abs' r -> keeps_others a (snd (fst r)) (v_data v)).
  { intros abs' [[e a'] v'] (_ & K & _). exact K. }
  assert (Hrp : forall n r, reserve_post isz a v n r -> keeps_others a (snd (fst r)) (v_data v)).
  { intros n [[e a'] v'] (_ & K & _). exact K. }
  destruct o; cbn [vstep].
  - pose proof (Hop _ _ (vec_append_refines t mok isz a v x Ht I V Hisz)) as K.
    destruct (vec_append t mok isz a v x) as [[e a'] v']. exact K.
  - destruct ((0 <=? idx) && (idx <=? v_size v)) eqn:Ec; [|apply keeps_others_refl].
    apply andb_prop in Ec. destruct Ec as [Ec1 Ec2]. apply Z.leb_le in Ec1. apply Z.leb_le in Ec2.
    pose proof (Hop _ _ (vec_insert_refines t mok isz a v idx x Ht I V Hisz ltac:(lia))) as K.
    destruct (vec_insert t mok isz a v idx x) as [[e a'] v']. exact K.
  - destruct ((0 <=? i) && (i <? v_size v)); [|apply keeps_others_refl].
    destruct (vec_remove_at v i) as [e v']. apply keeps_others_refl.
  - destruct (0 <? v_size v); apply keeps_others_refl.
  - apply keeps_others_refl.
  - destruct (0 <=? n); apply keeps_others_refl.
  - pose proof (Hrp _ _ (vec_reserve_gen_sound None mok isz a v n Logic.I I V Hisz)) as K.
    unfold vec_reserve_fit. destruct (vec_reserve_gen None mok isz a v n) as [[e a'] v']. exact K.
  - pose proof (Hrp _ _ (vec_reserve_gen_sound (Some t) mok isz a v n Ht I V Hisz)) as K.
    unfold vec_reserve_grow. destruct (vec_reserve_gen (Some t) mok isz a v n) as [[e a'] v']. exact K.
  - destruct (Z.leb_spec 0 n); [|apply keeps_others_refl].
    pose proof (Hrp _ _ (vec_reserve_additional_sound t mok isz a v n Ht I V Hisz ltac:(lia))) as K.
    destruct (vec_reserve_additional t mok isz a v n) as [[e a'] v']. exact K.
  - destruct (Z.leb_spec 0 n); [|apply keeps_others_refl].
    pose proof (Hop _ _ (vec_resize_refines None mok isz a v n Logic.I I V Hisz ltac:(lia))) as K.
    destruct (vec_resize None mok isz a v n) as [[e a'] v']. exact K.
  - destruct (Z.leb_spec 0 n); [|apply keeps_others_refl].
    pose proof (Hop _ _ (vec_resize_refines (Some t) mok isz a v n Ht I V Hisz ltac:(lia))) as K.
    destruct (vec_resize (Some t) mok isz a v n) as [[e a'] v']. exact K.
  - destruct (vec_release_sound isz a v I V) as (_ & _ & _ & K).
    destruct (vec_release isz a v) as [a' v']. exact K.
  - destruct (Z.ltb_spec 0 size), (Z.leb_spec size SIZE_MAX), (Z.eqb_spec (size mod 8) 0); cbn [andb]; try apply keeps_others_refl.
    cbn [fst snd]. apply keeps_weaken. apply oneshot_keeps; [exact I|lia|assumption].
  - destruct (Z.leb_spec 1 size), (Z.leb_spec size SIZE_MAX); cbn [andb]; try apply keeps_others_refl.
    cbn [fst snd]. apply keeps_weaken. apply alloc_keeps; [exact I|lia].
Qed.

(* several containers in one arena: a step on one vector keeps the buffer of any OTHER vector (one with a different
   buffer) a live block of the arena with the right release class — its invariant survives, its cells are not touched
   (they are a different live block: C18_arena_disjoint) *)
Theorem vstep_other_vector t mok isz st l o u : grow_table_ok t = true -> 0 < isz <= 2048 -> vstate_ok isz st l ->
  vec_inv isz (fst st) u -> (forall p, v_data u = Some p -> v_data (snd st) <> Some p) ->
  vec_inv isz (fst (snd (vstep t mok isz st o))) u.
Proof.
  intros Ht Hisz Hst (U1 & U2 & U3 & U4) Hdiff.
  pose proof (vstep_frame t mok isz st l o Ht Hisz Hst) as K.
  split; [exact U1|]. split; [exact U2|]. split; [exact U3|].
  destruct (v_data u) as [p|]; [|exact U4]. destruct U4 as [Hc Hown]. split; [exact Hc|].
  eapply owns_preserved; [exact K|exact Hown|]. intros He. apply (Hdiff p eq_refl). symmetry. exact He.
Qed.

(* C18 — several containers sharing ONE arena: a world of any number of vectors (all operations of VecProofs.vop, foreign
   arena allocations, soft and hard resets of the shared arena), interleaved in any order. Every vector holds exactly what
   its textbook list holds, every buffer is a distinct live block of the arena, the arena invariant holds. *)
From Coq Require Import ZArith List Bool Lia Permutation.
From Verif Require Import Base.ZBits Containers.ArenaModel Containers.ArenaProofs Containers.VecModel Containers.BufLemmas Containers.VecProofs.
Import ListNotations.
Local Open Scope Z_scope.

(* ------------------------------------------------------------------ where the buffer pointer of a vector can come from *)
Definition new_ptr_fresh (a : arena) (v v' : vec) : Prop :=
  v_data v' = v_data v \/ v_data v' = None \/
  (exists p, v_data v' = Some p /\ forall q n, In (q, n) (live a) -> q <> p).

Lemma alloc_fresh mok a bs p asz : inv a -> 1 <= bs <= SIZE_MAX -> fst (alloc_reusable mok a bs) = Some (p, asz) ->
  forall q n, In (q, n) (live a) -> q <> p.
Proof.
  intros I Hbs Hres q n Hq ->.
  pose proof (alloc_reusable_sound mok a bs I Hbs) as Hpost. rewrite Hres in Hpost.
  destruct Hpost as (_ & Hfit & _ & _ & Hdis & _).
  rewrite Forall_forall in Hdis. specialize (Hdis _ Hq). unfold disjoint in Hdis. cbn [fst snd] in Hdis.
  assert (0 < n) by (apply (regions_pos a (p, n) I); unfold regions; apply in_or_app; left; exact Hq). lia.
Qed.

Lemma realloc_fresh mok isz a v bs : inv a -> 1 <= bs <= SIZE_MAX ->
  new_ptr_fresh a v (snd (vec_realloc mok isz a v bs)).
Proof.
  intros I Hbs. unfold vec_realloc.
  destruct (alloc_reusable mok a bs) as [[[p asz]|] a1] eqn:E; [|left; reflexivity].
  destruct (buf_read _ _ _); [|left; reflexivity]. destruct (buf_write _ _ _); [|left; reflexivity].
  right. right. exists p. split; [reflexivity|]. apply (alloc_fresh mok a bs p asz I Hbs). rewrite E. reflexivity.
Qed.

Lemma reserve_gen_fresh grow mok isz a v n : table_ok grow -> inv a -> vec_inv isz a v -> 0 < isz <= 2048 ->
  new_ptr_fresh a v (snd (vec_reserve_gen grow mok isz a v n)).
Proof.
  intros Ht I V Hisz. unfold vec_reserve_gen.
  destruct (Z.geb_spec (v_cap v) n); [left; reflexivity|].
  unfold is_valid_size. destruct (Z.ltb_spec n 4294967295); cbn [negb]; [|left; reflexivity].
  destruct V as (V1 & V2 & V3 & V4).
  assert (Hbs : isz <= n * isz < 2 ^ 44) by (split; [nia|]; change (2 ^ 44) with (4294967296 * 4096); nia).
  apply realloc_fresh; [exact I|]. unfold SIZE_MAX.
  destruct grow as [t|].
  - pose proof (expand_byte_size_ok t (n * isz) Ht ltac:(change (2 ^ 63) with (2 ^ 44 * 524288); lia)) as [[H1 H2] _]. lia.
  - change (2 ^ 64) with (2 ^ 44 * 1048576). lia.
Qed.

Lemma fresh_with_buf a v v1 b size : new_ptr_fresh a v v1 -> new_ptr_fresh a v (with_buf v1 b size).
Proof. intros H. exact H. Qed.

Lemma fresh_refl a v : new_ptr_fresh a v v.
Proof. left. reflexivity. Qed.

Lemma grow_fresh t mok isz a v n : grow_table_ok t = true -> inv a -> vec_inv isz a v -> 0 < isz <= 2048 ->
  new_ptr_fresh a v (snd (vec_grow t mok isz a v n)).
Proof.
  intros. unfold vec_grow. destruct (v_size v + n >? SIZE_MAX); [apply fresh_refl|]. apply (reserve_gen_fresh (Some t)); assumption.
Qed.

Lemma reserve_one_fresh t mok isz a v : grow_table_ok t = true -> inv a -> vec_inv isz a v -> 0 < isz <= 2048 ->
  new_ptr_fresh a v (snd (vec_reserve_one t mok isz a v)).
Proof. intros. unfold vec_reserve_one. destruct (v_size v =? v_cap v); [apply grow_fresh; assumption|apply fresh_refl]. Qed.

Lemma reserve_additional_fresh t mok isz a v n : grow_table_ok t = true -> inv a -> vec_inv isz a v -> 0 < isz <= 2048 ->
  new_ptr_fresh a v (snd (vec_reserve_additional t mok isz a v n)).
Proof. intros. unfold vec_reserve_additional. destruct (v_cap v - v_size v <? n); [apply grow_fresh; assumption|apply fresh_refl]. Qed.

Lemma append_fresh t mok isz a v x : grow_table_ok t = true -> inv a -> vec_inv isz a v -> 0 < isz <= 2048 ->
  new_ptr_fresh a v (snd (vec_append t mok isz a v x)).
Proof.
  intros Ht I V Hisz. pose proof (reserve_one_fresh t mok isz a v Ht I V Hisz) as H. unfold vec_append.
  destruct (vec_reserve_one t mok isz a v) as [[e a1] v1]. cbn [snd] in *. destruct e; try exact H.
  destruct (buf_write _ _ _); exact H.
Qed.

Lemma insert_fresh t mok isz a v idx x : grow_table_ok t = true -> inv a -> vec_inv isz a v -> 0 < isz <= 2048 ->
  new_ptr_fresh a v (snd (vec_insert t mok isz a v idx x)).
Proof.
  intros Ht I V Hisz. pose proof (reserve_one_fresh t mok isz a v Ht I V Hisz) as H. unfold vec_insert.
  destruct (vec_reserve_one t mok isz a v) as [[e a1] v1]. cbn [snd] in *. destruct e; try exact H.
  destruct (buf_move _ _ _ _); [|exact H]. destruct (buf_write _ _ _); exact H.
Qed.

Lemma resize_fresh grow mok isz a v n : table_ok grow -> inv a -> vec_inv isz a v -> 0 < isz <= 2048 ->
  new_ptr_fresh a v (snd (vec_resize grow mok isz a v n)).
Proof.
  intros Ht I V Hisz. unfold vec_resize.
  assert (H : new_ptr_fresh a v (snd (if v_cap v <? n then vec_reserve_gen grow mok isz a v n else (EOk, a, v)))).
  { destruct (v_cap v <? n); [apply reserve_gen_fresh; assumption|apply fresh_refl]. }
  destruct (if v_cap v <? n then vec_reserve_gen grow mok isz a v n else (EOk, a, v)) as [[e a1] v1]. cbn [snd] in *.
  destruct e; try exact H. destruct (v_size v1 <? n); [|exact H]. destruct (buf_write _ _ _); exact H.
Qed.

Theorem vstep_fresh t mok isz st l o : grow_table_ok t = true -> 0 < isz <= 2048 -> vstate_ok isz st l ->
  new_ptr_fresh (fst st) (snd st) (snd (snd (vstep t mok isz st o))).
Proof.
  intros Ht Hisz (I & V & _). destruct st as [a v]. cbn [fst snd] in *.
  destruct o; cbn [vstep].
  - pose proof (append_fresh t mok isz a v x Ht I V Hisz) as H. destruct (vec_append t mok isz a v x) as [[e a'] v']. exact H.
  - destruct ((0 <=? idx) && (idx <=? v_size v)); [|(left; reflexivity)].
    pose proof (insert_fresh t mok isz a v idx x Ht I V Hisz) as H. destruct (vec_insert t mok isz a v idx x) as [[e a'] v']. exact H.
  - destruct ((0 <=? i) && (i <? v_size v)); [|(left; reflexivity)].
    unfold vec_remove_at. destruct (v_size v - 1 - i =? 0); [(left; reflexivity)|]. destruct (buf_move _ _ _ _); (left; reflexivity).
  - destruct (0 <? v_size v); [|(left; reflexivity)]. unfold vec_pop. destruct (buf_read _ _ _) as [[|x [|y r]]|]; (left; reflexivity).
  - (left; reflexivity).
  - destruct (0 <=? n); (left; reflexivity).
  - pose proof (reserve_gen_fresh None mok isz a v n Logic.I I V Hisz) as H. unfold vec_reserve_fit.
    destruct (vec_reserve_gen None mok isz a v n) as [[e a'] v']. exact H.
  - pose proof (reserve_gen_fresh (Some t) mok isz a v n Ht I V Hisz) as H. unfold vec_reserve_grow.
    destruct (vec_reserve_gen (Some t) mok isz a v n) as [[e a'] v']. exact H.
  - destruct (0 <=? n); [|(left; reflexivity)].
    pose proof (reserve_additional_fresh t mok isz a v n Ht I V Hisz) as H. destruct (vec_reserve_additional t mok isz a v n) as [[e a'] v']. exact H.
  - destruct (0 <=? n); [|(left; reflexivity)].
    pose proof (resize_fresh None mok isz a v n Logic.I I V Hisz) as H. destruct (vec_resize None mok isz a v n) as [[e a'] v']. exact H.
  - destruct (0 <=? n); [|(left; reflexivity)].
    pose proof (resize_fresh (Some t) mok isz a v n Ht I V Hisz) as H. destruct (vec_resize (Some t) mok isz a v n) as [[e a'] v']. exact H.
  - unfold vec_release. destruct (v_data v); [right; left; reflexivity|(left; reflexivity)].
  - destruct (_ && _); (left; reflexivity).
  - destruct (_ && _); (left; reflexivity).
Qed.

(* ------------------------------------------------------------------ the world *)
Fixpoint replace_nth {A} (l : list A) (k : nat) (x : A) : list A :=
  match l, k with
  | [], _ => []
  | _ :: r, O => x :: r
  | y :: r, S j => y :: replace_nth r j x
  end.

Lemma replace_nth_length {A} (l : list A) k x : length (replace_nth l k x) = length l.
Proof. revert k. induction l; intros [|k]; simpl; auto. Qed.

Lemma nth_error_replace_same {A} (l : list A) k x : (k < length l)%nat -> nth_error (replace_nth l k x) k = Some x.
Proof. revert k. induction l; intros [|k] H; simpl in *; try lia; auto. apply IHl. lia. Qed.

Lemma nth_error_replace_other {A} (l : list A) k j x : j <> k -> nth_error (replace_nth l k x) j = nth_error l j.
Proof. revert k j. induction l; intros [|k] [|j] H; simpl; try congruence; auto. Qed.

Record world := mkw { w_arena : arena; w_vecs : list vec }.

Inductive wop := WVec (k : nat) (o : vop) | WReset (hard : bool) | WForeignFree (p : addr) (size : Z).

(* an operation on the k-th vector (incl. VOtherOneshot / VOtherReusable: allocations by other users of the arena), or a reset
   of the shared arena, after which every container has to be reset too (their memory is gone) *)
Definition wstep (t : list Z) (mok : Z -> bool) (isz : Z) (w : world) (op : wop) : verr * world :=
  match op with
  | WVec k o =>
    match nth_error (w_vecs w) k with
    | Some v => let r := vstep t mok isz (w_arena w, v) o in (fst r, mkw (fst (snd r)) (replace_nth (w_vecs w) k (snd (snd r))))
    | None => (EOk, w)
    end
  | WReset hard => (EOk, mkw (arena_reset (w_arena w) hard) (map (fun _ => vec_empty) (w_vecs w)))
  | WForeignFree p size => (EOk, mkw (free_reusable (w_arena w) p size) (w_vecs w))
  end.

(* what the caller owes for an operation: another user of the arena (a hash table, a bit set, a pool ...) may release a block
   that is live, is released with a size of its class, and is not the buffer of one of the vectors *)
Definition wop_ok (w : world) (op : wop) : Prop :=
  match op with
  | WForeignFree p size => aop_ok (w_arena w) (AFree p size) /\ (forall v, In v (w_vecs w) -> v_data v <> Some p)
  | _ => True
  end.

(* the textbook side: one list per vector *)
Definition lsstep (ls : list (list Z)) (op : wop) (e : verr) : list (list Z) :=
  match op with
  | WVec k o => match nth_error ls k with Some l => replace_nth ls k (lstep l o e) | None => ls end
  | WReset _ => map (fun _ => []) ls
  | WForeignFree _ _ => ls
  end.

Definition world_ok (isz : Z) (w : world) (ls : list (list Z)) : Prop :=
  inv (w_arena w) /\ length (w_vecs w) = length ls /\
  (forall k v l, nth_error (w_vecs w) k = Some v -> nth_error ls k = Some l -> vec_inv isz (w_arena w) v /\ vec_abs v = l) /\
  (* the buffers of different vectors are different blocks *)
  (forall i j u v p, i <> j -> nth_error (w_vecs w) i = Some u -> nth_error (w_vecs w) j = Some v ->
                     v_data u = Some p -> v_data v <> Some p).

Lemma vec_inv_reset isz a hard : vec_inv isz (arena_reset a hard) vec_empty.
Proof. apply vec_inv_empty. Qed.

Theorem wstep_refines t mok isz w ls op : grow_table_ok t = true -> 0 < isz <= 2048 -> world_ok isz w ls -> wop_ok w op ->
  let r := wstep t mok isz w op in
  (fst r = EOk \/ fst r = EOutOfMemory) /\ world_ok isz (snd r) (lsstep ls op (fst r)).
Proof.
  intros Ht Hisz (I & Hlen & Hvec & Hdist) Hop. destruct w as [a vs]. cbn [w_arena w_vecs] in *.
  destruct op as [k o|hard|fp fsize]; cbn [wstep lsstep w_arena w_vecs].
  - destruct (nth_error vs k) as [v|] eqn:Ev.
    2:{ cbn [fst snd]. split; [left; reflexivity|].
        assert (nth_error ls k = None) by (apply nth_error_None; rewrite <- Hlen; apply nth_error_None; exact Ev).
        rewrite H. unfold world_ok. cbn [w_arena w_vecs]. split; [exact I|]. split; [exact Hlen|]. split; [exact Hvec|exact Hdist]. }
    assert (Hk : (k < length vs)%nat) by (apply nth_error_Some; congruence).
    destruct (nth_error ls k) as [l|] eqn:El; [|exfalso; apply nth_error_None in El; lia].
    destruct (Hvec k v l Ev El) as [V Habs].
    assert (Hst : vstate_ok isz (a, v) l) by (split; [exact I|split; [exact V|exact Habs]]).
    pose proof (vstep_refines t mok isz (a, v) l o Ht Hisz Hst) as Hr. cbv zeta in Hr.
    pose proof (vstep_fresh t mok isz (a, v) l o Ht Hisz Hst) as Hf.
    set (r := vstep t mok isz (a, v) o) in *. destruct Hr as [He (I' & V' & Habs')].
    cbn [fst snd] in *. split; [exact He|].
    unfold world_ok. cbn [w_arena w_vecs]. split; [exact I'|]. split; [rewrite !replace_nth_length; exact Hlen|]. split.
    + intros j u lu Hu Hlu. destruct (Nat.eq_dec j k) as [->|Hjk].
      * rewrite nth_error_replace_same in Hu by exact Hk. rewrite nth_error_replace_same in Hlu by lia.
        inversion Hu; inversion Hlu; subst. split; assumption.
      * rewrite nth_error_replace_other in Hu by exact Hjk. rewrite nth_error_replace_other in Hlu by exact Hjk.
        destruct (Hvec j u lu Hu Hlu) as [U Uabs]. split; [|exact Uabs].
        apply (vstep_other_vector t mok isz (a, v) l o u Ht Hisz Hst U).
        intros p Hp. cbn [snd]. apply (Hdist j k u v p Hjk Hu Ev Hp).
    + intros i j u u' p Hij Hu Hu' Hp.
      assert (Hlive : forall x (q : addr) m, nth_error vs m = Some x -> v_data x = Some q -> exists n, In (q, n) (live a)).
      { intros x q m Hx Hq. assert (Hm : (m < length ls)%nat) by (rewrite <- Hlen; apply nth_error_Some; congruence).
        destruct (nth_error ls m) as [lx|] eqn:Elx; [|apply nth_error_None in Elx; lia].
        destruct (Hvec m x lx Hx Elx) as [(_ & _ & _ & X4) _]. rewrite Hq in X4. destruct X4 as [_ (asz & Hin & _)]. exists asz. exact Hin. }
      destruct (Nat.eq_dec i k) as [->|Hik]; destruct (Nat.eq_dec j k) as [->|Hjk]; try congruence.
      * (* u is the stepped vector, u' another one *)
        rewrite nth_error_replace_same in Hu by exact Hk. inversion Hu; subst u.
        rewrite nth_error_replace_other in Hu' by exact Hjk.
        intros Hq. destruct (Hlive u' p j Hu' Hq) as [n Hin].
        destruct Hf as [Hsame|[Hnone|(p0 & Hp0 & Hfresh)]]; cbn [fst snd] in *.
        -- rewrite Hsame in Hp. apply (Hdist k j v u' p ltac:(congruence) Ev Hu' Hp Hq).
        -- congruence.
        -- rewrite Hp0 in Hp. inversion Hp; subst p0. apply (Hfresh p n Hin). reflexivity.
      * rewrite nth_error_replace_other in Hu by exact Hik.
        rewrite nth_error_replace_same in Hu' by exact Hk. inversion Hu'; subst u'.
        intros Hq. destruct (Hlive u p i Hu Hp) as [n Hin].
        destruct Hf as [Hsame|[Hnone|(p0 & Hp0 & Hfresh)]]; cbn [fst snd] in *.
        -- rewrite Hsame in Hq. apply (Hdist i k u v p Hik Hu Ev Hp Hq).
        -- congruence.
        -- rewrite Hp0 in Hq. inversion Hq; subst p0. apply (Hfresh p n Hin). reflexivity.
      * rewrite nth_error_replace_other in Hu by exact Hik. rewrite nth_error_replace_other in Hu' by exact Hjk.
        apply (Hdist i j u u' p Hij Hu Hu' Hp).
  - cbn [fst snd]. split; [left; reflexivity|].
    destruct (reset_sound a hard I) as (I' & _).
    unfold world_ok. cbn [w_arena w_vecs]. split; [exact I'|]. split; [rewrite !map_length; exact Hlen|]. split.
    + intros k v l Hv Hl. rewrite nth_error_map in Hv, Hl.
      destruct (nth_error vs k); [|discriminate]. destruct (nth_error ls k); [|discriminate]. cbn in Hv, Hl.
      inversion Hv; inversion Hl; subst. split; [apply vec_inv_empty|reflexivity].
    + intros i j u v p _ Hu _ Hp. rewrite nth_error_map in Hu. destruct (nth_error vs i); [|discriminate]. cbn in Hu.
      inversion Hu; subst. discriminate.
  - cbn [fst snd wop_ok w_arena w_vecs] in *. destruct Hop as [(n & Hin & Hc1 & Hc2) Hnot].
    split; [left; reflexivity|].
    destruct (free_reusable_sound a fp fsize n I Hin Hc1 Hc2) as [I' _].
    pose proof (free_keeps a fp fsize n I Hin Hc1 Hc2) as K.
    unfold world_ok. cbn [w_arena w_vecs]. split; [exact I'|]. split; [exact Hlen|]. split; [|exact Hdist].
    intros k v l Hv Hl. destruct (Hvec k v l Hv Hl) as [(V1 & V2 & V3 & V4) Habs]. split; [|exact Habs].
    split; [exact V1|]. split; [exact V2|]. split; [exact V3|].
    destruct (v_data v) as [q|] eqn:Eq; [|exact V4]. destruct V4 as [Hc Hown]. split; [exact Hc|].
    eapply owns_preserved; [exact K|exact Hown|]. intros He. inversion He; subst q.
    apply (Hnot v (nth_error_In _ _ Hv)). exact Eq.
Qed.

(* every interleaving: a script is valid when every foreign release is valid in the state it is executed in *)
Fixpoint wrun (t : list Z) (mok : Z -> bool) (isz : Z) (w : world) (ls : list (list Z)) (ops : list wop) : world * list (list Z) :=
  match ops with
  | [] => (w, ls)
  | op :: r => let res := wstep t mok isz w op in wrun t mok isz (snd res) (lsstep ls op (fst res)) r
  end.

Fixpoint wvalid (t : list Z) (mok : Z -> bool) (isz : Z) (w : world) (ops : list wop) : Prop :=
  match ops with
  | [] => True
  | op :: r => wop_ok w op /\ wvalid t mok isz (snd (wstep t mok isz w op)) r
  end.

Theorem wrun_refines t mok isz ops : grow_table_ok t = true -> 0 < isz <= 2048 -> forall w ls, world_ok isz w ls ->
  wvalid t mok isz w ops ->
  world_ok isz (fst (wrun t mok isz w ls ops)) (snd (wrun t mok isz w ls ops)).
Proof.
  intros Ht Hisz. induction ops as [|op r IH]; intros w ls H Hv; cbn [wrun fst snd]; [exact H|].
  destruct Hv as [Hop Hv]. apply IH; [|exact Hv]. apply (wstep_refines t mok isz w ls op Ht Hisz H Hop).
Qed.

Lemma world_ok_initial isz mbs st n : 1024 <= mbs <= 2 ^ 62 -> (st = 0 \/ 16 <= st < 2 ^ 64) ->
  world_ok isz (mkw (arena_init mbs st) (repeat vec_empty n)) (repeat [] n).
Proof.
  intros Hm Hs. unfold world_ok. cbn [w_arena w_vecs]. split; [apply inv_init; assumption|]. split; [rewrite !repeat_length; reflexivity|]. split.
  - intros k v l Hv Hl. apply nth_error_In in Hv. apply repeat_spec in Hv. apply nth_error_In in Hl. apply repeat_spec in Hl. subst.
    split; [apply vec_inv_empty|reflexivity].
  - intros i j u v p _ Hu _ Hp. apply nth_error_In in Hu. apply repeat_spec in Hu. subst. discriminate.
Qed.

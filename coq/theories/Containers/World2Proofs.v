(* C18 — the all-container world: any number of ArenaVectors AND ArenaHash tables share one arena; operations of all of
   them, releases by further users of the arena and soft/hard resets are interleaved in any order. *)
From Coq Require Import ZArith List Bool Lia Permutation.
From Verif Require Import Base.ZBits Containers.ArenaModel Containers.ArenaProofs Containers.VecModel Containers.BufLemmas Containers.VecProofs
  Containers.WorldProofs Containers.HashModel Containers.HashProofs.
Import ListNotations.
Local Open Scope Z_scope.

Record world2 := mkw2 { w2_arena : arena; w2_vecs : list vec; w2_hashes : list hash }.

Inductive w2op :=
| W2Vec (k : nat) (o : vop)
| W2HashInsert (k : nat) (n : hnode)       (* the node itself is allocated by the user: a VOtherOneshot step *)
| W2HashRemove (k : nat) (n : hnode)
| W2Reset (hard : bool)
| W2ForeignFree (p : addr) (size : Z).

Definition w2step (t : list Z) (primes : list prow) (mok : Z -> bool) (isz : Z) (w : world2) (op : w2op) : verr * world2 :=
  match op with
  | W2Vec k o =>
    match nth_error (w2_vecs w) k with
    | Some v => let r := vstep t mok isz (w2_arena w, v) o in
                (fst r, mkw2 (fst (snd r)) (replace_nth (w2_vecs w) k (snd (snd r))) (w2_hashes w))
    | None => (EOk, w)
    end
  | W2HashInsert k n =>
    match nth_error (w2_hashes w) k with
    | Some h => let r := hash_insert primes mok (w2_arena w) h n in
                (EOk, mkw2 (fst r) (w2_vecs w) (replace_nth (w2_hashes w) k (snd r)))
    | None => (EOk, w)
    end
  | W2HashRemove k n =>
    match nth_error (w2_hashes w) k with
    | Some h => (EOk, mkw2 (w2_arena w) (w2_vecs w) (replace_nth (w2_hashes w) k (snd (hash_remove h n))))
    | None => (EOk, w)
    end
  | W2Reset hard => (EOk, mkw2 (arena_reset (w2_arena w) hard) (map (fun _ => vec_empty) (w2_vecs w)) (map (fun _ => hash_empty) (w2_hashes w)))
  | W2ForeignFree p size => (EOk, mkw2 (free_reusable (w2_arena w) p size) (w2_vecs w) (w2_hashes w))
  end.

(* all block pointers owned by containers *)
Definition vec_ptrs (vs : list vec) : list addr := flat_map (fun v => match v_data v with Some p => [p] | None => [] end) vs.
Definition hash_ptrs (hs : list hash) : list addr := flat_map (fun h => match h_data h with Some p => [p] | None => [] end) hs.

Definition w2op_ok (w : world2) (op : w2op) : Prop :=
  match op with
  | W2HashInsert k n => 0 <= hn_hash n < 2 ^ 32 /\ (forall h, nth_error (w2_hashes w) k = Some h -> ~ In (hn_id n) (map hn_id (hash_abs h)))
  | W2HashRemove k n => 0 <= hn_hash n < 2 ^ 32 /\
      (forall h, nth_error (w2_hashes w) k = Some h -> In n (hash_abs h) \/ ~ In (hn_id n) (map hn_id (hash_abs h)))
  | W2ForeignFree p size => aop_ok (w2_arena w) (AFree p size) /\ ~ In p (vec_ptrs (w2_vecs w)) /\ ~ In p (hash_ptrs (w2_hashes w))
  | _ => True
  end.

(* invariant: arena invariant; every vector and every hash table satisfies its own invariant w.r.t. the shared arena;
   all owned block pointers are pairwise different *)
Definition world2_ok (isz : Z) (w : world2) : Prop :=
  inv (w2_arena w) /\
  Forall (vec_inv isz (w2_arena w)) (w2_vecs w) /\
  Forall (fun h => hash_inv h /\ hash_arena_inv (w2_arena w) h) (w2_hashes w) /\
  NoDup (vec_ptrs (w2_vecs w) ++ hash_ptrs (w2_hashes w)).

(* ------------------------------------------------------------------ pointer lists under replacement *)
Section Ptrs.
  Context {A : Type} (dat : A -> option addr).
  Definition optl (o : option addr) : list addr := match o with Some p => [p] | None => [] end.
  Definition ptrs (l : list A) : list addr := flat_map (fun x => optl (dat x)) l.

  Lemma ptrs_app l1 l2 : ptrs (l1 ++ l2) = ptrs l1 ++ ptrs l2.
  Proof. unfold ptrs. apply flat_map_app. Qed.

  Lemma replace_nth_split (l : list A) k x : nth_error l k = Some x ->
    exists l1 l2, l = l1 ++ x :: l2 /\ length l1 = k /\ forall y, replace_nth l k y = l1 ++ y :: l2.
  Proof.
    revert k. induction l as [|a l IH]; intros [|k] H; cbn in H; try discriminate.
    - inversion H; subst. exists [], l. repeat split.
    - destruct (IH k H) as (l1 & l2 & -> & Hl & Hr). exists (a :: l1), l2. split; [reflexivity|]. split; [cbn; lia|].
      intros y. cbn. rewrite Hr. reflexivity.
  Qed.

  Lemma ptrs_in l x p : In x l -> dat x = Some p -> In p (ptrs l).
  Proof. intros Hx Hd. unfold ptrs. apply in_flat_map. exists x. split; [exact Hx|]. rewrite Hd. left. reflexivity. Qed.
End Ptrs.

Lemma nodup_replace_mid (Aa X X' B : list addr) : NoDup (Aa ++ X ++ B) ->
  (X' = X \/ X' = [] \/ exists p, X' = [p] /\ ~ In p (Aa ++ B)) -> NoDup (Aa ++ X' ++ B).
Proof.
  intros Hnd [->|[->|(p & -> & Hp)]]; [exact Hnd| |].
  - cbn. apply (nodup_remove_mid Aa X B Hnd).
  - cbn. apply NoDup_Add with (a := p) (l := Aa ++ B); [apply Add_app|]. split; [apply (nodup_remove_mid Aa X B Hnd)|exact Hp].
Qed.

(* every owned pointer is a live block *)
Lemma vec_ptr_live isz a v p : vec_inv isz a v -> v_data v = Some p -> exists n, In (p, n) (live a).
Proof. intros (_ & _ & _ & V4) Hd. rewrite Hd in V4. destruct V4 as [_ (asz & Hin & _)]. exists asz. exact Hin. Qed.

Lemma hash_ptr_live a h p : hash_arena_inv a h -> h_data h = Some p -> exists n, In (p, n) (live a).
Proof. unfold hash_arena_inv. intros H Hd. rewrite Hd in H. destruct H as (asz & Hin & _). exists asz. exact Hin. Qed.

Lemma all_ptrs_live isz w p : world2_ok isz w -> In p (vec_ptrs (w2_vecs w) ++ hash_ptrs (w2_hashes w)) -> exists n, In (p, n) (live (w2_arena w)).
Proof.
  intros (_ & Hv & Hh & _) Hin. apply in_app_or in Hin. destruct Hin as [Hin|Hin].
  - unfold vec_ptrs in Hin. apply in_flat_map in Hin. destruct Hin as (v & Hv1 & Hv2). rewrite Forall_forall in Hv.
    destruct (v_data v) as [q|] eqn:E; [|contradiction]. destruct Hv2 as [<-|[]]. eapply vec_ptr_live; [apply Hv; exact Hv1|exact E].
  - unfold hash_ptrs in Hin. apply in_flat_map in Hin. destruct Hin as (h & Hh1 & Hh2). rewrite Forall_forall in Hh.
    destruct (h_data h) as [q|] eqn:E; [|contradiction]. destruct Hh2 as [<-|[]]. eapply hash_ptr_live; [apply Hh; exact Hh1|exact E].
Qed.

(* ------------------------------------------------------------------ the bucket array pointer of a hash table after _insert *)
Definition hash_ptr_fresh (a : arena) (h h' : hash) : Prop :=
  h_data h' = h_data h \/ (exists p, h_data h' = Some p /\ forall q n, In (q, n) (live a) -> q <> p).

Lemma hash_insert_frame primes mok a h n : forallb row_ok primes = true -> inv a -> hash_inv h -> hash_arena_inv a h ->
  0 <= hn_hash n < 2 ^ 32 -> ~ In (hn_id n) (map hn_id (hash_abs h)) ->
  keeps_others a (fst (hash_insert primes mok a h n)) (h_data h) /\ hash_ptr_fresh a h (snd (hash_insert primes mok a h n)).
Proof.
  intros Hp I Hh Ha Hn Hfresh. destruct (hash_link_refines h n Hh Hn Hfresh) as [Hh1 _].
  unfold hash_insert. fold (hash_link h n). set (h1 := hash_link h n) in *.
  assert (Hd1 : h_data h1 = h_data h) by reflexivity.
  destruct (h_size h1 >? h_grow h1); [|cbn [fst snd]; split; [apply keeps_others_refl|left; exact Hd1]].
  destruct (Z.min (h_pidx h1 + 2) (Z.of_nat (length primes) - 1) >? h_pidx h1); [|cbn [fst snd]; split; [apply keeps_others_refl|left; exact Hd1]].
  set (pidx := Z.min (h_pidx h1 + 2) (Z.of_nat (length primes) - 1)).
  destruct (hash_rehash_arena primes mok a h1 pidx Hp I Hh1 Ha) as (_ & _ & K). rewrite Hd1 in K. split; [exact K|].
  unfold hash_rehash.
  set (row := nth (Z.to_nat pidx) primes (mkrow 1 1 0 1)).
  pose proof (nth_row_ok primes (Z.to_nat pidx) Hp) as Hrow. fold row in Hrow.
  assert (Hprime : 0 < p_prime row < 2 ^ 32).
  { unfold row_ok in Hrow. repeat (apply andb_prop in Hrow; destruct Hrow as [Hrow ?]).
    apply Z.ltb_lt in Hrow. apply Z.ltb_lt in H2. lia. }
  assert (Hbs : 1 <= p_prime row * 8 <= SIZE_MAX) by (unfold SIZE_MAX; change (2 ^ 64) with (2 ^ 32 * 4294967296); lia).
  destruct (alloc_reusable mok a (p_prime row * 8)) as [[[p asz]|] a1] eqn:E; cbn [snd]; [|left; exact Hd1].
  right. exists p. split; [reflexivity|]. apply (alloc_fresh mok a (p_prime row * 8) p asz I Hbs). rewrite E. reflexivity.
Qed.

Lemma nodup_mid_distinct (Aa X B : list addr) p q : NoDup (Aa ++ X ++ B) -> In p X -> In q (Aa ++ B) -> p <> q.
Proof.
  intros Hnd Hp Hq ->. apply in_app_or in Hq. destruct Hq as [Hq|Hq].
  - apply (nodup_app_disj _ _ q Hnd Hq). apply in_or_app. left. exact Hp.
  - apply nodup_app_r in Hnd. apply (nodup_app_disj _ _ q Hnd Hp Hq).
Qed.

Lemma vec_ptrs_eq vs : vec_ptrs vs = ptrs v_data vs. Proof. reflexivity. Qed.
Lemma hash_ptrs_eq hs : hash_ptrs hs = ptrs h_data hs. Proof. reflexivity. Qed.

Lemma vec_ptrs_reset (vs : list vec) : vec_ptrs (map (fun _ => vec_empty) vs) = [].
Proof. induction vs; cbn; auto. Qed.
Lemma hash_ptrs_reset (hs : list hash) : hash_ptrs (map (fun _ => hash_empty) hs) = [].
Proof. induction hs; cbn; auto. Qed.

Theorem w2step_ok t primes mok isz w op : grow_table_ok t = true -> forallb row_ok primes = true -> 0 < isz <= 2048 ->
  world2_ok isz w -> w2op_ok w op ->
  let r := w2step t primes mok isz w op in
  (fst r = EOk \/ fst r = EOutOfMemory) /\ world2_ok isz (snd r).
Proof.
  intros Ht Hp Hisz Hw Hop. pose proof Hw as (I & Hv & Hh & Hnd). destruct w as [a vs hs]. cbn [w2_arena w2_vecs w2_hashes] in *.
  rewrite vec_ptrs_eq, hash_ptrs_eq in Hnd.
  destruct op as [k o|k n|k n|hard|fp fsize]; cbn [w2step w2_arena w2_vecs w2_hashes].
  - (* a vector operation *)
    destruct (nth_error vs k) as [v|] eqn:Ev; [|cbn [fst snd]; split; [left; reflexivity|exact Hw]].
    destruct (replace_nth_split vs k v Ev) as (l1 & l2 & Hvs & _ & Hrep).
    assert (V : vec_inv isz a v) by (rewrite Forall_forall in Hv; apply Hv; eapply nth_error_In; exact Ev).
    assert (Hst : vstate_ok isz (a, v) (vec_abs v)) by (split; [exact I|split; [exact V|reflexivity]]).
    pose proof (vstep_refines t mok isz (a, v) (vec_abs v) o Ht Hisz Hst) as Hr. cbv zeta in Hr.
    pose proof (vstep_fresh t mok isz (a, v) (vec_abs v) o Ht Hisz Hst) as Hf.
    pose proof (vstep_frame t mok isz (a, v) (vec_abs v) o Ht Hisz Hst) as K.
    set (r := vstep t mok isz (a, v) o) in *. destruct Hr as [He (I' & V' & _)]. cbn [fst snd] in *.
    split; [exact He|].
    rewrite Hvs in Hnd, Hv. rewrite ptrs_app in Hnd. cbn [ptrs flat_map] in Hnd. fold (ptrs v_data l2) in Hnd. rewrite <- !app_assoc in Hnd.
    apply Forall_app in Hv. destruct Hv as [Hv1 Hv2]. apply Forall_cons_iff in Hv2. destruct Hv2 as [_ Hv2'].
    assert (Hdist : forall q, In q (ptrs v_data l1 ++ ptrs v_data l2 ++ ptrs h_data hs) -> Some q <> v_data v).
    { intros q Hq He'. symmetry in He'.
      apply (nodup_mid_distinct (ptrs v_data l1) (optl (v_data v)) (ptrs v_data l2 ++ ptrs h_data hs) q q Hnd); [rewrite He'; left; reflexivity|exact Hq|reflexivity]. }
    unfold world2_ok. cbn [w2_arena w2_vecs w2_hashes]. rewrite Hrep. split; [exact I'|]. split; [|split].
    + apply Forall_app. split; [|constructor; [exact V'|]].
      * rewrite Forall_forall in *. intros u Hu. apply (vstep_other_vector t mok isz (a, v) (vec_abs v) o u Ht Hisz Hst (Hv1 u Hu)).
        intros p Hpu He'. cbn [snd] in He'. apply (Hdist p); [|congruence]. apply in_or_app. left. eapply ptrs_in; eauto.
      * rewrite Forall_forall in *. intros u Hu. apply (vstep_other_vector t mok isz (a, v) (vec_abs v) o u Ht Hisz Hst (Hv2' u Hu)).
        intros p Hpu He'. cbn [snd] in He'. apply (Hdist p); [|congruence]. apply in_or_app. right. apply in_or_app. left. eapply ptrs_in; eauto.
    + rewrite Forall_forall in *. intros h Hh'. destruct (Hh h Hh') as [Hi Ha]. split; [exact Hi|].
      unfold hash_arena_inv in *. destruct (h_data h) as [q|] eqn:Eq; [|exact Logic.I].
      eapply owns_preserved; [exact K|exact Ha|]. cbn [snd]. apply Hdist. apply in_or_app. right. apply in_or_app. right. eapply ptrs_in; eauto.
    + rewrite vec_ptrs_eq, hash_ptrs_eq, ptrs_app. cbn [ptrs flat_map]. fold (ptrs v_data l2). rewrite <- !app_assoc.
      apply (nodup_replace_mid _ (optl (v_data v)) _ _ Hnd).
      destruct Hf as [Hs|[Hn0|(p & Hp0 & Hfr)]]; cbn [fst snd] in *.
      * left. rewrite Hs. reflexivity.
      * right. left. rewrite Hn0. reflexivity.
      * right. right. exists p. split; [rewrite Hp0; reflexivity|]. intros Hin.
        assert (Hin' : In p (vec_ptrs vs ++ hash_ptrs hs)).
        { rewrite vec_ptrs_eq, hash_ptrs_eq, Hvs, ptrs_app. cbn [ptrs flat_map]. fold (ptrs v_data l2). rewrite <- !app_assoc.
          apply in_app_or in Hin. apply in_or_app. destruct Hin as [Hin|Hin]; [left; exact Hin|right; apply in_or_app; right; exact Hin]. }
        destruct (all_ptrs_live isz (mkw2 a vs hs) p Hw Hin') as [m Hm]. exact (Hfr p m Hm eq_refl).
  - (* hash insert *)
    destruct (nth_error hs k) as [h|] eqn:Eh; [|cbn [fst snd]; split; [left; reflexivity|exact Hw]].
    cbn [w2op_ok w2_hashes] in Hop. destruct Hop as [Hn Hfresh]. specialize (Hfresh h Eh).
    destruct (replace_nth_split hs k h Eh) as (l1 & l2 & Hhs & _ & Hrep).
    assert (Hh0 : hash_inv h /\ hash_arena_inv a h) by (rewrite Forall_forall in Hh; apply Hh; eapply nth_error_In; exact Eh).
    destruct Hh0 as [Hi Ha].
    destruct (hash_insert_refines primes mok a h n Hp Hi Hn Hfresh) as [Hi' _].
    destruct (hash_insert_arena primes mok a h n Hp I Hi Ha Hn Hfresh) as [I' Ha'].
    destruct (hash_insert_frame primes mok a h n Hp I Hi Ha Hn Hfresh) as [K Hf].
    set (r := hash_insert primes mok a h n) in *. cbn [fst snd].
    split; [left; reflexivity|].
    rewrite Hhs in Hnd, Hh. rewrite ptrs_app in Hnd. cbn [ptrs flat_map] in Hnd. fold (ptrs h_data l2) in Hnd.
    apply Forall_app in Hh. destruct Hh as [Hh1 Hh2]. apply Forall_cons_iff in Hh2. destruct Hh2 as [_ Hh2'].
    (* NoDup (PV ++ P1 ++ X ++ P2): view as (PV ++ P1) ++ X ++ P2 *)
    assert (Hnd' : NoDup ((ptrs v_data vs ++ ptrs h_data l1) ++ optl (h_data h) ++ ptrs h_data l2)) by (rewrite <- !app_assoc; exact Hnd).
    assert (Hdist : forall q, In q ((ptrs v_data vs ++ ptrs h_data l1) ++ ptrs h_data l2) -> Some q <> h_data h).
    { intros q Hq He'. symmetry in He'.
      apply (nodup_mid_distinct _ (optl (h_data h)) _ q q Hnd'); [rewrite He'; left; reflexivity|exact Hq|reflexivity]. }
    unfold world2_ok. cbn [w2_arena w2_vecs w2_hashes]. rewrite Hrep. split; [exact I'|]. split; [|split].
    + rewrite Forall_forall in *. intros u Hu. specialize (Hv u Hu). destruct Hv as (U1 & U2 & U3 & U4).
      split; [exact U1|]. split; [exact U2|]. split; [exact U3|]. destruct (v_data u) as [q|] eqn:Eq; [|exact U4].
      destruct U4 as [Hc Hown]. split; [exact Hc|]. eapply owns_preserved; [exact K|exact Hown|].
      apply Hdist. apply in_or_app. left. apply in_or_app. left. eapply ptrs_in; eauto.
    + assert (Hoth : forall x, In x l1 \/ In x l2 -> (hash_inv x /\ hash_arena_inv a x) -> hash_inv x /\ hash_arena_inv (fst r) x).
      { intros x Hx [Hxi Hxa]. split; [exact Hxi|]. unfold hash_arena_inv in *. destruct (h_data x) as [q|] eqn:Eq; [|exact Logic.I].
        eapply owns_preserved; [exact K|exact Hxa|]. apply Hdist.
        destruct Hx as [Hx|Hx]; [apply in_or_app; left; apply in_or_app; right|apply in_or_app; right]; eapply ptrs_in; eauto. }
      apply Forall_app. split; [|constructor; [split; [exact Hi'|exact Ha']|]].
      * rewrite Forall_forall in *. intros x Hx. apply Hoth; [left; exact Hx|apply Hh1; exact Hx].
      * rewrite Forall_forall in *. intros x Hx. apply Hoth; [right; exact Hx|apply Hh2'; exact Hx].
    + rewrite vec_ptrs_eq, hash_ptrs_eq, ptrs_app. cbn [ptrs flat_map]. fold (ptrs h_data l2).
      rewrite app_assoc. apply (nodup_replace_mid _ (optl (h_data h)) _ _ Hnd').
      destruct Hf as [Hs|(p & Hp0 & Hfr)].
      * left. rewrite Hs. reflexivity.
      * right. right. exists p. split; [rewrite Hp0; reflexivity|]. intros Hin.
        assert (Hin' : In p (vec_ptrs vs ++ hash_ptrs hs)).
        { rewrite vec_ptrs_eq, hash_ptrs_eq, Hhs, ptrs_app. cbn [ptrs flat_map]. fold (ptrs h_data l2).
          apply in_app_or in Hin. destruct Hin as [Hin|Hin].
          - apply in_app_or in Hin. apply in_or_app. destruct Hin as [Hin|Hin]; [left; exact Hin|right; apply in_or_app; left; exact Hin].
          - apply in_or_app. right. apply in_or_app. right. apply in_or_app. right. exact Hin. }
        destruct (all_ptrs_live isz (mkw2 a vs hs) p Hw Hin') as [m Hm]. exact (Hfr p m Hm eq_refl).
  - (* hash remove: no arena traffic, the bucket array stays *)
    destruct (nth_error hs k) as [h|] eqn:Eh; [|cbn [fst snd]; split; [left; reflexivity|exact Hw]].
    cbn [w2op_ok w2_hashes] in Hop. destruct Hop as [Hn Hcase]. specialize (Hcase h Eh).
    destruct (replace_nth_split hs k h Eh) as (l1 & l2 & Hhs & _ & Hrep).
    assert (Hh0 : hash_inv h /\ hash_arena_inv a h) by (rewrite Forall_forall in Hh; apply Hh; eapply nth_error_In; exact Eh).
    destruct Hh0 as [Hi Ha].
    cbn [fst snd]. split; [left; reflexivity|].
    assert (Hsame : h_data (snd (hash_remove h n)) = h_data h /\ h_count (snd (hash_remove h n)) = h_count h).
    { unfold hash_remove. destruct (remove_node _ _); cbn [snd]; split; reflexivity. }
    destruct Hsame as [Hd Hc].
    assert (Hi' : hash_inv (snd (hash_remove h n))).
    { destruct (hash_remove_refines h n Hi Hn) as [H1 H2]. destruct Hcase as [Hin|Hnot].
      - apply H1. exact Hin.
      - rewrite (H2 Hnot). exact Hi. }
    assert (Ha' : hash_arena_inv a (snd (hash_remove h n))) by (unfold hash_arena_inv in *; rewrite Hd, Hc; exact Ha).
    unfold world2_ok. cbn [w2_arena w2_vecs w2_hashes]. rewrite Hrep. split; [exact I|]. split; [exact Hv|]. split.
    + rewrite Hhs in Hh. apply Forall_app in Hh. destruct Hh as [Hh1 Hh2]. apply Forall_cons_iff in Hh2. destruct Hh2 as [_ Hh2'].
      apply Forall_app. split; [exact Hh1|]. constructor; [split; assumption|exact Hh2'].
    + rewrite vec_ptrs_eq, hash_ptrs_eq. rewrite Hhs in Hnd. rewrite !ptrs_app in *. cbn [ptrs flat_map] in *. rewrite Hd. exact Hnd.
  - (* reset of the shared arena: every container starts over *)
    cbn [fst snd]. split; [left; reflexivity|]. destruct (reset_sound a hard I) as (I' & _).
    unfold world2_ok. cbn [w2_arena w2_vecs w2_hashes]. split; [exact I'|]. split; [|split].
    + apply Forall_forall. intros v Hv'. apply in_map_iff in Hv'. destruct Hv' as (x & <- & _). apply vec_inv_empty.
    + apply Forall_forall. intros h Hh'. apply in_map_iff in Hh'. destruct Hh' as (x & <- & _). split; [apply hash_inv_empty|exact Logic.I].
    + rewrite vec_ptrs_reset, hash_ptrs_reset. constructor.
  - (* a release by another user of the arena *)
    cbn [w2op_ok w2_arena w2_vecs w2_hashes] in Hop. destruct Hop as [(m & Hin & Hc1 & Hc2) [Hnv Hnh]].
    cbn [fst snd]. split; [left; reflexivity|].
    destruct (free_reusable_sound a fp fsize m I Hin Hc1 Hc2) as [I' _].
    pose proof (free_keeps a fp fsize m I Hin Hc1 Hc2) as K.
    unfold world2_ok. cbn [w2_arena w2_vecs w2_hashes]. split; [exact I'|]. split; [|split].
    + rewrite Forall_forall in *. intros u Hu. destruct (Hv u Hu) as (U1 & U2 & U3 & U4).
      split; [exact U1|]. split; [exact U2|]. split; [exact U3|]. destruct (v_data u) as [q|] eqn:Eq; [|exact U4].
      destruct U4 as [Hc Hown]. split; [exact Hc|]. eapply owns_preserved; [exact K|exact Hown|].
      intros He. inversion He; subst q. apply Hnv. rewrite vec_ptrs_eq. eapply ptrs_in; eauto.
    + rewrite Forall_forall in *. intros h Hh'. destruct (Hh h Hh') as [Hi Ha]. split; [exact Hi|].
      unfold hash_arena_inv in *. destruct (h_data h) as [q|] eqn:Eq; [|exact Logic.I].
      eapply owns_preserved; [exact K|exact Ha|]. intros He. inversion He; subst q. apply Hnh. rewrite hash_ptrs_eq. eapply ptrs_in; eauto.
    + rewrite vec_ptrs_eq, hash_ptrs_eq. exact Hnd.
Qed.

(* every interleaving *)
Fixpoint w2run (t : list Z) (primes : list prow) (mok : Z -> bool) (isz : Z) (w : world2) (ops : list w2op) : world2 :=
  match ops with [] => w | op :: r => w2run t primes mok isz (snd (w2step t primes mok isz w op)) r end.
Fixpoint w2valid (t : list Z) (primes : list prow) (mok : Z -> bool) (isz : Z) (w : world2) (ops : list w2op) : Prop :=
  match ops with [] => True | op :: r => w2op_ok w op /\ w2valid t primes mok isz (snd (w2step t primes mok isz w op)) r end.

Theorem w2run_ok t primes mok isz ops : grow_table_ok t = true -> forallb row_ok primes = true -> 0 < isz <= 2048 ->
  forall w, world2_ok isz w -> w2valid t primes mok isz w ops -> world2_ok isz (w2run t primes mok isz w ops).
Proof.
  intros Ht Hp Hisz. induction ops as [|op r IH]; intros w Hw Hv; cbn [w2run]; [exact Hw|].
  destruct Hv as [Hop Hv]. apply IH; [|exact Hv]. apply (w2step_ok t primes mok isz w op Ht Hp Hisz Hw Hop).
Qed.

Lemma world2_ok_initial isz mbs st nv nh : 1024 <= mbs <= 2 ^ 62 -> (st = 0 \/ 16 <= st < 2 ^ 64) ->
  world2_ok isz (mkw2 (arena_init mbs st) (repeat vec_empty nv) (repeat hash_empty nh)).
Proof.
  intros Hm Hs. unfold world2_ok. cbn [w2_arena w2_vecs w2_hashes]. split; [apply inv_init; assumption|]. split; [|split].
  - apply Forall_forall. intros v Hv. apply repeat_spec in Hv. subst. apply vec_inv_empty.
  - apply Forall_forall. intros h Hh. apply repeat_spec in Hh. subst. split; [apply hash_inv_empty|exact Logic.I].
  - assert (E1 : vec_ptrs (repeat vec_empty nv) = []) by (induction nv; cbn; auto).
    assert (E2 : hash_ptrs (repeat hash_empty nh) = []) by (induction nh; cbn; auto).
    rewrite E1, E2. constructor.
Qed.

(* C18 (1) — bit vectors: executable model of support.h bit_vector_get_bit / set_bit / or_bit / xor_bit /
   fill / clear / index_of over an array of W-bit words (W = 32 or 64; the C++ is a template over the word type).
   A bit vector is a `list Z` of words, every word in [0, 2^W). No proofs here (BitVecProofs.v). *)
From Coq Require Import ZArith List Bool.
Import ListNotations.
Local Open Scope Z_scope.

Definition word_ok (W w : Z) : Prop := 0 <= w < 2 ^ W.
Definition words_ok (W : Z) (ws : list Z) : Prop := Forall (word_ok W) ws.
Definition zlen {A} (l : list A) : Z := Z.of_nat (length l).

(* count trailing zeros of a non-zero word *)
Fixpoint ctz_pos (p : positive) : Z :=
  match p with xO q => 1 + ctz_pos q | _ => 0 end.
Definition ctz (z : Z) : Z := match z with Zpos p => ctz_pos p | _ => 0 end.

(* (bit_ones<T> >> (W - n)) << b   computed in the word type *)
Definition range_mask (W n b : Z) : Z := Z.shiftl (Z.shiftr (Z.ones W) (W - n)) b mod 2 ^ W.
(* ~m in the word type *)
Definition wnot (W m : Z) : Z := Z.lxor m (Z.ones W).

Inductive bvop := OpFill | OpClear.
(* Or::op(w, m) / AndNot::op(w, m); the full-word operators Set / SetNot coincide with these on m = bit_ones *)
Definition apply_op (W : Z) (o : bvop) (w m : Z) : Z :=
  match o with OpFill => Z.lor w m | OpClear => Z.land w (wnot W m) end.

Definition nthw (ws : list Z) (i : Z) : Z := nth (Z.to_nat i) ws 0.
Fixpoint updw (ws : list Z) (i : nat) (v : Z) : list Z :=
  match ws, i with
  | [], _ => []
  | _ :: r, O => v :: r
  | w :: r, S k => w :: updw r k v
  end.

Definition bv_get (W : Z) (ws : list Z) (i : Z) : bool := Z.testbit (nthw ws (i / W)) (i mod W).

Definition bv_set (W : Z) (ws : list Z) (i : Z) (v : bool) : list Z :=
  let w := nthw ws (i / W) in
  let b := i mod W in
  updw ws (Z.to_nat (i / W)) (Z.lor (Z.land w (wnot W (Z.shiftl 1 b mod 2 ^ W))) (Z.shiftl (Z.b2z v) b mod 2 ^ W)).

Definition bv_or_bit (W : Z) (ws : list Z) (i : Z) (v : bool) : list Z :=
  updw ws (Z.to_nat (i / W)) (Z.lor (nthw ws (i / W)) (Z.shiftl (Z.b2z v) (i mod W) mod 2 ^ W)).

Definition bv_xor_bit (W : Z) (ws : list Z) (i : Z) (v : bool) : list Z :=
  updw ws (Z.to_nat (i / W)) (Z.lxor (nthw ws (i / W)) (Z.shiftl (Z.b2z v) (i mod W) mod 2 ^ W)).

(* Internal::bit_vector_op: `index` is relative to the head of `ws`. Words before index / W are skipped (buf += word_index),
   the first touched word gets the mask of min(W - bit_index, count) bits at bit_index, every following word the mask of
   min(W, remaining) bits at 0 (a full word while remaining >= W, then the last partial word). *)
Fixpoint bv_op (W : Z) (o : bvop) (ws : list Z) (index count : Z) : list Z :=
  match ws with
  | [] => []
  | w :: rest =>
    if count <=? 0 then ws
    else if W <=? index then w :: bv_op W o rest (index - W) count
    else let n := Z.min (W - index) count in
         apply_op W o w (range_mask W n index) :: bv_op W o rest 0 (count - n)
  end.

Definition bv_fill (W : Z) ws index count := bv_op W OpFill ws index count.
Definition bv_clear (W : Z) ws index count := bv_op W OpClear ws index count.

(* bit_vector_index_of(buf, start, value): first index >= start holding `value`; the C++ loop has no end test (the caller
   guarantees that such a bit exists) — the model returns None where the C++ would run off the array. *)
Fixpoint bv_index_of_rec (W : Z) (ws : list Z) (base start : Z) (value : bool) : option Z :=
  match ws with
  | [] => None
  | w :: rest =>
    if W <=? start then bv_index_of_rec W rest (base + W) (start - W) value
    else let bits := Z.land (Z.lxor w (if value then 0 else Z.ones W)) (Z.shiftl (Z.ones W) start mod 2 ^ W) in
         if bits =? 0 then bv_index_of_rec W rest (base + W) 0 value
         else Some (base + ctz bits)
  end.
Definition bv_index_of (W : Z) (ws : list Z) (start : Z) (value : bool) : option Z :=
  bv_index_of_rec W ws 0 start value.

(* the textbook side: the vector as a list of booleans *)
Fixpoint zseq (lo : Z) (n : nat) : list Z :=
  match n with O => [] | S k => lo :: zseq (lo + 1) k end.
Definition to_bits (W : Z) (ws : list Z) : list bool := map (bv_get W ws) (zseq 0 (Z.to_nat (W * zlen ws))).
Definition bits_fill (l : list bool) (i n : Z) (v : bool) : list bool :=
  firstn (Z.to_nat i) l ++ repeat v (Z.to_nat n) ++ skipn (Z.to_nat (i + n)) l.

(* C18 (6) — red-black tree, UNBOUNDED statements about any state of the node heap that passes the (proven) checker:
   `tree_state_ok` reads the heap into an abstract tree, checks the ordering and the red-black rules; if it returns true then
   get(k) finds exactly the members, the in-order traversal is the strictly sorted list of keys, the root is black, no red
   node has a red child, all paths have the same black height and the height is at most twice the black height.
   The correspondence run evaluates this checker on the model state after EVERY operation (ml/c18_driver.ml), so the
   semantics is established for every explored state of any size; that INSERT always leads to such a state is proved for
   trees of any size in TreeInsertAbs.v / TreeInsertRefine.v; for remove see design/C18.md. *)
From Coq Require Import ZArith List Bool Lia.
From Verif Require Import Containers.TreeModel.
Import ListNotations.
Local Open Scope Z_scope.

Inductive btree := BL | BN (l : btree) (id : Z) (red : bool) (k : Z) (r : btree).

Fixpoint bheight (t : btree) : nat := match t with BL => O | BN l _ _ _ r => S (Nat.max (bheight l) (bheight r)) end.
Fixpoint bkeys (t : btree) : list Z := match t with BL => [] | BN l _ _ k r => bkeys l ++ k :: bkeys r end.
Fixpoint bflat (t : btree) : list (Z * Z * bool) := match t with BL => [] | BN l id red k r => bflat l ++ (k, id, red) :: bflat r end.
Fixpoint lookup (t : btree) (key : Z) : Z :=
  match t with BL => 0 | BN l id _ k r => if k =? key then id else if k <? key then lookup r key else lookup l key end.
Fixpoint ids_nonzero (t : btree) : bool := match t with BL => true | BN l id _ _ r => negb (id =? 0) && ids_nonzero l && ids_nonzero r end.

(* the heap below node n is the abstract tree t *)
Fixpoint rep (h : ptrie) (n : Z) (t : btree) : Prop :=
  match t with
  | BL => n = 0
  | BN l id red k r => n = id /\ id <> 0 /\ is_red h id = red /\ key h id = k /\ rep h (child h id false) l /\ rep h (child h id true) r
  end.

(* reading the heap (fuel = maximal height) *)
Fixpoint extract (fuel : nat) (h : ptrie) (n : Z) : option btree :=
  match fuel with
  | O => None
  | S f => if n =? 0 then Some BL
           else match extract f h (child h n false), extract f h (child h n true) with
                | Some l, Some r => Some (BN l n (is_red h n) (key h n) r)
                | _, _ => None
                end
  end.

Lemma extract_sound fuel : forall h n t, extract fuel h n = Some t -> rep h n t /\ (bheight t < fuel)%nat.
Proof.
  induction fuel as [|f IH]; intros h n t H; cbn [extract] in H; [discriminate|].
  destruct (Z.eqb_spec n 0) as [->|Hn].
  - inversion H; subst. cbn. split; [reflexivity|lia].
  - destruct (extract f h (child h n false)) as [l|] eqn:El; [|discriminate].
    destruct (extract f h (child h n true)) as [r|] eqn:Er; [|discriminate].
    inversion H; subst. destruct (IH _ _ _ El) as [Hl Hhl]. destruct (IH _ _ _ Er) as [Hr Hhr].
    cbn. repeat split; auto. lia.
Qed.

(* ---- reading functions of the model agree with the abstract tree *)
Lemma get_loop_rep fuel : forall h n t k, rep h n t -> (bheight t < fuel)%nat -> get_loop fuel h n k = lookup t k.
Proof.
  induction fuel as [|f IH]; intros h n t k Hr Hh; [lia|].
  destruct t as [|l id red kk r]; cbn [rep] in Hr.
  - subst. reflexivity.
  - destruct Hr as (-> & Hid & _ & Hk & Hl & Hrr). cbn [get_loop lookup bheight] in *.
    destruct (Z.eqb_spec id 0); [contradiction|]. rewrite Hk.
    destruct (kk =? k); [reflexivity|].
    destruct (kk <? k); apply IH; auto; lia.
Qed.

Lemma inorder_rep fuel : forall h n t, rep h n t -> (bheight t < fuel)%nat -> inorder fuel h n = bflat t.
Proof.
  induction fuel as [|f IH]; intros h n t Hr Hh; [lia|].
  destruct t as [|l id red kk r]; cbn [rep] in Hr.
  - subst. reflexivity.
  - destruct Hr as (-> & Hid & Hred & Hk & Hl & Hrr). cbn [inorder bflat bheight] in *.
    destruct (Z.eqb_spec id 0); [contradiction|]. rewrite Hk, Hred.
    rewrite (IH h _ l Hl ltac:(lia)), (IH h _ r Hrr ltac:(lia)). reflexivity.
Qed.

Lemma bflat_keys t : map (fun x => fst (fst x)) (bflat t) = bkeys t.
Proof. induction t; cbn; [reflexivity|]. rewrite map_app. cbn. rewrite IHt1, IHt2. reflexivity. Qed.

(* ---- strictly sorted key lists *)
Lemma sortedb_cons a l : sortedb (a :: l) = true -> sortedb l = true /\ Forall (fun x => a < x) l.
Proof.
  revert a. induction l as [|b l IH]; intros a H; [split; [reflexivity|constructor]|].
  cbn [sortedb] in H. apply andb_prop in H. destruct H as [Hab Hs]. apply Z.ltb_lt in Hab.
  split; [exact Hs|]. constructor; [exact Hab|]. destruct (IH b Hs) as [_ Hf].
  eapply Forall_impl; [|exact Hf]. intros x Hx. simpl in Hx. lia.
Qed.

Lemma sortedb_app l1 k l2 : sortedb (l1 ++ k :: l2) = true ->
  sortedb l1 = true /\ sortedb l2 = true /\ Forall (fun x => x < k) l1 /\ Forall (fun x => k < x) l2.
Proof.
  induction l1 as [|a l1 IH]; intros H.
  - cbn in H. destruct (sortedb_cons _ _ H) as [H1 H2]. repeat split; auto.
  - change ((a :: l1) ++ k :: l2) with (a :: (l1 ++ k :: l2)) in H.
    destruct (sortedb_cons _ _ H) as [Hs Hf]. destruct (IH Hs) as (A & B & C & D).
    repeat split; auto.
    + destruct l1 as [|b l1]; [reflexivity|]. cbn [sortedb]. apply andb_true_intro. split; [|exact A].
      inversion Hf; subst. apply Z.ltb_lt. assumption.
    + constructor; [|exact C]. rewrite Forall_forall in Hf. apply Hf. apply in_or_app. right. left. reflexivity.
Qed.

(* lookup in a search tree: finds the node holding the key, exactly when the key is a member *)
Lemma lookup_member t key : sortedb (bkeys t) = true -> ids_nonzero t = true -> (lookup t key <> 0 <-> In key (bkeys t)).
Proof.
  induction t as [|l IHl id red k r IHr]; intros Hs Hi; cbn [lookup bkeys].
  - split; [intros H; contradiction|intros []].
  - cbn [bkeys] in Hs. destruct (sortedb_app _ _ _ Hs) as (Sl & Sr & Fl & Fr).
    cbn [ids_nonzero] in Hi. apply andb_prop in Hi. destruct Hi as [Hi Hir]. apply andb_prop in Hi. destruct Hi as [Hid Hil].
    apply negb_true_iff in Hid. apply Z.eqb_neq in Hid.
    rewrite Forall_forall in Fl, Fr.
    destruct (Z.eqb_spec k key) as [->|Hne].
    + split; [intros _; apply in_or_app; right; left; reflexivity|intros _; exact Hid].
    + destruct (Z.ltb_spec k key).
      * rewrite (IHr Sr Hir). split; [intros H'; apply in_or_app; right; right; exact H'|].
        intros H'. apply in_app_or in H'. destruct H' as [H'|[H'|H']]; [specialize (Fl _ H'); lia|contradiction|exact H'].
      * rewrite (IHl Sl Hil). split; [intros H'; apply in_or_app; left; exact H'|].
        intros H'. apply in_app_or in H'. destruct H' as [H'|[H'|H']]; [exact H'|contradiction|specialize (Fr _ H'); lia].
Qed.

(* ---- red-black rules on the abstract tree *)
Definition bred (t : btree) : bool := match t with BL => false | BN _ _ red _ _ => red end.
Fixpoint bbh (t : btree) : option Z :=
  match t with
  | BL => Some 1
  | BN l _ red _ r =>
    match bbh l, bbh r with
    | Some a, Some b => if negb (a =? b) then None else if red && (bred l || bred r) then None else Some (if red then a else a + 1)
    | _, _ => None
    end
  end.

(* a tree with black height b is at most 2b (+1 if its root is red) levels high, and b >= 1 *)
Lemma bbh_height t : forall b, bbh t = Some b -> 1 <= b /\ Z.of_nat (bheight t) <= 2 * (b - 1) + (if bred t then 1 else 0).
Proof.
  induction t as [|l IHl id red k r IHr]; intros b H; cbn [bbh bheight bred] in *.
  - inversion H; subst. cbn. lia.
  - destruct (bbh l) as [a|]; [|discriminate]. destruct (bbh r) as [c|]; [|discriminate].
    destruct (Z.eqb_spec a c) as [->|]; cbn [negb] in H; [|discriminate].
    destruct (IHl c eq_refl) as [Hl1 Hl2]. destruct (IHr c eq_refl) as [Hr1 Hr2].
    destruct red; cbn [andb] in H.
    + destruct (bred l) eqn:El; cbn [orb] in H; [discriminate|]. destruct (bred r) eqn:Er; [discriminate|].
      inversion H; subst. split; [lia|]. lia.
    + inversion H; subst. split; [lia|]. destruct (bred l), (bred r); lia.
Qed.

(* ---- the proven state checker *)
Definition tree_state_ok (t : tree) : bool :=
  match extract 200 (heap t) (root t) with
  | Some a => sortedb (bkeys a) && ids_nonzero a && negb (bred a) && (match bbh a with Some _ => true | None => false end)
  | None => false
  end.

Theorem tree_state_ok_sound t : tree_state_ok t = true ->
  exists a b, rep (heap t) (root t) a /\
    (* get finds exactly the members *)
    (forall k, tree_get t k <> 0 <-> In k (tree_keys t)) /\
    (forall k, tree_get t k = lookup a k) /\
    (* the in-order traversal is the strictly sorted key list of the abstract tree *)
    tree_keys t = bkeys a /\ tree_inorder t = bflat a /\ sortedb (tree_keys t) = true /\
    (* red-black rules: black root, black height b on every path with no red node having a red child, height bound *)
    bred a = false /\ bbh a = Some b /\ Z.of_nat (bheight a) <= 2 * (b - 1).
Proof.
  unfold tree_state_ok. destruct (extract 200 (heap t) (root t)) as [a|] eqn:E; [|discriminate].
  intros H. apply andb_prop in H. destruct H as [H Hb]. apply andb_prop in H. destruct H as [H Hr].
  apply andb_prop in H. destruct H as [Hs Hi]. apply negb_true_iff in Hr.
  destruct (bbh a) as [b|] eqn:Eb; [|discriminate].
  destruct (extract_sound _ _ _ _ E) as [Hrep Hh].
  assert (Hget : forall k, tree_get t k = lookup a k) by (intros k; unfold tree_get; apply get_loop_rep; assumption).
  assert (Hin : tree_inorder t = bflat a) by (unfold tree_inorder; apply inorder_rep; assumption).
  assert (Hk : tree_keys t = bkeys a) by (unfold tree_keys; rewrite Hin; apply bflat_keys).
  exists a, b. split; [exact Hrep|]. split.
  - intros k. rewrite Hget, Hk. apply lookup_member; assumption.
  - split; [exact Hget|]. split; [exact Hk|]. split; [exact Hin|]. split; [rewrite Hk; exact Hs|]. split; [exact Hr|]. split; [exact Eb|].
    destruct (bbh_height a b Eb) as [_ Hb2]. rewrite Hr in Hb2. lia.
Qed.

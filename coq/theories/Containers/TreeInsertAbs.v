(* C18 (6) — the top-down red-black insertion of ArenaTree::insert as a function on abstract trees with a path (zipper),
   iteration by iteration as the C++ loop runs (link or colour flip at q, single/double rotation at the grandparent, descent),
   and its UNBOUNDED correctness: red-black validity is kept and the in-order key sequence gains exactly the new key at its
   sorted position. TreeInsertRefine.v shows that the node-heap loop of TreeModel.v computes this function. *)
From Coq Require Import ZArith List Bool Lia.
From Verif Require Import Containers.TreeModel Containers.TreeGeneral Containers.TreeRotate.
Import ListNotations.
Local Open Scope Z_scope.

(* one step of the path: the node (id, colour, key), the direction taken and the subtree NOT taken *)
Record frame := mkf { f_dir : bool; f_id : Z; f_red : bool; f_key : Z; f_sib : btree }.
Definition fill (f : frame) (x : btree) : btree :=
  if f_dir f then BN (f_sib f) (f_id f) (f_red f) (f_key f) x else BN x (f_id f) (f_red f) (f_key f) (f_sib f).
(* the path is stored from the focus upwards *)
Fixpoint plug (Z : list frame) (x : btree) : btree := match Z with [] => x | f :: Z' => plug Z' (fill f x) end.
Definition blacken (t : btree) : btree := match t with BL => BL | BN l i _ k r => BN l i false k r end.
Definition sub (t : btree) (d : bool) : btree := match t with BL => BL | BN l _ _ _ r => if d then r else l end.

(* Clean: the variables g and t of the loop are the true grandparent / great-grandparent of q.
   NoRot1 / NoRot2: g or t lag behind (the first two iterations, and one or two iterations after a rotation); no rotation can
   happen in this iteration (NoRot1) or in this and the next one (NoRot2) *)
Inductive mode := Clean | NoRot1 | NoRot2.
Inductive zres := Done (t : btree) | Next (m : mode) (Z : list frame) (F : btree).

Section Insert.
Variables (node kn : Z).

(* q == nullptr: link the new red node; both children red: colour flip *)
Definition prep (F : btree) : btree :=
  match F with
  | BL => BN BL node true kn BL
  | BN l q c k r => if bred l && bred r then BN (blacken l) q true k (blacken r) else F
  end.

(* red q below red p: rotation at g; result (double?, path above the subtree rooted at q, that subtree) *)
Definition rotated (Z : list frame) (F1 : btree) : option (bool * list frame * btree) :=
  match Z with
  | fp :: fg :: Zt =>
    if bred F1 && f_red fp then
      let l := f_dir fg in
      if Bool.eqb (f_dir fp) l
      then Some (false, mkf l (f_id fp) false (f_key fp) (fill (mkf l (f_id fg) true (f_key fg) (f_sib fg)) (f_sib fp)) :: Zt, F1)
      else match F1 with
           | BN a q _ k b =>
             let ql := if l then b else a in let qnl := if l then a else b in
             let P := fill (mkf (negb l) (f_id fp) true (f_key fp) (f_sib fp)) ql in
             let G := fill (mkf l (f_id fg) true (f_key fg) (f_sib fg)) qnl in
             Some (true, Zt, fill (mkf l q false k G) P)
           | BL => None
           end
    else None
  | _ => None
  end.

Definition zstep (m : mode) (Z : list frame) (F : btree) : zres :=
  let F1 := prep F in
  let r := rotated Z F1 in
  let Z1 := match r with Some (_, Z1, _) => Z1 | None => Z end in
  let Q := match r with Some (_, _, Q) => Q | None => F1 end in
  let m' := match r with Some (true, _, _) => NoRot2 | Some (false, _, _) => NoRot1
                    | None => match m with NoRot2 => NoRot1 | _ => Clean end end in
  match F with
  | BL => Done (plug Z1 Q)
  | BN _ _ _ _ _ =>
    match Q with
    | BN a q c k b => let d := k <? kn in Next m' (mkf d q c k (if d then a else b) :: Z1) (if d then b else a)
    | BL => Done BL
    end
  end.

Fixpoint zloop (fuel : nat) (m : mode) (Z : list frame) (F : btree) : option btree :=
  match fuel with
  | O => None
  | S f => match zstep m Z F with Done t => Some t | Next m' Z' F' => zloop f m' Z' F' end
  end.

(* insert into a non-empty tree: the loop starts at the root with an empty path; the root is made black at the end *)
Definition zinsert (fuel : nat) (T : btree) : option btree :=
  match zloop fuel NoRot2 [] T with Some R => Some (blacken R) | None => None end.

(* ------------------------------------------------------------------ plug *)
Lemma plug_app Z1 Z2 x : plug (Z1 ++ Z2) x = plug Z2 (plug Z1 x).
Proof. revert x. induction Z1 as [|f Z1 IH]; intros x; cbn; [reflexivity|apply IH]. Qed.

Lemma bred_fill f x : bred (fill f x) = f_red f.
Proof. unfold fill. destruct (f_dir f); reflexivity. Qed.

Lemma bbh_fill_congr f x x' : bbh x = bbh x' -> bred x = bred x' -> bbh (fill f x) = bbh (fill f x').
Proof. intros H1 H2. unfold fill. destruct (f_dir f); cbn [bbh]; rewrite H1, H2; reflexivity. Qed.

Lemma bbh_plug_congr Z : forall x x', bbh x = bbh x' -> bred x = bred x' -> bbh (plug Z x) = bbh (plug Z x').
Proof.
  induction Z as [|f Z IH]; intros x x' H1 H2; cbn [plug]; [exact H1|].
  apply IH; [apply bbh_fill_congr; assumption|rewrite !bred_fill; reflexivity].
Qed.

Lemma bkeys_fill_congr f x x' : bkeys x = bkeys x' -> bkeys (fill f x) = bkeys (fill f x').
Proof. intros H. unfold fill. destruct (f_dir f); cbn [bkeys]; rewrite H; reflexivity. Qed.
Lemma bkeys_plug_congr Z : forall x x', bkeys x = bkeys x' -> bkeys (plug Z x) = bkeys (plug Z x').
Proof. induction Z as [|f Z IH]; intros x x' H; cbn [plug]; [exact H|]. apply IH. apply bkeys_fill_congr. exact H. Qed.
Lemma bids_fill_congr f x x' : bids x = bids x' -> bids (fill f x) = bids (fill f x').
Proof. intros H. unfold fill. destruct (f_dir f); cbn [bids]; rewrite H; reflexivity. Qed.
Lemma bids_plug_congr Z : forall x x', bids x = bids x' -> bids (plug Z x) = bids (plug Z x').
Proof. induction Z as [|f Z IH]; intros x x' H; cbn [plug]; [exact H|]. apply IH. apply bids_fill_congr. exact H. Qed.

(* validity of a part follows from validity of the whole *)
Lemma bbh_fill_inv f x b : bbh (fill f x) = Some b -> exists a, bbh x = Some a /\ bbh (f_sib f) = Some a /\
  (f_red f = true -> bred x = false /\ bred (f_sib f) = false) /\ b = (if f_red f then a else a + 1).
Proof.
  unfold fill. destruct (f_dir f); cbn [bbh]; intros H.
  - destruct (bbh (f_sib f)) as [s|]; [|discriminate]. destruct (bbh x) as [a|]; [|discriminate].
    destruct (Z.eqb_spec s a); cbn [negb] in H; [|discriminate]. subst s.
    destruct (f_red f); cbn [andb] in H.
    + destruct (bred (f_sib f)); cbn [orb] in H; [discriminate|]. destruct (bred x); [discriminate|].
      inversion H. exists a. repeat split; auto.
    + inversion H. exists a. repeat split; auto; discriminate.
  - destruct (bbh x) as [a|]; [|discriminate]. destruct (bbh (f_sib f)) as [s|]; [|discriminate].
    destruct (Z.eqb_spec a s); cbn [negb] in H; [|discriminate]. subst s.
    destruct (f_red f); cbn [andb] in H.
    + destruct (bred x); cbn [orb] in H; [discriminate|]. destruct (bred (f_sib f)); [discriminate|].
      inversion H. exists a. repeat split; auto.
    + inversion H. exists a. repeat split; auto; discriminate.
Qed.

Lemma bbh_plug_inv Z : forall x b, bbh (plug Z x) = Some b -> exists a, bbh x = Some a.
Proof.
  induction Z as [|f Z IH]; intros x b H; cbn [plug] in H; [eauto|].
  destruct (IH _ _ H) as [c Hc]. destruct (bbh_fill_inv _ _ _ Hc) as (a & Ha & _). eauto.
Qed.
End Insert.

(* ------------------------------------------------------------------ the invariant of the loop *)
Section Proofs.
Variables (node kn : Z).
Local Notation prep := (prep node kn).
Local Notation zstep := (zstep node kn).

(* a black node that will not be flipped *)
Definition nfb (F : btree) : bool := match F with BN l _ false _ r => negb (bred l && bred r) | _ => false end.
(* not both children red *)
Definition nbr (Q : btree) : bool := negb (bred (sub Q false) && bred (sub Q true)).
Definition bkey (t : btree) : Z := match t with BL => 0 | BN _ _ _ k _ => k end.
Definition bid (t : btree) : Z := match t with BL => 0 | BN _ i _ _ _ => i end.
Definition hd_red (Z : list frame) : bool := match Z with f :: _ => f_red f | [] => false end.
Definition hd_sib (Z : list frame) : btree := match Z with f :: _ => f_sib f | [] => BL end.
Definition uncle_black (Z : list frame) : Prop := match Z with _ :: fg :: _ => bred (f_sib fg) = false | _ => False end.
Definition dirs_ok (Z : list frame) : Prop := Forall (fun f => f_dir f = (f_key f <? kn)) Z.

Definition guard (m : mode) (Z : list frame) (F : btree) : Prop :=
  match m with
  | Clean => (2 <= length Z)%nat /\ (hd_red Z = true -> nfb F = true \/ uncle_black Z)
  | NoRot1 => (1 <= length Z)%nat /\ (hd_red Z = true -> nfb F = true)
  | NoRot2 => hd_red Z = false /\ (F <> BL -> bred (prep F) = true -> nfb (sub (prep F) (bkey (prep F) <? kn)) = true)
  end.

Definition AInv (m : mode) (Z : list frame) (F : btree) : Prop :=
  (exists b, bbh (plug Z F) = Some b) /\ dirs_ok Z /\ guard m Z F /\
  (m <> NoRot2 -> bred F && bred (hd_sib Z) = false).

Lemma bbh_red_inv l i k r a : bbh (BN l i true k r) = Some a ->
  bbh l = Some a /\ bbh r = Some a /\ bred l = false /\ bred r = false /\ bbh (BN l i false k r) = Some (a + 1).
Proof.
  cbn [bbh]. destruct (bbh l) as [x|]; [|discriminate]. destruct (bbh r) as [y|]; [|discriminate].
  destruct (Z.eqb_spec x y); cbn [negb]; [|discriminate]. subst y. cbn [andb].
  destruct (bred l); cbn [orb]; [discriminate|]. destruct (bred r); [discriminate|].
  intros H. inversion H; subst. repeat split; reflexivity.
Qed.

Lemma bbh_black_inv l i k r a : bbh (BN l i false k r) = Some a -> bbh l = Some (a - 1) /\ bbh r = Some (a - 1).
Proof.
  cbn [bbh]. destruct (bbh l) as [x|]; [|discriminate]. destruct (bbh r) as [y|]; [|discriminate].
  destruct (Z.eqb_spec x y); cbn [negb]; [|discriminate]. subst y. cbn [andb].
  intros H. inversion H; subst. replace (x + 1 - 1) with x by lia. split; reflexivity.
Qed.

Lemma bred_true_shape t : bred t = true -> exists l i k r, t = BN l i true k r.
Proof. destruct t as [|l i c k r]; cbn; [discriminate|]. intros ->. eauto. Qed.

(* link / flip keep the black height; the result never has two red children; a node that turned red has children that
   are black and will not be flipped *)
Lemma prep_spec F a : bbh F = Some a ->
  bbh (prep F) = Some a /\ nbr (prep F) = true /\ (bred F = true -> prep F = F) /\
  (F <> BL -> bred F = false -> bred (prep F) = true -> forall d, nfb (sub (prep F) d) = true).
Proof.
  intros H. destruct F as [|l q c k r]; unfold TreeInsertAbs.prep.
  - cbn in H. inversion H; subst. cbn. repeat split; auto; try discriminate.
  - destruct (bred l) eqn:El; cbn [andb].
    + destruct (bred r) eqn:Er.
      * destruct (bred_true_shape _ El) as (ll & li & lk & lr & ->). destruct (bred_true_shape _ Er) as (rl & ri & rk & rr & ->).
        destruct c.
        { exfalso. apply bbh_red_inv in H. destruct H as (_ & _ & Hc & _). cbn in Hc. discriminate. }
        apply bbh_black_inv in H. destruct H as [Hl Hr].
        destruct (bbh_red_inv _ _ _ _ _ Hl) as (L1 & L2 & L3 & L4 & L5).
        destruct (bbh_red_inv _ _ _ _ _ Hr) as (R1 & R2 & R3 & R4 & R5).
        split.
        { cbn [blacken]. change (bbh (BN (BN ll li false lk lr) q true k (BN rl ri false rk rr))) with
            (match bbh (BN ll li false lk lr), bbh (BN rl ri false rk rr) with
             | Some a0, Some b0 => if negb (a0 =? b0) then None else if true && (false || false) then None else Some a0
             | _, _ => None end).
          rewrite L5, R5. rewrite Z.eqb_refl. cbn. f_equal. lia. }
        split; [reflexivity|]. split; [discriminate|].
        intros _ _ _ d. destruct d; cbn; [rewrite R3, R4|rewrite L3, L4]; reflexivity.
      * split; [exact H|]. split; [unfold nbr; cbn; rewrite El, Er; reflexivity|]. split; [reflexivity|].
        intros _ Hc Hc'. cbn in Hc, Hc'. congruence.
    + split; [exact H|]. split; [unfold nbr; cbn; rewrite El; reflexivity|]. split; [reflexivity|].
      intros _ Hc Hc'. cbn in Hc, Hc'. congruence.
Qed.

Lemma nfb_prep F : nfb F = true -> prep F = F /\ bred F = false /\ F <> BL.
Proof.
  destruct F as [|l q c k r]; cbn [nfb]; [discriminate|]. destruct c; [discriminate|]. intros H.
  unfold TreeInsertAbs.prep. apply negb_true_iff in H. rewrite H. repeat split; auto; discriminate.
Qed.

Lemma bbh_fill_black f x x' : f_red f = false -> bbh x = bbh x' -> bbh (fill f x) = bbh (fill f x').
Proof. intros Hf H. unfold fill. destruct (f_dir f); cbn [bbh]; rewrite H, Hf; reflexivity. Qed.

(* the whole tree after the link / flip / rotation of one iteration *)
Definition after (Z : list frame) (F : btree) : btree :=
  match rotated Z (prep F) with Some (_, Z1, Q) => plug Z1 Q | None => plug Z (prep F) end.

(* no rotation: the parent is black or q did not turn red *)
Lemma norot_bbh fp F a : bbh F = Some a -> bred (prep F) && f_red fp = false -> bbh (fill fp (prep F)) = bbh (fill fp F).
Proof.
  intros Ha Hc. destruct (prep_spec F a Ha) as (P1 & P2 & P3 & P4).
  destruct (f_red fp) eqn:Ef.
  - rewrite andb_true_r in Hc. apply bbh_fill_congr; [congruence|].
    destruct (bred F) eqn:EF; [rewrite P3 by reflexivity; exact EF|exact Hc].
  - apply bbh_fill_black; [exact Ef|congruence].
Qed.

(* the rotation: same black height, black root *)
Lemma rot_bbh fp fg Zt F c : bbh (fill fg (fill fp F)) = Some c -> f_red fp = true -> bred (prep F) = true ->
  bred (f_sib fg) = false ->
  exists dbl Z1 Q Y, rotated (fp :: fg :: Zt) (prep F) = Some (dbl, Z1, Q) /\ plug Z1 Q = plug Zt Y /\
    bbh Y = Some c /\ bred Y = false /\ f_red fg = false.
Proof.
  intros H Hp Hq Hu.
  destruct (bbh_fill_inv _ _ _ H) as (a1 & H1 & Hsg & Hg & Hc). rewrite bred_fill in Hg.
  assert (Hgb : f_red fg = false) by (destruct (f_red fg); [destruct (Hg eq_refl); congruence|reflexivity]).
  rewrite Hgb in Hc. subst c.
  destruct (bbh_fill_inv _ _ _ H1) as (a & HF & Hsp & Hpb & Ha). rewrite Hp in Ha. subst a1.
  destruct (Hpb Hp) as [HFb Hspb].
  destruct (prep_spec F a HF) as (P1 & P2 & P3 & P4).
  cbn [rotated]. rewrite Hq, Hp. cbn [andb].
  destruct (Bool.eqb (f_dir fp) (f_dir fg)) eqn:Ed.
  - eexists _, _, _, _. split; [reflexivity|]. cbn [plug]. split; [reflexivity|].
    split; [|split; [apply bred_fill|exact Hgb]].
    unfold fill. cbn [f_dir f_id f_red f_key f_sib]. destruct (f_dir fg); cbn [bbh bred];
      rewrite ?P1, ?Hsg, ?Hsp, ?Hu, ?Hspb, ?Z.eqb_refl; cbn; rewrite ?Z.eqb_refl; reflexivity.
  - destruct (bred_true_shape _ Hq) as (x & q & k & y & E). rewrite E in *.
    destruct (bbh_red_inv _ _ _ _ _ P1) as (X1 & Y1 & X2 & Y2 & _).
    eexists _, _, _, _. split; [reflexivity|]. split; [reflexivity|].
    split; [|split; [apply bred_fill|exact Hgb]].
    unfold fill. cbn [f_dir f_id f_red f_key f_sib negb]. destruct (f_dir fg); cbn [bbh bred negb];
      rewrite ?X1, ?Y1, ?Hsg, ?Hsp, ?Hu, ?Hspb, ?X2, ?Y2, ?Z.eqb_refl; cbn; rewrite ?Z.eqb_refl; reflexivity.
Qed.

(* which guard excludes a rotation *)
Lemma guard_uncle m fp fg Zt F : guard m (fp :: fg :: Zt) F -> f_red fp = true -> bred (prep F) = true -> bred (f_sib fg) = false.
Proof.
  intros G Ep Eq. destruct m; cbn [guard hd_red] in G.
  - destruct G as [_ G]. destruct (G Ep) as [G1|G1]; [destruct (nfb_prep F G1) as (E1 & E2 & _); rewrite E1 in Eq; congruence|exact G1].
  - destruct G as [_ G]. destruct (nfb_prep F (G Ep)) as (E1 & E2 & _). rewrite E1 in Eq. congruence.
  - destruct G as [G _]. congruence.
Qed.

Lemma guard_single m fp F : guard m [fp] F -> bred (prep F) && f_red fp = false.
Proof.
  intros G. destruct (f_red fp) eqn:Ef; [|apply andb_false_r]. rewrite andb_true_r.
  destruct m; cbn [guard hd_red length] in G.
  - destruct G as [G _]. lia.
  - destruct G as [_ G]. destruct (nfb_prep F (G Ef)) as (E1 & E2 & _). rewrite E1. exact E2.
  - destruct G as [G _]. congruence.
Qed.

Theorem after_bbh m Z F : AInv m Z F -> bbh (after Z F) = bbh (plug Z F).
Proof.
  intros ((b & V) & D & G & S).
  destruct (bbh_plug_inv Z F b V) as [a Ha]. destruct (prep_spec F a Ha) as (P1 & P2 & P3 & P4).
  unfold after. destruct Z as [|fp [|fg Zt]].
  - cbn. congruence.
  - cbn [rotated plug]. apply norot_bbh with (a := a); [exact Ha|]. apply (guard_single m); exact G.
  - destruct (bred (prep F) && f_red fp) eqn:Ec.
    + apply andb_prop in Ec. destruct Ec as [Eq Ep].
      cbn [plug] in V. destruct (bbh_plug_inv Zt _ b V) as [c Hc].
      pose proof (guard_uncle m fp fg Zt F G Ep Eq) as Hu.
      destruct (rot_bbh fp fg Zt F c Hc Ep Eq Hu) as (dbl & Z1 & Q & Y & R1 & R2 & R3 & R4 & R5).
      rewrite R1, R2. cbn [plug]. apply bbh_plug_congr; [congruence|]. rewrite R4, bred_fill. symmetry; exact R5.
    + assert (Hn : rotated (fp :: fg :: Zt) (prep F) = None) by (cbn [rotated]; rewrite Ec; reflexivity). rewrite Hn. cbn [plug].
      apply bbh_plug_congr; [|rewrite !bred_fill; reflexivity].
      apply bbh_fill_congr; [apply norot_bbh with (a := a); assumption|rewrite !bred_fill; reflexivity].
Qed.

Lemma rotated_inv Z F1 dbl Z1 Q : rotated Z F1 = Some (dbl, Z1, Q) ->
  exists fp fg Zt, Z = fp :: fg :: Zt /\ bred F1 = true /\ f_red fp = true /\
    ((dbl = false /\ f_dir fp = f_dir fg /\ Q = F1 /\
      Z1 = mkf (f_dir fg) (f_id fp) false (f_key fp) (fill (mkf (f_dir fg) (f_id fg) true (f_key fg) (f_sib fg)) (f_sib fp)) :: Zt) \/
     (dbl = true /\ f_dir fp = negb (f_dir fg) /\ Z1 = Zt /\ exists x q k y, F1 = BN x q true k y /\
      Q = fill (mkf (f_dir fg) q false k (fill (mkf (f_dir fg) (f_id fg) true (f_key fg) (f_sib fg)) (if f_dir fg then x else y)))
               (fill (mkf (negb (f_dir fg)) (f_id fp) true (f_key fp) (f_sib fp)) (if f_dir fg then y else x)))).
Proof.
  destruct Z as [|fp [|fg Zt]]; cbn [rotated]; try discriminate.
  destruct (bred F1) eqn:E1; cbn [andb]; [|discriminate]. destruct (f_red fp) eqn:E2; [|discriminate].
  intros H. exists fp, fg, Zt. split; [reflexivity|]. split; [reflexivity|]. split; [exact E2|].
  destruct (Bool.eqb (f_dir fp) (f_dir fg)) eqn:Ed.
  - apply eqb_prop in Ed. inversion H; subst. left. repeat split; auto.
  - apply eqb_false_iff in Ed. destruct (bred_true_shape _ E1) as (x & q & k & y & ->). inversion H; subst. right.
    split; [reflexivity|]. split; [destruct (f_dir fp), (f_dir fg); auto; congruence|]. split; [reflexivity|].
    exists x, q, k, y. split; reflexivity.
Qed.

Lemma rotated_none Z F1 : rotated Z F1 = None -> (length Z <= 1)%nat \/ bred F1 && hd_red Z = false.
Proof.
  destruct Z as [|fp [|fg Zt]]; cbn [rotated length hd_red]; try (intros _; left; lia).
  destruct (bred F1 && f_red fp) eqn:E; [|intros _; right; reflexivity].
  destruct (Bool.eqb (f_dir fp) (f_dir fg)); [discriminate|]. apply andb_prop in E. destruct E as [E _].
  destruct (bred_true_shape _ E) as (x & q & k & y & ->). discriminate.
Qed.

Lemma descend_plug Z1 x q c k y (d : bool) :
  plug (mkf d q c k (if d then x else y) :: Z1) (if d then y else x) = plug Z1 (BN x q c k y).
Proof. cbn [plug]. unfold fill. cbn. destruct d; reflexivity. Qed.

Lemma prep_not_leaf F : prep F <> BL.
Proof. destruct F as [|l q c k r]; unfold TreeInsertAbs.prep; [discriminate|]. destruct (bred l && bred r); discriminate. Qed.

Lemma zstep_done m Z F R : zstep m Z F = Done R -> F = BL /\ R = after Z F.
Proof.
  unfold TreeInsertAbs.zstep, after. destruct F as [|l q c k r].
  - intros H. inversion H. split; [reflexivity|]. change (prep BL) with (BN BL node true kn BL). destruct (rotated Z (BN BL node true kn BL)) as [[[dbl Z1] Q]|]; reflexivity.
  - intros H. exfalso.
    destruct (rotated Z (prep (BN l q c k r))) as [[[dbl Z1] Q]|] eqn:ER.
    + destruct (rotated_inv _ _ _ _ _ ER) as (fp & fg & Zt & _ & _ & _ & [(_ & _ & -> & _)|(_ & _ & _ & x & q' & k' & y & _ & ->)]).
      * pose proof (prep_not_leaf (BN l q c k r)) as Hn. destruct (prep (BN l q c k r)); [contradiction|discriminate].
      * unfold fill in H. cbn in H. destruct (f_dir fg); discriminate.
    + pose proof (prep_not_leaf (BN l q c k r)) as Hn. destruct (prep (BN l q c k r)); [contradiction|discriminate].
Qed.

Lemma zstep_next_shape m Z F m' Z' F' : zstep m Z F = Next m' Z' F' ->
  F <> BL /\ exists Z1 x q c k y,
    (rotated Z (prep F) = None /\ Z1 = Z /\ BN x q c k y = prep F /\ m' = (match m with NoRot2 => NoRot1 | _ => Clean end)
     \/ exists dbl, rotated Z (prep F) = Some (dbl, Z1, BN x q c k y) /\ m' = if dbl then NoRot2 else NoRot1) /\
    Z' = mkf (k <? kn) q c k (if k <? kn then x else y) :: Z1 /\ F' = (if k <? kn then y else x).
Proof.
  unfold TreeInsertAbs.zstep. destruct F as [|fl fi fc fk fr]; [discriminate|]. intros H. split; [discriminate|].
  destruct (rotated Z (prep (BN fl fi fc fk fr))) as [[[dbl Z1] Q]|] eqn:ER.
  - destruct Q as [|x q c k y]; [discriminate|]. inversion H; subst. exists Z1, x, q, c, k, y.
    split; [right; exists dbl; split; [reflexivity|destruct dbl; reflexivity]|split; reflexivity].
  - destruct (prep (BN fl fi fc fk fr)) as [|x q c k y] eqn:EP; [discriminate|]. inversion H; subst.
    exists Z, x, q, c, k, y. split; [left; repeat split; reflexivity|split; reflexivity].
Qed.

Lemma nfb_black t : nfb t = true -> bred t = false.
Proof. destruct t as [|l i [|] k r]; cbn; auto; discriminate. Qed.

Lemma prep_one_black l q c k r : bred l && bred r = false -> prep (BN l q c k r) = BN l q c k r.
Proof. intros H. unfold TreeInsertAbs.prep. rewrite H. reflexivity. Qed.

(* a red parent in a valid tree: q and its sibling are black *)
Lemma red_parent_black fp Zr F b : bbh (plug (fp :: Zr) F) = Some b -> f_red fp = true -> bred F = false /\ bred (f_sib fp) = false.
Proof.
  cbn [plug]. intros V Hp. destruct (bbh_plug_inv _ _ _ V) as [c Hc].
  destruct (bbh_fill_inv _ _ _ Hc) as (a & _ & _ & H & _). exact (H Hp).
Qed.

Lemma nbr_children x q c k y (d : bool) : nbr (BN x q c k y) = true -> bred (if d then y else x) && bred (if d then x else y) = false.
Proof. unfold nbr. cbn [sub]. intros H. apply negb_true_iff in H. destruct d; [rewrite andb_comm|]; exact H. Qed.

Theorem zstep_next m Z F m' Z' F' : AInv m Z F -> zstep m Z F = Next m' Z' F' ->
  plug Z' F' = after Z F /\ AInv m' Z' F'.
Proof.
  intros A H. pose proof (after_bbh m Z F A) as Hbb. destruct A as ((b & V) & D & G & S).
  destruct (zstep_next_shape _ _ _ _ _ _ H) as (HF & Z1 & x & q & c & k & y & Hcase & -> & ->).
  destruct (bbh_plug_inv Z F b V) as [a Ha]. destruct (prep_spec F a Ha) as (P1 & P2 & P3 & P4).
  assert (Hplug : plug (mkf (k <? kn) q c k (if k <? kn then x else y) :: Z1) (if k <? kn then y else x) = after Z F).
  { rewrite descend_plug. unfold after. destruct Hcase as [(E1 & -> & E2 & _)|(dbl & E1 & _)]; rewrite E1; [rewrite <- E2|]; reflexivity. }
  split; [exact Hplug|].
  unfold AInv. split; [exists b; rewrite Hplug, Hbb; exact V|].
  destruct Hcase as [(E1 & -> & E2 & ->)|(dbl & E1 & ->)].
  - (* no rotation *)
    split; [constructor; [reflexivity|exact D]|].
    split.
    + assert (Hc : c = true -> (bred F = true /\ bred (hd_sib Z) = false /\ m <> NoRot2 \/ m = NoRot2) \/
                   nfb (if k <? kn then y else x) = true).
      { intros ->. destruct (bred F) eqn:EF.
        - left. destruct m; try (right; reflexivity); left; (split; [reflexivity|]); (split; [|discriminate]);
            (assert (S' : true && bred (hd_sib Z) = false) by (apply S; discriminate)); exact S'.
        - right. assert (Hq : bred (prep F) = true) by (rewrite <- E2; reflexivity).
          pose proof (P4 HF eq_refl Hq (k <? kn)) as N. rewrite <- E2 in N. exact N. }
      destruct m; cbn [guard hd_red f_red length] in *.
      * destruct G as [GL _]. split; [lia|]. intros Hcr. destruct (Hc Hcr) as [[(_ & Hs & _)|Hm]|N]; [|discriminate|left; exact N].
        right. destruct Z as [|fp Zr]; [cbn in GL; lia|]. exact Hs.
      * destruct G as [GL _]. split; [lia|]. intros Hcr. destruct (Hc Hcr) as [[(_ & Hs & _)|Hm]|N]; [|discriminate|left; exact N].
        right. destruct Z as [|fp Zr]; [cbn in GL; lia|]. exact Hs.
      * destruct G as [_ G2]. split; [lia|]. intros ->.
        assert (Hq : bred (prep F) = true) by (rewrite <- E2; reflexivity).
        pose proof (G2 HF Hq) as N. rewrite <- E2 in N. exact N.
    + intros _. cbn [hd_sib f_sib]. apply nbr_children with (q := q) (c := c) (k := k). rewrite E2. exact P2.
  - (* rotation *)
    destruct (rotated_inv _ _ _ _ _ E1) as (fp & fg & Zt & -> & Hq & Hp & Hrot).
    destruct (red_parent_black _ _ _ _ V Hp) as [HFb Hspb].
    assert (Dp : f_dir fp = (f_key fp <? kn)) by (inversion D; assumption).
    assert (Dg : f_dir fg = (f_key fg <? kn)) by (inversion D as [|? ? _ D']; inversion D'; assumption).
    assert (Dt : dirs_ok Zt) by (inversion D as [|? ? _ D']; inversion D'; assumption).
    destruct Hrot as [(-> & Hd & E2 & ->)|(-> & Hd & -> & x0 & q0 & k0 & y0 & E2 & EQ)].
    + (* single *)
      split; [constructor; [reflexivity|constructor; [cbn [f_dir f_key]; congruence|exact Dt]]|].
      split.
      * cbn [guard hd_red f_red length]. split; [lia|]. intros ->.
        pose proof (P4 HF HFb Hq (k <? kn)) as N. rewrite <- E2 in N. exact N.
      * intros _. cbn [hd_sib f_sib]. apply nbr_children with (q := q) (c := c) (k := k). rewrite E2. exact P2.
    + (* double *)
      split; [constructor; [reflexivity|exact Dt]|].
      assert (Nl : forall d : bool, nfb (if d then y0 else x0) = true).
      { intros d. pose proof (P4 HF HFb Hq d) as N. rewrite E2 in N. exact N. }
      split; [|intros Hm; exfalso; apply Hm; reflexivity].
      unfold fill in EQ. cbn [f_dir f_id f_red f_key f_sib] in EQ.
      destruct (f_dir fg) eqn:El; cbn [negb] in EQ; inversion EQ; subst x q c k y; clear EQ;
        cbn [guard hd_red f_red]; (split; [reflexivity|]); intros _ _;
        destruct (k0 <? kn).
      all: rewrite prep_one_black by (rewrite ?Hspb, ?(nfb_black _ (Nl true)), ?(nfb_black _ (Nl false)), ?andb_false_r; reflexivity).
      all: cbn [bkey sub]; rewrite <- ?Dp, <- ?Dg, ?Hd, ?El; cbn [negb].
      all: first [exact (Nl true)|exact (Nl false)].
Qed.

(* ------------------------------------------------------------------ keys and node identities *)
Lemma bkeys_fill f x : bkeys (fill f x) = if f_dir f then bkeys (f_sib f) ++ f_key f :: bkeys x else bkeys x ++ f_key f :: bkeys (f_sib f).
Proof. unfold fill. destruct (f_dir f); reflexivity. Qed.
Lemma bids_fill f x : bids (fill f x) = if f_dir f then bids (f_sib f) ++ f_id f :: bids x else bids x ++ f_id f :: bids (f_sib f).
Proof. unfold fill. destruct (f_dir f); reflexivity. Qed.

Lemma blacken_keys t : bkeys (blacken t) = bkeys t /\ bids (blacken t) = bids t.
Proof. destruct t; split; reflexivity. Qed.

Lemma prep_keys F : F <> BL -> bkeys (prep F) = bkeys F /\ bids (prep F) = bids F.
Proof.
  destruct F as [|l q c k r]; [intros H; contradiction|]. intros _. unfold TreeInsertAbs.prep.
  destruct (bred l && bred r); [|split; reflexivity]. cbn [bkeys bids].
  destruct (blacken_keys l) as [-> ->]. destruct (blacken_keys r) as [-> ->]. split; reflexivity.
Qed.

Lemma rotated_keys Z F1 dbl Z1 Q : rotated Z F1 = Some (dbl, Z1, Q) ->
  bkeys (plug Z1 Q) = bkeys (plug Z F1) /\ bids (plug Z1 Q) = bids (plug Z F1).
Proof.
  intros H. destruct (rotated_inv _ _ _ _ _ H) as (fp & fg & Zt & -> & _ & _ & [(_ & Hd & -> & ->)|(_ & Hd & -> & x & q & k & y & -> & ->)]);
    cbn [plug]; (split; [apply bkeys_plug_congr|apply bids_plug_congr]);
    rewrite ?bkeys_fill, ?bids_fill; cbn [f_dir f_id f_red f_key f_sib]; rewrite ?bkeys_fill, ?bids_fill; cbn [f_dir f_id f_red f_key f_sib];
    rewrite ?Hd; destruct (f_dir fg); cbn [negb bkeys bids];
    repeat (rewrite <- app_assoc || rewrite <- app_comm_cons); reflexivity.
Qed.

Lemma after_keys Z F : bkeys (after Z F) = bkeys (plug Z (prep F)) /\ bids (after Z F) = bids (plug Z (prep F)).
Proof.
  unfold after. destruct (rotated Z (prep F)) as [[[dbl Z1] Q]|] eqn:E; [|split; reflexivity].
  apply (rotated_keys _ _ _ _ _ E).
Qed.

(* the keys / ids left and right of the focus *)
Fixpoint lctx (zs : list frame) : list BinNums.Z :=
  match zs with [] => [] | f :: Z' => lctx Z' ++ (if f_dir f then bkeys (f_sib f) ++ [f_key f] else []) end.
Fixpoint rctx (zs : list frame) : list BinNums.Z :=
  match zs with [] => [] | f :: Z' => (if f_dir f then [] else f_key f :: bkeys (f_sib f)) ++ rctx Z' end.
Fixpoint lidx (zs : list frame) : list BinNums.Z :=
  match zs with [] => [] | f :: Z' => lidx Z' ++ (if f_dir f then bids (f_sib f) ++ [f_id f] else []) end.
Fixpoint ridx (zs : list frame) : list BinNums.Z :=
  match zs with [] => [] | f :: Z' => (if f_dir f then [] else f_id f :: bids (f_sib f)) ++ ridx Z' end.

Lemma plug_keys Z : forall X, bkeys (plug Z X) = lctx Z ++ bkeys X ++ rctx Z.
Proof.
  induction Z as [|f Z IH]; intros X; cbn [plug lctx rctx]; [rewrite app_nil_r; reflexivity|].
  rewrite IH, bkeys_fill. destruct (f_dir f); repeat (rewrite <- app_assoc || rewrite <- app_comm_cons); cbn [app]; reflexivity.
Qed.
Lemma plug_ids Z : forall X, bids (plug Z X) = lidx Z ++ bids X ++ ridx Z.
Proof.
  induction Z as [|f Z IH]; intros X; cbn [plug lidx ridx]; [rewrite app_nil_r; reflexivity|].
  rewrite IH, bids_fill. destruct (f_dir f); repeat (rewrite <- app_assoc || rewrite <- app_comm_cons); cbn [app]; reflexivity.
Qed.

Definition lt_all (l1 l2 : list BinNums.Z) : Prop := forall x y, In x l1 -> In y l2 -> x < y.

Lemma sortedb_cons_intro a l : Forall (fun x => a < x) l -> sortedb l = true -> sortedb (a :: l) = true.
Proof.
  destruct l as [|b l]; [reflexivity|]. intros HF Hs. inversion HF; subst. cbn [sortedb].
  apply andb_true_intro. split; [apply Z.ltb_lt; assumption|exact Hs].
Qed.

Lemma sortedb_app_iff l1 l2 : sortedb (l1 ++ l2) = true <-> sortedb l1 = true /\ sortedb l2 = true /\ lt_all l1 l2.
Proof.
  induction l1 as [|a l1 IH].
  - cbn [app]. split; [intros H; repeat split; auto; intros x y []|intros (_ & H & _); exact H].
  - change ((a :: l1) ++ l2) with (a :: (l1 ++ l2)). split.
    + intros H. destruct (sortedb_cons _ _ H) as [Hs Hf]. apply IH in Hs. destruct Hs as (S1 & S2 & L).
      rewrite Forall_forall in Hf. split.
      * apply sortedb_cons_intro; [|exact S1]. apply Forall_forall. intros x Hx. apply Hf. apply in_or_app. left. exact Hx.
      * split; [exact S2|]. intros x y [<-|Hx] Hy; [apply Hf; apply in_or_app; right; exact Hy|apply L; assumption].
    + intros (S1 & S2 & L). destruct (sortedb_cons _ _ S1) as [S1' Hf]. rewrite Forall_forall in Hf.
      apply sortedb_cons_intro.
      * apply Forall_forall. intros x Hx. apply in_app_or in Hx. destruct Hx as [Hx|Hx]; [apply Hf; exact Hx|apply L; [left; reflexivity|exact Hx]].
      * apply IH. split; [exact S1'|]. split; [exact S2|]. intros x y Hx Hy. apply L; [right; exact Hx|exact Hy].
Qed.

(* the search path brackets the new key: everything left of the focus is smaller, everything right of it larger *)
Lemma ctx_bounds Z : dirs_ok Z -> sortedb (lctx Z ++ rctx Z) = true -> ~ In kn (lctx Z ++ rctx Z) ->
  (forall x, In x (lctx Z) -> x < kn) /\ (forall y, In y (rctx Z) -> kn < y).
Proof.
  induction Z as [|f Z IH]; intros D Hs Hn; cbn [lctx rctx] in *; [split; intros ? []|].
  inversion D as [|? ? Df D']; subst.
  set (A := if f_dir f then bkeys (f_sib f) ++ [f_key f] else []) in *.
  set (B := if f_dir f then [] else f_key f :: bkeys (f_sib f)) in *.
  rewrite <- app_assoc in Hs, Hn.
  apply sortedb_app_iff in Hs. destruct Hs as (SL & Hs & LL).
  apply sortedb_app_iff in Hs. destruct Hs as (SA & Hs & LA).
  apply sortedb_app_iff in Hs. destruct Hs as (SB & SR & LB).
  assert (Hs' : sortedb (lctx Z ++ rctx Z) = true).
  { apply sortedb_app_iff. split; [exact SL|]. split; [exact SR|]. intros x y Hx Hy. apply LL; [exact Hx|].
    apply in_or_app. right. apply in_or_app. right. exact Hy. }
  assert (Hn' : ~ In kn (lctx Z ++ rctx Z)).
  { intros H. apply Hn. apply in_app_or in H. apply in_or_app. destruct H as [H|H]; [left; exact H|].
    right. apply in_or_app. right. apply in_or_app. right. exact H. }
  destruct (IH D' Hs' Hn') as [IL IR].
  destruct (f_dir f) eqn:Ed; subst A B.
  - symmetry in Df. apply Z.ltb_lt in Df. split.
    + intros x Hx. apply in_app_or in Hx. destruct Hx as [Hx|Hx]; [apply IL; exact Hx|].
      apply in_app_or in Hx. destruct Hx as [Hx|[<-|[]]]; [|exact Df].
      apply sortedb_app_iff in SA. destruct SA as (_ & _ & L). specialize (L x (f_key f) Hx (or_introl eq_refl)). lia.
    + intros y Hy. cbn [app] in Hy. apply IR. exact Hy.
  - symmetry in Df. apply Z.ltb_ge in Df.
    assert (Hk : kn < f_key f).
    { destruct (Z.eq_dec (f_key f) kn) as [E|E]; [|lia]. exfalso. apply Hn. apply in_or_app. right. cbn [app]. left. exact E. }
    split.
    + intros x Hx. rewrite app_nil_r in Hx. apply IL. exact Hx.
    + intros y Hy. apply in_app_or in Hy. destruct Hy as [[<-|Hy]|Hy]; [exact Hk| |apply IR; exact Hy].
      destruct (sortedb_cons _ _ SB) as [_ Hf]. rewrite Forall_forall in Hf. specialize (Hf y Hy). lia.
Qed.

Lemma sorted_insert_mid L R : sortedb (L ++ R) = true -> (forall x, In x L -> x < kn) -> (forall y, In y R -> kn < y) ->
  sortedb (L ++ kn :: R) = true.
Proof.
  intros Hs HL HR. apply sortedb_app_iff in Hs. destruct Hs as (SL & SR & LLR). apply sortedb_app_iff.
  split; [exact SL|]. split; [apply sortedb_cons_intro; [apply Forall_forall; exact HR|exact SR]|].
  intros x y Hx [<-|Hy]; [apply HL; exact Hx|apply LLR; assumption].
Qed.

(* ------------------------------------------------------------------ termination: a potential that decreases in every iteration *)
Definition pot (m : mode) (F : btree) : nat :=
  match m with NoRot2 => 2 * bheight (sub (prep F) (bkey (prep F) <? kn)) + 1 | _ => 2 * bheight F end.

Lemma bheight_blacken t : bheight (blacken t) = bheight t.
Proof. destruct t; reflexivity. Qed.
Lemma bheight_prep F : F <> BL -> bheight (prep F) = bheight F.
Proof.
  destruct F as [|l q c k r]; [intros H; contradiction|]. intros _. unfold TreeInsertAbs.prep.
  destruct (bred l && bred r); [|reflexivity]. cbn [bheight]. rewrite !bheight_blacken. reflexivity.
Qed.
Lemma bheight_child x q c k y (d : bool) : (bheight (if d then y else x) < bheight (BN x q c k y))%nat.
Proof. cbn [bheight]. destruct d; lia. Qed.

Theorem zstep_pot m Z F m' Z' F' : AInv m Z F -> zstep m Z F = Next m' Z' F' -> (pot m' F' < pot m F)%nat.
Proof.
  intros A H. destruct A as ((b & V) & D & G & S).
  destruct (zstep_next_shape _ _ _ _ _ _ H) as (HF & Z1 & x & q & c & k & y & Hcase & -> & ->).
  destruct (bbh_plug_inv Z F b V) as [a Ha]. destruct (prep_spec F a Ha) as (P1 & P2 & P3 & P4).
  pose proof (bheight_prep F HF) as Hh.
  destruct Hcase as [(E1 & -> & E2 & ->)|(dbl & E1 & ->)].
  - pose proof (bheight_child x q c k y (k <? kn)) as Hc. rewrite E2, Hh in Hc.
    destruct m; cbn [pot]; try lia. rewrite <- E2. cbn [bkey sub]. lia.
  - destruct (rotated_inv _ _ _ _ _ E1) as (fp & fg & Zt & -> & Hq & Hp & Hrot).
    assert (Hm : pot m F = (2 * bheight F)%nat).
    { destruct m; try reflexivity. cbn [guard hd_red] in G. destruct G as [G _]. congruence. }
    rewrite Hm.
    destruct (red_parent_black _ _ _ _ V Hp) as [HFb Hspb].
    assert (Dp : f_dir fp = (f_key fp <? kn)) by (inversion D; assumption).
    assert (Dg : f_dir fg = (f_key fg <? kn)) by (inversion D as [|? ? _ D']; inversion D'; assumption).
    destruct Hrot as [(-> & Hd & E2 & ->)|(-> & Hd & -> & x0 & q0 & k0 & y0 & E2 & EQ)].
    + pose proof (bheight_child x q c k y (k <? kn)) as Hc. rewrite E2, Hh in Hc. cbn [pot]. lia.
    + assert (Nl : forall d : bool, nfb (if d then y0 else x0) = true).
      { intros d. pose proof (P4 HF HFb Hq d) as N. rewrite E2 in N. exact N. }
      assert (Hc : forall d : bool, (bheight (if d then y0 else x0) < bheight F)%nat).
      { intros d. pose proof (bheight_child x0 q0 true k0 y0 d) as Hc. rewrite <- E2, Hh in Hc. exact Hc. }
      unfold fill in EQ. cbn [f_dir f_id f_red f_key f_sib] in EQ.
      destruct (f_dir fg) eqn:El; cbn [negb] in EQ; inversion EQ; subst x q c k y; clear EQ; cbn [pot];
        destruct (k0 <? kn).
      all: rewrite prep_one_black by (rewrite ?Hspb, ?(nfb_black _ (Nl true)), ?(nfb_black _ (Nl false)), ?andb_false_r; reflexivity).
      all: cbn [bkey sub]; rewrite <- ?Dp, <- ?Dg, ?Hd, ?El; cbn [negb].
      all: first [pose proof (Hc true) as Hc'; cbn in Hc'; lia|pose proof (Hc false) as Hc'; cbn in Hc'; lia].
Qed.

(* ------------------------------------------------------------------ the loop *)
Definition result_ok (W R : btree) : Prop :=
  bbh R = bbh W /\
  (sortedb (bkeys W) = true -> ~ In kn (bkeys W) ->
     sortedb (bkeys R) = true /\ exists L Rr, bkeys W = L ++ Rr /\ bkeys R = L ++ kn :: Rr) /\
  (exists L Rr, bids W = L ++ Rr /\ bids R = L ++ node :: Rr).

Theorem zloop_correct : forall fuel m Z F, AInv m Z F -> (pot m F < fuel)%nat ->
  exists R, zloop node kn fuel m Z F = Some R /\ result_ok (plug Z F) R.
Proof.
  induction fuel as [|fuel IH]; intros m Z F A Hf; [lia|]. cbn [zloop].
  destruct (zstep m Z F) as [R|m' Z' F'] eqn:Es.
  - destruct (zstep_done _ _ _ _ Es) as [-> ->]. exists (after Z BL). split; [reflexivity|].
    split; [apply (after_bbh m); exact A|].
    destruct (after_keys Z BL) as [Ek Ei]. rewrite Ek, Ei, !plug_keys, !plug_ids.
    change (prep BL) with (BN BL node true kn BL). cbn [bkeys bids app].
    destruct A as (_ & D & _ & _). split.
    + intros Hs Hn. destruct (ctx_bounds Z D Hs Hn) as [HL HR].
      split; [apply sorted_insert_mid; assumption|]. exists (lctx Z), (rctx Z). split; reflexivity.
    + exists (lidx Z), (ridx Z). split; reflexivity.
  - destruct (zstep_next _ _ _ _ _ _ A Es) as [Hp A']. pose proof (zstep_pot _ _ _ _ _ _ A Es) as Hpot.
    destruct (IH m' Z' F' A' ltac:(lia)) as (R & HR & Hok). exists R. split; [exact HR|].
    destruct (zstep_next_shape _ _ _ _ _ _ Es) as (HF & _).
    destruct (after_keys Z F) as [Ek Ei]. destruct (prep_keys F HF) as [Pk Pi].
    rewrite (bkeys_plug_congr Z _ _ Pk) in Ek. rewrite (bids_plug_congr Z _ _ Pi) in Ei.
    unfold result_ok in *. rewrite Hp in Hok. rewrite (after_bbh m Z F A), Ek, Ei in Hok. exact Hok.
Qed.

(* insert into a non-empty valid red-black tree *)
Theorem zinsert_correct fuel T b : bbh T = Some b -> bred T = false -> T <> BL -> (2 * bheight T + 1 < fuel)%nat ->
  exists R, zinsert node kn fuel T = Some R /\ bred R = false /\ (bbh R = Some b \/ bbh R = Some (b + 1)) /\
    (sortedb (bkeys T) = true -> ~ In kn (bkeys T) ->
       sortedb (bkeys R) = true /\ exists L Rr, bkeys T = L ++ Rr /\ bkeys R = L ++ kn :: Rr) /\
    (exists L Rr, bids T = L ++ Rr /\ bids R = L ++ node :: Rr).
Proof.
  intros Hb Hr Hn Hf.
  assert (A : AInv NoRot2 [] T).
  { split; [exists b; exact Hb|]. split; [constructor|]. split; [|intros H; contradiction].
    cbn [guard hd_red]. split; [reflexivity|]. intros _ Hq.
    destruct (prep_spec T b Hb) as (_ & _ & _ & P4). apply P4; assumption. }
  assert (Hp : (pot NoRot2 T < fuel)%nat).
  { cbn [pot]. pose proof (bheight_prep T Hn) as Hh. destruct (prep T) as [|x q c k y] eqn:E; [cbn; lia|].
    pose proof (bheight_child x q c k y (k <? kn)) as Hc. cbn [bkey sub]. lia. }
  destruct (zloop_correct fuel NoRot2 [] T A Hp) as (R & HR & Hbb & Hk & Hi). cbn [plug] in *.
  unfold zinsert. rewrite HR. exists (blacken R). split; [reflexivity|].
  destruct (blacken_keys R) as [-> ->].
  split; [destruct R; reflexivity|]. split; [|split; [exact Hk|exact Hi]].
  rewrite Hb in Hbb. destruct R as [|l i [|] k r]; cbn [blacken].
  - left. exact Hbb.
  - right. apply bbh_red_inv in Hbb. tauto.
  - left. exact Hbb.
Qed.

Lemma AInv_init T b : bbh T = Some b -> bred T = false -> AInv NoRot2 [] T.
Proof.
  intros Hb Hr. split; [exists b; exact Hb|]. split; [constructor|]. split; [|intros H; contradiction].
  cbn [guard hd_red]. split; [reflexivity|]. intros Hn Hq.
  destruct (prep_spec T b Hb) as (_ & _ & _ & P4). apply P4; assumption.
Qed.

Lemma pot_init T : T <> BL -> (pot NoRot2 T < 2 * bheight T + 1)%nat.
Proof.
  intros Hn. cbn [pot]. pose proof (bheight_prep T Hn) as Hh. destruct (prep T) as [|x q c k y] eqn:E; [exfalso; exact (prep_not_leaf T E)|].
  pose proof (bheight_child x q c k y (k <? kn)) as Hc. cbn [bkey sub]. lia.
Qed.
End Proofs.
